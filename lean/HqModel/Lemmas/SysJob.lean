import HqModel.Sys.Model
import HqModel.Lemmas.JobSteps
import HqModel.Lemmas.IntArray
/-!
The job layer (M4) seen through the *task-state view* `tst js t` (the state of task `t = (job, task)` in the job
table, `none` when the job or the task is not stored): for every tako callback and every client request
* `…_spec`: what a successful call did to the view, to `sent` and to the known workers;
* `…_ok`: a sufficient condition, on the view, for the call not to panic.
These are the facts the coupling invariant of the composed system is built from (`Lemmas/SysInv*.lean`).
-/
namespace HqModel.Sys
open HqModel HqModel.Job

/-! ### the view -/

def tstJ (jobs : List Job) (t : TaskId) : Option TState :=
  match findJob jobs t.1 with
  | some job => lookup job.tasks t.2
  | none => none

/-- state of task `t` in the job layer -/
def tst (js : Job.State) (t : TaskId) : Option TState := tstJ js.jobs t

/-- known and not terminal (`waiting` / `running`) -/
def live : Option TState → Bool
  | some st => !st.terminal
  | none => false

theorem live_iff {o : Option TState} : live o = true ↔ o = some .waiting ∨ o = some .running := by
  cases o with
  | none => simp [live]
  | some st => cases st <;> simp [live, TState.terminal]

theorem live_some {o : Option TState} (h : live o = true) : ∃ st, o = some st ∧ st.terminal = false := by
  cases o with
  | none => simp [live] at h
  | some st => exact ⟨st, rfl, by simpa [live] using h⟩

theorem live_running : live (some .running) = true := rfl
theorem live_waiting : live (some .waiting) = true := rfl

/-! ### association lists -/

theorem lookup_setState (ts : List (Nat × TState)) (t : Nat) (b : TState) (x : Nat) :
    lookup (setState ts t b) x = if x = t then (lookup ts x).map (fun _ => b) else lookup ts x := by
  induction ts with
  | nil => simp [setState, lookup]
  | cons p ps ih =>
    obtain ⟨k, v⟩ := p
    by_cases hk : k = t
    · subst hk
      by_cases hx : x = k
      · subst hx; simp [setState, lookup]
      · have : ¬ k = x := fun e => hx e.symm
        simp [setState, lookup, this, hx, ih]
    · by_cases hx : x = t
      · subst hx
        by_cases hkx : k = x
        · exact absurd hkx hk
        · simp [setState, lookup, hk, ih]
      · by_cases hkx : k = x
        · subst hkx; simp [setState, lookup, hk, hx]
        · simp [setState, lookup, hk, hkx, ih, hx]

theorem lookup_append_one (ts : List (Nat × TState)) (t : Nat) (b : TState) (x : Nat) :
    lookup (ts ++ [(t, b)]) x = match lookup ts x with
      | some v => some v
      | none => if x = t then some b else none := by
  induction ts with
  | nil =>
    by_cases h : t = x
    · subst h; simp [lookup]
    · have : ¬ x = t := fun e => h e.symm
      simp [lookup, h, this]
  | cons p ps ih =>
    obtain ⟨k, v⟩ := p
    by_cases hk : k = x
    · simp [lookup, hk]
    · simp [lookup, hk, ih]

theorem findJob_replaceJob (jobs : List Job) (job' : Job) (j : Nat) :
    findJob (replaceJob jobs job') j = if j = job'.id then (findJob jobs j).map (fun _ => job') else findJob jobs j := by
  induction jobs with
  | nil => simp [replaceJob, findJob]
  | cons y ys ih =>
    by_cases hy : y.id = job'.id
    · by_cases hj : j = job'.id
      · subst hj; simp [replaceJob, findJob, hy]
      · have : ¬ job'.id = j := fun e => hj e.symm
        have h2 : ¬ y.id = j := fun e => hj (e.symm.trans hy)
        simp [replaceJob, findJob, hy, hj, this, h2, ih]
    · by_cases hj : j = job'.id
      · subst hj; simp [replaceJob, findJob, hy, ih]
      · by_cases hyj : y.id = j
        · simp [replaceJob, findJob, hy, hyj, hj]
        · simp [replaceJob, findJob, hy, hyj, hj, ih]

theorem findJob_append_one (jobs : List Job) (job' : Job) (j : Nat) :
    findJob (jobs ++ [job']) j = match findJob jobs j with
      | some x => some x
      | none => if job'.id = j then some job' else none := by
  induction jobs with
  | nil => simp [findJob]
  | cons y ys ih =>
    by_cases hy : y.id = j
    · simp [findJob, hy]
    · simp [findJob, hy, ih]

theorem findJob_filter_ne (jobs : List Job) (j x : Nat) :
    findJob (jobs.filter (·.id != j)) x = if x = j then none else findJob jobs x := by
  induction jobs with
  | nil => simp [findJob]
  | cons y ys ih =>
    by_cases hy : y.id = j
    · have hf : (y.id != j) = false := by simp [hy]
      simp only [List.filter_cons, hf, Bool.false_eq_true, if_false, ih]
      by_cases hx : x = j
      · simp [hx]
      · have : ¬ y.id = x := fun e => hx (e.symm.trans hy)
        simp [hx, findJob, this]
    · have hf : (y.id != j) = true := by simpa using hy
      simp only [List.filter_cons, hf, if_true, findJob, ih]
      by_cases hyx : y.id = x
      · have : ¬ x = j := fun e => hy (hyx.trans e)
        simp [hyx, this]
      · simp [hyx]

/-- the view after one job record is replaced -/
theorem tstJ_replace {jobs : List Job} {job job' : Job} {j : Nat} (hj : findJob jobs j = some job)
    (hid : job'.id = j) (x : TaskId) :
    tstJ (replaceJob jobs job') x = if x.1 = j then lookup job'.tasks x.2 else tstJ jobs x := by
  simp only [tstJ, findJob_replaceJob, hid]
  by_cases hx : x.1 = j
  · simp [hx, hj]
  · simp [hx]

theorem tst_putJob {js : Job.State} {job job' : Job} {j : Nat} (hj : js.getJob j = some job)
    (hid : job'.id = j) (x : TaskId) :
    tst (js.putJob job') x = if x.1 = j then lookup job'.tasks x.2 else tst js x :=
  tstJ_replace hj hid x

theorem tst_of_getJob {js : Job.State} {job : Job} {j : Nat} (hj : js.getJob j = some job) (x : Nat) :
    tst js (j, x) = lookup job.tasks x := by
  simp only [tst, tstJ]
  show (match findJob js.jobs j with | some job => lookup job.tasks x | none => none) = _
  rw [show findJob js.jobs j = some job from hj]

theorem getJob_of_tst {js : Job.State} {t : TaskId} (h : (tst js t).isSome) :
    ∃ job, js.getJob t.1 = some job ∧ lookup job.tasks t.2 = tst js t := by
  simp only [tst, tstJ] at h ⊢
  cases hf : findJob js.jobs t.1 with
  | none => rw [hf] at h; simp at h
  | some job => exact ⟨job, hf, by simp⟩

theorem mem_removeAll {l ids : List TaskId} {x : TaskId} : x ∈ removeAll l ids ↔ x ∈ l ∧ x ∉ ids := by
  simp [removeAll, List.mem_filter]

/-! ### single-task transitions of a job record -/

structure SameMeta (job job' : Job) : Prop where
  id : job'.id = job.id
  isOpen : job'.isOpen = job.isOpen
  maxFails : job'.maxFails = job.maxFails

theorem SameMeta.refl (job : Job) : SameMeta job job := ⟨rfl, rfl, rfl⟩
theorem SameMeta.trans {a b c : Job} (h1 : SameMeta a b) (h2 : SameMeta b c) : SameMeta a c :=
  ⟨h2.id.trans h1.id, h2.isOpen.trans h1.isOpen, h2.maxFails.trans h1.maxFails⟩

/-- what a `started` report does to the state of the task -/
def startedSt : Option TState → Option TState
  | some .waiting => some .running
  | o => o

theorem setRunning_spec {job job' : Job} {t : Nat} (h : job.setRunning t = .ok job') :
    SameMeta job job' ∧ (lookup job.tasks t).isSome ∧
    ∀ x, lookup job'.tasks x = if x = t then startedSt (lookup job.tasks t) else lookup job.tasks x := by
  unfold Job.setRunning at h
  split at h
  · cases h
  · rename_i hl
    cases h
    refine ⟨⟨rfl, rfl, rfl⟩, by simp [hl], ?_⟩
    intro x
    simp only [lookup_setState, hl]
    by_cases hx : x = t
    · subst hx; simp [hl, startedSt]
    · simp [hx]
  · rename_i st hne hl
    cases h
    refine ⟨⟨rfl, rfl, rfl⟩, by simp [hl], ?_⟩
    intro x
    by_cases hx : x = t
    · subst hx
      simp only [if_true, hl]
      cases st <;> first | rfl | exact absurd rfl (hne)
    · simp [hx]

theorem setRunning_ok {job : Job} {t : Nat} (h : (lookup job.tasks t).isSome) : ∃ job', job.setRunning t = .ok job' := by
  unfold Job.setRunning
  cases hl : lookup job.tasks t with
  | none => rw [hl] at h; simp at h
  | some st => cases st <;> exact ⟨_, rfl⟩

theorem setFinished_spec {job job' : Job} {t : Nat} {evs : List Ev} (h : job.setFinished t = .ok (job', evs)) :
    SameMeta job job' ∧ lookup job.tasks t = some .running ∧
    ∀ x, lookup job'.tasks x = if x = t then some .finished else lookup job.tasks x := by
  unfold Job.setFinished at h
  split at h
  · cases h
  · rename_i hl
    cases h
    refine ⟨⟨rfl, rfl, rfl⟩, hl, ?_⟩
    intro x
    simp only [lookup_setState]
    by_cases hx : x = t
    · subst hx; simp [hl]
    · simp [hx]
  · cases h

theorem setFinished_ok {job : Job} {t : Nat} (h : lookup job.tasks t = some .running) :
    ∃ r, job.setFinished t = .ok r := by
  unfold Job.setFinished
  rw [h]
  exact ⟨_, rfl⟩

theorem setWaiting_spec' {job job' : Job} {t : Nat} (h : job.setWaiting t = .ok job') :
    SameMeta job job' ∧ lookup job.tasks t = some .running ∧
    ∀ x, lookup job'.tasks x = if x = t then some .waiting else lookup job.tasks x := by
  unfold Job.setWaiting at h
  split at h
  · cases h
  · rename_i hl
    cases h
    refine ⟨⟨rfl, rfl, rfl⟩, hl, ?_⟩
    intro x
    simp only [lookup_setState]
    by_cases hx : x = t
    · subst hx; simp [hl]
    · simp [hx]
  · cases h

theorem setWaiting_ok {job : Job} {t : Nat} (h : lookup job.tasks t = some .running) :
    ∃ r, job.setWaiting t = .ok r := by
  unfold Job.setWaiting
  rw [h]
  exact ⟨_, rfl⟩

theorem setFailed_spec {job job' : Job} {t : Nat} {evs : List Ev} (h : job.setFailed t = .ok (job', evs)) :
    SameMeta job job' ∧ live (lookup job.tasks t) = true ∧
    ∀ x, lookup job'.tasks x = if x = t then some .failed else lookup job.tasks x := by
  unfold Job.setFailed at h
  split at h
  · cases h
  · rename_i hl
    cases h
    refine ⟨⟨rfl, rfl, rfl⟩, by rw [hl]; rfl, ?_⟩
    intro x
    simp only [lookup_setState]
    by_cases hx : x = t
    · subst hx; simp [hl]
    · simp [hx]
  · rename_i hl
    cases h
    refine ⟨⟨rfl, rfl, rfl⟩, by rw [hl]; rfl, ?_⟩
    intro x
    simp only [lookup_setState]
    by_cases hx : x = t
    · subst hx; simp [hl]
    · simp [hx]
  · cases h

theorem setFailed_ok {job : Job} {t : Nat} (h : live (lookup job.tasks t) = true) :
    ∃ r, job.setFailed t = .ok r := by
  unfold Job.setFailed
  rcases live_iff.mp h with e | e <;> rw [e] <;> exact ⟨_, rfl⟩

/-! ### the batch loop of cancel / abort -/

theorem markAll_spec' (target : TState) (site : String) :
    ∀ (ids : List TaskId) (job job' : Job), job.markAll target site ids = .ok job' →
      SameMeta job job' ∧ (∀ p ∈ ids, p.1 = job.id) ∧
      ∀ x, lookup job'.tasks x = if x ∈ ids.map (·.2) then some target else lookup job.tasks x := by
  intro ids
  induction ids with
  | nil =>
    intro job job' h
    simp only [Job.markAll] at h
    cases h
    exact ⟨SameMeta.refl _, by simp, by simp⟩
  | cons p rest ih =>
    intro job job' h
    obtain ⟨j, t⟩ := p
    simp only [Job.markAll] at h
    split at h
    · cases h
    · rename_i hj
      have hj' : j = job.id := by simpa using hj
      have fin : ∀ (cnt : Counters), lookup job.tasks t ≠ none →
          Job.markAll { job with tasks := setState job.tasks t target, cnt := cnt } target site rest = .ok job' →
          SameMeta job job' ∧ (∀ p ∈ (j, t) :: rest, p.1 = job.id) ∧
          ∀ x, lookup job'.tasks x = if x ∈ ((j, t) :: rest).map (·.2) then some target else lookup job.tasks x := by
        intro cnt hne h
        obtain ⟨m, hall, hl⟩ := ih _ _ h
        refine ⟨⟨m.id, m.isOpen, m.maxFails⟩, ?_, ?_⟩
        · intro p hp
          rcases List.mem_cons.mp hp with e | e
          · subst e; exact hj'
          · exact hall p e
        · intro x
          rw [hl x]
          simp only [lookup_setState, List.map_cons, List.mem_cons]
          by_cases hx : x ∈ rest.map (·.2)
          · simp [hx]
          · by_cases hxt : x = t
            · subst hxt
              cases hlk : lookup job.tasks x with
              | none => exact absurd hlk hne
              | some v => simp [hx]
            · simp [hx, hxt]
      split at h
      · cases h
      · rename_i hl; exact fin _ (by rw [hl]; simp) h
      · rename_i hl
        have : job = { job with tasks := job.tasks, cnt := job.cnt } := rfl
        exact fin job.cnt (by rw [hl]; simp) h
      · cases h

theorem markAll_ok (target : TState) (site : String) :
    ∀ (ids : List TaskId) (job : Job), (∀ p ∈ ids, p.1 = job.id) → (ids.map (·.2)).Nodup →
      (∀ p ∈ ids, live (lookup job.tasks p.2) = true) → ∃ job', job.markAll target site ids = .ok job' := by
  intro ids
  induction ids with
  | nil => intro job _ _ _; exact ⟨job, rfl⟩
  | cons p rest ih =>
    intro job hid hnd hlive
    obtain ⟨j, t⟩ := p
    have hj : j = job.id := hid (j, t) (by simp)
    simp only [List.map_cons, List.nodup_cons] at hnd
    have hrest : ∀ (cnt : Counters),
        ∃ job', Job.markAll { job with tasks := setState job.tasks t target, cnt := cnt } target site rest = .ok job' := by
      intro cnt
      apply ih
      · intro p hp; exact hid p (by simp [hp])
      · exact hnd.2
      · intro p hp
        have hne : p.2 ≠ t := fun e => hnd.1 (e ▸ List.mem_map_of_mem (f := (·.2)) hp)
        simp only [lookup_setState, hne, if_false]
        exact hlive p (by simp [hp])
    have hl := hlive (j, t) (by simp)
    simp only [Job.markAll, hj, bne_self_eq_false, Bool.false_eq_true, if_false]
    rcases live_iff.mp hl with e | e
    · simp only [] at e; rw [e]; exact hrest _
    · simp only [] at e; rw [e]; exact hrest _

theorem abortTasks_spec {job job' : Job} {ids : List TaskId} {evs : List Ev}
    (h : job.abortTasks ids = .ok (job', evs)) :
    SameMeta job job' ∧ (∀ p ∈ ids, p.1 = job.id) ∧
    ∀ x, lookup job'.tasks x = if x ∈ ids.map (·.2) then some .aborted else lookup job.tasks x := by
  unfold Job.abortTasks at h
  split at h
  · rename_i he
    cases h
    have : ids = [] := by simpa using he
    subst this
    exact ⟨SameMeta.refl _, by simp, by simp⟩
  · split at h
    · cases h
    · rename_i job1 hm
      cases h
      obtain ⟨m, a, b⟩ := markAll_spec' _ _ _ _ _ hm
      exact ⟨⟨m.id, m.isOpen, m.maxFails⟩, a, b⟩

theorem abortTasks_ok {job : Job} {ids : List TaskId} (hid : ∀ p ∈ ids, p.1 = job.id) (hnd : (ids.map (·.2)).Nodup)
    (hlive : ∀ p ∈ ids, live (lookup job.tasks p.2) = true) : ∃ r, job.abortTasks ids = .ok r := by
  unfold Job.abortTasks
  split
  · exact ⟨_, rfl⟩
  · obtain ⟨job', hm⟩ := markAll_ok .aborted "abort_tasks" ids job hid hnd hlive
    rw [hm]; exact ⟨_, rfl⟩

theorem setCancel_spec {job job' : Job} {ids : List TaskId} {evs : List Ev}
    (h : job.setCancel ids = .ok (job', evs)) :
    SameMeta job job' ∧ (∀ p ∈ ids, p.1 = job.id) ∧
    ∀ x, lookup job'.tasks x = if x ∈ ids.map (·.2) then some .canceled else lookup job.tasks x := by
  unfold Job.setCancel at h
  split at h
  · rename_i he
    cases h
    have : ids = [] := by simpa using he
    subst this
    exact ⟨SameMeta.refl _, by simp, by simp⟩
  · split at h
    · cases h
    · rename_i job1 hm
      cases h
      obtain ⟨m, a, b⟩ := markAll_spec' _ _ _ _ _ hm
      exact ⟨⟨m.id, m.isOpen, m.maxFails⟩, a, b⟩

theorem setCancel_ok {job : Job} {ids : List TaskId} (hid : ∀ p ∈ ids, p.1 = job.id) (hnd : (ids.map (·.2)).Nodup)
    (hlive : ∀ p ∈ ids, live (lookup job.tasks p.2) = true) : ∃ r, job.setCancel ids = .ok r := by
  unfold Job.setCancel
  split
  · exact ⟨_, rfl⟩
  · obtain ⟨job', hm⟩ := markAll_ok .canceled "set_cancel_state" ids job hid hnd hlive
    rw [hm]; exact ⟨_, rfl⟩

/-- the non-terminal ids of a job with unique task ids -/
theorem mem_nonFinished {job : Job} (hnd : (keys job.tasks).Nodup) (x : Nat) :
    x ∈ job.nonFinishedTaskIds ↔ live (lookup job.tasks x) = true := by
  simp only [Job.nonFinishedTaskIds, List.mem_map, List.mem_filter]
  constructor
  · rintro ⟨p, ⟨hp, ht⟩, rfl⟩
    rw [lookup_of_mem hnd (a := p.2) hp]
    simpa [live] using ht
  · intro h
    obtain ⟨st, hs, ht⟩ := live_some h
    exact ⟨(x, st), ⟨lookup_mem hs, by simpa using ht⟩, rfl⟩

theorem nonFinished_nodup {job : Job} (hnd : (keys job.tasks).Nodup) : job.nonFinishedTaskIds.Nodup := by
  simp only [Job.nonFinishedTaskIds]
  exact ((List.filter_sublist).map _).nodup hnd

end HqModel.Sys
