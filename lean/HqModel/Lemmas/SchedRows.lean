import HqModel.Lemmas.SchedCount
/-!
Lemmas for C15, part 5: which rows `milpOf` contains — membership in `cutRowsFrom`, the shape of the gap/zero rows
on a one-worker cluster, the `B` rows, and monotonicity of `≤` rows.
-/
namespace HqModel.Sched

theorem mem_dedupAux {α} [DecidableEq α] {a : α} : ∀ {l seen : List α}, a ∈ dedupAux l seen ↔ a ∈ l ∧ a ∉ seen
  | [], seen => by simp [dedupAux]
  | a' :: l, seen => by
    simp only [dedupAux]
    split
    · rename_i hin
      rw [mem_dedupAux (l := l)]
      constructor
      · rintro ⟨h1, h2⟩; exact ⟨by simp [h1], h2⟩
      · rintro ⟨h1, h2⟩
        rcases List.mem_cons.mp h1 with rfl | h1
        · exact absurd hin h2
        · exact ⟨h1, h2⟩
    · rename_i hnin
      rw [List.mem_cons, mem_dedupAux (l := l)]
      constructor
      · rintro (rfl | ⟨h1, h2⟩)
        · exact ⟨by simp, hnin⟩
        · exact ⟨by simp [h1], fun h => h2 (by simp [h])⟩
      · rintro ⟨h1, h2⟩
        by_cases he : a = a'
        · left; exact he
        · right
          rcases List.mem_cons.mp h1 with h1 | h1
          · exact absurd h1 he
          · exact ⟨h1, by simp [he, h2]⟩

theorem sum_map_le {α} {f g : α → Nat} : ∀ {l : List α}, (∀ a ∈ l, f a ≤ g a) → (l.map f).sum ≤ (l.map g).sum
  | [], _ => by simp
  | a :: rest, h => by
    have := sum_map_le (f := f) (g := g) (l := rest) fun b hb => h b (by simp [hb])
    have := h a (by simp)
    simp only [List.map_cons, List.sum_cons]; omega

/-- a `≤` row stays satisfied when no variable grows -/
theorem holds_of_le {r : Row} {x y : Assign} (hge : r.ge = false) (h : ∀ t ∈ r.terms, y t.1 ≤ x t.1) :
    r.holds x → r.holds y := by
  have : r.lhs y ≤ r.lhs x := by
    unfold Row.lhs
    exact sum_map_le fun t ht => Nat.mul_le_mul_left _ (h t ht)
  unfold Row.holds
  simp only [hge, Bool.false_eq_true, ↓reduceIte]
  omega

/-! ### membership in `cutRowsFrom` -/

theorem mem_cutRowsFrom {inst : Instance} {bs : List Batch} {b : Batch} {r : Row} :
    ∀ {cuts earlier : List Cut}, r ∈ cutRowsFrom inst bs b earlier cuts →
    ∃ pre cut post, cuts = pre ++ cut :: post ∧ r ∈ cutRows inst bs b (earlier ++ pre) cut
  | [], _, h => by simp [cutRowsFrom] at h
  | cut :: rest, earlier, h => by
    simp only [cutRowsFrom, List.mem_append] at h
    rcases h with h | h
    · exact ⟨[], cut, rest, rfl, by simpa using h⟩
    · obtain ⟨pre, c, post, he, hr⟩ := mem_cutRowsFrom h
      exact ⟨cut :: pre, c, post, by simp [he], by simpa using hr⟩

theorem cutRows_sub {inst : Instance} {bs : List Batch} {b : Batch} {r : Row} {cut : Cut} {post : List Cut} :
    ∀ {pre earlier : List Cut}, r ∈ cutRows inst bs b (earlier ++ pre) cut →
    r ∈ cutRowsFrom inst bs b earlier (pre ++ cut :: post)
  | [], earlier, h => by
    simp only [List.nil_append, cutRowsFrom, List.mem_append]
    left; simpa using h
  | c :: pre, earlier, h => by
    simp only [List.cons_append, cutRowsFrom, List.mem_append]
    right
    exact cutRows_sub (pre := pre) (earlier := earlier ++ [c]) (by simpa using h)

/-! ### one worker -/

def theP (inst : Instance) (w : Worker) (c : Nat) : List (Var × Nat) :=
  if hasP inst w c then [(.P w.id c, 1)] else []

theorem capableWorkers_one {inst : Instance} {w : Worker} (hw : inst.workers = [w]) (c : Nat) :
    capableWorkers inst c = if capable inst c w = true then [w] else [] := by
  simp only [capableWorkers, hw, List.filter_cons, List.filter_nil]

theorem gapRows_form {inst : Instance} {w : Worker} (hw : inst.workers = [w]) {bs : List Batch} {b : Batch}
    {cut : Cut} {c' : Nat} {s? : Option Nat} {r : Row} (hr : r ∈ gapRows inst bs b cut c' s?) :
    r.ge = false ∧ gap inst c' b.rq w ≠ 0 ∧
      ((∃ s, s? = some s ∧ r.bound = cut.size + b.size + gap inst c' b.rq w ∧
          r.terms = theP inst w b.rq ++ [(.B c' s, b.size)]) ∨
       (s? = none ∧ r.bound = cut.size + gap inst c' b.rq w ∧ r.terms = theP inst w b.rq)) := by
  simp only [gapRows, capableWorkers_one hw, List.mem_filterMap] at hr
  obtain ⟨w', hw', hr⟩ := hr
  split at hw'
  · simp only [List.mem_singleton] at hw'
    subst hw'
    split at hr
    · cases hr
    · rename_i hg
      cases s? with
      | none =>
        simp only [Option.some.injEq] at hr
        subst hr
        exact ⟨rfl, hg, Or.inr ⟨rfl, rfl, rfl⟩⟩
      | some s =>
        simp only at hr
        split at hr
        · cases hr
        · simp only [Option.some.injEq] at hr
          subst hr
          exact ⟨rfl, hg, Or.inl ⟨s, rfl, rfl, rfl⟩⟩
  · simp at hw'

theorem zeroCond_one {inst : Instance} {w : Worker} (hw : inst.workers = [w]) (b : Batch) (c' : Nat) :
    zeroCond inst b c' =
      if capable inst c' w = true ∧ gap inst c' b.rq w = 0 ∧ hasP inst w b.rq = true then [.P w.id b.rq] else [] := by
  simp only [zeroCond, capableWorkers_one hw]
  by_cases h1 : capable inst c' w = true
  · by_cases h2 : gap inst c' b.rq w = 0
    · cases h3 : hasP inst w b.rq <;> simp [h1, h2, h3]
    · simp [h1, h2]
  · simp [h1]

theorem zeroRows_form {inst : Instance} {w : Worker} (hw : inst.workers = [w]) {bs : List Batch} {b : Batch}
    {cut : Cut} {c' : Nat} {s? : Option Nat} {flag : Bool} {r : Row} (hr : r ∈ zeroRows inst bs b cut c' s? flag) :
    r.ge = false ∧ gap inst c' b.rq w = 0 ∧
      ((∃ s, s? = some s ∧ r.bound = b.size + cut.size ∧ r.terms = [(.P w.id b.rq, 1), (.B c' s, b.size)]) ∨
       (s? = none ∧ r.bound = cut.size ∧ r.terms = [(.P w.id b.rq, 1)])) := by
  simp only [zeroRows, zeroCond_one hw] at hr
  split at hr
  · rename_i hc
    obtain ⟨_, hg, _⟩ := hc
    simp only [List.isEmpty_cons, Bool.false_eq_true, ↓reduceIte] at hr
    cases s? with
    | none =>
      simp only at hr
      split at hr
      · simp only [List.mem_singleton] at hr
        subst hr
        exact ⟨rfl, hg, Or.inr ⟨rfl, rfl, rfl⟩⟩
      · simp at hr
    | some s =>
      simp only at hr
      split at hr
      · simp at hr
      · simp only [List.mem_singleton] at hr
        subst hr
        exact ⟨rfl, hg, Or.inl ⟨s, rfl, rfl, rfl⟩⟩
  · simp at hr

/-- the gap row of a cut with a bounded blocker is present -/
theorem gapRow_some_mem {inst : Instance} {w : Worker} (hw : inst.workers = [w]) {bs : List Batch} {b : Batch}
    {cut : Cut} {c' s : Nat} (hcap : capable inst c' w = true) (hg : gap inst c' b.rq w ≠ 0)
    (hcv : (countVarsOf inst bs c').isEmpty = false) :
    ({ ge := false, bound := cut.size + b.size + gap inst c' b.rq w,
       terms := theP inst w b.rq ++ [(.B c' s, b.size)] } : Row) ∈ gapRows inst bs b cut c' (some s) := by
  simp only [gapRows, capableWorkers_one hw, hcap, ↓reduceIte, List.mem_filterMap, List.mem_singleton]
  refine ⟨w, rfl, ?_⟩
  simp [hg, hcv, theP]

theorem gapRow_none_mem {inst : Instance} {w : Worker} (hw : inst.workers = [w]) {bs : List Batch} {b : Batch}
    {cut : Cut} {c' : Nat} (hcap : capable inst c' w = true) (hg : gap inst c' b.rq w ≠ 0) :
    ({ ge := false, bound := cut.size + gap inst c' b.rq w, terms := theP inst w b.rq } : Row) ∈
      gapRows inst bs b cut c' none := by
  simp only [gapRows, capableWorkers_one hw, hcap, ↓reduceIte, List.mem_filterMap, List.mem_singleton]
  refine ⟨w, rfl, ?_⟩
  simp [hg, theP]

theorem zeroRow_some_mem {inst : Instance} {w : Worker} (hw : inst.workers = [w]) {bs : List Batch} {b : Batch}
    {cut : Cut} {c' s : Nat} {flag : Bool} (hcap : capable inst c' w = true) (hg : gap inst c' b.rq w = 0)
    (hp : hasP inst w b.rq = true) (hcv : (countVarsOf inst bs c').isEmpty = false) :
    ({ ge := false, bound := b.size + cut.size, terms := [(.P w.id b.rq, 1), (.B c' s, b.size)] } : Row) ∈
      zeroRows inst bs b cut c' (some s) flag := by
  simp [zeroRows, zeroCond_one hw, hcap, hg, hp, hcv]

theorem zeroRow_none_mem {inst : Instance} {w : Worker} (hw : inst.workers = [w]) {bs : List Batch} {b : Batch}
    {cut : Cut} {c' : Nat} (hcap : capable inst c' w = true) (hg : gap inst c' b.rq w = 0)
    (hp : hasP inst w b.rq = true) :
    ({ ge := false, bound := cut.size, terms := [(.P w.id b.rq, 1)] } : Row) ∈
      zeroRows inst bs b cut c' none true := by
  simp [zeroRows, zeroCond_one hw, hcap, hg, hp]

/-- rows of one (cut, blocker) are rows of the batch -/
theorem cutRows_mem_of_blocker {inst : Instance} {bs : List Batch} {b : Batch} {earlier : List Cut} {cut : Cut}
    {bl : Nat × Option Nat} (hbl : bl ∈ cut.blockers) {r : Row}
    (hr : r ∈ gapRows inst bs b cut bl.1 bl.2 ∨
      r ∈ zeroRows inst bs b cut bl.1 bl.2 (earlier.all fun e => !e.blockers.contains (bl.1, none))) :
    r ∈ cutRows inst bs b earlier cut := by
  simp only [cutRows, List.mem_flatMap, List.mem_append]
  exact ⟨bl, hbl, hr⟩

/-- the first cut of a list that names `c'` as an unbounded blocker: it comes with the flag `true`, and it is the
given cut or an earlier one -/
theorem first_unbounded {c' : Nat} : ∀ {cuts : List Cut} {earlier : List Cut} {cut : Cut},
    (earlier.all fun e => !e.blockers.contains (c', none)) = true → cut ∈ cuts → (c', none) ∈ cut.blockers →
    ∃ pre cut0 post, cuts = pre ++ cut0 :: post ∧ (c', none) ∈ cut0.blockers ∧
      ((earlier ++ pre).all fun e => !e.blockers.contains (c', none)) = true ∧ (cut0 = cut ∨ cut ∈ post)
  | [], _, _, _, h, _ => by simp at h
  | c :: rest, earlier, cut, he, hc, hb => by
    by_cases hcb : (c', none) ∈ c.blockers
    · refine ⟨[], c, rest, rfl, hcb, by simpa using he, ?_⟩
      rcases List.mem_cons.mp hc with rfl | hc
      · left; rfl
      · right; exact hc
    · have hc' : cut ∈ rest := by
        rcases List.mem_cons.mp hc with rfl | hc
        · exact absurd hb hcb
        · exact hc
      have hcf : c.blockers.contains (c', none) = false := by
        cases hh : c.blockers.contains (c', none) with
        | false => rfl
        | true => exact absurd (by simpa using hh) hcb
      have he' : ((earlier ++ [c]).all fun e => !e.blockers.contains (c', none)) = true := by
        have he2 : ∀ x ∈ earlier, ¬(c', none) ∈ x.blockers := by simpa using he
        simp only [List.all_append, List.all_cons, List.all_nil, Bool.and_true, Bool.and_eq_true,
          List.all_eq_true, Bool.not_eq_true', hcf, and_true]
        intro x hx
        cases hh : x.blockers.contains (c', none) with
        | false => rfl
        | true => exact absurd (by simpa using hh) (he2 x hx)
      obtain ⟨pre, cut0, post, e1, e2, e3, e4⟩ := first_unbounded he' hc' hb
      exact ⟨c :: pre, cut0, post, by simp [e1], e2, by simpa using e3, e4⟩

/-! ### `B` rows -/

theorem bRows_form {inst : Instance} {bs : List Batch} {r : Row} (hr : r ∈ bRows inst bs) :
    ∃ c s, (countVarsOf inst bs c).isEmpty = false ∧ r.ge = true ∧ r.bound = s ∧
      r.terms = (countVarsOf inst bs c).map (·, 1) ++ [(.B c s, s)] := by
  simp only [bRows, List.mem_map] at hr
  obtain ⟨cs, hcs, rfl⟩ := hr
  simp only [bVars, mem_dedupAux, List.mem_flatMap, List.not_mem_nil, not_false_eq_true, and_true] at hcs
  obtain ⟨b, _, hcs⟩ := hcs
  split at hcs
  · simp at hcs
  · simp only [List.mem_flatMap, List.mem_filterMap] at hcs
    obtain ⟨cut, _, bl, _, hbl⟩ := hcs
    split at hbl
    · rename_i s hs
      split at hbl
      · rename_i hu
        simp only [Option.some.injEq] at hbl
        subst hbl
        simp only [usesB, Bool.and_eq_true, Bool.not_eq_true'] at hu
        exact ⟨bl.1, s, hu.1, rfl, rfl, rfl⟩
      · cases hbl
    · cases hbl

theorem bRow_mem {inst : Instance} {bs : List Batch} {b : Batch} {cut : Cut} {c' s : Nat} (hb : b ∈ bs)
    (hcvb : (countVars inst b).isEmpty = false) (hcut : cut ∈ b.cuts) (hbl : (c', some s) ∈ cut.blockers)
    (hu : usesB inst bs b c' = true) :
    ({ ge := true, bound := s, terms := (countVarsOf inst bs c').map (·, 1) ++ [(.B c' s, s)] } : Row) ∈
      bRows inst bs := by
  simp only [bRows, List.mem_map]
  refine ⟨(c', s), ?_, rfl⟩
  simp only [bVars, mem_dedupAux, List.mem_flatMap, List.not_mem_nil, not_false_eq_true, and_true]
  refine ⟨b, hb, ?_⟩
  simp only [hcvb, Bool.false_eq_true, ↓reduceIte, List.mem_flatMap, List.mem_filterMap]
  exact ⟨cut, hcut, (c', some s), hbl, by simp [hu]⟩

end HqModel.Sched
