import HqModel.Lemmas.SysJobFail
/-!
The client requests `submit`, `open`, `close`, `forget` of the job layer through the view `tst`.
-/
namespace HqModel.Sys
open HqModel HqModel.Job

/-! ### `attach_submit` -/

theorem attach_spec : ∀ (ids : List Nat) {job job' : Job}, job.attach ids = .ok job' →
    SameMeta job job' ∧ (∀ x ∈ ids, lookup job.tasks x = none) ∧
    ∀ x, lookup job'.tasks x = if x ∈ ids then some .waiting else lookup job.tasks x := by
  intro ids
  induction ids with
  | nil =>
    intro job job' h
    simp only [Job.attach] at h
    cases h
    exact ⟨SameMeta.refl _, by simp, by simp⟩
  | cons t rest ih =>
    intro job job' h
    simp only [Job.attach] at h
    split at h
    · cases h
    · rename_i hn
      obtain ⟨m, hnone, hl⟩ := ih h
      have h1 : ∀ x, lookup (job.tasks ++ [(t, TState.waiting)]) x =
          match lookup job.tasks x with
          | some v => some v
          | none => if x = t then some .waiting else none := lookup_append_one _ _ _
      refine ⟨⟨m.id, m.isOpen, m.maxFails⟩, ?_, ?_⟩
      · intro x hx
        rcases List.mem_cons.mp hx with e | e
        · subst e; exact hn
        · have := hnone x e
          simp only [h1] at this
          cases hlk : lookup job.tasks x with
          | none => rfl
          | some v => rw [hlk] at this; cases this
      · intro x
        rw [hl x]
        simp only [h1, List.mem_cons]
        by_cases hx : x ∈ rest
        · simp [hx]
        · by_cases hxt : x = t
          · subst hxt; simp [hx, hn]
          · simp only [hx, hxt, or_self, if_false]
            cases lookup job.tasks x <;> rfl

/-! ### `handle_submit` -/

/-- what the `hq` client guarantees for an array with entries: one entry per id (or no ids: they are generated from
the entries). The hypothesis of `C02.c02_submit_ids`. -/
def SubmitCover : TaskDesc → Prop
  | .array ids (some n) => ids.isEmpty = true ∨ ids.iter.length ≤ n
  | _ => True

instance (d : TaskDesc) : Decidable (SubmitCover d) := by
  cases d with
  | array ids en => cases en <;> simp only [SubmitCover] <;> infer_instance
  | graph ts => simp only [SubmitCover]; infer_instance

theorem fillIdsOpen_cover (job : Job) {d : TaskDesc} (h : SubmitCover d) :
    (fillIdsOpen job d).jobIds = (fillIdsOpen job d).coreIds := by
  cases d with
  | graph ts => rfl
  | array ids en =>
    cases en with
    | none => simp only [fillIdsOpen]; split <;> rfl
    | some n =>
      simp only [fillIdsOpen]
      split
      · simp only [TaskDesc.jobIds, TaskDesc.coreIds, fromRange_iter]
        exact (List.take_of_length_le (by simp)).symm
      · rename_i hne
        simp only [SubmitCover, hne, Bool.false_eq_true, false_or] at h
        simp only [TaskDesc.jobIds, TaskDesc.coreIds]
        exact (List.take_of_length_le h).symm

theorem fillIdsNew_cover {d : TaskDesc} (h : SubmitCover d) : (fillIdsNew d).jobIds = (fillIdsNew d).coreIds := by
  cases d with
  | graph ts => rfl
  | array ids en =>
    cases en with
    | none => simp only [fillIdsNew]; split <;> rfl
    | some n =>
      simp only [fillIdsNew]
      split
      · simp only [TaskDesc.jobIds, TaskDesc.coreIds, fromRange_iter]
        exact (List.take_of_length_le (by simp)).symm
      · rename_i hne
        simp only [SubmitCover, hne, Bool.false_eq_true, false_or] at h
        simp only [TaskDesc.jobIds, TaskDesc.coreIds]
        exact (List.take_of_length_le h).symm

theorem validateGraph_not_ok (job : Option Job) : ∀ (ts : List (Nat × List Nat)) (seen : List Nat) (j : Nat),
    validateGraph job ts seen ≠ some (.ok j) := by
  intro ts
  induction ts with
  | nil => intro seen j h; simp [validateGraph] at h
  | cons p rest ih =>
    intro seen j h
    obtain ⟨t, deps⟩ := p
    simp only [validateGraph] at h
    split at h
    · cases h
    · split at h
      · cases h
      · exact ih _ _ h

theorem validateSubmit_not_ok (job : Option Job) (d : TaskDesc) (j : Nat) : validateSubmit job d ≠ some (.ok j) := by
  intro h
  cases d with
  | array ids en =>
    simp only [validateSubmit] at h
    split at h
    · cases hf : firstSome (fun t => if (lookup _ t).isSome then some t else none) ids.iter with
      | none => rw [hf] at h; cases h
      | some v => rw [hf] at h; cases h
    · cases h
  | graph ts =>
    simp only [validateSubmit] at h
    split at h
    · cases h
    · exact validateGraph_not_ok _ _ _ _ h

/-- **`handle_submit`**: a refused submit changes nothing; an accepted one adds exactly the ids handed to the core,
all new and `waiting`, to the job table and to `sent` -/
theorem submit_spec {js js' : Job.State} {jobId mf : Option Nat} {desc : TaskDesc} {evs : List Ev}
    {resp : SubmitResp} {core : List TaskId} (hcov : SubmitCover desc)
    (h : js.submit jobId mf desc = .ok (js', evs, resp, core)) :
    ((∀ j, resp ≠ .ok j) ∧ js' = js ∧ core = []) ∨
    (∃ j, resp = .ok j ∧ js'.workers = js.workers ∧ js'.sent = js.sent ++ core ∧
      (∀ x ∈ core, x.1 = j ∧ tst js x = none) ∧
      ∀ x, tst js' x = if x ∈ core then some .waiting else tst js x) := by
  simp only [Job.State.submit] at h
  split at h
  · rename_i err hv
    cases h
    exact .inl ⟨(fun j e => validateSubmit_not_ok _ _ j (e ▸ hv)), rfl, rfl⟩
  · split at h
    · rename_i j _
      split at h
      · cases h; exact .inl ⟨(fun j e => nomatch e), rfl, rfl⟩
      · rename_i job hj
        split at h
        · cases h; exact .inl ⟨(fun j e => nomatch e), rfl, rfl⟩
        · split at h
          · cases h; exact .inl ⟨(fun j e => nomatch e), rfl, rfl⟩
          · split at h
            · cases h
            · rename_i job' ha
              cases h
              obtain ⟨m, hnone, hl⟩ := attach_spec _ ha
              have hid := getJob_id hj
              have hcv := fillIdsOpen_cover job hcov
              have hmem : ∀ x : TaskId, x ∈ (fillIdsOpen job desc).coreIds.map (fun t => (j, t)) ↔
                  x.1 = j ∧ x.2 ∈ (fillIdsOpen job desc).jobIds := by
                intro x
                rw [hcv]
                constructor
                · intro hx; obtain ⟨y, hy, rfl⟩ := List.mem_map.mp hx; exact ⟨rfl, hy⟩
                · rintro ⟨h1, h2⟩
                  exact List.mem_map.mpr ⟨x.2, h2, (Prod.ext h1 rfl : x = (j, x.2)).symm⟩
              refine .inr ⟨j, rfl, rfl, rfl, ?_, ?_⟩
              · intro x hx
                obtain ⟨h1, h2⟩ := (hmem x).mp hx
                refine ⟨h1, ?_⟩
                have : x = (j, x.2) := Prod.ext h1 rfl
                rw [this, tst_of_getJob hj]
                exact hnone _ h2
              · intro x
                show tst (js.putJob job') x = _
                rw [tst_putJob hj (m.id.trans hid) x]
                by_cases hx1 : x.1 = j
                · have hxe : x = (j, x.2) := Prod.ext hx1 rfl
                  have h3 : tst js x = lookup job.tasks x.2 := by rw [hxe, tst_of_getJob hj]
                  simp only [hx1, if_true, hl, hmem, true_and, h3]
                · simp [hx1, hmem]
    · split at h
      · cases h
      · rename_i hfree
        split at h
        · cases h
        · rename_i job' ha
          cases h
          obtain ⟨m, hnone, hl⟩ := attach_spec _ ha
          have hgn : findJob js.jobs js.jobCtr = none := by
            cases hf : findJob js.jobs js.jobCtr with
            | none => rfl
            | some y =>
              exfalso; apply hfree
              simp only [Job.State.getJob, hf]; rfl
          have hid' : job'.id = js.jobCtr := m.id
          have hcv := fillIdsNew_cover hcov
          have hmem : ∀ x : TaskId, x ∈ (fillIdsNew desc).coreIds.map (fun t => (js.jobCtr, t)) ↔
              x.1 = js.jobCtr ∧ x.2 ∈ (fillIdsNew desc).jobIds := by
            intro x
            rw [hcv]
            constructor
            · intro hx; obtain ⟨y, hy, rfl⟩ := List.mem_map.mp hx; exact ⟨rfl, hy⟩
            · rintro ⟨h1, h2⟩
              exact List.mem_map.mpr ⟨x.2, h2, (Prod.ext h1 rfl : x = (js.jobCtr, x.2)).symm⟩
          have hno : ∀ x : TaskId, x.1 = js.jobCtr → tst js x = none := by
            intro x hx
            simp only [tst, tstJ]
            rw [hx, hgn]
          refine .inr ⟨js.jobCtr, rfl, rfl, rfl, ?_, ?_⟩
          · intro x hx
            obtain ⟨h1, _⟩ := (hmem x).mp hx
            exact ⟨h1, hno x h1⟩
          · intro x
            show tstJ (js.jobs ++ [job']) x = _
            simp only [tstJ, findJob_append_one, hid']
            by_cases hx1 : x.1 = js.jobCtr
            · rw [hx1, hgn]
              simp only [if_true, hl, hmem, hx1, true_and, hno x hx1]
              simp [lookup]
            · have : ¬ js.jobCtr = x.1 := fun e => hx1 e.symm
              have h4 : x ∉ (fillIdsNew desc).coreIds.map (fun t => (js.jobCtr, t)) := fun e => hx1 ((hmem x).mp e).1
              simp only [h4, if_false, tst, tstJ]
              cases findJob js.jobs x.1 with
              | none => simp [this]
              | some y => rfl

/-! ### `handle_open_job`, `handle_job_close`, `handle_job_forget` -/

theorem openJob_spec {js js' : Job.State} {mf : Option Nat} {evs : List Ev} {j : Nat}
    (h : js.openJob mf = .ok (js', evs, j)) :
    js'.workers = js.workers ∧ js'.sent = js.sent ∧ ∀ x, tst js' x = tst js x := by
  simp only [Job.State.openJob] at h
  split at h
  · cases h
  · rename_i hfree
    cases h
    have hgn : findJob js.jobs js.jobCtr = none := by
      cases hf : findJob js.jobs js.jobCtr with
      | none => rfl
      | some y =>
        exfalso; apply hfree
        simp only [Job.State.getJob, hf]; rfl
    refine ⟨rfl, rfl, ?_⟩
    intro x
    show tstJ (js.jobs ++ [_]) x = tstJ js.jobs x
    simp only [tstJ, findJob_append_one]
    cases hf : findJob js.jobs x.1 with
    | some y => rfl
    | none =>
      by_cases hx : js.jobCtr = x.1
      · simp [hx, lookup]
      · simp [hx]

theorem closeJob_spec (js : Job.State) (j : Nat) :
    (js.closeJob j).1.workers = js.workers ∧ (js.closeJob j).1.sent = js.sent ∧
    ∀ x, tst (js.closeJob j).1 x = tst js x := by
  simp only [Job.State.closeJob]
  split
  · exact ⟨rfl, rfl, fun _ => rfl⟩
  · rename_i job hj
    split
    · refine ⟨rfl, rfl, ?_⟩
      intro x
      rw [tst_putJob (job' := { job with isOpen := false }) hj (getJob_id (job := job) hj) x]
      by_cases hx : x.1 = j
      · have hxe : x = (j, x.2) := Prod.ext hx rfl
        simp only [hx, if_true]
        rw [hxe, tst_of_getJob hj]
      · simp [hx]
    · exact ⟨rfl, rfl, fun _ => rfl⟩

/-- a job without active tasks has no non-terminal task -/
theorem no_live_of_noActive {job : Job} (hw : JobWF job) (h : job.hasNoActiveTasks = true) (x : Nat) :
    live (lookup job.tasks x) = false := by
  simp only [Job.hasNoActiveTasks, Bool.and_eq_true, beq_iff_eq] at h
  have hs := countS_sum_le job.tasks
  have hr : countS job.tasks .running = 0 := by rw [← hw.running]; exact h.1
  have hwt : countS job.tasks .waiting = 0 := by
    have := h.2
    simp only [Job.nWaiting, Counters.sum, Job.nTasks, hw.running, hw.finished, hw.failed, hw.canceled, hw.aborted] at this
    omega
  cases hl : lookup job.tasks x with
  | none => rfl
  | some st =>
    have hm := lookup_mem hl
    cases st with
    | waiting =>
      exfalso
      have : 0 < countS job.tasks .waiting := List.countP_pos_iff.mpr ⟨(x, .waiting), hm, by simp⟩
      omega
    | running =>
      exfalso
      have : 0 < countS job.tasks .running := List.countP_pos_iff.mpr ⟨(x, .running), hm, by simp⟩
      omega
    | _ => rfl

theorem forgetJob_spec {js js' : Job.State} {j : Nat} {allowed : List Status} {b : Bool} (hwf : StateWF js)
    (h : js.forgetJob j allowed = .ok (js', b)) :
    js'.workers = js.workers ∧ js'.sent = js.sent ∧
    ((b = false ∧ js' = js) ∨
     (b = true ∧ (∀ x : TaskId, x.1 = j → live (tst js x) = false) ∧
      ∀ x : TaskId, tst js' x = if x.1 = j then none else tst js x)) := by
  simp only [Job.State.forgetJob] at h
  split at h
  · cases h; exact ⟨rfl, rfl, .inl ⟨rfl, rfl⟩⟩
  · rename_i job hj
    split at h
    · cases h; exact ⟨rfl, rfl, .inl ⟨rfl, rfl⟩⟩
    · rename_i hterm
      split at h
      · cases h
      · split at h
        · cases h
          refine ⟨rfl, rfl, .inr ⟨rfl, ?_, ?_⟩⟩
          · intro x hx
            have hxe : x = (j, x.2) := Prod.ext hx rfl
            rw [hxe, tst_of_getJob hj]
            apply no_live_of_noActive (getJob_wf hwf hj)
            simp only [Job.isTerminated, Bool.not_eq_true, Bool.and_eq_true, Bool.not_eq_eq_eq_not, Bool.not_true,
              Bool.not_false, Bool.not_and, Bool.or_eq_false_iff] at hterm
            by_cases hna : job.hasNoActiveTasks = true
            · exact hna
            · simp [Job.isTerminated, hna] at hterm
          · intro x
            show tstJ (js.jobs.filter (·.id != j)) x = _
            simp only [tstJ, findJob_filter_ne]
            by_cases hx : x.1 = j
            · simp [hx]
            · simp [hx, tst, tstJ]
        · cases h; exact ⟨rfl, rfl, .inl ⟨rfl, rfl⟩⟩

end HqModel.Sys
