import HqModel.Lemmas.WorkerBasic
/-!
"Never launched again": while task `t` is in no backlog, no step launches it except a `ComputeTasks` that
contains it, and no step other than such a `ComputeTasks` puts it into a backlog
(`step_quiet`, `run_quiet`). `RetractTasks ∋ t` and (after the F1 fix) `CancelTasks ∋ t` establish "in no
backlog" (`retract_noBacklog`, `cancel_noBacklog`).
-/
namespace HqModel.Worker

/-- `t` is in no backlog and was not launched by the events collected so far -/
def Quiet (t : Nat) (a : Acc) : Prop := NoBacklog t a.s ∧ ¬ launchedIn a.ev t

theorem launchedIn_append {l₁ l₂ : List Out} {t : Nat} :
    launchedIn (l₁ ++ l₂) t ↔ launchedIn l₁ t ∨ launchedIn l₂ t := by
  simp only [launchedIn, List.mem_append]
  constructor
  · rintro ⟨o, h | h, ho⟩
    · exact Or.inl ⟨o, h, ho⟩
    · exact Or.inr ⟨o, h, ho⟩
  · rintro (⟨o, h, ho⟩ | ⟨o, h, ho⟩)
    · exact ⟨o, Or.inl h, ho⟩
    · exact ⟨o, Or.inr h, ho⟩

theorem launchedIn_single {o : Out} {t : Nat} : launchedIn [o] t ↔ o.isLaunchOf t := by
  simp [launchedIn]

theorem not_launchedIn_nil (t : Nat) : ¬ launchedIn [] t := by simp [launchedIn]

theorem NoBacklog.setBacklog {t : Nat} {s : State} (h : NoBacklog t s) (rq : Nat) {l : List Task}
    (hl : ∀ x ∈ l, x.id ≠ t) : NoBacklog t (setBacklog s rq l) := by
  intro r x hx
  rw [setBacklog_backlog] at hx
  split at hx
  · exact hl x hx
  · exact h r x hx

theorem tryStart_quiet {t : Nat} {a a' : Acc} {x : Task} {rv h : Nat} {p c : Bool}
    (hq : Quiet t a) (hx : x.id ≠ t) (hs : tryStart a x rv p h = .ok (a', c)) : Quiet t a' := by
  obtain ⟨_, hc⟩ := tryStart_cases hs
  rcases hc with ⟨_, h1, h2, _⟩ | ⟨_, h1, h2, _⟩ | ⟨_, _, h1, h2, _⟩
  · exact ⟨by rw [h1]; exact hq.1, by rw [h2]; exact hq.2⟩
  · refine ⟨by rw [h1]; exact hq.1, ?_⟩
    rw [h2, launchedIn_append, launchedIn_single]
    rintro (h | h)
    · exact hq.2 h
    · exact hx h
  · refine ⟨by rw [h1]; exact hq.1, ?_⟩
    rw [h2, launchedIn_append, launchedIn_single]
    rintro (h | h)
    · exact hq.2 h
    · exact hx h

theorem prefillLoop_quiet {t rq rv h : Nat} : ∀ (bl : List Task) {a a' : Acc} {c : Bool},
    (∀ x ∈ bl, x.id ≠ t) → Quiet t a → prefillLoop rq rv h bl a = .ok (a', c) → Quiet t a'
  | [], a, a', c, _, hq, hs => by
    simp only [prefillLoop] at hs
    cases hs
    refine ⟨?_, ?_⟩
    · intro r x hx
      exact (hq.1.setBacklog rq (l := []) (by simp)) r x hx
    · show ¬ launchedIn (a.ev ++ [Out.release h]) t
      rw [launchedIn_append, launchedIn_single]
      rintro (h' | h')
      · exact hq.2 h'
      · exact h'
  | x :: rest, a, a', c, hbl, hq, hs => by
    simp only [prefillLoop] at hs
    have hq1 : Quiet t { a with s := setBacklog a.s rq rest } :=
      ⟨hq.1.setBacklog rq (fun y hy => hbl y (List.mem_cons_of_mem _ hy)), hq.2⟩
    split at hs
    · cases hs
    · rename_i a1 hts
      cases hs
      exact tryStart_quiet hq1 (hbl x (List.mem_cons_self)) hts
    · rename_i a1 hts
      exact prefillLoop_quiet rest (fun y hy => hbl y (List.mem_cons_of_mem _ hy))
        (tryStart_quiet hq1 (hbl x (List.mem_cons_self)) hts) hs

theorem computeEntry_quiet {t : Nat} {a a' : Acc} {e : Entry}
    (hq : Quiet t a) (he : e.task.id ≠ t) (hs : computeEntry a e = .ok a') : Quiet t a' := by
  unfold computeEntry at hs
  split at hs
  · -- prefill entry
    cases hs
    refine ⟨?_, hq.2⟩
    intro r x hx
    have : NoBacklog t (setBacklog a.s e.task.rq (e.task :: a.s.backlog e.task.rq)) :=
      hq.1.setBacklog _ (by
        intro y hy
        rcases List.mem_cons.mp hy with rfl | hy
        · exact he
        · exact hq.1 _ y hy)
    exact this r x hx
  · rename_i rv _
    split at hs
    · cases hs
    · split at hs
      · cases hs
        refine ⟨?_, hq.2⟩
        unfold insertBlocked
        split
        · exact hq.1
        · exact hq.1
      · rename_i h _
        split at hs
        · cases hs
        · have hq1 : Quiet t { a with s := { a.s with live := h :: a.s.live } } := ⟨hq.1, hq.2⟩
          split at hs
          · cases hs
          · rename_i a1 hts
            cases hs
            exact tryStart_quiet hq1 he hts
          · rename_i a1 hts
            have hq2 := tryStart_quiet hq1 he hts
            split at hs
            · cases hs
            · rename_i a2 _ hpl
              cases hs
              exact prefillLoop_quiet _ (fun y hy => hq2.1 _ y hy) hq2 hpl

theorem computeEntries_quiet {t : Nat} : ∀ (es : List Entry) {a a' : Acc},
    Quiet t a → (∀ e ∈ es, e.task.id ≠ t) → computeEntries es a = .ok a' → Quiet t a'
  | [], a, a', hq, _, hs => by
    simp only [computeEntries] at hs; cases hs; exact hq
  | e :: es, a, a', hq, hes, hs => by
    simp only [computeEntries] at hs
    split at hs
    · cases hs
    · rename_i a1 h1
      exact computeEntries_quiet es (computeEntry_quiet hq (hes e (List.mem_cons_self)) h1)
        (fun e' he' => hes e' (List.mem_cons_of_mem _ he')) hs

theorem finish_quiet {t : Nat} {a : Acc} (hq : Quiet t a) :
    NoBacklog t (finish a).1 ∧ ¬ launchedIn (finish a).2 t := by
  refine ⟨hq.1, ?_⟩
  unfold finish
  rw [launchedIn_append]
  rintro (h | h)
  · exact hq.2 h
  · split at h
    · exact not_launchedIn_nil t h
    · rw [launchedIn_single] at h; exact h

theorem NoBacklog.filter {t : Nat} {s : State} (h : NoBacklog t s) (p : Nat → Task → Bool) :
    NoBacklog t { s with backlog := fun rq => (s.backlog rq).filter (p rq) } := by
  intro rq x hx
  exact h rq x (List.mem_filter.mp hx).1

theorem cancelOne_noBacklog {t : Nat} {a : State × List Out} (c : Nat)
    (h : NoBacklog t a.1 ∧ ¬ launchedIn a.2 t) :
    NoBacklog t (cancelOne a c).1 ∧ ¬ launchedIn (cancelOne a c).2 t := by
  obtain ⟨s, outs⟩ := a
  simp only [cancelOne]
  split
  · exact ⟨h.1.filter (fun _ x => decide (x.id ≠ c)), h.2⟩
  · split
    · exact h
    · refine ⟨h.1, ?_⟩
      show ¬ launchedIn (outs ++ [Out.stop c StopKind.cancel]) t
      rw [launchedIn_append, launchedIn_single]
      rintro (h' | h')
      · exact h.2 h'
      · exact h'

theorem cancel_fold_noBacklog {t : Nat} : ∀ (ids : List Nat) (a : State × List Out),
    NoBacklog t a.1 ∧ ¬ launchedIn a.2 t →
    NoBacklog t (ids.foldl cancelOne a).1 ∧ ¬ launchedIn (ids.foldl cancelOne a).2 t
  | [], _, h => h
  | c :: ids, a, h => cancel_fold_noBacklog ids (cancelOne a c) (cancelOne_noBacklog c h)

theorem retractCheck_quiet {t : Nat} {s s' : State} {order : List Nat} {outs : List Out}
    (hq : NoBacklog t s) (hs : retractCheck s order = .ok (s', outs)) :
    NoBacklog t s' ∧ ¬ launchedIn outs t := by
  unfold retractCheck at hs
  split at hs
  · cases hs; exact ⟨hq, not_launchedIn_nil t⟩
  · split at hs
    · cases hs; exact ⟨hq, not_launchedIn_nil t⟩
    · split at hs
      · split at hs
        · cases hs
        · split at hs
          · cases hs; exact ⟨hq, not_launchedIn_nil t⟩
          · cases hs
            refine ⟨?_, ?_⟩
            · intro rq x hx
              simp only at hx
              split at hx
              · cases hx
              · exact hq rq x hx
            · rw [launchedIn_single]; exact fun h => h
      · cases hs

/-- While `t` is in no backlog, a step that is not a `ComputeTasks ∋ t` neither launches `t` nor puts it into
a backlog. -/
theorem step_quiet {t : Nat} {s s' : State} {op : Op} {outs : List Out}
    (hq : NoBacklog t s) (hm : ¬ op.mentions t) (hs : step s op = .ok (s', outs)) :
    NoBacklog t s' ∧ ¬ launchedIn outs t := by
  cases op with
  | compute es =>
    simp only [step, compute] at hs
    split at hs
    · cases hs
    · rename_i a ha
      cases hs
      have hes : ∀ e ∈ es, e.task.id ≠ t := by
        intro e he heq
        exact hm (by simp only [Op.mentions, List.mem_map]; exact ⟨e, he, heq⟩)
      exact finish_quiet (computeEntries_quiet es ⟨hq, not_launchedIn_nil t⟩ hes ha)
  | retract ids =>
    simp only [step, retract] at hs
    cases hs
    refine ⟨hq.filter (fun _ x => decide (x.id ∉ ids)), ?_⟩
    split
    · exact not_launchedIn_nil t
    · rw [launchedIn_single]; exact fun h => h
  | cancel ids =>
    simp only [step, cancel] at hs
    have hs := Except.ok.inj hs
    have := cancel_fold_noBacklog ids (s, []) ⟨hq, not_launchedIn_nil t⟩
    rw [hs] at this
    exact this
  | taskEnd t' res en =>
    simp only [step, taskEnd] at hs
    split at hs
    · cases hs
    · rename_i r _
      split at hs
      · cases hs
      · rename_i a used hpl
        have hq1 : Quiet t ({ s := { s with running := s.running.filter (fun x => x.task.id != t') },
                              upd := resultUpdates t' res } : Acc) := ⟨hq, not_launchedIn_nil t⟩
        have hq2 := prefillLoop_quiet _ (fun y hy => hq _ y hy) hq1 hpl
        split at hs
        · split at hs
          · cases hs
            exact finish_quiet (a := { a with s := _, upd := _ }) ⟨hq2.1, hq2.2⟩
          · cases hs
        · cases hs
          exact finish_quiet hq2
  | timeoutFire t' =>
    simp only [step, timeoutFire] at hs
    split at hs
    · cases hs
    · split at hs
      · cases hs
      · cases hs
        refine ⟨hq, ?_⟩
        split
        · exact not_launchedIn_nil t
        · rw [launchedIn_single]; exact fun h => h
  | retractCheck order =>
    simp only [step] at hs
    exact retractCheck_quiet hq hs
  | newRq id mts =>
    simp only [step, newRq] at hs
    split at hs
    · cases hs; exact ⟨hq, not_launchedIn_nil t⟩
    · cases hs
  | stop =>
    simp only [step] at hs
    cases hs
    exact ⟨hq, by rw [launchedIn_single]; exact fun h => h⟩

theorem run_quiet {t : Nat} : ∀ (ops : List Op) {s s' : State} {os : List (List Out)},
    NoBacklog t s → (∀ op ∈ ops, ¬ op.mentions t) → run s ops = .ok (s', os) →
    NoBacklog t s' ∧ ∀ o ∈ os, ¬ launchedIn o t
  | [], s, s', os, hq, _, hr => by
    simp only [run] at hr; cases hr; exact ⟨hq, by simp⟩
  | op :: ops, s, s', os, hq, hm, hr => by
    simp only [run] at hr
    split at hr
    · cases hr
    · rename_i s1 o1 h1
      split at hr
      · cases hr
      · rename_i s2 os2 h2
        cases hr
        have hq1 := step_quiet hq (hm op (List.mem_cons_self)) h1
        have ih := run_quiet ops hq1.1 (fun op' h' => hm op' (List.mem_cons_of_mem _ h')) h2
        refine ⟨ih.1, ?_⟩
        intro o ho
        rcases List.mem_cons.mp ho with rfl | ho
        · exact hq1.2
        · exact ih.2 o ho

/-- After `RetractTasks ids`, no task named in it is in a backlog. -/
theorem retract_noBacklog {t : Nat} (s : State) {ids : List Nat} (ht : t ∈ ids) :
    NoBacklog t (retract s ids).1 := by
  intro rq x hx
  simp only [retract] at hx
  have := (List.mem_filter.mp hx).2
  intro heq
  subst heq
  simp at this
  exact this ht

/-- the ids of the tasks returned by a `RetractResponse` are among the requested ids -/
theorem retract_response_subset (s : State) {ids r : List Nat} {t : Nat}
    (hr : Out.retractResponse r ∈ (retract s ids).2) (ht : t ∈ r) : t ∈ ids := by
  simp only [retract] at hr
  split at hr
  · simp at hr
  · simp only [List.mem_singleton, Out.retractResponse.injEq] at hr
    subst hr
    simp only [List.mem_flatMap, List.mem_map, List.mem_filter] at ht
    obtain ⟨_, _, x, ⟨_, hx⟩, rfl⟩ := ht
    simpa using hx

/-- no task id is running and in a backlog at the same time -/
def Disj (s : State) : Prop := ∀ r ∈ s.running, NoBacklog r.task.id s

theorem cancelOne_running_ids (a : State × List Out) (c : Nat) :
    (cancelOne a c).1.running.map (·.task.id) = a.1.running.map (·.task.id) := by
  obtain ⟨s, outs⟩ := a
  simp only [cancelOne]
  split
  · rfl
  · split
    · rfl
    · simp only [List.map_map]
      apply List.map_congr_left
      intro x _
      simp only [Function.comp]
      split <;> rfl

theorem cancelOne_establishes {a : State × List Out} {c : Nat}
    (hd : ∀ r ∈ a.1.running, r.task.id = c → NoBacklog c a.1) : NoBacklog c (cancelOne a c).1 := by
  obtain ⟨s, outs⟩ := a
  simp only [cancelOne]
  split
  · intro rq x hx
    have := (List.mem_filter.mp hx).2
    simpa using this
  · rename_i r hr
    have hmem := List.mem_of_find?_eq_some hr
    have hid : r.task.id = c := by simpa using List.find?_some hr
    split
    · exact hd r hmem hid
    · exact hd r hmem hid

theorem cancelOne_pres {t : Nat} (a : State × List Out) (c : Nat) (h : NoBacklog t a.1) :
    NoBacklog t (cancelOne a c).1 := by
  obtain ⟨s, outs⟩ := a
  simp only [cancelOne]
  split
  · exact h.filter (fun _ x => decide (x.id ≠ c))
  · split
    · exact h
    · exact h

theorem cancel_fold_pres {t : Nat} : ∀ (ids : List Nat) (a : State × List Out),
    NoBacklog t a.1 → NoBacklog t (ids.foldl cancelOne a).1
  | [], _, h => h
  | c :: ids, a, h => cancel_fold_pres ids (cancelOne a c) (cancelOne_pres a c h)

theorem Disj_iff (s : State) : Disj s ↔ ∀ c ∈ s.running.map (·.task.id), NoBacklog c s := by
  simp only [Disj, List.mem_map]
  constructor
  · rintro h c ⟨r, hr, rfl⟩; exact h r hr
  · intro h r hr; exact h _ ⟨r, hr, rfl⟩

theorem cancelOne_Disj (a : State × List Out) (c : Nat) (h : Disj a.1) : Disj (cancelOne a c).1 := by
  rw [Disj_iff] at h ⊢
  rw [cancelOne_running_ids]
  intro c' hc'
  exact cancelOne_pres a c (h c' hc')

theorem cancel_fold_Disj : ∀ (ids : List Nat) (a : State × List Out),
    Disj a.1 → Disj (ids.foldl cancelOne a).1
  | [], _, h => h
  | c :: ids, a, h => cancel_fold_Disj ids (cancelOne a c) (cancelOne_Disj a c h)

/-- After `CancelTasks ids` was processed in a state where no id is running and in a backlog at once, no task
named in it is in a backlog. -/
theorem cancel_noBacklog {t : Nat} : ∀ (ids : List Nat) (a : State × List Out),
    Disj a.1 → t ∈ ids → NoBacklog t (ids.foldl cancelOne a).1
  | [], _, _, ht => by simp at ht
  | c :: ids, a, hd, ht => by
    simp only [List.foldl_cons]
    by_cases hc : t = c
    · subst hc
      exact cancel_fold_pres ids _ (cancelOne_establishes (fun r hr hid => hid ▸ hd r hr))
    · rcases List.mem_cons.mp ht with h | h
      · exact absurd h hc
      · exact cancel_noBacklog ids (cancelOne a c) (cancelOne_Disj a c hd) h

end HqModel.Worker
