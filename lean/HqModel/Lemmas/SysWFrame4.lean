import HqModel.Lemmas.SysWFrame3
/-!
`FrW schedM` for one scheduling round (`Sched.lean`; the traversal is the one of `Lemmas/SysCoreFrame4.lean`): a round
releases nothing — a task that is Running / Assigned / Prefilled / Retracting / RunningMultiNode somewhere stays there
(Prefilled may become Retracting) —, never resets a worker, and sets multi-node assignments only on workers with a
single-node assignment. Which tasks are ACQUIRED, and the messages that tell the workers, is `Lemmas/SysWSched.lean`.
-/
namespace HqModel.Core

def schedM : Mode := { acq := fun _ => True, sch := True }

abbrev Frz (s s' : State) : Prop := FrW schedM s s'

theorem Frz.refl (s : State) : Frz s s := FrW.refl _ _
theorem CoreEq.frz {s s' : State} (h : CoreEq s s') : Frz s s' := FrW.of_eq h.t h.w

theorem FrW.congr {m : Mode} {a b a' b' : State} (h : FrW m a b) (hta : a'.tasks = a.tasks) (hwa : a'.workers = a.workers)
    (htb : b'.tasks = b.tasks) (hwb : b'.workers = b.workers) : FrW m a' b' := by
  constructor
  · rw [hta, htb]; exact h.t
  · rw [hwa, hwb]; exact h.w

theorem sok_sched_of_none {id : TaskId} {a b : TS} (h : owner a = none) :
    SOk (fun x => schedM.rel x id) (schedM.acq id) a b :=
  ⟨fun x hx => (by rw [h] at hx; cases hx), fun hn => (hn trivial).elim⟩

theorem placeSnBody_frz {s s' : State} {m m' : List WUpdate} {v : Nat} {r : Rq} {id : TaskId} {w : Nat}
    (h : s.placeSnBody m v r id w = .ok (s', m')) : Frz s s' := by
  simp only [State.placeSnBody] at h
  split at h
  · cases h
  · rename_i s1 hw
    have f1 : Frz s s1 := FrW.withWorker (insertSn_wrelw _ id r) hw
    have e1 := withWorker_tasks hw
    split at h
    · cases h
    · rename_i task hg
      have ht := task?_of_get hg
      split at h
      · rename_i n hs
        cases h
        exact f1.trans (FrW.setState ht rfl (sok_sched_of_none (by rw [hs]; rfl)))
      · rename_i old hs
        split at h
        · split at h
          · cases h
          · rename_i r' hr
            split at h
            · cases h
            · rename_i s3 hw3
              cases h
              have f2 : Frz s1 { s1 with redirects := (s1.redirects.filter (·.1 ≠ id)) ++ [(id, w, v)] } := FrW.of_eq rfl rfl
              have f3 : Frz { s1 with redirects := (s1.redirects.filter (·.1 ≠ id)) ++ [(id, w, v)] } s3 :=
                FrW.withWorker (removeSn_wrelw _ id _) hw3
              have e3 : s3.tasks = s1.tasks := by have := withWorker_tasks hw3; exact this
              exact ((f1.trans f2).trans f3).trans (FrW.setState (task?_congr e3 ht) rfl (hs ▸ SOk.refl _ _ _))
        · cases h
          exact f1.trans (FrW.of_eq rfl rfl)
      · rename_i old hs
        split at h
        · cases h
        · rename_i s2 hw2
          split at h
          · cases h
          · cases h
            have f2 : Frz s1 s2 := FrW.withWorker (removePrefill_wrelw _ id) hw2
            have e2 := withWorker_tasks hw2
            exact (f1.trans f2).trans (FrW.setState_rd _ (task?_congr e2 ht) rfl (hs ▸ SOk.of_keep (.inr rfl) rfl))
      · cases h

theorem placeSn_frz {s s' : State} {m m' : List WUpdate} {v : Nat} {r : Rq} {id : TaskId} {w : Nat}
    (h : s.placeSn m v r id w = .ok (s', m')) : Frz s s' :=
  placeSnBody_frz (placeSn_ok h).1

theorem placeAll_frz (l : List (TaskId × Nat)) (s s' : State) (m m' : List WUpdate) (v : Nat) (r : Rq)
    (h : s.placeAll m v r l = .ok (s', m')) : Frz s s' := by
  induction l generalizing s m with
  | nil => simp only [State.placeAll] at h; cases h; exact Frz.refl _
  | cons p rest ih =>
    obtain ⟨id, w⟩ := p
    simp only [State.placeAll] at h
    split at h
    · cases h
    · rename_i s1 m1 h1
      exact (placeSn_frz h1).trans (ih _ _ h)

theorem mapSn_frz (es : List SnEntry) (s s' : State) (now : Nat) (m m' : List WUpdate)
    (h : s.mapSn now m es = .ok (s', m')) : Frz s s' := by
  induction es generalizing s m with
  | nil => simp only [State.mapSn] at h; cases h; exact Frz.refl _
  | cons e rest ih =>
    simp only [State.mapSn] at h
    split at h
    · cases h
    · split at h
      · cases h
      · split at h
        · cases h
        · rename_i q hq
          split at h
          · cases h
          · rename_i q' hq'
            split at h
            · cases h
            · rename_i s2 m2 hp
              have f1 : Frz s { s with queues := s.queues.set e.rq q' } := FrW.of_eq rfl rfl
              exact (f1.trans (placeAll_frz _ _ _ _ _ _ _ hp)).trans (ih _ _ h)

theorem setMnAll_frz (ws : List Nat) (s s' : State) (id : TaskId) (first : Bool)
    (h : setMnAll s id ws first = .ok s') : Frz s s' := by
  induction ws generalizing s first with
  | nil => simp only [setMnAll] at h; cases h; exact Frz.refl _
  | cons w rest ih =>
    simp only [setMnAll] at h
    split at h
    · cases h
    · rename_i s1 hw
      exact (FrW.withWorker (setMn_wrelw id first) hw).trans (ih _ _ h)

theorem mapMnSets_frz (sets : List (List Nat)) (s s' : State) (rq : Nat) (acc acc' : List TaskId)
    (h : s.mapMnSets rq sets acc = .ok (s', acc')) : Frz s s' := by
  induction sets generalizing s acc with
  | nil => simp only [State.mapMnSets] at h; cases h; exact Frz.refl _
  | cons ws rest ih =>
    simp only [State.mapMnSets] at h
    split at h
    · cases h
    · rename_i q hq
      split at h
      · cases h
      · rename_i p ids more hr
        split at h
        · cases h
        · rename_i id ids'
          split at h
          · cases h
          · rename_i s2 hm
            split at h
            · cases h
            · rename_i task hg
              split at h
              · cases h
              · rename_i hst
                have hst : task.state = .waiting 0 := Classical.not_not.mp hst
                have f2 := setMnAll_frz _ _ _ _ _ hm
                have f12 : Frz s s2 := f2.congr rfl rfl rfl rfl
                have f3 : Frz s2 (s2.setTask { task with state := .runningMN ws }) :=
                  FrW.setState (task?_of_get hg) rfl (sok_sched_of_none (by rw [hst]; rfl))
                exact (f12.trans f3).trans (ih _ _ h)

theorem mapMn_frz (es : List MnEntry) (s s' : State) (acc acc' : List TaskId)
    (h : s.mapMn es acc = .ok (s', acc')) : Frz s s' := by
  induction es generalizing s acc with
  | nil => simp only [State.mapMn] at h; cases h; exact Frz.refl _
  | cons e rest ih =>
    simp only [State.mapMn] at h
    split at h
    · cases h
    · rename_i s1 acc1 h1
      exact (mapMnSets_frz _ _ _ _ _ _ h1).trans (ih _ _ h)

theorem prefillBack_frz (rq : Nat) (l : List TaskId) (s s' : State) (keep keep' : List TaskId)
    (h : State.prefillWorker.back rq s l keep = .ok (s', keep')) : Frz s s' := by
  induction l generalizing s keep with
  | nil => simp only [State.prefillWorker.back] at h; cases h; exact Frz.refl _
  | cons id rest ih =>
    simp only [State.prefillWorker.back] at h
    split at h
    · cases h
    · split at h
      · split at h
        · cases h
        · rename_i s2 hm
          exact (movePrefilledToReady_core hm).frz.trans (ih _ _ h)
      · exact ih _ _ h

theorem prefillMark_frz (w : Nat) (l : List TaskId) (s s' : State)
    (h : State.prefillWorker.mark w s l = .ok s') : Frz s s' := by
  induction l generalizing s with
  | nil => simp only [State.prefillWorker.mark] at h; cases h; exact Frz.refl _
  | cons id rest ih =>
    simp only [State.prefillWorker.mark] at h
    split at h
    · cases h
    · rename_i t hg
      split at h
      · rename_i n hs
        split at h
        · cases h
        · rename_i s2 hw
          have f1 : Frz s (s.setTask { t with state := .prefilled w }) :=
            FrW.setState (task?_of_get hg) rfl (sok_sched_of_none (by rw [hs]; rfl))
          exact (f1.trans (FrW.withWorker (insertPrefill_wrelw _ id) hw)).trans (ih _ h)
      · cases h

theorem prefillWorker_frz {s s' : State} {m m' : List WUpdate} {rq size w : Nat}
    (h : s.prefillWorker m rq size w = .ok (s', m')) : Frz s s' := by
  simp only [State.prefillWorker] at h
  split at h
  · cases h
  · rename_i q hq
    split at h
    · cases h
    · split at h
      · cases h
      · rename_i pf hpf
        split at h
        · cases h
        · rename_i s2 keep hb
          split at h
          · cases h
          · rename_i s3 hmk
            cases h
            have f1 : Frz s { s with queues := s.queues.set rq { ready := (takeFromFirst q.ready size).1, prefill := some pf } } :=
              FrW.of_eq rfl rfl
            exact (f1.trans (prefillBack_frz _ _ _ _ _ _ hb)).trans (prefillMark_frz _ _ _ _ hmk)

theorem prefillWorkers_frz (ws : List Nat) (s s' : State) (m m' : List WUpdate) (rq size : Nat)
    (h : s.prefillWorkers m rq size ws = .ok (s', m')) : Frz s s' := by
  induction ws generalizing s m with
  | nil => simp only [State.prefillWorkers] at h; cases h; exact Frz.refl _
  | cons w rest ih =>
    simp only [State.prefillWorkers] at h
    split at h
    · cases h
    · rename_i s1 m1 h1
      exact (prefillWorker_frz h1).trans (ih _ _ h)

theorem proactive_frz (n : Nat) (s s' : State) (m m' : List WUpdate) (orders : List (Nat × List Nat)) (top : Int)
    (rq : Nat) (h : s.proactive m orders top n rq = .ok (s', m')) : Frz s s' := by
  have hp := prefillWorkers_frz
  have ht := @FrW.trans schedM
  have hr := Frz.refl
  fun_induction State.proactive s m orders top n rq <;> grind

theorem schedule_frz {s s' : State} {sol : Solution} {o : Out} (h : s.schedule sol = .ok (s', o)) : Frz s s' := by
  simp only [State.schedule] at h
  split at h
  · cases h
  · rename_i s1 m1 h1
    have f1 := mapSn_frz _ _ _ _ _ _ h1
    split at h
    · cases h
    · rename_i s2 mnTasks h2
      have f2 := mapMn_frz _ _ _ _ _ h2
      split at h
      · cases h
      · rename_i s3 m3 h3
        have f3 : Frz s2 s3 := by
          split at h3
          · cases h3; exact Frz.refl _
          · exact proactive_frz _ _ _ _ _ _ _ _ h3
        split at h
        · cases h
        · split at h
          · cases h
          · cases h
            exact ((f1.trans f2).trans f3).trans (FrW.of_eq rfl rfl)

end HqModel.Core
