import HqModel.Lemmas.CoreNoPanicQBase
/-!
C09 progress, queue correspondence `NpQ`, part A: the pure list level of a scheduling round
(`takeFromFirst`, `takeFromQueue`, `Queue.takeTasks`, `dealRound`, `deal`), both directions.

Status (everything below is proved, no `sorry`):

* `topPrio ready` / `topLen ready` — priority / length of the first entry (0 for the empty list).
* `takeFromFirst_cons_fst/_snd` — the two components on `(p, ids) :: rest` (by `rfl`).
* `takeFromFirst_pairs` : `rPairs ready = taken.map (topPrio ready, ·) ++ rPairs rest`.
* `takeFromFirst_ids`   : `rIds ready = taken ++ rIds rest`.
* `takeFromFirst_length`: `taken.length = min c (topLen ready)`.
* `takeFromFirst_wf`, `takeFromFirst_ne`, `takeFromFirst_len_le` : `ReadyWf` / non-empty entries / list length kept.
* `takeFromFirst_taken_mem` : `id ∈ taken → (topPrio ready, id) ∈ rPairs ready`.
* `takeFromQueue_spec` (BACKWARD, from `= .ok (ready', res)`): `∃ tp, res = acc ++ tp.map (·.2) ∧
  rPairs ready = tp ++ rPairs ready' ∧ tp.length = count ∧ (ReadyWf ready → ReadyWf ready') ∧ ready'.length ≤ ready.length`;
  `takeFromQueue_ids` : the `rIds` form (`rIds ready = taken' ++ rIds ready'`).
* `takeFromQueue_ok` (FORWARD): entries non-empty, `count ≤ (rIds ready).length`, `count ≤ fuel` → `∃ ready' res, … = .ok (ready', res)`;
  `takeFromQueue_fwd` : forward + all the facts of `takeFromQueue_spec`.
* `takeTasks_np` (FORWARD): `ReadyWf q.ready → count ≤ (rIds q.ready).length + (pfIds q).length → NoCorePanic (q.takeTasks count taken)`.
* `TakeSpec q q' count taken` + `takeTasks_spec` (BACKWARD, from `= .ok q'`, `ReadyWf q.ready`, `(qIds q).Nodup`):
  `wf`, `pairs` (pairs ⊆ pairs), `pf` (prefill ⊆ prefill, same `pp`), `perm : (qIds q).Perm (taken ++ qIds q')`,
  `coverR`, `coverP`, `len : taken.length = count` (unconditional); derived: `TakeSpec.sub/.tsub/.tnd/.nd/.pnd/.disj`.
* `dealRound_spec`, `deal_spec` : `(deal …).map (·.1) ++ left = acc.map (·.1) ++ tasks`, workers come from `counts` with `c > 0`;
  `deal_mem` (id ∈ tasks, (w, c) ∈ counts, c > 0), `deal_nodup`, `deal_complete` (COMPLETENESS:
  `tasks.length ≤ Σ counts → fuel > tasks.length → (deal fuel counts tasks []).map (·.1) = tasks`).
-/
namespace HqModel.Core.NPD

open NP

/-! ### small list facts -/

theorem eraseDups_length_le {α : Type} [BEq α] [LawfulBEq α] : ∀ (n : Nat) (l : List α), l.length ≤ n →
    l.eraseDups.length ≤ l.length
  | _, [], _ => by simp
  | 0, _ :: _, h => by simp at h
  | n + 1, a :: l, h => by
    rw [List.eraseDups_cons]
    have h1 := List.length_filter_le (fun b => !b == a) l
    have h2 := eraseDups_length_le n (l.filter fun b => !b == a) (by simp only [List.length_cons] at h; omega)
    simp only [List.length_cons]; omega

theorem nodup_of_eraseDups_length {α : Type} [BEq α] [LawfulBEq α] : ∀ (n : Nat) (l : List α), l.length ≤ n →
    l.eraseDups.length = l.length → l.Nodup
  | _, [], _, _ => by simp
  | 0, _ :: _, h, _ => by simp at h
  | n + 1, a :: l, h, he => by
    rw [List.eraseDups_cons] at he
    simp only [List.length_cons] at he h
    have h1 := List.length_filter_le (fun b => !b == a) l
    have h2 := eraseDups_length_le n (l.filter fun b => !b == a) (by omega)
    have h3 : (l.filter fun b => !b == a).length = l.length := by omega
    have h4 : l.filter (fun b => !b == a) = l := List.Sublist.eq_of_length List.filter_sublist h3
    rw [h4] at he
    refine List.nodup_cons.mpr ⟨?_, nodup_of_eraseDups_length n l (by omega) (by omega)⟩
    intro hm
    have := (List.filter_eq_self.mp h4) a hm
    simp at this

theorem rPairs_cons (p : Int) (ids : List TaskId) (rest : List (Int × List TaskId)) :
    rPairs ((p, ids) :: rest) = ids.map (fun id => (p, id)) ++ rPairs rest := by simp [rPairs]

theorem rPairs_nil : rPairs [] = [] := rfl

theorem qIds_eq' (q : Queue) : qIds q = rIds q.ready ++ pfIds q := rfl

theorem _root_.HqModel.Core.ReadyWf.tail {e : Int × List TaskId} {rest : List (Int × List TaskId)} (h : ReadyWf (e :: rest)) :
    ReadyWf rest := by
  refine ⟨?_, fun x hx => h.ne x (List.mem_cons_of_mem _ hx), fun x hx => h.asc x (List.mem_cons_of_mem _ hx)⟩
  have := h.prio
  simp only [List.map_cons, List.pairwise_cons] at this
  exact this.2

theorem _root_.HqModel.Core.ReadyWf.nil : ReadyWf [] := ⟨by simp, by simp, by simp⟩

/-! ### `takeFromFirst` -/

/-- priority of the first entry -/
def topPrio (ready : List (Int × List TaskId)) : Int := match ready with | [] => 0 | (p, _) :: _ => p

/-- size of the first entry -/
def topLen (ready : List (Int × List TaskId)) : Nat := match ready with | [] => 0 | (_, ids) :: _ => ids.length

theorem takeFromFirst_cons_snd (p : Int) (ids : List TaskId) (rest : List (Int × List TaskId)) (c : Nat) :
    (takeFromFirst ((p, ids) :: rest) c).2 = ids.take c := rfl

theorem takeFromFirst_cons_fst (p : Int) (ids : List TaskId) (rest : List (Int × List TaskId)) (c : Nat) :
    (takeFromFirst ((p, ids) :: rest) c).1 = if (ids.drop c).isEmpty then rest else (p, ids.drop c) :: rest := rfl

theorem takeFromFirst_pairs (ready : List (Int × List TaskId)) (c : Nat) :
    rPairs ready = (takeFromFirst ready c).2.map (fun id => (topPrio ready, id)) ++ rPairs (takeFromFirst ready c).1 := by
  cases ready with
  | nil => simp [takeFromFirst, rPairs]
  | cons x rest =>
    obtain ⟨p, ids⟩ := x
    rw [takeFromFirst_cons_snd, takeFromFirst_cons_fst, rPairs_cons]
    simp only [topPrio]
    split
    · rename_i he
      have hd : ids.drop c = [] := List.isEmpty_iff.mp he
      have : ids.take c = ids := by
        have := List.take_append_drop c ids
        rw [hd, List.append_nil] at this; exact this
      rw [this]
    · rw [rPairs_cons, ← List.append_assoc, ← List.map_append, List.take_append_drop]

theorem takeFromFirst_ids (ready : List (Int × List TaskId)) (c : Nat) :
    rIds ready = (takeFromFirst ready c).2 ++ rIds (takeFromFirst ready c).1 := by
  rw [rIds_eq_map_rPairs, rIds_eq_map_rPairs, takeFromFirst_pairs ready c, List.map_append, List.map_map]
  congr 1
  simp [Function.comp_def]

theorem takeFromFirst_length (ready : List (Int × List TaskId)) (c : Nat) :
    (takeFromFirst ready c).2.length = min c (topLen ready) := by
  cases ready with
  | nil => simp [takeFromFirst, topLen]
  | cons x rest => obtain ⟨p, ids⟩ := x; rw [takeFromFirst_cons_snd, List.length_take]; rfl

theorem takeFromFirst_wf {ready : List (Int × List TaskId)} (h : ReadyWf ready) (c : Nat) :
    ReadyWf (takeFromFirst ready c).1 := by
  cases ready with
  | nil => exact h
  | cons x rest =>
    obtain ⟨p, ids⟩ := x
    rw [takeFromFirst_cons_fst]
    split
    · exact h.tail
    · rename_i he
      refine ⟨h.prio, ?_, ?_⟩
      · intro e hm
        rcases List.mem_cons.mp hm with rfl | hm
        · intro e0; apply he; simp only at e0; rw [e0]; rfl
        · exact h.ne e (List.mem_cons_of_mem _ hm)
      · intro e hm
        rcases List.mem_cons.mp hm with rfl | hm
        · exact List.Pairwise.sublist (List.drop_sublist c ids) (h.asc (p, ids) List.mem_cons_self)
        · exact h.asc e (List.mem_cons_of_mem _ hm)

theorem takeFromFirst_ne {ready : List (Int × List TaskId)} (h : ∀ e ∈ ready, e.2 ≠ []) (c : Nat) :
    ∀ e ∈ (takeFromFirst ready c).1, e.2 ≠ [] := by
  cases ready with
  | nil => exact h
  | cons x rest =>
    obtain ⟨p, ids⟩ := x
    rw [takeFromFirst_cons_fst]
    split
    · exact fun e hm => h e (List.mem_cons_of_mem _ hm)
    · rename_i he
      intro e hm
      rcases List.mem_cons.mp hm with rfl | hm
      · intro e0; apply he; simp only at e0; rw [e0]; rfl
      · exact h e (List.mem_cons_of_mem _ hm)

theorem takeFromFirst_len_le (ready : List (Int × List TaskId)) (c : Nat) :
    (takeFromFirst ready c).1.length ≤ ready.length := by
  cases ready with
  | nil => simp [takeFromFirst]
  | cons x rest =>
    obtain ⟨p, ids⟩ := x
    rw [takeFromFirst_cons_fst]
    split <;> simp

theorem takeFromFirst_taken_mem {ready : List (Int × List TaskId)} {c : Nat} {id : TaskId}
    (h : id ∈ (takeFromFirst ready c).2) : (topPrio ready, id) ∈ rPairs ready := by
  rw [takeFromFirst_pairs ready c]
  exact List.mem_append.mpr (Or.inl (List.mem_map.mpr ⟨id, h, rfl⟩))

/-- the pairs of the rest are pairs of the list -/
theorem takeFromFirst_rest_sub {ready : List (Int × List TaskId)} {c : Nat} {x : Int × TaskId}
    (h : x ∈ rPairs (takeFromFirst ready c).1) : x ∈ rPairs ready := by
  rw [takeFromFirst_pairs ready c]
  exact List.mem_append.mpr (Or.inr h)

/-! ### `takeFromQueue` -/

/-- BACKWARD: what a successful `takeFromQueue` returned -/
theorem takeFromQueue_spec (fuel : Nat) (ready : List (Int × List TaskId)) (count : Nat) (acc : List TaskId)
    (ready' : List (Int × List TaskId)) (res : List TaskId)
    (h : takeFromQueue fuel ready count acc = .ok (ready', res)) :
    ∃ tp : List (Int × TaskId), res = acc ++ tp.map (·.2) ∧ rPairs ready = tp ++ rPairs ready' ∧ tp.length = count ∧
      (ReadyWf ready → ReadyWf ready') ∧ ready'.length ≤ ready.length := by
  induction fuel generalizing ready count acc with
  | zero =>
    cases count with
    | zero => simp only [takeFromQueue] at h; cases h; exact ⟨[], by simp, by simp, rfl, fun h => h, Nat.le_refl _⟩
    | succ n => simp only [takeFromQueue] at h; cases h
  | succ f ih =>
    cases count with
    | zero => simp only [takeFromQueue] at h; cases h; exact ⟨[], by simp, by simp, rfl, fun h => h, Nat.le_refl _⟩
    | succ n =>
      simp only [takeFromQueue] at h
      split at h
      · cases h
      · obtain ⟨tp, h1, h2, h3, h4, h5⟩ := ih _ _ _ h
        refine ⟨(takeFromFirst ready (n + 1)).2.map (fun id => (topPrio ready, id)) ++ tp, ?_, ?_, ?_, ?_, ?_⟩
        · rw [h1, List.map_append, List.map_map, List.append_assoc]
          congr 2
          simp [Function.comp_def]
        · rw [List.append_assoc, ← h2]; exact takeFromFirst_pairs ready (n + 1)
        · rw [List.length_append, List.length_map, h3]
          have := takeFromFirst_length ready (n + 1)
          omega
        · exact fun hw => h4 (takeFromFirst_wf hw _)
        · exact Nat.le_trans h5 (takeFromFirst_len_le ready _)

/-- BACKWARD, id form -/
theorem takeFromQueue_ids {fuel : Nat} {ready : List (Int × List TaskId)} {count : Nat} {acc : List TaskId}
    {ready' : List (Int × List TaskId)} {res : List TaskId}
    (h : takeFromQueue fuel ready count acc = .ok (ready', res)) :
    ∃ taken' : List TaskId, res = acc ++ taken' ∧ rIds ready = taken' ++ rIds ready' ∧ taken'.length = count ∧
      (ReadyWf ready → ReadyWf ready') ∧ (∀ x ∈ rPairs ready', x ∈ rPairs ready) ∧ ready'.length ≤ ready.length := by
  obtain ⟨tp, h1, h2, h3, h4, h5⟩ := takeFromQueue_spec _ _ _ _ _ _ h
  refine ⟨tp.map (·.2), h1, ?_, by rw [List.length_map]; exact h3, h4, ?_, h5⟩
  · rw [rIds_eq_map_rPairs, rIds_eq_map_rPairs, h2, List.map_append]
  · intro x hx; rw [h2]; exact List.mem_append.mpr (Or.inr hx)

/-- FORWARD: enough ids, enough fuel, no empty entry → no panic -/
theorem takeFromQueue_ok (fuel : Nat) (ready : List (Int × List TaskId)) (count : Nat) (acc : List TaskId)
    (hne : ∀ e ∈ ready, e.2 ≠ []) (hc : count ≤ (rIds ready).length) (hf : count ≤ fuel) :
    ∃ ready' res, takeFromQueue fuel ready count acc = .ok (ready', res) := by
  induction fuel generalizing ready count acc with
  | zero =>
    have : count = 0 := by omega
    subst this
    exact ⟨ready, acc, by simp [takeFromQueue]⟩
  | succ f ih =>
    cases count with
    | zero => exact ⟨ready, acc, by simp [takeFromQueue]⟩
    | succ n =>
      cases ready with
      | nil => simp [rIds] at hc
      | cons x rest =>
        obtain ⟨p, ids⟩ := x
        simp only [takeFromQueue]
        have hids : ids ≠ [] := hne (p, ids) List.mem_cons_self
        have hlen := takeFromFirst_length ((p, ids) :: rest) (n + 1)
        have hpos : 0 < ids.length := List.length_pos_iff.mpr hids
        simp only [topLen] at hlen
        have hI := takeFromFirst_ids ((p, ids) :: rest) (n + 1)
        have hI' := congrArg List.length hI
        rw [List.length_append] at hI'
        refine ih _ _ _ (takeFromFirst_ne hne _) ?_ ?_
        · omega
        · omega

/-- FORWARD with the facts about the result -/
theorem takeFromQueue_fwd (fuel : Nat) (ready : List (Int × List TaskId)) (count : Nat) (acc : List TaskId)
    (hne : ∀ e ∈ ready, e.2 ≠ []) (hc : count ≤ (rIds ready).length) (hf : count ≤ fuel) :
    ∃ ready' taken', takeFromQueue fuel ready count acc = .ok (ready', acc ++ taken') ∧
      rIds ready = taken' ++ rIds ready' ∧ taken'.length = count ∧ (ReadyWf ready → ReadyWf ready') ∧
      (∀ x ∈ rPairs ready', x ∈ rPairs ready) ∧ ready'.length ≤ ready.length := by
  obtain ⟨ready', res, h⟩ := takeFromQueue_ok fuel ready count acc hne hc hf
  obtain ⟨taken', h1, h2, h3, h4, h5, h6⟩ := takeFromQueue_ids h
  subst h1
  exact ⟨ready', taken', h, h2, h3, h4, h5, h6⟩

/-! ### `Queue.takeTasks` -/

theorem pfIds_ite (ready : List (Int × List TaskId)) (pp : Int) (ts : List TaskId) :
    pfIds ({ ready := ready, prefill := if ts.isEmpty then none else some (pp, ts) } : Queue) = ts := by
  unfold pfIds
  split
  · rename_i hh
    split at hh
    · cases hh
    · cases hh; rfl
  · rename_i hh
    split at hh
    · rename_i he; exact (List.isEmpty_iff.mp he).symm
    · cases hh

/-- FORWARD: `take_tasks` does not panic when the queue offers `count` ids -/
theorem takeTasks_np {q : Queue} {count : Nat} {taken : List TaskId} (hwf : ReadyWf q.ready)
    (hc : count ≤ (rIds q.ready).length + (pfIds q).length) : NoCorePanic (q.takeTasks count taken) := by
  unfold Queue.takeTasks
  extract_lets fuel
  split
  · -- no prefill set
    rename_i hpre
    have hp0 : (pfIds q).length = 0 := by simp [pfIds, hpre]
    obtain ⟨ready', res, h⟩ := takeFromQueue_ok fuel q.ready count [] hwf.ne (by omega) (by simp only [fuel]; omega)
    rw [h]
    simp only
    split
    · exact NoCorePanic.bang (by simp)
    · exact NoCorePanic.ok _
  · rename_i pp pset hpre
    have hp0 : (pfIds q).length = pset.length := by simp [pfIds, hpre]
    extract_lets samePrio
    split
    rename_i ready1 res1 hx
    have hx' : rIds q.ready = res1 ++ rIds ready1 ∧ (∀ e ∈ ready1, e.2 ≠ []) ∧ ready1.length ≤ q.ready.length := by
      split at hx
      · have e1 : ready1 = (takeFromFirst q.ready count).1 := by rw [hx]
        have e2 : res1 = (takeFromFirst q.ready count).2 := by rw [hx]
        rw [e1, e2]
        exact ⟨takeFromFirst_ids _ _, takeFromFirst_ne hwf.ne _, takeFromFirst_len_le _ _⟩
      · cases hx
        exact ⟨by simp, hwf.ne, Nat.le_refl _⟩
    extract_lets count1 k picks pset' count2
    split
    · exact NoCorePanic.bang (by simp)
    · have hl := congrArg List.length hx'.1
      rw [List.length_append] at hl
      obtain ⟨ready', res, h⟩ := takeFromQueue_ok fuel ready1 count2 [] hx'.2.1
        (by simp only [count2, count1, k]; omega) (by simp only [fuel, count2, count1, k]; omega)
      rw [h]
      simp only
      split
      · exact NoCorePanic.bang (by simp)
      · exact NoCorePanic.ok _

/-- BACKWARD: what a successful `take_tasks` did -/
structure TakeSpec (q q' : Queue) (count : Nat) (taken : List TaskId) : Prop where
  wf : ReadyWf q'.ready
  /-- every id of the new ready list keeps its priority entry -/
  pairs : ∀ x ∈ rPairs q'.ready, x ∈ rPairs q.ready
  /-- the prefill set shrinks, same priority -/
  pf : ∀ pp ts, q'.prefill = some (pp, ts) → ∃ ts0, q.prefill = some (pp, ts0) ∧ ∀ id ∈ ts, id ∈ ts0
  /-- `taken` and the ids of the new queue partition the ids of the old queue -/
  perm : (qIds q).Perm (taken ++ qIds q')
  coverR : ∀ id ∈ rIds q.ready, id ∈ rIds q'.ready ∨ id ∈ taken
  coverP : ∀ id ∈ pfIds q, id ∈ pfIds q' ∨ id ∈ taken
  len : taken.length = count

theorem takeTasks_spec {q q' : Queue} {count : Nat} {taken : List TaskId} (hwf : ReadyWf q.ready)
    (hnd : (qIds q).Nodup) (h : q.takeTasks count taken = .ok q') : TakeSpec q q' count taken := by
  unfold Queue.takeTasks at h
  extract_lets fuel at h
  split at h
  · -- no prefill set
    rename_i hpre
    split at h
    · cases h
    · rename_i ready' res hq
      obtain ⟨tk, h1, h2, h3, h4, h5, _⟩ := takeFromQueue_ids hq
      split at h
      · cases h
      · rename_i hres
        simp only [ne_eq, Decidable.not_not] at hres
        cases h
        simp only [List.nil_append] at h1
        subst h1
        subst hres
        have hp : pfIds q = [] := by simp [pfIds, hpre]
        have hp' : pfIds ({ q with ready := ready' } : Queue) = [] := by simp [pfIds, hpre]
        refine ⟨h4 hwf, h5, ?_, ?_, ?_, ?_, h3⟩
        · intro pp ts hh; simp only [hpre] at hh; cases hh
        · rw [qIds_eq', qIds_eq', hp, hp', h2]; simp
        · intro id hid
          rw [h2] at hid
          rcases List.mem_append.mp hid with a | a
          · exact Or.inr a
          · exact Or.inl a
        · intro id hid; rw [hp] at hid; cases hid
  · rename_i pp pset hpre
    have hp : pfIds q = pset := by simp [pfIds, hpre]
    extract_lets samePrio at h
    split at h
    rename_i ready1 res1 hx
    have hx' : rIds q.ready = res1 ++ rIds ready1 ∧ ReadyWf ready1 ∧ (∀ x ∈ rPairs ready1, x ∈ rPairs q.ready) ∧
        res1.length ≤ count := by
      split at hx
      · have e1 : ready1 = (takeFromFirst q.ready count).1 := by rw [hx]
        have e2 : res1 = (takeFromFirst q.ready count).2 := by rw [hx]
        rw [e1, e2]
        refine ⟨takeFromFirst_ids _ _, takeFromFirst_wf hwf _, fun x hx => takeFromFirst_rest_sub hx, ?_⟩
        rw [takeFromFirst_length]; omega
      · cases hx
        exact ⟨by simp, hwf, fun _ h => h, by simp⟩
    obtain ⟨hr1, hwf1, hps1, hl1⟩ := hx'
    extract_lets count1 k picks pset' count2 at h
    split at h
    · cases h
    · rename_i hchk
      simp only [Bool.or_eq_true, Bool.not_eq_true', decide_eq_true_eq, not_or, Bool.not_eq_false, ne_eq,
        Decidable.not_not] at hchk
      split at h
      · cases h
      · rename_i ready' res3 hq
        obtain ⟨tk, h1, h2, h3, h4, h5, _⟩ := takeFromQueue_ids hq
        simp only [List.nil_append] at h1
        subst h1
        split at h
        · cases h
        · rename_i hres
          simp only [ne_eq, Decidable.not_not] at hres
          cases h
          have hpicks : ∀ id ∈ picks, id ∈ pset := by
            intro id hid
            have := List.all_eq_true.mp hchk.1.1 id hid
            simpa using this
          have hpnd : picks.Nodup := nodup_of_eraseDups_length _ _ (Nat.le_refl _) hchk.1.2
          have hmem' : ∀ id, id ∈ pset' ↔ id ∈ pset ∧ id ∉ picks := by
            intro id; simp [pset', List.mem_filter]
          rw [qIds_eq', hp, List.nodup_append] at hnd
          have hpsnd : pset.Nodup := hnd.2.1
          -- the prefill set splits into the picks and the rest
          have hperm : pset.Perm (picks ++ pset') := by
            have hnd2 : (picks ++ pset').Nodup := by
              rw [List.nodup_append]
              refine ⟨hpnd, List.Pairwise.filter _ hpsnd, ?_⟩
              intro a ha b hb e
              subst e
              exact ((hmem' a).mp hb).2 ha
            rw [List.perm_ext_iff_of_nodup hpsnd hnd2]
            intro a
            rw [List.mem_append, hmem']
            constructor
            · intro ha
              by_cases hc : a ∈ picks
              · exact Or.inl hc
              · exact Or.inr ⟨ha, hc⟩
            · rintro (ha | ha)
              · exact hpicks a ha
              · exact ha.1
          have hp' : pfIds ({ ready := ready', prefill := if pset'.isEmpty then none else some (pp, pset') } : Queue) =
              pset' := pfIds_ite _ _ _
          refine ⟨h4 hwf1, fun x hx => hps1 x (h5 x hx), ?_, ?_, ?_, ?_, ?_⟩
          · intro pp' ts hh
            simp only at hh
            split at hh
            · cases hh
            · cases hh
              exact ⟨pset, hpre, fun id hid => ((hmem' id).mp hid).1⟩
          · rw [qIds_eq', qIds_eq', hp, hp', ← hres, hr1, h2]
            -- res1 ++ (tk ++ R) ++ pset ~ (res1 ++ picks ++ tk) ++ (R ++ pset')
            have e1 : res1 ++ (res3 ++ rIds ready') ++ pset = res1 ++ ((res3 ++ rIds ready') ++ pset) := by
              simp [List.append_assoc]
            have e2 : res1 ++ picks ++ res3 ++ (rIds ready' ++ pset') = res1 ++ (picks ++ ((res3 ++ rIds ready') ++ pset')) := by
              simp [List.append_assoc]
            rw [e1, e2]
            refine List.Perm.append_left _ ?_
            exact (List.Perm.append_left _ hperm).trans (List.perm_append_comm_assoc _ _ _)
          · intro id hid
            rw [hr1, h2] at hid
            rw [← hres]
            simp only [List.mem_append] at hid ⊢
            rcases hid with a | a | a
            · exact Or.inr (Or.inl (Or.inl a))
            · exact Or.inr (Or.inr a)
            · exact Or.inl a
          · intro id hid
            rw [hp] at hid
            rw [hp', ← hres]
            by_cases hc : id ∈ picks
            · exact Or.inr (List.mem_append.mpr (Or.inl (List.mem_append.mpr (Or.inr hc))))
            · exact Or.inl ((hmem' id).mpr ⟨hid, hc⟩)
          · rw [← hres, List.length_append, List.length_append, h3, hchk.2]
            simp only [count2, k, count1]
            omega

namespace TakeSpec

variable {q q' : Queue} {count : Nat} {taken : List TaskId}

theorem sub (h : TakeSpec q q' count taken) : ∀ id ∈ qIds q', id ∈ qIds q :=
  fun _ hid => h.perm.mem_iff.mpr (List.mem_append.mpr (Or.inr hid))

theorem tsub (h : TakeSpec q q' count taken) : ∀ id ∈ taken, id ∈ qIds q :=
  fun _ hid => h.perm.mem_iff.mpr (List.mem_append.mpr (Or.inl hid))

theorem nd_all (h : TakeSpec q q' count taken) (hnd : (qIds q).Nodup) : (taken ++ qIds q').Nodup :=
  h.perm.nodup_iff.mp hnd

theorem tnd (h : TakeSpec q q' count taken) (hnd : (qIds q).Nodup) : taken.Nodup :=
  (List.nodup_append.mp (h.nd_all hnd)).1

theorem nd (h : TakeSpec q q' count taken) (hnd : (qIds q).Nodup) : (qIds q').Nodup :=
  (List.nodup_append.mp (h.nd_all hnd)).2.1

theorem pnd (h : TakeSpec q q' count taken) (hnd : (qIds q).Nodup) : (pfIds q').Nodup := by
  have := h.nd hnd
  rw [qIds_eq', List.nodup_append] at this
  exact this.2.1

theorem disj (h : TakeSpec q q' count taken) (hnd : (qIds q).Nodup) : ∀ id ∈ taken, id ∉ qIds q' :=
  fun id hid hq => (List.nodup_append.mp (h.nd_all hnd)).2.2 id hid id hq rfl

/-- the ids of the new prefill set are ids of the old one -/
theorem pfsub (h : TakeSpec q q' count taken) : ∀ id ∈ pfIds q', id ∈ pfIds q := by
  intro id hid
  unfold pfIds at hid
  split at hid
  · rename_i pp ts hp
    obtain ⟨ts0, h0, hs⟩ := h.pf pp ts hp
    simp only [pfIds, h0]; exact hs id hid
  · cases hid

end TakeSpec

/-! ### `dealRound`, `deal` -/

theorem dealRound_spec (counts : List (Nat × Nat)) (tasks : List TaskId) (acc : List (TaskId × Nat)) :
    ∃ dealt : List (TaskId × Nat),
      (dealRound counts tasks acc).2.2 = acc ++ dealt ∧
      tasks = dealt.map (·.1) ++ (dealRound counts tasks acc).2.1 ∧
      (∀ p ∈ dealt, ∃ c, (p.2, c) ∈ counts ∧ c > 0) ∧
      (∀ p ∈ (dealRound counts tasks acc).1, ∃ c, (p.1, c) ∈ counts ∧ p.2 ≤ c) ∧
      (((dealRound counts tasks acc).1.map (·.2)).sum + dealt.length = (counts.map (·.2)).sum) ∧
      (tasks ≠ [] → 0 < (counts.map (·.2)).sum → dealt ≠ []) := by
  induction counts generalizing tasks acc with
  | nil => exact ⟨[], by simp [dealRound], by simp [dealRound], by simp, by simp [dealRound], by simp [dealRound], by simp⟩
  | cons wc rest ih =>
    obtain ⟨w, c⟩ := wc
    cases tasks with
    | nil =>
      refine ⟨[], by simp [dealRound], by simp [dealRound], by simp, ?_, by simp [dealRound], by simp⟩
      intro p hp
      simp only [dealRound] at hp
      exact ⟨p.2, hp, Nat.le_refl _⟩
    | cons t ts =>
      simp only [dealRound]
      split
      · rename_i hc
        obtain ⟨d, h1, h2, h3, h4, h5, h6⟩ := ih ts (acc ++ [(t, w)])
        refine ⟨(t, w) :: d, ?_, ?_, ?_, ?_, ?_, by simp⟩
        · simp only [h1, List.append_assoc, List.singleton_append]
        · simp only [List.map_cons, List.cons_append, List.cons.injEq, true_and]; exact h2
        · intro p hp
          rcases List.mem_cons.mp hp with rfl | hp
          · exact ⟨c, List.mem_cons_self, hc⟩
          · obtain ⟨c', a, b⟩ := h3 p hp
            exact ⟨c', List.mem_cons_of_mem _ a, b⟩
        · intro p hp
          rcases List.mem_cons.mp hp with rfl | hp
          · exact ⟨c, List.mem_cons_self, Nat.sub_le _ _⟩
          · obtain ⟨c', a, b⟩ := h4 p hp
            exact ⟨c', List.mem_cons_of_mem _ a, b⟩
        · simp only [List.map_cons, List.sum_cons, List.length_cons]
          omega
      · rename_i hc
        obtain ⟨d, h1, h2, h3, h4, h5, h6⟩ := ih (t :: ts) acc
        refine ⟨d, h1, h2, ?_, ?_, ?_, ?_⟩
        · intro p hp
          obtain ⟨c', a, b⟩ := h3 p hp
          exact ⟨c', List.mem_cons_of_mem _ a, b⟩
        · intro p hp
          rcases List.mem_cons.mp hp with rfl | hp
          · exact ⟨c, List.mem_cons_self, Nat.le_refl _⟩
          · obtain ⟨c', a, b⟩ := h4 p hp
            exact ⟨c', List.mem_cons_of_mem _ a, b⟩
        · simp only [List.map_cons, List.sum_cons]
          omega
        · intro hne hs
          simp only [List.map_cons, List.sum_cons] at hs
          exact h6 hne (by omega)

/-- what `deal` returns: the ids are dealt in order, to workers of `counts` with a positive count -/
theorem deal_spec (fuel : Nat) (counts : List (Nat × Nat)) (tasks : List TaskId) (acc : List (TaskId × Nat)) :
    ∃ (dealt : List (TaskId × Nat)) (left : List TaskId),
      deal fuel counts tasks acc = acc ++ dealt ∧ tasks = dealt.map (·.1) ++ left ∧
      (∀ p ∈ dealt, ∃ c, (p.2, c) ∈ counts ∧ c > 0) ∧
      (tasks.length ≤ (counts.map (·.2)).sum → tasks.length < fuel → left = []) := by
  induction fuel generalizing counts tasks acc with
  | zero => exact ⟨[], tasks, by simp [deal], by simp, by simp, fun _ h => by omega⟩
  | succ f ih =>
    simp only [deal]
    split
    · rename_i he
      have : tasks = [] := List.isEmpty_iff.mp he
      subst this
      exact ⟨[], [], by simp, by simp, by simp, fun _ _ => rfl⟩
    · rename_i he
      have hne : tasks ≠ [] := fun e => he (by rw [e]; rfl)
      obtain ⟨d1, a1, a2, a3, a4, a5, a6⟩ := dealRound_spec counts tasks acc
      obtain ⟨d2, left, b1, b2, b3, b4⟩ := ih (dealRound counts tasks acc).1 (dealRound counts tasks acc).2.1
        (dealRound counts tasks acc).2.2
      refine ⟨d1 ++ d2, left, ?_, ?_, ?_, ?_⟩
      · rw [b1, a1, List.append_assoc]
      · rw [List.map_append, List.append_assoc, ← b2]; exact a2
      · intro p hp
        rcases List.mem_append.mp hp with hp | hp
        · exact a3 p hp
        · obtain ⟨c, hc, hpos⟩ := b3 p hp
          obtain ⟨c', hc', hle⟩ := a4 (p.2, c) hc
          exact ⟨c', hc', by simp only at hle; omega⟩
      · intro hs hf
        have hl := congrArg List.length a2
        rw [List.length_append, List.length_map] at hl
        have hpos : 0 < tasks.length := List.length_pos_iff.mpr hne
        have hd : d1 ≠ [] := a6 hne (by omega)
        have hdl : 0 < d1.length := List.length_pos_iff.mpr hd
        exact b4 (by omega) (by omega)

/-- every `(id, w)` dealt: `id ∈ tasks`, `(w, c) ∈ counts` with `c > 0` -/
theorem deal_mem {fuel : Nat} {counts : List (Nat × Nat)} {tasks : List TaskId} {p : TaskId × Nat}
    (h : p ∈ deal fuel counts tasks []) : p.1 ∈ tasks ∧ ∃ c, (p.2, c) ∈ counts ∧ c > 0 := by
  obtain ⟨d, left, h1, h2, h3, _⟩ := deal_spec fuel counts tasks []
  rw [h1, List.nil_append] at h
  refine ⟨?_, h3 p h⟩
  rw [h2]
  exact List.mem_append.mpr (Or.inl (List.mem_map_of_mem h))

/-- the dealt ids are distinct -/
theorem deal_nodup {fuel : Nat} {counts : List (Nat × Nat)} {tasks : List TaskId} (hn : tasks.Nodup) :
    ((deal fuel counts tasks []).map (·.1)).Nodup := by
  obtain ⟨d, left, h1, h2, _, _⟩ := deal_spec fuel counts tasks []
  rw [h1, List.nil_append]
  rw [h2] at hn
  exact (List.nodup_append.mp hn).1

/-- COMPLETENESS: with enough capacity and fuel every task is dealt (in order) -/
theorem deal_complete {fuel : Nat} {counts : List (Nat × Nat)} {tasks : List TaskId}
    (hs : tasks.length ≤ (counts.map (·.2)).sum) (hf : tasks.length < fuel) :
    (deal fuel counts tasks []).map (·.1) = tasks := by
  obtain ⟨d, left, h1, h2, _, h4⟩ := deal_spec fuel counts tasks []
  have := h4 hs hf
  subst this
  rw [h1, List.nil_append, h2, List.append_nil]

end HqModel.Core.NPD
