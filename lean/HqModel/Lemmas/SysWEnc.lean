import HqModel.SysW.Model
/-!
`enc` / `dec` (task ids of M1 ↔ task ids of M2) are inverse bijections.
-/
namespace HqModel.SysW

theorem two_pow_pos' (j : Nat) : 0 < 2 ^ j := Nat.pow_pos (by decide)

theorem enc_succ (t : TaskId) : enc t + 1 = 2 ^ t.1 * (2 * t.2 + 1) := by
  have h1 := two_pow_pos' t.1
  have : 1 ≤ 2 ^ t.1 * (2 * t.2 + 1) := Nat.mul_pos h1 (by omega)
  unfold enc; omega

theorem decF_enc (j : Nat) : ∀ (f t : Nat), j < f → decF f (2 ^ j * (2 * t + 1)) = (j, t) := by
  induction j with
  | zero =>
    intro f t hf
    cases f with
    | zero => omega
    | succ f =>
      simp only [decF, Nat.pow_zero, Nat.one_mul]
      have : (2 * t + 1) % 2 = 1 := by omega
      simp only [this, if_true]
      congr 1; omega
  | succ j ih =>
    intro f t hf
    cases f with
    | zero => omega
    | succ f =>
      have e : 2 ^ (j + 1) * (2 * t + 1) = 2 * (2 ^ j * (2 * t + 1)) := by
        rw [Nat.pow_succ, Nat.mul_comm (2 ^ j) 2, Nat.mul_assoc]
      rw [e]
      simp only [decF]
      have h1 : (2 * (2 ^ j * (2 * t + 1))) % 2 ≠ 1 := by omega
      have h2 : 2 * (2 ^ j * (2 * t + 1)) / 2 = 2 ^ j * (2 * t + 1) := by omega
      simp only [h1, if_false, h2]
      rw [ih f t (by omega)]

theorem lt_two_pow' (j : Nat) : j < 2 ^ j := Nat.lt_two_pow_self

theorem dec_enc (t : TaskId) : dec (enc t) = t := by
  unfold dec
  rw [enc_succ]
  obtain ⟨j, k⟩ := t
  apply decF_enc
  have h1 := lt_two_pow' j
  have : 2 ^ j * 1 ≤ 2 ^ j * (2 * k + 1) := Nat.mul_le_mul_left _ (by omega)
  simp only at this ⊢
  omega

theorem decF_spec : ∀ (f m : Nat), 1 ≤ m → m ≤ f → 2 ^ (decF f m).1 * (2 * (decF f m).2 + 1) = m := by
  intro f
  induction f with
  | zero => intro m h1 h2; omega
  | succ f ih =>
    intro m h1 h2
    simp only [decF]
    by_cases hm : m % 2 = 1
    · simp only [hm, if_true, Nat.pow_zero, Nat.one_mul]; omega
    · simp only [hm, if_false]
      have := ih (m / 2) (by omega) (by omega)
      rw [Nat.pow_succ, Nat.mul_comm (2 ^ _) 2, Nat.mul_assoc, this]
      omega

theorem enc_dec (n : Nat) : enc (dec n) = n := by
  have := decF_spec (n + 1) (n + 1) (by omega) (Nat.le_refl _)
  have h := enc_succ (dec n)
  unfold dec at h ⊢
  omega

theorem enc_inj {a b : TaskId} (h : enc a = enc b) : a = b := by
  rw [← dec_enc a, ← dec_enc b, h]

theorem dec_eq_iff {n : Nat} {t : TaskId} : dec n = t ↔ n = enc t :=
  ⟨fun h => by rw [← h, enc_dec], fun h => by rw [h, dec_enc]⟩

theorem enc_eq_iff {n : Nat} {t : TaskId} : enc t = n ↔ t = dec n :=
  ⟨fun h => by rw [← h, dec_enc], fun h => by rw [h, enc_dec]⟩

example : enc (1, 0) = 1 ∧ enc (1, 2) = 9 ∧ dec 9 = (1, 2) ∧ dec 0 = (0, 0) ∧ dec 87 = (3, 5) := by decide

end HqModel.SysW
