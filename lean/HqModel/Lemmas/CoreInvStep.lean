import HqModel.Lemmas.CoreInvSched
/-!
Stage 2, part 7: `Inv` is preserved by every operation of the core model under the side conditions `OpOk2`,
hence holds in every state of every run from the empty core whose operations satisfy them; the decidable form of
the queue condition; the witness that the Reject side condition is necessary.
-/
namespace HqModel.Core

/-! ### decidable form of the queue condition -/

/-- `Good`, with the consumer clause over the task list (decidable) -/
def GoodD (s : State) (i : Nat) (id : TaskId) : Prop :=
  (∀ task, findTask s.tasks id = some task → task.rq = i) ∧ ∀ dt ∈ s.tasks, id ∉ dt.consumers

instance (s : State) (i : Nat) (id : TaskId) : Decidable (GoodD s i id) := by
  unfold GoodD
  have : Decidable (∀ task, findTask s.tasks id = some task → task.rq = i) := by
    cases h : findTask s.tasks id with
    | none => exact isTrue (fun _ e => by cases e)
    | some task =>
      by_cases hq : task.rq = i
      · exact isTrue (fun t e => by cases e; exact hq)
      · exact isFalse (fun hh => hq (hh task rfl))
  infer_instance

/-- **decidable queue condition** for a state in which a scheduling round starts: every id in ready/prefill
queue `i` is (if known) a task of request `i`, and no task of the map lists it as a consumer -/
def QueueOkD (s : State) : Prop := ∀ p ∈ s.queues.zipIdx, ∀ id ∈ qIds p.1, GoodD s p.2 id

instance (s : State) : Decidable (QueueOkD s) := by unfold QueueOkD; infer_instance

theorem QueueOkD.ok {s : State} (h : QueueOkD s) : QueueOk s := by
  intro i q hq id hid task ht
  have hm : (q, i) ∈ s.queues.zipIdx := List.mem_zipIdx_iff_getElem?.mpr hq
  obtain ⟨g1, g2⟩ := h (q, i) hm id hid
  exact ⟨g1 task ht, fun d dt hd => g2 dt (findTask_some_mem hd)⟩

/-! ### the step theorem -/

/-- side conditions of the operations (stage 2) -/
def OpOk2 (s : State) : Op → Prop
  | .newWorker w => FreshWorker w
  | .update w us rets => UpdatesOk UpdProto s w us rets
  | .schedule sol => QueueOkD s ∧ SolMnOk s sol
  | _ => True

instance (s : State) (op : Op) : Decidable (OpOk2 s op) := by
  cases op <;> simp only [OpOk2] <;> infer_instance

theorem step_inv {s s' : State} {op : Op} {out : Out} (hi : Inv s) (hok : OpOk2 s op)
    (h : step s op = .ok (s', out)) : Inv s' := by
  cases op with
  | newWorker w => exact newWorker_inv hi hok h
  | removeWorker w reason f order rets => exact removeWorker_inv hi h
  | newRq rqv => simp only [step] at h; cases h; exact newRq_inv rqv hi
  | newTasks nts => exact newTasks_inv hi h
  | cancel ids => exact cancelTasks_inv hi h
  | update w us rets => exact taskUpdate_inv hi hok h
  | retracted w ids => exact retractResponse_inv hi h
  | schedule sol => exact schedule_inv hi hok.1.ok hok.2 h

/-- the side condition holds for every operation of a run, each evaluated in the state it is applied to -/
def RunOk (P : State → Op → Prop) (s : State) : List Op → Prop
  | [] => True
  | op :: ops =>
    P s op ∧
    match step s op with
    | .ok (s1, _) => RunOk P s1 ops
    | .error _ => True

instance RunOk.decidable (P : State → Op → Prop) [∀ s op, Decidable (P s op)] :
    ∀ (ops : List Op) (s : State), Decidable (RunOk P s ops)
  | [], _ => isTrue trivial
  | op :: ops, s => by
    simp only [RunOk]
    cases h : step s op with
    | error e => simp only; infer_instance
    | ok r =>
      obtain ⟨s1, o⟩ := r
      simp only
      have := RunOk.decidable P ops s1
      infer_instance

theorem RunOk.mono {P Q : State → Op → Prop} (hpq : ∀ s op, P s op → Q s op) (ops : List Op) :
    ∀ s, RunOk P s ops → RunOk Q s ops := by
  induction ops with
  | nil => intro _ _; trivial
  | cons op rest ih =>
    intro s h
    simp only [RunOk] at h ⊢
    refine ⟨hpq _ _ h.1, ?_⟩
    have h2 := h.2
    split
    · rename_i s1 o he
      rw [he] at h2
      exact ih _ h2
    · trivial

/-- induction over runs with a side condition -/
theorem run_induction_ok {P : State → Prop} {C : State → Op → Prop}
    (hstep : ∀ s s' op out, P s → C s op → step s op = .ok (s', out) → P s')
    (ops : List Op) : ∀ (s s' : State) (out : Out), P s → RunOk C s ops → run s ops = .ok (s', out) → P s' := by
  induction ops with
  | nil => intro s s' out hp _ h; simp only [run] at h; cases h; exact hp
  | cons op rest ih =>
    intro s s' out hp hok h
    simp only [run] at h
    split at h
    · cases h
    · rename_i s1 o1 h1
      simp only [RunOk, h1] at hok
      split at h
      · cases h
      · rename_i s2 o2 h2
        cases h
        exact ih _ _ _ (hstep _ _ _ _ hp hok.1 h1) hok.2 h2

theorem inv_init : Inv {} := by
  refine ⟨List.nodup_nil, ⟨?_, ?_, ?_, ?_, List.nodup_nil, ?_, ?_⟩, ?_, ?_⟩
  · intro w t h; cases h
  · intro w t h; cases h
  · intro w t h; cases h
  · intro t w v h; cases h
  · intro w; exact List.nodup_nil
  · intro w; exact List.nodup_nil
  · intro d dt h; cases h
  · intro t task l h; cases h

/-- **`Inv` holds in every state of every run** from the empty core whose operations satisfy `OpOk2` -/
theorem run_inv {s : State} {ops : List Op} {out : Out} (hok : RunOk OpOk2 {} ops)
    (h : run {} ops = .ok (s, out)) : Inv s :=
  run_induction_ok (P := Inv) (C := OpOk2) (fun _ _ _ _ hp hc hs => step_inv hp hc hs) ops _ _ _ inv_init hok h

/-! ### the components of `Inv` in the vocabulary of the model -/

/-- (a) every id in `assigned_tasks` of a worker is a task Assigned / Running there, or Retracting with a redirect
to that worker -/
theorem Inv.assigned_sound {s : State} (hi : Inv s) {w : Nat} {wk : Worker} {A : List TaskId} {F : List Nat}
    {P : List TaskId} (hw : s.worker? w = some wk) (ha : wk.assign = .sn A F P) {t : TaskId} (ht : t ∈ A) :
    ∃ task, s.task? t = some task ∧
      ((∃ v, task.state = .assigned w v) ∨ (∃ v, task.state = .running w v) ∨
       (∃ w0 v, task.state = .retracting w0 ∧ (t, w, v) ∈ s.redirects)) := by
  obtain ⟨st, h1, h2⟩ := hi.ls.a1 w t (by rw [asgW_of_find hw]; simp [wAsg, ha]; exact ht)
  obtain ⟨task, hf, rfl⟩ := stOf_some h1
  refine ⟨task, hf, ?_⟩
  cases hs : task.state <;> rw [hs] at h2 <;> simp only [Holds_assigned, Holds_running, Holds_retracting,
    Holds_waiting, Holds_prefilled, Holds_runningMN, Holds_finished] at h2
  · subst h2; exact Or.inl ⟨_, rfl⟩
  · obtain ⟨v, hv⟩ := h2; exact Or.inr (Or.inr ⟨_, v, rfl, hv⟩)
  · subst h2; exact Or.inr (Or.inl ⟨_, rfl⟩)

/-- (b) every id in `prefilled_tasks` of a worker is a task Prefilled there -/
theorem Inv.prefilled_sound {s : State} (hi : Inv s) {w : Nat} {wk : Worker} {A : List TaskId} {F : List Nat}
    {P : List TaskId} (hw : s.worker? w = some wk) (ha : wk.assign = .sn A F P) {t : TaskId} (ht : t ∈ P) :
    ∃ task, s.task? t = some task ∧ task.state = .prefilled w := by
  have h1 := hi.ls.a2 w t (by rw [preW_of_find hw]; simp [wPre, ha]; exact ht)
  obtain ⟨task, hf, e⟩ := stOf_some h1
  exact ⟨task, hf, e⟩

/-- (d) a worker in a multi-node assignment for `t`: `t` is RunningMultiNode on a list containing the worker -/
theorem Inv.mn_sound {s : State} (hi : Inv s) {w : Nat} {wk : Worker} {t : TaskId} {root st : Bool}
    (hw : s.worker? w = some wk) (ha : wk.assign = .mn t root st) :
    ∃ task l, s.task? t = some task ∧ task.state = .runningMN l ∧ w ∈ l := by
  obtain ⟨l, h1, h2⟩ := hi.ls.m1 w t (by rw [mnW_of_find hw]; simp [wMn, ha])
  obtain ⟨task, hf, e⟩ := stOf_some h1
  exact ⟨task, l, hf, e, h2⟩

/-- the sets of a worker have no duplicates; a task has at most one redirect, and only when it is Retracting -/
theorem Inv.sets_nodup {s : State} (hi : Inv s) {w : Nat} {wk : Worker} {A : List TaskId} {F : List Nat}
    {P : List TaskId} (hw : s.worker? w = some wk) (ha : wk.assign = .sn A F P) : A.Nodup ∧ P.Nodup := by
  have h1 := hi.ls.nda w
  have h2 := hi.ls.ndp w
  rw [asgW_of_find hw] at h1
  rw [preW_of_find hw] at h2
  simp only [wAsg, wPre, ha] at h1 h2
  exact ⟨h1, h2⟩

theorem Inv.redirect_sound {s : State} (hi : Inv s) {t : TaskId} {w v : Nat} (h : (t, w, v) ∈ s.redirects) :
    (∃ task w0, s.task? t = some task ∧ task.state = .retracting w0) ∧
    ∀ w' v', (t, w', v') ∈ s.redirects → w' = w ∧ v' = v := by
  obtain ⟨w0, h1⟩ := hi.ls.d1 t w v h
  obtain ⟨task, hf, e⟩ := stOf_some h1
  exact ⟨⟨task, w0, hf, e⟩, fun w' v' h' => rd_unique hi.ls.d2 h' h⟩

/-! ### the Reject side condition is necessary -/

/-- a run that satisfies every side condition: two workers, one request, one task, placed on worker 1 -/
def rejectWitnessOps : List Op :=
  [.newWorker { id := 1, assign := .sn [] [10000] [], total := [10000] },
   .newWorker { id := 2, assign := .sn [] [10000] [], total := [10000] },
   .newRq [{ entries := [⟨0, .amount 10000⟩] }],
   .newTasks [{ id := (1, 0), rq := 0, prio := 0, crashLimit := .max 5, deps := [] }],
   .schedule { sn := [{ rq := 0, v := 0, counts := [(1, 1)], taken := [(1, 0)] }] }]

/-- a Reject for that task from worker 2, which the task is not assigned to -/
def rejectWitnessOp : Op := .update 2 [.reject (1, 0) (some 0)] []

/-- **`task_reject` from a wrong worker breaks the invariant**: after a run that satisfies all side conditions the
task (1,0) is Assigned to worker 1; the Reject of worker 2 is accepted ("Rejection from invalid worker" is only
logged), the task becomes Waiting and goes back to the queue, but stays in `assigned_tasks` of worker 1 with its
reservation. Hence the side condition `RejectOk` (which fails for this operation) cannot be dropped. -/
theorem reject_breaks_inv :
    ∃ s s' out out', RunOk OpOk2 {} rejectWitnessOps ∧ run {} rejectWitnessOps = .ok (s, out) ∧ Inv s ∧
      ¬ OpOk2 s rejectWitnessOp ∧ step s rejectWitnessOp = .ok (s', out') ∧ ¬ Inv s' := by
  have hok : RunOk OpOk2 {} rejectWitnessOps := by decide
  cases hrun : run {} rejectWitnessOps with
  | error e =>
    exfalso
    have : (run {} rejectWitnessOps).toOption.isSome = true := by decide
    rw [hrun] at this
    simp [Except.toOption] at this
  | ok r =>
    obtain ⟨s, out⟩ := r
    have hi : Inv s := run_inv hok hrun
    cases hstep : step s rejectWitnessOp with
    | error e =>
      exfalso
      have : (match run {} rejectWitnessOps with
        | .ok (s, _) => (step s rejectWitnessOp).toOption.isSome
        | .error _ => false) = true := by decide
      rw [hrun] at this
      simp [hstep, Except.toOption] at this
    | ok r' =>
      obtain ⟨s', out'⟩ := r'
      refine ⟨s, s', out, out', hok, rfl, hi, ?_, hstep, ?_⟩
      · have : (match run {} rejectWitnessOps with
          | .ok (s, _) => decide (OpOk2 s rejectWitnessOp)
          | .error _ => true) = false := by decide
        rw [hrun] at this
        simpa using this
      · intro hi'
        -- in s' the task is Waiting and still in the assigned set of worker 1
        have hfacts : (match run {} rejectWitnessOps with
          | .ok (s, _) =>
            match step s rejectWitnessOp with
            | .ok (s', _) => decide ((1, 0) ∈ asgW s'.workers 1) && decide (stOf s'.tasks (1, 0) = some (.waiting 0))
            | .error _ => false
          | .error _ => false) = true := by decide
        rw [hrun] at hfacts
        simp only [hstep, Bool.and_eq_true, decide_eq_true_eq] at hfacts
        obtain ⟨st, h1, h2⟩ := hi'.ls.a1 1 (1, 0) hfacts.1
        rw [hfacts.2] at h1; cases h1
        exact h2

end HqModel.Core
