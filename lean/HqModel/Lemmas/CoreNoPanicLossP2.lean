import HqModel.Lemmas.CoreNoPanicLossP
import HqModel.Lemmas.CoreNoPanicReactP5
/-!
C09 progress for `on_remove_worker`, part 2: the bundle after part 1 (all arms), progress of part 1 and of the two
steps before the crash loop, the bundle before the crash loop, the crash-limit loop, and the final theorem
`removeWorker_np`. Status list: `CoreNoPanicLossP.lean`.
-/
namespace HqModel.Core.NPL

open HqModel.Core.NP HqModel.Core.NPR

section
variable {U : List TaskId} {s : State} {w : Nat} {wk : Worker}

/-- **the bundle after part 1** (`retracted` = ids disposed from a prefill set, still to be retracted), and the
`running` list names `Waiting 0` records -/
theorem lossPart1_bd {order running retracted : List TaskId} {s1 : State} (hb : Bd U noD [] s)
    (hfw : findWorker s.workers w = some wk)
    (h : lossPart1 (drop s w) w wk.assign order = .ok (s1, running, retracted)) :
    Bd U noD retracted s1 ∧ WZ running s1 := by
  simp only [lossPart1] at h
  split at h
  · rename_i A F P ha
    split at h
    · cases h
    · rename_i hperm
      simp only [Bool.not_eq_eq_eq_not, Bool.not_true, Bool.not_eq_false, Bool.and_eq_true, decide_eq_true_eq] at hperm
      split at h
      · cases h
      · rename_i s01 hlp
        exact ⟨part1_sn_bd hb hfw ha (mem_of_all_contains hperm.1.2) (mem_of_all_contains hperm.1.1) hlp h,
          lostAssigned_wz _ _ _ _ _ _ _ (WZ.nil _) h⟩
  · rename_i tid root started ha
    split at h
    · cases h
    · rename_i task hg
      have ht : findTask s.tasks tid = some task := getTask_spec hg
      have hid : task.id = tid := findTask_some_id ht
      split at h
      · rename_i ws hs
        split at h
        · rename_i rootw others
          split at h
          · rename_i hroot
            split at h
            · cases h
            · rename_i s01 hr
              split at h
              · cases h
              · rename_i s3 r3 har
                cases h
                refine ⟨part1_mnroot_bd hb hfw ha ht hs hroot hr har, ?_⟩
                intro id hm t hxt
                have hidt : id = tid := by
                  split at hm
                  · simpa using hm
                  · cases hm
                subst hidt
                rw [task?_eq, addReady_tasks har] at hxt
                change findTask (putTask s01.tasks _) id = some t at hxt
                rw [findTask_putTask] at hxt
                have ht01 : findTask s01.tasks id = some task := by
                  rw [resetMnAll_tasks _ (drop s w) _ hr]; exact ht
                simp only [hid, if_true, ht01, Option.map_some, Option.some.injEq] at hxt
                rw [← hxt]
          · rename_i hroot
            cases h
            exact ⟨part1_mnother_bd hb hfw ha ht hs hroot, WZ.nil _⟩
        · cases h
      · cases h

/-! ### part 1 does not panic -/

theorem lostPrefilled_rd : ∀ (l : List TaskId) (s s' : State), s.lostPrefilled l = .ok s' → s'.redirects = s.redirects
  | [], s, s', h => by simp only [State.lostPrefilled] at h; cases h; rfl
  | id :: rest, s, s', h => by
    simp only [State.lostPrefilled] at h
    split at h
    · cases h
    · rename_i task hg
      split at h
      · cases h
      · rename_i s2 hm
        rw [lostPrefilled_rd rest s2 s' h, (movePrefilledToReady_core hm).r]
        rfl

/-- **part 1 of `on_remove_worker` does not panic** (`!bad-choice order` is the refusal of a recorded iteration order
that is not a permutation of the lost worker's `assigned_tasks`) -/
theorem lossPart1_np {order : List TaskId} (hb : Bd U noD [] s) (hfw : findWorker s.workers w = some wk) :
    NoCorePanic (lossPart1 (drop s w) w wk.assign order) := by
  have hinv := hb.inv
  cases ha : wk.assign with
  | sn A F P =>
    simp only [lossPart1]
    split
    · exact NoCorePanic.bang (by simp)
    · rename_i hperm
      have hperm' : (order.all A.contains && A.all order.contains && decide (order.length = A.length)) = true := by
        simpa using hperm
      have hP : preW s.workers w = P := by rw [preW_of_find hfw]; simp [wPre, ha]
      have hA : asgW s.workers w = A := by rw [asgW_of_find hfw]; simp [wAsg, ha]
      have hndA : A.Nodup := hA ▸ hinv.ls.nda w
      have hndP : P.Nodup := hP ▸ hinv.ls.ndp w
      have hon : order.Nodup := order_nodup hndA hperm'
      have hoA : ∀ x ∈ order, x ∈ A := by
        simp only [Bool.and_eq_true] at hperm'
        exact mem_of_all_contains hperm'.1.1
      obtain ⟨s01, hlp⟩ := lostPrefilled_ok P (drop s w) hndP (by
        intro x hx
        obtain ⟨task, hf, hs⟩ := stOf_some (hinv.ls.a2 w x (by rw [hP]; exact hx))
        have hid : task.id = x := findTask_some_id hf
        obtain ⟨q, pp, ts, hq, hp, hm⟩ :=
          (hb.nq.pin task (findTask_some_mem hf) ⟨w, hs⟩ (by simp) (fun e => e)).elim
        exact ⟨task, q, pp, ts, hf, hq, hp, hid ▸ hm⟩)
      simp only [hlp]
      apply NoCorePanic.of_ok
      apply lostAssigned_ok order s01 [] [] hon
      intro x hx
      obtain ⟨st, h1, h2⟩ := hinv.ls.a1 w x (by rw [hA]; exact hoA x hx)
      obtain ⟨task, hf, hs⟩ := stOf_some h1
      have hxP : x ∉ P := by
        intro hxP
        have := hinv.ls.a2 w x (by rw [hP]; exact hxP)
        rw [h1] at this
        simp only [Option.some.injEq] at this
        rw [this] at h2
        exact h2
      have hf1 : s01.task? x = some task := by
        rw [task?_eq, lostPrefilled_frame P _ _ hlp x hxP]; exact hf
      refine ⟨task, hf1, ?_, ?_⟩
      · rw [(NPA.lostPrefilled_fr (all := True) _ _ _ hlp).ql]
        show task.rq < s.queues.length
        rw [hb.idx.ql]; exact hb.idx.rq task (findTask_some_mem hf)
      · rintro ⟨w0, hw0⟩
        rw [← hs, hw0] at h2
        obtain ⟨v, hv⟩ := h2
        rw [lostPrefilled_rd P _ _ hlp]
        exact List.any_eq_true.mpr ⟨(x, w, v), hv, by simp⟩
  | mn tid root started =>
    have hM : mnW s.workers w = some tid := by rw [mnW_of_find hfw]; simp [wMn, ha]
    obtain ⟨l, h1, h2⟩ := hinv.ls.m1 w tid hM
    obtain ⟨task, ht, hs⟩ := stOf_some h1
    have hg : (drop s w).getTask tid = .ok task := NP.getTask_ok (s := drop s w) ht
    simp only [lossPart1, hg, hs]
    cases l with
    | nil => cases h2
    | cons rootw others =>
      simp only
      split
      · rename_i hroot
        have hnd := (hb.mn.ne task (findTask_some_mem ht) _ hs).2
        obtain ⟨s01, hr⟩ := resetMnAll_ok others (drop s w) (by
          intro x hx
          have hm := hb.tw.tw.t3 tid (rootw :: others) (fun e => e) h1 x (List.mem_cons_of_mem _ hx)
          obtain ⟨wkx, _, _, hfx, _⟩ := mnW_elim hm
          have hne : x ≠ w := by
            intro e
            rw [← hroot] at e
            exact (List.nodup_cons.mp hnd).1 (e ▸ hx)
          show (findWorker (s.workers.filter (·.id ≠ w)) x).isSome = true
          rw [findWorker_filter, if_neg hne, hfx]; rfl)
        simp only [hr]
        have hlt : task.rq < s01.queues.length := by
          rw [resetMnAll_queues _ _ _ hr]
          show task.rq < s.queues.length
          rw [hb.idx.ql]; exact hb.idx.rq task (findTask_some_mem ht)
        obtain ⟨⟨s3, r3⟩, har⟩ := addReady_ok (s := s01.setTask { task with state := .waiting 0, inst := task.inst + 1 })
          (t := { task with state := .waiting 0, inst := task.inst + 1 }) hlt
        simp only [har]
        exact NoCorePanic.ok _
      · exact NoCorePanic.ok _

/-! ### between part 1 and the crash loop -/

theorem Bd.lostRetracting {R : List TaskId} {s s' : State} {l : List Task} {o o' : Out} (hb : Bd U noD R s)
    (h : s.lostRetracting w l o = .ok (s', o')) : Bd U noD R s' :=
  ⟨lostRetracting_inv _ _ _ _ _ _ hb.inv h, lostRetracting_tw _ _ _ _ _ _ hb.tw h,
    lostRetracting_safe _ _ _ _ _ _ h U none [] hb.q, NPA.lostRetracting_npw _ _ _ _ _ _ hb.w h,
    NPA.lostRetracting_npidx _ _ _ _ _ _ hb.idx h, NPA.lostRetracting_npmn _ _ _ _ _ _ hb.mn h,
    NPB.lostRetracting_npdeps hb.deps h, (NPC.lostRetracting_npq _ _ _ _ _ _ hb.nq hb.inv.side h).1⟩

/-- **the two steps before the crash loop succeed**, and give the full bundle and the loop invariant of the crash
loop (`removeWorker_bd3`) -/
theorem lossMid_ok {running retracted : List TaskId} {s1 : State} (w : Nat) (hb1 : Bd U noD retracted s1)
    (hz : WZ running s1) :
    ∃ s2 out1 s3 out2, s1.lostRetracting w s1.tasks {} = .ok (s2, out1) ∧ s2.retract retracted = .ok (s3, out2) ∧
      Bd U noD [] s3 ∧ WZ running s3 := by
  obtain ⟨⟨s2, out1⟩, h2⟩ := lostRetracting_ok w s1.tasks s1 {}
  have hb2 := Bd.lostRetracting hb1 h2
  obtain ⟨⟨s3, out2⟩, h3⟩ := retract_ok hb2.nq.rnd (retrReady_of hb2.tw hb2.nq (fun _ _ e => e))
  exact ⟨s2, out1, s3, out2, h2, h3, hb2.retract h3,
    retract_wz (lostRetracting_wz hz hb1.nd h2) hb2.nd h3⟩

end

section
variable {U : List TaskId} {s : State}

/-! ### the crash-limit loop -/

/-- only the crash counter of a record changes -/
theorem Bd.setCrashes {R : List TaskId} (hb : Bd U noD R s) {id : TaskId} {task : Task} (ht : s.task? id = some task)
    (c : Nat) : Bd U noD R (s.setTask { task with crashes := c }) := by
  have hid : task.id = id := findTask_some_id ht
  have ht1 : findTask s.tasks ({ task with crashes := c } : Task).id = some task := by
    show findTask s.tasks task.id = some task
    rw [hid]; exact ht
  have hfr : ∀ all : Prop, NPA.Fr all s (s.setTask { task with crashes := c }) :=
    fun _ => NPA.Fr.setSame (tn := { task with crashes := c }) ht rfl rfl rfl
  refine ⟨?_, hb.tw.put_same ht1 rfl, Safe.setState' ht1 rfl (fun e => e) U none [] hb.q,
    (hfr True).npw hb.w, (hfr False).npidx hb.idx, (hfr True).npmn hb.mn, hb.deps.of_ds (NPB.DS.setState ht1),
    NPC.setTask_npq_same (t' := { task with crashes := c }) hb.nq ht1 rfl rfl rfl⟩
  show Inv4 (putTask s.tasks _) s.workers s.redirects s.rqs
  exact hb.inv.put ht1 rfl rfl (fun h => h) (fun l' hl => ⟨l', hl⟩) (hb.inv.ls.mv_same ht1 rfl)

/-- removals keep the states of the surviving records -/
theorem WZ.of_rem {l : List TaskId} {s s' : State} (h : WZ l s) (hr : NPC.Rem s s') : WZ l s' := by
  intro id hid t' ht'
  have h1 := hr.st id t'.state (stOf_of_find ht')
  obtain ⟨t, ht, hs⟩ := stOf_some h1
  rw [← hs]
  exact h id hid t ht

theorem retsOk_head {rets : List (List TaskId)} (h : RetsOk rets) : (rets.headD []).Nodup := by
  cases rets with
  | nil => exact List.nodup_nil
  | cons l rest => exact h l List.mem_cons_self

theorem retsOk_tail {rets : List (List TaskId)} (h : RetsOk rets) : RetsOk rets.tail :=
  fun l hl => h l (List.mem_of_mem_tail hl)

/-- **the crash-limit loop does not panic**: every task of the list that is still in the map is `Waiting 0` (the loop
fails such a task with `task_failed(worker = none)`, which asserts a Waiting state) -/
theorem crashLoop_ok (f : Bool) : ∀ (ids : List TaskId) (s : State) (rets : List (List TaskId)) (out : Out),
    Bd U noD [] s → WZ ids s → RetsOk rets → ∃ r, s.crashLoop f ids rets out = .ok r
  | [], s, rets, out, _, _, _ => ⟨_, rfl⟩
  | id :: rest, s, rets, out, hb, hz, hr => by
    have hz' : WZ rest s := fun x hx => hz x (List.mem_cons_of_mem _ hx)
    simp only [State.crashLoop]
    cases ht : s.task? id with
    | none => exact crashLoop_ok f rest s rets out hb hz' hr
    | some task =>
      simp only
      have hs : task.state = .waiting 0 := hz id List.mem_cons_self task ht
      have hid : task.id = id := findTask_some_id ht
      generalize crashOutcome task.crashLimit f task.crashes = co
      obtain ⟨c', fails⟩ := co
      simp only
      have hb1 := Bd.setCrashes hb ht c'
      have hput : ∀ x t, (s.setTask { task with crashes := c' }).task? x = some t →
          ∃ t0, s.task? x = some t0 ∧ t.state = t0.state := by
        intro x t hxt
        change findTask (putTask s.tasks _) x = some t at hxt
        rw [findTask_putTask] at hxt
        split at hxt
        · rename_i e
          have e' : x = id := e.trans hid
          subst e'
          rw [show findTask s.tasks x = some task from ht] at hxt
          simp only [Option.map_some, Option.some.injEq] at hxt
          exact ⟨task, ht, by rw [← hxt]⟩
        · exact ⟨t, hxt, rfl⟩
      have hz1 : WZ rest (s.setTask { task with crashes := c' }) := by
        intro x hx t hxt
        obtain ⟨t0, h0, e0⟩ := hput x t hxt
        rw [e0]; exact hz' x hx t0 h0
      cases fails with
      | false =>
        simp only [Bool.false_eq_true, if_false]
        exact crashLoop_ok f rest _ rets out hb1 hz1 hr
      | true =>
        simp only [if_true]
        obtain ⟨⟨s2, o2⟩, h2⟩ := taskFailed_ok_none (id := id) hb1 (by
          intro t hxt
          obtain ⟨t0, h0, e0⟩ := hput id t hxt
          rw [ht] at h0; cases h0
          rw [e0]; exact hs) (retsOk_head hr)
        simp only [h2]
        exact crashLoop_ok f rest s2 rets.tail _ (hb1.taskFailed h2)
          (hz1.of_rem (NPC.taskFailed_npq hb1.nq hb1.inv.nd hb1.inv.cw h2).2) (retsOk_tail hr)

/-! ### `on_remove_worker` -/

theorem lossTail_ok {s1 : State} {running retracted : List TaskId} {w : Nat} {reason : String} {f : Bool}
    {rets : List (List TaskId)} (hb1 : Bd U noD retracted s1) (hz : WZ running s1) (hr : RetsOk rets) :
    ∃ r, lossTail s1 running retracted w reason f rets = .ok r := by
  obtain ⟨s2, out1, s3, out2, h2, h3, hb3, hz3⟩ := lossMid_ok w hb1 hz
  obtain ⟨⟨s4, out⟩, h4⟩ := crashLoop_ok f running s3 rets
    ((out1.add out2).add { cbs := [.workerLost w running reason] }) hb3 hz3 hr
  simp only [lossTail, h2, h3, h4]
  exact ⟨_, rfl⟩

/-- **part 1 of `on_remove_worker` does not panic** (name of the task list; = `lossPart1_np`) -/
theorem removeWorker_part1_np {w : Nat} {wk : Worker} {order : List TaskId} (hb : Bd U noD [] s)
    (hfw : s.worker? w = some wk) : NoCorePanic (lossPart1 (drop s w) w wk.assign order) := lossPart1_np hb hfw

/-- **the state before the crash loop**: after a successful part 1 the two following steps succeed, the result
satisfies the full bundle, and the `running` list names `Waiting 0` records -/
theorem removeWorker_bd3 {w : Nat} {wk : Worker} {order running retracted : List TaskId} {s1 : State}
    (hb : Bd U noD [] s) (hfw : s.worker? w = some wk)
    (h1 : lossPart1 (drop s w) w wk.assign order = .ok (s1, running, retracted)) :
    ∃ s2 out1 s3 out2, s1.lostRetracting w s1.tasks {} = .ok (s2, out1) ∧ s2.retract retracted = .ok (s3, out2) ∧
      Bd U noD [] s3 ∧ WZ running s3 := by
  obtain ⟨hb1, hz1⟩ := lossPart1_bd hb hfw h1
  exact lossMid_ok w hb1 hz1

/-- **`on_remove_worker` does not panic** -/
theorem removeWorker_np {U : List TaskId} {s : State} {w : Nat} {reason : String} {f : Bool} {order : List TaskId}
    {rets : List (List TaskId)} (hi : InvF s) (hq : QInv U none [] s) (hn : NpInv U [] s)
    (hw : (s.worker? w).isSome = true) (hr : RetsOk rets) : NoCorePanic (s.removeWorker w reason f order rets) := by
  have hb := Bd.of hi hq hn
  rw [removeWorker_eq]
  cases hfw : s.worker? w with
  | none => rw [hfw] at hw; cases hw
  | some wk =>
    simp only
    have hnp := lossPart1_np (order := order) hb hfw
    cases h1 : lossPart1 { s with workers := s.workers.filter (·.id ≠ w) } w wk.assign order with
    | error e =>
      simp only
      rw [h1] at hnp
      intro site hs
      cases hs
      exact hnp site rfl
    | ok r =>
      obtain ⟨s1, running, retracted⟩ := r
      simp only
      obtain ⟨hb1, hz1⟩ := lossPart1_bd hb hfw h1
      exact NoCorePanic.of_ok (lossTail_ok hb1 hz1 hr)

end

end HqModel.Core.NPL
