import HqModel.Lemmas.CoreNoPanicSys
import HqModel.Props.SysW
/-!
C09 compose (stage 4): the progress theorem of the core lifted to the composed system WITH the workers, `SysW`.

* `SysW.sysOpOf s op` — the `Sys` action the world action performs in state `s` (mirrors `SysW.step`): `srv op` → `op`,
  `addWorker` → `newWorker`, `loseWorker` → `removeWorker`, `deliverW2S` → `update` / `retracted` with the head of the
  worker → server queue; `none` for `deliverS2W` / `wlocal` and for the actions `SysW.step` refuses (`notAllowed`,
  `noWorker`, `emptyQueue`, `badInput`);
* `SysW.OpNPc` / `SysW.RunNPc` — `Sys.OpNPc` of that action (hypotheses, decidable);
* invariant `NPX.WGood s = WInv s ∧ ∃ U, Sys.NPX.GoodU U s.sys`; `NPX.wgood_step`, `NPX.wgood_no_core_panic`,
  `NPX.run_wgood`, `NPX.run_no_core_panic`.
-/
namespace HqModel.SysW
open HqModel

/-- the `Sys` action `SysW.step s op` performs (mirrors `SysW.step`) -/
def sysOpOf (s : State) : Op → Option Sys.Op
  | .srv op => if srvAllowed op = true then some op else none
  | .addWorker wk _ _ => if (findW s.workers wk.id).isSome = true then none else some (.newWorker wk)
  | .loseWorker w reason f order rets =>
    match findW s.workers w with
    | none => none
    | some _ => some (.removeWorker w reason f order rets)
  | .deliverW2S w rets =>
    match findW s.workers w with
    | none => none
    | some x =>
      match x.w2s with
      | [] => none
      | .updates us :: _ => some (.update w us rets)
      | .retracted ids :: _ => some (.retracted w ids)
  | .deliverS2W _ _ => none
  | .wlocal _ _ => none

/-- `Sys.OpNPc` for an optional `Sys` action -/
def NPcOfSys (s : Sys.State) : Option Sys.Op → Prop
  | some sop => Sys.OpNPc s sop
  | none => True

instance (s : Sys.State) (o : Option Sys.Op) : Decidable (NPcOfSys s o) := by
  cases o <;> simp only [NPcOfSys] <;> infer_instance

/-- **the lifted hypothesis of one world action of `SysW`**: `Sys.OpNPc` of the `Sys` action it performs — the new
input conditions of the core (`Core.OpNP`) and the exclusion of F27 (`Core.OpExcl`) for the core operation that
action hands to the core. For `deliverW2S` the `update` is the batch at the head of the worker's queue: its
`UpdNP` / `NoF27` part is a statement about what the worker model sent (not derived here). -/
def OpNPc (s : State) (op : Op) : Prop := NPcOfSys s.sys (sysOpOf s op)

instance (s : State) (op : Op) : Decidable (OpNPc s op) := by unfold OpNPc; infer_instance

/-- `OpNPc` on the pre-state of every action of a run (as `RunOk`) -/
def RunNPc (s : State) : List Op → Prop
  | [] => True
  | op :: ops =>
    OpNPc s op ∧
    match step s op with
    | .ok (s1, _) => RunNPc s1 ops
    | .error _ => True

instance RunNPc.decidable : ∀ (ops : List Op) (s : State), Decidable (RunNPc s ops)
  | [], _ => isTrue trivial
  | op :: ops, s => by
    simp only [RunNPc]
    cases h : step s op with
    | error e => simp only; infer_instance
    | ok r =>
      obtain ⟨s1, o⟩ := r
      simp only
      have := RunNPc.decidable ops s1
      infer_instance

namespace NPX

theorem sysStep_err {s : State} {sop : Sys.Op} {ws : List WState} {e : Sys.Stop}
    (h : sysStep s sop ws = .error (.sys e)) : Sys.step s.sys sop = .error e := by
  simp only [sysStep] at h
  split at h
  · rename_i e' he
    cases h
    exact he
  · cases h

theorem workerStep_not_sys {s : State} {x : WState} {op : Worker.Op} {e : Sys.Stop} :
    workerStep s x op ≠ .error (.sys e) := by
  intro h
  simp only [workerStep] at h
  split at h <;> cases h

/-- **`Stop.sys e` is a stop of the `Sys` action the world action performs** -/
theorem step_sys_err {s : State} {op : Op} {e : Sys.Stop} (h : step s op = .error (.sys e)) :
    ∃ sop, sysOpOf s op = some sop ∧ Sys.step s.sys sop = .error e := by
  cases op with
  | srv sop =>
    simp only [step] at h
    split at h
    · rename_i ha
      exact ⟨sop, by simp only [sysOpOf, ha, if_true], sysStep_err h⟩
    · cases h
  | addWorker wk rqs rem =>
    simp only [step] at h
    split at h
    · cases h
    · rename_i hn
      exact ⟨_, by simp only [sysOpOf, hn]; rfl, sysStep_err h⟩
  | loseWorker w reason f order rets =>
    simp only [step] at h
    split at h
    · cases h
    · rename_i x hf
      exact ⟨_, by simp only [sysOpOf, hf], sysStep_err h⟩
  | deliverW2S w rets =>
    simp only [step] at h
    split at h
    · cases h
    · rename_i x hf
      split at h
      · cases h
      · rename_i m rest hq
        split at h
        · exact ⟨_, by simp only [sysOpOf, hf, hq], sysStep_err h⟩
        · exact ⟨_, by simp only [sysOpOf, hf, hq], sysStep_err h⟩
  | deliverS2W w extras =>
    simp only [step] at h
    split at h
    · cases h
    · split at h
      · cases h
      · split at h
        · cases h
        · exact absurd h workerStep_not_sys
  | wlocal w op =>
    simp only [step] at h
    split at h
    · split at h
      · cases h
      · exact absurd h workerStep_not_sys
    · cases h

/-- a successful world action: the `Sys` part is untouched, or it is the `Sys` action `sysOpOf` names -/
theorem step_sys_ok {s s' : State} {op : Op} {o : Out} (h : step s op = .ok (s', o)) :
    (sysOpOf s op = none ∧ s'.sys = s.sys) ∨
    ∃ sop so, sysOpOf s op = some sop ∧ Sys.step s.sys sop = .ok (s'.sys, so) := by
  cases op with
  | srv sop =>
    simp only [step] at h
    split at h
    · rename_i ha
      obtain ⟨so, _, _, c⟩ := sysStep_sys h
      exact .inr ⟨sop, so, by simp only [sysOpOf, ha, if_true], c⟩
    · cases h
  | addWorker wk rqs rem =>
    simp only [step] at h
    split at h
    · cases h
    · rename_i hn
      obtain ⟨so, _, _, c⟩ := sysStep_sys h
      exact .inr ⟨_, so, by simp only [sysOpOf, hn]; rfl, c⟩
  | loseWorker w reason f order rets =>
    simp only [step] at h
    split at h
    · cases h
    · rename_i x hf
      obtain ⟨so, _, _, c⟩ := sysStep_sys h
      exact .inr ⟨_, so, by simp only [sysOpOf, hf], c⟩
  | deliverW2S w rets =>
    simp only [step] at h
    split at h
    · cases h
    · rename_i x hf
      split at h
      · cases h
      · rename_i m rest hq
        split at h
        · obtain ⟨so, _, _, c⟩ := sysStep_sys h
          exact .inr ⟨_, so, by simp only [sysOpOf, hf, hq], c⟩
        · obtain ⟨so, _, _, c⟩ := sysStep_sys h
          exact .inr ⟨_, so, by simp only [sysOpOf, hf, hq], c⟩
  | deliverS2W w extras =>
    simp only [step] at h
    split at h
    · cases h
    · split at h
      · cases h
      · split at h
        · cases h
        · exact .inl ⟨rfl, (workerStep_sys h).2.2⟩
  | wlocal w op =>
    simp only [step] at h
    split at h
    · split at h
      · cases h
      · exact .inl ⟨rfl, (workerStep_sys h).2.2⟩
    · cases h

/-- the `Sys` action of a world action satisfies `Sys.OpOk` — for a delivered `TaskUpdate` BECAUSE the worker model
sent it (`deliver_updOk`) -/
theorem sysOpOf_ok {s : State} {op : Op} {sop : Sys.Op} (hi : WInv s) (hok : OpOk s op) (hc : sysOpOf s op = some sop) :
    Sys.OpOk s.sys sop := by
  cases op with
  | srv sop' =>
    simp only [sysOpOf] at hc
    split at hc
    · cases hc; exact hok.sys
    · cases hc
  | addWorker wk rqs rem =>
    simp only [sysOpOf] at hc
    split at hc
    · cases hc
    · cases hc; exact hok.1
  | loseWorker w reason f order rets =>
    simp only [sysOpOf] at hc
    split at hc
    · cases hc
    · cases hc; trivial
  | deliverW2S w rets =>
    simp only [sysOpOf] at hc
    split at hc
    · cases hc
    · rename_i x hf
      split at hc
      · cases hc
      · rename_i us rest hq
        cases hc
        exact deliver_updOk hi hf hq rets
      · cases hc; trivial
  | deliverS2W w extras => simp only [sysOpOf] at hc; cases hc
  | wlocal w op => simp only [sysOpOf] at hc; cases hc

/-- the invariant of the composed run: the pipeline invariant `WInv` and the progress invariant of `Sys` -/
structure WGood (s : State) : Prop where
  winv : WInv s
  good : ∃ U, Sys.NPX.GoodU U s.sys

theorem wgood_init (reserve max : Nat) : WGood (initState reserve max) :=
  ⟨winv_init reserve max, [], Sys.NPX.goodU_initState reserve max⟩

/-- **no world action panics in the core** -/
theorem wgood_no_core_panic {s : State} {op : Op} (hg : WGood s) (hok : OpOk s op) (hnp : OpNPc s op) (site : String)
    (h : step s op = .error (.sys (.core site))) : site.startsWith "!" = true := by
  obtain ⟨sop, hc, hs⟩ := step_sys_err h
  obtain ⟨U, hgu⟩ := hg.good
  have hnp' : Sys.OpNPc s.sys sop := by unfold OpNPc at hnp; rw [hc] at hnp; exact hnp
  exact Sys.NPX.good_no_core_panic hgu (sysOpOf_ok hg.winv hok hc) hnp' site hs

/-- **the invariant is inductive over `SysW.step`** -/
theorem wgood_step {s s' : State} {op : Op} {o : Out} (hg : WGood s) (hok : OpOk s op) (hnp : OpNPc s op)
    (h : step s op = .ok (s', o)) : WGood s' := by
  refine ⟨step_inv hg.winv hok h, ?_⟩
  obtain ⟨U, hgu⟩ := hg.good
  rcases step_sys_ok h with ⟨_, e⟩ | ⟨sop, so, hc, hs⟩
  · exact ⟨U, by rw [e]; exact hgu⟩
  · have hnp' : Sys.OpNPc s.sys sop := by unfold OpNPc at hnp; rw [hc] at hnp; exact hnp
    exact ⟨_, Sys.NPX.good_step hgu (sysOpOf_ok hg.winv hok hc) hnp' hs⟩

theorem run_wgood : ∀ (ops : List Op) {s s' : State} {outs : List Out}, WGood s → RunOk s ops → RunNPc s ops →
    run s ops = .ok (s', outs) → WGood s' := by
  intro ops
  induction ops with
  | nil => intro s s' outs hg _ _ h; simp only [run] at h; cases h; exact hg
  | cons op rest ih =>
    intro s s' outs hg hok hnp h
    simp only [run] at h
    split at h
    · cases h
    · rename_i s1 o1 h1
      simp only [RunOk, h1] at hok
      simp only [RunNPc, h1] at hnp
      split at h
      · cases h
      · rename_i s2 os h2
        cases h
        exact ih (wgood_step hg hok.1 hnp.1 h1) hok.2 hnp.2 h2

theorem run_no_core_panic : ∀ (ops : List Op) {s : State}, WGood s → RunOk s ops → RunNPc s ops →
    ∀ site, run s ops = .error (.sys (.core site)) → site.startsWith "!" = true := by
  intro ops
  induction ops with
  | nil => intro s _ _ _ site h; simp only [run] at h; cases h
  | cons op rest ih =>
    intro s hg hok hnp site h
    simp only [run] at h
    split at h
    · rename_i e he
      cases h
      exact wgood_no_core_panic hg hok.1 hnp.1 site he
    · rename_i s1 o1 h1
      simp only [RunOk, h1] at hok
      simp only [RunNPc, h1] at hnp
      split at h
      · rename_i e he
        cases h
        exact ih (wgood_step hg hok.1 hnp.1 h1) hok.2 hnp.2 site he
      · cases h

end NPX

end HqModel.SysW
