import HqModel.Lemmas.SysWSchedRound2
/-!
One scheduling round in terms of views (`schedule_views`): the `ComputeTasks` items `send_messages` builds from the
update list and the multi-node list are exactly one item for every task the round took from Waiting to Assigned /
Prefilled / RunningMultiNode — addressed to the new owner (the root), with the assigned variant — and none for any
other task; every other task keeps its owner (`SI`, `Lemmas/SysWSchedRound*.lean`) and its place (`schedule_frz`).
-/
namespace HqModel.Core
open HqModel HqModel.SysW

/-! ### the messages -/

theorem computeList_items (s : State) (t : TaskId) : ∀ (l : List (TaskId × Option Nat))
    (res : List (TaskId × Nat × Option Nat × List Nat)), computeList s l = .ok res →
    (res.filter fun it => it.1 = t).map (·.2.2.1) = (l.filter fun p => p.1 = t).map (·.2)
  | [], res, h => by simp only [computeList] at h; cases h; rfl
  | (id, rv) :: rest, res, h => by
    simp only [computeList] at h
    split at h
    · cases h
    · rename_i task hg
      split at h
      · cases h
      · rename_i l' hl'
        cases h
        have ih := computeList_items s t rest l' hl'
        have hid : task.id = id := findTask_some_id (getTask_spec hg)
        simp only [List.filter_cons, computeOne, hid]
        by_cases ht : id = t
        · simp [ht, ih]
        · simp [ht, ih]

/-- the selection of one update record that becomes `ComputeTasks` items for `t` -/
def selC (t : TaskId) (u : WUpdate) : List (Option Nat) :=
  (selP t u).map (fun _ => none) ++ (selA t u).map some

theorem msgsOfAll_cfor (s : State) (w : Nat) (t : TaskId) : ∀ (m : List WUpdate) (msgs : List Msg),
    msgsOfAll s m = .ok msgs → cfor w t msgs = items (selC t) m w
  | [], msgs, h => by simp only [msgsOfAll] at h; cases h; rfl
  | u :: rest, msgs, h => by
    simp only [msgsOfAll] at h
    split at h
    · cases h
    · rename_i l hl
      split at h
      · cases h
      · rename_i ms hms
        cases h
        have ih := msgsOfAll_cfor s w t rest ms hms
        have hl' := computeList_items s t _ _ hl
        have hsel : (l.filter fun it => it.1 = t).map (·.2.2.1) = selC t u := by
          rw [hl']
          simp only [selC, selP, selA, List.filter_append, List.map_append, List.filter_map, List.map_map]
          congr 1
        rw [items_cons, cfor_append, cfor_append, ih]
        congr 1
        have hr : cfor w t (if u.retracts.isEmpty = true then [] else [Msg.retract u.w u.retracts]) = [] := by
          apply cfor_noCompute
          intro x hx
          split at hx
          · cases hx
          · simp only [List.mem_singleton] at hx; subst hx; rfl
        rw [hr, List.nil_append]
        by_cases hem : l.isEmpty = true
        · rw [if_pos hem, cfor_nil]
          have : l = [] := by simpa using hem
          rw [this] at hsel
          simp only [List.filter_nil, List.map_nil] at hsel
          rw [← hsel]
          split <;> rfl
        · rw [if_neg hem, cfor_compute, hsel]

theorem cfor_single' (w' : Nat) (t t0 : TaskId) (target inst : Nat) (orv : Option Nat) (nodes : List Nat) :
    cfor w' t [.compute target [(t0, inst, orv, nodes)]] = if target = w' ∧ t0 = t then [orv] else [] := by
  rw [cfor_compute]
  by_cases h1 : target = w' <;> by_cases h2 : t0 = t <;> simp [h1, h2]

theorem flatMap_count {β : Type} (t : TaskId) (X : List β) : ∀ (l : List TaskId),
    (l.flatMap fun id => if id = t then X else []) = (List.replicate (l.count t) X).flatten
  | [] => rfl
  | id :: rest => by
    simp only [List.flatMap_cons, flatMap_count t X rest, List.count_cons]
    by_cases h : id = t
    · simp [h, List.replicate_succ]
    · simp [h]

/-- what `t` contributes to the multi-node messages for worker `w` in state `s` -/
def mnItem (s : State) (w : Nat) (t : TaskId) : List (Option Nat) :=
  match stOf s.tasks t with
  | some (.runningMN (root :: _)) => if root = w then [some 0] else []
  | _ => []

theorem mnMsgs_cfor (s : State) (w : Nat) (t : TaskId) : ∀ (l : List TaskId) (msgs : List Msg),
    mnMsgs s l = .ok msgs →
    (∀ id ∈ l, ∃ root ws, stOf s.tasks id = some (.runningMN (root :: ws))) ∧
    cfor w t msgs = l.flatMap fun id => if id = t then mnItem s w t else []
  | [], msgs, h => by simp only [mnMsgs] at h; cases h; exact ⟨fun _ h => (by cases h), rfl⟩
  | id :: rest, msgs, h => by
    simp only [mnMsgs] at h
    split at h
    · cases h
    · rename_i task hg
      split at h
      · rename_i root ws hs
        split at h
        · cases h
        · rename_i ms hms
          cases h
          obtain ⟨a, b⟩ := mnMsgs_cfor s w t rest ms hms
          have hf := getTask_spec hg
          have hid : task.id = id := findTask_some_id hf
          have hst : stOf s.tasks id = some (.runningMN (root :: ws)) := by rw [stOf_of_find hf, hs]
          refine ⟨fun x hx => ?_, ?_⟩
          · rcases List.mem_cons.mp hx with rfl | hx
            · exact ⟨root, ws, hst⟩
            · exact a x hx
          · rw [cfor_cons, b, List.flatMap_cons]
            congr 1
            simp only [computeOne, hid]
            rw [cfor_single']
            by_cases ht : id = t
            · subst ht
              simp only [mnItem, hst, and_true, if_true]
            · simp [ht]
      · cases h

/-! ### the views -/

theorem viewSt_ne_quiet_of_owner {c : State} {w : Nat} {t : TaskId} {st : TS} (h : owner st = some w) :
    viewSt c w t st ≠ .quiet := by
  cases st with
  | waiting n => cases h
  | finished => cases h
  | assigned x v => cases h; simp [viewSt]
  | prefilled x => cases h; simp [viewSt]
  | retracting x => cases h; simp [viewSt]
  | running x v => cases h; simp [viewSt]
  | runningMN l =>
    cases l with
    | nil => cases h
    | cons x xs =>
      cases h
      simp only [viewSt, if_true]
      split <;> simp

/-- **one scheduling round** -/
theorem schedule_views {c c' : State} {sol : Solution} {o : Out} (hi : Inv c) (hm' : MnOk c')
    (h : c.schedule sol = .ok (c', o)) :
    (∀ w t, Foreign (view c w t) (cfor w t o.msgs) (view c' w t)) ∧
    (∀ w t, stOf c.tasks t = none → cfor w t o.msgs = []) := by
  have hfr := schedule_frz h
  have hn : (taskIds c.tasks).Nodup := hi.nd
  simp only [State.schedule] at h
  split at h
  · cases h
  · rename_i s1 m1 h1
    obtain ⟨i1, p1⟩ := mapSn_si _ c _ _ _ _ _ [] (SI.init c) (fun _ hu => by cases hu) h1
    split at h
    · cases h
    · rename_i s2 mnTasks h2
      obtain ⟨i1', _⟩ := sort_si (fun id => match s1.task? id with | some t => t.prio | none => 0) i1 p1
      have i2 := mapMn_si _ c _ _ _ _ _ i1' h2
      split at h
      · cases h
      · rename_i s3 m3 h3
        have i3 : SI c s3 m3 mnTasks := by
          split at h3
          · cases h3; exact i2
          · exact proactive_si _ c _ _ _ _ _ _ _ _ i2 h3
        split at h
        · cases h
        · rename_i msgs hmsgs
          split at h
          · cases h
          · rename_i mm hmm
            simp only [Except.ok.injEq, Prod.mk.injEq] at h
            obtain ⟨ec, eo⟩ := h
            have est : ∀ t, stOf c'.tasks t = stOf s3.tasks t := by intro t; rw [← ec]
            obtain ⟨hmn1, hmn2⟩ : (∀ id ∈ mnTasks, ∃ root ws, stOf s3.tasks id = some (.runningMN (root :: ws))) ∧
                ∀ w t, cfor w t mm = mnTasks.flatMap fun id => if id = t then mnItem s3 w t else [] :=
              ⟨(mnMsgs_cfor s3 0 (0, 0) _ _ hmm).1, fun w t => (mnMsgs_cfor s3 w t _ _ hmm).2⟩
            -- the items of the round for one worker and one task
            have hitems : ∀ w t, cfor w t o.msgs =
                (pItems m3 w t).map (fun _ => none) ++ (aItems m3 w t).map some ++
                (List.replicate (mnTasks.count t) (mnItem s3 w t)).flatten := by
              intro w t
              rw [← eo]
              show cfor w t (msgs ++ mm) = _
              rw [cfor_append, msgsOfAll_cfor s3 w t _ _ hmsgs, hmn2, flatMap_count]
              congr 1
              show items (fun u => (selP t u).map (fun _ => none) ++ (selA t u).map some) m3 w = _
              rw [items_split _ _ i3.nd, items_map, items_map]
              rfl
            -- everything about one task
            have key : ∀ w t, Foreign (view c w t) (cfor w t o.msgs) (view c' w t) ∧
                (stOf c.tasks t = none → cfor w t o.msgs = []) := by
              intro w t
              have hT := i3.t t
              rw [hitems]
              have noit : NoIt (fun w => aItems m3 w t) (fun w => pItems m3 w t) (mnTasks.count t) →
                  (pItems m3 w t).map (fun _ => (none : Option Nat)) ++ (aItems m3 w t).map some ++
                    (List.replicate (mnTasks.count t) (mnItem s3 w t)).flatten = [] := by
                rintro ⟨a, b, k⟩
                have a' : aItems m3 w t = [] := a w
                have b' : pItems m3 w t = [] := b w
                rw [a', b', k]; rfl
              cases ha : stOf c.tasks t with
              | none =>
                rw [ha] at hT
                obtain ⟨e, hno⟩ := hT
                rw [noit hno, view_none ha, view_none (by rw [est]; exact e)]
                exact ⟨Foreign.same _, fun _ => rfl⟩
              | some st0 =>
                rw [ha] at hT
                refine ⟨?_, fun e => by cases e⟩
                -- a task that was not Waiting: it keeps its owner and nothing is sent
                have other : (NoIt (fun w => aItems m3 w t) (fun w => pItems m3 w t) (mnTasks.count t) ∧
                    ∃ st, stOf s3.tasks t = some st ∧ owner st = owner st0 ∧ ¬ isWaiting st) →
                    Foreign (view c w t) ((pItems m3 w t).map (fun _ => (none : Option Nat)) ++
                      (aItems m3 w t).map some ++ (List.replicate (mnTasks.count t) (mnItem s3 w t)).flatten)
                      (view c' w t) := by
                  rintro ⟨hno, st, e, ho, _⟩
                  rw [noit hno]
                  by_cases hv : view c w t = .quiet
                  · rw [hv]
                    have : owner st0 ≠ some w := by
                      intro e0
                      rw [view_some ha] at hv
                      exact viewSt_ne_quiet_of_owner e0 hv
                    rw [view_quiet_of_owner (by rw [est]; exact e) (by rw [ho]; exact this)]
                    exact Foreign.same _
                  · exact hfr.keepView hn hm' w t (fun e => e) hv
                cases st0 with
                | waiting n =>
                  have hq : view c w t = .quiet := view_quiet_of_owner ha (by intro e; cases e)
                  rw [hq]
                  rcases hT with ⟨e, hno⟩ | ⟨w0, rv, e, h1, h2, h3, h4⟩ | ⟨w0, e, h1, h2, h3, h4⟩ | ⟨ws, e, h1, h2, h3⟩
                  · rw [noit hno, view_quiet_of_owner (by rw [est]; exact e) (by intro e; cases e)]
                    exact Foreign.same _
                  · have eP : pItems m3 w t = [] := h3 w
                    rw [eP, h4, view_some (by rw [est]; exact e)]
                    by_cases hw : w0 = w
                    · subst hw
                      have eA : aItems m3 w0 t = [rv] := h1
                      rw [eA]
                      simp only [viewSt, if_true]
                      exact ⟨fun e => (by cases e), .inr (.inr ⟨rfl, .inl ⟨rv, rfl, rfl⟩⟩)⟩
                    · have eA : aItems m3 w t = [] := h2 w (Ne.symm hw)
                      rw [eA]
                      simp only [viewSt, hw, if_false]
                      exact Foreign.same _
                  · have eA : aItems m3 w t = [] := h3 w
                    rw [eA, h4, view_some (by rw [est]; exact e)]
                    by_cases hw : w0 = w
                    · subst hw
                      have eP : pItems m3 w0 t = [t] := h1
                      rw [eP]
                      simp only [viewSt, if_true]
                      exact ⟨fun e => (by cases e), .inr (.inr ⟨rfl, .inr ⟨rfl, rfl⟩⟩)⟩
                    · have eP : pItems m3 w t = [] := h2 w (Ne.symm hw)
                      rw [eP]
                      simp only [viewSt, hw, if_false]
                      exact Foreign.same _
                  · have eA : aItems m3 w t = [] := h1 w
                    have eP : pItems m3 w t = [] := h2 w
                    have hmem : t ∈ mnTasks := List.count_pos_iff.mp (by rw [h3]; exact Nat.one_pos)
                    obtain ⟨root, ws', hs3⟩ := hmn1 t hmem
                    rw [e] at hs3
                    cases hs3
                    rw [eA, eP, h3, view_some (by rw [est]; exact e)]
                    simp only [mnItem, e, List.map_nil, List.nil_append, List.replicate_one, List.flatten_cons,
                      List.flatten_nil, List.append_nil]
                    by_cases hw : root = w
                    · subst hw
                      simp only [viewSt, if_true]
                      split
                      · exact foreign_to_hot _ _
                      · exact ⟨fun e => (by cases e), .inr (.inr ⟨rfl, .inl ⟨0, rfl, rfl⟩⟩)⟩
                    · simp only [viewSt, hw, if_false]
                      exact Foreign.same _
                | assigned x y => exact other hT
                | prefilled x => exact other hT
                | retracting x => exact other hT
                | running x y => exact other hT
                | runningMN l => exact other hT
                | finished => exact other hT
            exact ⟨fun w t => (key w t).1, fun w t => (key w t).2⟩

end HqModel.Core
