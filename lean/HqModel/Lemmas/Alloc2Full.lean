import HqModel.Lemmas.Alloc2Keys
/-!
A grouped resource in a reachable state against the pool `ResourceAllocator::new` created (`GCtx`):
`amount_max_alloc ≤ full_size`, with equality only when every index of every group is free. Consequences:

* admission of `all` (`max_alloc == full_size`) ⇒ the free list of every group is a permutation of the indices the
  group was created with — `all` grants every index of the resource;
* whatever is admitted on the current free state is feasible for the MILP on the empty worker
  (`static_info.all_resources`), so the `group_solver(..).unwrap()` of the strict admission path cannot fail.
-/
namespace HqModel.Alloc

theorem sum_pointwise : ∀ (a b : List Nat), a.length = b.length →
    (∀ (i x y : Nat), a[i]? = some x → b[i]? = some y → x ≤ y) → a.sum ≤ b.sum ∧ (a.sum = b.sum → a = b)
  | [], [], _, _ => ⟨Nat.le_refl _, fun _ => rfl⟩
  | [], _ :: _, h, _ => by simp at h
  | _ :: _, [], h, _ => by simp at h
  | x :: xs, y :: ys, h, hp => by
    have hxy := hp 0 x y rfl rfl
    obtain ⟨h1, h2⟩ := sum_pointwise xs ys (by simpa using h)
      (fun i x' y' hx hy => hp (i + 1) x' y' (by simpa using hx) (by simpa using hy))
    simp only [List.sum_cons]
    refine ⟨by omega, fun he => ?_⟩
    have : x = y ∧ xs.sum = ys.sum := by omega
    rw [this.1, h2 this.2]

/-- a grouped resource `rid` of a reachable state `s`, its concise state `c`, and the pool `gs₀` it was created as -/
structure GCtx (s₀ s : State) (rid full : Nat) (gs gs₀ : List Group) (c : CState) : Prop where
  pool : s.pools[rid]? = some (.groups full gs)
  pool₀ : s₀.pools[rid]? = some (.groups full gs₀)
  len : gs₀.length = gs.length
  full : full = (gs₀.map (·.free.length)).sum * FPU
  fresh : ∀ g ∈ gs₀, g.fracs = []
  allFree : s.allFree[rid]? = some (gs₀.map (fun g => ⟨g.free.length, g.fracs⟩))
  conc : s.concise[rid]? = some c
  cinv : CInv c gs.length (univOf s₀.pools rid) (heldOf s.live rid)
  pinv : PoolInv gs (univOf s₀.pools rid) (heldOf s.live rid)
  univ : ∀ g, univOf s₀.pools rid g = (gs₀[g]?.map (·.free)).getD []

theorem gctx {s₀ s : State} (hinv : Inv2 (univOf s₀.pools) s) (hf : InitFacts s₀) (hst : Static s₀ s)
    {rid full : Nat} {gs : List Group} (hp : s.pools[rid]? = some (.groups full gs)) :
    ∃ gs₀ c, GCtx s₀ s rid full gs gs₀ c := by
  have hlt : rid < s₀.pools.length := by rw [hst.kinds.1]; exact lt_length_of_getElem? hp
  obtain ⟨p₀, hp₀⟩ := exists_get hlt
  obtain ⟨ht, hfs, hn⟩ := hst.kinds.2 rid p₀ _ hp₀ hp
  have hr : rid < s.concise.length := by rw [hinv.concise.len]; exact lt_length_of_getElem? hp
  obtain ⟨c, hc⟩ := exists_get hr
  have hpool := hinv.inv.pools.pool rid _ hp
  have hpc := hinv.concise.pc rid _ c hp hc
  cases p₀ with
  | groups full₀ gs₀ =>
    simp only [Pool.fullSize] at hfs
    subst hfs
    simp only [Pool.ngroups, Pool.groupsOf] at hn
    have hfull := hf.full _ (List.mem_of_getElem? hp₀)
    have hfresh := hf.fresh _ (List.mem_of_getElem? hp₀)
    refine ⟨gs₀, c, hp, hp₀, hn.symm, hfull, fun g hg => (hfresh.1 g hg).1, ?_, hc, ?_, hpool, ?_⟩
    · rw [hst.allFree, hf.allFree, List.getElem?_map, hp₀]
      rfl
    · rcases hpc with ⟨ht', -⟩ | ⟨-, hci⟩ | ⟨ht', -⟩
      · simp [Pool.tag] at ht'
      · exact hci
      · simp [Pool.tag] at ht'
    · intro g
      simp [univOf, hp₀, Pool.groupsOf]
  | empty => simp [Pool.tag] at ht
  | indices _ _ => simp [Pool.tag] at ht
  | sum _ _ => simp [Pool.tag] at ht

section ctx
variable {s₀ s : State} {rid full : Nat} {gs gs₀ : List Group} {c : CState}

theorem GCtx.clen (h : GCtx s₀ s rid full gs gs₀ c) : c.length = gs₀.length := by rw [h.cinv.len, h.len]

theorem GCtx.univ_of (h : GCtx s₀ s rid full gs gs₀ c) {g : Nat} {g₀ : Group} (hg : gs₀[g]? = some g₀) :
    univOf s₀.pools rid g = g₀.free := by
  rw [h.univ g, hg]; rfl

theorem GCtx.units_le (h : GCtx s₀ s rid full gs gs₀ c) {g : Nat} {cg : CGroup} {g₀ : Group}
    (hcg : c[g]? = some cg) (hg : gs₀[g]? = some g₀) : cg.units ≤ g₀.free.length := by
  rw [h.cinv.units g cg hcg, h.univ_of hg]
  exact List.length_filter_le _ _

theorem GCtx.pointwise (h : GCtx s₀ s rid full gs gs₀ c) :
    ∀ (i x y : Nat), (c.map (·.units))[i]? = some x → (gs₀.map (·.free.length))[i]? = some y → x ≤ y := by
  intro i x y hx hy
  simp only [List.getElem?_map] at hx hy
  cases hcg : c[i]? with
  | none => simp [hcg] at hx
  | some cg =>
    cases hg : gs₀[i]? with
    | none => simp [hg] at hy
    | some g₀ =>
      simp only [hcg, hg, Option.map_some, Option.some.injEq] at hx hy
      subst hx hy
      exact h.units_le hcg hg

theorem GCtx.total_le (h : GCtx s₀ s rid full gs gs₀ c) : totalUnits c ≤ (gs₀.map (·.free.length)).sum :=
  (sum_pointwise _ _ (by simp [h.clen]) h.pointwise).1

/-- a positive free fraction somewhere ⇒ some index is partially held ⇒ not all indices are free -/
theorem GCtx.frac_pos (h : GCtx s₀ s rid full gs gs₀ c) (hpos : 0 < maxFrac c) :
    totalUnits c < (gs₀.map (·.free.length)).sum := by
  obtain ⟨cg, hcg, kv, hkv, hle⟩ := (le_maxFrac_iff c 1 (by omega)).mp hpos
  obtain ⟨gi, hgi⟩ := List.getElem?_of_mem hcg
  have hgl : gi < gs₀.length := by rw [← h.clen]; exact lt_length_of_getElem? hgi
  obtain ⟨g₀, hg₀⟩ := exists_get hgl
  have h1 := fget_of_mem (h.cinv.nodup gi cg hgi) hkv
  have h2 := h.cinv.fracs gi cg hgi kv.1
  rw [fracOf_of_fget h1] at h2
  have hheld : heldBy (heldOf s.live rid) gi kv.1 ≠ 0 := by
    intro h0
    rw [if_pos h0] at h2
    omega
  have hmem : kv.1 ∈ univOf s₀.pools rid gi := by
    have := h.pinv.conserve gi kv.1
    apply List.count_pos_iff.mp
    rcases Nat.eq_zero_or_pos ((univOf s₀.pools rid gi).count kv.1) with hz | hz
    · rw [hz] at this; omega
    · exact hz
  have hlt : cg.units < g₀.free.length := by
    rw [h.cinv.units gi cg hgi, ← h.univ_of hg₀]
    unfold freeCount
    apply List.length_filter_lt_length_iff_exists.mpr
    exact ⟨kv.1, hmem, by simpa using hheld⟩
  obtain ⟨hle', heq⟩ := sum_pointwise _ _ (by simp [h.clen]) h.pointwise
  rcases Nat.lt_or_ge (totalUnits c) ((gs₀.map (·.free.length)).sum) with hlt' | hge
  · exact hlt'
  · exfalso
    have := heq (by unfold totalUnits at hge; omega)
    have e1 : (c.map (·.units))[gi]? = some cg.units := by simp [hgi]
    have e2 : (gs₀.map (·.free.length))[gi]? = some g₀.free.length := by simp [hg₀]
    rw [this, e2] at e1
    simp only [Option.some.injEq] at e1
    omega

theorem GCtx.vals (h : GCtx s₀ s rid full gs gs₀ c) : ∀ g ∈ c, ∀ kv ∈ g.fracs, kv.2 < FPU := by
  intro g hg kv hkv
  obtain ⟨gi, hgi⟩ := List.getElem?_of_mem hg
  have h1 := fget_of_mem (h.cinv.nodup gi g hgi) hkv
  have h2 := h.cinv.fracs gi g hgi kv.1
  rw [fracOf_of_fget h1] at h2
  rw [h2]
  have := FPU_pos
  split <;> omega

/-- **`amount_max_alloc ≤ full_size`** -/
theorem GCtx.maxAlloc_le (h : GCtx s₀ s rid full gs gs₀ c) : c.maxAlloc ≤ full := by
  rw [maxAlloc_eq, h.full]
  have hF := maxFrac_lt c h.vals
  rcases Nat.eq_zero_or_pos (maxFrac c) with h0 | hpos
  · rw [h0]
    have := Nat.mul_le_mul_right FPU h.total_le
    omega
  · have hlt := h.frac_pos hpos
    have := Nat.mul_le_mul_right FPU (Nat.succ_le_of_lt hlt)
    rw [Nat.succ_mul] at this
    omega

/-- `amount_max_alloc == full_size` ⇒ every group has as many free whole indices as it was created with -/
theorem GCtx.all_units (h : GCtx s₀ s rid full gs gs₀ c) (heq : c.maxAlloc = full) :
    c.map (·.units) = gs₀.map (·.free.length) := by
  rw [maxAlloc_eq, h.full] at heq
  have hF := maxFrac_lt c h.vals
  obtain ⟨hle, hpt⟩ := sum_pointwise _ _ (by simp [h.clen]) h.pointwise
  apply hpt
  rcases Nat.eq_zero_or_pos (maxFrac c) with h0 | hpos
  · rw [h0, Nat.add_zero] at heq
    exact Nat.eq_of_mul_eq_mul_right FPU_pos heq
  · exfalso
    have hlt := h.frac_pos hpos
    have := Nat.mul_le_mul_right FPU (Nat.succ_le_of_lt hlt)
    rw [Nat.succ_mul] at this
    omega

/-- `amount_max_alloc == full_size` ⇒ in every group exactly the indices it was created with are free -/
theorem GCtx.all_free (h : GCtx s₀ s rid full gs gs₀ c) (heq : c.maxAlloc = full) {gi : Nat} {g g₀ : Group}
    (hg : gs[gi]? = some g) (hg₀ : gs₀[gi]? = some g₀) : g.free.Perm g₀.free := by
  have hcl : gi < c.length := by rw [h.clen]; exact lt_length_of_getElem? hg₀
  obtain ⟨cg, hcg⟩ := exists_get hcl
  have hunits : cg.units = g₀.free.length := by
    have := h.all_units heq
    have e1 : (c.map (·.units))[gi]? = some cg.units := by simp [hcg]
    rw [this] at e1
    simpa [hg₀] using e1.symm
  -- nothing is held of any index of the group
  have hU := h.univ_of hg₀
  have hnone : ∀ i ∈ g₀.free, heldBy (heldOf s.live rid) gi i = 0 := by
    have h1 := h.cinv.units gi cg hcg
    rw [hunits, hU] at h1
    unfold freeCount at h1
    have := List.length_filter_eq_length_iff.mp h1.symm
    intro i hi
    simpa using this i hi
  have hwf := h.pinv.wf gi g hg
  have hund := h.pinv.univ gi
  rw [hU] at hund
  have hvals := h.pinv.vals gi g hg
  apply List.perm_iff_count.mpr
  intro i
  have hc := h.pinv.conserve gi i
  rw [freeAmt_of_get hg, hU] at hc
  unfold Group.freeAmt at hc
  have hcf := count_le_one_of_nodup hwf.1 i
  have hcu := count_le_one_of_nodup hund i
  have hv := hvals i
  by_cases hi : i ∈ g₀.free
  · rw [hnone i hi] at hc
    have h1 : g₀.free.count i = 1 := by
      have := List.count_pos_iff.mpr hi
      omega
    rw [h1] at hc ⊢
    rcases Nat.eq_zero_or_pos (g.free.count i) with hz | hz
    · rw [hz] at hc; omega
    · omega
  · have h0 : g₀.free.count i = 0 := List.count_eq_zero.mpr hi
    rw [h0] at hc ⊢
    rcases Nat.eq_zero_or_pos (g.free.count i) with hz | hz
    · exact hz
    · have := Nat.mul_le_mul_left FPU hz
      omega

end ctx

/-! ### `all`: the claim returns what it returns on the freshly created pool -/

theorem claimAllAux_perm (gid : Nat) (gs gs₀ : List Group) (hlen : gs.length = gs₀.length)
    (h : ∀ (i : Nat) (g g₀ : Group), gs[i]? = some g → gs₀[i]? = some g₀ → g.free.Perm g₀.free) :
    (claimAllAux gid gs).2.Perm (claimAllAux gid gs₀).2 := by
  induction gs generalizing gid gs₀ with
  | nil =>
    cases gs₀ with
    | nil => exact .refl _
    | cons _ _ => simp at hlen
  | cons g rest ih =>
    cases gs₀ with
    | nil => simp at hlen
    | cons g₀ rest₀ =>
      simp only [claimAllAux]
      apply List.Perm.append
      · have h0 := h 0 g g₀ rfl rfl
        exact ((List.reverse_perm g.free).trans (h0.trans (List.reverse_perm g₀.free).symm)).map _
      · exact ih (gid + 1) rest₀ (by simpa using hlen)
          (fun i g' g₀' hg hg₀ => h (i + 1) g' g₀' (by simpa using hg) (by simpa using hg₀))

/-- the indices of a freshly created grouped pool are `0 … n-1` -/
theorem groupsFrom_flatten (off : Nat) (sizes : List Nat) :
    (((groupsFrom off sizes).map (·.free)).flatten).Perm (List.range' off sizes.sum) := by
  induction sizes generalizing off with
  | nil => simp [groupsFrom]
  | cons n ns ih =>
    simp only [groupsFrom, List.map_cons, List.flatten_cons, List.sum_cons]
    rw [List.range'_append_1 |>.symm]
    exact List.Perm.append (by unfold stackRange; exact List.reverse_perm _) (ih (off + n))

end HqModel.Alloc
