import HqModel.Lemmas.SysCoreSpec
/-!
The *started* status of a task in the core (`hot`): the state is Running, or it is RunningMultiNode and a worker
holds a multi-node assignment for it with the `started` flag set — i.e. the core has made a `started` callback for
the task and none of `finished` / `error` / `worker lost (running ∋ task)` since. How the frame relations transport
it, and `task_running` (the one function that creates it).
-/
namespace HqModel.Core

def hot (s : State) (t : TaskId) : Prop :=
  (∃ w v, stOf s.tasks t = some (.running w v)) ∨
  (∃ l, stOf s.tasks t = some (.runningMN l) ∧
    ∃ x wk r, findWorker s.workers x = some wk ∧ wk.assign = .mn t r true)

theorem hot_mem {s : State} {t : TaskId} (h : hot s t) : t ∈ taskIds s.tasks := by
  have : ∃ st, stOf s.tasks t = some st := by
    rcases h with ⟨w, v, h⟩ | ⟨l, h, _⟩ <;> exact ⟨_, h⟩
  obtain ⟨st, hst⟩ := this
  obtain ⟨task, hf, _⟩ := stOf_some hst
  exact mem_ids_iff.mpr (by rw [hf]; rfl)

/-- a record of the new list with its state, found by id in the old list -/
theorem stOf_of_mem {ts : List Task} (hn : (taskIds ts).Nodup) {t : Task} (ht : t ∈ ts) : stOf ts t.id = some t.state := by
  have : findTask ts t.id = some t := by
    induction ts with
    | nil => cases ht
    | cons y ys ih =>
      simp only [taskIds, List.map_cons, List.nodup_cons] at hn
      rcases List.mem_cons.mp ht with e | e
      · subst e; simp [findTask]
      · have hne : y.id ≠ t.id := fun e' => hn.1 (e' ▸ List.mem_map_of_mem (f := (·.id)) e)
        simp only [findTask, hne, if_false]
        exact ih hn.2 e
  exact stOf_of_find this

/-- the state of a task after a framed step descends (`stOk`) from its state before -/
theorem TFr.stOf {P : Prop} {ts ts' : List Task} (f : TFr P ts ts') (hn : (taskIds ts).Nodup) {t : TaskId} {st' : TS}
    (h : stOf ts' t = some st') : ∃ st, stOf ts t = some st ∧ stOk P st st' := by
  obtain ⟨task', hf, rfl⟩ := stOf_some h
  obtain ⟨task, hm, r⟩ := f task' (findTask_some_mem hf)
  refine ⟨task.state, ?_, r.st⟩
  have := stOf_of_mem hn hm
  rw [← r.id, findTask_some_id hf] at this
  exact this

theorem hot_of_frc {s s' : State} (f : Frc s s') (hn : (taskIds s.tasks).Nodup) {t : TaskId} (h : hot s' t) : hot s t := by
  rcases h with ⟨w, v, h⟩ | ⟨l, h, x, wk', r, hw, ha⟩
  · obtain ⟨st, hs, hk⟩ := f.t.stOf hn h
    simp only [stOk] at hk
    subst hk
    exact .inl ⟨w, v, hs⟩
  · obtain ⟨st, hs, hk⟩ := f.t.stOf hn h
    simp only [stOk, false_or] at hk
    obtain ⟨l0, hk⟩ := hk
    subst hk
    obtain ⟨wk, hw0, rel⟩ := f.w x wk' hw
    exact .inr ⟨l0, hs, x, wk, r, hw0, rel.mn t r ha⟩

/-- a scheduling round creates no started task (a multi-node placement has the flag unset) -/
theorem hot_of_frs {s s' : State} (f : Frs s s') (hi : Inv s) {t : TaskId} (h : hot s' t) : hot s t := by
  rcases h with ⟨w, v, h⟩ | ⟨l, h, x, wk', r, hw, ha⟩
  · obtain ⟨st, hs, hk⟩ := f.t.stOf hi.nd h
    simp only [stOk] at hk
    subst hk
    exact .inl ⟨w, v, hs⟩
  · obtain ⟨wk, hw0, rel⟩ := f.w x wk' hw
    have ha0 := rel.mn t r ha
    have hm : mnW s.workers x = some t := by rw [mnW_of_find hw0]; simp [wMn, ha0]
    obtain ⟨l0, hs, _⟩ := hi.ls.m1 x t hm
    exact .inr ⟨l0, hs, x, wk, r, hw0, ha0⟩

/-! ### the frame of `task_running`: everything but task `X` -/

structure TRelX (X : TaskId) (t t' : Task) : Prop where
  id : t'.id = t.id
  cons : ∀ c ∈ t'.consumers, c ∈ t.consumers
  st : t'.id = X ∨ stOk False t.state t'.state

structure WRelX (X : TaskId) (w w' : Worker) : Prop where
  id : w'.id = w.id
  mn : ∀ t r, w'.assign = .mn t r true → t = X ∨ w.assign = .mn t r true

structure FrX (X : TaskId) (s s' : State) : Prop where
  t : ∀ t' ∈ s'.tasks, ∃ t ∈ s.tasks, TRelX X t t'
  w : ∀ x wk', findWorker s'.workers x = some wk' → ∃ wk, findWorker s.workers x = some wk ∧ WRelX X wk wk'

theorem Fr.frx {s s' : State} (X : TaskId) (f : Frc s s') : FrX X s s' := by
  constructor
  · intro t' ht'
    obtain ⟨t, ht, r⟩ := f.t t' ht'
    exact ⟨t, ht, ⟨r.id, r.cons, .inr r.st⟩⟩
  · intro x wk' h
    obtain ⟨wk, h0, r⟩ := f.w x wk' h
    exact ⟨wk, h0, ⟨r.id, fun t r' e => .inr (r.mn t r' e)⟩⟩

theorem FrX.trans {X : TaskId} {a b c : State} (h1 : FrX X a b) (h2 : FrX X b c) : FrX X a c := by
  constructor
  · intro t'' ht''
    obtain ⟨t', ht', r2⟩ := h2.t t'' ht''
    obtain ⟨t, ht, r1⟩ := h1.t t' ht'
    refine ⟨t, ht, ⟨r2.id.trans r1.id, fun x hx => r1.cons x (r2.cons x hx), ?_⟩⟩
    rcases r2.st with e | e
    · exact .inl e
    · rcases r1.st with e1 | e1
      · exact .inl (r2.id.trans e1)
      · exact .inr (e1.trans e)
  · intro x wk'' h
    obtain ⟨wk', h', r2⟩ := h2.w x wk'' h
    obtain ⟨wk, h0, r1⟩ := h1.w x wk' h'
    refine ⟨wk, h0, ⟨r2.id.trans r1.id, ?_⟩⟩
    intro t r e
    rcases r2.mn t r e with e2 | e2
    · exact .inl e2
    · exact r1.mn t r e2

theorem FrX.consJob {X : TaskId} {s s' : State} (f : FrX X s s') (h : ConsJob s.tasks) : ConsJob s'.tasks := by
  intro t' ht' c hc
  obtain ⟨t, ht, r⟩ := f.t t' ht'
  rw [r.id]
  exact h t ht c (r.cons c hc)

/-- the record of task `X` itself is replaced -/
theorem FrX.setTaskX {s : State} {task t' : Task} {id : TaskId} (hf : s.task? id = some task) (hid : t'.id = task.id)
    (hc : t'.consumers = task.consumers) : FrX id s (s.setTask t') := by
  have hid' := findTask_some_id hf
  constructor
  · intro x hx
    rcases mem_putTask' hx with e | e
    · subst e
      exact ⟨task, findTask_some_mem hf, ⟨hid, by rw [hc]; exact fun _ h => h, .inl (hid.trans hid')⟩⟩
    · exact ⟨x, e, ⟨rfl, fun _ h => h, .inr (stOk.refl _ _)⟩⟩
  · exact fun _ wk h => ⟨wk, h, ⟨rfl, fun _ _ e => .inr e⟩⟩

theorem hot_of_frx {X : TaskId} {s s' : State} (f : FrX X s s') (hn : (taskIds s.tasks).Nodup) {t : TaskId}
    (h : hot s' t) : t = X ∨ hot s t := by
  by_cases htx : t = X
  · exact .inl htx
  right
  have stof : ∀ st', stOf s'.tasks t = some st' → ∃ st, stOf s.tasks t = some st ∧ stOk False st st' := by
    intro st' h
    obtain ⟨task', hf, rfl⟩ := stOf_some h
    obtain ⟨task, hm, r⟩ := f.t task' (findTask_some_mem hf)
    have hid := findTask_some_id hf
    refine ⟨task.state, ?_, ?_⟩
    · have := stOf_of_mem hn hm
      rw [← r.id, hid] at this
      exact this
    · rcases r.st with e | e
      · exact absurd (hid.symm.trans e) htx
      · exact e
  rcases h with ⟨w, v, h⟩ | ⟨l, h, x, wk', r, hw, ha⟩
  · obtain ⟨st, hs, hk⟩ := stof _ h
    simp only [stOk] at hk
    subst hk
    exact .inl ⟨w, v, hs⟩
  · obtain ⟨st, hs, hk⟩ := stof _ h
    simp only [stOk, false_or] at hk
    obtain ⟨l0, hk⟩ := hk
    subst hk
    obtain ⟨wk, hw0, rel⟩ := f.w x wk' hw
    rcases rel.mn t r ha with e | e
    · exact absurd e htx
    · exact .inr ⟨l0, hs, x, wk, r, hw0, e⟩

/-- **`task_running`** for a known task: exactly one `started` callback, same keys, and nothing but the reported task
becomes started. `hmn`: every worker of a RunningMultiNode task is reserved for it (part of `InvF`). -/
theorem taskRunning_spec {s s' : State} {w : Nat} {id : TaskId} {rv : Nat} {o : Out}
    (hmn : ∀ l, stOf s.tasks id = some (.runningMN l) → ∀ x ∈ l, mnW s.workers x = some id)
    (h : s.taskRunning w id rv = .ok (s', o)) :
    (s.task? id = none ∧ s' = s ∧ o.cbs = []) ∨
    (∃ task ws, s.task? id = some task ∧ o.cbs = [.started id task.inst ws rv] ∧ FrX id s s') := by
  simp only [State.taskRunning] at h
  split at h
  · rename_i hno; cases h; exact .inl ⟨hno, rfl, rfl⟩
  · rename_i task ht
    right
    have f0 : FrX id s (s.setTask { task with state := .running w rv }) := FrX.setTaskX ht rfl rfl
    split at h
    · -- Assigned
      split at h
      · cases h
      · split at h
        · cases h
        · cases h; exact ⟨task, _, ht, rfl, f0⟩
    · -- Prefilled
      split at h
      · cases h
      · split at h
        · cases h
        · split at h
          · cases h
          · rename_i s1 hw
            split at h
            · cases h
            · rename_i s2 hq
              cases h
              refine ⟨task, _, ht, rfl, (f0.trans ?_).trans ((queueRemove_core hq).frc.frx id)⟩
              exact Fr.frx id (Fr.withWorker (prefilledToStarted_wrel id _) hw)
    · -- Retracting
      split at h
      · cases h
      · split at h
        · cases h
        · rename_i s1 hq
          split at h
          · cases h
          · rename_i s2 hr
            split at h
            · cases h
            · split at h
              · cases h
              · rename_i s3 hw
                cases h
                refine ⟨task, _, ht, rfl, ?_⟩
                have f1 : FrX id (s.setTask { task with state := .running w rv })
                    (ask (s.setTask { task with state := .running w rv })) := Fr.frx id (Frc.ask _)
                exact (((f0.trans f1).trans ((queueRemove_core hq).frc.frx id)).trans
                  ((tryRemoveRedirection_frc hr).frx id)).trans (Fr.frx id (Fr.withWorker (insertSn_wrel id _) hw))
    · -- RunningMultiNode
      rename_i ws hs
      split at h
      · rename_i root rest
        split at h
        · cases h
        · rename_i hroot
          split at h
          · cases h
          · rename_i s1 hw
            cases h
            refine ⟨task, _, ht, rfl, ?_⟩
            obtain ⟨wk, wk', h1, h2, rfl⟩ := withWorker_spec hw
            have hwid := findWorker_some_id h1
            have hroot' : root = w := by
              apply Classical.byContradiction
              intro hne; exact hroot hne
            have hm : mnW s.workers w = some id := by
              apply hmn (root :: rest)
              · rw [stOf_of_find ht, hs]
              · rw [hroot']; simp
            have hrel : WRelX id wk wk' := by
              rw [mnW_of_find h1] at hm
              cases ha : wk.assign with
              | sn a b c => rw [ha] at h2; cases h2; exact ⟨rfl, fun t r e => .inr e⟩
              | mn t r st =>
                simp only [wMn, ha, Option.some.injEq] at hm
                rw [ha] at h2
                cases h2
                refine ⟨rfl, fun t' r' e => ?_⟩
                cases e
                exact .inl hm
            constructor
            · exact fun t' ht' => ⟨t', ht', ⟨rfl, fun _ h => h, .inr (stOk.refl _ _)⟩⟩
            · intro x w' hx
              change findWorker (putWorker s.workers wk') x = some w' at hx
              rw [findWorker_putWorker] at hx
              split at hx
              · rename_i e
                rw [e, hrel.id, hwid, h1] at hx
                simp only [Option.map_some, Option.some.injEq] at hx
                subst hx
                exact ⟨wk, by rw [e, hrel.id, hwid]; exact h1, hrel⟩
              · exact ⟨w', hx, ⟨rfl, fun _ _ e => .inr e⟩⟩
      · cases h
    all_goals cases h

end HqModel.Core
