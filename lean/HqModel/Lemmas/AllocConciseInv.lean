import HqModel.Lemmas.AllocInv
import HqModel.Lemmas.AllocExact
import HqModel.Lemmas.AllocConcise
/-!
`ConciseOK`: the `ConciseFreeResources` of the allocator is, for every resource, the function of the held entries that
`CInv` / `SumCInv` describe. Preserved by `tryAllocate`, `isEnabled`, `release`; `free_resources.remove/add` never
panic on reachable states.
-/
namespace HqModel.Alloc

def Pool.sumFree : Pool → Nat
  | .sum _ free => free
  | _ => 0

/-- what the concise state `c` of a resource must be, given the kind of its pool (tag, number of groups, free amount
of a sum pool) and the held entries `L` -/
def PC (U : Nat → List Nat) (tag n free : Nat) (c : CState) (L : List AIdx) : Prop :=
  (tag = 0 ∧ c = []) ∨ ((tag = 1 ∨ tag = 2) ∧ CInv c n U L) ∨ (tag = 3 ∧ SumCInv c free)

structure ConciseOK (U : Nat → Nat → List Nat) (s : State) : Prop where
  len : s.concise.length = s.pools.length
  pc : ∀ (rid : Nat) (p : Pool) (c : CState), s.pools[rid]? = some p → s.concise[rid]? = some c →
    PC (U rid) p.tag p.ngroups p.sumFree c (heldOf s.live rid)

/-- requirements on one resource allocation that is removed from / added to the concise state -/
structure RaOk (tag n : Nat) (ra : RAlloc) : Prop where
  ne0 : tag ≠ 0
  grp : ∀ e ∈ ra.indices, e.group < n ∨ tag = 3
  shape : (tag = 1 ∨ tag = 2) → n = 1 → Shape ra.amount ra.indices
  sum : tag = 3 → ra.indices = []

theorem conciseRemove_pc {U : Nat → Nat → List Nat} {tag n : Nat → Nat} {al : Allocation} {cs : List CState}
    {H : Nat → List AIdx} {F : Nat → Nat}
    (hU : ∀ r g, (U r g).Nodup)
    (hpc : ∀ r c, cs[r]? = some c → PC (U r) (tag r) (n r) (F r) c (H r))
    (hra : ∀ ra ∈ al, ra.rid < cs.length ∧ RaOk (tag ra.rid) (n ra.rid) ra)
    (hb : ∀ r, HeldBound (U r) (H r ++ raEntries r al))
    (hsum : ∀ r, tag r = 3 → raAmount r al ≤ F r) :
    ∃ cs', conciseRemove cs al = .ok cs' ∧ cs'.length = cs.length ∧
      ∀ r c, cs'[r]? = some c → PC (U r) (tag r) (n r) (F r - raAmount r al) c (H r ++ raEntries r al) := by
  induction al generalizing cs H F with
  | nil =>
    refine ⟨cs, rfl, rfl, fun r c hc => ?_⟩
    simpa using hpc r c hc
  | cons ra ras ih =>
    obtain ⟨hlt, hok⟩ := hra ra (by simp)
    obtain ⟨c, hc⟩ : ∃ c, cs[ra.rid]? = some c := ⟨cs[ra.rid], by simp [hlt]⟩
    have hpc0 := hpc ra.rid c hc
    -- one step on resource ra.rid
    have hstep : ∃ c', c.remove ra = .ok c' ∧
        PC (U ra.rid) (tag ra.rid) (n ra.rid) (F ra.rid - ra.amount) c' (H ra.rid ++ ra.indices) := by
      rcases hpc0 with ⟨ht, -⟩ | ⟨ht, hci⟩ | ⟨ht, hsc⟩
      · exact absurd ht hok.ne0
      · have hb' : HeldBound (U ra.rid) (H ra.rid ++ ra.indices) := by
          have := hb ra.rid
          rw [raEntries_cons, if_pos rfl, ← List.append_assoc] at this
          exact this.prefix
        have hg : ∀ e ∈ ra.indices, e.group < n ra.rid := by
          intro e he
          rcases hok.grp e he with h | h
          · exact h
          · rcases ht with h1 | h2 <;> omega
        obtain ⟨c', hr, inv⟩ := remove_cinv (hU ra.rid) hci hb' hg (hok.shape ht)
        exact ⟨c', hr, .inr (.inl ⟨ht, inv⟩)⟩
      · have hle : ra.amount ≤ F ra.rid := by
          have := hsum ra.rid ht
          rw [raAmount_cons, if_pos rfl] at this
          omega
        obtain ⟨c', hr, inv⟩ := sum_remove hsc (hok.sum ht) hle
        have hidx := hok.sum ht
        exact ⟨c', hr, .inr (.inr ⟨ht, inv⟩)⟩
    obtain ⟨c', hr, hpc'⟩ := hstep
    -- the rest
    let H' : Nat → List AIdx := fun r => H r ++ (if ra.rid = r then ra.indices else [])
    let F' : Nat → Nat := fun r => F r - (if ra.rid = r then ra.amount else 0)
    have hpcs : ∀ r c₁, (cs.set ra.rid c')[r]? = some c₁ → PC (U r) (tag r) (n r) (F' r) c₁ (H' r) := by
      intro r c₁ hc₁
      by_cases hr' : r = ra.rid
      · subst hr'
        simp [hlt] at hc₁
        subst hc₁
        simpa [H', F'] using hpc'
      · rw [List.getElem?_set_ne (by omega)] at hc₁
        have hne : ¬ ra.rid = r := fun h => hr' h.symm
        simpa [H', F', hne] using hpc r c₁ hc₁
    have hra' : ∀ ra' ∈ ras, ra'.rid < (cs.set ra.rid c').length ∧ RaOk (tag ra'.rid) (n ra'.rid) ra' := by
      intro ra' h'
      simpa using hra ra' (List.mem_cons_of_mem _ h')
    have hb' : ∀ r, HeldBound (U r) (H' r ++ raEntries r ras) := by
      intro r
      have := hb r
      rw [raEntries_cons, ← List.append_assoc] at this
      exact this
    have hsum' : ∀ r, tag r = 3 → raAmount r ras ≤ F' r := by
      intro r ht
      have := hsum r ht
      rw [raAmount_cons] at this
      show raAmount r ras ≤ F r - _
      omega
    obtain ⟨cs', hrest, hlen, hfin⟩ := ih hpcs hra' hb' hsum'
    refine ⟨cs', ?_, by simpa using hlen, fun r c₁ hc₁ => ?_⟩
    · simp [conciseRemove, hc, hr, hrest]
    · have := hfin r c₁ hc₁
      have e1 : H' r ++ raEntries r ras = H r ++ raEntries r (ra :: ras) := by
        simp [H', raEntries_cons]
      have e2 : F' r - raAmount r ras = F r - raAmount r (ra :: ras) := by
        simp only [F', raAmount_cons]; omega
      rw [e1, e2] at this
      exact this

theorem conciseAdd_pc {U : Nat → Nat → List Nat} {tag n : Nat → Nat} {al : Allocation} {cs : List CState}
    {O : Nat → List AIdx} {F : Nat → Nat}
    (hU : ∀ r g, (U r g).Nodup)
    (hpc : ∀ r c, cs[r]? = some c → PC (U r) (tag r) (n r) (F r) c (raEntries r al ++ O r))
    (hra : ∀ ra ∈ al, ra.rid < cs.length ∧ RaOk (tag ra.rid) (n ra.rid) ra)
    (hb : ∀ r, HeldBound (U r) (raEntries r al ++ O r)) :
    ∃ cs', conciseAdd cs al = .ok cs' ∧ cs'.length = cs.length ∧
      ∀ r c, cs'[r]? = some c → PC (U r) (tag r) (n r) (F r + raAmount r al) c (O r) := by
  induction al generalizing cs F with
  | nil =>
    refine ⟨cs, rfl, rfl, fun r c hc => ?_⟩
    simpa using hpc r c hc
  | cons ra ras ih =>
    obtain ⟨hlt, hok⟩ := hra ra (by simp)
    obtain ⟨c, hc⟩ : ∃ c, cs[ra.rid]? = some c := ⟨cs[ra.rid], by simp [hlt]⟩
    have hpc0 := hpc ra.rid c hc
    rw [raEntries_cons, if_pos rfl, List.append_assoc] at hpc0
    have hstep : ∃ c', c.add ra = .ok c' ∧
        PC (U ra.rid) (tag ra.rid) (n ra.rid) (F ra.rid + ra.amount) c' (raEntries ra.rid ras ++ O ra.rid) := by
      rcases hpc0 with ⟨ht, -⟩ | ⟨ht, hci⟩ | ⟨ht, hsc⟩
      · exact absurd ht hok.ne0
      · have hb' : HeldBound (U ra.rid) (ra.indices ++ (raEntries ra.rid ras ++ O ra.rid)) := by
          have := hb ra.rid
          rw [raEntries_cons, if_pos rfl, List.append_assoc] at this
          exact this
        have hg : ∀ e ∈ ra.indices, e.group < n ra.rid := by
          intro e he
          rcases hok.grp e he with h | h
          · exact h
          · rcases ht with h1 | h2 <;> omega
        obtain ⟨c', hr, inv⟩ := add_cinv (hU ra.rid) hci hb' hg (hok.shape ht)
        exact ⟨c', hr, .inr (.inl ⟨ht, inv⟩)⟩
      · obtain ⟨c', hr, inv⟩ := sum_add hsc (hok.sum ht)
        exact ⟨c', hr, .inr (.inr ⟨ht, inv⟩)⟩
    obtain ⟨c', hr, hpc'⟩ := hstep
    let F' : Nat → Nat := fun r => F r + (if ra.rid = r then ra.amount else 0)
    have hpcs : ∀ r c₁, (cs.set ra.rid c')[r]? = some c₁ →
        PC (U r) (tag r) (n r) (F' r) c₁ (raEntries r ras ++ O r) := by
      intro r c₁ hc₁
      by_cases hr' : r = ra.rid
      · subst hr'
        simp [hlt] at hc₁
        subst hc₁
        simpa [F'] using hpc'
      · rw [List.getElem?_set_ne (by omega)] at hc₁
        have hne : ¬ ra.rid = r := fun h => hr' h.symm
        have := hpc r c₁ hc₁
        rw [raEntries_cons, if_neg hne, List.nil_append] at this
        simpa [F', hne] using this
    have hra' : ∀ ra' ∈ ras, ra'.rid < (cs.set ra.rid c').length ∧ RaOk (tag ra'.rid) (n ra'.rid) ra' := by
      intro ra' h'
      simpa using hra ra' (List.mem_cons_of_mem _ h')
    have hb' : ∀ r, HeldBound (U r) (raEntries r ras ++ O r) := by
      intro r
      have := hb r
      rw [raEntries_cons, List.append_assoc] at this
      intro g i
      have h2 := this g i
      rw [heldBy_append] at h2
      omega
    obtain ⟨cs', hrest, hlen, hfin⟩ := ih hpcs hra' hb'
    refine ⟨cs', ?_, by simpa using hlen, fun r c₁ hc₁ => ?_⟩
    · simp [conciseAdd, hc, hr, hrest]
    · have := hfin r c₁ hc₁
      have e2 : F' r + raAmount r ras = F r + raAmount r (ra :: ras) := by
        simp only [F', raAmount_cons]; omega
      rw [e2] at this
      exact this

end HqModel.Alloc
