import HqModel.Lemmas.AutoAllocIndex
import HqModel.Lemmas.AutoAllocSubmit
/-!
Exactly-once announcement of the allocation lifecycle (C18 `c18_announce`): a ledger argument.
`fin` (1 iff the allocation is in a finished state) and `past` (1 iff it has left Queued) are potential functions:
every step satisfies  `fin before + #Finished events emitted = fin after`  and
`past before + #Started events emitted ≤ past after`  for every (queue, allocation) — except the accepted removal
of the queue itself.
-/
namespace HqModel.AutoAlloc

def cntS (x a : Nat) (O : List Out) : Nat := O.count (.evStarted x a)
def cntF (x a : Nat) (O : List Out) : Nat := O.count (.evFinished x a)

def Queue.fin (q : Queue) (a : Nat) : Nat :=
  match q.findAlloc a with
  | some al => if al.st.isFinished then 1 else 0
  | none => 0

def Queue.past (q : Queue) (a : Nat) : Nat :=
  match q.findAlloc a with
  | some al => if al.st.isQueued then 0 else 1
  | none => 0

def State.fin (s : State) (x a : Nat) : Nat := match s.getQueue x with | some q => q.fin a | none => 0
def State.past (s : State) (x a : Nat) : Nat := match s.getQueue x with | some q => q.past a | none => 0

theorem cntF_append (x a : Nat) (O1 O2 : List Out) : cntF x a (O1 ++ O2) = cntF x a O1 + cntF x a O2 := by
  simp [cntF, List.count_append]
theorem cntS_append (x a : Nat) (O1 O2 : List Out) : cntS x a (O1 ++ O2) = cntS x a O1 + cntS x a O2 := by
  simp [cntS, List.count_append]

theorem cnt_zero_of_no_life (x a : Nat) (O : List Out) (h : ∀ o ∈ O, ¬ o.isLifeEvent) :
    cntF x a O = 0 ∧ cntS x a O = 0 := by
  constructor
  · unfold cntF
    rw [List.count_eq_zero]
    intro hm; exact h _ hm trivial
  · unfold cntS
    rw [List.count_eq_zero]
    intro hm; exact h _ hm trivial

theorem cntF_syncEvents (y a qid a0 : Nat) (o : SyncOut) :
    cntF y a (Queue.syncEvents qid a0 o) = if qid = y ∧ a0 = a ∧ o.fin.isSome = true then 1 else 0 := by
  unfold cntF Queue.syncEvents
  cases hs : o.started <;> cases hf : o.fin.isSome <;> simp [List.count_cons, List.count_nil]

theorem cntS_syncEvents (y a qid a0 : Nat) (o : SyncOut) :
    cntS y a (Queue.syncEvents qid a0 o) = if qid = y ∧ a0 = a ∧ o.started = true then 1 else 0 := by
  unfold cntS Queue.syncEvents
  cases hs : o.started <;> cases hf : o.fin.isSome <;> simp [List.count_cons, List.count_nil]

/-! ### the transition tables announce exactly the changes -/

theorem syncState_fin_flag (t : Nat) (st : AState) (r : SyncReason) :
    (if st.isFinished = true then 1 else 0) + (if (syncState t st r).fin.isSome = true then 1 else 0)
      = (if (syncState t st r).st.isFinished = true then 1 else 0) := by
  cases st <;> cases r
  case running.lost c d e w cr =>
    simp only [syncState]
    by_cases h : (insertD w cr d).length = t <;> simp [h, AState.isFinished]
  all_goals (try (rename_i s; cases s))
  all_goals simp [syncState, AState.isFinished]

theorem syncState_started_flag (t : Nat) (st : AState) (r : SyncReason) :
    (if st.isQueued = true then 0 else 1) + (if (syncState t st r).started = true then 1 else 0)
      ≤ (if (syncState t st r).st.isQueued = true then 0 else 1) := by
  cases st <;> cases r
  case running.lost c d e w cr =>
    simp only [syncState]
    by_cases h : (insertD w cr d).length = t <;> simp [h, AState.isQueued]
  all_goals (try (rename_i s; cases s))
  all_goals simp [syncState, AState.isQueued]

theorem errState_fin_flag (c : Consts) (st : AState) :
    (if st.isFinished = true then 1 else 0) + (if (errState c st).2 = true then 1 else 0)
      = (if (errState c st).1.isFinished = true then 1 else 0) := by
  cases st <;> simp only [errState]
  case queued e => by_cases h : c.maxQueuedErr < e + 1 <;> simp [h, AState.isFinished]
  case running cn d e => by_cases h : c.maxRunningErr < e + 1 <;> simp [h, AState.isFinished]
  all_goals simp [AState.isFinished]

theorem errState_past_flag (c : Consts) (st : AState) :
    (if st.isQueued = true then (0 : Nat) else 1) ≤ (if (errState c st).1.isQueued = true then 0 else 1) := by
  cases st <;> simp only [errState]
  case queued e => by_cases h : c.maxQueuedErr < e + 1 <;> simp [h, AState.isQueued]
  case running cn d e => by_cases h : c.maxRunningErr < e + 1 <;> simp [h, AState.isQueued]
  all_goals simp [AState.isQueued]
/-! ### ledger of one queue-level operation -/

/-- `q → (q', outs)` announces exactly what changed in queue `q` and says nothing about other queues -/
def QLedger (q q' : Queue) (outs : List Out) : Prop :=
  q'.id = q.id ∧ ∀ y a,
    (y = q.id → q.fin a + cntF y a outs = q'.fin a ∧ q.past a + cntS y a outs ≤ q'.past a) ∧
    (y ≠ q.id → cntF y a outs = 0 ∧ cntS y a outs = 0)

theorem QLedger.refl (q : Queue) : QLedger q q [] := by
  refine ⟨rfl, fun y a => ⟨fun _ => ?_, fun _ => ?_⟩⟩ <;> simp [cntF, cntS]

theorem QLedger.trans {a b d : Queue} {o1 o2 : List Out} (h1 : QLedger a b o1) (h2 : QLedger b d o2) :
    QLedger a d (o1 ++ o2) := by
  obtain ⟨i1, l1⟩ := h1
  obtain ⟨i2, l2⟩ := h2
  refine ⟨i2.trans i1, fun y x => ⟨fun hy => ?_, fun hy => ?_⟩⟩
  · have a1 := (l1 y x).1 hy
    have a2 := (l2 y x).1 (hy.trans i1.symm)
    rw [cntF_append, cntS_append]
    omega
  · have a1 := (l1 y x).2 hy
    have a2 := (l2 y x).2 (by rw [i1]; exact hy)
    rw [cntF_append, cntS_append]
    omega

/-- a queue-level operation that keeps every allocation's `fin`/`past` and emits no lifecycle event -/
theorem QLedger.of_silent (q q' : Queue) (outs : List Out) (hid : q'.id = q.id)
    (hf : ∀ a, q'.fin a = q.fin a) (hp : ∀ a, q'.past a = q.past a) (ho : ∀ o ∈ outs, ¬ o.isLifeEvent) :
    QLedger q q' outs := by
  refine ⟨hid, fun y a => ?_⟩
  obtain ⟨c1, c2⟩ := cnt_zero_of_no_life y a outs ho
  refine ⟨fun _ => ?_, fun _ => ⟨c1, c2⟩⟩
  rw [c1, c2, hf, hp]; omega

theorem Queue.sync_QLedger (q : Queue) (a0 : Nat) (r : SyncReason) : QLedger q (q.sync a0 r).1 (q.sync a0 r).2 := by
  unfold Queue.sync
  split
  · exact QLedger.refl q
  · rename_i x0 hx0
    refine ⟨rfl, fun y a => ?_⟩
    have hmap := findAlloc_map q.allocs
      (fun y => if y.id = a0 then { y with st := (syncState y.target y.st r).st } else y)
      (by intro y; split <;> rfl) a
    simp only [cntF_syncEvents, cntS_syncEvents]
    constructor
    · intro hy
      subst hy
      unfold Queue.fin Queue.past Queue.findAlloc at *
      simp only [hmap]
      by_cases ha : a0 = a
      · subst ha
        rw [hx0]
        have hid0 : x0.id = a0 := by have := List.find?_some hx0; simpa using this
        simp only [Option.map_some, hid0, if_true, true_and]
        have f1 := syncState_fin_flag x0.target x0.st r
        have f2 := syncState_started_flag x0.target x0.st r
        exact ⟨f1, f2⟩
      · simp only [ha, false_and, and_false, if_false, Nat.add_zero]
        cases hf : q.allocs.find? (·.id == a) with
        | none => simp
        | some al =>
          have hid : al.id = a := by have := List.find?_some hf; simpa using this
          have : ¬ al.id = a0 := by omega
          simp [this]
    · intro hy
      have : ¬ q.id = y := fun h => hy h.symm
      simp [this]

theorem Queue.bumpErr_QLedger (c : Consts) (q : Queue) (a0 : Nat) :
    QLedger q (q.bumpErr c a0).1 (q.bumpErr c a0).2 := by
  unfold Queue.bumpErr
  split
  · exact QLedger.refl q
  · rename_i x0 hx0
    refine ⟨rfl, fun y a => ?_⟩
    have hmap := findAlloc_map q.allocs
      (fun y => if y.id = a0 then { y with st := (errState c y.st).1 } else y)
      (by intro y; split <;> rfl) a
    have hcF : cntF y a (if (errState c x0.st).2 = true then [Out.evFinished q.id a0] else [])
        = if q.id = y ∧ a0 = a ∧ (errState c x0.st).2 = true then 1 else 0 := by
      unfold cntF
      cases (errState c x0.st).2 <;> simp [List.count_cons]
    have hcS : cntS y a (if (errState c x0.st).2 = true then [Out.evFinished q.id a0] else []) = 0 := by
      unfold cntS
      cases (errState c x0.st).2 <;> simp [List.count_cons]
    rw [hcF, hcS]
    constructor
    · intro hy
      subst hy
      unfold Queue.fin Queue.past Queue.findAlloc at *
      simp only [hmap]
      by_cases ha : a0 = a
      · subst ha
        rw [hx0]
        have hid0 : x0.id = a0 := by have := List.find?_some hx0; simpa using this
        simp only [Option.map_some, hid0, if_true, true_and]
        have f1 := errState_fin_flag c x0.st
        have f2 := errState_past_flag c x0.st
        exact ⟨f1, by omega⟩
      · simp only [ha, false_and, and_false, if_false, Nat.add_zero]
        cases hf : q.allocs.find? (·.id == a) with
        | none => simp
        | some al =>
          have hid : al.id = a := by have := List.find?_some hf; simpa using this
          have : ¬ al.id = a0 := by omega
          simp [this]
    · intro hy
      have : ¬ q.id = y := fun h => hy h.symm
      simp [this]

theorem Queue.applyStatus_QLedger (c : Consts) (q : Queue) (a : Nat) (st : St) :
    QLedger q (q.applyStatus c a st).1 (q.applyStatus c a st).2 := by
  cases st <;> simp only [Queue.applyStatus] <;>
    first | exact Queue.sync_QLedger _ _ _ | exact Queue.bumpErr_QLedger _ _ _

theorem Queue.refreshStatuses_QLedger (c : Consts) (q0 : Queue) (l : List (Nat × St)) (acc : Queue × List Out)
    (h : QLedger q0 acc.1 acc.2) :
    QLedger q0 (Queue.refreshStatuses c l acc).1 (Queue.refreshStatuses c l acc).2 := by
  induction l generalizing acc with
  | nil => exact h
  | cons x xs ih =>
    obtain ⟨a, st⟩ := x
    obtain ⟨q, outs⟩ := acc
    simp only [Queue.refreshStatuses]
    exact ih ((q.applyStatus c a st).1, outs ++ (q.applyStatus c a st).2) (h.trans (Queue.applyStatus_QLedger c q a st))

theorem Queue.refreshErr_QLedger (c : Consts) (q0 : Queue) (l : List Nat) (acc : Queue × List Out)
    (h : QLedger q0 acc.1 acc.2) :
    QLedger q0 (Queue.refreshErr c l acc).1 (Queue.refreshErr c l acc).2 := by
  induction l generalizing acc with
  | nil => exact h
  | cons x xs ih =>
    obtain ⟨q, outs⟩ := acc
    simp only [Queue.refreshErr]
    exact ih ((q.bumpErr c x).1, outs ++ (q.bumpErr c x).2) (h.trans (Queue.bumpErr_QLedger c q x))

theorem Queue.refresh_QLedger (c : Consts) (q : Queue) (rep : Report) :
    QLedger q (q.refresh c rep).1 (q.refresh c rep).2 := by
  cases rep with
  | callErr ids => exact Queue.refreshErr_QLedger c q ids (q, []) (QLedger.refl q)
  | statuses l => exact Queue.refreshStatuses_QLedger c q l (q, []) (QLedger.refl q)

/-! ### the submit loop adds queued allocations silently -/

theorem Queue.submitLoop_no_life (p : List Nat) (acc : SubAcc) (h : ∀ o ∈ acc.outs, ¬ o.isLifeEvent) :
    ∀ o ∈ (Queue.submitLoop p acc).outs, ¬ o.isLifeEvent := by
  induction p generalizing acc with
  | nil => exact h
  | cons n rest ih =>
    simp only [Queue.submitLoop]
    split
    · intro o ho
      simp only [List.mem_append, List.mem_singleton] at ho
      rcases ho with (ho | ho) | ho
      · exact h o ho
      · subst ho; exact fun hh => hh
      · subst ho; exact fun hh => hh
    · split
      · intro o ho
        simp only [List.mem_append, List.mem_singleton] at ho
        rcases ho with (ho | ho) | ho
        · exact h o ho
        · subst ho; exact fun hh => hh
        · subst ho; exact fun hh => hh
      · apply ih
        intro o ho
        simp only [List.mem_append, List.mem_singleton] at ho
        rcases ho with (ho | ho) | ho
        · exact h o ho
        · subst ho; exact fun hh => hh
        · subst ho; exact fun hh => hh
    · intro o ho
      simp only [List.mem_append, List.mem_singleton] at ho
      rcases ho with ho | ho
      · exact h o ho
      · subst ho; exact fun hh => hh

theorem Queue.trySubmit_no_life (q : Queue) (r : QResp) (now : Nat) (res : List SubRes) :
    ∀ o ∈ (q.trySubmit r now res).outs, ¬ o.isLifeEvent := by
  unfold Queue.trySubmit
  simp only
  split
  · intro o ho; cases ho
  · split
    · intro o ho; cases ho
    · split
      · intro o ho; cases ho
      · intro o ho; cases ho
      · split
        · exact Queue.submitLoop_no_life _ _ (by intro o ho; cases ho)
        · intro o ho; cases ho

theorem fin_past_of_append_queued (q q' : Queue) (extra : List Alloc) (h : q'.allocs = q.allocs ++ extra)
    (hq : ∀ x ∈ extra, x.st = .queued 0) (a : Nat) : q'.fin a = q.fin a ∧ q'.past a = q.past a := by
  unfold Queue.fin Queue.past Queue.findAlloc
  rw [h, List.find?_append]
  cases hf : q.allocs.find? (·.id == a) with
  | some al => simp
  | none =>
    simp only [Option.none_or]
    cases he : extra.find? (·.id == a) with
    | none => simp
    | some al =>
      have := hq al (List.mem_of_find?_eq_some he)
      simp [this, AState.isFinished, AState.isQueued]

theorem Queue.trySubmit_QLedger (q : Queue) (r : QResp) (now : Nat) (res : List SubRes) :
    QLedger q (q.trySubmit r now res).q (q.trySubmit r now res).outs := by
  obtain ⟨extra, h1, _, _, h4⟩ := Queue.trySubmit_allocs q r now res
  exact QLedger.of_silent _ _ _ (Queue.trySubmit_id q r now res)
    (fun a => (fin_past_of_append_queued q _ extra h1 h4 a).1)
    (fun a => (fin_past_of_append_queued q _ extra h1 h4 a).2)
    (Queue.trySubmit_no_life q r now res)

theorem Queue.tryPause_QLedger (q : Queue) : QLedger q q.tryPause [] := by
  apply QLedger.of_silent _ _ _ (Queue.tryPause_id q)
  · intro a; unfold Queue.tryPause; split <;> rfl
  · intro a; unfold Queue.tryPause; split <;> rfl
  · intro o ho; cases ho

/-! ### ledger of a whole step -/

/-- for every (queue, allocation): `fin` grows by exactly the number of Finished events, `past` by at least the
number of Started events -/
def SLedger (s s' : State) (outs : List Out) : Prop :=
  ∀ x a, s.fin x a + cntF x a outs = s'.fin x a ∧ s.past x a + cntS x a outs ≤ s'.past x a

theorem SLedger.refl (s : State) : SLedger s s [] := by
  intro x a; simp [cntF, cntS]

theorem SLedger.trans {a b d : State} {o1 o2 : List Out} (h1 : SLedger a b o1) (h2 : SLedger b d o2) :
    SLedger a d (o1 ++ o2) := by
  intro x y
  have a1 := h1 x y
  have a2 := h2 x y
  rw [cntF_append, cntS_append]
  omega

/-- outputs that are not lifecycle events can be added freely -/
theorem SLedger.add_silent {a b : State} {o1 : List Out} (h : SLedger a b o1) (o2 : List Out)
    (ho : ∀ o ∈ o2, ¬ o.isLifeEvent) : SLedger a b (o1 ++ o2) := by
  intro x y
  obtain ⟨c1, c2⟩ := cnt_zero_of_no_life x y o2 ho
  have := h x y
  rw [cntF_append, cntS_append, c1, c2]
  omega

theorem SLedger.of_same_queues {s s' : State} (h : ∀ x, s'.getQueue x = s.getQueue x) : SLedger s s' [] := by
  intro x a
  simp [State.fin, State.past, h, cntF, cntS]

theorem State.setQueue_SLedger (s : State) (k : Nat) (qq q2 : Queue) (outs : List Out)
    (hk : s.getQueue k = some qq) (hl : QLedger qq q2 outs) : SLedger s (s.setQueue q2) outs := by
  obtain ⟨hid, hl⟩ := hl
  have hkid := State.getQueue_id' s k qq hk
  intro x a
  unfold State.fin State.past
  rw [State.getQueue_setQueue]
  by_cases hx : x = q2.id
  · have hxk : x = k := by omega
    subst hxk
    simp only [hx, if_true]
    rw [← hx, hk]
    simp only [Option.map_some]
    exact (hl x a).1 (by omega)
  · simp only [hx, if_false]
    obtain ⟨c1, c2⟩ := (hl x a).2 (by omega)
    rw [c1, c2]
    omega

theorem State.pauseAll_SLedger (s : State) : SLedger s s.pauseAll [] := by
  intro x a
  unfold State.fin State.past
  rw [State.getQueue_pauseAll]
  cases hq : s.getQueue x with
  | none => simp [cntF, cntS]
  | some q =>
    simp only [Option.map_some]
    have := (Queue.tryPause_QLedger q).2 q.id a
    have h1 := this.1 rfl
    simp only [cntF, cntS, List.count_nil, Nat.add_zero] at h1 ⊢
    exact h1

theorem submitAll_SLedger (s0 : State) (now : Nat) (l : List (QResp × Nat)) (acc : TickAcc)
    (h : SLedger s0 acc.st acc.outs) : SLedger s0 (submitAll now l acc).st (submitAll now l acc).outs := by
  induction l generalizing acc with
  | nil => exact h
  | cons y ys ih =>
    obtain ⟨r, qid⟩ := y
    simp only [submitAll]
    split
    · exact ih acc h
    · rename_i qq hqq
      have hstep : SLedger s0
          ((acc.st.setQueue (qq.trySubmit r now acc.results).q).addA2q (qq.trySubmit r now acc.results).newIds qid)
          (acc.outs ++ (qq.trySubmit r now acc.results).outs) := by
        have h2 := State.setQueue_SLedger acc.st qid qq _ _ hqq (Queue.trySubmit_QLedger qq r now acc.results)
        have h3 : SLedger (acc.st.setQueue (qq.trySubmit r now acc.results).q)
            ((acc.st.setQueue (qq.trySubmit r now acc.results).q).addA2q (qq.trySubmit r now acc.results).newIds qid) [] :=
          SLedger.of_same_queues (fun x => State.getQueue_addA2q _ _ _ x)
        have := (h.trans h2).trans h3
        simpa using this
      split
      · exact hstep
      · exact ih _ hstep

theorem State.refreshAll_SLedger (s0 : State) (l : List (Nat × Report)) (acc : State × List Out)
    (h : SLedger s0 acc.1 acc.2) : SLedger s0 (State.refreshAll l acc).1 (State.refreshAll l acc).2 := by
  induction l generalizing acc with
  | nil => exact h
  | cons y ys ih =>
    obtain ⟨qid, rep⟩ := y
    obtain ⟨s, outs⟩ := acc
    simp only [State.refreshAll]
    split
    · exact ih _ h
    · rename_i qq hqq
      exact ih (s.setQueue (qq.refresh s.consts rep).1, outs ++ (qq.refresh s.consts rep).2)
        (h.trans (State.setQueue_SLedger s qid qq _ _ hqq (Queue.refresh_QLedger s.consts qq rep)))

theorem no_life_of_literal {l : List Out} (h : ∀ o ∈ l, ¬ o.isLifeEvent) : ∀ o ∈ l, ¬ o.isLifeEvent := h

theorem State.tick_SLedger (s : State) (now : Nat) (order : List Nat) (query : Query) (results : List SubRes) :
    SLedger s (s.tick now order query results).st (s.tick now order query results).outs := by
  have hp := State.pauseAll_SLedger s
  have lit : ∀ (l : List Out), (∀ o ∈ l, ¬ o.isLifeEvent) → SLedger s s.pauseAll l := by
    intro l hl
    have := hp.add_silent l hl
    simpa using this
  unfold State.tick
  simp only
  split
  · have := (SLedger.refl s).add_silent [Out.tickRes .skipped] (by intro o ho; simp at ho; subst ho; exact fun h => h)
    simpa using this
  · split
    · exact lit _ (by intro o ho; simp at ho; subst ho; exact fun h => h)
    · split
      · exact lit _ (by intro o ho; simp at ho; subst ho; exact fun h => h)
      · split
        · exact lit _ (by intro o ho; simp at ho; rcases ho with rfl | rfl | rfl <;> exact fun h => h)
        · exact lit _ (by intro o ho; simp at ho; rcases ho with rfl | rfl <;> exact fun h => h)
        · split
          · exact lit _ (by intro o ho; simp at ho; subst ho; exact fun h => h)
          · rename_i responses _
            have h0 : SLedger s s.pauseAll [Out.query (s.pauseAll.activeIn order).length] :=
              lit _ (by intro o ho; simp at ho; subst ho; exact fun h => h)
            have hacc := submitAll_SLedger s now (responses.zip (s.pauseAll.activeIn order))
              ⟨s.pauseAll, [Out.query (s.pauseAll.activeIn order).length], results, none⟩ h0
            split
            · exact hacc
            · have h2 := hacc.trans (State.pauseAll_SLedger _)
              have h3 := h2.add_silent
                ((if (submitAll now (responses.zip (s.pauseAll.activeIn order))
                    ⟨s.pauseAll, [Out.query (s.pauseAll.activeIn order).length], results, none⟩).results.isEmpty
                  then [] else [Out.bad "unused-submit-results"]) ++ [Out.tickRes .ok])
                (by
                  intro o ho
                  simp only [List.mem_append, List.mem_singleton] at ho
                  rcases ho with ho | ho
                  · split at ho
                    · cases ho
                    · simp at ho; subst ho; exact fun h => h
                  · subst ho; exact fun h => h)
              simpa [List.append_assoc] using h3

/-- Every step keeps the ledger, except the accepted removal of a queue (which forgets its allocations). -/
theorem step_SLedger (s : State) (e : Ev)
    (hrm : ∀ x f, e = .removeQueue x f → (step s e).st.queues = s.queues) :
    SLedger s (step s e).st (step s e).outs := by
  cases e with
  | workerConnected w a =>
    simp only [step, State.workerEvent]
    split
    · exact (SLedger.refl s).add_silent _ (by intro o ho; simp at ho; subst ho; exact fun h => h)
    · split
      · exact (SLedger.refl s).add_silent _ (by intro o ho; simp at ho; subst ho; exact fun h => h)
      · rename_i qq hqq
        exact (State.setQueue_SLedger s _ qq _ _ hqq (Queue.sync_QLedger qq a _)).add_silent _
          (by intro o ho; simp at ho; subst ho; exact fun h => h)
  | workerLost w a crashed =>
    simp only [step, State.workerEvent]
    split
    · exact (SLedger.refl s).add_silent _ (by intro o ho; simp at ho; subst ho; exact fun h => h)
    · split
      · exact (SLedger.refl s).add_silent _ (by intro o ho; simp at ho; subst ho; exact fun h => h)
      · rename_i qq hqq
        exact (State.setQueue_SLedger s _ qq _ _ hqq (Queue.sync_QLedger qq a _)).add_silent _
          (by intro o ho; simp at ho; subst ho; exact fun h => h)
  | jobSubmitted =>
    exact (SLedger.refl s).add_silent _ (by intro o ho; simp at ho; subst ho; exact fun h => h)
  | addQueue p lim qid =>
    simp only [step, State.addQueue]
    split
    · exact SLedger.of_same_queues (fun x => rfl)
    · rename_i hnew
      have hsil : ∀ o ∈ ((if qid.isSome then [] else [Out.evQCreated (qid.getD s.nextId)]) ++
          [Out.resp (.okId (qid.getD s.nextId)), Out.sched true]), ¬ o.isLifeEvent := by
        intro o ho
        simp only [List.mem_append, List.mem_cons, List.mem_singleton] at ho
        rcases ho with ho | ho | ho
        · split at ho
          · cases ho
          · simp at ho; subst ho; exact fun h => h
        · subst ho; exact fun h => h
        · rcases ho with ho | ho
          · subst ho; exact fun h => h
          · cases ho
      intro x a
      obtain ⟨c1, c2⟩ := cnt_zero_of_no_life x a _ hsil
      rw [c1, c2]
      unfold State.fin State.past State.getQueue
      simp only [List.find?_append]
      cases hf : s.queues.find? (·.id == x) with
      | some q => simp
      | none =>
        simp only [Option.none_or, List.find?_cons, List.find?_nil]
        cases hb : (qid.getD s.nextId == x) <;> simp [Queue.fin, Queue.past, Queue.findAlloc]
  | removeQueue k force =>
    have hq := hrm k force rfl
    have hsame : ∀ x, (step s (.removeQueue k force)).st.getQueue x = s.getQueue x := by
      intro x; unfold State.getQueue; rw [hq]
    have hsil : ∀ o ∈ (step s (.removeQueue k force)).outs, ¬ o.isLifeEvent := by
      simp only [step, State.removeQueue]
      split
      · intro o ho; simp at ho; rcases ho with rfl | rfl <;> exact fun h => h
      · split
        · intro o ho; simp at ho; rcases ho with rfl | rfl <;> exact fun h => h
        · split
          · intro o ho; cases ho
          · intro o ho
            simp only [List.mem_append, List.mem_map, List.mem_cons, List.mem_singleton] at ho
            rcases ho with ⟨al, _, rfl⟩ | rfl | rfl | rfl | ho
            · exact fun h => h
            · exact fun h => h
            · exact fun h => h
            · exact fun h => h
            · cases ho
    have := (SLedger.of_same_queues hsame).add_silent _ hsil
    simpa using this
  | pause k =>
    simp only [step, State.pause]
    split
    · exact (SLedger.refl s).add_silent _ (by intro o ho; simp at ho; rcases ho with rfl | rfl <;> exact fun h => h)
    · rename_i qq hqq
      have hl : QLedger qq { qq with active := false } [] :=
        QLedger.of_silent _ _ _ rfl (fun _ => rfl) (fun _ => rfl) (by intro o ho; cases ho)
      exact (State.setQueue_SLedger s k qq _ _ hqq hl).add_silent _
        (by intro o ho; simp at ho; rcases ho with rfl | rfl <;> exact fun h => h)
  | resume k =>
    simp only [step, State.resume]
    split
    · exact (SLedger.refl s).add_silent _ (by intro o ho; simp at ho; rcases ho with rfl | rfl <;> exact fun h => h)
    · rename_i qq hqq
      have hl : QLedger qq { qq with active := true, lim := qq.lim.onResume s.consts.resumeMask } [] :=
        QLedger.of_silent _ _ _ rfl (fun _ => rfl) (fun _ => rfl) (by intro o ho; cases ho)
      exact (State.setQueue_SLedger s k qq _ _ hqq hl).add_silent _
        (by intro o ho; simp at ho; rcases ho with rfl | rfl <;> exact fun h => h)
  | tick now order query results => exact State.tick_SLedger s now order query results
  | refresh reports =>
    simp only [step, State.refresh]
    split
    · exact (SLedger.refl s).add_silent _ (by intro o ho; simp at ho; subst ho; exact fun h => h)
    · exact (State.refreshAll_SLedger s reports (s, []) (SLedger.refl s)).add_silent _
        (by intro o ho; simp at ho; subst ho; exact fun h => h)

end HqModel.AutoAlloc
