import HqModel.Lemmas.AutoAllocAnnounce
/-!
Trace-level form of the announcement discipline (C18 `c18_announce`): along every run from the empty
autoallocator, per allocation, `#Started ≤ 1`, `#Finished ≤ 1`, `#Finished = 1 ⇔ finished state`, and no
Started after a Finished. Queue ids must not be reused (`addQueue` with the id counter — the journal-restore
path that passes explicit ids is excluded by hypothesis `NoExplicitIds`).
-/
namespace HqModel.AutoAlloc

/-! ### small facts -/

theorem Queue.fin_le_past (q : Queue) (a : Nat) : q.fin a ≤ q.past a ∧ q.past a ≤ 1 := by
  unfold Queue.fin Queue.past
  cases q.findAlloc a with
  | none => simp
  | some al =>
    obtain ⟨i, t, st⟩ := al
    cases st <;> simp [AState.isFinished, AState.isQueued]

theorem State.fin_le_past (s : State) (x a : Nat) : s.fin x a ≤ s.past x a ∧ s.past x a ≤ 1 := by
  unfold State.fin State.past
  cases s.getQueue x with
  | none => simp
  | some q => exact Queue.fin_le_past q a

theorem State.fin_absent (s : State) (x a : Nat) (h : s.getQueue x = none) : s.fin x a = 0 ∧ s.past x a = 0 := by
  simp [State.fin, State.past, h]

theorem cntF_pos_of_mem (x a : Nat) (O : List Out) (h : Out.evFinished x a ∈ O) : 1 ≤ cntF x a O :=
  List.count_pos_iff.mpr h

theorem cntS_pos_of_mem (x a : Nat) (O : List Out) (h : Out.evStarted x a ∈ O) : 1 ≤ cntS x a O :=
  List.count_pos_iff.mpr h

theorem mem_of_cntF_pos (x a : Nat) (O : List Out) (h : 1 ≤ cntF x a O) : Out.evFinished x a ∈ O :=
  List.count_pos_iff.mp h

/-! ### the id counter -/

theorem submitAll_nextId (now : Nat) (l : List (QResp × Nat)) (acc : TickAcc) :
    (submitAll now l acc).st.nextId = acc.st.nextId := by
  induction l generalizing acc with
  | nil => rfl
  | cons x xs ih =>
    obtain ⟨r, qid⟩ := x
    simp only [submitAll]
    split
    · exact ih acc
    · split
      · rfl
      · rw [ih]; rfl

theorem State.refreshAll_nextId (l : List (Nat × Report)) (acc : State × List Out) :
    (State.refreshAll l acc).1.nextId = acc.1.nextId := by
  induction l generalizing acc with
  | nil => rfl
  | cons x xs ih =>
    obtain ⟨qid, rep⟩ := x
    obtain ⟨s, outs⟩ := acc
    simp only [State.refreshAll]
    split
    · exact ih _
    · rw [ih]; rfl

theorem step_nextId (s : State) (e : Ev) :
    (step s e).st.nextId = (match e with | .addQueue _ _ none => s.nextId + 1 | _ => s.nextId) := by
  cases e with
  | workerConnected w a => simp only [step, State.workerEvent]; split <;> (try split) <;> rfl
  | workerLost w a crashed => simp only [step, State.workerEvent]; split <;> (try split) <;> rfl
  | jobSubmitted => rfl
  | addQueue p lim qid => cases qid <;> (simp only [step, State.addQueue]; split <;> rfl)
  | removeQueue q force => simp only [step, State.removeQueue]; split <;> (try split) <;> (try split) <;> rfl
  | pause q => simp only [step, State.pause]; split <;> rfl
  | resume q => simp only [step, State.resume]; split <;> rfl
  | tick now order query results =>
    simp only [step, State.tick]
    split
    · rfl
    · split
      · rfl
      · split
        · rfl
        · split
          · rfl
          · rfl
          · split
            · rfl
            · split
              · rw [submitAll_nextId]; rfl
              · show (submitAll _ _ _).st.nextId = _
                rw [submitAll_nextId]; rfl
  | refresh reports =>
    simp only [step, State.refresh]
    split
    · rfl
    · exact State.refreshAll_nextId reports (s, [])

theorem step_nextId_le (s : State) (e : Ev) : s.nextId ≤ (step s e).st.nextId := by
  rw [step_nextId]
  split <;> omega

/-! ### Started is only emitted by a worker connect, and never together with Finished -/

theorem syncState_ext_started (t : Nat) (st : AState) (x : Ext) : (syncState t st (.ext x)).started = false := by
  cases st <;> cases x <;> rfl

theorem syncState_lost_started (t : Nat) (st : AState) (w : Nat) (cr : Bool) :
    (syncState t st (.lost w cr)).started = false := by
  cases st <;> simp only [syncState]
  split <;> rfl

theorem syncState_started_fin (t : Nat) (st : AState) (r : SyncReason) (h : (syncState t st r).started = true) :
    (syncState t st r).fin = none := by
  cases st <;> cases r
  case running.lost c d e w cr =>
    rw [syncState_lost_started] at h; cases h
  all_goals (try (rename_i x; cases x))
  all_goals simp_all [syncState]

theorem Queue.sync_no_started (q : Queue) (a : Nat) (r : SyncReason) (hr : ∀ w, r ≠ .conn w) :
    ∀ y b, Out.evStarted y b ∉ (q.sync a r).2 := by
  intro y b hm
  unfold Queue.sync at hm
  split at hm
  · cases hm
  · rename_i x0 _
    simp only [Queue.syncEvents, List.mem_append] at hm
    rcases hm with hm | hm
    · split at hm
      · rename_i hs
        cases r with
        | conn w => exact hr w rfl
        | lost w cr => rw [syncState_lost_started] at hs; cases hs
        | ext x => rw [syncState_ext_started] at hs; cases hs
      · cases hm
    · split at hm
      · simp at hm
      · cases hm

theorem Queue.applyStatus_no_started (c : Consts) (q : Queue) (a : Nat) (st : St) :
    ∀ y b, Out.evStarted y b ∉ (q.applyStatus c a st).2 := by
  intro y b hm
  cases st <;> simp only [Queue.applyStatus] at hm
  all_goals first
    | exact Queue.sync_no_started _ _ _ (by intro w h; cases h) y b hm
    | (have := Queue.bumpErr_outs _ _ _ _ hm; cases this)

theorem Queue.refresh_no_started (c : Consts) (q : Queue) (rep : Report) :
    ∀ y b, Out.evStarted y b ∉ (q.refresh c rep).2 := by
  have hs : ∀ (l : List (Nat × St)) (acc : Queue × List Out), (∀ y b, Out.evStarted y b ∉ acc.2) →
      ∀ y b, Out.evStarted y b ∉ (Queue.refreshStatuses c l acc).2 := by
    intro l
    induction l with
    | nil => intro acc h; exact h
    | cons x xs ih =>
      intro acc h
      obtain ⟨a, st⟩ := x
      obtain ⟨q1, outs⟩ := acc
      simp only [Queue.refreshStatuses]
      apply ih
      intro y b hm
      simp only [List.mem_append] at hm
      rcases hm with hm | hm
      · exact h y b hm
      · exact Queue.applyStatus_no_started c q1 a st y b hm
  have he : ∀ (l : List Nat) (acc : Queue × List Out), (∀ y b, Out.evStarted y b ∉ acc.2) →
      ∀ y b, Out.evStarted y b ∉ (Queue.refreshErr c l acc).2 := by
    intro l
    induction l with
    | nil => intro acc h; exact h
    | cons x xs ih =>
      intro acc h
      obtain ⟨q1, outs⟩ := acc
      simp only [Queue.refreshErr]
      apply ih
      intro y b hm
      simp only [List.mem_append] at hm
      rcases hm with hm | hm
      · exact h y b hm
      · have := Queue.bumpErr_outs _ _ _ _ hm; cases this
  cases rep with
  | callErr ids => exact he ids (q, []) (by intro y b hm; cases hm)
  | statuses l => exact hs l (q, []) (by intro y b hm; cases hm)

theorem State.refreshAll_no_started (l : List (Nat × Report)) (acc : State × List Out)
    (h : ∀ y b, Out.evStarted y b ∉ acc.2) : ∀ y b, Out.evStarted y b ∉ (State.refreshAll l acc).2 := by
  induction l generalizing acc with
  | nil => exact h
  | cons x xs ih =>
    obtain ⟨qid, rep⟩ := x
    obtain ⟨s, outs⟩ := acc
    simp only [State.refreshAll]
    split
    · exact ih _ h
    · apply ih
      intro y b hm
      simp only [List.mem_append] at hm
      rcases hm with hm | hm
      · exact h y b hm
      · exact Queue.refresh_no_started _ _ _ y b hm

/-- `AllocationStarted` is emitted only by a worker connect to that allocation, and that step emits no
`AllocationFinished` for it. -/
theorem started_only_by_connect (s : State) (e : Ev) (x a : Nat) (h : Out.evStarted x a ∈ (step s e).outs) :
    (∃ w, e = .workerConnected w a) ∧ Out.evFinished x a ∉ (step s e).outs := by
  have nolife : ∀ l : List Out, (∀ o ∈ l, ¬ o.isLifeEvent) → Out.evStarted x a ∈ l → False :=
    fun l hl hm => hl _ hm trivial
  cases e with
  | workerConnected w b =>
    simp only [step, State.workerEvent] at h ⊢
    split at h
    · simp at h
    · split at h
      · simp at h
      · rename_i qq _
        simp only [List.mem_append, List.mem_singleton] at h
        rcases h with h | h
        · have hb : b = a := by
            rcases Queue.sync_outs _ _ _ _ h with h1 | h1 <;> cases h1; rfl
          subst hb
          refine ⟨⟨w, rfl⟩, ?_⟩
          intro hf
          simp only [List.mem_append, List.mem_singleton] at hf
          rcases hf with hf | hf
          · -- both Started and Finished from one `sync`: impossible
            cases hx : qq.findAlloc b with
            | none =>
              simp only [Queue.sync, hx] at h
              cases h
            | some x0 =>
              simp only [Queue.sync, hx, Queue.syncEvents, List.mem_append] at h hf
              have hst : (syncState x0.target x0.st (.conn w)).started = true := by
                rcases h with h | h
                · split at h
                  · assumption
                  · cases h
                · split at h
                  · simp at h
                  · cases h
              have hfn := syncState_started_fin _ _ _ hst
              rcases hf with hf | hf
              · rw [if_pos hst] at hf
                simp at hf
              · rw [hfn] at hf
                simp at hf
          · cases hf
        · cases h
  | workerLost w b crashed =>
    exfalso
    simp only [step, State.workerEvent] at h
    split at h
    · simp at h
    · split at h
      · simp at h
      · simp only [List.mem_append, List.mem_singleton] at h
        rcases h with h | h
        · exact Queue.sync_no_started _ _ _ (by intro w' hh; cases hh) x a h
        · cases h
  | jobSubmitted => exfalso; simp [step] at h
  | addQueue p lim qid =>
    exfalso
    simp only [step, State.addQueue] at h
    split at h
    · simp at h
    · cases qid <;> simp at h
  | removeQueue q force =>
    exfalso
    simp only [step, State.removeQueue] at h
    split at h
    · simp at h
    · split at h
      · simp at h
      · split at h
        · simp at h
        · simp at h
  | pause q => exfalso; simp only [step, State.pause] at h; split at h <;> simp at h
  | resume q => exfalso; simp only [step, State.resume] at h; split at h <;> simp at h
  | tick now order query results =>
    exfalso
    -- the ledger of the tick has no Started: every output of the tick is not a lifecycle event or is a … we use
    -- the direct characterisation of the submit outputs
    have hno : ∀ o ∈ (s.tick now order query results).outs, ¬ o.isLifeEvent := by
      have hsub : ∀ (l : List (QResp × Nat)) (acc : TickAcc), (∀ o ∈ acc.outs, ¬ o.isLifeEvent) →
          ∀ o ∈ (submitAll now l acc).outs, ¬ o.isLifeEvent := by
        intro l
        induction l with
        | nil => intro acc ha; exact ha
        | cons y ys ih =>
          intro acc ha
          obtain ⟨r, qid⟩ := y
          simp only [submitAll]
          split
          · exact ih acc ha
          · rename_i qq _
            have hh : ∀ o ∈ acc.outs ++ (qq.trySubmit r now acc.results).outs, ¬ o.isLifeEvent := by
              intro o ho
              simp only [List.mem_append] at ho
              rcases ho with ho | ho
              · exact ha o ho
              · exact Queue.trySubmit_no_life _ _ _ _ o ho
            split
            · exact hh
            · exact ih _ hh
      unfold State.tick
      simp only
      split
      · intro o ho; simp at ho; subst ho; exact fun h => h
      · split
        · intro o ho; simp at ho; subst ho; exact fun h => h
        · split
          · intro o ho; simp at ho; subst ho; exact fun h => h
          · split
            · intro o ho; simp at ho; rcases ho with rfl | rfl | rfl <;> exact fun h => h
            · intro o ho; simp at ho; rcases ho with rfl | rfl <;> exact fun h => h
            · split
              · intro o ho; simp at ho; subst ho; exact fun h => h
              · rename_i responses _
                have hacc := hsub (responses.zip (s.pauseAll.activeIn order))
                  ⟨s.pauseAll, [Out.query (s.pauseAll.activeIn order).length], results, none⟩
                  (by intro o ho; simp at ho; subst ho; exact fun h => h)
                split
                · exact hacc
                · intro o ho
                  simp only [List.mem_append, List.mem_singleton] at ho
                  rcases ho with (ho | ho) | ho
                  · exact hacc o ho
                  · split at ho
                    · cases ho
                    · simp at ho; subst ho; exact fun h => h
                  · subst ho; exact fun h => h
    exact nolife _ hno h
  | refresh reports =>
    exfalso
    simp only [step, State.refresh] at h
    split at h
    · simp at h
    · simp only [List.mem_append, List.mem_singleton] at h
      rcases h with h | h
      · exact State.refreshAll_no_started reports (s, []) (by intro y b hm; cases hm) x a h
      · cases h

/-! ### removal of a queue -/

theorem removeQueue_shape (s : State) (k : Nat) (f : Bool) :
    (∀ o ∈ (step s (.removeQueue k f)).outs, ¬ o.isLifeEvent) ∧
    ((step s (.removeQueue k f)).st.queues = s.queues ∨
     ((step s (.removeQueue k f)).st.queues = s.queues.filter (·.id != k) ∧ ∃ q, s.getQueue k = some q)) := by
  simp only [step, State.removeQueue]
  split
  · exact ⟨by intro o ho; simp at ho; rcases ho with rfl | rfl <;> exact fun h => h, .inl rfl⟩
  · rename_i q hq
    split
    · exact ⟨by intro o ho; simp at ho; rcases ho with rfl | rfl <;> exact fun h => h, .inl rfl⟩
    · split
      · exact ⟨(by intro o ho; cases ho), .inr ⟨rfl, q, hq⟩⟩
      · refine ⟨?_, .inr ⟨rfl, q, hq⟩⟩
        intro o ho
        simp only [List.mem_append, List.mem_map, List.mem_cons] at ho
        rcases ho with ⟨al, _, rfl⟩ | rfl | rfl | rfl | ho
        · exact fun h => h
        · exact fun h => h
        · exact fun h => h
        · exact fun h => h
        · cases ho

theorem getQueue_filter_ne (s : State) (k x : Nat) (m : List Queue) (h : m = s.queues.filter (·.id != k)) :
    m.find? (·.id == x) = if x = k then none else s.getQueue x := by
  subst h
  simp only [State.getQueue, List.find?_filter]
  by_cases hx : x = k
  · subst hx
    simp only [if_true, List.find?_eq_none]
    intro y _; simp
  · simp only [hx, if_false]
    congr 1
    funext y
    by_cases hy : y.id = x
    · simp [hy, hx]
    · simp [hy]

/-! ### the trace invariant -/

/-- the journal-restore path (explicit queue ids) is not used -/
def NoExplicitIds (evs : List Ev) : Prop := ∀ e ∈ evs, ∀ p l q, e ≠ .addQueue p l (some q)

structure TraceInv (s : State) (O : List Out) : Prop where
  ids : ∀ x q, s.getQueue x = some q → x < s.nextId
  present : ∀ x a q, s.getQueue x = some q → cntF x a O = s.fin x a ∧ cntS x a O ≤ s.past x a
  fresh : ∀ x a, s.getQueue x = none → s.nextId ≤ x → cntF x a O = 0 ∧ cntS x a O = 0
  gone : ∀ x a, s.getQueue x = none → cntF x a O ≤ 1 ∧ cntS x a O ≤ 1
  order : ∀ x a O1 O2, O = O1 ++ Out.evFinished x a :: O2 → Out.evStarted x a ∉ O2

theorem TraceInv.initial (c : Consts) (n : Nat) : TraceInv (init c n) [] := by
  refine ⟨?_, ?_, ?_, ?_, ?_⟩
  · intro x q h; simp [HqModel.AutoAlloc.init, State.getQueue] at h
  · intro x a q h; simp [HqModel.AutoAlloc.init, State.getQueue] at h
  · intro x a _ _; simp [cntF, cntS]
  · intro x a _; simp [cntF, cntS]
  · intro x a O1 O2 h; simp at h

theorem order_extend (x a : Nat) (O O' : List Out)
    (hO : ∀ O1 O2, O = O1 ++ Out.evFinished x a :: O2 → Out.evStarted x a ∉ O2)
    (h1 : Out.evStarted x a ∈ O' → Out.evFinished x a ∉ O)
    (h2 : Out.evStarted x a ∈ O' → Out.evFinished x a ∉ O') :
    ∀ O1 O2, O ++ O' = O1 ++ Out.evFinished x a :: O2 → Out.evStarted x a ∉ O2 := by
  intro O1 O2 heq hS
  rw [List.append_eq_append_iff] at heq
  rcases heq with ⟨t, rfl, ht⟩ | ⟨t, rfl, ht⟩
  · -- the Finished event lies in O'
    have hF : Out.evFinished x a ∈ O' := by rw [ht]; simp
    have hS' : Out.evStarted x a ∈ O' := by rw [ht]; simp [hS]
    exact h2 hS' hF
  · cases t with
    | nil =>
      simp only [List.nil_append] at ht
      have hF : Out.evFinished x a ∈ O' := by rw [← ht]; simp
      have hS' : Out.evStarted x a ∈ O' := by rw [← ht]; simp [hS]
      exact h2 hS' hF
    | cons y ys =>
      simp only [List.cons_append, List.cons.injEq] at ht
      obtain ⟨rfl, rfl⟩ := ht
      simp only [List.mem_append] at hS
      rcases hS with hS | hS
      · exact hO O1 ys rfl hS
      · exact h1 hS (by simp)

theorem TraceInv.preserved (s : State) (O : List Out) (e : Ev) (h : TraceInv s O)
    (hne : ∀ p l q, e ≠ .addQueue p l (some q)) : TraceInv (step s e).st (O ++ (step s e).outs) := by
  have hnext := step_nextId_le s e
  have fp := State.fin_le_past
  -- facts about Started events of this step
  have hstart : ∀ x a, Out.evStarted x a ∈ (step s e).outs →
      Out.evFinished x a ∉ (step s e).outs ∧ Out.evFinished x a ∉ O := by
    intro x a hS
    obtain ⟨⟨w, rfl⟩, hnF⟩ := started_only_by_connect s e x a hS
    refine ⟨hnF, ?_⟩
    intro hFO
    have hL := step_SLedger s (.workerConnected w a) (by intro y f hh; cases hh) x a
    have c1 := cntS_pos_of_mem x a _ hS
    have c2 := cntF_pos_of_mem x a _ hFO
    have b1 := fp s x a
    have b2 := fp (HqModel.AutoAlloc.step s (.workerConnected w a)).st x a
    cases hq : s.getQueue x with
    | none =>
      have := State.fin_absent s x a hq
      -- the queue is absent before: it is absent after a worker event, so `past` stays 0
      have hq' : (HqModel.AutoAlloc.step s (.workerConnected w a)).st.getQueue x = none := by
        cases hq2 : (HqModel.AutoAlloc.step s (.workerConnected w a)).st.getQueue x with
        | none => rfl
        | some q' =>
          obtain ⟨p, l, qid, hh, _⟩ := step_new_queue s _ x q' hq hq2
          cases hh
      have := State.fin_absent _ x a hq'
      omega
    | some q =>
      have := (h.present x a q hq).1
      omega
  by_cases hrm : ∀ x f, e = .removeQueue x f → (step s e).st.queues = s.queues
  · -- the ledger holds for this step
    have hL := step_SLedger s e hrm
    have new_id : ∀ x q', s.getQueue x = none → (HqModel.AutoAlloc.step s e).st.getQueue x = some q' →
        x = s.nextId ∧ (HqModel.AutoAlloc.step s e).st.nextId = s.nextId + 1 := by
      intro x q' h0 h1
      obtain ⟨p, l, qid, rfl, hx, _⟩ := step_new_queue s e x q' h0 h1
      cases qid with
      | some k => exact absurd rfl (hne p l k)
      | none => exact ⟨by simpa using hx, by rw [step_nextId]⟩
    have stays : ∀ x q, s.getQueue x = some q → ∃ q', (HqModel.AutoAlloc.step s e).st.getQueue x = some q' := by
      intro x q hq
      rcases step_queue s e x q hq with ⟨⟨f, rfl⟩, hnone⟩ | ⟨_, hres⟩ | ⟨q', hq', _⟩
      · exfalso
        have := hrm x f rfl
        unfold State.getQueue at hnone hq
        rw [this, hq] at hnone
        cases hnone
      · exact ⟨_, hres⟩
      · exact ⟨q', hq'⟩
    refine ⟨?_, ?_, ?_, ?_, ?_⟩
    · intro x q' hq'
      cases hq : s.getQueue x with
      | some q => have := h.ids x q hq; omega
      | none => obtain ⟨h1, h2⟩ := new_id x q' hq hq'; omega
    · intro x a q' hq'
      have l := hL x a
      rw [cntF_append, cntS_append]
      cases hq : s.getQueue x with
      | some q =>
        have := h.present x a q hq
        omega
      | none =>
        obtain ⟨h1, _⟩ := new_id x q' hq hq'
        have := h.fresh x a hq (by omega)
        have := State.fin_absent s x a hq
        omega
    · intro x a hq' hx
      have l := hL x a
      rw [cntF_append, cntS_append]
      have hq : s.getQueue x = none := by
        cases hq : s.getQueue x with
        | none => rfl
        | some q => have := h.ids x q hq; omega
      have := h.fresh x a hq (by omega)
      have := State.fin_absent s x a hq
      have := State.fin_absent _ x a hq'
      omega
    · intro x a hq'
      have l := hL x a
      rw [cntF_append, cntS_append]
      cases hq : s.getQueue x with
      | some q =>
        obtain ⟨q', hh⟩ := stays x q hq
        rw [hh] at hq'; cases hq'
      | none =>
        have := h.gone x a hq
        have := State.fin_absent s x a hq
        have := State.fin_absent _ x a hq'
        omega
    · intro x a
      exact order_extend x a O _ (h.order x a) (fun hS => (hstart x a hS).2) (fun hS => (hstart x a hS).1)
  · -- an effective removal of queue `k`
    have hex : ∃ k f, e = .removeQueue k f := by
      apply Classical.byContradiction
      intro hn
      apply hrm
      intro x f he
      exact absurd ⟨x, f, he⟩ hn
    obtain ⟨k, f, rfl⟩ := hex
    obtain ⟨hsil, hshape⟩ := removeQueue_shape s k f
    have hshape' : (HqModel.AutoAlloc.step s (.removeQueue k f)).st.queues = s.queues.filter (·.id != k) ∧
        ∃ q, s.getQueue k = some q := by
      rcases hshape with hs | hs
      · exact absurd (fun x f' he => by cases he; exact hs) hrm
      · exact hs
    obtain ⟨hfil, qk, hqk⟩ := hshape'
    have hget : ∀ x, (HqModel.AutoAlloc.step s (.removeQueue k f)).st.getQueue x = if x = k then none else s.getQueue x :=
      fun x => getQueue_filter_ne s k x _ hfil
    have hnid : (HqModel.AutoAlloc.step s (.removeQueue k f)).st.nextId = s.nextId := by rw [step_nextId]
    have hcnt : ∀ x a, cntF x a (O ++ (HqModel.AutoAlloc.step s (.removeQueue k f)).outs) = cntF x a O ∧
        cntS x a (O ++ (HqModel.AutoAlloc.step s (.removeQueue k f)).outs) = cntS x a O := by
      intro x a
      obtain ⟨c1, c2⟩ := cnt_zero_of_no_life x a _ hsil
      rw [cntF_append, cntS_append, c1, c2]; simp
    refine ⟨?_, ?_, ?_, ?_, ?_⟩
    · intro x q' hq'
      rw [hget] at hq'
      by_cases hx : x = k
      · simp [hx] at hq'
      · simp only [hx, if_false] at hq'
        have := h.ids x q' hq'
        omega
    · intro x a q' hq'
      rw [hget] at hq'
      by_cases hx : x = k
      · simp [hx] at hq'
      · simp only [hx, if_false] at hq'
        obtain ⟨c1, c2⟩ := hcnt x a
        rw [c1, c2]
        have := h.present x a q' hq'
        unfold State.fin State.past at this ⊢
        rw [hget]
        simpa [hx] using this
    · intro x a hq' hx
      obtain ⟨c1, c2⟩ := hcnt x a
      rw [c1, c2]
      have hq : s.getQueue x = none := by
        cases hq : s.getQueue x with
        | none => rfl
        | some q => have := h.ids x q hq; omega
      exact h.fresh x a hq (by omega)
    · intro x a hq'
      obtain ⟨c1, c2⟩ := hcnt x a
      rw [c1, c2]
      cases hq : s.getQueue x with
      | none => exact h.gone x a hq
      | some q =>
        have := h.present x a q hq
        have := fp s x a
        omega
    · intro x a
      exact order_extend x a O _ (h.order x a) (fun hS => (hstart x a hS).2) (fun hS => (hstart x a hS).1)

/-- the invariant holds after every run (the outputs of a final panicking step included) -/
theorem TraceInv.ofRun (s : State) (O : List Out) (evs : List Ev) (h : TraceInv s O) (hne : NoExplicitIds evs) :
    TraceInv (HqModel.AutoAlloc.run s evs).1 (O ++ (HqModel.AutoAlloc.run s evs).2.1) := by
  induction evs generalizing s O with
  | nil => simpa [HqModel.AutoAlloc.run] using h
  | cons e es ih =>
    have hstep := TraceInv.preserved s O e h (fun p l q => hne e (by simp) p l q)
    simp only [HqModel.AutoAlloc.run]
    split
    · exact hstep
    · have := ih (HqModel.AutoAlloc.step s e).st (O ++ (HqModel.AutoAlloc.step s e).outs) hstep
        (fun e' he' => hne e' (by simp [he']))
      simpa [List.append_assoc] using this

end HqModel.AutoAlloc
