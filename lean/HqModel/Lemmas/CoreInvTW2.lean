import HqModel.Lemmas.CoreInvTW
/-!
Stage 2c, part 2: generic task-record moves for `TW3`/`MNU` and the functions of `Model.lean` and the first
half of `Reactor.lean`.
-/
namespace HqModel.Core

/-- state → list clauses + the multi-node clause, on a state -/
structure TWI (D : TaskId → Prop) (s : State) : Prop where
  tw : TW3 D s.tasks s.workers s.redirects
  mnu : MNU s.tasks s.workers

theorem CoreEq.twi {D} {s s' : State} (h : CoreEq s s') (hi : TWI D s) : TWI D s' := by
  constructor
  · rw [h.t, h.w, h.r]; exact hi.tw
  · rw [h.t, h.w]; exact hi.mnu

theorem TWI.mono {D D'} {s : State} (h : TWI D s) (hd : ∀ u, D u → D' u) : TWI D' s := ⟨h.tw.mono hd, h.mnu⟩

/-- states without state → list obligations -/
def NoOb : TS → Prop
  | .waiting _ => True
  | .finished => True
  | .retracting _ => True
  | _ => False

theorem NoOb.not_mn {st : TS} (h : NoOb st) : ∀ l, st ≠ .runningMN l := by
  intro l e; rw [e] at h; exact h

/-- a task gets a state without state → list obligations (Waiting, Finished, Retracting); redirects may be dropped -/
theorem TW3.put_noob {D ts ws rd rd'} (h : TW3 D ts ws rd) {t' told : Task} (ht : findTask ts t'.id = some told)
    (hs : NoOb t'.state)
    (hrd : ∀ u x v, u ≠ t'.id → (u, x, v) ∈ rd' → (u, x, v) ∈ rd)
    (hr : ∀ x v, (t'.id, x, v) ∈ rd' → (∃ w0, t'.state = .retracting w0) ∧ t'.id ∈ asgW ws x) :
    TW3 (fun u => D u ∧ u ≠ t'.id) (putTask ts t') ws rd' := by
  refine h.frame t'.id (fun u hu => ?_) (fun u hu => by rw [stOf_put ht, if_neg hu]) (fun _ _ _ h => h)
    (fun _ _ _ h => h) (fun _ _ _ h => h) hrd ?_ ?_ ?_ ?_ ?_
  · by_cases hd : D u
    · exact Or.inl ⟨hd, hu⟩
    · exact Or.inr hd
  · intro w v _ hst
    rw [stOf_put ht, if_pos rfl] at hst
    rcases hst with e | e <;> simp only [Option.some.injEq] at e <;> rw [e] at hs <;> exact hs.elim
  · intro w _ hst
    rw [stOf_put ht, if_pos rfl] at hst
    simp only [Option.some.injEq] at hst; rw [hst] at hs; exact hs.elim
  · intro l _ hst
    rw [stOf_put ht, if_pos rfl] at hst
    simp only [Option.some.injEq] at hst; rw [hst] at hs; exact hs.elim
  · intro w v _ hm; exact (hr w v hm).2
  · intro w v hm
    obtain ⟨w0, e⟩ := (hr w v hm).1
    exact ⟨w0, by rw [stOf_put ht, if_pos rfl, e]⟩

/-- the usual case: the old state was not Retracting, so the task has no redirect -/
theorem TWI.put_noob {D} {s : State} (h : TWI D s) {t' told : Task} (ht : findTask s.tasks t'.id = some told)
    (hs : NoOb t'.state) (hold : ∀ w0, told.state ≠ .retracting w0) :
    TWI (fun u => D u ∧ u ≠ t'.id) (s.setTask t') := by
  have hnr := h.tw.no_rd_of_state (stOf_of_find ht) hold
  exact ⟨h.tw.put_noob ht hs (fun _ _ _ _ h => h) (fun x v hm => absurd hm (hnr x v)), h.mnu.put_nonmn ht hs.not_mn⟩

/-- a task record is replaced by one with the same state -/
theorem TWI.put_same {D} {s : State} (h : TWI D s) {t' told : Task} (ht : findTask s.tasks t'.id = some told)
    (hs : t'.state = told.state) : TWI D (s.setTask t') := by
  have hst : ∀ u, stOf (putTask s.tasks t') u = stOf s.tasks u := by
    intro u; rw [stOf_put ht]; split
    · rename_i e; rw [e, stOf_of_find ht, hs]
    · rfl
  exact ⟨h.tw.congr_tasks hst, h.mnu.congr_tasks hst⟩

/-- a free task is erased -/
theorem TW3.erase {D ts ws rd} (h : TW3 D ts ws rd) (hn : (taskIds ts).Nodup) (t : TaskId)
    (hnr : ∀ w v, (t, w, v) ∉ rd) :
    TW3 (fun u => D u ∧ u ≠ t) (eraseTask ts t) ws rd := by
  have hst : ∀ u, stOf (eraseTask ts t) u = if u = t then none else stOf ts u := by
    intro u; unfold stOf; rw [findTask_eraseTask hn]; split <;> rfl
  refine h.frame t (fun u hu => ?_) (fun u hu => by rw [hst, if_neg hu]) (fun _ _ _ h => h)
    (fun _ _ _ h => h) (fun _ _ _ h => h) (fun _ _ _ _ h => h) ?_ ?_ ?_ ?_ ?_
  · by_cases hd : D u
    · exact Or.inl ⟨hd, hu⟩
    · exact Or.inr hd
  · intro w v _ hs; rw [hst, if_pos rfl] at hs; rcases hs with e | e <;> cases e
  · intro w _ hs; rw [hst, if_pos rfl] at hs; cases hs
  · intro l _ hs; rw [hst, if_pos rfl] at hs; cases hs
  · intro w v _ hm; exact absurd hm (hnr w v)
  · intro w v hm; exact absurd hm (hnr w v)

theorem MNU.erase {ts ws} (h : MNU ts ws) (hn : (taskIds ts).Nodup) (t : TaskId) : MNU (eraseTask ts t) ws := by
  intro u l hs
  unfold stOf at hs
  rw [findTask_eraseTask hn] at hs
  split at hs
  · cases hs
  · exact h u l hs

theorem TW3.append {D ts ws rd} (h : TW3 D ts ws rd) {task : Task} (hs : NoOb task.state) : TW3 D (ts ++ [task]) ws rd := by
  have hst : ∀ u, stOf (ts ++ [task]) u = stOf ts u ∨ (stOf ts u = none ∧ stOf (ts ++ [task]) u = some task.state) := by
    intro u
    unfold stOf
    rw [findTask_append]
    cases hf : findTask ts u with
    | some x => exact Or.inl rfl
    | none =>
      simp only
      split
      · exact Or.inr ⟨rfl, rfl⟩
      · exact Or.inl rfl
  refine ⟨?_, ?_, ?_, h.d1, ?_⟩
  · intro u w v hd hsu
    rcases hst u with e | ⟨_, e⟩
    · rw [e] at hsu; exact h.t1 u w v hd hsu
    · rw [e] at hsu; rcases hsu with e1 | e1 <;> simp only [Option.some.injEq] at e1 <;> rw [e1] at hs <;> exact hs.elim
  · intro u w hd hsu
    rcases hst u with e | ⟨_, e⟩
    · rw [e] at hsu; exact h.t2 u w hd hsu
    · rw [e] at hsu; simp only [Option.some.injEq] at hsu; rw [hsu] at hs; exact hs.elim
  · intro u l hd hsu
    rcases hst u with e | ⟨_, e⟩
    · rw [e] at hsu; exact h.t3 u l hd hsu
    · rw [e] at hsu; simp only [Option.some.injEq] at hsu; rw [hsu] at hs; exact hs.elim
  · intro u w v hm
    obtain ⟨w0, e0⟩ := h.d0 u w v hm
    rcases hst u with e | ⟨e1, _⟩
    · exact ⟨w0, by rw [e]; exact e0⟩
    · rw [e1] at e0; cases e0

theorem MNU.append {ts ws} (h : MNU ts ws) {task : Task} (hs : NoOb task.state) : MNU (ts ++ [task]) ws := by
  intro t l hst
  unfold stOf at hst
  rw [findTask_append] at hst
  cases hf : findTask ts t with
  | some x =>
    rw [hf] at hst
    exact h t l (by unfold stOf; rw [hf]; exact hst)
  | none =>
    rw [hf] at hst
    simp only at hst
    split at hst
    · simp only [Option.map_some, Option.some.injEq] at hst; rw [hst] at hs; exact hs.elim
    · cases hst

/-! ### `process_retracted`, `remove_task`, `on_new_tasks` -/

theorem withWorker_redirects {s s' : State} {w : Nat} {f : Worker → M Worker} (h : s.withWorker w f = .ok s') :
    s'.redirects = s.redirects := by
  obtain ⟨wk, wk', _, _, rfl⟩ := withWorker_spec h; rfl

theorem processRetracted_tw {D} (l : List TaskId) (s s' : State) (acc acc' : List (Nat × TaskId))
    (hi : TWI D s) (h : s.processRetracted l acc = .ok (s', acc')) : TWI D s' := by
  induction l generalizing s acc with
  | nil => simp only [State.processRetracted] at h; cases h; exact hi
  | cons t rest ih =>
    simp only [State.processRetracted] at h
    split at h
    · cases h
    · rename_i task hg
      have hft := getTask_spec hg
      have hid : task.id = t := findTask_some_id hft
      split at h
      · rename_i w hs
        split at h
        · cases h
        · rename_i s1 hw
          obtain ⟨a, b⟩ := removePrefill_tw hi.tw hi.mnu hw
          have e1 : s1.tasks = s.tasks := withWorker_tasks hw
          have hi1 : TWI (fun u => D u ∨ u = t) s1 := ⟨by rw [e1]; exact a, by rw [e1]; exact b⟩
          refine ih _ _ ?_ h
          have ht1 : findTask s1.tasks ({ task with state := .retracting w } : Task).id = some task := by
            rw [e1, hid]; exact hft
          refine (hi1.put_noob ht1 trivial (by simp [hs])).mono ?_
          intro u hu
          rcases hu.1 with h1 | h1
          · exact h1
          · exact absurd (by simpa [hid] using h1) hu.2
      · cases h

theorem retract_tw {D} {s s' : State} {l : List TaskId} {o : Out} (hi : TWI D s) (h : s.retract l = .ok (s', o)) :
    TWI D s' := by
  simp only [State.retract] at h
  split at h
  · cases h
  · rename_i s1 pairs hp
    cases h
    exact processRetracted_tw _ _ _ _ _ hi hp

theorem removeTask_tw' {D} {s s' : State} {id : TaskId} {st : TS} (hi : TWI D s) (hn : (taskIds s.tasks).Nodup)
    (hnr : ∀ w v, (id, w, v) ∉ s.redirects) (h : s.removeTask id = .ok (s', st)) : TWI (fun u => D u ∧ u ≠ id) s' := by
  obtain ⟨_, hw, hr, _, hc⟩ := removeTask_spec h
  constructor
  · rw [hw, hr]; exact (hi.tw.erase hn id hnr).congr_tasks hc.stOf
  · rw [hw]; exact (hi.mnu.erase hn id).congr_tasks hc.stOf

theorem removeTask_tw {D} {s s' : State} {id : TaskId} {st : TS} (hi : TWI D s) (hn : (taskIds s.tasks).Nodup)
    (hf : Free s id) (h : s.removeTask id = .ok (s', st)) : TWI (fun u => D u ∧ u ≠ id) s' := by
  obtain ⟨_, hw, hr, _, hc⟩ := removeTask_spec h
  constructor
  · rw [hw, hr]; exact (hi.tw.erase hn id hf.nr).congr_tasks hc.stOf
  · rw [hw]; exact (hi.mnu.erase hn id).congr_tasks hc.stOf

theorem addNewTasks_tw {D} (nts : List NewTask) (s s' : State) (r r' : List TaskId)
    (hi : TWI D s) (h : s.addNewTasks nts r = .ok (s', r')) : TWI D s' := by
  induction nts generalizing s r with
  | nil => simp only [State.addNewTasks] at h; cases h; exact hi
  | cons nt rest ih =>
    simp only [State.addNewTasks] at h
    have hreg := registerDeps_rel nt.deps s.tasks nt.id
    generalize registerDeps s.tasks nt.id nt.deps = reg at h hreg
    obtain ⟨ts, kept, n⟩ := reg
    simp only at h hreg
    split at h
    · cases h
    · have key : ∀ task : Task, NoOb task.state →
          TW3 D (ts ++ [task]) s.workers s.redirects ∧ MNU (ts ++ [task]) s.workers := by
        intro task e2
        exact ⟨(hi.tw.congr_tasks hreg.stOf).append e2, (hi.mnu.congr_tasks hreg.stOf).append e2⟩
      have key1 := fun t e => (key t e).1
      have key2 := fun t e => (key t e).2
      split at h
      · split at h
        · cases h
        · rename_i s2 r2 ha
          have hc := addReady_core ha
          refine ih _ _ ⟨?_, ?_⟩ h
          · simp only [hc.t, hc.w, hc.r]; exact key1 _ (by trivial)
          · simp only [hc.t, hc.w]; exact key2 _ (by trivial)
      · refine ih _ _ ⟨?_, ?_⟩ h
        · exact key1 _ (by trivial)
        · exact key2 _ (by trivial)

theorem newTasks_tw {D} {s s' : State} {nts : List NewTask} {o : Out} (hi : TWI D s) (h : s.newTasks nts = .ok (s', o)) :
    TWI D s' := by
  simp only [State.newTasks] at h
  split at h
  · cases h
  · split at h
    · cases h
    · rename_i s1 retracted h1
      split at h
      · cases h
      · rename_i s2 out h2
        cases h
        exact (CoreEq.ask s2).twi (retract_tw (addNewTasks_tw _ _ _ _ _ hi h1) h2)

/-! ### `on_cancel_tasks` -/

theorem cancelLoop_tw (ids : List TaskId) (s s' : State) (u u' : List TaskId) (r r' : List (Nat × List TaskId))
    (hi : TWI (fun x => x ∈ u) s) (h : s.cancelLoop ids u r = .ok (s', u', r')) : TWI (fun x => x ∈ u') s' := by
  induction ids generalizing s u r with
  | nil => simp only [State.cancelLoop] at h; cases h; exact hi
  | cons id rest ih =>
    simp only [State.cancelLoop, State.task?] at h
    split at h
    · exact ih _ _ _ hi h
    · rename_i task ht
      have hst := stOf_of_find ht
      split at h
      · cases h
      · rename_i cons hcons
        have hsub : ∀ x, (x ∈ u ∨ x = id) → x ∈ unionTids (unionTids u [id]) cons := by
          intro x hx
          apply mem_unionTids.mpr; left
          apply mem_unionTids.mpr
          rcases hx with h1 | h1
          · exact Or.inl h1
          · exact Or.inr (by simp [h1])
        split at h
        · -- waiting
          refine ih _ _ _ ((CoreEq.ask s).twi (hi.mono (fun x hx => hsub x (Or.inl hx)))) h
        · -- assigned
          split at h
          · cases h
          · split at h
            · cases h
            · rename_i s1 hw
              obtain ⟨a, b⟩ := removeSn_tw hi.tw hi.mnu hw
              have e1 : s1.tasks = s.tasks := withWorker_tasks hw
              have hi1 : TWI (fun x => x ∈ u ∨ x = id) s1 := ⟨by rw [e1]; exact a, by rw [e1]; exact b⟩
              exact ih _ _ _ ((CoreEq.ask s1).twi (hi1.mono hsub)) h
        · -- running
          split at h
          · cases h
          · split at h
            · cases h
            · rename_i s1 hw
              obtain ⟨a, b⟩ := removeSn_tw hi.tw hi.mnu hw
              have e1 : s1.tasks = s.tasks := withWorker_tasks hw
              have hi1 : TWI (fun x => x ∈ u ∨ x = id) s1 := ⟨by rw [e1]; exact a, by rw [e1]; exact b⟩
              exact ih _ _ _ ((CoreEq.ask s1).twi (hi1.mono hsub)) h
        · -- multi-node
          rename_i ws hs
          split at h
          · cases h
          · rename_i s1 hr
            obtain ⟨a, b⟩ := resetMnAll_tw ws s s1 hi.tw hi.mnu (by rw [hst, hs]) (fun _ h => h) hr
            have e1 : s1.tasks = s.tasks := resetMnAll_tasks _ _ _ hr
            have hi1 : TWI (fun x => x ∈ u ∨ x = id) s1 := ⟨by rw [e1]; exact a, by rw [e1]; exact b⟩
            split at h
            · cases h
            · exact ih _ _ _ ((CoreEq.ask s1).twi (hi1.mono hsub)) h
        · -- retracting
          rename_i w hs
          split at h
          · cases h
          · rename_i s1 hr
            obtain ⟨a, b⟩ := tryRemoveRedirection_tw hi.tw hi.mnu (by rw [hst, hs]) hr
            have e1 : s1.tasks = s.tasks := tryRemoveRedirection_tasks hr
            have hi1 : TWI (fun x => x ∈ u) s1 := ⟨by rw [e1]; exact a, by rw [e1]; exact b⟩
            exact ih _ _ _ ((CoreEq.ask s1).twi (hi1.mono (fun x hx => hsub x (Or.inl hx)))) h
        · -- prefilled
          split at h
          · cases h
          · rename_i s1 hq
            have hc := removePrefilled_core hq
            have hi0 := hc.twi hi
            split at h
            · cases h
            · rename_i s2 hw
              obtain ⟨a, b⟩ := removePrefill_tw hi0.tw hi0.mnu hw
              have e1 : s2.tasks = s1.tasks := withWorker_tasks hw
              have hi1 : TWI (fun x => x ∈ u ∨ x = id) s2 := ⟨by rw [e1]; exact a, by rw [e1]; exact b⟩
              exact ih _ _ _ (hi1.mono hsub) h
        · cases h

theorem removeTasksBatched_tw {D0 : TaskId → Prop} (ids : List TaskId) (s s' : State)
    (hi : TWI (fun x => x ∈ ids ∨ D0 x) s) (hn : (taskIds s.tasks).Nodup) (hu : ∀ x ∈ ids, Free s x)
    (h : s.removeTasksBatched ids = .ok s') : TWI D0 s' := by
  induction ids generalizing s with
  | nil =>
    simp only [State.removeTasksBatched] at h; cases h
    exact hi.mono (fun x hx => by rcases hx with h1 | h1; cases h1; exact h1)
  | cons t rest ih =>
    simp only [State.removeTasksBatched] at h
    split at h
    · cases h
    · rename_i s1 st h1
      have a := removeTask_tw hi hn (hu t (by simp)) h1
      refine ih _ (a.mono ?_) ((removeTask_sub h1).nodup hn) (fun x hx => removeTask_free (hu x (by simp [hx])) h1) h
      intro x hx
      rcases hx.1 with h2 | h2
      · simp only [List.mem_cons] at h2
        rcases h2 with h3 | h3
        · exact absurd h3 hx.2
        · exact Or.inl h3
      · exact Or.inr h2

theorem cancelTasks_tw {s s' : State} {ids : List TaskId} {o : Out} (hi : TWI noD s) (hinv : Inv s)
    (h : s.cancelTasks ids = .ok (s', o)) : TWI noD s' := by
  simp only [State.cancelTasks] at h
  split at h
  · cases h
  · rename_i s1 unreg running h1
    split at h
    · cases h
    · rename_i s2 h2
      cases h
      obtain ⟨a, b⟩ := cancelLoop_inv _ _ _ _ _ _ _ hinv (fun _ hx => by cases hx) h1
      have c := cancelLoop_tw _ _ _ _ _ _ _ (hi.mono (fun x hx => hx.elim)) h1
      exact removeTasksBatched_tw (D0 := noD) _ _ _ (c.mono (fun x hx => Or.inl hx)) a.nd b h2

end HqModel.Core
