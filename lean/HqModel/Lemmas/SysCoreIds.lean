import HqModel.Lemmas.SysCoreFrame4
/-!
Exact effect of the removing functions of the core on the key set of the task map, and the facts about the lists the
core reports in an `error` callback (the recursive consumers): distinct, all in the map, the failed task not among
them, all of the same job when registered consumers are (`ConsJob`).
-/
namespace HqModel.Core

theorem mem_ids_iff {ts : List Task} {t : TaskId} : t ∈ taskIds ts ↔ (findTask ts t).isSome = true := by
  constructor
  · intro h
    cases hf : findTask ts t with
    | none => exact absurd h (not_mem_of_findTask_none hf)
    | some x => rfl
  · intro h
    cases hf : findTask ts t with
    | none => rw [hf] at h; cases h
    | some x =>
      have := findTask_some_mem hf
      have hid := findTask_some_id hf
      exact List.mem_map.mpr ⟨x, this, hid⟩

theorem mem_ids_of_task? {s : State} {t : TaskId} {task : Task} (h : s.task? t = some task) : t ∈ taskIds s.tasks :=
  mem_ids_iff.mpr (by rw [show findTask s.tasks t = some task from h]; rfl)

theorem mem_ids_eraseTask {ts : List Task} (hn : (taskIds ts).Nodup) (id t : TaskId) :
    t ∈ taskIds (eraseTask ts id) ↔ t ∈ taskIds ts ∧ t ≠ id := by
  rw [mem_ids_iff, mem_ids_iff, findTask_eraseTask hn]
  by_cases h : t = id
  · simp [h]
  · simp [h]

/-! ### `remove_task` and the batch removals -/

theorem removeTask_ids {s s' : State} {id : TaskId} {st : TS} (h : s.removeTask id = .ok (s', st)) :
    taskIds s'.tasks = taskIds (eraseTask s.tasks id) ∧ ∃ task, s.task? id = some task ∧ st = task.state := by
  simp only [State.removeTask] at h
  split at h
  · cases h
  · rename_i task ht
    split at h
    · split at h
      · cases h
      · rename_i s1 hq
        have h1 := queueRemove_tasks hq
        split at h
        · split at h
          · cases h
          · rename_i ts hc
            cases h
            refine ⟨?_, task, ht, rfl⟩
            rw [removeConsumers_ids _ _ _ _ hc, h1]
        · cases h; exact ⟨by rw [h1], task, ht, rfl⟩
    · split at h
      · cases h
      · rename_i s1 hq
        cases h
        exact ⟨by rw [queueRemove_tasks hq], task, ht, rfl⟩
    · cases h; exact ⟨rfl, task, ht, rfl⟩

/-- `remove_task` removes exactly the named key -/
theorem removeTask_exact {s s' : State} {id : TaskId} {st : TS} (hn : (taskIds s.tasks).Nodup)
    (h : s.removeTask id = .ok (s', st)) :
    id ∈ taskIds s.tasks ∧ ∀ t, t ∈ taskIds s'.tasks ↔ t ∈ taskIds s.tasks ∧ t ≠ id := by
  obtain ⟨e, task, ht, _⟩ := removeTask_ids h
  exact ⟨mem_ids_of_task? ht, fun t => by rw [e]; exact mem_ids_eraseTask hn id t⟩

theorem removeTasksBatched_exact (l : List TaskId) (s s' : State) (hn : (taskIds s.tasks).Nodup)
    (h : s.removeTasksBatched l = .ok s') :
    l.Nodup ∧ (∀ t ∈ l, t ∈ taskIds s.tasks) ∧ ∀ t, t ∈ taskIds s'.tasks ↔ t ∈ taskIds s.tasks ∧ t ∉ l := by
  induction l generalizing s with
  | nil => simp only [State.removeTasksBatched] at h; cases h; simp
  | cons x rest ih =>
    simp only [State.removeTasksBatched] at h
    split at h
    · cases h
    · rename_i s1 st h1
      obtain ⟨hx, he⟩ := removeTask_exact hn h1
      have hn1 := (removeTask_sub h1).nodup hn
      obtain ⟨a, b, c⟩ := ih _ hn1 h
      refine ⟨List.nodup_cons.mpr ⟨fun hm => ((he x).mp (b x hm)).2 rfl, a⟩, ?_, ?_⟩
      · intro t ht
        rcases List.mem_cons.mp ht with e | e
        · subst e; exact hx
        · exact ((he t).mp (b t e)).1
      · intro t
        rw [c t, he t]
        simp only [List.mem_cons, not_or]
        constructor
        · rintro ⟨⟨h1, h2⟩, h3⟩; exact ⟨h1, h2, h3⟩
        · rintro ⟨h1, h2, h3⟩; exact ⟨⟨h1, h2⟩, h3⟩

theorem removeWaitingAll_exact (l : List TaskId) (s s' : State) (hn : (taskIds s.tasks).Nodup)
    (h : s.removeWaitingAll l = .ok s') :
    l.Nodup ∧ (∀ t ∈ l, t ∈ taskIds s.tasks) ∧ ∀ t, t ∈ taskIds s'.tasks ↔ t ∈ taskIds s.tasks ∧ t ∉ l := by
  induction l generalizing s with
  | nil => simp only [State.removeWaitingAll] at h; cases h; simp
  | cons x rest ih =>
    simp only [State.removeWaitingAll] at h
    split at h
    · cases h
    · rename_i s1 st h1
      split at h
      · obtain ⟨hx, he⟩ := removeTask_exact hn h1
        have hn1 := (removeTask_sub h1).nodup hn
        obtain ⟨a, b, c⟩ := ih _ hn1 h
        refine ⟨List.nodup_cons.mpr ⟨fun hm => ((he x).mp (b x hm)).2 rfl, a⟩, ?_, ?_⟩
        · intro t ht
          rcases List.mem_cons.mp ht with e | e
          · subst e; exact hx
          · exact ((he t).mp (b t e)).1
        · intro t
          rw [c t, he t]
          simp only [List.mem_cons, not_or]
          constructor
          · rintro ⟨⟨h1, h2⟩, h3⟩; exact ⟨h1, h2, h3⟩
          · rintro ⟨h1, h2, h3⟩; exact ⟨⟨h1, h2⟩, h3⟩
      · cases h

/-! ### registered consumers stay inside the job -/

/-- every registered consumer of a task belongs to the task's job (`build_tasks_graph` only creates dependencies
inside one job) -/
def ConsJob (ts : List Task) : Prop := ∀ task ∈ ts, ∀ c ∈ task.consumers, c.1 = task.id.1

theorem ConsJob.of_tfr {P : Prop} {ts ts' : List Task} (h : ConsJob ts) (f : TFr P ts ts') : ConsJob ts' := by
  intro t' ht' c hc
  obtain ⟨t, ht, r⟩ := f t' ht'
  rw [r.id]
  exact h t ht c (r.cons c hc)

theorem collectConsumers_job (ts : List Task) (hcj : ConsJob ts) (j : Nat) (fuel : Nat) (stack out res : List TaskId)
    (hs : ∀ c ∈ stack, c.1 = j) (ho : ∀ c ∈ out, c.1 = j)
    (h : collectConsumers ts fuel stack out = .ok res) : ∀ c ∈ res, c.1 = j := by
  induction fuel generalizing stack out with
  | zero => simp only [collectConsumers] at h; cases h; exact ho
  | succ n ih =>
    cases stack with
    | nil => simp only [collectConsumers] at h; cases h; exact ho
    | cons t rest =>
      simp only [collectConsumers] at h
      split at h
      · cases h
      · rename_i task ht
        have htj : t.1 = j := hs t (by simp)
        have hnew : ∀ c ∈ task.consumers, c.1 = j := by
          intro c hc
          have := hcj task (findTask_some_mem ht) c hc
          rw [findTask_some_id ht] at this
          exact this.trans htj
        apply ih _ _ _ _ h
        · intro c hc
          rcases List.mem_append.mp hc with e | e
          · exact hs c (by simp [e])
          · exact hnew c (List.mem_filter.mp e).1
        · intro c hc
          rcases List.mem_append.mp hc with e | e
          · exact ho c e
          · exact hnew c (List.mem_filter.mp (List.mem_eraseDups.mp e)).1

theorem recursiveConsumers_job {s : State} {id : TaskId} {task : Task} {cons : List TaskId} (hcj : ConsJob s.tasks)
    (ht : s.task? id = some task) (h : s.recursiveConsumers task = .ok cons) : ∀ c ∈ cons, c.1 = id.1 := by
  simp only [State.recursiveConsumers] at h
  have h0 : ∀ c ∈ task.consumers.eraseDups, c.1 = id.1 := by
    intro c hc
    have := hcj task (findTask_some_mem ht) c (List.mem_eraseDups.mp hc)
    rw [findTask_some_id ht] at this
    exact this
  exact collectConsumers_job _ hcj _ _ _ _ _ h0 h0 h

/-! ### `on_cancel_tasks` -/

/-- one iteration of the loop of `on_cancel_tasks` -/
theorem cancelLoop_cons {s : State} {id : TaskId} {rest u : List TaskId} {r : List (Nat × List TaskId)}
    {res : State × List TaskId × List (Nat × List TaskId)} (h : s.cancelLoop (id :: rest) u r = .ok res) :
    (s.task? id = none ∧ s.cancelLoop rest u r = .ok res) ∨
    ∃ (task : Task) (cons : List TaskId) (s1 : State) (r1 : List (Nat × List TaskId)),
      s.task? id = some task ∧ s.recursiveConsumers task = .ok cons ∧ s1.tasks = s.tasks ∧
      s1.cancelLoop rest (unionTids (unionTids u [id]) cons) r1 = .ok res := by
  simp only [State.cancelLoop] at h
  split at h
  · rename_i hn; exact .inl ⟨hn, h⟩
  · rename_i task ht
    right
    split at h
    · cases h
    · rename_i cons hc
      have sn : ∀ (w rv : Nat), (match s.rq task.rq rv with
          | .error e => (.error e : M (State × List TaskId × List (Nat × List TaskId)))
          | .ok r0 =>
            match s.withWorker w (·.removeSn id r0) with
            | .error e => .error e
            | .ok s1 => State.cancelLoop (ask s1) rest (unionTids (unionTids u [id]) cons) (addTo r w id)) =
            .ok res → ∃ (task : Task) (cons : List TaskId) (s1 : State) (r1 : List (Nat × List TaskId)),
              s.task? id = some task ∧ s.recursiveConsumers task = .ok cons ∧
              s1.tasks = s.tasks ∧ s1.cancelLoop rest (unionTids (unionTids u [id]) cons) r1 = .ok res := by
        intro w rv h
        split at h
        · cases h
        · split at h
          · cases h
          · rename_i s1 hw
            exact ⟨task, cons, ask s1, _, ht, hc, (withWorker_tasks hw : s1.tasks = s.tasks), h⟩
      split at h
      · exact ⟨task, cons, ask s, _, ht, hc, rfl, h⟩
      · exact sn _ _ h
      · exact sn _ _ h
      · split at h
        · cases h
        · rename_i s1 hr
          split at h
          · cases h
          · exact ⟨task, cons, ask s1, _, ht, hc, (resetMnAll_tasks _ _ _ hr : s1.tasks = s.tasks), h⟩
      · split at h
        · cases h
        · rename_i s1 hr
          exact ⟨task, cons, ask s1, _, ht, hc, (tryRemoveRedirection_tasks hr : s1.tasks = s.tasks), h⟩
      · split at h
        · cases h
        · rename_i s1 hr
          split at h
          · cases h
          · rename_i s2 hw
            exact ⟨task, cons, s2, _, ht, hc, (withWorker_tasks hw).trans (removePrefilled_tasks hr), h⟩
      · cases h

/-- the set `to_unregister` of `on_cancel_tasks`: it contains every named id that is in the map, and every id in it
belongs to the job of a named id -/
theorem cancelLoop_unreg (ids : List TaskId) (s s' : State) (u u' : List TaskId)
    (r r' : List (Nat × List TaskId)) (hcj : ConsJob s.tasks)
    (h : s.cancelLoop ids u r = .ok (s', u', r')) :
    (∀ t ∈ u, t ∈ u') ∧ (∀ t ∈ ids, t ∈ taskIds s.tasks → t ∈ u') ∧
    (∀ t ∈ u', t ∈ u ∨ ∃ x ∈ ids, t.1 = x.1) := by
  induction ids generalizing s u r with
  | nil =>
    simp only [State.cancelLoop] at h
    cases h
    exact ⟨fun _ h => h, (fun _ h => nomatch h), fun t h => Or.inl h⟩
  | cons id rest ih =>
    rcases cancelLoop_cons h with ⟨hn, h1⟩ | ⟨task, cons, s1, r1, ht, hc, e1, h1⟩
    · obtain ⟨a, b, c⟩ := ih _ _ _ hcj h1
      refine ⟨a, ?_, ?_⟩
      · intro t ht hm
        rcases List.mem_cons.mp ht with e | e
        · subst e
          have := mem_ids_iff.mp hm
          rw [show findTask s.tasks t = none from hn] at this
          cases this
        · exact b t e hm
      · intro t ht
        rcases c t ht with e | ⟨x, hx, e⟩
        · exact .inl e
        · exact .inr ⟨x, List.mem_cons_of_mem _ hx, e⟩
    · obtain ⟨a, b, c⟩ := ih _ _ _ (by rw [e1]; exact hcj) h1
      have hjob := recursiveConsumers_job hcj ht hc
      refine ⟨?_, ?_, ?_⟩
      · intro t ht
        exact a t (mem_unionTids.mpr (.inl (mem_unionTids.mpr (.inl ht))))
      · intro t ht hm
        rcases List.mem_cons.mp ht with e | e
        · subst e
          exact a t (mem_unionTids.mpr (.inl (mem_unionTids.mpr (.inr (by simp)))))
        · exact b t e (by rw [e1]; exact hm)
      · intro t ht
        rcases c t ht with e | ⟨x, hx, e⟩
        · rcases mem_unionTids.mp e with e1 | e1
          · rcases mem_unionTids.mp e1 with e2 | e2
            · exact .inl e2
            · simp only [List.mem_singleton] at e2
              exact .inr ⟨id, by simp, by rw [e2]⟩
          · exact .inr ⟨id, by simp, hjob t e1⟩
        · exact .inr ⟨x, List.mem_cons_of_mem _ hx, e⟩

/-- **`on_cancel_tasks`**: no callback; every named id is gone from the map; a key that disappears belongs to the job
of a named id -/
theorem cancelTasks_spec {s s' : State} {ids : List TaskId} {o : Out} (hn : (taskIds s.tasks).Nodup)
    (hcj : ConsJob s.tasks) (h : s.cancelTasks ids = .ok (s', o)) :
    o.cbs = [] ∧ (∀ t ∈ ids, t ∉ taskIds s'.tasks) ∧ (∀ t ∈ taskIds s'.tasks, t ∈ taskIds s.tasks) ∧
    (∀ t ∈ taskIds s.tasks, t ∉ taskIds s'.tasks → ∃ x ∈ ids, t.1 = x.1) := by
  simp only [State.cancelTasks] at h
  split at h
  · cases h
  · rename_i s1 unreg running h1
    split at h
    · cases h
    · rename_i s2 h2
      cases h
      have e1 := cancelLoop_tasks _ _ _ _ _ _ _ h1
      obtain ⟨_, b, c⟩ := cancelLoop_unreg _ _ _ _ _ _ _ hcj h1
      obtain ⟨_, _, f⟩ := removeTasksBatched_exact _ _ _ (by rw [e1]; exact hn) h2
      refine ⟨rfl, ?_, ?_, ?_⟩
      · intro t ht hm
        have := (f t).mp hm
        exact this.2 (b t ht (by rw [← e1]; exact this.1))
      · intro t hm
        have := (f t).mp hm
        rw [e1] at this; exact this.1
      · intro t hm hnm
        have : t ∈ unreg := by
          apply Classical.byContradiction
          intro hu
          exact hnm ((f t).mpr ⟨by rw [e1]; exact hm, hu⟩)
        rcases c t this with e | e
        · cases e
        · exact e

end HqModel.Core
