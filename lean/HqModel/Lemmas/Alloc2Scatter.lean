import HqModel.Lemmas.Alloc2Full
/-!
`scatter` on a grouped resource, general case: which groups the whole indices come from, for ANY free state.

The round-robin loop of `claim_scatter_from_groups` is a water-filling: there are a level `k` and a cut position `j`
such that group `p` gives `min(free_p, k)` whole indices, plus one more iff `p < j` and it still has one
(`lvl`). Empty / exhausted groups are skipped, `k` counts the completed rounds. The counts add up to the requested
units, and this determines them uniquely (`lvl_unique`). Corollary: the number of groups used is
`min(units, #groups with a free index)` — the formula of the harness monitor `c16.scatter`.
-/
namespace HqModel.Alloc

def wcount (acc : List AIdx) (p : Nat) : Nat := (acc.filter (fun e => e.fractions == 0 && e.group == p)).length

theorem wcount_append (a b : List AIdx) (p : Nat) : wcount (a ++ b) p = wcount a p + wcount b p := by
  simp [wcount, List.filter_append]

theorem wcount_whole (i g p : Nat) : wcount [⟨i, g, 0⟩] p = if p = g then 1 else 0 := by
  unfold wcount
  by_cases h : p = g
  · subst h; simp
  · have : ¬ g = p := fun h' => h h'.symm
    simp [h, this]

theorem wcount_frac {e : AIdx} (h : e.fractions ≠ 0) (p : Nat) : wcount [e] p = 0 := by
  simp [wcount, h]

theorem wcount_perm {a b : List AIdx} (h : a.Perm b) (p : Nat) : wcount a p = wcount b p := (h.filter _).length_eq

def lvl (f : Nat → Nat) (k j p : Nat) : Nat := min (f p) k + (if p < j ∧ k < f p then 1 else 0)

theorem lvl_step_take {f : Nat → Nat} {k index : Nat} (hk : k < f index) (p : Nat) :
    lvl f k (index + 1) p = lvl f k index p + (if p = index then 1 else 0) := by
  unfold lvl
  by_cases hp : p = index
  · subst hp
    rw [if_pos rfl]
    split <;> split <;> omega
  · rw [if_neg hp]
    split <;> split <;> omega

theorem lvl_step_skip {f : Nat → Nat} {k index : Nat} (hle : f index ≤ k) (p : Nat) :
    lvl f k (index + 1) p = lvl f k index p := by
  unfold lvl
  by_cases hp : p = index
  · subst hp
    split <;> split <;> omega
  · split <;> split <;> omega

theorem lvl_wrap {f : Nat → Nat} {n : Nat} (hf0 : ∀ p, n ≤ p → f p = 0) (k p : Nat) :
    lvl f (k + 1) 0 p = lvl f k n p := by
  unfold lvl
  rcases Nat.lt_or_ge p n with hp | hp
  · split <;> split <;> omega
  · have := hf0 p hp
    split <;> split <;> omega

theorem lvl_mono {f : Nat → Nat} {k j k' j' : Nat} (h : k < k' ∨ (k = k' ∧ j ≤ j')) (p : Nat) :
    lvl f k j p ≤ lvl f k' j' p := by
  unfold lvl
  split <;> split <;> omega

/-! ### sums over `0 … n-1` -/

def sumL (f : Nat → Nat) (k j n : Nat) : Nat := ((List.range n).map (lvl f k j)).sum

theorem sum_range_congr {n : Nat} {g g' : Nat → Nat} (h : ∀ p, p < n → g p = g' p) :
    ((List.range n).map g).sum = ((List.range n).map g').sum := by
  rw [List.map_congr_left (fun p hp => h p (List.mem_range.mp hp))]

theorem sum_range_indicator {n i : Nat} (g : Nat → Nat) (hi : i < n) :
    ((List.range n).map (fun p => g p + if p = i then 1 else 0)).sum = ((List.range n).map g).sum + 1 := by
  induction n with
  | zero => omega
  | succ n ih =>
    simp only [List.range_succ, List.map_append, List.sum_append, List.map_cons, List.map_nil, List.sum_cons,
      List.sum_nil]
    rcases Nat.lt_or_ge i n with h | h
    · have hne : ¬ n = i := by omega
      rw [ih h, if_neg hne]
      omega
    · have hin : i = n := by omega
      subst hin
      have : ((List.range i).map (fun p => g p + if p = i then 1 else 0)).sum = ((List.range i).map g).sum := by
        apply sum_range_congr
        intro p hp
        have : ¬ p = i := by omega
        simp [this]
      rw [this, if_pos rfl]
      omega

theorem sum_indicator (l : List Nat) (P : Nat → Bool) :
    (l.map (fun p => if P p then 1 else 0)).sum = (l.filter P).length := by
  induction l with
  | nil => rfl
  | cons x xs ih =>
    simp only [List.map_cons, List.sum_cons, List.filter_cons, ih]
    split <;> simp <;> omega

theorem filter_length_mono (l : List Nat) {P Q : Nat → Bool} (h : ∀ x ∈ l, P x = true → Q x = true) :
    (l.filter P).length ≤ (l.filter Q).length := by
  induction l with
  | nil => exact Nat.le_refl _
  | cons x xs ih =>
    have ih' := ih (fun y hy => h y (List.mem_cons_of_mem _ hy))
    simp only [List.filter_cons]
    by_cases hp : P x = true
    · rw [if_pos hp, if_pos (h x (by simp) hp)]
      simp only [List.length_cons]
      omega
    · rw [if_neg hp]
      split
      · simp only [List.length_cons]; omega
      · exact ih'

theorem filter_length_congr (l : List Nat) {P Q : Nat → Bool} (h : ∀ x ∈ l, P x = Q x) :
    (l.filter P).length = (l.filter Q).length := by
  rw [List.filter_congr h]

/-! ### the loop -/

/-- **water-filling invariant of the round-robin loop** (`set = None`: the `scatter` policy). `f` = free whole
indices per group at the start; at position `index` of round `k` exactly `lvl f k index p` indices of group `p` have
been taken. -/
theorem scatterLoop_level {pick : Option Nat} (f : Nat → Nat) (n : Nat) (hf0 : ∀ p, n ≤ p → f p = 0) :
    ∀ (fuel : Nat) (gs : List Group) (units fr index : Nat) (acc : List AIdx) (gs' : List Group) (acc' : List AIdx)
      (k : Nat), scatterLoop none pick fuel gs units fr index acc = .ok (gs', acc') →
      gs.length = n → index ≤ n →
      (∀ p, p < n → freeLen gs p = f p - lvl f k index p) →
      (∀ p, wcount acc p = lvl f k index p) →
      ∃ k' j', j' ≤ n ∧ (∀ p, wcount acc' p = lvl f k' j' p) ∧ sumL f k' j' n = sumL f k index n + units := by
  intro fuel
  induction fuel with
  | zero =>
    intro gs units fr index acc gs' acc' k h
    simp [scatterLoop] at h
  | succ fuel ih =>
    intro gs units fr index acc gs' acc' k h hlen hidx hgs hacc
    rcases Nat.eq_zero_or_pos units with hu | hu
    · -- fraction phase: no whole entry is added
      subst hu
      obtain ⟨ws, hw, hwl, hres⟩ := scatterLoop_shape h
      have hws : ws = [] := List.eq_nil_of_length_eq_zero hwl
      subst hws
      refine ⟨k, index, hidx, ?_, by simp⟩
      intro p
      rcases hres with ⟨-, rfl⟩ | ⟨hne, e, he, rfl⟩
      · simpa using hacc p
      · rw [wcount_append, wcount_frac (by rw [he]; exact hne)]
        simpa using hacc p
    · -- units phase
      have hnz : ¬ (units = 0 ∧ fr = 0) := by omega
      simp only [scatterLoop, hnz, if_false, setGet] at h
      cases hg : gs[index]? with
      | none => simp [hg] at h
      | some g =>
        have hilt : index < n := by rw [← hlen]; exact lt_length_of_getElem? hg
        simp only [hg, hu, if_true, setLen] at h
        have hfl : freeLen gs index = g.free.length := by simp [freeLen, hg]
        have hself : lvl f k index index = min (f index) k := by simp [lvl]
        -- the next position: same round, or position 0 of the next round
        have hnext : ∃ k₂ j₂, (index + 1) % gs.length = j₂ ∧ j₂ ≤ n ∧
            ∀ p, lvl f k₂ j₂ p = lvl f k (index + 1) p := by
          rw [hlen]
          rcases Nat.lt_or_ge (index + 1) n with h1 | h1
          · exact ⟨k, index + 1, Nat.mod_eq_of_lt h1, by omega, fun _ => rfl⟩
          · have : index + 1 = n := by omega
            refine ⟨k + 1, 0, by rw [this]; exact Nat.mod_self _, by omega, fun p => ?_⟩
            rw [this]
            exact lvl_wrap hf0 k p
        obtain ⟨k₂, j₂, hj₂, hj₂n, hl₂⟩ := hnext
        rw [hj₂] at h
        cases hfree : g.free with
        | nil =>
          simp only [hfree] at h
          have hle : f index ≤ k := by
            have := hgs index hilt
            rw [hfl, hfree, hself] at this
            simp only [List.length_nil] at this
            omega
          obtain ⟨k', j', r1, r2, r3⟩ := ih gs units fr j₂ acc gs' acc' k₂ h hlen hj₂n
            (fun p hp => by rw [hl₂, lvl_step_skip hle]; exact hgs p hp)
            (fun p => by rw [hl₂, lvl_step_skip hle]; exact hacc p)
          refine ⟨k', j', r1, r2, ?_⟩
          rw [r3]
          congr 1
          exact sum_range_congr (fun p _ => by rw [hl₂, lvl_step_skip hle])
        | cons i rest =>
          simp only [hfree] at h
          have hk : k < f index := by
            have := hgs index hilt
            rw [hfl, hfree, hself] at this
            simp only [List.length_cons] at this
            omega
          obtain ⟨k', j', r1, r2, r3⟩ := ih (gs.set index { g with free := rest }) (units - 1) fr j₂
            (acc ++ [⟨i, index, 0⟩]) gs' acc' k₂ h (by simp [hlen]) hj₂n
            (fun p hp => by
              rw [hl₂, lvl_step_take hk]
              by_cases hpi : p = index
              · subst hpi
                have := hgs p hp
                rw [hfl, hfree] at this
                simp only [List.length_cons] at this
                simp only [freeLen, List.getElem?_set_self (lt_length_of_getElem? hg), Option.map_some,
                  Option.getD_some, if_true]
                omega
              · rw [if_neg hpi, Nat.add_zero]
                have : freeLen (gs.set index { g with free := rest }) p = freeLen gs p := by
                  unfold freeLen
                  rw [List.getElem?_set_ne (fun h' => hpi h'.symm)]
                rw [this]
                exact hgs p hp)
            (fun p => by rw [hl₂, lvl_step_take hk, wcount_append, wcount_whole, hacc p])
          refine ⟨k', j', r1, r2, ?_⟩
          rw [r3]
          have : sumL f k₂ j₂ n = sumL f k index n + 1 := by
            unfold sumL
            rw [← sum_range_indicator (lvl f k index) hilt]
            exact sum_range_congr (fun p _ => by rw [hl₂, lvl_step_take hk])
          omega

theorem lvl_zero (f : Nat → Nat) (p : Nat) : lvl f 0 0 p = 0 := by simp [lvl]

theorem freeLen_ge (gs : List Group) (p : Nat) (h : gs.length ≤ p) : freeLen gs p = 0 := by
  simp [freeLen, List.getElem?_eq_none h]

/-- **`scatter`, general case.** -/
theorem claimScatter_level {amount : Nat} {gs gs' : List Group} {pick : Option Nat} {acc : List AIdx}
    (h : claimScatter amount gs none pick = .ok (gs', acc)) :
    ∃ k j, j ≤ gs.length ∧ (∀ p, wcount acc p = lvl (freeLen gs) k j p) ∧
      sumL (freeLen gs) k j gs.length = amount / FPU := by
  unfold claimScatter at h
  split at h
  · cases h
  · rename_i gs₁ acc₁ hl
    simp only [Except.ok.injEq, Prod.mk.injEq] at h
    obtain ⟨rfl, rfl⟩ := h
    obtain ⟨k, j, hj, hc, hs⟩ := scatterLoop_level (freeLen gs) gs.length (freeLen_ge gs) _ gs _ _ 0 [] gs₁ acc₁ 0 hl
      rfl (Nat.zero_le _) (fun p _ => by rw [lvl_zero]; omega) (fun p => by rw [lvl_zero]; rfl)
    refine ⟨k, j, hj, fun p => ?_, ?_⟩
    · rw [wcount_perm (sortIdx_perm' acc₁)]
      exact hc p
    · rw [hs]
      have : sumL (freeLen gs) 0 0 gs.length = 0 := by
        unfold sumL
        rw [List.map_congr_left (fun p _ => lvl_zero (freeLen gs) p)]
        generalize gs.length = m
        induction m with
        | zero => rfl
        | succ m ih => simp [List.range_succ, ih]
      omega

/-- the counts are determined by the free lengths and the number of units: two (level, cut) pairs with the same total
give the same count for every group -/
theorem lvl_unique {f : Nat → Nat} {n k j k' j' : Nat} (hf0 : ∀ p, n ≤ p → f p = 0)
    (hs : sumL f k j n = sumL f k' j' n) : ∀ p, lvl f k j p = lvl f k' j' p := by
  have key : ∀ {k j k' j' : Nat}, (k < k' ∨ (k = k' ∧ j ≤ j')) → sumL f k j n = sumL f k' j' n →
      ∀ p, lvl f k j p = lvl f k' j' p := by
    intro k j k' j' hord hs p
    rcases Nat.lt_or_ge p n with hp | hp
    · have hpt := (sum_pointwise ((List.range n).map (lvl f k j)) ((List.range n).map (lvl f k' j')) (by simp)
        (fun i x y hx hy => by
          simp only [List.getElem?_map] at hx hy
          cases hr : (List.range n)[i]? with
          | none => simp [hr] at hx
          | some q =>
            simp only [hr, Option.map_some, Option.some.injEq] at hx hy
            subst hx hy
            exact lvl_mono hord q)).2 hs
      have e1 : ((List.range n).map (lvl f k j))[p]? = some (lvl f k j p) := by simp [hp]
      rw [hpt] at e1
      simpa [hp] using e1.symm
    · have := hf0 p hp
      simp [lvl, this]
  intro p
  rcases Nat.lt_trichotomy k k' with h | h | h
  · exact key (.inl h) hs p
  · rcases Nat.le_total j j' with h' | h'
    · exact key (.inr ⟨h, h'⟩) hs p
    · exact (key (.inr ⟨h.symm, h'⟩) hs.symm p).symm
  · exact (key (.inl h) hs.symm p).symm

/-- **the monitor formula**: the number of groups a `scatter` grant takes whole indices from is
`min(units, #groups with a free index)` -/
theorem claimScatter_groups_used {amount : Nat} {gs gs' : List Group} {pick : Option Nat} {acc : List AIdx}
    (h : claimScatter amount gs none pick = .ok (gs', acc)) :
    ((List.range gs.length).filter (fun p => decide (0 < wcount acc p))).length =
      min (amount / FPU) ((List.range gs.length).filter (fun p => decide (0 < freeLen gs p))).length := by
  obtain ⟨k, j, hj, hc, hs⟩ := claimScatter_level h
  have hused : ((List.range gs.length).filter (fun p => decide (0 < wcount acc p))).length =
      ((List.range gs.length).filter (fun p => decide (0 < lvl (freeLen gs) k j p))).length :=
    filter_length_congr _ (fun p _ => by rw [hc p])
  rw [hused, ← hs]
  unfold sumL
  rcases Nat.eq_zero_or_pos k with hk | hk
  · -- first round not completed: one index from each group used
    subst hk
    have hind : ∀ p, lvl (freeLen gs) 0 j p =
        if (decide (p < j) && decide (0 < freeLen gs p)) = true then 1 else 0 := by
      intro p
      unfold lvl
      by_cases hc' : p < j ∧ 0 < freeLen gs p
      · simp [hc']
      · rw [if_neg hc']
        have : ¬ ((decide (p < j) && decide (0 < freeLen gs p)) = true) := by simpa using hc'
        rw [if_neg this]
        omega
    rw [List.map_congr_left (fun p _ => hind p), sum_indicator]
    have h1 : ((List.range gs.length).filter (fun p => decide (0 < lvl (freeLen gs) 0 j p))).length =
        ((List.range gs.length).filter (fun p => decide (p < j) && decide (0 < freeLen gs p))).length := by
      apply filter_length_congr
      intro p _
      rw [hind p]
      by_cases hc' : (decide (p < j) && decide (0 < freeLen gs p)) = true
      · simp [hc']
      · rw [if_neg hc']
        simp only [Bool.not_eq_true] at hc'
        rw [hc']
        simp
    rw [h1]
    have h2 := filter_length_mono (List.range gs.length)
      (P := fun p => decide (p < j) && decide (0 < freeLen gs p)) (Q := fun p => decide (0 < freeLen gs p))
      (fun p _ hp => by simp only [Bool.and_eq_true] at hp; exact hp.2)
    omega
  · -- at least one complete round: every non-empty group is used
    have h1 : ((List.range gs.length).filter (fun p => decide (0 < lvl (freeLen gs) k j p))).length =
        ((List.range gs.length).filter (fun p => decide (0 < freeLen gs p))).length := by
      apply filter_length_congr
      intro p _
      unfold lvl
      by_cases hp : 0 < freeLen gs p
      · have : 0 < min (freeLen gs p) k + (if p < j ∧ k < freeLen gs p then 1 else 0) := by
          have : 0 < min (freeLen gs p) k := by omega
          omega
        simp [hp, this]
      · have h0 : freeLen gs p = 0 := by omega
        simp [h0]
    rw [h1]
    have h2 : ((List.range gs.length).filter (fun p => decide (0 < freeLen gs p))).length ≤
        ((List.range gs.length).map (lvl (freeLen gs) k j)).sum := by
      rw [← sum_indicator]
      apply sum_map_le
      intro p _
      unfold lvl
      by_cases hp : 0 < freeLen gs p
      · simp only [hp, decide_true, if_true]
        have : 0 < min (freeLen gs p) k := by omega
        omega
      · simp [hp]
    omega

end HqModel.Alloc
