import HqModel.Lemmas.SysCoreIds
/-!
What the reactor functions that make callbacks do, in the vocabulary of the coupling invariant:
`task_finished`, `task_failed`, `task_running` — the callback(s) they emit, the exact key set of the task map
afterwards, and the frame (`Fr` / `FrX`).
-/
namespace HqModel.Core

/-! ### callbacks of the silent functions -/

theorem retract_cbs {s s' : State} {l : List TaskId} {o : Out} (h : s.retract l = .ok (s', o)) : o.cbs = [] := by
  simp only [State.retract] at h
  split at h
  · cases h
  · cases h; rfl

theorem newTasks_cbs {s s' : State} {nts : List NewTask} {o : Out} (h : s.newTasks nts = .ok (s', o)) : o.cbs = [] := by
  simp only [State.newTasks] at h
  split at h
  · cases h
  · split at h
    · cases h
    · split at h
      · cases h
      · rename_i s2 out hr
        cases h; exact retract_cbs hr

theorem retractResponse_cbs {s s' : State} {w : Nat} {ids : List TaskId} {o : Out}
    (h : s.retractResponse w ids = .ok (s', o)) : o.cbs = [] := by
  simp only [State.retractResponse] at h
  split at h
  · cases h
  · split at h
    · cases h
    · cases h; rfl

theorem schedule_cbs {s s' : State} {sol : Solution} {o : Out} (h : s.schedule sol = .ok (s', o)) : o.cbs = [] := by
  simp only [State.schedule] at h
  repeat' split at h
  all_goals first
    | (cases h; done)
    | (cases h; rfl)

theorem taskReject_cbs {s s' : State} {w : Nat} {id : TaskId} {rv : Option Nat} {o : Out} {b : Bool}
    (h : s.taskReject w id rv = .ok (s', o, b)) : o.cbs = [] := by
  simp only [State.taskReject] at h
  have hr := @retract_cbs
  repeat' split at h
  all_goals first
    | (cases h; done)
    | (cases h; rfl)
    | (cases h; exact hr (by assumption))

/-! ### `task_finished` -/

/-- the worker-side part of `task_finished` / `task_failed` does not touch the task map -/
theorem taskFinished_spec {s s' : State} {w : Nat} {id : TaskId} {o : Out} {b : Bool}
    (h : s.taskFinished w id = .ok (s', o, b)) :
    (s.task? id = none ∧ s' = s ∧ o.cbs = []) ∨
    (∃ task, s.task? id = some task ∧ o.cbs = [.finished id] ∧
      ((taskIds s.tasks).Nodup → ∀ t, t ∈ taskIds s'.tasks ↔ t ∈ taskIds s.tasks ∧ t ≠ id)) := by
  simp only [State.taskFinished] at h
  split at h
  · rename_i hn; cases h; exact .inl ⟨hn, rfl, rfl⟩
  · rename_i task ht
    right
    split at h
    · cases h
    · rename_i s1 hpre
      have e1 : s1.tasks = s.tasks := by
        clear h
        repeat' split at hpre
        all_goals first
          | (cases hpre; done)
          | exact resetMnChecked_tasks _ _ _ _ hpre
          | exact withWorker_tasks hpre
          | exact tryRemoveRedirection_tasks hpre
      split at h
      · cases h
      · rename_i s3 retracted h3
        have e3 := wakeConsumers_ids _ _ _ _ _ h3
        split at h
        · cases h
        · rename_i s4 out h4
          have e4 : taskIds s4.tasks = taskIds s3.tasks := retract_stable h4
          split at h
          · cases h
          · rename_i s5 st h5
            split at h
            · cases h
            · cases h
              refine ⟨task, ht, ?_, ?_⟩
              · show [Cb.finished id] ++ out.cbs = _
                rw [retract_cbs h4]; rfl
              · intro hn t
                have e : taskIds s4.tasks = taskIds s.tasks := by
                  rw [e4, e3, setTask_ids, e1]
                obtain ⟨_, he⟩ := removeTask_exact (by rw [e]; exact hn) h5
                rw [he t, e]

/-! ### `task_failed` -/

/-- **`task_failed`** for a known task: exactly one `error` callback; the reported consumers are distinct tasks of
the map, of the failed task's job, and do not contain it; the failed task and the consumers leave the map; then the
list returned by the callback is cancelled -/
theorem taskFailed_spec {s s' : State} {worker : Option Nat} {id : TaskId} {ret : List TaskId} {o : Out}
    (hn : (taskIds s.tasks).Nodup) (hcj : ConsJob s.tasks) (h : s.taskFailed worker id ret = .ok (s', o)) :
    (s.task? id = none ∧ s' = s ∧ o.cbs = []) ∨
    (∃ (task : Task) (consumers : List TaskId) (s3 : State), s.task? id = some task ∧ o.cbs = [.error id consumers] ∧
      consumers.Nodup ∧ id ∉ consumers ∧ (∀ c ∈ consumers, c ∈ taskIds s.tasks ∧ c.1 = id.1) ∧
      (∀ t, t ∈ taskIds s3.tasks ↔ t ∈ taskIds s.tasks ∧ t ≠ id ∧ t ∉ consumers) ∧ Frc s s3 ∧
      (taskIds s3.tasks).Nodup ∧
      ((ret.isEmpty = true ∧ s' = s3) ∨ (ret.isEmpty = false ∧ ∃ o2, s3.cancelTasks ret = .ok (s', o2)))) := by
  simp only [State.taskFailed] at h
  split at h
  · rename_i hno; cases h; exact .inl ⟨hno, rfl, rfl⟩
  · rename_i task ht
    right
    split at h
    · cases h
    · rename_i s1 hpre
      have f1 : Frc s s1 := by
        clear h
        repeat' split at hpre
        all_goals first
          | (cases hpre; done)
          | (cases hpre; exact Frc.refl _)
          | exact resetMnAll_frc _ _ _ hpre
          | exact Fr.withWorker (removeSn_wrel _ _) hpre
          | exact tryRemoveRedirection_frc hpre
          | (rename_i hrp; exact (removePrefilled_core hrp).frc.trans (Fr.withWorker (removePrefill_wrel _) hpre))
      have e1 : s1.tasks = s.tasks := by
        clear h
        repeat' split at hpre
        all_goals first
          | (cases hpre; done)
          | (cases hpre; rfl)
          | exact resetMnAll_tasks _ _ _ hpre
          | exact withWorker_tasks hpre
          | exact tryRemoveRedirection_tasks hpre
          | (rename_i hrp; exact (withWorker_tasks hpre).trans (removePrefilled_tasks hrp))
      split at h
      · cases h
      · rename_i consumers hc
        have hjob := recursiveConsumers_job (s := s1) (by rw [e1]; exact hcj) (task?_congr e1 ht) hc
        split at h
        · cases h
        · rename_i s2 h2
          obtain ⟨cnd, cin, cex⟩ := removeWaitingAll_exact _ _ _ (by rw [e1]; exact hn) h2
          have hn2 := (removeWaitingAll_sub _ _ _ h2).nodup (by rw [e1]; exact hn)
          split at h
          · cases h
          · rename_i s3 st h3
            obtain ⟨hid2, hex3⟩ := removeTask_exact hn2 h3
            have f123 : Frc s s3 := (f1.trans (removeWaitingAll_frc _ _ _ h2)).trans (removeTask_frc h3)
            have hnot : id ∉ consumers := fun hm => ((cex id).mp hid2).2 hm
            have hall : ∀ c ∈ consumers, c ∈ taskIds s.tasks ∧ c.1 = id.1 :=
              fun c hcm => ⟨by rw [← e1]; exact cin c hcm, hjob c hcm⟩
            have hids : ∀ t, t ∈ taskIds s3.tasks ↔ t ∈ taskIds s.tasks ∧ t ≠ id ∧ t ∉ consumers := by
              intro t
              rw [hex3 t, cex t, e1]
              constructor
              · rintro ⟨⟨a, b⟩, c⟩; exact ⟨a, c, b⟩
              · rintro ⟨a, c, b⟩; exact ⟨⟨a, b⟩, c⟩
            have hn3 := (removeTask_sub h3).nodup hn2
            have hcj3 := ConsJob.of_tfr hcj f123.t
            clear hpre h2 h3 hc
            repeat' split at h
            all_goals first
              | (cases h; done)
              | (cases h
                 exact ⟨task, consumers, _, ht, rfl, cnd, hnot, hall, hids, f123, hn3, .inl ⟨by assumption, rfl⟩⟩)
              | (cases h
                 have hne : ¬ ret.isEmpty = true := by assumption
                 rename_i out2 hct
                 refine ⟨task, consumers, _, ht, ?_, cnd, hnot, hall, hids, f123, hn3,
                   .inr ⟨by simpa using hne, _, hct⟩⟩
                 show [Cb.error id consumers] ++ _ = _
                 rw [(cancelTasks_spec hn3 hcj3 hct).1]
                 rfl)

end HqModel.Core
