import HqModel.Lemmas.SysWLost
/-!
The remaining server actions in terms of views: `on_cancel_tasks`, `on_new_tasks`, `on_new_worker`, a new resource
request. None of them sends a `ComputeTasks` message.
-/
namespace HqModel.Core
open HqModel HqModel.SysW

theorem cancelTasks_views {c c' : State} {ids : List TaskId} {o : Out} (hn : (taskIds c.tasks).Nodup) (hm' : MnOk c')
    (h : c.cancelTasks ids = .ok (c', o)) :
    (∀ w t, Foreign (view c w t) (cfor w t o.msgs) (view c' w t)) ∧ NoCompute o.msgs := by
  have nc := cancelTasks_noCompute h
  refine ⟨fun w t => ?_, nc⟩
  rw [cfor_noCompute nc]
  exact (cancelTasks_frq h).foreign hn hm' w t (fun e => e) (fun e => e)

/-! ### `on_new_tasks` -/

theorem addNewTasks_desc (nts : List NewTask) (s s' : State) (r r' : List TaskId)
    (h : s.addNewTasks nts r = .ok (s', r')) :
    s'.workers = s.workers ∧
    ∀ t' ∈ s'.tasks, (∃ t ∈ s.tasks, t'.id = t.id ∧ t'.state = t.state) ∨
      (t'.id ∈ nts.map (·.id) ∧ ∃ n, t'.state = .waiting n) := by
  induction nts generalizing s r with
  | nil =>
    simp only [State.addNewTasks] at h
    cases h
    exact ⟨rfl, fun t ht => .inl ⟨t, ht, rfl, rfl⟩⟩
  | cons nt rest ih =>
    simp only [State.addNewTasks] at h
    have hreg := registerDeps_specSys nt.id nt.deps s.tasks
    generalize registerDeps s.tasks nt.id nt.deps = reg at h hreg
    obtain ⟨ts, kept, n⟩ := reg
    simp only at h hreg
    have hst1 : ∀ t' ∈ ts, ∃ t ∈ s.tasks, t'.id = t.id ∧ t'.state = t.state := by
      intro t' ht'
      obtain ⟨t, ht, a, b, _⟩ := hreg t' ht'
      exact ⟨t, ht, a, b⟩
    have tail : ∀ (s2 : State) (r2 : List TaskId), s2.tasks = ts → s2.workers = s.workers →
        State.addNewTasks { s2 with tasks := s2.tasks ++ [mkTask nt n kept] } rest r2 = .ok (s', r') →
        s'.workers = s.workers ∧
        ∀ t' ∈ s'.tasks, (∃ t ∈ s.tasks, t'.id = t.id ∧ t'.state = t.state) ∨
          (t'.id ∈ (nt :: rest).map (·.id) ∧ ∃ n, t'.state = .waiting n) := by
      intro s2 r2 e2 ew h
      obtain ⟨b, d⟩ := ih _ _ h
      refine ⟨b.trans ew, ?_⟩
      intro t' ht'
      rcases d t' ht' with ⟨t, ht, x, y⟩ | ⟨e1, e2'⟩
      · change t ∈ s2.tasks ++ [_] at ht
        rw [e2] at ht
        rcases List.mem_append.mp ht with e | e
        · obtain ⟨t0, ht0, x0, y0⟩ := hst1 t e
          exact .inl ⟨t0, ht0, x.trans x0, y.trans y0⟩
        · simp only [List.mem_singleton] at e
          subst e
          exact .inr ⟨by rw [x]; simp [mkTask], n, y⟩
      · exact .inr ⟨List.mem_cons_of_mem _ e1, e2'⟩
    split at h
    · cases h
    · split at h
      · split at h
        · cases h
        · rename_i s2 r2 ha
          exact tail s2 _ (addReady_tasks ha) (addReady_core ha).w h
      · exact tail { s with tasks := ts } _ rfl rfl h

theorem newTasks_views {c c' : State} {nts : List NewTask} {o : Out} (hn : (taskIds c.tasks).Nodup) (hm' : MnOk c')
    (h : c.newTasks nts = .ok (c', o)) :
    (∀ w t, t ∉ nts.map (·.id) → Foreign (view c w t) [] (view c' w t)) ∧
    (∀ w t, stOf c.tasks t = none → view c' w t = .quiet ∨ view c' w t = .hot) ∧ NoCompute o.msgs ∧
    (∀ t st', stOf c'.tasks t = some st' → stOf c.tasks t ≠ none ∨ t ∈ nts.map (·.id)) := by
  have nc := newTasks_noCompute h
  simp only [State.newTasks] at h
  split at h
  · cases h
  · split at h
    · cases h
    · rename_i s1 retracted h1
      split at h
      · cases h
      · rename_i s2 out hr
        cases h
        have hn1 := addNewTasks_nodup _ _ _ _ _ hn h1
        obtain ⟨ew, hd⟩ := addNewTasks_desc _ _ _ _ _ h1
        have f : Frq s1 (ask s2) := (retract_frq hr).trans (Frq.ask s2)
        -- where a record of the final state comes from
        have back : ∀ t st', stOf (ask s2).tasks t = some st' →
            (∃ st, stOf c.tasks t = some st ∧ SOk (fun x => calm.rel x t) (calm.acq t) st st') ∨
            (t ∈ nts.map (·.id) ∧ owner st' = none) := by
          intro t st' hs'
          obtain ⟨st1, h1', sok⟩ := tfrw_stOf f.t hn1 hs'
          obtain ⟨task1, hf1, rfl⟩ := stOf_some h1'
          rcases hd task1 (findTask_some_mem hf1) with ⟨t0, ht0, a, b⟩ | ⟨a, n, b⟩
          · left
            refine ⟨t0.state, ?_, b ▸ sok⟩
            have := stOf_of_mem hn ht0
            rw [← a, findTask_some_id hf1] at this
            exact this
          · right
            refine ⟨by rw [← findTask_some_id hf1]; exact a, ?_⟩
            cases ho : owner st' with
            | none => rfl
            | some y =>
              have := sok.own (fun e => e) y ho
              rw [b] at this; cases this
        have wk : WKeep calm.sch c (ask s2) := by
          intro x wk wk' hw hw'
          have : s1.worker? x = some wk := by unfold State.worker? at hw ⊢; rw [ew]; exact hw
          exact WKeep.of_frw f x wk wk' this hw'
        refine ⟨fun w t hnot => ?_, fun w t hnone => ?_, nc, fun t st' hs' => ?_⟩
        rotate_right
        · rcases back t st' hs' with ⟨st, a, _⟩ | ⟨a, _⟩
          · exact .inl (by rw [a]; intro e; cases e)
          · exact .inr a
        · refine foreign_of (m := calm) ⟨fun st' hs' => ?_, fun hnone => ?_⟩ wk hm' w (fun e => e) (fun e => e)
          · rcases back t st' hs' with a | ⟨a, _⟩
            · exact a
            · exact (hnot a).elim
          · cases hs' : stOf (ask s2).tasks t with
            | none => rfl
            | some st' =>
              rcases back t st' hs' with ⟨st, a, _⟩ | ⟨a, _⟩
              · rw [hnone] at a; cases a
              · exact (hnot a).elim
        · cases hs' : stOf (ask s2).tasks t with
          | none => exact .inr (view_none hs')
          | some st' =>
            rcases back t st' hs' with ⟨st, a, _⟩ | ⟨_, a⟩
            · rw [hnone] at a; cases a
            · exact .inl (view_quiet_of_owner hs' (by rw [a]; intro e; cases e))

/-! ### `on_new_worker`, a new request -/

theorem findWorker_append_some {ws : List Worker} {x : Nat} {wk : Worker} (h : findWorker ws x = some wk) (l : List Worker) :
    findWorker (ws ++ l) x = some wk := by
  induction ws with
  | nil => cases h
  | cons y ys ih =>
    simp only [findWorker, List.cons_append] at h ⊢
    split
    · rename_i e; rw [if_pos e] at h; exact h
    · rename_i e; rw [if_neg e] at h; exact ih h

theorem findWorker_append_none {ws : List Worker} {x : Nat} (h : findWorker ws x = none) (l : List Worker) :
    findWorker (ws ++ l) x = findWorker l x := by
  induction ws with
  | nil => rfl
  | cons y ys ih =>
    simp only [findWorker, List.cons_append] at h ⊢
    split
    · rename_i e; rw [if_pos e] at h; cases h
    · rename_i e; rw [if_neg e] at h; exact ih h

/-- a new worker with a fresh (single-node) record changes no view -/
theorem newWorker_views {c c' : State} {wk : Worker} {o : Out} (hf : FreshWorker wk)
    (h : c.newWorker wk = .ok (c', o)) : (∀ w t, view c' w t = view c w t) ∧ o.msgs = [] := by
  simp only [State.newWorker] at h
  cases h
  refine ⟨fun w t => ?_, rfl⟩
  have hmn : mnStarted (ask { c with workers := c.workers ++ [wk] }) w t = mnStarted c w t := by
    unfold mnStarted State.worker?
    show (match findWorker (c.workers ++ [wk]) w with | some wk => _ | none => _) = _
    cases hw : findWorker c.workers w with
    | some wk0 => rw [findWorker_append_some hw]
    | none =>
      rw [findWorker_append_none hw]
      simp only [findWorker]
      split
      · rename_i wk1 h1
        split at h1
        · cases h1
          unfold FreshWorker at hf
          rw [hf]
        · cases h1
      · rfl
  rw [view_eq, view_eq]
  show (match stOf c.tasks t with | none => _ | some st => _) = _
  cases stOf c.tasks t with
  | none => rfl
  | some st =>
    cases st with
    | runningMN l => cases l <;> simp [viewSt, hmn]
    | _ => rfl

theorem newRq_views (c : State) (rqv : Rqv) (w : Nat) (t : TaskId) : view (c.newRq rqv) w t = view c w t :=
  view_congr (a := c) (b := c.newRq rqv) rfl w t rfl

end HqModel.Core
