import HqModel.Lemmas.AllocBasic
/-!
Every claim procedure of `pool.rs` is a composition of the primitive steps (`Claims`), whatever the policy, the group
set and the fraction pick are. Consequently (`Claims.inv`) each of them preserves the pool invariant.
-/
namespace HqModel.Alloc

theorem set_set_same {α} (l : List α) (i : Nat) (a b : α) : (l.set i a).set i b = l.set i b := by
  simp

theorem set_self_of_get {α} {l : List α} {i : Nat} {x : α} (h : l[i]? = some x) : l.set i x = l := by
  apply List.ext_getElem?
  intro j
  by_cases hj : i = j
  · subst hj
    rw [List.getElem?_set_self (lt_length_of_getElem? h), h]
  · rw [List.getElem?_set_ne hj]

theorem get_set_same {α} {l : List α} {i : Nat} {x : α} (a : α) (h : l[i]? = some x) : (l.set i a)[i]? = some a := by
  simp [lt_length_of_getElem? h]

theorem takeIndices_claims {gid n : Nat} {g g' : Group} {acc acc' : List AIdx} {gs : List Group}
    (h : takeIndices gid n g acc = .ok (g', acc')) (hg : gs[gid]? = some g) :
    Claims gs acc (gs.set gid g') acc' ∧ g'.fracs = g.fracs := by
  induction n generalizing g acc gs with
  | zero =>
    simp only [takeIndices, Except.ok.injEq, Prod.mk.injEq] at h
    obtain ⟨rfl, rfl⟩ := h
    rw [set_self_of_get hg]
    exact ⟨.refl, rfl⟩
  | succ n ih =>
    simp only [takeIndices] at h
    split at h
    · cases h
    · rename_i i rest hfree
      have hp : Prim gs acc (gs.set gid { g with free := rest }) (acc ++ [⟨i, gid, 0⟩]) := .whole hg hfree
      have := ih h (get_set_same _ hg)
      rw [set_set_same] at this
      exact ⟨.step hp this.1, this.2⟩

theorem takeFracOrSplit_claims {gid fr : Nat} {pick : Option Nat} {g g' : Group} {acc acc' : List AIdx}
    {gs : List Group} (h : takeFracOrSplit gid fr pick g acc = .ok (g', acc')) (hg : gs[gid]? = some g)
    (hfr : fr < FPU) : Claims gs acc (gs.set gid g') acc' := by
  unfold takeFracOrSplit at h
  split at h
  · simp only [Except.ok.injEq, Prod.mk.injEq] at h
    obtain ⟨rfl, rfl⟩ := h
    rw [set_self_of_get hg]
    exact .refl
  · rename_i hne
    split at h
    · cases h
    · rename_i i f hb
      simp only [Except.ok.injEq, Prod.mk.injEq] at h
      obtain ⟨rfl, rfl⟩ := h
      obtain ⟨hget, hle⟩ := bestMatch_some hb
      exact .single (.frac hg hget hle (by omega))
    · split at h
      · cases h
      · rename_i i rest hfree
        simp only [Except.ok.injEq, Prod.mk.injEq] at h
        obtain ⟨rfl, rfl⟩ := h
        exact .single (.split hg hfree (by omega) hfr)

theorem tryTakeFrac_claims {gid fr : Nat} {pick : Option Nat} {g g' : Group} {acc acc' : List AIdx} {b : Bool}
    {gs : List Group} (h : tryTakeFrac gid fr pick g acc = .ok (g', acc', b)) (hg : gs[gid]? = some g) :
    Claims gs acc (gs.set gid g') acc' := by
  unfold tryTakeFrac at h
  split at h
  · simp only [Except.ok.injEq, Prod.mk.injEq] at h
    obtain ⟨rfl, rfl, -⟩ := h
    rw [set_self_of_get hg]
    exact .refl
  · split at h
    · cases h
    · rename_i i f hb
      simp only [Except.ok.injEq, Prod.mk.injEq] at h
      obtain ⟨rfl, rfl, -⟩ := h
      obtain ⟨hget, hle⟩ := bestMatch_some hb
      exact .single (.frac hg hget hle (by omega))
    · simp only [Except.ok.injEq, Prod.mk.injEq] at h
      obtain ⟨rfl, rfl, -⟩ := h
      rw [set_self_of_get hg]
      exact .refl

/-! ### scatter -/

theorem scatterLoop_claims {set : Option (List Nat)} {pick : Option Nat} {fuel : Nat} {gs gs' : List Group}
    {units fr index : Nat} {acc acc' : List AIdx}
    (h : scatterLoop set pick fuel gs units fr index acc = .ok (gs', acc')) (hfr : fr < FPU) :
    Claims gs acc gs' acc' := by
  induction fuel generalizing gs units fr index acc with
  | zero => simp [scatterLoop] at h
  | succ fuel ih =>
    simp only [scatterLoop] at h
    split at h
    · simp only [Except.ok.injEq, Prod.mk.injEq] at h
      obtain ⟨rfl, rfl⟩ := h
      exact .refl
    · split at h
      · cases h
      · rename_i gidx _
        split at h
        · cases h
        · rename_i g hg
          split at h
          · split at h
            · rename_i i rest hfree
              exact .step (.whole hg hfree) (ih h hfr)
            · exact ih h hfr
          · split at h
            · cases h
            · rename_i i f hb
              obtain ⟨hget, hle⟩ := bestMatch_some hb
              have hpos : 0 < fr := by
                rename_i hnz hu
                omega
              exact .step (.frac hg hget hle hpos) (ih h FPU_pos)
            · split at h
              · rename_i i rest hfree
                have hpos : 0 < fr := by
                  rename_i hnz hu _
                  omega
                exact .step (.split hg hfree hpos hfr) (ih h FPU_pos)
              · exact ih h hfr

theorem insertIdx_perm (x : AIdx) (l : List AIdx) : (insertIdx x l).Perm (x :: l) := by
  induction l with
  | nil => exact .refl _
  | cons y ys ih =>
    simp only [insertIdx]
    split
    · exact .refl _
    · exact (List.Perm.cons y ih).trans (List.Perm.swap x y ys)

theorem sortIdx_perm (l : List AIdx) : (sortIdx l).Perm l := by
  induction l with
  | nil => exact .refl _
  | cons x xs ih =>
    show (insertIdx x (sortIdx xs)).Perm (x :: xs)
    exact (insertIdx_perm x _).trans (List.Perm.cons x ih)

theorem claimScatter_claims {amount : Nat} {gs gs' : List Group} {set : Option (List Nat)} {pick : Option Nat}
    {acc' : List AIdx} (h : claimScatter amount gs set pick = .ok (gs', acc')) : Claims gs [] gs' acc' := by
  unfold claimScatter at h
  split at h
  · cases h
  · rename_i gs₁ acc₁ hl
    simp only [Except.ok.injEq, Prod.mk.injEq] at h
    obtain ⟨rfl, rfl⟩ := h
    exact (scatterLoop_claims hl (Nat.mod_lt _ FPU_pos)).permLast (sortIdx_perm _).symm

/-! ### tight -/

theorem swapToLast_perm (acc : List AIdx) (k : Nat) : (swapToLast acc k).Perm acc := by
  unfold swapToLast
  split
  · exact .refl _
  · rename_i f post hd
    split
    · exact .refl _
    · rename_i l rpost hr
      have hpost : post = rpost.reverse ++ [l] := by
        have := congrArg List.reverse hr
        simpa using this
      have hacc : acc = acc.take k ++ f :: post := by rw [← hd, List.take_append_drop]
      conv => rhs; rw [hacc, hpost]
      apply List.Perm.append_left
      -- l :: (rpost.reverse ++ [f])  ~  f :: (rpost.reverse ++ [l])
      have h1 : (l :: (rpost.reverse ++ [f])).Perm (l :: f :: rpost.reverse) :=
        List.Perm.cons l (List.perm_append_comm)
      have h2 : (f :: (rpost.reverse ++ [l])).Perm (f :: l :: rpost.reverse) :=
        List.Perm.cons f (List.perm_append_comm)
      exact h1.trans ((List.Perm.swap f l _).trans h2.symm)

theorem tightLoop_claims {set : Option (List Nat)} {pick : Option Nat} {fuel : Nat} {gs gs' : List Group}
    {amounts : List Nat} {remaining : Nat} {acc acc' : List AIdx} {fidx fidx' : Option Nat}
    (h : tightLoop set pick fuel gs amounts remaining acc fidx = .ok (gs', acc', fidx')) :
    Claims gs acc gs' acc' := by
  induction fuel generalizing gs amounts remaining acc fidx with
  | zero => simp [tightLoop] at h
  | succ fuel ih =>
    simp only [tightLoop] at h
    split at h
    · rename_i gidx _ _
      split at h
      · cases h
      · rename_i g hg
        split at h
        · cases h
        · rename_i g1 acc1 h1
          split at h
          · cases h
          · rename_i g2 acc2 h2
            simp only [Except.ok.injEq, Prod.mk.injEq] at h
            obtain ⟨rfl, rfl, -⟩ := h
            obtain ⟨c1, -⟩ := takeIndices_claims h1 hg
            have c2 := takeFracOrSplit_claims h2 (get_set_same g1 hg) (Nat.mod_lt _ FPU_pos)
            rw [set_set_same] at c2
            exact c1.trans c2
    · split at h
      · cases h
      · rename_i gidx _ _
        split at h
        · cases h
        · rename_i g hg
          split at h
          · cases h
          · split at h
            · cases h
            · rename_i g1 acc1 h1
              obtain ⟨c1, -⟩ := takeIndices_claims h1 hg
              split at h
              · cases h
              · rename_i g2 acc2 h2
                have c2 := tryTakeFrac_claims h2 (get_set_same g1 hg)
                rw [set_set_same] at c2
                exact (c1.trans c2).trans (ih h)
              · rename_i g2 acc2 h2
                have c2 := tryTakeFrac_claims h2 (get_set_same g1 hg)
                rw [set_set_same] at c2
                exact (c1.trans c2).trans (ih h)

theorem claimTight_claims {amount : Nat} {gs gs' : List Group} {set : Option (List Nat)} {pick : Option Nat}
    {acc' : List AIdx} (h : claimTight amount gs set pick = .ok (gs', acc')) : Claims gs [] gs' acc' := by
  unfold claimTight at h
  split at h
  · cases h
  · rename_i gs₁ acc₁ hl
    simp only [Except.ok.injEq, Prod.mk.injEq] at h
    obtain ⟨rfl, rfl⟩ := h
    exact tightLoop_claims hl
  · rename_i gs₁ acc₁ k hl
    simp only [Except.ok.injEq, Prod.mk.injEq] at h
    obtain ⟨rfl, rfl⟩ := h
    exact (tightLoop_claims hl).permLast (swapToLast_perm _ _).symm

/-! ### all -/

/-- popping every free index of group `gid` -/
theorem popAll_claims (gs : List Group) (gid : Nat) (g : Group) (acc : List AIdx) (hg : gs[gid]? = some g) :
    Claims gs acc (gs.set gid { g with free := [] }) (acc ++ g.free.map (fun i => ⟨i, gid, 0⟩)) := by
  obtain ⟨free, fracs⟩ := g
  induction free generalizing gs acc with
  | nil =>
    simp only [List.map_nil, List.append_nil]
    rw [set_self_of_get hg]
    exact .refl
  | cons i rest ih =>
    have hp : Prim gs acc (gs.set gid ⟨rest, fracs⟩) (acc ++ [⟨i, gid, 0⟩]) := .whole (g := ⟨i :: rest, fracs⟩) hg rfl
    have := ih (gs.set gid ⟨rest, fracs⟩) (acc ++ [⟨i, gid, 0⟩]) (get_set_same _ hg)
    rw [set_set_same] at this
    simp only [List.map_cons]
    have e : acc ++ (⟨i, gid, 0⟩ :: rest.map (fun i => (⟨i, gid, 0⟩ : AIdx))) =
        acc ++ [⟨i, gid, 0⟩] ++ rest.map (fun i => (⟨i, gid, 0⟩ : AIdx)) := by simp
    rw [e]
    exact .step hp this

theorem claimAllAux_claims (pre gs : List Group) (acc : List AIdx) :
    Claims (pre ++ gs) acc (pre ++ (claimAllAux pre.length gs).1) (acc ++ (claimAllAux pre.length gs).2) := by
  induction gs generalizing pre acc with
  | nil => simp [claimAllAux]; exact .refl
  | cons g rest ih =>
    simp only [claimAllAux]
    have hg : (pre ++ g :: rest)[pre.length]? = some g := by simp
    have c1 := popAll_claims (pre ++ g :: rest) pre.length g acc hg
    have hset : (pre ++ g :: rest).set pre.length { g with free := [] } =
        (pre ++ [{ g with free := [] }]) ++ rest := by simp
    rw [hset] at c1
    have c2 := ih (pre ++ [{ g with free := [] }])
      (acc ++ g.free.reverse.map (fun i => (⟨i, pre.length, 0⟩ : AIdx)))
    simp only [List.length_append, List.length_cons, List.length_nil, Nat.zero_add] at c2
    have p : (acc ++ g.free.map (fun i => (⟨i, pre.length, 0⟩ : AIdx))).Perm
        (acc ++ g.free.reverse.map (fun i => (⟨i, pre.length, 0⟩ : AIdx))) :=
      List.Perm.append_left _ ((List.reverse_perm _).symm.map _)
    have c := (c1.permLast p).trans c2
    simpa [List.append_assoc] using c

end HqModel.Alloc
