import HqModel.Lemmas.CoreNoPanicReactP2
/-!
C09 progress, part 3 of the reactor: **`task_finished`**.

`taskFinished_eq` splits the function into the worker side `finPre` and the rest `finTail`; `finPre_ok`
(succeeds, with what the rest needs of the state reached), `finTail_ok`, **`taskFinished_ok`**.
-/
namespace HqModel.Core.NPR

open HqModel.Core.NP

/-- the worker side of `task_finished` -/
def finPre (s : State) (w : Nat) (id : TaskId) (task : Task) : M State :=
  match task.state with
  | .assigned w' rv | .running w' rv =>
    if w' ≠ w then .error (.panic "task_finished.assert_worker") else
    match s.rq task.rq rv with
    | .error e => .error e
    | .ok r => s.withWorker w (·.removeSn id r)
  | .runningMN ws =>
    match ws with
    | root :: _ => if root ≠ w then .error (.panic "task_finished.assert_root") else resetMnChecked s id ws
    | [] => .error (.panic "task_finished.ws0")
  | .retracting w' =>
    if w' ≠ w then .error (.panic "task_finished.assert_worker") else s.tryRemoveRedirection id task.rq
  | .prefilled .. | .waiting .. | .finished => .error (.panic "task_finished.unreachable")

/-- `task_finished` after the worker side -/
def finTail (s1 : State) (id : TaskId) (task : Task) : M (State × Out × Bool) :=
  let s2 := s1.setTask { task with state := .finished }
  match s2.wakeConsumers task.consumers [] with
  | .error e => .error e
  | .ok (s3, retracted) =>
    match s3.retract retracted with
    | .error e => .error e
    | .ok (s4, out) =>
      match s4.removeTask id with
      | .error e => .error e
      | .ok (s5, st) =>
        if st ≠ .finished then .error (.panic "task_finished.assert_finished") else
        .ok (s5, ({ cbs := [.finished id] } : Out).add out, true)

theorem taskFinished_eq (s : State) (w : Nat) (id : TaskId) :
    s.taskFinished w id =
      match s.task? id with
      | none => .ok (s, {}, false)
      | some task =>
        match finPre s w id task with
        | .error e => .error e
        | .ok s1 => finTail s1 id task := rfl

section
variable {U : List TaskId} {s : State}

/-- the states `UpdNP` allows for a Finished message -/
def FinState (w : Nat) (st : TS) : Prop := (∃ v, st = .running w v) ∨ ∃ ws, st = .runningMN (w :: ws)

theorem updNP_fin_elim {w : Nat} {id : TaskId} {task : Task} (hp : UpdNP s w (.finished id))
    (ht : s.task? id = some task) : FinState w task.state := by
  have h := hp.2
  simp only [ht] at h
  cases hs : task.state with
  | running w' v => rw [hs] at h; simp only at h; subst h; exact Or.inl ⟨v, rfl⟩
  | runningMN ws =>
    rw [hs] at h
    cases ws with
    | nil => simp at h
    | cons root rest =>
      simp only [List.head?_cons, Option.some.injEq] at h
      subst h; exact Or.inr ⟨rest, rfl⟩
  | _ => rw [hs] at h; exact h.elim

/-- what the rest of `task_finished` / `task_reject` needs of the state after the worker side -/
structure AfterPre (s s1 : State) (id : TaskId) : Prop where
  t : s1.tasks = s.tasks
  q : s1.queues = s.queues
  tw : TWI (fun u => u = id) s1
  nq : NpQ noD [] s1
  nr : ∀ x v, (id, x, v) ∉ s1.redirects

theorem twi_of_detach {s1 : State} {id : TaskId} (e : s1.tasks = s.tasks)
    (a : TW3 (fun u => noD u ∨ u = id) s.tasks s1.workers s1.redirects) (b : MNU s.tasks s1.workers) :
    TWI (fun u => u = id) s1 :=
  ⟨by rw [e]; exact a.mono (fun u hu => by rcases hu with h1 | h1; exact h1.elim; exact h1), by rw [e]; exact b⟩

/-- `remove_sn_task` for a task Assigned to / Running on `w` -/
theorem detachSn_ok {w v : Nat} {id : TaskId} {task : Task} (hb : Bd U noD [] s) (ht : s.task? id = some task)
    (hs : task.state = .assigned w v ∨ task.state = .running w v) :
    ∃ r s1, s.rq task.rq v = .ok r ∧ s.withWorker w (·.removeSn id r) = .ok s1 ∧ AfterPre s s1 id := by
  have hst := stOf_of_find (show findTask s.tasks id = some task from ht)
  obtain ⟨r, wk, A, F, P, hr, hfw, ha, hm, hidx⟩ := held_removable hb.tw hb.idx hb.w ht (fun e => e)
    (show HeldT s.redirects task w v from by rcases hs with h | h; exact Or.inl h; exact Or.inr (Or.inl h))
  obtain ⟨F', hrem, _⟩ := removeSn_ok (wk := wk) (t := id) (r := r) ha hm hidx
  have hww := withWorker_ok (f := fun x => x.removeSn id r) hfw hrem
  refine ⟨r, _, hr, hww, rfl, rfl, ?_, NPC.withWorker_npq hb.nq hww, ?_⟩
  · obtain ⟨a, b⟩ := removeSn_tw hb.tw.tw hb.tw.mnu hww
    exact twi_of_detach rfl a b
  · exact hb.tw.tw.no_rd_of_state hst (by rcases hs with h | h <;> simp [h])

/-- `reset_mn_task_workers` for a RunningMultiNode task -/
theorem detachMn_ok {ws : List Nat} {id : TaskId} {task : Task} (hb : Bd U noD [] s) (ht : s.task? id = some task)
    (hs : task.state = .runningMN ws) :
    ∃ s1, resetMnChecked s id ws = .ok s1 ∧ AfterPre s s1 id := by
  have hst := stOf_of_find (show findTask s.tasks id = some task from ht)
  have hmem : task ∈ s.tasks := findTask_some_mem ht
  obtain ⟨s1, h1⟩ := resetMnChecked_ok id ws s (hb.mn.ne task hmem ws hs).2 (mn_workers_of hb.tw ht (fun e => e) hs)
  refine ⟨s1, h1, resetMnChecked_tasks _ _ _ _ h1, resetMnChecked_queues _ _ _ _ h1, ?_,
    NPC.resetMnChecked_npq hb.nq h1, ?_⟩
  · obtain ⟨a, b⟩ := resetMnChecked_tw _ s s1 hb.tw.tw hb.tw.mnu (by rw [hst, hs]) (fun _ h => h) h1
    exact twi_of_detach (resetMnChecked_tasks _ _ _ _ h1) a b
  · rw [NPC.resetMnChecked_redirects _ _ _ _ h1]
    exact hb.tw.tw.no_rd_of_state hst (by simp [hs])

theorem finPre_ok {w : Nat} {id : TaskId} {task : Task} (hb : Bd U noD [] s) (ht : s.task? id = some task)
    (hf : FinState w task.state) : ∃ s1, finPre s w id task = .ok s1 ∧ AfterPre s s1 id := by
  unfold finPre
  rcases hf with ⟨v, hs⟩ | ⟨ws, hs⟩
  · obtain ⟨r, s1, hr, hww, ha⟩ := detachSn_ok hb ht (Or.inr hs)
    rw [hs]
    simp only [ne_eq, not_true_eq_false, if_false, hr, hww]
    exact ⟨s1, rfl, ha⟩
  · obtain ⟨s1, h1, ha⟩ := detachMn_ok hb ht hs
    rw [hs]
    simp only [ne_eq, not_true_eq_false, if_false, h1]
    exact ⟨s1, rfl, ha⟩

theorem removeTask_finished {s4 : State} {id : TaskId} {t : Task} (ht : s4.task? id = some t)
    (hs : t.state = .finished) : ∃ s5, s4.removeTask id = .ok (s5, .finished) := by
  simp only [State.removeTask, ht, hs]
  exact ⟨_, rfl⟩

theorem finTail_ok {s1 : State} {w : Nat} {id : TaskId} {task : Task} (hb : Bd U noD [] s)
    (ht : s.task? id = some task) (hf : FinState w task.state) (ha : AfterPre s s1 id) :
    ∃ r, finTail s1 id task = .ok r := by
  have hmem : task ∈ s.tasks := findTask_some_mem ht
  have hid : task.id = id := findTask_some_id ht
  have hsl : slack task.state = 0 := by rcases hf with ⟨v, h⟩ | ⟨ws, h⟩ <;> rw [h] <;> rfl
  have hnw : ∀ n, task.state ≠ .waiting n := by rcases hf with ⟨v, h⟩ | ⟨ws, h⟩ <;> simp [h]
  have hnr : ∀ w0, task.state ≠ .retracting w0 := by rcases hf with ⟨v, h⟩ | ⟨ws, h⟩ <;> simp [h]
  have hnp : ∀ w0, task.state ≠ .prefilled w0 := by rcases hf with ⟨v, h⟩ | ⟨ws, h⟩ <;> simp [h]
  have ht1 : s1.task? task.id = some task := by rw [hid, NPC.task?_congr ha.t]; exact ht
  have ht1' : findTask s1.tasks ({ task with state := .finished } : Task).id = some task := ht1
  -- the state with the record set to Finished
  have hi2 : TWI noD (s1.setTask { task with state := .finished }) := by
    constructor
    · refine (ha.tw.tw.put_noob ht1' trivial (fun _ _ _ _ h => h)
        (fun x v hm => absurd hm (by simpa [hid] using ha.nr x v))).mono ?_
      intro u hu
      exact hu.2 (by simpa [hid] using hu.1)
    · exact ha.tw.mnu.put_nonmn ht1' (by simp)
  have a2 : NpQ noD [] (s1.setTask { task with state := .finished }) :=
    NPC.setTask_npq_unq (t' := { task with state := .finished }) ha.nq ht1 rfl rfl
      (NPC.not_rstate (hnw 0) hnr hnp) hnp (by intro w e; cases e)
  have hq2 : QInv U (some id) task.consumers (s1.setTask { task with state := .finished }) := by
    show QInv4 U (some id) task.consumers (putTask s1.tasks _) s1.queues
    rw [ha.t, ha.q]
    exact QInv4.finish hb.q ht hsl
  have hin2 : ∀ c ∈ task.consumers, ((s1.setTask { task with state := .finished }).task? c).isSome = true := by
    intro c hc
    apply isSome_findTask_putTask
    rw [ha.t]
    exact hb.deps.cin task hmem c hc
  have hrq2 : ∀ t ∈ (s1.setTask { task with state := .finished }).tasks,
      t.rq < (s1.setTask { task with state := .finished }).queues.length := by
    intro t hx
    show t.rq < s1.queues.length
    rw [ha.q, hb.idx.ql]
    rcases mem_putTask hx with e | e
    · subst e; exact hb.idx.rq task hmem
    · rw [ha.t] at e; exact hb.idx.rq t e
  obtain ⟨⟨s3, retracted⟩, h3⟩ := wakeConsumers_ok task.consumers _ [] hq2 (hb.q.cnd task hmem) hin2 hrq2
  have hi3 := wakeConsumers_tw _ _ _ _ _ hi2 h3
  have a3 := NPC.wakeConsumers_npq _ _ _ _ _ a2 h3
  obtain ⟨⟨s4, out⟩, h4⟩ := retract_ok a3.rnd (retrReady_of hi3 a3 (fun _ _ h => h))
  have k2 : (s1.setTask { task with state := .finished }).task? id = some { task with state := .finished } := by
    rw [← hid]; exact NPC.task?_setTask_self (t' := { task with state := .finished }) ht1
  have k3 := wakeConsumers_keeps_finished _ _ _ _ _ id _ h3 k2 rfl
  have k4 := retract_keeps h4 k3 (by intro w e; cases e)
  obtain ⟨s5, h5⟩ := removeTask_finished k4 rfl
  simp only [finTail, h3, h4, h5]
  exact ⟨_, rfl⟩

/-- **`task_finished` does not panic** -/
theorem taskFinished_ok {w : Nat} {id : TaskId} (hb : Bd U noD [] s) (hp : UpdNP s w (.finished id)) :
    ∃ r, s.taskFinished w id = .ok r := by
  rw [taskFinished_eq]
  cases ht : s.task? id with
  | none => exact ⟨_, rfl⟩
  | some task =>
    have hf := updNP_fin_elim hp ht
    obtain ⟨s1, h1, ha⟩ := finPre_ok hb ht hf
    simp only [h1]
    exact finTail_ok hb ht hf ha

end

end HqModel.Core.NPR
