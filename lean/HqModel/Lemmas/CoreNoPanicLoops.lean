import HqModel.Lemmas.CoreNoPanicRunning
/-!
C09 progress, part 5: decomposition of the reactor loops into "first element, then the rest" (so that the
whole-loop preservation lemmas give the invariant after ONE iteration), and `on_retract_response`.
-/
namespace HqModel.Core

namespace NP

theorem cancelLoop_cons (s : State) (id : TaskId) (rest u : List TaskId) (r : List (Nat × List TaskId)) :
    s.cancelLoop (id :: rest) u r =
      match s.cancelLoop [id] u r with
      | .error e => .error e
      | .ok (s1, u1, r1) => s1.cancelLoop rest u1 r1 := by
  simp only [State.cancelLoop]
  repeat' split
  all_goals first | rfl | simp_all

theorem removeTasksBatched_cons (s : State) (t : TaskId) (rest : List TaskId) :
    s.removeTasksBatched (t :: rest) =
      match s.removeTasksBatched [t] with
      | .error e => .error e
      | .ok s1 => s1.removeTasksBatched rest := by
  simp only [State.removeTasksBatched]
  repeat' split
  all_goals first | rfl | simp_all

theorem removeWaitingAll_cons (s : State) (t : TaskId) (rest : List TaskId) :
    s.removeWaitingAll (t :: rest) =
      match s.removeWaitingAll [t] with
      | .error e => .error e
      | .ok s1 => s1.removeWaitingAll rest := by
  simp only [State.removeWaitingAll]
  repeat' split
  all_goals first | rfl | simp_all

theorem lostPrefilled_cons (s : State) (t : TaskId) (rest : List TaskId) :
    s.lostPrefilled (t :: rest) =
      match s.lostPrefilled [t] with
      | .error e => .error e
      | .ok s1 => s1.lostPrefilled rest := by
  simp only [State.lostPrefilled]
  repeat' split
  all_goals first | rfl | simp_all

theorem lostAssigned_cons (s : State) (t : TaskId) (rest running retracted : List TaskId) :
    s.lostAssigned (t :: rest) running retracted =
      match s.lostAssigned [t] running retracted with
      | .error e => .error e
      | .ok (s1, run1, ret1) => s1.lostAssigned rest run1 ret1 := by
  simp only [State.lostAssigned]
  repeat' split
  all_goals first | rfl | simp_all

theorem addNewTasks_cons (s : State) (nt : NewTask) (rest : List NewTask) (retracted : List TaskId) :
    s.addNewTasks (nt :: rest) retracted =
      match s.addNewTasks [nt] retracted with
      | .error e => .error e
      | .ok (s1, r1) => s1.addNewTasks rest r1 := by
  simp only [State.addNewTasks]
  repeat' split
  all_goals first | rfl | simp_all

theorem crashLoop_cons (s : State) (f : Bool) (id : TaskId) (rest : List TaskId) (rets : List (List TaskId)) (out : Out) :
    s.crashLoop f (id :: rest) rets out =
      match s.crashLoop f [id] rets out with
      | .error e => .error e
      | .ok (s1, out1) =>
        s1.crashLoop f rest
          (if (match s.task? id with
               | some task => (crashOutcome task.crashLimit f task.crashes).2
               | none => false) then rets.tail else rets) out1 := by
  simp only [State.crashLoop]
  repeat' split
  all_goals first | rfl | simp_all

theorem placeAll_cons (s : State) (m : List WUpdate) (v : Nat) (r : Rq) (id : TaskId) (w : Nat) (rest : List (TaskId × Nat)) :
    s.placeAll m v r ((id, w) :: rest) =
      match s.placeSn m v r id w with
      | .error e => .error e
      | .ok (s1, m1) => s1.placeAll m1 v r rest := rfl

theorem prefillWorkers_cons (s : State) (m : List WUpdate) (rq size w : Nat) (rest : List Nat) :
    s.prefillWorkers m rq size (w :: rest) =
      match s.prefillWorker m rq size w with
      | .error e => .error e
      | .ok (s1, m1) => s1.prefillWorkers m1 rq size rest := rfl

/-! ### `on_retract_response` never panics -/

theorem retractLoop_ok (w : Nat) : ∀ (ids : List TaskId) (s : State) (acc : List (Nat × TaskId × Nat)),
    (∀ it ∈ acc, (s.task? it.2.1).isSome = true) →
    ∃ s' acc', s.retractLoop w ids acc = .ok (s', acc') ∧ ∀ it ∈ acc', (s'.task? it.2.1).isSome = true
  | [], s, acc, h => ⟨s, acc, rfl, h⟩
  | id :: rest, s, acc, h => by
    simp only [State.retractLoop]
    cases ht : s.task? id with
    | none => exact retractLoop_ok w rest s acc h
    | some task =>
      dsimp only
      by_cases hs : task.state ≠ .retracting w
      · rw [if_pos hs]
        exact retractLoop_ok w rest s acc h
      · rw [if_neg hs]
        have keep : ∀ (rd : List (TaskId × Nat × Nat)) (t' : Task) (x : TaskId), (s.task? x).isSome = true →
            ((State.setTask { s with redirects := rd } t').task? x).isSome = true :=
          fun rd t' x hx => isSome_findTask_putTask hx
        split
        · rename_i x target rv hf
          apply retractLoop_ok w rest
          intro it hit
          rcases List.mem_append.mp hit with h1 | h1
          · exact keep _ _ _ (h it h1)
          · simp only [List.mem_singleton] at h1
            subst h1
            apply keep
            rw [ht]; rfl
        · apply retractLoop_ok w rest
          intro it hit
          exact isSome_findTask_putTask (h it hit)

theorem computeItems_ok (s : State) : ∀ (items : List (Nat × TaskId × Nat)),
    (∀ it ∈ items, (s.task? it.2.1).isSome = true) → ∃ l, computeItems s items = .ok l
  | [], _ => ⟨_, rfl⟩
  | it :: rest, h => by
    have := h it List.mem_cons_self
    cases ht : s.task? it.2.1 with
    | none => rw [ht] at this; cases this
    | some t =>
      obtain ⟨l, hl⟩ := computeItems_ok s rest (fun x hx => h x (List.mem_cons_of_mem _ hx))
      simp only [computeItems, getTask_ok ht, hl]
      exact ⟨_, rfl⟩

theorem groupComputeAux_ok (s : State) (items : List (Nat × TaskId × Nat))
    (h : ∀ it ∈ items, (s.task? it.2.1).isSome = true) : ∀ (targets : List Nat), ∃ ms, groupComputeAux s items targets = .ok ms
  | [] => ⟨_, rfl⟩
  | target :: rest => by
    obtain ⟨l, hl⟩ := computeItems_ok s (items.filter (·.1 = target))
      (fun it hit => h it (List.mem_filter.mp hit).1)
    obtain ⟨ms, hms⟩ := groupComputeAux_ok s items h rest
    simp only [groupComputeAux, hl, hms]
    exact ⟨_, rfl⟩

theorem retractResponse_ok (s : State) (w : Nat) (ids : List TaskId) : ∃ r, s.retractResponse w ids = .ok r := by
  obtain ⟨s1, items, h1, h2⟩ := retractLoop_ok w ids s [] (fun _ h => by cases h)
  obtain ⟨ms, hms⟩ := groupComputeAux_ok s1 items h2 (items.map (·.1)).eraseDups
  simp only [State.retractResponse, h1, groupCompute, hms]
  exact ⟨_, rfl⟩

end NP

end HqModel.Core
