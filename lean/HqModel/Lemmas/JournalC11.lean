import HqModel.Journal.Model
/-!
Fold lemmas for C11: the high-water marks collected by `load_event_file` dominate every id a creating record
mentions, for EVERY journal (no producibility needed); and the history of a server that is restarted from its
journal again and again never issues an id twice.
-/
namespace HqModel.Journal

/-- the job id a record introduces (`Submit` of a new job, `JobOpen`) -/
def createsJob : Record → Option Nat
  | .submit j true _ _ => some j
  | .jobOpen j _ => some j
  | _ => none

def createsWorker : Record → Option Nat
  | .workerConnected w _ => some w
  | _ => none

def createsQueue : Record → Option Nat
  | .queueCreated q => some q
  | _ => none

def startOf : Record → Option String
  | .serverStart u => some u
  | _ => none

def createdJobs (J : List Record) : List Nat := J.filterMap createsJob
def createdWorkers (J : List Record) : List Nat := J.filterMap createsWorker
def createdQueues (J : List Record) : List Nat := J.filterMap createsQueue
def startUids (J : List Record) : List String := J.filterMap startOf

/-- uid of the last `ServerStart` (`""` if there is none) -/
def lastUid (J : List Record) : String := (startUids J).getLast?.getD ""

theorem restorerStep_marks {r r' : Restorer} {x : Record} (h : restorerStep r x = .ok r') :
    r.maxJob ≤ r'.maxJob ∧ r.maxWorker ≤ r'.maxWorker ∧ r.maxQueue ≤ r'.maxQueue ∧
    (∀ j, createsJob x = some j → j ≤ r'.maxJob) ∧
    (∀ w, createsWorker x = some w → w ≤ r'.maxWorker) ∧
    (∀ q, createsQueue x = some q → q ≤ r'.maxQueue) ∧
    r'.uid = (startOf x).getD r.uid := by
  cases x <;> simp only [restorerStep, Restorer.addJob] at h <;> (repeat' split at h) <;>
    simp_all [createsJob, createsWorker, createsQueue, startOf] <;>
    (try subst h) <;> (try simp) <;> (try omega)

theorem restorerFoldFrom_marks {J : List Record} : ∀ {r r' : Restorer}, restorerFoldFrom r J = .ok r' →
    r.maxJob ≤ r'.maxJob ∧ r.maxWorker ≤ r'.maxWorker ∧ r.maxQueue ≤ r'.maxQueue ∧
    (∀ j ∈ createdJobs J, j ≤ r'.maxJob) ∧
    (∀ w ∈ createdWorkers J, w ≤ r'.maxWorker) ∧
    (∀ q ∈ createdQueues J, q ≤ r'.maxQueue) ∧
    r'.uid = ((startUids J).getLast?).getD r.uid := by
  induction J with
  | nil =>
    intro r r' h
    simp [restorerFoldFrom] at h
    subst h
    simp [createdJobs, createdWorkers, createdQueues, startUids]
  | cons x xs ih =>
    intro r r' h
    simp only [restorerFoldFrom] at h
    split at h
    · rename_i r1 h1
      obtain ⟨a1, a2, a3, a4, a5, a6, a7⟩ := restorerStep_marks h1
      obtain ⟨b1, b2, b3, b4, b5, b6, b7⟩ := ih h
      refine ⟨by omega, by omega, by omega, ?_, ?_, ?_, ?_⟩
      · intro j hj
        simp only [createdJobs, List.filterMap_cons] at hj
        cases hc : createsJob x with
        | none => simp [hc] at hj; exact b4 j (by simpa [createdJobs] using hj)
        | some j0 =>
          simp [hc] at hj
          rcases hj with rfl | hj
          · have := a4 j hc; omega
          · exact b4 j (by simpa [createdJobs] using hj)
      · intro j hj
        simp only [createdWorkers, List.filterMap_cons] at hj
        cases hc : createsWorker x with
        | none => simp [hc] at hj; exact b5 j (by simpa [createdWorkers] using hj)
        | some j0 =>
          simp [hc] at hj
          rcases hj with rfl | hj
          · have := a5 j hc; omega
          · exact b5 j (by simpa [createdWorkers] using hj)
      · intro j hj
        simp only [createdQueues, List.filterMap_cons] at hj
        cases hc : createsQueue x with
        | none => simp [hc] at hj; exact b6 j (by simpa [createdQueues] using hj)
        | some j0 =>
          simp [hc] at hj
          rcases hj with rfl | hj
          · have := a6 j hc; omega
          · exact b6 j (by simpa [createdQueues] using hj)
      · rw [b7, a7]
        simp only [startUids, List.filterMap_cons]
        cases hs : startOf x with
        | none => simp
        | some u =>
          simp only [Option.getD_some]
          cases hl : (List.filterMap startOf xs).getLast? with
          | none =>
            have : List.filterMap startOf xs = [] := by simpa using hl
            simp [this]
          | some v =>
            have hne : List.filterMap startOf xs ≠ [] := by
              intro h0; simp [h0] at hl
            simp [List.getLast?_cons_of_ne_nil hne, hl] <;> rfl
    · simp at h


/-! ### repeated restarts -/

/-- what a running server does, as far as ids are concerned -/
inductive Act
  | submitNew (mf : Option Nat) (desc : TaskDesc)   -- `handle_submit` without a job id: `State::new_job_id`
  | openJob (mf : Option Nat)                        -- `handle_open_job`: `State::new_job_id`
  | connectWorker (alloc : Option Nat)               -- worker registration: `Core::new_worker_id`
  | createQueue                                      -- `create_queue` without a given id: `IdCounter::increment`
  | other (r : Record)                               -- any record that introduces no id (ignored if it does)

def createsNothing (r : Record) : Bool :=
  (createsJob r).isNone && (createsWorker r).isNone && (createsQueue r).isNone && (startOf r).isNone

/-- the records one server life writes after its `ServerStart`, issuing ids from its counters -/
def runEpoch : Counters → List Act → List Record
  | _, [] => []
  | c, .submitNew mf d :: as => .submit (issueJob c).1 true mf d :: runEpoch (issueJob c).2 as
  | c, .openJob mf :: as => .jobOpen (issueJob c).1 mf :: runEpoch (issueJob c).2 as
  | c, .connectWorker a :: as => .workerConnected (issueWorker c).1 a :: runEpoch (issueWorker c).2 as
  | c, .createQueue :: as => .queueCreated (issueQueue c).1 :: runEpoch (issueQueue c).2 as
  | c, .other r :: as => if createsNothing r then r :: runEpoch c as else runEpoch c as

/-- Journals written by a server that is (re)started any number of times from its own journal and may crash after
any record (`take n`); `gen` is the uid `generate_server_uid` would produce (never empty). No pruning in between. -/
inductive History : List Record → Prop
  | first (gen : String) (hgen : gen ≠ "") (acts : List Act) (n : Nat) :
      History ((Record.serverStart gen :: runEpoch freshCounters acts).take n)
  | restart {J : List Record} (h : History J) {R : Restorer} (hr : restorerFold J = .ok R)
      (gen : String) (hgen : gen ≠ "") (acts : List Act) (n : Nat) :
      History (J ++ (Record.serverStart (startUid R.uid gen) :: runEpoch (counters R) acts).take n)

theorem runEpoch_ids (acts : List Act) : ∀ c : Counters,
    (createdJobs (runEpoch c acts)).Pairwise (· < ·) ∧ (∀ j ∈ createdJobs (runEpoch c acts), c.job ≤ j) ∧
    (createdWorkers (runEpoch c acts)).Pairwise (· < ·) ∧ (∀ w ∈ createdWorkers (runEpoch c acts), c.worker < w) ∧
    (createdQueues (runEpoch c acts)).Pairwise (· < ·) ∧ (∀ q ∈ createdQueues (runEpoch c acts), c.queue ≤ q) ∧
    startUids (runEpoch c acts) = [] := by
  induction acts with
  | nil => intro c; simp [runEpoch, createdJobs, createdWorkers, createdQueues, startUids]
  | cons a as ih =>
    intro c
    cases a with
    | submitNew mf d =>
      obtain ⟨h1, h2, h3, h4, h5, h6, h7⟩ := ih (issueJob c).2
      simp only [runEpoch, createdJobs, createdWorkers, createdQueues, startUids, List.filterMap_cons, createsJob,
        createsWorker, createsQueue, startOf] at *
      refine ⟨?_, ?_, h3, h4, h5, h6, h7⟩
      · refine List.pairwise_cons.2 ⟨?_, h1⟩
        intro j hj; have := h2 j hj; simp [issueJob] at this ⊢; omega
      · intro j hj
        rcases List.mem_cons.1 hj with rfl | hj
        · simp [issueJob]
        · have := h2 j hj; simp [issueJob] at this; omega
    | openJob mf =>
      obtain ⟨h1, h2, h3, h4, h5, h6, h7⟩ := ih (issueJob c).2
      simp only [runEpoch, createdJobs, createdWorkers, createdQueues, startUids, List.filterMap_cons, createsJob,
        createsWorker, createsQueue, startOf] at *
      refine ⟨?_, ?_, h3, h4, h5, h6, h7⟩
      · refine List.pairwise_cons.2 ⟨?_, h1⟩
        intro j hj; have := h2 j hj; simp [issueJob] at this ⊢; omega
      · intro j hj
        rcases List.mem_cons.1 hj with rfl | hj
        · simp [issueJob]
        · have := h2 j hj; simp [issueJob] at this; omega
    | connectWorker al =>
      obtain ⟨h1, h2, h3, h4, h5, h6, h7⟩ := ih (issueWorker c).2
      simp only [runEpoch, createdJobs, createdWorkers, createdQueues, startUids, List.filterMap_cons, createsJob,
        createsWorker, createsQueue, startOf] at *
      refine ⟨h1, h2, ?_, ?_, h5, h6, h7⟩
      · refine List.pairwise_cons.2 ⟨?_, h3⟩
        intro j hj; have := h4 j hj; simp [issueWorker] at this ⊢; omega
      · intro j hj
        rcases List.mem_cons.1 hj with rfl | hj
        · simp [issueWorker]
        · have := h4 j hj; simp [issueWorker] at this; omega
    | createQueue =>
      obtain ⟨h1, h2, h3, h4, h5, h6, h7⟩ := ih (issueQueue c).2
      simp only [runEpoch, createdJobs, createdWorkers, createdQueues, startUids, List.filterMap_cons, createsJob,
        createsWorker, createsQueue, startOf] at *
      refine ⟨h1, h2, h3, h4, ?_, ?_, h7⟩
      · refine List.pairwise_cons.2 ⟨?_, h5⟩
        intro j hj; have := h6 j hj; simp [issueQueue] at this ⊢; omega
      · intro j hj
        rcases List.mem_cons.1 hj with rfl | hj
        · simp [issueQueue]
        · have := h6 j hj; simp [issueQueue] at this; omega
    | other r =>
      obtain ⟨h1, h2, h3, h4, h5, h6, h7⟩ := ih c
      simp only [runEpoch]
      split
      · rename_i hn
        simp only [createsNothing, Bool.and_eq_true, Option.isNone_iff_eq_none] at hn
        obtain ⟨⟨⟨n1, n2⟩, n3⟩, n4⟩ := hn
        simp only [createdJobs, createdWorkers, createdQueues, startUids, List.filterMap_cons, n1, n2, n3, n4] at *
        exact ⟨h1, h2, h3, h4, h5, h6, h7⟩
      · exact ⟨h1, h2, h3, h4, h5, h6, h7⟩

theorem createdJobs_start (u : String) (K : List Record) :
    createdJobs (.serverStart u :: K) = createdJobs K := rfl
theorem createdWorkers_start (u : String) (K : List Record) :
    createdWorkers (.serverStart u :: K) = createdWorkers K := rfl
theorem createdQueues_start (u : String) (K : List Record) :
    createdQueues (.serverStart u :: K) = createdQueues K := rfl
theorem startUids_start (u : String) (K : List Record) :
    startUids (.serverStart u :: K) = u :: startUids K := rfl

/-- the invariant of `History`: created ids strictly increase along the journal, all start uids are equal and non-empty -/
def NoReuse (J : List Record) : Prop :=
  (createdJobs J).Pairwise (· < ·) ∧ (createdWorkers J).Pairwise (· < ·) ∧ (createdQueues J).Pairwise (· < ·) ∧
  (∀ u ∈ startUids J, ∀ v ∈ startUids J, u = v) ∧ (∀ u ∈ startUids J, u ≠ "")

theorem pairwise_take_filterMap {f : Record → Option α} {R : α → α → Prop} {K : List Record} (n : Nat)
    (h : (K.filterMap f).Pairwise R) : ((K.take n).filterMap f).Pairwise R :=
  h.sublist ((List.take_sublist n K).filterMap f)

theorem mem_take_filterMap {f : Record → Option α} {K : List Record} {n : Nat} {a : α}
    (h : a ∈ (K.take n).filterMap f) : a ∈ K.filterMap f :=
  ((List.take_sublist n K).filterMap f).subset h

theorem history_noReuse {J : List Record} (h : History J) : NoReuse J := by
  induction h with
  | first gen hgen acts n =>
    obtain ⟨h1, _, h3, _, h5, _, h7⟩ := runEpoch_ids acts freshCounters
    refine ⟨pairwise_take_filterMap n ?_, pairwise_take_filterMap n ?_, pairwise_take_filterMap n ?_, ?_, ?_⟩
    · exact h1
    · exact h3
    · exact h5
    · intro u hu v hv
      have hu : u ∈ startUids _ := mem_take_filterMap hu
      have hv : v ∈ startUids _ := mem_take_filterMap hv
      rw [startUids_start, h7] at hu hv
      simp at hu hv
      rw [hu, hv]
    · intro u hu
      have hu : u ∈ startUids _ := mem_take_filterMap hu
      rw [startUids_start, h7] at hu
      simp at hu
      rw [hu]; exact hgen
  | @restart J _ R hr gen hgen acts n ih =>
    obtain ⟨i1, i2, i3, i4, i5⟩ := ih
    obtain ⟨_, _, _, m4, m5, m6, m7⟩ := restorerFoldFrom_marks hr
    obtain ⟨h1, h2, h3, h4, h5, h6, h7⟩ := runEpoch_ids acts (counters R)
    have e1 : createdJobs (Record.serverStart (startUid R.uid gen) :: runEpoch (counters R) acts) =
        createdJobs (runEpoch (counters R) acts) := createdJobs_start _ _
    have e2 : createdWorkers (Record.serverStart (startUid R.uid gen) :: runEpoch (counters R) acts) =
        createdWorkers (runEpoch (counters R) acts) := createdWorkers_start _ _
    have e3 : createdQueues (Record.serverStart (startUid R.uid gen) :: runEpoch (counters R) acts) =
        createdQueues (runEpoch (counters R) acts) := createdQueues_start _ _
    have e4 : startUids (Record.serverStart (startUid R.uid gen) :: runEpoch (counters R) acts) =
        [startUid R.uid gen] := by
      rw [startUids_start, h7]
    refine ⟨?_, ?_, ?_, ?_, ?_⟩
    · simp only [createdJobs, List.filterMap_append]
      refine List.pairwise_append.2 ⟨i1, pairwise_take_filterMap n (show (createdJobs (Record.serverStart (startUid R.uid gen) :: runEpoch (counters R) acts)).Pairwise (· < ·) from e1 ▸ h1), ?_⟩
      intro a ha b hb
      have hb : b ∈ createdJobs _ := mem_take_filterMap hb
      rw [e1] at hb
      have := h2 b hb
      have := m4 a ha
      simp [counters] at *; omega
    · simp only [createdWorkers, List.filterMap_append]
      refine List.pairwise_append.2 ⟨i2, pairwise_take_filterMap n (show (createdWorkers (Record.serverStart (startUid R.uid gen) :: runEpoch (counters R) acts)).Pairwise (· < ·) from e2 ▸ h3), ?_⟩
      intro a ha b hb
      have hb : b ∈ createdWorkers _ := mem_take_filterMap hb
      rw [e2] at hb
      have := h4 b hb
      have := m5 a ha
      simp [counters] at *; omega
    · simp only [createdQueues, List.filterMap_append]
      refine List.pairwise_append.2 ⟨i3, pairwise_take_filterMap n (show (createdQueues (Record.serverStart (startUid R.uid gen) :: runEpoch (counters R) acts)).Pairwise (· < ·) from e3 ▸ h5), ?_⟩
      intro a ha b hb
      have hb : b ∈ createdQueues _ := mem_take_filterMap hb
      rw [e3] at hb
      have := h6 b hb
      have := m6 a ha
      simp [counters] at *; omega
    all_goals
      have hX : ∀ u ∈ startUids ((Record.serverStart (startUid R.uid gen) :: runEpoch (counters R) acts).take n),
          u = startUid R.uid gen := by
        intro u hu
        have hu : u ∈ startUids _ := mem_take_filterMap hu
        rw [e4] at hu
        simpa using hu
      have hX2 : startUid R.uid gen ≠ "" ∧ ∀ v ∈ startUids J, v = startUid R.uid gen := by
        cases hl : (startUids J).getLast? with
        | none =>
          have he : startUids J = [] := by simpa using hl
          have hu : R.uid = "" := by rw [m7, hl]; rfl
          simp [startUid, hu, he, hgen]
        | some l =>
          have hmem : l ∈ startUids J := List.mem_of_getLast? hl
          have hu : R.uid = l := by rw [m7, hl]; rfl
          have hne : l ≠ "" := i5 l hmem
          have : startUid R.uid gen = l := by simp [startUid, hu, hne]
          rw [this]
          exact ⟨hne, fun v hv => i4 v hv l hmem⟩
      have hsplit : ∀ u, u ∈ startUids (J ++ (Record.serverStart (startUid R.uid gen) :: runEpoch (counters R) acts).take n) →
          u = startUid R.uid gen := by
        intro u hu
        simp only [startUids, List.filterMap_append, List.mem_append] at hu
        rcases hu with hu | hu
        · exact hX2.2 u hu
        · exact hX u hu
    · intro u hu v hv
      rw [hsplit u hu, hsplit v hv]
    · intro u hu
      rw [hsplit u hu]; exact hX2.1

end HqModel.Journal
