import HqModel.Alloc.Allocator
/-!
Helper lemmas for the allocator model: fraction maps, the per-index accounting (`freeAmt`, `heldBy`) and the three
primitive claim steps (`Prim`) of which every claim procedure is a composition (`Claims`).
-/
namespace HqModel.Alloc

/-! ### fraction maps -/

@[simp] theorem fget_nil (i : Nat) : fget [] i = none := rfl

theorem fget_cons (k v : Nat) (m : FMap) (i : Nat) :
    fget ((k, v) :: m) i = if k = i then some v else fget m i := rfl

theorem fget_freplace (m : FMap) (i x j : Nat) :
    fget (freplace m i x) j = if j = i then (fget m i).map (fun _ => x) else fget m j := by
  induction m with
  | nil => simp [freplace]
  | cons kv m ih =>
    obtain ⟨k, v⟩ := kv
    simp only [freplace]
    by_cases hk : k = i
    · subst hk
      simp only [if_true, fget_cons]
      by_cases hj : j = k
      · subst hj; simp
      · have : ¬ k = j := fun h => hj h.symm
        simp [this, hj, ih]
    · simp only [hk, if_false, fget_cons]
      by_cases hj : j = i
      · subst hj
        simp [hk, ih]
      · by_cases hkj : k = j
        · simp [hkj, hj]
        · simp [hkj, hj, ih]

theorem fget_fset (m : FMap) (i x j : Nat) :
    fget (fset m i x) j = if j = i then some x else fget m j := by
  unfold fset
  by_cases h : (fget m i).isSome
  · rw [if_pos h, fget_freplace]
    by_cases hj : j = i
    · obtain ⟨v, hv⟩ := Option.isSome_iff_exists.mp h
      simp [hj, hv]
    · simp [hj]
  · rw [if_neg h, fget_cons]
    by_cases hj : j = i
    · simp [hj]
    · have : ¬ i = j := fun h => hj h.symm
      simp [hj, this]

theorem fget_ferase (m : FMap) (i j : Nat) :
    fget (ferase m i) j = if j = i then none else fget m j := by
  induction m with
  | nil => simp [ferase]
  | cons kv m ih =>
    obtain ⟨k, v⟩ := kv
    simp only [ferase]
    by_cases hk : k = i
    · subst hk
      simp only [if_true, ih, fget_cons]
      by_cases hj : j = k
      · simp [hj]
      · have : ¬ k = j := fun h => hj h.symm
        simp [hj, this]
    · simp only [hk, if_false, fget_cons, ih]
      by_cases hkj : k = j
      · subst hkj; simp [hk]
      · simp [hkj]

theorem fracOf_fset (m : FMap) (i x j : Nat) :
    fracOf (fset m i x) j = if j = i then x else fracOf m j := by
  unfold fracOf
  rw [fget_fset]
  by_cases h : j = i <;> simp [h]

theorem fracOf_ferase (m : FMap) (i j : Nat) :
    fracOf (ferase m i) j = if j = i then 0 else fracOf m j := by
  unfold fracOf
  rw [fget_ferase]
  by_cases h : j = i <;> simp [h]

theorem fracOf_of_fget {m : FMap} {i v : Nat} (h : fget m i = some v) : fracOf m i = v := by
  simp [fracOf, h]

/-- the keys of the association list are distinct -/
def KeysNodup (m : FMap) : Prop := (m.map Prod.fst).Nodup

theorem keys_freplace (m : FMap) (i x : Nat) : (freplace m i x).map Prod.fst = m.map Prod.fst := by
  induction m with
  | nil => rfl
  | cons kv m ih =>
    obtain ⟨k, v⟩ := kv
    simp only [freplace]
    split <;> simp [ih]

theorem fget_none_not_mem {m : FMap} {i : Nat} (h : fget m i = none) : i ∉ m.map Prod.fst := by
  induction m with
  | nil => simp
  | cons kv m ih =>
    obtain ⟨k, v⟩ := kv
    simp only [fget] at h
    split at h
    · cases h
    · rename_i hk
      simp only [List.map_cons, List.mem_cons, not_or]
      exact ⟨fun h' => hk h'.symm, ih h⟩

theorem fset_keys_nodup {m : FMap} (h : KeysNodup m) (i x : Nat) : KeysNodup (fset m i x) := by
  unfold fset KeysNodup
  split
  · rw [keys_freplace]; exact h
  · rename_i hs
    have hn : fget m i = none := by
      cases hg : fget m i with
      | none => rfl
      | some v => simp [hg] at hs
    simp only [List.map_cons]
    exact List.nodup_cons.mpr ⟨fget_none_not_mem hn, h⟩

/-- with distinct keys every entry of the list is what `fget` finds -/
theorem fget_of_mem {m : FMap} (h : KeysNodup m) {kv : Nat × Nat} (hm : kv ∈ m) : fget m kv.1 = some kv.2 := by
  induction m with
  | nil => cases hm
  | cons x m ih =>
    obtain ⟨k, v⟩ := x
    obtain ⟨hk, hnd⟩ := List.nodup_cons.mp h
    rcases List.mem_cons.mp hm with rfl | hm'
    · simp [fget]
    · have hne : k ≠ kv.1 := by
        intro heq
        apply hk
        rw [heq]
        exact List.mem_map.mpr ⟨kv, hm', rfl⟩
      simp only [fget, hne, if_false]
      exact ih hnd hm'

/-- what `bestVal` returns is a value of the map that is `≥ fr` -/
theorem bestVal_some {m : FMap} {fr b : Nat} (h : bestVal m fr = some b) : fr ≤ b := by
  induction m generalizing b with
  | nil => simp [bestVal] at h
  | cons kv m ih =>
    obtain ⟨k, v⟩ := kv
    simp only [bestVal] at h
    split at h
    · split at h
      · simp at h; omega
      · simp at h
    · rename_i b' hb'
      have := ih hb'
      split at h
      · simp at h; omega
      · simp at h; omega

theorem bestMatch_some {m : FMap} {fr : Nat} {pick : Option Nat} {p b : Nat}
    (h : bestMatch m fr pick = .ok (some (p, b))) : fget m p = some b ∧ fr ≤ b := by
  unfold bestMatch at h
  split at h
  · simp at h
  · rename_i b' hb'
    split at h
    · split at h
      · split at h
        · rename_i hget
          simp only [Except.ok.injEq, Option.some.injEq, Prod.mk.injEq] at h
          obtain ⟨rfl, rfl⟩ := h
          exact ⟨hget, bestVal_some hb'⟩
        · simp at h
      · simp at h
    · rename_i p'
      split at h
      · rename_i hget
        simp only [Except.ok.injEq, Option.some.injEq, Prod.mk.injEq] at h
        obtain ⟨rfl, rfl⟩ := h
        exact ⟨hget, bestVal_some hb'⟩
      · simp at h

/-! ### accounting -/

/-- amount of `(group gid, index i)` held by a list of allocation entries -/
def heldBy (l : List AIdx) (gid i : Nat) : Nat :=
  (l.map (fun e => if e.group = gid ∧ e.index = i then e.amt else 0)).sum

@[simp] theorem heldBy_nil (gid i : Nat) : heldBy [] gid i = 0 := rfl

theorem heldBy_cons (e : AIdx) (l : List AIdx) (gid i : Nat) :
    heldBy (e :: l) gid i = (if e.group = gid ∧ e.index = i then e.amt else 0) + heldBy l gid i := by
  simp [heldBy]

theorem heldBy_append (l₁ l₂ : List AIdx) (gid i : Nat) :
    heldBy (l₁ ++ l₂) gid i = heldBy l₁ gid i + heldBy l₂ gid i := by
  simp [heldBy, List.sum_append]

theorem heldBy_perm {l₁ l₂ : List AIdx} (h : l₁.Perm l₂) (gid i : Nat) : heldBy l₁ gid i = heldBy l₂ gid i := by
  induction h with
  | nil => rfl
  | cons x _ ih => simp [heldBy_cons, ih]
  | swap x y l => simp only [heldBy_cons]; omega
  | trans _ _ ih₁ ih₂ => rw [ih₁, ih₂]

theorem AIdx.amt_pos (e : AIdx) : 0 < e.amt := by
  unfold AIdx.amt
  split
  · exact FPU_pos
  · omega

theorem heldBy_ge_of_mem {l : List AIdx} {e : AIdx} (h : e ∈ l) : e.amt ≤ heldBy l e.group e.index := by
  induction l with
  | nil => cases h
  | cons x l ih =>
    rw [heldBy_cons]
    rcases List.mem_cons.mp h with rfl | h'
    · simp
    · have := ih h'; omega

/-- free amount of index `i` in one group -/
def Group.freeAmt (g : Group) (i : Nat) : Nat := FPU * g.free.count i + fracOf g.fracs i

def freeAmt (gs : List Group) (gid i : Nat) : Nat :=
  match gs[gid]? with
  | some g => g.freeAmt i
  | none => 0

def Group.WF (g : Group) : Prop := g.free.Nodup ∧ ∀ j ∈ g.free, fracOf g.fracs j = 0

/-- a fractional holder's index is a key of its group's fraction map (so `get_mut(..).unwrap()` succeeds) -/
def KeyOk (gs : List Group) (e : AIdx) : Prop :=
  e.group < gs.length ∧ (e.fractions ≠ 0 → ∃ g, gs[e.group]? = some g ∧ (fget g.fracs e.index).isSome)

/-- The invariant of one index pool: `gs` its groups, `U gid` the indices group `gid` was created with, `held` all
entries of live allocations on this resource. -/
structure PoolInv (gs : List Group) (U : Nat → List Nat) (held : List AIdx) : Prop where
  univ : ∀ gid : Nat, (U gid).Nodup
  wf : ∀ (gid : Nat) (g : Group), gs[gid]? = some g → g.WF
  conserve : ∀ (gid i : Nat), freeAmt gs gid i + heldBy held gid i = FPU * (U gid).count i
  keys : ∀ e ∈ held, KeyOk gs e
  /-- every free fraction is below one unit (`validate()`: `assert!(*f < FRACTIONS_PER_UNIT)`) -/
  vals : ∀ (gid : Nat) (g : Group), gs[gid]? = some g → ∀ j, fracOf g.fracs j < FPU

theorem PoolInv.perm {gs U l₁ l₂} (h : PoolInv gs U l₁) (p : l₁.Perm l₂) : PoolInv gs U l₂ where
  univ := h.univ
  wf := h.wf
  conserve := fun gid i => by rw [← heldBy_perm p]; exact h.conserve gid i
  keys := fun e he => h.keys e (p.mem_iff.mpr he)
  vals := h.vals

theorem count_le_one_of_nodup {l : List Nat} (h : l.Nodup) (i : Nat) : l.count i ≤ 1 :=
  List.nodup_iff_count.mp h i

theorem freeAmt_set_same (gs : List Group) (gid : Nat) (g' : Group) (i : Nat) (h : gid < gs.length) :
    freeAmt (gs.set gid g') gid i = g'.freeAmt i := by
  simp [freeAmt, h]

theorem freeAmt_set_other (gs : List Group) (gid gid' : Nat) (g' : Group) (i : Nat) (h : gid' ≠ gid) :
    freeAmt (gs.set gid g') gid' i = freeAmt gs gid' i := by
  unfold freeAmt
  rw [List.getElem?_set_ne (by omega)]

theorem lt_length_of_getElem? {α} {l : List α} {i : Nat} {x : α} (h : l[i]? = some x) : i < l.length := by
  rcases Nat.lt_or_ge i l.length with h' | h'
  · exact h'
  · rw [List.getElem?_eq_none h'] at h; cases h

theorem freeAmt_of_get {gs : List Group} {gid : Nat} {g : Group} (h : gs[gid]? = some g) (i : Nat) :
    freeAmt gs gid i = g.freeAmt i := by
  simp [freeAmt, h]

theorem KeyOk.set {gs : List Group} {e : AIdx} {gid : Nat} {g g' : Group} (hk : KeyOk gs e)
    (hg : gs[gid]? = some g)
    (hkeys : e.group = gid → (fget g.fracs e.index).isSome → (fget g'.fracs e.index).isSome) :
    KeyOk (gs.set gid g') e := by
  refine ⟨by simpa using hk.1, fun hf => ?_⟩
  obtain ⟨g₀, hg₀, hs⟩ := hk.2 hf
  by_cases he : e.group = gid
  · refine ⟨g', ?_, ?_⟩
    · rw [he]; simp [lt_length_of_getElem? hg]
    · rw [he, hg] at hg₀
      cases hg₀
      exact hkeys he hs
  · exact ⟨g₀, by rw [List.getElem?_set_ne (by omega)]; exact hg₀, hs⟩

theorem vals_set {gs : List Group} {gid : Nat} {g g' : Group}
    (hv : ∀ (gid : Nat) (g : Group), gs[gid]? = some g → ∀ j, fracOf g.fracs j < FPU) (hg : gs[gid]? = some g)
    (hnew : ∀ j, fracOf g'.fracs j < FPU) :
    ∀ (gid' : Nat) (g'' : Group), (gs.set gid g')[gid']? = some g'' → ∀ j, fracOf g''.fracs j < FPU := by
  intro gid' g'' hg'' j
  by_cases h : gid' = gid
  · subst h
    simp [lt_length_of_getElem? hg] at hg''
    subst hg''
    exact hnew j
  · rw [List.getElem?_set_ne (by omega)] at hg''
    exact hv gid' g'' hg'' j

/-! ### the three primitive claim steps -/

inductive Prim : List Group → List AIdx → List Group → List AIdx → Prop
  | whole {gs acc gid g i rest} : gs[gid]? = some g → g.free = i :: rest →
      Prim gs acc (gs.set gid { g with free := rest }) (acc ++ [⟨i, gid, 0⟩])
  | frac {gs acc gid g i f fr} : gs[gid]? = some g → fget g.fracs i = some f → fr ≤ f → 0 < fr →
      Prim gs acc (gs.set gid { g with fracs := fset g.fracs i (f - fr) }) (acc ++ [⟨i, gid, fr⟩])
  | split {gs acc gid g i rest fr} : gs[gid]? = some g → g.free = i :: rest → 0 < fr → fr < FPU →
      Prim gs acc (gs.set gid { free := rest, fracs := fset g.fracs i (FPU - fr) }) (acc ++ [⟨i, gid, fr⟩])

/-- compositions of primitive steps and reorderings of the output vector -/
inductive Claims : List Group → List AIdx → List Group → List AIdx → Prop
  | refl {gs acc} : Claims gs acc gs acc
  | step {gs acc gs₁ acc₁ gs₂ acc₂} : Prim gs acc gs₁ acc₁ → Claims gs₁ acc₁ gs₂ acc₂ → Claims gs acc gs₂ acc₂
  | perm {gs acc acc₁ gs₂ acc₂} : acc.Perm acc₁ → Claims gs acc₁ gs₂ acc₂ → Claims gs acc gs₂ acc₂

theorem Claims.trans {gs acc gs₁ acc₁ gs₂ acc₂} (h₁ : Claims gs acc gs₁ acc₁) (h₂ : Claims gs₁ acc₁ gs₂ acc₂) :
    Claims gs acc gs₂ acc₂ := by
  induction h₁ with
  | refl => exact h₂
  | step p _ ih => exact .step p (ih h₂)
  | perm p _ ih => exact .perm p (ih h₂)

theorem Claims.single {gs acc gs₁ acc₁} (p : Prim gs acc gs₁ acc₁) : Claims gs acc gs₁ acc₁ := .step p .refl

theorem Claims.permLast {gs acc gs₁ acc₁ acc₂} (h : Claims gs acc gs₁ acc₁) (p : acc₁.Perm acc₂) :
    Claims gs acc gs₁ acc₂ := h.trans (.perm p .refl)

theorem Claims.length_eq {gs acc gs₁ acc₁} (h : Claims gs acc gs₁ acc₁) : gs₁.length = gs.length := by
  induction h with
  | refl => rfl
  | step p _ ih => cases p <;> simpa using ih
  | perm _ _ ih => exact ih

/-- One primitive step preserves the pool invariant (the new entry is appended to the held entries). -/
theorem Prim.inv {gs acc gs' acc' U} {held : List AIdx} (p : Prim gs acc gs' acc')
    (h : PoolInv gs U (held ++ acc)) : PoolInv gs' U (held ++ acc') := by
  cases p with
  | @whole gid g i rest hg hfree =>
    have hlt := lt_length_of_getElem? hg
    have hwf := h.wf gid g hg
    have hnd : (i :: rest).Nodup := hfree ▸ hwf.1
    have hi0 : fracOf g.fracs i = 0 := hwf.2 i (by rw [hfree]; simp)
    have hvals := vals_set (g' := { g with free := rest }) h.vals hg (fun j => h.vals gid g hg j)
    refine ⟨h.univ, ?_, ?_, ?_, hvals⟩
    · intro gid' g' hg'
      by_cases hgid : gid' = gid
      · subst hgid
        simp [hlt] at hg'
        subst hg'
        refine ⟨(List.nodup_cons.mp hnd).2, fun j hj => hwf.2 j (by rw [hfree]; exact List.mem_cons_of_mem _ hj)⟩
      · rw [List.getElem?_set_ne (by omega)] at hg'
        exact h.wf gid' g' hg'
    · intro gid' j
      have hc := h.conserve gid' j
      rw [← List.append_assoc, heldBy_append]
      rw [heldBy_cons, heldBy_nil]
      by_cases hgid : gid' = gid
      · subst hgid
        rw [freeAmt_set_same _ _ _ _ hlt]
        rw [freeAmt_of_get hg] at hc
        simp only [Group.freeAmt] at hc ⊢
        rw [hfree, List.count_cons] at hc
        by_cases hj : i = j
        · subst hj
          simp [AIdx.amt] at hc ⊢
          unfold FPU at hc ⊢
          omega
        · simp [hj] at hc
          simp [hj, hc]
      · rw [freeAmt_set_other _ _ _ _ _ hgid]
        have : ¬ (gid = gid' ∧ i = j) := fun h => hgid h.1.symm
        simp [this, hc]
    · intro e he
      rw [← List.append_assoc] at he
      rcases List.mem_append.mp he with he | he
      · exact (h.keys e he).set hg (fun _ hs => hs)
      · simp at he; subst he
        exact ⟨by simpa using hlt, fun hf => absurd rfl hf⟩
  | @frac gid g i f fr hg hget hle hpos =>
    have hlt := lt_length_of_getElem? hg
    have hwf := h.wf gid g hg
    have hfi : fracOf g.fracs i = f := fracOf_of_fget hget
    have hvals := vals_set (g' := { g with fracs := fset g.fracs i (f - fr) }) h.vals hg (fun j => by
      show fracOf (fset g.fracs i (f - fr)) j < FPU
      rw [fracOf_fset]
      split
      · have := h.vals gid g hg i
        rw [hfi] at this
        omega
      · exact h.vals gid g hg j)
    refine ⟨h.univ, ?_, ?_, ?_, hvals⟩
    · intro gid' g' hg'
      by_cases hgid : gid' = gid
      · subst hgid
        simp [hlt] at hg'
        subst hg'
        refine ⟨hwf.1, fun j hj => ?_⟩
        show fracOf (fset g.fracs i (f - fr)) j = 0
        rw [fracOf_fset]
        by_cases hji : j = i
        · subst hji
          have := hwf.2 j hj
          omega
        · simp [hji, hwf.2 j hj]
      · rw [List.getElem?_set_ne (by omega)] at hg'
        exact h.wf gid' g' hg'
    · intro gid' j
      have hc := h.conserve gid' j
      rw [← List.append_assoc, heldBy_append]
      rw [heldBy_cons, heldBy_nil]
      by_cases hgid : gid' = gid
      · subst hgid
        rw [freeAmt_set_same _ _ _ _ hlt]
        rw [freeAmt_of_get hg] at hc
        simp only [Group.freeAmt] at hc ⊢
        rw [fracOf_fset]
        by_cases hj : i = j
        · subst hj
          have hne : fr ≠ 0 := by omega
          simp [AIdx.amt, hne]
          omega
        · have h2 : ¬ j = i := fun h => hj h.symm
          simp [hj, h2, hc]
      · rw [freeAmt_set_other _ _ _ _ _ hgid]
        have : ¬ (gid = gid' ∧ i = j) := fun h => hgid h.1.symm
        simp [this, hc]
    · intro e he
      have hkeys : ∀ k, (fget g.fracs k).isSome → (fget (fset g.fracs i (f - fr)) k).isSome := by
        intro k hk
        rw [fget_fset]
        by_cases hki : k = i <;> simp [hki, hk]
      rw [← List.append_assoc] at he
      rcases List.mem_append.mp he with he | he
      · exact (h.keys e he).set hg (fun _ => hkeys _)
      · simp at he; subst he
        refine ⟨by simpa using hlt, fun _ => ⟨{ g with fracs := fset g.fracs i (f - fr) }, by simp [hlt], ?_⟩⟩
        simp [fget_fset]
  | @split gid g i rest fr hg hfree hpos hlt' =>
    have hlt := lt_length_of_getElem? hg
    have hwf := h.wf gid g hg
    have hnd : (i :: rest).Nodup := hfree ▸ hwf.1
    have hi0 : fracOf g.fracs i = 0 := hwf.2 i (by rw [hfree]; simp)
    have hvals := vals_set (g' := { free := rest, fracs := fset g.fracs i (FPU - fr) }) h.vals hg (fun j => by
      show fracOf (fset g.fracs i (FPU - fr)) j < FPU
      rw [fracOf_fset]
      split
      · omega
      · exact h.vals gid g hg j)
    refine ⟨h.univ, ?_, ?_, ?_, hvals⟩
    · intro gid' g' hg'
      by_cases hgid : gid' = gid
      · subst hgid
        simp [hlt] at hg'
        subst hg'
        refine ⟨(List.nodup_cons.mp hnd).2, fun j hj => ?_⟩
        show fracOf (fset g.fracs i (FPU - fr)) j = 0
        rw [fracOf_fset]
        have hji : j ≠ i := fun h => (List.nodup_cons.mp hnd).1 (h ▸ hj)
        simp [hji]
        exact hwf.2 j (by rw [hfree]; exact List.mem_cons_of_mem _ hj)
      · rw [List.getElem?_set_ne (by omega)] at hg'
        exact h.wf gid' g' hg'
    · intro gid' j
      have hc := h.conserve gid' j
      rw [← List.append_assoc, heldBy_append]
      rw [heldBy_cons, heldBy_nil]
      by_cases hgid : gid' = gid
      · subst hgid
        rw [freeAmt_set_same _ _ _ _ hlt]
        rw [freeAmt_of_get hg] at hc
        simp only [Group.freeAmt] at hc ⊢
        rw [fracOf_fset]
        rw [hfree, List.count_cons] at hc
        by_cases hj : i = j
        · subst hj
          have hne : fr ≠ 0 := by omega
          simp [AIdx.amt, hne] at hc ⊢
          unfold FPU at hc hlt' ⊢
          omega
        · have h2 : ¬ j = i := fun h => hj h.symm
          simp [hj] at hc
          simp [hj, h2, hc]
      · rw [freeAmt_set_other _ _ _ _ _ hgid]
        have : ¬ (gid = gid' ∧ i = j) := fun h => hgid h.1.symm
        simp [this, hc]
    · intro e he
      have hkeys : ∀ k, (fget g.fracs k).isSome → (fget (fset g.fracs i (FPU - fr)) k).isSome := by
        intro k hk
        rw [fget_fset]
        by_cases hki : k = i <;> simp [hki, hk]
      rw [← List.append_assoc] at he
      rcases List.mem_append.mp he with he | he
      · exact (h.keys e he).set hg (fun _ => hkeys _)
      · simp at he; subst he
        refine ⟨by simpa using hlt, fun _ => ⟨{ free := rest, fracs := fset g.fracs i (FPU - fr) }, by simp [hlt], ?_⟩⟩
        simp [fget_fset]

/-- Every composition of claim steps preserves the pool invariant. -/
theorem Claims.inv {gs acc gs' acc' U} {held : List AIdx} (c : Claims gs acc gs' acc')
    (h : PoolInv gs U (held ++ acc)) : PoolInv gs' U (held ++ acc') := by
  induction c with
  | refl => exact h
  | step p _ ih => exact ih (p.inv h)
  | perm p _ ih => exact ih (h.perm (List.Perm.append_left _ p))

end HqModel.Alloc
