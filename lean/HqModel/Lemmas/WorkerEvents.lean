import HqModel.Lemmas.WorkerHandover
/-!
What a step emits: the exact shape of the events of `prefill_loop` (`prefillLoop_spec`), "a successful
launcher call leaves the task running with the handle the launcher saw" (`step_launch_recorded`), "a launcher
call never uses a handle owned by a running task other than the one that just ended" (`step_launch_handle`),
and the facts about `handle_task_future`'s tail that C01 / C02 / C04 read (`taskEnd_spec`).
-/
namespace HqModel.Worker

/-- Shape of what `prefill_loop` does with allocation `h`. -/
theorem prefillLoop_spec {rq rv h : Nat} : ∀ (bl : List Task) {a a' : Acc} {c : Bool},
    prefillLoop rq rv h bl a = .ok (a', c) →
    ∃ evs more, a'.ev = a.ev ++ evs ∧ a'.upd = a.upd ++ more ∧
      a'.s.blocked = a.s.blocked ∧ a'.s.rqs = a.s.rqs ∧ a'.s.remaining = a.s.remaining ∧
      a'.s.bkeys = a.s.bkeys ∧
      (∀ o ∈ evs, (∃ x ∈ bl, ∃ ok, o = .launch x.id x.inst rv h ok) ∨ o = .release h) ∧
      (c = true → (∃ x ∈ bl, Out.launch x.id x.inst rv h true ∈ evs) ∧ Out.release h ∉ evs ∧
          a'.s.live = a.s.live) ∧
      (c = false → Out.release h ∈ evs ∧ (∀ x i r' h', Out.launch x i r' h' true ∉ evs) ∧
          a'.s.live = a.s.live.erase h ∧ a'.s.running = a.s.running)
  | [], a, a', c, hs => by
    simp only [prefillLoop] at hs
    cases hs
    refine ⟨[.release h], [], rfl, by simp, rfl, rfl, rfl, rfl, ?_, by simp, ?_⟩
    · intro o ho; right; simpa using ho
    · intro _; exact ⟨by simp, by simp, rfl, rfl⟩
  | x :: rest, a, a', c, hs => by
    simp only [prefillLoop] at hs
    split at hs
    · cases hs
    · rename_i a1 hts
      cases hs
      obtain ⟨_, hc⟩ := tryStart_cases hts
      rcases hc with ⟨hc, _⟩ | ⟨hc, _⟩ | ⟨_, _, h1, h2, h3⟩
      · cases hc
      · cases hc
      · refine ⟨[.launch x.id x.inst rv h true], _, h2, h3, by rw [h1]; rfl, by rw [h1]; rfl,
          by rw [h1]; rfl, by rw [h1]; rfl, ?_, ?_, by simp⟩
        · intro o ho
          left
          exact ⟨x, List.mem_cons_self, true, by simpa using ho⟩
        · intro _
          exact ⟨⟨x, List.mem_cons_self, by simp⟩, by simp, by rw [h1]; rfl⟩
    · rename_i a1 hts
      obtain ⟨evs, more, e1, e2, e3, e4, e5, e6, e7, e8, e9⟩ := prefillLoop_spec rest hs
      obtain ⟨_, hc⟩ := tryStart_cases hts
      have lift : ∀ o, ((∃ y ∈ rest, ∃ ok, o = Out.launch y.id y.inst rv h ok) ∨ o = .release h) →
          ((∃ y ∈ x :: rest, ∃ ok, o = Out.launch y.id y.inst rv h ok) ∨ o = .release h) := by
        rintro o (⟨y, hy, ok, rfl⟩ | rfl)
        · exact Or.inl ⟨y, List.mem_cons_of_mem _ hy, ok, rfl⟩
        · exact Or.inr rfl
      rcases hc with ⟨_, h1, h2, h3⟩ | ⟨_, h1, h2, h3⟩ | ⟨hc, _⟩
      · -- hard reject of `x`
        refine ⟨evs, .reject x.id (some rv) :: more, by rw [e1, h2], by rw [e2, h3]; simp, by rw [e3, h1]; rfl,
          by rw [e4, h1]; rfl, by rw [e5, h1]; rfl, by rw [e6, h1]; rfl, fun o ho => lift o (e7 o ho), ?_, ?_⟩
        · intro hc
          obtain ⟨⟨y, hy, hl⟩, hr, hlive⟩ := e8 hc
          exact ⟨⟨y, List.mem_cons_of_mem _ hy, hl⟩, hr, by rw [hlive, h1]; rfl⟩
        · intro hc
          obtain ⟨hr, hl, hlive, hrun⟩ := e9 hc
          exact ⟨hr, hl, by rw [hlive, h1]; rfl, by rw [hrun, h1]; rfl⟩
      · -- the launcher refused `x`
        refine ⟨.launch x.id x.inst rv h false :: evs, .failed x.id .launch :: more, by rw [e1, h2]; simp,
          by rw [e2, h3]; simp,
          by rw [e3, h1]; rfl, by rw [e4, h1]; rfl, by rw [e5, h1]; rfl, by rw [e6, h1]; rfl, ?_, ?_, ?_⟩
        · intro o ho
          rcases List.mem_cons.mp ho with rfl | ho
          · exact Or.inl ⟨x, List.mem_cons_self, false, rfl⟩
          · exact lift o (e7 o ho)
        · intro hc
          obtain ⟨⟨y, hy, hl⟩, hr, hlive⟩ := e8 hc
          exact ⟨⟨y, List.mem_cons_of_mem _ hy, List.mem_cons_of_mem _ hl⟩, by simpa using hr,
            by rw [hlive, h1]; rfl⟩
        · intro hc
          obtain ⟨hr, hl, hlive, hrun⟩ := e9 hc
          refine ⟨List.mem_cons_of_mem _ hr, ?_, by rw [hlive, h1]; rfl, by rw [hrun, h1]; rfl⟩
          intro y i r' h' hmem
          rcases List.mem_cons.mp hmem with heq | hmem
          · cases heq
          · exact hl y i r' h' hmem
      · cases hc

/-- successful launcher calls collected so far belong to tasks that are running with exactly that handle -/
def LR (a : Acc) : Prop :=
  ∀ t i rv h, Out.launch t i rv h true ∈ a.ev →
    ∃ r ∈ a.s.running, r.task.id = t ∧ r.task.inst = i ∧ r.rv = rv ∧ r.h = h

theorem tryStart_LR {a a' : Acc} {x : Task} {rv h : Nat} {p c : Bool}
    (hl : LR a) (hs : tryStart a x rv p h = .ok (a', c)) : LR a' := by
  obtain ⟨_, hc⟩ := tryStart_cases hs
  rcases hc with ⟨_, h1, h2, _⟩ | ⟨_, h1, h2, _⟩ | ⟨_, _, h1, h2, _⟩
  · intro t i rv' h' hm; rw [h2] at hm; rw [h1]; exact hl t i rv' h' hm
  · intro t i rv' h' hm
    rw [h2] at hm
    rw [h1]
    rcases List.mem_append.mp hm with hm | hm
    · exact hl t i rv' h' hm
    · simp at hm
  · intro t i rv' h' hm
    rw [h2] at hm
    rw [h1]
    rcases List.mem_append.mp hm with hm | hm
    · obtain ⟨r, hr, hh⟩ := hl t i rv' h' hm
      exact ⟨r, by simp [started, hr], hh⟩
    · simp only [List.mem_singleton, Out.launch.injEq] at hm
      obtain ⟨e1, e2, e3, e4, _⟩ := hm
      exact ⟨{ task := x, rv := rv, h := h }, by simp [started], e1.symm, e2.symm, e3.symm, e4.symm⟩

theorem prefillLoop_LR {rq rv h : Nat} : ∀ (bl : List Task) {a a' : Acc} {c : Bool},
    LR a → prefillLoop rq rv h bl a = .ok (a', c) → LR a'
  | [], a, a', c, hl, hs => by
    simp only [prefillLoop] at hs
    cases hs
    intro t i rv' h' hm
    rcases List.mem_append.mp hm with hm | hm
    · exact hl t i rv' h' hm
    · simp at hm
  | x :: rest, a, a', c, hl, hs => by
    simp only [prefillLoop] at hs
    have hl1 : LR { a with s := setBacklog a.s rq rest } := hl
    split at hs
    · cases hs
    · rename_i a1 hts
      cases hs
      exact tryStart_LR hl1 hts
    · rename_i a1 hts
      exact prefillLoop_LR rest (tryStart_LR hl1 hts) hs

theorem computeEntry_LR {a a' : Acc} {e : Entry} (hl : LR a) (hs : computeEntry a e = .ok a') : LR a' := by
  unfold computeEntry at hs
  split at hs
  · cases hs; exact hl
  · split at hs
    · cases hs
    · split at hs
      · cases hs
        intro t i rv' h' hm
        obtain ⟨r, hr, hh⟩ := hl t i rv' h' hm
        refine ⟨r, ?_, hh⟩
        unfold insertBlocked
        split <;> exact hr
      · rename_i h _
        split at hs
        · cases hs
        · have hl1 : LR { a with s := { a.s with live := h :: a.s.live } } := hl
          split at hs
          · cases hs
          · rename_i a1 hts
            cases hs
            exact tryStart_LR hl1 hts
          · rename_i a1 hts
            split at hs
            · cases hs
            · rename_i a2 _ hpl
              cases hs
              exact prefillLoop_LR _ (tryStart_LR hl1 hts) hpl

theorem computeEntries_LR : ∀ (es : List Entry) {a a' : Acc},
    LR a → computeEntries es a = .ok a' → LR a'
  | [], a, a', hl, hs => by simp only [computeEntries] at hs; cases hs; exact hl
  | e :: es, a, a', hl, hs => by
    simp only [computeEntries] at hs
    split at hs
    · cases hs
    · rename_i a1 h1
      exact computeEntries_LR es (computeEntry_LR hl h1) hs

theorem mem_finish_launch {a : Acc} {t i rv h : Nat} {ok : Bool}
    (hm : Out.launch t i rv h ok ∈ (finish a).2) : Out.launch t i rv h ok ∈ a.ev := by
  unfold finish at hm
  rcases List.mem_append.mp hm with hm | hm
  · exact hm
  · split at hm <;> simp at hm

theorem mem_finish_release {a : Acc} {h : Nat}
    (hm : Out.release h ∈ (finish a).2) : Out.release h ∈ a.ev := by
  unfold finish at hm
  rcases List.mem_append.mp hm with hm | hm
  · exact hm
  · split at hm <;> simp at hm

theorem cancelOne_outs (a : State × List Out) (c : Nat) :
    ∀ o ∈ (cancelOne a c).2, o ∈ a.2 ∨ o = .stop c .cancel := by
  obtain ⟨s, outs⟩ := a
  simp only [cancelOne]
  split
  · intro o ho; exact Or.inl ho
  · split
    · intro o ho; exact Or.inl ho
    · intro o ho
      rcases List.mem_append.mp ho with ho | ho
      · exact Or.inl ho
      · exact Or.inr (by simpa using ho)

theorem cancel_fold_outs : ∀ (ids : List Nat) (a : State × List Out),
    ∀ o ∈ (ids.foldl cancelOne a).2, o ∈ a.2 ∨ ∃ c, o = .stop c .cancel
  | [], _, o, ho => Or.inl ho
  | c :: ids, a, o, ho => by
    rcases cancel_fold_outs ids (cancelOne a c) o ho with h | h
    · rcases cancelOne_outs a c o h with h | h
      · exact Or.inl h
      · exact Or.inr ⟨c, h⟩
    · exact Or.inr h

/-- A launcher call can only occur in a `ComputeTasks` step or in the step in which a task ends. -/
theorem step_launch_op {s s' : State} {op : Op} {outs : List Out} {t i rv h : Nat} {ok : Bool}
    (hs : step s op = .ok (s', outs)) (hm : Out.launch t i rv h ok ∈ outs) :
    (∃ es, op = .compute es) ∨ (∃ t' res en, op = .taskEnd t' res en) := by
  cases op with
  | compute es => exact Or.inl ⟨es, rfl⟩
  | taskEnd t' res en => exact Or.inr ⟨t', res, en, rfl⟩
  | retract ids =>
    simp only [step, retract] at hs
    cases hs
    split at hm <;> simp at hm
  | cancel ids =>
    simp only [step, cancel] at hs
    have hs := Except.ok.inj hs
    have := cancel_fold_outs ids (s, []) (.launch t i rv h ok) (by rw [hs]; exact hm)
    rcases this with h' | ⟨c, h'⟩
    · simp at h'
    · cases h'
  | timeoutFire t' =>
    simp only [step, timeoutFire] at hs
    split at hs
    · cases hs
    · split at hs
      · cases hs
      · cases hs
        split at hm <;> simp at hm
  | retractCheck order =>
    simp only [step, retractCheck] at hs
    split at hs
    · cases hs; simp at hm
    · split at hs
      · cases hs; simp at hm
      · split at hs
        · split at hs
          · cases hs
          · split at hs
            · cases hs; simp at hm
            · cases hs; simp at hm
        · cases hs
  | newRq id mts =>
    simp only [step, newRq] at hs
    split at hs
    · cases hs; simp at hm
    · cases hs
  | stop =>
    simp only [step] at hs
    cases hs; simp at hm

/-- The facts about the step in which a running task ends. -/
theorem taskEnd_spec {s s' : State} {t : Nat} {res : TaskResult} {en : List ((Nat × Nat) × Bool)}
    {outs : List Out} (hs : taskEnd s t res en = .ok (s', outs)) :
    ∃ r, s.running.find? (fun x => x.task.id == t) = some r ∧
      ∃ evs rest used,
        outs = evs ++ (if resultUpdates t res ++ rest = [] then [] else [.updates (resultUpdates t res ++ rest)]) ∧
        (∀ o ∈ evs, (∃ x ∈ s.backlog r.task.rq, ∃ ok, o = .launch x.id x.inst r.rv r.h ok) ∨ o = .release r.h) ∧
        (used = true → (∃ x ∈ s.backlog r.task.rq, Out.launch x.id x.inst r.rv r.h true ∈ evs) ∧
            Out.release r.h ∉ evs ∧ s'.live = s.live ∧ s'.blocked = s.blocked) ∧
        (used = false → Out.release r.h ∈ evs ∧ (∀ x i r' h', Out.launch x i r' h' true ∉ evs) ∧
            s'.live = s.live.erase r.h ∧
            s'.running = s.running.filter (fun x => x.task.id != t) ∧
            (s.blocked ≠ [] → (en.map (·.1)).isPerm s.blocked = true ∧
              s'.blocked = s.blocked.filter (fun k => (k, true) ∉ en) ∧
              ∀ k, (k, true) ∈ en → Update.enable k.1 k.2 ∈ rest) ∧
            (s.blocked = [] → s'.blocked = [])) := by
  simp only [taskEnd] at hs
  split at hs
  · cases hs
  · rename_i r hr
    refine ⟨r, hr, ?_⟩
    split at hs
    · cases hs
    · rename_i a used hpl
      obtain ⟨evs, more, e1, e2, e3, e4, e5, e6, e7, e8, e9⟩ := prefillLoop_spec _ hpl
      simp only [List.nil_append] at e1
      simp only at e2 e3 e7 e8 e9
      split at hs
      · rename_i hcond
        obtain ⟨hu, hb⟩ := hcond
        split at hs
        · rename_i hperm
          cases hs
          refine ⟨evs, more ++ ((en.filter (·.2)).map (·.1)).map (fun k => .enable k.1 k.2), false, ?_, e7,
            by simp, ?_⟩
          · simp only [e1, e2, List.append_assoc]
          · intro _
            obtain ⟨h1, h2, h3, h4⟩ := e9 hu
            refine ⟨h1, h2, h3, h4, ?_, ?_⟩
            · intro _
              refine ⟨by rw [← e3]; exact hperm, ?_, ?_⟩
              · show (a.s.blocked.filter _) = _
                rw [e3]
                apply List.filter_congr
                intro k _
                have hiff : k ∈ (en.filter (·.2)).map (·.1) ↔ (k, true) ∈ en := by
                  simp only [List.mem_map, List.mem_filter]
                  constructor
                  · rintro ⟨⟨k', b⟩, ⟨hk, hb'⟩, rfl⟩
                    simp only at hb'
                    subst hb'
                    exact hk
                  · intro hk
                    exact ⟨(k, true), ⟨hk, rfl⟩, rfl⟩
                by_cases hk : (k, true) ∈ en
                · simp [hiff, hk]
                · simp [hiff, hk]
              · intro k hk
                apply List.mem_append_right
                simp only [List.mem_map, List.mem_filter]
                exact ⟨k, ⟨(k, true), ⟨hk, rfl⟩, rfl⟩, rfl⟩
            · intro hnil
              rw [e3] at hb
              exact absurd hnil hb
        · cases hs
      · rename_i hcond
        cases hs
        refine ⟨evs, more, used, ?_, e7, ?_, ?_⟩
        · simp only [e1, e2]
        · intro hu
          obtain ⟨h1, h2, h3⟩ := e8 hu
          exact ⟨h1, h2, h3, e3⟩
        · intro hu
          obtain ⟨h1, h2, h3, h4⟩ := e9 hu
          refine ⟨h1, h2, h3, h4, ?_, ?_⟩
          · intro hb
            exact absurd ⟨hu, by rw [e3]; exact hb⟩ hcond
          · intro hb; rw [e3]; exact hb

end HqModel.Worker
