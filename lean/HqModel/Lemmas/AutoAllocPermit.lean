import HqModel.AutoAlloc.Model
/-!
`compute_submission_permit` iterates the queued allocations in hash-map order. The result does not depend on that
order, so the order is not a choice input of the model (which uses insertion order).
-/
namespace HqModel.AutoAlloc

theorem discount_swap (w a b : Nat) (l : List Nat) (acc : Nat × Nat) :
    discount w (a :: b :: l) acc = discount w (b :: a :: l) acc := by
  obtain ⟨mn, sn⟩ := acc
  simp only [discount]
  by_cases ha : w ≤ a <;> by_cases hb : w ≤ b <;> by_cases hm : 0 < mn <;> by_cases hm1 : 0 < mn - 1 <;>
    simp only [ha, hb, hm, hm1, and_true, and_false, if_true, if_false] <;>
    first
      | rfl
      | (exfalso; omega)
      | (congr 2 <;> omega)
      | trace_state

theorem discount_perm (w : Nat) (l1 l2 : List Nat) (h : l1.Perm l2) (acc : Nat × Nat) :
    discount w l1 acc = discount w l2 acc := by
  induction h generalizing acc with
  | nil => rfl
  | cons x _ ih =>
    obtain ⟨mn, sn⟩ := acc
    simp only [discount]
    split <;> exact ih _
  | swap x y l => exact discount_swap w y x l acc
  | trans _ _ ih1 ih2 => exact (ih1 acc).trans (ih2 acc)

theorem sum_perm (l1 l2 : List Nat) (h : l1.Perm l2) : l1.sum = l2.sum := by
  induction h with
  | nil => rfl
  | cons x _ ih => simp [ih]
  | swap x y l => simp only [List.sum_cons]; omega
  | trans _ _ ih1 ih2 => exact ih1.trans ih2

/-- `compute_submission_permit` does not depend on the (hash) order in which the allocations are stored. -/
theorem Queue.permit_perm (q q' : Queue) (r : QResp) (hp : q'.params = q.params) (h : q'.allocs.Perm q.allocs) :
    q'.permit r = q.permit r := by
  have hq : q'.queuedTargets.Perm q.queuedTargets := (h.filter _).map _
  have hc : q'.queuedCount = q.queuedCount := (h.filter _).length_eq
  have ha : q'.activeWorkers = q.activeWorkers := sum_perm _ _ ((h.filter _).map _)
  unfold Queue.permit
  simp only [hp, hc, ha, discount_perm _ _ _ hq]
end HqModel.AutoAlloc
