import HqModel.Lemmas.CoreNoPanicBase
/-!
C09 progress: from one step to runs. Generic induction: an invariant `G U s` (with the ghost list `U` of submitted
ids) that (1) excludes a panic of the next step under the side condition `C` and (2) is preserved by a successful
step, excludes a panic of every run whose operations satisfy `C` and that submits no id twice.
-/
namespace HqModel.Core

namespace NP

theorem run_no_panic_gen {G : List TaskId → State → Prop} {C : State → Op → Prop}
    (hstep : ∀ U s op, G U s → C s op → (∀ x ∈ op.newIds, x ∉ U) → op.newIds.Nodup → NoCorePanic (step s op))
    (hinv : ∀ U s op s' out, G U s → C s op → (∀ x ∈ op.newIds, x ∉ U) → op.newIds.Nodup →
      step s op = .ok (s', out) → G (U ++ op.newIds) s') :
    ∀ (ops : List Op) (s : State) (U : List TaskId), G U s → (U ++ allNewIds ops).Nodup → RunOk C s ops →
      NoCorePanic (run s ops) ∧ ∀ s' out, run s ops = .ok (s', out) → G (U ++ allNewIds ops) s'
  | [], s, U, hg, _, _ => by
    refine ⟨NoCorePanic.ok _, ?_⟩
    intro s' out h
    simp only [run] at h
    cases h
    simpa [allNewIds] using hg
  | op :: rest, s, U, hg, hnd, hok => by
    simp only [RunOk] at hok
    rw [allNewIds_cons] at hnd
    have hfresh : ∀ x ∈ op.newIds, x ∉ U := by
      intro x hx hu
      rw [List.nodup_append] at hnd
      exact hnd.2.2 x hu x (List.mem_append_left _ hx) rfl
    have hndo : op.newIds.Nodup := by
      rw [List.nodup_append] at hnd
      exact (List.nodup_append.mp hnd.2.1).1
    have hnd' : (U ++ op.newIds ++ allNewIds rest).Nodup := by rw [List.append_assoc]; exact hnd
    have h1 := hstep U s op hg hok.1 hfresh hndo
    cases hs : step s op with
    | error e =>
      constructor
      · intro site hr
        simp only [run, hs] at hr
        cases hr
        exact h1 site hs
      · intro s' out hr
        simp only [run, hs] at hr
        cases hr
    | ok r =>
      obtain ⟨s1, o1⟩ := r
      have hok2 := hok.2
      rw [hs] at hok2
      have hg1 := hinv U s op s1 o1 hg hok.1 hfresh hndo hs
      obtain ⟨ih1, ih2⟩ := run_no_panic_gen hstep hinv rest s1 (U ++ op.newIds) hg1 hnd' hok2
      constructor
      · intro site hr
        simp only [run, hs] at hr
        cases hr2 : run s1 rest with
        | error e =>
          rw [hr2] at hr
          cases hr
          exact ih1 site hr2
        | ok r2 => rw [hr2] at hr; cases hr
      · intro s' out hr
        simp only [run, hs] at hr
        cases hr2 : run s1 rest with
        | error e => rw [hr2] at hr; cases hr
        | ok r2 =>
          obtain ⟨s2, o2⟩ := r2
          rw [hr2] at hr
          cases hr
          rw [allNewIds_cons, ← List.append_assoc]
          exact ih2 _ _ hr2

theorem run_inv_gen {G : List TaskId → State → Prop} {C : State → Op → Prop}
    (hinv : ∀ U s op s' out, G U s → C s op → (∀ x ∈ op.newIds, x ∉ U) → op.newIds.Nodup →
      step s op = .ok (s', out) → G (U ++ op.newIds) s') :
    ∀ (ops : List Op) (s : State) (U : List TaskId), G U s → (U ++ allNewIds ops).Nodup → RunOk C s ops →
      ∀ s' out, run s ops = .ok (s', out) → G (U ++ allNewIds ops) s'
  | [], s, U, hg, _, _ => by
    intro s' out h
    simp only [run] at h
    cases h
    simpa [allNewIds] using hg
  | op :: rest, s, U, hg, hnd, hok => by
    simp only [RunOk] at hok
    rw [allNewIds_cons] at hnd
    have hfresh : ∀ x ∈ op.newIds, x ∉ U := by
      intro x hx hu
      rw [List.nodup_append] at hnd
      exact hnd.2.2 x hu x (List.mem_append_left _ hx) rfl
    have hndo : op.newIds.Nodup := by
      rw [List.nodup_append] at hnd
      exact (List.nodup_append.mp hnd.2.1).1
    have hnd' : (U ++ op.newIds ++ allNewIds rest).Nodup := by rw [List.append_assoc]; exact hnd
    intro s' out hr
    cases hs : step s op with
    | error e => simp only [run, hs] at hr; cases hr
    | ok r =>
      obtain ⟨s1, o1⟩ := r
      have hok2 := hok.2
      rw [hs] at hok2
      simp only [run, hs] at hr
      have hg1 := hinv U s op s1 o1 hg hok.1 hfresh hndo hs
      cases hr2 : run s1 rest with
      | error e => rw [hr2] at hr; cases hr
      | ok r2 =>
        obtain ⟨s2, o2⟩ := r2
        rw [hr2] at hr
        cases hr
        rw [allNewIds_cons, ← List.append_assoc]
        exact run_inv_gen hinv rest s1 (U ++ op.newIds) hg1 hnd' hok2 _ _ hr2

end NP

end HqModel.Core
