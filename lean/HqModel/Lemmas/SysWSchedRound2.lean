import HqModel.Lemmas.SysWSchedRound
/-!
One scheduling round, part 3: `SI` through the multi-node placements (`mapMn`) and the proactive filling
(`proactive`: `prefillWorker.back`, `prefillWorker.mark`).
-/
namespace HqModel.Core
open HqModel HqModel.SysW

/-! ### multi-node placements -/

theorem mapMnSets_si (sets : List (List Nat)) (c0 s s' : State) (m : List WUpdate) (rq : Nat) (acc acc' : List TaskId)
    (hi : SI c0 s m acc) (h : s.mapMnSets rq sets acc = .ok (s', acc')) : SI c0 s' m acc' := by
  induction sets generalizing s acc with
  | nil => simp only [State.mapMnSets] at h; cases h; exact hi
  | cons ws rest ih =>
    simp only [State.mapMnSets] at h
    split at h
    · cases h
    · rename_i q hq
      split at h
      · cases h
      · rename_i p ids more hr
        split at h
        · cases h
        · rename_i id ids'
          split at h
          · cases h
          · rename_i s2 hm
            split at h
            · cases h
            · rename_i task hg
              split at h
              · cases h
              · rename_i hst
                have hst : task.state = .waiting 0 := Classical.not_not.mp hst
                have e2 : s2.tasks = s.tasks := by
                  have := setMnAll_tasks _ _ _ _ _ hm
                  exact this
                have ht : s2.task? id = some task := task?_of_get hg
                have hs0 : stOf s.tasks id = some (.waiting 0) := by
                  rw [← e2, ← hst]; exact stOf_of_find ht
                have hput := stOf_setTask (t' := { task with state := .runningMN ws }) ht rfl
                refine ih _ _ ?_ h
                refine SI.step hi hi.nd (fun t => t = id) (fun t hne => ?_) (fun t he => ?_)
                · refine ⟨by rw [hput, if_neg hne, e2], fun _ => rfl, fun _ => rfl, ?_⟩
                  rw [List.count_append]
                  simp [List.count_cons, Ne.symm hne]
                · subst he
                  have h0 := hi.t t
                  rw [hs0] at h0
                  obtain ⟨ea, hA, hP, hk⟩ := h0.of_waiting
                  rw [ea, hput, if_pos rfl]
                  refine .inr (.inr (.inr ⟨ws, rfl, hA, hP, ?_⟩))
                  rw [List.count_append, hk]
                  simp

theorem mapMn_si (es : List MnEntry) (c0 s s' : State) (m : List WUpdate) (acc acc' : List TaskId)
    (hi : SI c0 s m acc) (h : s.mapMn es acc = .ok (s', acc')) : SI c0 s' m acc' := by
  induction es generalizing s acc with
  | nil => simp only [State.mapMn] at h; cases h; exact hi
  | cons e rest ih =>
    simp only [State.mapMn] at h
    split at h
    · cases h
    · rename_i s1 acc1 h1
      exact ih _ _ (mapMnSets_si _ c0 _ _ m _ _ _ hi h1) h

/-! ### proactive filling -/

/-- `mark`: the ids are distinct, were Waiting, are Prefilled on `w` afterwards; nothing else changes -/
theorem prefillMark_spec (w : Nat) (l : List TaskId) (s s' : State) (h : State.prefillWorker.mark w s l = .ok s') :
    l.Nodup ∧ (∀ id ∈ l, ∃ n, stOf s.tasks id = some (.waiting n)) ∧
    ∀ u, stOf s'.tasks u = if u ∈ l then some (.prefilled w) else stOf s.tasks u := by
  induction l generalizing s with
  | nil => simp only [State.prefillWorker.mark] at h; cases h; exact ⟨List.nodup_nil, fun _ h => (by cases h), fun _ => (by simp)⟩
  | cons id rest ih =>
    simp only [State.prefillWorker.mark] at h
    split at h
    · cases h
    · rename_i t hg
      split at h
      · rename_i n hs
        split at h
        · cases h
        · rename_i s2 hw
          have ht : s.task? id = some t := task?_of_get hg
          have hput := stOf_setTask (t' := { t with state := .prefilled w }) ht rfl
          have e2 : ∀ u, stOf s2.tasks u = if u = id then some (.prefilled w) else stOf s.tasks u := by
            intro u
            have := withWorker_tasks hw
            rw [this]; exact hput u
          obtain ⟨a, b, c⟩ := ih _ h
          have hnot : id ∉ rest := by
            intro hm
            obtain ⟨n', e⟩ := b id hm
            rw [e2, if_pos rfl] at e; cases e
          refine ⟨List.nodup_cons.mpr ⟨hnot, a⟩, ?_, ?_⟩
          · intro x hx
            rcases List.mem_cons.mp hx with rfl | hx
            · exact ⟨n, by rw [← hs]; exact stOf_of_find ht⟩
            · obtain ⟨n', e⟩ := b x hx
              rw [e2] at e
              split at e
              · cases e
              · exact ⟨n', e⟩
          · intro u
            rw [c u, e2 u]
            by_cases hu : u ∈ rest
            · simp [hu]
            · by_cases hi : u = id
              · simp [hi]
              · simp [hu, hi]
      · cases h

theorem filter_eq_of_nodup {l : List TaskId} (hn : l.Nodup) (t : TaskId) :
    (l.filter fun x => x = t) = if t ∈ l then [t] else [] := by
  induction l with
  | nil => rfl
  | cons x xs ih =>
    simp only [List.nodup_cons] at hn
    simp only [List.filter_cons, ih hn.2]
    by_cases hx : x = t
    · subst hx
      simp [hn.1]
    · have : ¬ t = x := fun e => hx e.symm
      simp [hx, this]

theorem prefillWorker_si {c0 s s' : State} {m m' : List WUpdate} {acc : List TaskId} {rq size w : Nat}
    (hi : SI c0 s m acc) (h : s.prefillWorker m rq size w = .ok (s', m')) : SI c0 s' m' acc := by
  simp only [State.prefillWorker] at h
  split at h
  · cases h
  · rename_i q hq
    split at h
    · cases h
    · split at h
      · cases h
      · rename_i pf hpf
        split at h
        · cases h
        · rename_i s2 keep hb
          split at h
          · cases h
          · rename_i s3 hmk
            cases h
            have eb : s2.tasks = s.tasks := (prefillBack_spec _ _ _ _ _ _ hb).1.t
            obtain ⟨hnd, hwait, hch⟩ := prefillMark_spec _ _ _ _ hmk
            have hf : ∀ u : WUpdate, ({ u with prefills := u.prefills ++ keep } : WUpdate).w = u.w := fun _ => rfl
            have hP : ∀ t w', pItems (updAt m w fun u => { u with prefills := u.prefills ++ keep }) w' t =
                pItems m w' t ++ (if w = w' then (if t ∈ keep then [t] else []) else []) := by
              intro t w'
              show items (selP t) _ w' = _
              rw [items_updAt (selP t) (D := keep.filter fun x => x = t) hi.nd hf (fun u => selP_append t u _) rfl w',
                filter_eq_of_nodup hnd]
              rfl
            have hA : ∀ t w', aItems (updAt m w fun u => { u with prefills := u.prefills ++ keep }) w' t =
                aItems m w' t := fun t w' => items_updAt_same (selA t) hi.nd hf (fun _ => rfl) rfl w'
            refine SI.step hi (updAt_nodup hf hi.nd) (fun t => t ∈ keep) (fun t hne => ?_) (fun t he => ?_)
            · refine ⟨by rw [hch, if_neg hne]; exact congrArg (fun ts => stOf ts t) eb, hA t, fun w' => ?_, rfl⟩
              rw [hP]; simp [hne]
            · obtain ⟨n, hs⟩ := hwait t he
              have h0 := hi.t t
              rw [← eb, hs] at h0
              obtain ⟨ea, hA0, hP0, hk⟩ := h0.of_waiting
              rw [ea, hch, if_pos he]
              refine .inr (.inr (.inl ⟨w, rfl, ?_, fun w' hne => ?_, fun w' => ?_, hk⟩))
              · show pItems _ _ _ = _
                rw [hP]
                have := hP0 w
                simp only at this
                rw [this]; simp [he]
              · show pItems _ _ _ = _
                rw [hP]
                have := hP0 w'
                simp only at this
                rw [this]; simp [Ne.symm hne]
              · show aItems _ _ _ = _
                rw [hA]; exact hA0 w'

theorem prefillWorkers_si (ws : List Nat) (c0 s s' : State) (m m' : List WUpdate) (acc : List TaskId) (rq size : Nat)
    (hi : SI c0 s m acc) (h : s.prefillWorkers m rq size ws = .ok (s', m')) : SI c0 s' m' acc := by
  induction ws generalizing s m with
  | nil => simp only [State.prefillWorkers] at h; cases h; exact hi
  | cons w rest ih =>
    simp only [State.prefillWorkers] at h
    split at h
    · cases h
    · rename_i s1 m1 h1
      exact ih _ _ (prefillWorker_si hi h1) h

theorem proactive_si (n : Nat) (c0 s s' : State) (m m' : List WUpdate) (acc : List TaskId)
    (orders : List (Nat × List Nat)) (top : Int) (rq : Nat) (hi : SI c0 s m acc)
    (h : s.proactive m orders top n rq = .ok (s', m')) : SI c0 s' m' acc := by
  have hp := prefillWorkers_si
  fun_induction State.proactive s m orders top n rq <;> grind

end HqModel.Core
