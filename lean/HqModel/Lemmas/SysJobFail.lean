import HqModel.Lemmas.SysJobOps
/-!
`process_task_failed` (the `on_task_error` callback, including the max-fails decision and the list it hands back to
the core) and `cancel_job` through the view `tst`.
-/
namespace HqModel.Sys
open HqModel HqModel.Job

theorem markAll_failed (target : TState) (site : String) :
    ∀ (ids : List TaskId) (job job' : Job), job.markAll target site ids = .ok job' → job'.cnt.failed = job.cnt.failed := by
  intro ids
  induction ids with
  | nil => intro job job' h; simp only [Job.markAll] at h; cases h; rfl
  | cons p rest ih =>
    intro job job' h
    obtain ⟨j, t⟩ := p
    simp only [Job.markAll] at h
    split at h
    · cases h
    · split at h
      · cases h
      · have := ih _ _ h; exact this
      · have := ih _ _ h; exact this
      · cases h

theorem abortTasks_failed {job job' : Job} {ids : List TaskId} {evs : List Ev}
    (h : job.abortTasks ids = .ok (job', evs)) : job'.cnt.failed = job.cnt.failed := by
  unfold Job.abortTasks at h
  split at h
  · cases h; rfl
  · split at h
    · cases h
    · rename_i job1 hm
      cases h
      have := markAll_failed _ _ _ _ _ hm
      exact this

theorem map_snd_map_pair (j : Nat) (l : List Nat) : (l.map fun x => ((j, x) : TaskId)).map (·.2) = l := by
  induction l with
  | nil => rfl
  | cons a as ih => simp only [List.map_cons, ih]

/-- ids of one job: distinct pairs have distinct second components -/
theorem nodup_snd_of_same_fst {l : List TaskId} {j : Nat} (hj : ∀ p ∈ l, p.1 = j) (hn : l.Nodup) :
    (l.map (·.2)).Nodup := by
  induction l with
  | nil => simp
  | cons p rest ih =>
    simp only [List.nodup_cons, List.map_cons] at hn ⊢
    refine ⟨?_, ih (fun q hq => hj q (by simp [hq])) hn.2⟩
    intro hm
    obtain ⟨q, hq, he⟩ := List.mem_map.mp hm
    have : q = p := Prod.ext ((hj q (by simp [hq])).trans (hj p (by simp)).symm) he
    exact hn.1 (this ▸ hq)

theorem mem_map_snd_iff {l : List TaskId} {j : Nat} (hj : ∀ p ∈ l, p.1 = j) (x : Nat) :
    x ∈ l.map (·.2) ↔ (j, x) ∈ l := by
  constructor
  · intro h
    obtain ⟨q, hq, he⟩ := List.mem_map.mp h
    have : q = (j, x) := Prod.ext (hj q hq) he
    exact this ▸ hq
  · intro h; exact List.mem_map.mpr ⟨(j, x), h, rfl⟩

/-- the view after `process_task_failed`, before the max-fails abort -/
def failedView (js : Job.State) (t : TaskId) (cons : List TaskId) (x : TaskId) : Option TState :=
  if x = t then some .failed else if x ∈ cons then some .aborted else tst js x

/-- **`process_task_failed`**: the consumers become `aborted`, the task `failed`; the list handed back to the core
is empty, or — exactly when the job has a limit and now more failed tasks than it allows — ALL tasks of the job that
are still non-terminal, which become `aborted`; `sent` loses exactly these ids -/
theorem taskFailed_spec {js js' : Job.State} {t : TaskId} {cons ret : List TaskId} {evs : List Ev}
    (hwf : StateWF js) (h : js.taskFailed t cons = .ok (js', evs, ret)) :
    SameRest js js' ∧ (∀ c ∈ cons, c.1 = t.1) ∧ live (failedView js t cons t) = false ∧
    (∀ x, tst js' x = if x ∈ ret then some .aborted else failedView js t cons x) ∧
    (∀ x, x ∈ js'.sent ↔ x ∈ js.sent ∧ x ≠ t ∧ x ∉ cons ∧ x ∉ ret) ∧
    ∃ job', js'.getJob t.1 = some job' ∧
      ((∃ m, job'.maxFails = some m ∧ job'.cnt.failed > m ∧
          ∀ x, x ∈ ret ↔ x.1 = t.1 ∧ live (failedView js t cons x) = true) ∨
       ((∀ m, job'.maxFails = some m → ¬ job'.cnt.failed > m) ∧ ret = [])) := by
  simp only [Job.State.taskFailed] at h
  split at h
  · cases h
  · rename_i job hj
    have hid := getJob_id hj
    have hw := getJob_wf hwf hj
    split at h
    · cases h
    · rename_i job1 ev1 ha
      obtain ⟨m1, hc1, hl1⟩ := abortTasks_spec ha
      have hw1 := hw.abortTasks ha
      split at h
      · cases h
      · rename_i job2 ev2 hf
        obtain ⟨m2, hlive2, hl2⟩ := setFailed_spec hf
        have hw2 := hw1.setFailed hf
        have hid2 : job2.id = t.1 := (m2.id.trans m1.id).trans hid
        have hcons : ∀ c ∈ cons, c.1 = t.1 := fun c hc => (hc1 c hc).trans hid
        -- the view of job2
        have hv2 : ∀ x : Nat, lookup job2.tasks x = failedView js t cons (t.1, x) := by
          intro x
          rw [hl2, hl1, ← tst_of_getJob hj x]
          simp only [failedView, mem_map_snd_iff hcons]
          by_cases hx : x = t.2
          · subst hx; simp
          · have : ¬ (t.1, x) = t := fun e => hx (by rw [← e])
            simp [hx, this]
        have hself : live (failedView js t cons t) = false := by simp [failedView, live, TState.terminal]
        have hput2 : ∀ x, tst (js.putJob job2) x = failedView js t cons x := by
          intro x
          rw [tst_putJob hj hid2 x]
          by_cases hx1 : x.1 = t.1
          · have : x = (t.1, x.2) := Prod.ext hx1 rfl
            simp only [hx1, if_true, hv2]; rw [← this]
          · have h1 : ¬ x = t := fun e => hx1 (by rw [e])
            have h2 : x ∉ cons := fun e => hx1 (hcons x e)
            simp [hx1, failedView, h1, h2]
        have hsent2 : ∀ x, x ∈ removeAll js.sent (t :: cons) ↔ x ∈ js.sent ∧ x ≠ t ∧ x ∉ cons := by
          intro x; rw [mem_removeAll]; simp [not_or]
        have hg2 : (js.putJob job2).getJob t.1 = some job2 := by
          simp only [Job.State.getJob, Job.State.putJob, findJob_replaceJob, hid2, if_true]
          rw [show findJob js.jobs t.1 = some job from hj]; rfl
        -- the two ways out without the abort
        have plain : (∀ m, job2.maxFails = some m → ¬ job2.cnt.failed > m) →
            (Except.ok ({ js.putJob job2 with sent := removeAll js.sent (t :: cons) }, ev1 ++ ev2, ([] : List TaskId)) :
              Except Job.Stop _) = .ok (js', evs, ret) →
            SameRest js js' ∧ (∀ c ∈ cons, c.1 = t.1) ∧ live (failedView js t cons t) = false ∧
            (∀ x, tst js' x = if x ∈ ret then some .aborted else failedView js t cons x) ∧
            (∀ x, x ∈ js'.sent ↔ x ∈ js.sent ∧ x ≠ t ∧ x ∉ cons ∧ x ∉ ret) ∧
            ∃ job', js'.getJob t.1 = some job' ∧
              ((∃ m, job'.maxFails = some m ∧ job'.cnt.failed > m ∧
                  ∀ x, x ∈ ret ↔ x.1 = t.1 ∧ live (failedView js t cons x) = true) ∨
               ((∀ m, job'.maxFails = some m → ¬ job'.cnt.failed > m) ∧ ret = [])) := by
          intro hno e
          cases e
          refine ⟨⟨rfl, rfl, replaceJob_ids _ _⟩, hcons, hself, ?_, ?_, job2, hg2, .inr ⟨hno, rfl⟩⟩
          · intro x; simp only [List.not_mem_nil, if_false]; exact hput2 x
          · intro x; simp only [List.not_mem_nil, not_false_eq_true, and_true]; exact hsent2 x
        split at h
        · rename_i m hm
          split at h
          · rename_i hgt
            split at h
            · cases h
            · rename_i job3 ev3 ha3
              cases h
              obtain ⟨m3, hc3, hl3⟩ := abortTasks_spec ha3
              have hid3 : job3.id = t.1 := m3.id.trans hid2
              have hids : ∀ p ∈ job2.nonFinishedTaskIds.map (fun x => (job2.id, x)), p.1 = t.1 := by
                intro p hp
                obtain ⟨x, _, rfl⟩ := List.mem_map.mp hp
                exact hid2
              have hret : ∀ x, x ∈ job2.nonFinishedTaskIds.map (fun x => (job2.id, x)) ↔
                  x.1 = t.1 ∧ live (failedView js t cons x) = true := by
                intro x
                constructor
                · intro hx
                  obtain ⟨y, hy, rfl⟩ := List.mem_map.mp hx
                  refine ⟨hid2, ?_⟩
                  rw [hid2, ← hv2]
                  exact (mem_nonFinished hw2.nodup y).mp hy
                · rintro ⟨h1, h2⟩
                  have : x = (t.1, x.2) := Prod.ext h1 rfl
                  rw [this, ← hv2] at h2
                  refine List.mem_map.mpr ⟨x.2, (mem_nonFinished hw2.nodup x.2).mpr h2, ?_⟩
                  rw [hid2]; exact this.symm
              have hg3 : ((js.putJob job2).putJob job3).getJob t.1 = some job3 := by
                simp only [Job.State.getJob, Job.State.putJob, findJob_replaceJob, hid3, hid2, if_true]
                rw [show findJob js.jobs t.1 = some job from hj]; rfl
              refine ⟨⟨rfl, rfl, ?_⟩, hcons, hself, ?_, ?_, job3, hg3, .inl ⟨m, ?_, ?_, hret⟩⟩
              · show (replaceJob (replaceJob js.jobs job2) job3).map (·.id) = _
                rw [replaceJob_ids, replaceJob_ids]
              · intro x
                show tst ((js.putJob job2).putJob job3) x = _
                have hg2' : ({ js.putJob job2 with sent := removeAll js.sent (t :: cons) } : Job.State).getJob t.1 = some job2 := hg2
                rw [tst_putJob hg2 hid3 x]
                by_cases hx1 : x.1 = t.1
                · have hx : x = (t.1, x.2) := Prod.ext hx1 rfl
                  simp only [hx1, if_true, hl3, mem_map_snd_iff hids]
                  rw [← hx, hv2, ← hx]
                · have : x ∉ job2.nonFinishedTaskIds.map (fun x => (job2.id, x)) := fun e => hx1 (hids x e)
                  simp only [hx1, if_false, this, hput2]
              · intro x
                show x ∈ removeAll (removeAll js.sent (t :: cons)) _ ↔ _
                rw [mem_removeAll, hsent2]
                simp only [and_assoc]
              · rw [m3.maxFails]; exact hm
              · rw [abortTasks_failed ha3]; exact hgt
          · rename_i hle
            refine plain ?_ h
            intro m' hm'
            rw [hm] at hm'
            cases hm'
            exact hle
        · rename_i hn
          refine plain ?_ h
          intro m' hm'
          rw [hn] at hm'
          cases hm'

/-- **`process_task_failed` cannot panic** when the failed task and the reported consumers are distinct
non-terminal tasks of one stored job -/
theorem taskFailed_ok {js : Job.State} {t : TaskId} {cons : List TaskId} (hwf : StateWF js)
    (hj : ∀ c ∈ cons, c.1 = t.1) (hnd : cons.Nodup) (ht : t ∉ cons)
    (hlc : ∀ c ∈ cons, live (tst js c) = true) (hlt : live (tst js t) = true) :
    ∃ r, js.taskFailed t cons = .ok r := by
  obtain ⟨st, hst, _⟩ := live_some hlt
  obtain ⟨job, hg, hl⟩ := getJob_of_tst (js := js) (t := t) (by rw [hst]; rfl)
  have hid := getJob_id hg
  have hw := getJob_wf hwf hg
  have hcj : ∀ p ∈ cons, p.1 = job.id := fun p hp => (hj p hp).trans hid.symm
  obtain ⟨r1, ha⟩ := abortTasks_ok (job := job) hcj (nodup_snd_of_same_fst hj hnd) (by
    intro p hp
    have : tst js p = lookup job.tasks p.2 := by
      have := tst_of_getJob hg p.2
      rw [← hj p hp] at this; simpa using this
    rw [← this]; exact hlc p hp)
  obtain ⟨job1, ev1⟩ := r1
  obtain ⟨m1, _, hl1⟩ := abortTasks_spec ha
  have hw1 := hw.abortTasks ha
  have hlt1 : live (lookup job1.tasks t.2) = true := by
    have : (t.1, t.2) ∉ cons := ht
    simp only [hl1, mem_map_snd_iff hj, this, if_false, hl]; exact hlt
  obtain ⟨r2, hf⟩ := setFailed_ok hlt1
  obtain ⟨job2, ev2⟩ := r2
  have hw2 := hw1.setFailed hf
  simp only [Job.State.taskFailed, hg, ha, hf]
  split
  · split
    · obtain ⟨r3, ha3⟩ := abortTasks_ok (job := job2) (ids := job2.nonFinishedTaskIds.map fun x => (job2.id, x))
        (by intro p hp; obtain ⟨x, _, rfl⟩ := List.mem_map.mp hp; rfl)
        (by rw [map_snd_map_pair]; exact nonFinished_nodup hw2.nodup)
        (by
          intro p hp
          obtain ⟨x, hx, rfl⟩ := List.mem_map.mp hp
          exact (mem_nonFinished hw2.nodup x).mp hx)
      rw [ha3]; exact ⟨_, rfl⟩
    · exact ⟨_, rfl⟩
  · exact ⟨_, rfl⟩

/-! ### `cancel_job` -/

theorem cancelJob_spec {js js' : Job.State} {j : Nat} {evs : List Ev} {resp : CancelResp} (hwf : StateWF js)
    (h : js.cancelJob j = .ok (js', evs, resp)) :
    SameRest js js' ∧
    (∀ x, tst js' x = if x.1 = j ∧ live (tst js x) = true then some .canceled else tst js x) ∧
    (∀ x, x ∈ js'.sent ↔ x ∈ js.sent ∧ ¬ (x.1 = j ∧ live (tst js x) = true)) ∧
    ((resp = .invalidJob ∧ js.getJob j = none) ∨
     ∃ ts n, resp = .canceled ts n ∧ ∀ x, x ∈ ts ↔ live (tst js (j, x)) = true) := by
  simp only [Job.State.cancelJob] at h
  split at h
  · rename_i hn
    cases h
    have hno : ∀ x : TaskId, x.1 = j → tst js x = none := by
      intro x hx
      simp only [tst, tstJ]
      rw [hx, show findJob js.jobs j = none from hn]
    refine ⟨SameRest.refl _, ?_, ?_, .inl ⟨rfl, hn⟩⟩
    · intro x
      by_cases hx : x.1 = j
      · simp [hno x hx, live]
      · simp [hx]
    · intro x
      by_cases hx : x.1 = j
      · simp [hno x hx, live]
      · simp [hx]
  · rename_i job hj
    have hid := getJob_id hj
    have hw := getJob_wf hwf hj
    have hmem : ∀ x, x ∈ job.nonFinishedTaskIds ↔ live (tst js (j, x)) = true := by
      intro x; rw [tst_of_getJob hj]; exact mem_nonFinished hw.nodup x
    split at h
    · rename_i he
      cases h
      have he' : job.nonFinishedTaskIds = [] := by simpa using he
      have hnone : ∀ x : TaskId, x.1 = j → live (tst js x) = false := by
        intro x hx
        have := not_congr (hmem x.2)
        rw [he'] at this
        have hxe : x = (j, x.2) := Prod.ext hx rfl
        rw [← hxe] at this
        simpa using this
      refine ⟨SameRest.refl _, ?_, ?_, .inr ⟨[], _, rfl, ?_⟩⟩
      · intro x
        by_cases hx : x.1 = j
        · simp [hnone x hx]
        · simp [hx]
      · intro x
        by_cases hx : x.1 = j
        · simp [hnone x hx]
        · simp [hx]
      · intro x; rw [← hmem, he']
    · split at h
      · cases h
      · rename_i job' evs' hc
        cases h
        obtain ⟨m, hall, hl⟩ := setCancel_spec hc
        have hids : ∀ p ∈ job.nonFinishedTaskIds.map (fun t => (j, t)), p.1 = j := by
          intro p hp; obtain ⟨x, _, rfl⟩ := List.mem_map.mp hp; rfl
        have hin : ∀ x : TaskId, x ∈ job.nonFinishedTaskIds.map (fun t => (j, t)) ↔ x.1 = j ∧ live (tst js x) = true := by
          intro x
          constructor
          · intro hx
            obtain ⟨y, hy, rfl⟩ := List.mem_map.mp hx
            exact ⟨rfl, (hmem y).mp hy⟩
          · rintro ⟨h1, h2⟩
            have hxe : x = (j, x.2) := Prod.ext h1 rfl
            rw [hxe] at h2
            exact List.mem_map.mpr ⟨x.2, (hmem x.2).mpr h2, hxe.symm⟩
        refine ⟨⟨rfl, rfl, replaceJob_ids _ _⟩, ?_, ?_, .inr ⟨_, _, rfl, hmem⟩⟩
        · intro x
          show tst (js.putJob job') x = _
          rw [tst_putJob hj (m.id.trans hid) x]
          by_cases hx : x.1 = j
          · have hxe : x = (j, x.2) := Prod.ext hx rfl
            have h3 : tst js x = lookup job.tasks x.2 := by rw [hxe, tst_of_getJob hj]
            simp only [hx, if_true, true_and, hl, mem_map_snd_iff hids]
            rw [← hxe]
            simp only [hin x, hx, true_and, h3]
          · simp [hx]
        · intro x
          show x ∈ removeAll js.sent _ ↔ _
          rw [mem_removeAll, hin]

theorem cancelJob_ok {js : Job.State} (hwf : StateWF js) (j : Nat) : ∃ r, js.cancelJob j = .ok r := by
  simp only [Job.State.cancelJob]
  split
  · exact ⟨_, rfl⟩
  · rename_i job hj
    have hid := getJob_id hj
    have hw := getJob_wf hwf hj
    split
    · exact ⟨_, rfl⟩
    · obtain ⟨r, hr⟩ := setCancel_ok (job := job) (ids := job.nonFinishedTaskIds.map fun t => (j, t))
        (by intro p hp; obtain ⟨x, _, rfl⟩ := List.mem_map.mp hp; exact hid.symm)
        (by rw [map_snd_map_pair]; exact nonFinished_nodup hw.nodup)
        (by
          intro p hp
          obtain ⟨x, hx, rfl⟩ := List.mem_map.mp hp
          exact (mem_nonFinished hw.nodup x).mp hx)
      rw [hr]; exact ⟨_, rfl⟩

end HqModel.Sys
