import HqModel.Lemmas.CoreNoPanicLoops
/-!
C09 progress, part 6: the functions of one scheduling round succeed (or refuse the recorded solution with a `!bad…`
site), from LOCAL facts about the state they are applied to:
`setMnAll_ok`, `placeSn_np`, `mapMnSets_one_ok`, `prefillBack_ok`, `prefillMark_ok`, `prefillWorker_ok`,
`computeList_ok`, `msgsOfAll_ok`, `mnMsgs_ok`.
-/
namespace HqModel.Core

namespace NP

/-! ### multi-node placement -/

theorem setMnAll_ok (id : TaskId) : ∀ (ws : List Nat) (s : State) (first : Bool), ws.Nodup →
    (∀ w ∈ ws, ∃ wk, s.worker? w = some wk ∧ wk.isFree = true) → ∃ s', setMnAll s id ws first = .ok s'
  | [], s, _, _, _ => ⟨s, rfl⟩
  | w :: rest, s, first, hnd, h => by
    obtain ⟨wk, hw, hf⟩ := h w List.mem_cons_self
    have hwid : wk.id = w := findWorker_some_id hw
    have hww := withWorker_ok (f := fun x => x.setMn id first) hw (setMn_ok (t := id) (root := first) hf)
    simp only [setMnAll, hww]
    apply setMnAll_ok id rest _ false (List.nodup_cons.mp hnd).2
    intro x hx
    have hne : x ≠ w := fun e => (List.nodup_cons.mp hnd).1 (e ▸ hx)
    obtain ⟨wkx, hwx, hfx⟩ := h x (List.mem_cons_of_mem _ hx)
    refine ⟨wkx, ?_, hfx⟩
    show findWorker (putWorker s.workers _) x = some wkx
    rw [findWorker_putWorker]
    have : ¬ x = ({ wk with assign := .mn id first false } : Worker).id := by show ¬ x = wk.id; rw [hwid]; exact hne
    simp only [this, if_false]
    exact hwx

/-- one multi-node set: the queue exists, its first entry offers an id that is a `Waiting 0` task, the workers are
distinct, existing and free -/
theorem mapMnSets_one_ok {s : State} {rq : Nat} {ws : List Nat} {acc : List TaskId} {q : Queue}
    (hq : s.queues[rq]? = some q) (hne : q.ready ≠ []) (hent : ∀ e ∈ q.ready, e.2 ≠ [])
    (hnd : ws.Nodup) (hws : ∀ w ∈ ws, ∃ wk, s.worker? w = some wk ∧ wk.isFree = true)
    (hhead : ∀ e ∈ q.ready, ∀ id ∈ e.2, ∃ task, s.task? id = some task ∧ task.state = .waiting 0) :
    ∃ r, s.mapMnSets rq [ws] acc = .ok r := by
  simp only [State.mapMnSets, hq]
  cases hr : q.ready with
  | nil => exact absurd hr hne
  | cons e more =>
    obtain ⟨p, ids⟩ := e
    have hmem : (p, ids) ∈ q.ready := by rw [hr]; exact List.mem_cons_self
    cases hi : ids with
    | nil => exact absurd hi (hent (p, ids) hmem)
    | cons id ids' =>
      simp only
      obtain ⟨task, ht, hs⟩ := hhead (p, ids) hmem id (by rw [hi]; exact List.mem_cons_self)
      obtain ⟨s2, h2⟩ := setMnAll_ok id ws
        { s with queues := s.queues.set rq { q with ready := if ids'.isEmpty then more else (p, ids') :: more } }
        true hnd hws
      simp only [h2]
      have ht2 : s2.task? id = some task := by rw [task?_eq, setMnAll_tasks _ _ _ _ _ h2]; exact ht
      simp only [getTask_ok ht2, hs, ne_eq, not_true_eq_false, if_false]
      exact ⟨_, rfl⟩

/-! ### single-node placement -/

/-- what `create_task_mapping` may find for an id it took from a queue -/
def Placeable (s : State) (id : TaskId) (task : Task) : Prop :=
  (∃ n, task.state = .waiting n) ∨
  ((∃ old, task.state = .retracting old) ∧ s.redirects.find? (·.1 = id) = none) ∨
  (∃ old wk A F P, task.state = .prefilled old ∧ s.worker? old = some wk ∧ wk.assign = .sn A F P ∧ id ∈ P ∧
    s.redirects.any (·.1 = id) = false)

theorem placeSn_np {s : State} {m : List WUpdate} {v : Nat} {r : Rq} {id : TaskId} {w : Nat}
    (hw : ∃ wk A F P, s.worker? w = some wk ∧ wk.assign = .sn A F P ∧ id ∉ A ∧ F.length = wk.total.length)
    {task : Task} (ht : s.task? id = some task) (hp : Placeable s id task) :
    NoCorePanic (s.placeSn m v r id w) := by
  obtain ⟨wk, A, F, P, hfw, ha, hna, hF⟩ := hw
  have hwid : wk.id = w := findWorker_some_id hfw
  unfold State.placeSn
  simp only [hfw, ha]
  by_cases hfit : fitsNow F wk.total r.entries = true
  · simp only [hfit, Bool.not_true, Bool.false_eq_true, if_false]
    obtain ⟨F', hins, _⟩ := insertSn_ok (wk := wk) (t := id) (r := r) ha hna (fitsNow_idx hfit)
    have hww := withWorker_ok (f := fun x => x.insertSn id r) hfw hins
    simp only [hww]
    have ht1 : (s.setWorker { wk with assign := .sn (A ++ [id]) F' P }).task? id = some task := ht
    simp only [getTask_ok ht1]
    apply NoCorePanic.of_ok
    rcases hp with ⟨n, hs⟩ | ⟨⟨old, hs⟩, hnone⟩ | ⟨old, wk', A', F'', P', hs, hfw', ha', hm', hnr⟩
    · simp only [hs]; exact ⟨_, rfl⟩
    · simp only [hs]
      have : (s.setWorker { wk with assign := .sn (A ++ [id]) F' P }).redirects.find? (·.1 = id) = none := hnone
      simp only [this]
      exact ⟨_, rfl⟩
    · simp only [hs]
      -- the record of the old worker after the insertion on `w`
      have hold : ∃ wk2 A2 F2, (s.setWorker { wk with assign := .sn (A ++ [id]) F' P }).worker? old = some wk2 ∧
          wk2.assign = .sn A2 F2 P' := by
        by_cases ho : old = w
        · subst ho
          rw [hfw] at hfw'; cases hfw'
          rw [ha] at ha'; cases ha'
          refine ⟨{ wk with assign := .sn (A ++ [id]) F' P }, A ++ [id], F', ?_, rfl⟩
          show findWorker (putWorker s.workers _) old = _
          rw [findWorker_putWorker]
          have h1 : findWorker s.workers old = some wk := hfw
          simp [hwid, h1]
        · refine ⟨wk', A', F'', ?_, ha'⟩
          show findWorker (putWorker s.workers _) old = _
          rw [findWorker_putWorker]
          have : ¬ old = ({ wk with assign := .sn (A ++ [id]) F' P } : Worker).id := by
            show ¬ old = wk.id; rw [hwid]; exact ho
          simp only [this, if_false]
          exact hfw'
      obtain ⟨wk2, A2, F2, hfw2, ha2⟩ := hold
      have hww2 := withWorker_ok (f := fun x => x.removePrefill id) hfw2 (removePrefill_ok ha2 hm')
      simp only [hww2]
      have : ((s.setWorker { wk with assign := .sn (A ++ [id]) F' P }).setWorker
          { wk2 with assign := .sn A2 F2 (P'.erase id) }).redirects.any (·.1 = id) = false := hnr
      simp only [this, Bool.false_eq_true, if_false]
      exact ⟨_, rfl⟩
  · simp only [hfit, Bool.not_false, if_true]
    exact NoCorePanic.bang (by simp)

/-! ### proactive filling -/

/-- the `back` loop: every id is a task of the map; the Retracting ones are in the prefill list of queue `rq` -/
theorem prefillBack_ok (rq : Nat) : ∀ (l : List TaskId) (s : State) (keep : List TaskId), l.Nodup →
    (∀ id ∈ l, (s.task? id).isSome = true) →
    (∀ id ∈ l, ∃ q pp ts, s.queues[rq]? = some q ∧ q.prefill = some (pp, ts) ∧ id ∈ ts) →
    ∃ r, State.prefillWorker.back rq s l keep = .ok r
  | [], s, keep, _, _, _ => ⟨_, rfl⟩
  | id :: rest, s, keep, hnd, hin, hpf => by
    have h1 := hin id List.mem_cons_self
    cases ht : s.task? id with
    | none => rw [ht] at h1; cases h1
    | some t =>
      simp only [State.prefillWorker.back, getTask_ok ht]
      have hnd' := (List.nodup_cons.mp hnd).2
      cases hs : t.state with
      | retracting w0 =>
        simp only
        obtain ⟨q, pp, ts, hq, hp, hm⟩ := hpf id List.mem_cons_self
        obtain ⟨s2, h2⟩ := movePrefilledToReady_ok hq hp hm
        simp only [h2]
        apply prefillBack_ok rq rest s2 keep hnd'
        · intro x hx
          rw [task?_eq, movePrefilledToReady_tasks h2]
          exact hin x (List.mem_cons_of_mem _ hx)
        · intro x hx
          have hne : x ≠ id := fun e => (List.nodup_cons.mp hnd).1 (e ▸ hx)
          obtain ⟨q', pp', ts', hq', hp', hm'⟩ := hpf x (List.mem_cons_of_mem _ hx)
          rw [hq] at hq'; cases hq'
          rw [hp] at hp'; cases hp'
          simp only [State.movePrefilledToReady, hq, hp] at h2
          have hc : ts.contains id = true := by simpa using hm
          simp only [hc, Bool.not_true, Bool.false_eq_true, if_false] at h2
          cases h2
          have hx' : x ∈ ts.erase id := (List.mem_erase_of_ne hne).mpr hm'
          have hnemp : (ts.erase id).isEmpty = false := by
            cases he : ts.erase id with
            | nil => rw [he] at hx'; cases hx'
            | cons a b => rfl
          have hlt : rq < s.queues.length := by
            rcases Nat.lt_or_ge rq s.queues.length with h | h
            · exact h
            · rw [List.getElem?_eq_none h] at hq; cases hq
          refine ⟨_, pp, ts.erase id, List.getElem?_set_self hlt, ?_, hx'⟩
          simp only [hnemp, Bool.false_eq_true, if_false]
      | _ =>
        simp only
        exact prefillBack_ok rq rest s _ hnd' (fun x hx => hin x (List.mem_cons_of_mem _ hx))
          (fun x hx => hpf x (List.mem_cons_of_mem _ hx))

/-- the `mark` loop: every id is a Waiting task, the worker is single-node and does not list the ids as prefilled -/
theorem prefillMark_ok (w : Nat) : ∀ (l : List TaskId) (s : State), l.Nodup →
    (∀ id ∈ l, ∃ t n, s.task? id = some t ∧ t.state = .waiting n) →
    (∃ wk A F P, s.worker? w = some wk ∧ wk.assign = .sn A F P ∧ ∀ id ∈ l, id ∉ P) →
    ∃ s', State.prefillWorker.mark w s l = .ok s'
  | [], s, _, _, _ => ⟨_, rfl⟩
  | id :: rest, s, hnd, hin, hw => by
    obtain ⟨t, n, ht, hs⟩ := hin id List.mem_cons_self
    obtain ⟨wk, A, F, P, hfw, ha, hnp⟩ := hw
    have hwid : wk.id = w := findWorker_some_id hfw
    have hid : t.id = id := findTask_some_id ht
    have hfw1 : (s.setTask { t with state := .prefilled w }).worker? w = some wk := hfw
    have hww := withWorker_ok (f := fun x => x.insertPrefill id) hfw1
      (insertPrefill_ok ha (hnp id List.mem_cons_self))
    simp only [State.prefillWorker.mark, getTask_ok ht, hs, hww]
    apply prefillMark_ok w rest _ (List.nodup_cons.mp hnd).2
    · intro x hx
      have hne : x ≠ id := fun e => (List.nodup_cons.mp hnd).1 (e ▸ hx)
      obtain ⟨tx, nx, htx, hsx⟩ := hin x (List.mem_cons_of_mem _ hx)
      refine ⟨tx, nx, ?_, hsx⟩
      show findTask (putTask s.tasks _) x = some tx
      rw [findTask_putTask]
      have : ¬ x = ({ t with state := .prefilled w } : Task).id := by show ¬ x = t.id; rw [hid]; exact hne
      simp only [this, if_false]
      exact htx
    · refine ⟨{ wk with assign := .sn A F (P ++ [id]) }, A, F, P ++ [id], ?_, rfl, ?_⟩
      · show findWorker (putWorker s.workers _) w = _
        rw [findWorker_putWorker]
        have h1 : findWorker s.workers w = some wk := hfw
        simp [hwid, h1]
      · intro x hx hm
        have hne : x ≠ id := fun e => (List.nodup_cons.mp hnd).1 (e ▸ hx)
        rcases List.mem_append.mp hm with h1 | h1
        · exact hnp x (List.mem_cons_of_mem _ hx) h1
        · simp only [List.mem_singleton] at h1; exact hne h1

/-! ### messages -/

theorem computeList_ok (s : State) : ∀ (l : List (TaskId × Option Nat)), (∀ x ∈ l, (s.task? x.1).isSome = true) →
    ∃ r, computeList s l = .ok r
  | [], _ => ⟨_, rfl⟩
  | (id, rv) :: rest, h => by
    have := h (id, rv) List.mem_cons_self
    cases ht : s.task? id with
    | none => simp only at this; rw [ht] at this; cases this
    | some t =>
      obtain ⟨l, hl⟩ := computeList_ok s rest (fun x hx => h x (List.mem_cons_of_mem _ hx))
      simp only [computeList, getTask_ok ht, hl]
      exact ⟨_, rfl⟩

theorem msgsOfAll_ok (s : State) : ∀ (m : List WUpdate),
    (∀ u ∈ m, (∀ id ∈ u.prefills, (s.task? id).isSome = true) ∧ ∀ a ∈ u.assigned, (s.task? a.1).isSome = true) →
    ∃ r, msgsOfAll s m = .ok r
  | [], _ => ⟨_, rfl⟩
  | u :: rest, h => by
    obtain ⟨h1, h2⟩ := h u List.mem_cons_self
    obtain ⟨l, hl⟩ := computeList_ok s ((u.prefills.map fun id => (id, none)) ++ (u.assigned.map fun a => (a.1, some a.2)))
      (by
        intro x hx
        rcases List.mem_append.mp hx with hx | hx
        · obtain ⟨id, hid, rfl⟩ := List.mem_map.mp hx; exact h1 id hid
        · obtain ⟨a, ha, rfl⟩ := List.mem_map.mp hx; exact h2 a ha)
    obtain ⟨ms, hms⟩ := msgsOfAll_ok s rest (fun x hx => h x (List.mem_cons_of_mem _ hx))
    simp only [msgsOfAll, hl, hms]
    exact ⟨_, rfl⟩

theorem mnMsgs_ok (s : State) : ∀ (l : List TaskId),
    (∀ id ∈ l, ∃ t root ws, s.task? id = some t ∧ t.state = .runningMN (root :: ws)) → ∃ r, mnMsgs s l = .ok r
  | [], _ => ⟨_, rfl⟩
  | id :: rest, h => by
    obtain ⟨t, root, ws, ht, hs⟩ := h id List.mem_cons_self
    obtain ⟨ms, hms⟩ := mnMsgs_ok s rest (fun x hx => h x (List.mem_cons_of_mem _ hx))
    simp only [mnMsgs, getTask_ok ht, hs, hms]
    exact ⟨_, rfl⟩

end NP

end HqModel.Core
