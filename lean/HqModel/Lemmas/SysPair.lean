import HqModel.Lemmas.SysInv
/-!
One reactor function of the core that makes callbacks, followed by the delivery of those callbacks to the job layer:
the job layer accepts them and the coupling is re-established (`GoodR`). `task_finished`, `task_running`,
`on_new_worker`.
-/
namespace HqModel.Sys
open HqModel

/-! ### the worker protocol condition on a `finished` message -/

/-- a worker reports `finished` only for a task it reported `running` before (messages of one connection are
ordered): the core knows the task as Running, or as RunningMultiNode with the `started` flag of the root's
assignment set — or does not know it any more -/
def FinProto (c : Core.State) (t : TaskId) : Prop :=
  match c.task? t with
  | none => True
  | some task =>
    match task.state with
    | .running _ _ => True
    | .runningMN (root :: _) =>
      match c.worker? root with
      | some wk =>
        match wk.assign with
        | .mn t' _ st => t' = t ∧ st = true
        | _ => False
      | none => False
    | _ => False

instance (c : Core.State) (t : TaskId) : Decidable (FinProto c t) := by
  unfold FinProto
  split
  · infer_instance
  · split
    · infer_instance
    · split
      · split <;> infer_instance
      · infer_instance
    · infer_instance

theorem hot_of_finProto {c : Core.State} {t : TaskId} {task : Core.Task} (ht : c.task? t = some task)
    (hp : FinProto c t) : Core.hot c t := by
  have hst := Core.stOf_of_find (show Core.findTask c.tasks t = some task from ht)
  simp only [FinProto, ht] at hp
  split at hp
  · rename_i w v hs; exact .inl ⟨w, v, by rw [hst, hs]⟩
  · rename_i root rest hs
    split at hp
    · rename_i wk hw
      split at hp
      · rename_i t' r st ha
        obtain ⟨rfl, rfl⟩ := hp
        exact .inr ⟨_, by rw [hst, hs], root, wk, r, hw, ha⟩
      · exact hp.elim
    · exact hp.elim
  · exact hp.elim

/-! ### `task_finished` + `process_task_finished` -/

theorem pair_finished {js : Job.State} {c c' : Core.State} {w : Nat} {id : TaskId} {o : Core.Out} {b : Bool}
    {rets : List (List TaskId)} (h0 : Coupled0 js c) (hp : FinProto c id)
    (h : c.taskFinished w id = .ok (c', o, b)) : GoodR c' rets (route js rets o.cbs) := by
  have fr := Core.taskFinished_frc h
  rcases Core.taskFinished_spec h with ⟨_, rfl, hcb⟩ | ⟨task, ht, hcb, hids⟩
  · rw [hcb]; exact GoodR.nil h0
  · rw [hcb]
    have hrun := h0.started id (hot_of_finProto ht hp)
    obtain ⟨⟨js', evs⟩, hj⟩ := taskFinished_ok hrun
    obtain ⟨sr, hsent, _, hv⟩ := taskFinished_spec hj
    simp only [route, cbStep, hj]
    refine ⟨rfl, ?_⟩
    have hids' := hids h0.nd
    have hview : ∀ t, t ∈ Core.taskIds c'.tasks → tst js' t = tst js t := by
      intro t ht'
      rw [hv]
      have := ((hids' t).mp ht').2
      simp [this]
    refine ⟨wf_finished h0.wf hj, (Core.taskFinished_sub h).nodup h0.nd, ?_, ?_, ?_, Core.ConsJob.of_tfr h0.cons fr.t, ?_⟩
    · intro t
      rw [hids' t, hv t, h0.ids t]
      by_cases e : t = id
      · simp [e, live, Job.TState.terminal]
      · simp [e]
    · intro t
      rw [hsent, mem_removeAll, hv t, h0.sent t]
      by_cases e : t = id
      · simp [e, live, Job.TState.terminal]
      · simp [e]
    · intro t ht'
      rw [hview t (Core.hot_mem ht')]
      exact h0.started t (Core.hot_of_frc fr h0.nd ht')
    · intro x wk' hx
      obtain ⟨wk, hw0, _⟩ := fr.w x wk' hx
      rw [sr.workers]
      exact h0.workers x wk hw0

/-! ### `task_running` + `process_task_started` -/

theorem live_startedSt {o : Option Job.TState} : live (startedSt o) = live o := by
  cases o with
  | none => rfl
  | some st => cases st <;> rfl

theorem startedSt_of_live {o : Option Job.TState} (h : live o = true) : startedSt o = some .running := by
  rcases live_iff.mp h with e | e <;> rw [e] <;> rfl

theorem pair_running {js : Job.State} {c c' : Core.State} {w : Nat} {id : TaskId} {rv : Nat} {o : Core.Out}
    {rets : List (List TaskId)} (h0 : Coupled0 js c)
    (hmn : ∀ l, Core.stOf c.tasks id = some (.runningMN l) → ∀ x ∈ l, Core.mnW c.workers x = some id)
    (h : c.taskRunning w id rv = .ok (c', o)) : GoodR c' rets (route js rets o.cbs) := by
  rcases Core.taskRunning_spec hmn h with ⟨_, rfl, hcb⟩ | ⟨task, ws, ht, hcb, fr⟩
  · rw [hcb]; exact GoodR.nil h0
  · rw [hcb]
    have hmem : id ∈ Core.taskIds c.tasks := Core.mem_ids_of_task? ht
    have hlive := (h0.ids id).mp hmem
    obtain ⟨st, hst, _⟩ := live_some hlive
    obtain ⟨⟨js', evs⟩, hj⟩ := taskStarted_ok task.inst ws rv (js := js) (t := id) (by rw [hst]; rfl)
    obtain ⟨sr, hsent, _, hv⟩ := taskStarted_spec hj
    simp only [route, cbStep, hj]
    refine ⟨rfl, ?_⟩
    have e : Core.taskIds c'.tasks = Core.taskIds c.tasks := Core.taskRunning_stable h
    have hl : ∀ t, live (tst js' t) = live (tst js t) := by
      intro t
      rw [hv]
      by_cases e : t = id
      · simp only [e, if_true]; exact live_startedSt
      · simp [e]
    refine ⟨wf_started h0.wf hj, by rw [e]; exact h0.nd, ?_, ?_, ?_, fr.consJob h0.cons, ?_⟩
    · intro t; rw [e, hl]; exact h0.ids t
    · intro t; rw [hsent, hl]; exact h0.sent t
    · intro t ht'
      rw [hv]
      rcases Core.hot_of_frx fr h0.nd ht' with e1 | e1
      · simp only [e1, if_true]; exact startedSt_of_live hlive
      · have := h0.started t e1
        by_cases e2 : t = id
        · simp only [e2, if_true]; exact startedSt_of_live hlive
        · simp only [e2, if_false]; exact this
    · intro x wk' hx
      obtain ⟨wk, hw0, _⟩ := fr.w x wk' hx
      rw [sr.workers]
      exact h0.workers x wk hw0

/-! ### `on_new_worker` + `process_worker_new` -/

theorem pair_newWorker {js : Job.State} {c c' : Core.State} {wk : Core.Worker} {o : Core.Out}
    {rets : List (List TaskId)} (h0 : Coupled0 js c) (hf : Core.FreshWorker wk) (hnew : wk.id ∉ js.workers)
    (h : c.newWorker wk = .ok (c', o)) : GoodR c' rets (route js rets o.cbs) := by
  simp only [Core.State.newWorker] at h
  cases h
  obtain ⟨⟨js', evs⟩, hj⟩ := workerNew_ok hnew
  obtain ⟨hjobs, hsent, _, hws, _⟩ := workerNew_spec hj
  simp only [route, cbStep, hj]
  refine ⟨rfl, ?_⟩
  have hv : ∀ t, tst js' t = tst js t := fun t => by simp only [tst, hjobs]
  refine ⟨wf_workerNew h0.wf hj, h0.nd, ?_, ?_, ?_, h0.cons, ?_⟩
  · intro t; rw [hv]; exact h0.ids t
  · intro t; rw [hsent, hv]; exact h0.sent t
  · intro t ht
    rw [hv]
    apply h0.started
    rcases ht with ⟨w, v, hs⟩ | ⟨l, hs, x, wk0, r, hw, ha⟩
    · exact .inl ⟨w, v, hs⟩
    · refine .inr ⟨l, hs, x, wk0, r, ?_, ha⟩
      change Core.findWorker (c.workers ++ [wk]) x = some wk0 at hw
      rw [Core.findWorker_append] at hw
      cases hf0 : Core.findWorker c.workers x with
      | some y => rw [hf0] at hw; simpa using hw
      | none =>
        rw [hf0] at hw
        simp only at hw
        split at hw
        · cases hw
          unfold Core.FreshWorker at hf
          rw [hf] at ha; cases ha
        · cases hw
  · intro x wk0 hw
    change Core.findWorker (c.workers ++ [wk]) x = some wk0 at hw
    rw [Core.findWorker_append] at hw
    rw [hws]
    cases hf0 : Core.findWorker c.workers x with
    | some y => exact List.mem_append_left _ (h0.workers x y hf0)
    | none =>
      rw [hf0] at hw
      simp only at hw
      split at hw
      · rename_i e; cases hw; rw [← e]; simp
      · cases hw

end HqModel.Sys
