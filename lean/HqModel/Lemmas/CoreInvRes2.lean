import HqModel.Lemmas.CoreInvRes
/-!
Stage 3, part 2: preservation of the resource equation by the functions of `Model.lean` and the first half of
`Reactor.lean` (`on_new_tasks`, `on_cancel_tasks`, `task_failed`). `IR s` = `Inv s ∧ Res s`.
-/
namespace HqModel.Core

/-- structural invariant + resource equation -/
structure IR (s : State) : Prop where
  inv : Inv s
  res : Res s

theorem CoreEq.ir {s s' : State} (h : CoreEq s s') (hi : IR s) : IR s' := ⟨h.inv hi.inv, h.res hi.res⟩

/-! ### how the reservation of a task is read off -/

theorem resvOf_assigned {ts rd} {s : State} {t : TaskId} {task : Task} {w v : Nat} {r : Rq}
    (ht : findTask ts t = some task) (hs : task.state = .assigned w v ∨ task.state = .running w v)
    (hr : s.rq task.rq v = .ok r) : resvOf ts rd s.rqs t = some r.entries := by
  rw [resvOf_of_find ht]
  rcases hs with hs | hs <;> rw [hs] <;> simp only [variantOf, Option.bind_some] <;> exact rqEntries_of_rq hr

theorem resvOf_retracting {ts rd} {s : State} {t : TaskId} {task : Task} {w0 w v : Nat} {r : Rq}
    (ht : findTask ts t = some task) (hs : task.state = .retracting w0)
    (hf : rd.find? (·.1 = t) = some (t, w, v)) (hr : s.rq task.rq v = .ok r) :
    resvOf ts rd s.rqs t = some r.entries := by
  rw [resvOf_of_find ht, hs]
  simp only [variantOf, hf, Option.map_some, Option.bind_some]
  exact rqEntries_of_rq hr

/-- a task in a state without reservation is in no assigned set: changing it does not change any sum -/
theorem Res4.put_free {ts ws rd rqs rd'} (h : Res4 ts ws rd rqs) {t' : Task}
    (hna : ∀ x, t'.id ∉ asgW ws x)
    (hrd : ∀ u, u ≠ t'.id → rd'.find? (·.1 = u) = rd.find? (·.1 = u)) :
    Res4 (putTask ts t') ws rd' rqs := by
  refine h.congr ?_
  intro u x hu
  have hne : u ≠ t'.id := fun e => hna x (e ▸ hu)
  rw [resvOf_put_ne hne]
  exact resvOf_rd_congr (hrd u hne)

/-- a task record is replaced by one with the same reservation -/
theorem Res4.put_same_resv {ts ws rd rqs rd'} (h : Res4 ts ws rd rqs) {t' told : Task}
    (ht : findTask ts t'.id = some told)
    (hrd : ∀ u, u ≠ t'.id → rd'.find? (·.1 = u) = rd.find? (·.1 = u))
    (hsame : (variantOf rd' t'.id t'.state).bind (rqEntries rqs t'.rq) =
      (variantOf rd t'.id told.state).bind (rqEntries rqs told.rq)) :
    Res4 (putTask ts t') ws rd' rqs := by
  refine h.congr ?_
  intro u x _
  by_cases hne : u = t'.id
  · subst hne
    rw [resvOf_put_self ht, resvOf_of_find ht, hsame]
  · rw [resvOf_put_ne hne]
    exact resvOf_rd_congr (hrd u hne)

/-- the task map changes but every task keeps state and request -/
theorem Res4.consRel {ts ts' ws rd rqs} {c : Option TaskId} (h : Res4 ts ws rd rqs) (hr : ConsRel c ts ts') :
    Res4 ts' ws rd rqs := by
  refine h.congr ?_
  intro u x _
  unfold resvOf
  cases hf : findTask ts u with
  | none => rw [(hr.2 u).1 hf]
  | some task =>
    obtain ⟨task', hf', e1, e2, _⟩ := (hr.2 u).2 task hf
    rw [hf']; simp only [e1, e2]

/-- a free task is erased -/
theorem Res4.erase {ts ws rd rqs} (h : Res4 ts ws rd rqs) (hn : (taskIds ts).Nodup) {t : TaskId}
    (hna : ∀ x, t ∉ asgW ws x) : Res4 (eraseTask ts t) ws rd rqs := by
  refine h.congr ?_
  intro u x hu
  have hne : u ≠ t := fun e => hna x (e ▸ hu)
  unfold resvOf
  rw [findTask_eraseTask hn, if_neg hne]

/-- a task with an unknown id is appended -/
theorem Res4.append {ts ws rd rqs} (h : Res4 ts ws rd rqs) {task : Task} (hls : LS3 ts ws rd)
    (hn : findTask ts task.id = none) : Res4 (ts ++ [task]) ws rd rqs := by
  refine h.congr ?_
  intro u x hu
  obtain ⟨st, hs, _⟩ := hls.a1 x u hu
  obtain ⟨tk, hf, _⟩ := stOf_some hs
  unfold resvOf
  rw [findTask_append, hf]

/-! ### detaching a task from a worker -/

theorem removeSn_res {s s1 : State} {ts : List Task} (hl : LS3 ts s.workers s.redirects)
    (hr : Res4 ts s.workers s.redirects s.rqs) {w : Nat} {id : TaskId} {task : Task} {v : Nat} {r : Rq}
    (ht : findTask ts id = some task) (hs : task.state = .assigned w v ∨ task.state = .running w v)
    (hrq : s.rq task.rq v = .ok r) (h : s.withWorker w (·.removeSn id r) = .ok s1) :
    Res4 ts s1.workers s1.redirects s.rqs := by
  obtain ⟨wk, wk', hfw, hf, rfl⟩ := withWorker_spec h
  obtain ⟨A, F, P, F', ha, hfa, hm, rfl⟩ := removeSn_spec hf
  have hwid : wk.id = w := findWorker_some_id hfw
  have hst : stOf ts id = some task.state := stOf_of_find ht
  have hnd : A.Nodup := by
    have := hl.nda w; rw [asgW_of_find hfw] at this; simpa [wAsg, ha] using this
  refine hr.mv_erase (wk := wk) (es := r.entries) (by simpa [hwid] using hfw) ha rfl rfl hfa hm hnd ?_
    (fun _ _ => rfl) (resvOf_assigned ht hs hrq)
  intro x hx hmem
  obtain ⟨st, h1, h2⟩ := hl.a1 x id hmem
  rw [hst] at h1; cases h1
  apply hx
  simp only [hwid]
  rcases hs with hs | hs <;> rw [hs] at h2 <;> exact h2.symm

theorem removePrefill_res {s s1 : State} {ts : List Task} (hr : Res4 ts s.workers s.redirects s.rqs) {w : Nat}
    {id : TaskId} (h : s.withWorker w (·.removePrefill id) = .ok s1) :
    Res4 ts s1.workers s1.redirects s.rqs := by
  obtain ⟨wk, wk', hfw, hf, rfl⟩ := withWorker_spec h
  obtain ⟨A, F, P, ha, hm, rfl⟩ := removePrefill_spec hf
  have hwid : wk.id = w := findWorker_some_id hfw
  refine hr.put_same (wk := wk) (by simpa [hwid] using hfw) rfl ?_
  intro A' F' P' ha'
  cases ha'
  exact ⟨P, ha⟩

theorem tryRemoveRedirection_res {s s' : State} {t : TaskId} {ts : List Task}
    (hl : LS3 ts s.workers s.redirects) (hr : Res4 ts s.workers s.redirects s.rqs) {task : Task} {w0 : Nat}
    (ht : findTask ts t = some task) (hs : task.state = .retracting w0)
    (h : s.tryRemoveRedirection t task.rq = .ok s') : Res4 ts s'.workers s'.redirects s.rqs := by
  obtain ⟨_, _, hc⟩ := tryRemoveRedirection_spec h
  rcases hc with ⟨_, hw, hrd⟩ | ⟨w, v, r, wk, A, F, P, F', hsome, hrq, hfw, ha, hm, hfa, hw, hrd⟩
  · rw [hw, hrd]; exact hr
  · rw [hw, hrd]
    have hwid : wk.id = w := findWorker_some_id hfw
    have hmem : (t, w, v) ∈ s.redirects := (rd_mem_of_find hsome).1
    have hst : stOf ts t = some (.retracting w0) := by rw [stOf_of_find ht, hs]
    have hnd : A.Nodup := by
      have := hl.nda w; rw [asgW_of_find hfw] at this; simpa [wAsg, ha] using this
    refine hr.mv_erase (wk := wk) (wk' := { wk with assign := .sn (A.erase t) F' P }) (es := r.entries)
      (by simpa [hwid] using hfw) ha rfl rfl hfa hm hnd ?_ ?_ (resvOf_retracting ht hs hsome hrq)
    · intro x hx hmem'
      obtain ⟨st, h1, h2⟩ := hl.a1 x t hmem'
      rw [hst] at h1; cases h1
      obtain ⟨v', hv'⟩ := h2
      apply hx
      simp only [hwid]
      exact (rd_unique hl.d2 hv' hmem).1
    · intro u hu
      exact resvOf_rd_congr (find_filter_ne hu)

theorem resetMnAll_res (l : List Nat) (s s' : State) {ts : List Task}
    (hr : Res4 ts s.workers s.redirects s.rqs) (h : resetMnAll s l = .ok s') :
    Res4 ts s'.workers s'.redirects s.rqs := by
  induction l generalizing s with
  | nil => simp only [resetMnAll] at h; cases h; exact hr
  | cons w rest ih =>
    simp only [resetMnAll] at h
    split at h
    · cases h
    · rename_i wk hg
      have hfw := getWorker_spec hg
      have hwid : wk.id = w := findWorker_some_id hfw
      refine ih (s.setWorker wk.emptySn) ?_ h
      exact hr.put_empty (wk := wk) (wk' := wk.emptySn) (by simpa [Worker.emptySn, hwid] using hfw)
        (fun A F P ha => by simp only [Worker.emptySn] at ha; cases ha; exact ⟨rfl, rfl⟩)

theorem resetMnChecked_res (l : List Nat) (s s' : State) (id : TaskId) {ts : List Task}
    (hr : Res4 ts s.workers s.redirects s.rqs) (h : resetMnChecked s id l = .ok s') :
    Res4 ts s'.workers s'.redirects s.rqs := by
  induction l generalizing s with
  | nil => simp only [resetMnChecked] at h; cases h; exact hr
  | cons w rest ih =>
    simp only [resetMnChecked] at h
    split at h
    · cases h
    · rename_i wk hg
      split at h
      · split at h
        · cases h
        · have hfw := getWorker_spec hg
          have hwid : wk.id = w := findWorker_some_id hfw
          refine ih (s.setWorker wk.emptySn) ?_ h
          exact hr.put_empty (wk := wk) (wk' := wk.emptySn) (by simpa [Worker.emptySn, hwid] using hfw)
            (fun A F P ha => by simp only [Worker.emptySn] at ha; cases ha; exact ⟨rfl, rfl⟩)
      · cases h

/-! ### `process_retracted`, `remove_task`, `on_new_tasks` -/

theorem LS3.not_asg_of_state {ts ws rd} (h : LS3 ts ws rd) {t : TaskId} {st : TS} (hs : stOf ts t = some st)
    (hn : ∀ x, ¬ Holds rd x t st) : ∀ x, t ∉ asgW ws x := by
  intro x hx
  obtain ⟨st', h1, h2⟩ := h.a1 x t hx
  rw [hs] at h1; cases h1
  exact hn x h2

theorem processRetracted_ir (l : List TaskId) (s s' : State) (acc acc' : List (Nat × TaskId))
    (hi : IR s) (h : s.processRetracted l acc = .ok (s', acc')) : IR s' := by
  induction l generalizing s acc with
  | nil => simp only [State.processRetracted] at h; cases h; exact hi
  | cons t rest ih =>
    have hinv := hi.inv
    simp only [State.processRetracted] at h
    split at h
    · cases h
    · rename_i task hg
      have hft := getTask_spec hg
      split at h
      · rename_i w hs
        split at h
        · cases h
        · rename_i s1 hw
          have hr1 := removePrefill_res hi.res hw
          obtain ⟨wk, wk', hfw, hf, rfl⟩ := withWorker_spec hw
          obtain ⟨A, F, P, ha, hm, rfl⟩ := removePrefill_spec hf
          refine ih _ _ ?_ h
          have hid : task.id = t := findTask_some_id hft
          have hwid : wk.id = w := findWorker_some_id hfw
          constructor
          · show Inv4 (putTask s.tasks _) (putWorker s.workers _) s.redirects s.rqs
            refine hinv.put (told := task) (by simpa [hid] using hft) rfl rfl (by simp [hs, isWaiting]) (by simp) ?_
            exact hinv.ls.mv_retract (told := task) (wk := wk) (by simpa [hid] using hft) (by simp [hs, hwid]) (by simp [hwid])
              (by simpa [hwid] using hfw) (by simp [wAsg, ha]) (by simp [wPre, ha, hid]) (by simp [wMn, ha])
          · show Res4 (putTask s.tasks _) (putWorker s.workers _) s.redirects s.rqs
            refine Res4.put_free hr1 ?_ (fun _ _ => rfl)
            intro x hx
            change task.id ∈ asgW (putWorker s.workers _) x at hx
            rw [asgW_put_same (wk := wk) (by simpa [hwid] using hfw) (by simp [wAsg, ha])] at hx
            exact hinv.ls.not_asg_of_state (st := .prefilled w) (by rw [hid, stOf_of_find hft, hs]) (by simp) x hx
      · cases h

theorem retract_ir {s s' : State} {l : List TaskId} {o : Out} (hi : IR s) (h : s.retract l = .ok (s', o)) : IR s' := by
  simp only [State.retract] at h
  split at h
  · cases h
  · rename_i s1 pairs hp
    cases h
    exact processRetracted_ir _ _ _ _ _ hi hp

theorem removeTask_ir {s s' : State} {id : TaskId} {st : TS} (hi : IR s) (hf : Free s id)
    (h : s.removeTask id = .ok (s', st)) : IR s' := by
  refine ⟨removeTask_inv hi.inv hf h, ?_⟩
  obtain ⟨_, hw, hr, hq, hc⟩ := removeTask_spec h
  unfold Res; rw [hw, hr, hq]
  exact (Res4.erase hi.res hi.inv.nd hf.na).consRel hc

theorem addNewTasks_ir (nts : List NewTask) (s s' : State) (r r' : List TaskId)
    (hi : IR s) (h : s.addNewTasks nts r = .ok (s', r')) : IR s' := by
  induction nts generalizing s r with
  | nil => simp only [State.addNewTasks] at h; cases h; exact hi
  | cons nt rest ih =>
    have hinv := hi.inv
    simp only [State.addNewTasks] at h
    have hreg := registerDeps_rel nt.deps s.tasks nt.id
    generalize registerDeps s.tasks nt.id nt.deps = reg at h hreg
    obtain ⟨ts, kept, n⟩ := reg
    simp only at h hreg
    split at h
    · cases h
    · rename_i hf
      have hnone : findTask ts nt.id = none := by
        cases hx : findTask ts nt.id with
        | none => rfl
        | some x => simp [hx] at hf
      have key : ∀ task : Task, task.id = nt.id → isWaiting task.state → task.consumers = [] →
          Inv4 (ts ++ [task]) s.workers s.redirects s.rqs ∧ Res4 (ts ++ [task]) s.workers s.redirects s.rqs := by
        intro task e1 e2 e3
        refine ⟨Inv4.add_task hinv (by rw [e1]; exact hreg) (by rw [e1]; exact hnone) e2 e3, ?_⟩
        exact (hi.res.consRel hreg).append (hinv.ls.congr_tasks hreg.stOf) (by rw [e1]; exact hnone)
      have key1 := fun t e1 e2 e3 => (key t e1 e2 e3).1
      have key2 := fun t e1 e2 e3 => (key t e1 e2 e3).2
      split at h
      · split at h
        · cases h
        · rename_i s2 r2 ha
          have hc := addReady_core ha
          refine ih _ _ ⟨?_, ?_⟩ h
          · unfold Inv; simp only [hc.t, hc.w, hc.r, hc.q]; exact key1 _ rfl (by trivial) rfl
          · unfold Res; simp only [hc.t, hc.w, hc.r, hc.q]; exact key2 _ rfl (by trivial) rfl
      · refine ih _ _ ⟨?_, ?_⟩ h
        · exact key1 _ rfl (by trivial) rfl
        · exact key2 _ rfl (by trivial) rfl

theorem newTasks_ir {s s' : State} {nts : List NewTask} {o : Out} (hi : IR s) (h : s.newTasks nts = .ok (s', o)) :
    IR s' := by
  simp only [State.newTasks] at h
  split at h
  · cases h
  · split at h
    · cases h
    · rename_i s1 retracted h1
      split at h
      · cases h
      · rename_i s2 out h2
        cases h
        exact (CoreEq.ask s2).ir (retract_ir (addNewTasks_ir _ _ _ _ _ hi h1) h2)

/-! ### `on_cancel_tasks` -/

theorem cancelLoop_ir (ids : List TaskId) (s s' : State) (u u' : List TaskId) (r r' : List (Nat × List TaskId))
    (hi : IR s) (hu : ∀ x ∈ u, Free s x) (h : s.cancelLoop ids u r = .ok (s', u', r')) :
    IR s' ∧ ∀ x ∈ u', Free s' x := by
  induction ids generalizing s u r with
  | nil => simp only [State.cancelLoop] at h; cases h; exact ⟨hi, hu⟩
  | cons id rest ih =>
    have hinv := hi.inv
    simp only [State.cancelLoop, State.task?] at h
    split at h
    · exact ih _ _ _ hi hu h
    · rename_i task ht
      have hst := stOf_of_find ht
      split at h
      · cases h
      · rename_i cons hcons
        split at h
        · -- waiting
          rename_i n hs
          refine ih _ _ _ ((CoreEq.ask s).ir hi) ?_ h
          exact cancel_step ht hcons hu ((CoreEq.ask s).inv hinv) (Shr.refl _ _) rfl
            ((CoreEq.ask s).free (hinv.free_of_state (Or.inr (Or.inl ⟨n, by rw [hst, hs]⟩))))
        · -- assigned
          rename_i w rv hs
          split at h
          · cases h
          · rename_i rq hrq
            split at h
            · cases h
            · rename_i s1 hw
              obtain ⟨a, b, c, d, e, f⟩ := removeSn_detach hinv.ls hw
              have hr1 := removeSn_res hinv.ls hi.res ht (Or.inl hs) hrq hw
              have hi1 : IR s1 := ⟨by unfold Inv; rw [c, e]; exact hinv.workers a, by unfold Res; rw [c, e]; exact hr1⟩
              refine ih _ _ _ ((CoreEq.ask s1).ir hi1) ?_ h
              exact cancel_step ht hcons hu ((CoreEq.ask s1).inv hi1.inv) b c
                (f _ (by rw [hst, hs]) (Or.inl ⟨rv, rfl⟩))
        · -- running
          rename_i w rv hs
          split at h
          · cases h
          · rename_i rq hrq
            split at h
            · cases h
            · rename_i s1 hw
              obtain ⟨a, b, c, d, e, f⟩ := removeSn_detach hinv.ls hw
              have hr1 := removeSn_res hinv.ls hi.res ht (Or.inr hs) hrq hw
              have hi1 : IR s1 := ⟨by unfold Inv; rw [c, e]; exact hinv.workers a, by unfold Res; rw [c, e]; exact hr1⟩
              refine ih _ _ _ ((CoreEq.ask s1).ir hi1) ?_ h
              exact cancel_step ht hcons hu ((CoreEq.ask s1).inv hi1.inv) b c
                (f _ (by rw [hst, hs]) (Or.inr ⟨rv, rfl⟩))
        · -- multi-node
          rename_i ws hs
          split at h
          · cases h
          · rename_i s1 hr
            obtain ⟨a, b, c, d, e, f⟩ := resetMnAll_ls _ _ _ hinv.ls hr
            have hr1 := resetMnAll_res _ _ _ hi.res hr
            have hi1 : IR s1 := ⟨by unfold Inv; rw [c, e]; exact hinv.workers a, by unfold Res; rw [c, e]; exact hr1⟩
            split at h
            · cases h
            · refine ih _ _ _ ((CoreEq.ask s1).ir hi1) ?_ h
              have hfree : Free3 s1.workers s1.redirects id := by
                rw [d] at a b ⊢
                exact free_after_reset hinv.ls a (by rw [hst, hs]) b f
              exact cancel_step ht hcons hu ((CoreEq.ask s1).inv hi1.inv) b c hfree
        · -- retracting
          rename_i w hs
          split at h
          · cases h
          · rename_i s1 hr
            obtain ⟨a, b, _, f⟩ := tryRemoveRedirection_ls hinv.ls hr
            obtain ⟨c, e, _⟩ := tryRemoveRedirection_spec hr
            have hr1 := tryRemoveRedirection_res hinv.ls hi.res ht hs hr
            have hi1 : IR s1 := ⟨by unfold Inv; rw [c, e]; exact hinv.workers a, by unfold Res; rw [c, e]; exact hr1⟩
            refine ih _ _ _ ((CoreEq.ask s1).ir hi1) ?_ h
            exact cancel_step ht hcons hu ((CoreEq.ask s1).inv hi1.inv) b c (f w (by rw [hst, hs]))
        · -- prefilled
          rename_i w hs
          split at h
          · cases h
          · rename_i s1 hq
            have hc := removePrefilled_core hq
            have hi1 := hc.ir hi
            split at h
            · cases h
            · rename_i s2 hw
              obtain ⟨a, b, c, d, e, f, _⟩ := removePrefill_detach hi1.inv.ls hw
              have hr2 := removePrefill_res hi1.res hw
              have hi2 : IR s2 := ⟨by unfold Inv; rw [c, e]; exact hi1.inv.workers a, by unfold Res; rw [c, e]; exact hr2⟩
              refine ih _ _ _ hi2 ?_ h
              have b' : Shr s.workers s.redirects s2.workers s2.redirects := by
                rw [← hc.w, ← hc.r]; exact b
              exact cancel_step ht hcons hu hi2.inv b' (c.trans hc.t) f
        · cases h

theorem removeTasksBatched_ir (ids : List TaskId) (s s' : State) (hi : IR s) (hu : ∀ x ∈ ids, Free s x)
    (h : s.removeTasksBatched ids = .ok s') : IR s' := by
  induction ids generalizing s with
  | nil => simp only [State.removeTasksBatched] at h; cases h; exact hi
  | cons t rest ih =>
    simp only [State.removeTasksBatched] at h
    split at h
    · cases h
    · rename_i s1 st h1
      refine ih _ (removeTask_ir hi (hu t (by simp)) h1) ?_ h
      intro x hx
      exact removeTask_free (hu x (by simp [hx])) h1

theorem cancelTasks_ir {s s' : State} {ids : List TaskId} {o : Out} (hi : IR s)
    (h : s.cancelTasks ids = .ok (s', o)) : IR s' := by
  simp only [State.cancelTasks] at h
  split at h
  · cases h
  · rename_i s1 unreg running h1
    split at h
    · cases h
    · rename_i s2 h2
      cases h
      obtain ⟨a, b⟩ := cancelLoop_ir _ _ _ _ _ _ _ hi (fun _ hx => by cases hx) h1
      exact removeTasksBatched_ir _ _ _ a b h2

end HqModel.Core
