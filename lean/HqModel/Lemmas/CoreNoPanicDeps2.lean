import HqModel.Lemmas.CoreNoPanicDeps
/-!
C09 progress for the core model: preservation of `NpDeps U s`, part 2: `Reactor.lean` up to `on_new_tasks`,
`on_cancel_tasks`, `task_failed`.

* `newWorker_ds/_npdeps`, `newRq_ds/_npdeps`, `resetMnAll_*`, `resetMnChecked_*`, `cancelLoop_*` — no extra hypothesis;
* `RegD`, `registerDeps_d` — what `registerDeps` does to the skeleton (exactly the kept dependencies get the new id);
  `NpDeps.new_task`, `addNewTasks_one_npdeps`, `addNewTasks_cons`, `addNewTasks_npdeps`, `newTasks_npdeps`
  (hyps: `QInv U none [] s`, fresh ids, `Nodup` of the new ids, `nt.deps.Nodup` / `NewTasksOk`);
* `removeTasksBatched_npdeps`, `cancelTasks_npdeps`, `removeWaitingAll_npdeps`, `taskFailed_npdeps`
  (hyp: `QInv U none pend s`).
-/
namespace HqModel.Core.NPB

/-! grind rules for `DS`, active only inside this namespace (`open HqModel.Core.NPB` to use them) -/
attribute [scoped grind →] DS.trans DS.of_tasks
attribute [scoped grind .] DS.refl
scoped grind_pattern DS.of_mk => State.mk s.tasks ws rqs qs rd ns pr pm
scoped grind_pattern DS.setState => s.setTask ⟨told.id, st, told.consumers, told.deps, rq, prio, cl, inst, crashes⟩
scoped grind_pattern DS.ask => ask s
scoped grind_pattern DS.setWorker => s.setWorker w

/-! ### workers, requests -/

theorem newWorker_ds {s s' : State} {w : Worker} {o : Out} (h : s.newWorker w = .ok (s', o)) : DS s s' := by
  simp only [State.newWorker] at h; cases h; exact DS.of_tasks rfl

theorem newRq_ds (s : State) (rqv : Rqv) : DS s (s.newRq rqv) := DS.of_tasks rfl

theorem resetMnAll_ds {ws : List Nat} {s s' : State} (h : resetMnAll s ws = .ok s') : DS s s' :=
  DS.of_tasks (resetMnAll_tasks _ _ _ h)

theorem resetMnChecked_ds {ws : List Nat} {s s' : State} {id : TaskId} (h : resetMnChecked s id ws = .ok s') :
    DS s s' := DS.of_tasks (resetMnChecked_tasks _ _ _ _ h)

theorem cancelLoop_ds {ids : List TaskId} {s s' : State} {u u' : List TaskId} {r r' : List (Nat × List TaskId)}
    (h : s.cancelLoop ids u r = .ok (s', u', r')) : DS s s' := DS.of_tasks (cancelLoop_tasks _ _ _ _ _ _ _ h)

section
variable {U : List TaskId} {s s' : State}

theorem newWorker_npdeps {w : Worker} {o : Out} (h : NpDeps U s) (heq : s.newWorker w = .ok (s', o)) :
    NpDeps U s' := h.of_ds (newWorker_ds heq)

theorem newRq_npdeps (rqv : Rqv) (h : NpDeps U s) : NpDeps U (s.newRq rqv) := h.of_ds (newRq_ds s rqv)

theorem resetMnAll_npdeps {ws : List Nat} (h : NpDeps U s) (heq : resetMnAll s ws = .ok s') : NpDeps U s' :=
  h.of_ds (resetMnAll_ds heq)

theorem resetMnChecked_npdeps {ws : List Nat} {id : TaskId} (h : NpDeps U s)
    (heq : resetMnChecked s id ws = .ok s') : NpDeps U s' := h.of_ds (resetMnChecked_ds heq)

theorem cancelLoop_npdeps {ids : List TaskId} {u u' : List TaskId} {r r' : List (Nat × List TaskId)}
    (h : NpDeps U s) (heq : s.cancelLoop ids u r = .ok (s', u', r')) : NpDeps U s' := h.of_ds (cancelLoop_ds heq)

end

/-! ### `on_new_tasks` -/

/-- what `registerDeps ts id deps = (ts', kept, _)` does to the skeleton: exactly the kept dependencies get `id`
appended to their consumers, `kept` = the dependencies that are in the map, in order -/
structure RegD (id : TaskId) (ts : List Task) (deps : List TaskId) (ts' : List Task) (kept : List TaskId) : Prop where
  ids : taskIds ts' = taskIds ts
  sub : kept.Sublist deps
  km : ∀ x ∈ kept, (findTask ts x).isSome = true
  mkept : ∀ x ∈ deps, (findTask ts x).isSome = true → x ∈ kept
  rel : ∀ x t', findTask ts' x = some t' → ∃ t, findTask ts x = some t ∧ t'.id = t.id ∧ t'.deps = t.deps ∧
    (∀ c ∈ t'.consumers, c ∈ t.consumers ∨ (c = id ∧ x ∈ kept)) ∧ (∀ c ∈ t.consumers, c ∈ t'.consumers) ∧
    (x ∈ kept → id ∈ t'.consumers)

theorem registerDeps_d (deps : List TaskId) (ts : List Task) (id : TaskId) :
    RegD id ts deps (registerDeps ts id deps).1 (registerDeps ts id deps).2.1 := by
  induction deps generalizing ts with
  | nil =>
    simp only [registerDeps]
    exact ⟨rfl, List.Sublist.refl _, fun x hx => (by cases hx), fun x hx => (by cases hx),
      fun x t' h => ⟨t', h, rfl, rfl, fun c hc => Or.inl hc, fun c hc => hc, fun hx => (by cases hx)⟩⟩
  | cons d rest ih =>
    simp only [registerDeps]
    split
    · rename_i hd
      have ih1 := ih ts
      refine ⟨ih1.ids, List.Sublist.cons _ ih1.sub, ih1.km, ?_, ih1.rel⟩
      intro x hx hs
      rcases List.mem_cons.mp hx with e | e
      · subst e; rw [hd] at hs; cases hs
      · exact ih1.mkept x e hs
    · rename_i dep hd
      have hid : dep.id = d := findTask_some_id hd
      generalize hdep' : ({ dep with consumers := if dep.consumers.contains id then dep.consumers else dep.consumers ++ [id] } : Task) = dep'
      have hid' : dep'.id = d := by rw [← hdep']; exact hid
      have hdeps' : dep'.deps = dep.deps := by rw [← hdep']
      have hcons' : dep'.consumers = if dep.consumers.contains id then dep.consumers else dep.consumers ++ [id] := by
        rw [← hdep']
      have hfind1 : ∀ x, findTask (putTask ts dep') x = if x = d then some dep' else findTask ts x := by
        intro x
        rw [findTask_putTask, hid']
        split
        · rename_i e; rw [e, hd]; rfl
        · rfl
      have hsome1 : ∀ x, (findTask (putTask ts dep') x).isSome = (findTask ts x).isSome := by
        intro x
        rw [hfind1]
        split
        · rename_i e; rw [e, hd]; rfl
        · rfl
      have ih1 := ih (putTask ts dep')
      generalize registerDeps (putTask ts dep') id rest = res at ih1
      obtain ⟨ts2, kept, n2⟩ := res
      simp only at ih1 ⊢
      have hc1 : ∀ c ∈ dep'.consumers, c ∈ dep.consumers ∨ c = id := by
        intro c hc
        rw [hcons'] at hc
        split at hc
        · exact Or.inl hc
        · rcases List.mem_append.mp hc with h | h
          · exact Or.inl h
          · exact Or.inr (by simpa using h)
      have hc2 : ∀ c ∈ dep.consumers, c ∈ dep'.consumers := by
        intro c hc
        rw [hcons']
        split
        · exact hc
        · exact List.mem_append_left _ hc
      have hc3 : id ∈ dep'.consumers := by
        rw [hcons']
        split
        · rename_i hh; simpa using hh
        · simp
      refine ⟨by rw [ih1.ids, taskIds_putTask], List.Sublist.cons_cons _ ih1.sub, ?_, ?_, ?_⟩
      · intro x hx
        rcases List.mem_cons.mp hx with e | e
        · rw [e, hd]; rfl
        · rw [← hsome1]; exact ih1.km x e
      · intro x hx hs
        rcases List.mem_cons.mp hx with e | e
        · rw [e]; exact List.mem_cons_self
        · exact List.mem_cons_of_mem _ (ih1.mkept x e (by rw [hsome1]; exact hs))
      · intro x t' hx
        obtain ⟨t1, h1, a1, a2, a3, a4, a5⟩ := ih1.rel x t' hx
        rw [hfind1] at h1
        split at h1
        · rename_i e
          cases h1
          refine ⟨dep, by rw [e]; exact hd, a1.trans (hid'.trans hid.symm), a2.trans hdeps', ?_, ?_, ?_⟩
          · intro c hc
            rcases a3 c hc with h | ⟨h, h'⟩
            · rcases hc1 c h with h2 | h2
              · exact Or.inl h2
              · exact Or.inr ⟨h2, by rw [e]; exact List.mem_cons_self⟩
            · exact Or.inr ⟨h, List.mem_cons_of_mem _ h'⟩
          · intro c hc; exact a4 c (hc2 c hc)
          · intro _; exact a4 id hc3
        · rename_i e
          refine ⟨t1, h1, a1, a2, ?_, a4, ?_⟩
          · intro c hc
            rcases a3 c hc with h | ⟨h, h'⟩
            · exact Or.inl h
            · exact Or.inr ⟨h, List.mem_cons_of_mem _ h'⟩
          · intro hx'
            rcases List.mem_cons.mp hx' with e' | e'
            · exact absurd e' e
            · exact a5 e'

/-- the new record is appended -/
theorem _root_.HqModel.Core.NpDeps.new_task {U : List TaskId} {s s2 : State} {id : TaskId} {deps kept : List TaskId}
    {ts : List Task} {task : Task} (h : NpDeps U s) (hnd : (taskIds s.tasks).Nodup)
    (huT : ∀ t ∈ s.tasks, t.id ∈ U) (huC : ∀ t ∈ s.tasks, ∀ c ∈ t.consumers, c ∈ U)
    (hfresh : id ∉ U) (hdn : deps.Nodup) (hreg : RegD id s.tasks deps ts kept)
    (htid : task.id = id) (hcons : task.consumers = []) (hdeps : task.deps = kept)
    (hs2 : s2.tasks = ts ++ [task]) : NpDeps (U ++ [id]) s2 := by
  have hnd' : (taskIds ts).Nodup := by rw [hreg.ids]; exact hnd
  have hnone0 : findTask s.tasks id = none := by
    refine findTask_none_of_not_mem fun hm => ?_
    obtain ⟨t, ht, e⟩ := List.mem_map.mp hm
    exact hfresh (e ▸ huT t ht)
  have hnone : findTask ts id = none := by
    refine findTask_none_of_not_mem ?_
    rw [hreg.ids]; exact not_mem_of_findTask_none hnone0
  -- lookups in the new map
  have hfold : ∀ x t0, findTask s.tasks x = some t0 → ∃ t', findTask ts x = some t' :=
    fun x t0 h0 => findTask_some_of_ids hreg.ids h0
  have hfnew : ∀ x y, findTask (ts ++ [task]) x = some y →
      (findTask ts x = some y) ∨ (x = id ∧ y = task) := by
    intro x y hx
    rw [findTask_append] at hx
    split at hx
    · rename_i z hz; cases hx; exact Or.inl hz
    · split at hx
      · rename_i e; cases hx; exact Or.inr ⟨(htid.symm.trans e).symm, rfl⟩
      · cases hx
  have hfnew_id : findTask (ts ++ [task]) id = some task := by
    rw [findTask_append, hnone]; simp [htid]
  have hfnew_old : ∀ x y, findTask ts x = some y → findTask (ts ++ [task]) x = some y := by
    intro x y hx; rw [findTask_append, hx]
  have hmem : ∀ t' ∈ ts, ∃ t ∈ s.tasks, t'.id = t.id ∧ t'.deps = t.deps ∧
      (∀ c ∈ t'.consumers, c ∈ t.consumers ∨ (c = id ∧ t'.id ∈ kept)) := by
    intro t' ht'
    obtain ⟨t, h0, a1, a2, a3, _⟩ := hreg.rel t'.id t' (mem_find_of_nodup hnd' ht')
    exact ⟨t, findTask_some_mem h0, a1, a2, a3⟩
  refine ⟨?_, ?_, ?_, ?_, ?_⟩
  · intro t' ht' c hc
    show (findTask s2.tasks c).isSome = true
    rw [hs2] at ht' ⊢
    rcases List.mem_append.mp ht' with hm | hm
    · obtain ⟨t, ht, _, _, a3⟩ := hmem t' hm
      rcases a3 c hc with h1 | ⟨h1, _⟩
      · have := h.cin t ht c h1
        cases h0 : findTask s.tasks c with
        | none => rw [NP.task?_eq, h0] at this; cases this
        | some t0 =>
          obtain ⟨y, hy⟩ := hfold c t0 h0
          rw [hfnew_old c y hy]; rfl
      · rw [h1, hfnew_id]; rfl
    · simp only [List.mem_singleton] at hm; subst hm; rw [hcons] at hc; cases hc
  · intro t' ht' c hc ct hct
    change findTask s2.tasks c = some ct at hct
    rw [hs2] at ht' hct
    rcases List.mem_append.mp ht' with hm | hm
    · obtain ⟨t, ht, a1, _, a3⟩ := hmem t' hm
      rcases hfnew c ct hct with hy | ⟨e1, e2⟩
      · obtain ⟨ct0, h0, _, b2, _⟩ := hreg.rel c ct hy
        rcases a3 c hc with h1 | ⟨h1, _⟩
        · rw [a1, b2]; exact h.cdep t ht c h1 ct0 h0
        · rw [h1, hnone] at hy; cases hy
      · subst e2
        rcases a3 c hc with h1 | ⟨_, h2⟩
        · exact absurd (e1 ▸ huC t ht c h1) hfresh
        · rw [hdeps]; exact h2
    · simp only [List.mem_singleton] at hm; subst hm; rw [hcons] at hc; cases hc
  · intro ct hct d hd dt hdt
    change findTask s2.tasks d = some dt at hdt
    rw [hs2] at hct hdt
    rcases List.mem_append.mp hct with hm | hm
    · obtain ⟨ct0, hct0, a1, a2, _⟩ := hmem ct hm
      have hdU : d ∈ U := h.uD ct0 hct0 d (a2 ▸ hd)
      rcases hfnew d dt hdt with hy | ⟨e1, _⟩
      · obtain ⟨dt0, h0, _, _, _, b4, _⟩ := hreg.rel d dt hy
        rw [a1]
        exact b4 _ (h.reg ct0 hct0 d (a2 ▸ hd) dt0 h0)
      · exact absurd (e1 ▸ hdU) hfresh
    · simp only [List.mem_singleton] at hm
      subst hm
      rw [hdeps] at hd
      have hsome := hreg.km d hd
      cases h0 : findTask s.tasks d with
      | none => rw [h0] at hsome; cases hsome
      | some dt0 =>
        obtain ⟨y, hy⟩ := hfold d dt0 h0
        have : some dt = some y := hdt.symm.trans (hfnew_old d y hy)
        cases this
        obtain ⟨_, _, _, _, _, _, b5⟩ := hreg.rel d dt hy
        rw [htid]; exact b5 hd
  · intro t' ht'
    rw [hs2] at ht'
    rcases List.mem_append.mp ht' with hm | hm
    · obtain ⟨t, ht, _, a2, _⟩ := hmem t' hm
      rw [a2]; exact h.dnd t ht
    · simp only [List.mem_singleton] at hm; subst hm; rw [hdeps]; exact hreg.sub.nodup hdn
  · intro t' ht' d hd
    rw [hs2] at ht'
    rcases List.mem_append.mp ht' with hm | hm
    · obtain ⟨t, ht, _, a2, _⟩ := hmem t' hm
      exact List.mem_append_left _ (h.uD t ht d (a2 ▸ hd))
    · simp only [List.mem_singleton] at hm
      subst hm
      rw [hdeps] at hd
      have hsome := hreg.km d hd
      cases h0 : findTask s.tasks d with
      | none => rw [h0] at hsome; cases hsome
      | some dt0 =>
        have := huT dt0 (findTask_some_mem h0)
        rw [findTask_some_id h0] at this
        exact List.mem_append_left _ this

theorem addNewTasks_cons_eq (s : State) (nt : NewTask) (rest : List NewTask) (r : List TaskId) :
    s.addNewTasks (nt :: rest) r =
      match s.addNewTasks [nt] r with
      | .error e => .error e
      | .ok (s1, r1) => s1.addNewTasks rest r1 := by
  simp only [State.addNewTasks]
  repeat' split
  all_goals first | rfl | simp_all

theorem addNewTasks_cons {s : State} {nt : NewTask} {rest : List NewTask} {r : List TaskId}
    {x : State × List TaskId} (h : s.addNewTasks (nt :: rest) r = .ok x) :
    ∃ s1 r1, s.addNewTasks [nt] r = .ok (s1, r1) ∧ s1.addNewTasks rest r1 = .ok x := by
  rw [addNewTasks_cons_eq] at h
  split at h
  · cases h
  · rename_i s1 r1 h1
    exact ⟨s1, r1, h1, h⟩

theorem addNewTasks_one_npdeps {U : List TaskId} {s s' : State} {nt : NewTask} {r r' : List TaskId}
    (h : NpDeps U s) (hq : QInv U none [] s) (hfresh : nt.id ∉ U) (hdn : nt.deps.Nodup)
    (heq : s.addNewTasks [nt] r = .ok (s', r')) : NpDeps (U ++ [nt.id]) s' := by
  simp only [State.addNewTasks] at heq
  have hreg := registerDeps_d nt.deps s.tasks nt.id
  generalize registerDeps s.tasks nt.id nt.deps = reg at heq hreg
  obtain ⟨ts, kept, n⟩ := reg
  simp only at heq hreg
  split at heq
  · cases heq
  · split at heq
    · split at heq
      · cases heq
      · rename_i s2 r2 ha
        cases heq
        have h2 : s2.tasks = ts := addReady_tasks ha
        exact h.new_task hq.nd hq.uT hq.uC hfresh hdn hreg rfl rfl rfl (by show s2.tasks ++ _ = _; rw [h2])
    · cases heq
      exact h.new_task hq.nd hq.uT hq.uC hfresh hdn hreg rfl rfl rfl rfl

theorem addNewTasks_npdeps (nts : List NewTask) {U : List TaskId} {s s' : State} {r r' : List TaskId}
    (h : NpDeps U s) (hq : QInv U none [] s) (hfresh : ∀ nt ∈ nts, nt.id ∉ U) (hnd : (nts.map (·.id)).Nodup)
    (hok : ∀ nt ∈ nts, nt.deps.Nodup) (heq : s.addNewTasks nts r = .ok (s', r')) :
    NpDeps (U ++ nts.map (·.id)) s' := by
  induction nts generalizing s r U with
  | nil =>
    simp only [State.addNewTasks] at heq; cases heq
    simpa using h
  | cons nt rest ih =>
    simp only [List.map_cons, List.nodup_cons] at hnd
    obtain ⟨s1, r1, h1, h2⟩ := addNewTasks_cons heq
    have hfr : nt.id ∉ U := hfresh nt (by simp)
    have hfresh' : ∀ x ∈ rest, x.id ∉ U ++ [nt.id] := by
      intro x hx hm
      rcases List.mem_append.mp hm with e | e
      · exact hfresh x (by simp [hx]) e
      · simp only [List.mem_singleton] at e
        exact hnd.1 (by rw [← e]; exact List.mem_map_of_mem hx)
    have hq1 : QInv (U ++ [nt.id]) none [] s1 := by
      have := addNewTasks_q [nt] s s1 r r1 U hq (by simpa using hfr) (by simp) h1
      simpa using this
    have hd1 := addNewTasks_one_npdeps h hq hfr (hok nt (by simp)) h1
    have := ih hd1 hq1 hfresh' hnd.2 (fun x hx => hok x (by simp [hx])) h2
    simpa using this

/-- **`on_new_tasks`** -/
theorem newTasks_npdeps {U : List TaskId} {s s' : State} {nts : List NewTask} {o : Out} (h : NpDeps U s)
    (hq : QInv U none [] s) (hfresh : ∀ nt ∈ nts, nt.id ∉ U) (hnd : (nts.map (·.id)).Nodup)
    (hok : NewTasksOk s nts) (heq : s.newTasks nts = .ok (s', o)) : NpDeps (U ++ nts.map (·.id)) s' := by
  simp only [State.newTasks] at heq
  split at heq
  · cases heq
  · split at heq
    · cases heq
    · rename_i s1 retracted h1
      split at heq
      · cases heq
      · rename_i s2 out h2
        cases heq
        have := addNewTasks_npdeps nts h hq hfresh hnd (fun nt hnt => (hok.2 nt hnt).2) h1
        exact ((this.of_ds (retract_ds h2)).of_ds (DS.ask s2))

/-! ### `on_cancel_tasks`, `task_failed` -/

theorem removeTasksBatched_npdeps (ids : List TaskId) {U pend : List TaskId} {s s' : State} (h : NpDeps U s)
    (hq : QInv U none pend s) (heq : s.removeTasksBatched ids = .ok s') : NpDeps U s' := by
  induction ids generalizing s with
  | nil => simp only [State.removeTasksBatched] at heq; cases heq; exact h
  | cons id rest ih =>
    simp only [State.removeTasksBatched] at heq
    split at heq
    · cases heq
    · rename_i s1 st h1
      exact ih (removeTask_npdeps_q h hq (Or.inl rfl) h1) (removeTask_safe h1 _ _ _ hq) heq

theorem cancelTasks_npdeps {U pend : List TaskId} {s s' : State} {ids : List TaskId} {o : Out} (h : NpDeps U s)
    (hq : QInv U none pend s) (heq : s.cancelTasks ids = .ok (s', o)) : NpDeps U s' := by
  simp only [State.cancelTasks] at heq
  split at heq
  · cases heq
  · rename_i s1 unreg running h1
    split at heq
    · cases heq
    · rename_i s2 h2
      cases heq
      exact removeTasksBatched_npdeps _ (cancelLoop_npdeps h h1) (cancelLoop_safe _ _ _ _ _ _ _ h1 _ _ _ hq) h2

theorem removeWaitingAll_npdeps (ids : List TaskId) {U pend : List TaskId} {s s' : State} (h : NpDeps U s)
    (hq : QInv U none pend s) (heq : s.removeWaitingAll ids = .ok s') : NpDeps U s' := by
  induction ids generalizing s with
  | nil => simp only [State.removeWaitingAll] at heq; cases heq; exact h
  | cons id rest ih =>
    simp only [State.removeWaitingAll] at heq
    split at heq
    · cases heq
    · rename_i s1 st h1
      split at heq
      · exact ih (removeTask_npdeps_q h hq (Or.inl rfl) h1) (removeTask_safe h1 _ _ _ hq) heq
      · cases heq

/-- the worker-side bookkeeping before the removal in `task_failed` does not touch the task map -/
theorem taskFailed_pre {s : State} {worker : Option Nat} {id : TaskId} {ret : List TaskId} {s' : State} {o : Out}
    (heq : s.taskFailed worker id ret = .ok (s', o)) :
    s' = s ∨ ∃ s1 s2 s3 cons st, Safe s s1 ∧ s1.tasks = s.tasks ∧ s1.removeWaitingAll cons = .ok s2 ∧
      s2.removeTask id = .ok (s3, st) ∧ (s' = s3 ∨ ∃ o2, s3.cancelTasks ret = .ok (s', o2)) := by
  simp only [State.taskFailed] at heq
  split at heq
  · cases heq; exact Or.inl rfl
  · rename_i task ht
    right
    split at heq
    · cases heq
    · rename_i s1 hpre
      have e1 : Safe s s1 := by
        clear heq
        repeat' (split at hpre)
        all_goals first
          | (cases hpre; exact Safe.refl _)
          | cases hpre
          | exact Safe.resetMnAll hpre
          | exact Safe.withWorker hpre
          | exact Safe.tryRemoveRedirection hpre
          | skip
        · rename_i s2 hp
          exact (Safe.removePrefilled hp).trans (Safe.withWorker hpre)
      have et : s1.tasks = s.tasks := by
        clear heq
        repeat' (split at hpre)
        all_goals grind
      split at heq
      · cases heq
      · rename_i cons hc
        split at heq
        · cases heq
        · rename_i s2 h2
          split at heq
          · cases heq
          · rename_i s3 st h3
            refine ⟨s1, s2, s3, cons, st, e1, et, h2, h3, ?_⟩
            clear hpre
            repeat' (split at heq)
            all_goals first
              | (cases heq; exact Or.inl rfl)
              | (rename_i h4; cases heq; exact Or.inr ⟨_, h4⟩)
              | cases heq

theorem taskFailed_npdeps {U pend : List TaskId} {s s' : State} {worker : Option Nat} {id : TaskId}
    {ret : List TaskId} {o : Out} (h : NpDeps U s) (hq : QInv U none pend s)
    (heq : s.taskFailed worker id ret = .ok (s', o)) : NpDeps U s' := by
  rcases taskFailed_pre heq with e | ⟨s1, s2, s3, cons, st, e1, et, h2, h3, h4⟩
  · rw [e]; exact h
  · have d1 : NpDeps U s1 := h.of_tasks_eq et
    have q1 := e1 _ _ _ hq
    have d2 := removeWaitingAll_npdeps _ d1 q1 h2
    have q2 := removeWaitingAll_safe _ _ _ h2 _ _ _ q1
    have d3 := removeTask_npdeps_q d2 q2 (Or.inl rfl) h3
    have q3 := removeTask_safe h3 _ _ _ q2
    rcases h4 with e | ⟨o2, h4⟩
    · rw [e]; exact d3
    · exact cancelTasks_npdeps d3 q3 h4

end HqModel.Core.NPB
