import HqModel.Lemmas.CoreQueueReactor
/-!
The queue / dependency invariant, part 3: `task_finished` (the one place where a dependency counter is decremented)
and `on_task_update`.

Inside `task_finished` the finished task `id` stays in the map (state Finished) while its consumers are woken:
the invariant holds with `f = some id` (the finished task does not count as a lister) and `pend` = the consumers
whose counter has not been decremented yet.
-/
namespace HqModel.Core

/-- operations that keep the invariant in its boundary form (`f = none`, nothing pending) -/
def SafeN (s s' : State) : Prop := ∀ U, QInv U none [] s → QInv U none [] s'

theorem SafeN.refl (s : State) : SafeN s s := fun _ h => h
theorem SafeN.trans {a b c : State} (h1 : SafeN a b) (h2 : SafeN b c) : SafeN a c := fun U h => h2 U (h1 U h)
theorem Safe.safeN {s s' : State} (h : Safe s s') : SafeN s s' := fun U hi => h U none [] hi

/-! ### listers with and without the finishing task -/

theorem nL_congr {f g : Option TaskId} {ts : List Task} {c : TaskId}
    (h : ∀ dt ∈ ts, lst f c dt = lst g c dt) : nL f ts c = nL g ts c := by
  unfold nL
  exact List.countP_congr fun x hx => by rw [h x hx]

theorem lst_some_of_ne {id c : TaskId} {dt : Task} (h : dt.id ≠ id) : lst (some id) c dt = lst none c dt := by
  simp [lst, h]

theorem lst_some_self {id c : TaskId} {dt : Task} (h : dt.id = id) : lst (some id) c dt = false := by
  simp [lst, h]

theorem nL_none_some {ts : List Task} {id : TaskId} {task : Task} (hn : (taskIds ts).Nodup)
    (hf : findTask ts id = some task) (c : TaskId) :
    nL none ts c = nL (some id) ts c + owed task.consumers c := by
  induction ts with
  | nil => cases hf
  | cons y ys ih =>
    simp only [taskIds, List.map_cons, List.nodup_cons] at hn
    simp only [findTask] at hf
    simp only [nL, List.countP_cons]
    split at hf
    · rename_i hy
      cases hf
      have hrest : List.countP (lst none c) ys = List.countP (lst (some id) c) ys := by
        refine List.countP_congr fun x hx => ?_
        have : x.id ≠ id := by
          intro e
          exact hn.1 (by rw [hy, ← e]; exact List.mem_map_of_mem hx)
        rw [lst_some_of_ne this]
      rw [hrest, lst_some_self hy]
      simp only [lst, owed, ne_eq, reduceCtorEq, not_false_eq_true, decide_true, Bool.and_true, decide_eq_true_eq,
        Bool.false_eq_true, if_false, Nat.add_zero]
    · rename_i hy
      have := ih hn.2 hf
      simp only [nL] at this
      rw [lst_some_of_ne hy]
      omega

/-- the task becomes Finished: it stops counting as a lister, its consumers owe one decrement each -/
theorem QInv4.finish {U ts qs} (hi : QInv4 U none [] ts qs) {id : TaskId} {task : Task}
    (hf : findTask ts id = some task) (hs : slack task.state = 0) :
    QInv4 U (some id) task.consumers (putTask ts { task with state := .finished }) qs := by
  have hid : task.id = id := findTask_some_id hf
  have hmem : task ∈ ts := findTask_some_mem hf
  have hf' : findTask ts ({ task with state := .finished } : Task).id = some task := by
    show findTask ts task.id = _; rw [hid]; exact hf
  have hsub : ∀ x ∈ putTask ts { task with state := .finished },
      (x = { task with state := .finished }) ∨ (x ∈ ts ∧ x.state ≠ .finished) := by
    intro x hx
    rcases mem_putTask hx with e | e
    · exact Or.inl e
    · refine Or.inr ⟨e, fun hfin => ?_⟩
      have := hi.fin x e hfin
      cases this
  have hnl : ∀ c, nL (some id) (putTask ts { task with state := .finished }) c + owed task.consumers c = nL none ts c := by
    intro c
    have h1 := nL_putTask (f := some id) hi.nd hf' c
    rw [lst_some_self hid, lst_some_self (dt := { task with state := .finished }) hid] at h1
    have h2 := nL_none_some hi.nd hf c
    simp only [Bool.false_eq_true, if_false, Nat.add_zero] at h1
    omega
  refine ⟨by rw [taskIds_putTask]; exact hi.nd, ?_, ?_, ?_, ?_, ?_, ?_⟩
  · intro x hx
    rcases hsub x hx with e | ⟨e, _⟩
    · subst e; exact hi.uT task hmem
    · exact hi.uT x e
  · intro x hx c hc
    rcases hsub x hx with e | ⟨e, _⟩
    · subst e; exact hi.uC task hmem c hc
    · exact hi.uC x e c hc
  · intro x hx
    rcases hsub x hx with e | ⟨e, _⟩
    · subst e; exact hi.cnd task hmem
    · exact hi.cnd x e
  · intro x hx hfin
    rcases hsub x hx with e | ⟨_, e⟩
    · subst e; show some task.id = some id; rw [hid]
    · exact absurd hfin e
  · intro c t hc
    rw [hnl c]
    rw [findTask_putTask] at hc
    split at hc
    · rename_i e
      have e' : c = id := by rw [e]; exact hid
      subst e'
      rw [hf] at hc
      simp only [Option.map_some, Option.some.injEq] at hc
      subst hc
      have := hi.cnt c task hf
      simp only [owed_nil, Nat.add_zero] at this
      show nL none ts c ≤ slack TS.finished
      rw [hs] at this
      simpa using this
    · have := hi.cnt c t hc
      simpa using this
  · intro i q hq x hx
    obtain ⟨g1, g2, g3, g4⟩ := hi.qg i q hq x hx
    refine ⟨g1, ?_, ?_, ?_⟩
    · intro t ht
      rw [findTask_putTask] at ht
      split at ht
      · rename_i e
        have e' : x = id := by rw [e]; exact hid
        subst e'
        rw [hf] at ht
        simp only [Option.map_some, Option.some.injEq] at ht
        subst ht
        exact g2 task hf
      · exact g2 t ht
    · intro dt hdt hc
      rcases hsub dt hdt with e | ⟨e, _⟩
      · subst e; show some task.id = some id; rw [hid]
      · have := g3 dt e hc
        cases this
    · intro t ht
      rw [findTask_putTask] at ht
      split at ht
      · cases hfx : findTask ts x with
        | none => rw [hfx] at ht; cases ht
        | some y =>
          rw [hfx] at ht
          simp only [Option.map_some, Option.some.injEq] at ht
          rw [← ht]; rfl
      · exact g4 t ht

/-- the counter of one consumer of the finishing task is decremented -/
theorem QInv4.wake {U f c rest ts qs} (hi : QInv4 U f (c :: rest) ts qs) {t : Task} {n : Nat}
    (hf : findTask ts c = some t) (hs : t.state = .waiting (n + 1)) (hc : c ∉ rest) :
    QInv4 U f rest (putTask ts { t with state := .waiting n }) qs := by
  have hid : t.id = c := findTask_some_id hf
  have hmem : t ∈ ts := findTask_some_mem hf
  have hf' : findTask ts ({ t with state := .waiting n } : Task).id = some t := by
    show findTask ts t.id = _; rw [hid]; exact hf
  have hsub : ∀ x ∈ putTask ts { t with state := .waiting n },
      (x = { t with state := .waiting n }) ∨ x ∈ ts := fun x hx => mem_putTask hx
  have hnl : ∀ d, nL f (putTask ts { t with state := .waiting n }) d = nL f ts d := by
    intro d
    have h1 := nL_putTask (f := f) hi.nd hf' d
    have : lst f d { t with state := .waiting n } = lst f d t := rfl
    rw [this] at h1
    omega
  refine ⟨by rw [taskIds_putTask]; exact hi.nd, ?_, ?_, ?_, ?_, ?_, ?_⟩
  · intro x hx
    rcases hsub x hx with e | e
    · subst e; exact hi.uT t hmem
    · exact hi.uT x e
  · intro x hx d hd
    rcases hsub x hx with e | e
    · subst e; exact hi.uC t hmem d hd
    · exact hi.uC x e d hd
  · intro x hx
    rcases hsub x hx with e | e
    · subst e; exact hi.cnd t hmem
    · exact hi.cnd x e
  · intro x hx hfin
    rcases hsub x hx with e | e
    · subst e; cases hfin
    · exact hi.fin x e hfin
  · intro d td hd
    rw [hnl d]
    rw [findTask_putTask] at hd
    split at hd
    · rename_i e
      have e' : d = c := by rw [e]; exact hid
      subst e'
      rw [hf] at hd
      simp only [Option.map_some, Option.some.injEq] at hd
      subst hd
      have := hi.cnt d t hf
      rw [hs] at this
      simp only [owed, List.mem_cons, true_or, if_true, slack_waiting, hc, if_false] at this ⊢
      omega
    · have := hi.cnt d td hd
      have hle : owed rest d ≤ owed (c :: rest) d := by
        simp only [owed, List.mem_cons]
        split <;> split <;> simp_all
      omega
  · intro i q hq x hx
    obtain ⟨g1, g2, g3, g4⟩ := hi.qg i q hq x hx
    refine ⟨g1, ?_, ?_, ?_⟩
    · intro t1 ht
      rw [findTask_putTask] at ht
      split at ht
      · rename_i e
        have e' : x = c := by rw [e]; exact hid
        subst e'
        rw [hf] at ht
        simp only [Option.map_some, Option.some.injEq] at ht
        subst ht
        exact g2 t hf
      · exact g2 t1 ht
    · intro dt hdt hcm
      rcases hsub dt hdt with e | e
      · subst e; exact g3 t hmem hcm
      · exact g3 dt e hcm
    · intro t1 ht
      rw [findTask_putTask] at ht
      split at ht
      · -- a queued task is not `Waiting (n+1)`
        rename_i e
        have e' : x = c := by rw [e]; exact hid
        subst e'
        have := g4 t hf
        rw [hs] at this
        simp at this
      · exact g4 t1 ht

/-- `pend` may shrink -/
theorem QInv4.pend_nil {U f pend ts qs} (hi : QInv4 U f pend ts qs) : QInv4 U f [] ts qs :=
  ⟨hi.nd, hi.uT, hi.uC, hi.cnd, hi.fin, fun c t hc => by have := hi.cnt c t hc; simp only [owed_nil]; omega, hi.qg⟩

theorem wakeConsumers_q {U f} (cs : List TaskId) (s s' : State) (r r' : List TaskId) (hi : QInv U f cs s)
    (hn : cs.Nodup) (h : s.wakeConsumers cs r = .ok (s', r')) : QInv U f [] s' := by
  induction cs generalizing s r with
  | nil => simp only [State.wakeConsumers] at h; cases h; exact hi
  | cons c rest ih =>
    simp only [List.nodup_cons] at hn
    simp only [State.wakeConsumers] at h
    split at h
    · cases h
    · rename_i t hg
      have ht := getTask_spec hg
      split at h
      · rename_i n hs
        have h1 : QInv U f rest (s.setTask { t with state := .waiting n }) := QInv4.wake hi ht hs hn.1
        split at h
        · rename_i hn0
          split at h
          · cases h
          · rename_i s2 r2 ha
            refine ih _ _ ?_ hn.2 h
            have hid : t.id = c := findTask_some_id ht
            refine Safe.addReady (t0 := { t with state := .waiting n }) ?_ rfl (by simp [hn0]) ha U f rest h1
            exact findTask_putTask_self (ts := s.tasks) (t := { t with state := .waiting n })
              ⟨t, by show findTask s.tasks t.id = _; rw [hid]; exact ht⟩
        · exact ih _ _ h1 hn.2 h
      · cases h

/-- the finishing task has left the map -/
theorem QInv4.unfin {U id ts qs} (hi : QInv4 U (some id) [] ts qs) (hf : findTask ts id = none) :
    QInv4 U none [] ts qs := by
  have hne : ∀ dt ∈ ts, dt.id ≠ id := by
    intro dt hdt e
    exact not_mem_of_findTask_none hf (e ▸ List.mem_map_of_mem (f := (·.id)) hdt)
  have hnl : ∀ c, nL none ts c = nL (some id) ts c :=
    fun c => nL_congr fun dt hdt => (lst_some_of_ne (hne dt hdt)).symm
  refine ⟨hi.nd, hi.uT, hi.uC, hi.cnd, ?_, ?_, ?_⟩
  · intro t ht hfin
    have := hi.fin t ht hfin
    simp only [Option.some.injEq] at this
    exact absurd this (hne t ht)
  · intro c t hc
    rw [hnl c]; exact hi.cnt c t hc
  · intro i q hq x hx
    obtain ⟨g1, g2, g3, g4⟩ := hi.qg i q hq x hx
    refine ⟨g1, g2, ?_, g4⟩
    intro dt hdt hc
    have := g3 dt hdt hc
    simp only [Option.some.injEq] at this
    exact absurd this (hne dt hdt)

theorem taskFinished_safeN {s s' : State} {w : Nat} {id : TaskId} {o : Out} {b : Bool}
    (h : s.taskFinished w id = .ok (s', o, b)) : SafeN s s' := by
  simp only [State.taskFinished, State.task?] at h
  split at h
  · cases h; exact SafeN.refl _
  · rename_i task ht
    split at h
    · cases h
    · rename_i s1 hpre
      have hsl : slack task.state = 0 := by
        cases hst : task.state <;> simp only [hst] at hpre <;> first | rfl | cases hpre
      have e1 : Safe s s1 := by
        clear h
        repeat' (split at hpre)
        all_goals first | cases hpre | skip
        all_goals grind
      have et : s1.tasks = s.tasks := by
        clear h
        repeat' (split at hpre)
        all_goals grind
      split at h
      · cases h
      · rename_i s3 retracted h3
        split at h
        · cases h
        · rename_i s4 out h4
          split at h
          · cases h
          · rename_i s5 st h5
            split at h
            · cases h
            · cases h
              intro U hi
              have hi1 : QInv U none [] s1 := e1 U none [] hi
              have ht1 : findTask s1.tasks id = some task := by rw [et]; exact ht
              have hi2 : QInv U (some id) task.consumers (s1.setTask { task with state := .finished }) :=
                QInv4.finish hi1 ht1 hsl
              have hi3 := wakeConsumers_q _ _ _ _ _ hi2 (hi1.cnd task (findTask_some_mem ht1)) h3
              have hi4 := retract_safe h4 U _ _ hi3
              have hi5 := removeTask_safe h5 U _ _ hi4
              exact QInv4.unfin hi5 (removeTask_unknown hi4.nd h5)

/-! ### `on_task_update` -/

theorem updateLoop_safeN (us : List Update) (s s' : State) (w : Nat) (rets rets' : List (List TaskId)) (o o' : Out)
    (n n' : Bool) (h : s.updateLoop w us rets o n = .ok (s', o', n', rets')) : SafeN s s' := by
  induction us generalizing s rets o n with
  | nil => simp only [State.updateLoop] at h; cases h; exact SafeN.refl _
  | cons u rest ih =>
    obtain ⟨s1, rets1, out1, need1, h1, h2⟩ := updateLoop_cons h
    refine SafeN.trans ?_ (ih _ _ _ _ h2)
    cases u <;> simp only [State.updateState] at h1 <;> split at h1 <;> first | cases h1 | skip
    · rename_i hh; exact taskFinished_safeN hh
    · rename_i hh; exact (taskFailed_safe hh).safeN
    · rename_i hh; exact (taskRunning_safe hh).safeN
    · rename_i hh; exact (taskRunning_safe hh).safeN
    · rename_i hh; exact (taskReject_safe hh).safeN
    · rename_i hh; exact (requestEnabled_safe hh).safeN

theorem taskUpdate_safeN {s s' : State} {w : Nat} {us : List Update} {rets : List (List TaskId)} {o : Out}
    (h : s.taskUpdate w us rets = .ok (s', o)) : SafeN s s' := by
  simp only [State.taskUpdate] at h
  split at h
  · cases h
  · rename_i s1 out need rets' h1
    cases h
    have := updateLoop_safeN _ _ _ _ _ _ _ _ _ _ h1
    split
    · exact this.trans (Safe.ask s1).safeN
    · exact this

end HqModel.Core
