import HqModel.Core.Sched
/-!
Step-level facts about the tako core model (M1) used by C01, C03, C05, C06, C07, C08.
-/
namespace HqModel.Core

/-! ### task map -/

def taskIds (ts : List Task) : List TaskId := ts.map (·.id)

theorem findTask_eraseTask_self {ts : List Task} {id : TaskId} (h : (taskIds ts).Nodup) :
    findTask (eraseTask ts id) id = none := by
  induction ts with
  | nil => rfl
  | cons x rest ih =>
    simp only [taskIds, List.map_cons, List.nodup_cons] at h
    simp only [eraseTask]
    split
    · rename_i hx
      -- the rest does not contain id
      have : ∀ l : List Task, id ∉ l.map (·.id) → findTask l id = none := by
        intro l
        induction l with
        | nil => intro _; rfl
        | cons y ys ihy =>
          intro hm
          simp only [List.map_cons, List.mem_cons, not_or] at hm
          have : ¬ y.id = id := fun e => hm.1 e.symm
          simp only [findTask, this, if_false]
          exact ihy hm.2
      exact this rest (hx ▸ h.1)
    · rename_i hx
      simp only [findTask, hx, if_false]
      exact ih h.2

theorem taskIds_putTask (ts : List Task) (t : Task) : taskIds (putTask ts t) = taskIds ts := by
  induction ts with
  | nil => rfl
  | cons x rest ih =>
    simp only [putTask]
    split
    · rename_i hx; simp [taskIds, hx] at ih ⊢; exact ih
    · simp [taskIds] at ih ⊢; exact ih

/-- **the task leaves the core with its outcome**: `Core::remove_task` makes the id unknown -/
theorem removeTask_unknown {s s' : State} {id : TaskId} {st : TS} (hnd : (taskIds s.tasks).Nodup)
    (h : s.removeTask id = .ok (s', st)) : s'.task? id = none := by
  have key : findTask (eraseTask s.tasks id) id = none := findTask_eraseTask_self hnd
  simp only [State.removeTask] at h
  split at h
  · cases h
  · rename_i task ht
    split at h
    · -- waiting
      split at h
      · cases h
      · rename_i s1 hq
        have hs1 : s1.tasks = eraseTask s.tasks id := by
          simp only [State.queueRemove] at hq
          split at hq
          · cases hq
          · cases hq; rfl
        split at h
        · split at h
          · cases h
          · rename_i ts hc
            cases h
            -- removing a consumer entry rewrites other tasks only
            have : ∀ (deps : List TaskId) (l l' : List Task), removeConsumers l id deps = .ok l' →
                taskIds l' = taskIds l := by
              intro deps
              induction deps with
              | nil => intro l l' e; simp only [removeConsumers] at e; cases e; rfl
              | cons d ds ihd =>
                intro l l' e
                simp only [removeConsumers] at e
                split at e
                · cases e
                · rename_i l1 h1
                  have h2 : taskIds l1 = taskIds l := by
                    simp only [removeConsumer] at h1
                    split at h1
                    · cases h1; rfl
                    · split at h1
                      · cases h1
                      · cases h1; exact taskIds_putTask _ _
                  rw [ihd l1 l' e, h2]
            have hids := this _ _ _ hc
            -- id is not among the ids, hence not found
            have nf : ∀ l : List Task, id ∉ taskIds l → findTask l id = none := by
              intro l
              induction l with
              | nil => intro _; rfl
              | cons y ys ihy =>
                intro hm
                simp only [taskIds, List.map_cons, List.mem_cons, not_or] at hm
                have : ¬ y.id = id := fun e => hm.1 e.symm
                simp only [findTask, this, if_false]
                exact ihy hm.2
            have hnot : id ∉ taskIds (eraseTask s.tasks id) := by
              intro hm
              have : ∀ l : List Task, (taskIds l).Nodup → id ∉ taskIds (eraseTask l id) := by
                intro l
                induction l with
                | nil => intro _ hm; cases hm
                | cons y ys ihy =>
                  intro hn hm
                  simp only [taskIds, List.map_cons, List.nodup_cons] at hn
                  simp only [eraseTask] at hm
                  split at hm
                  · rename_i hy; exact hn.1 (hy ▸ hm)
                  · rename_i hy
                    simp only [taskIds, List.map_cons, List.mem_cons] at hm
                    rcases hm with hm | hm
                    · exact hy hm.symm
                    · exact ihy hn.2 hm
              exact this _ hnd hm
            simp only [State.task?]
            apply nf
            rw [hids, hs1]; exact hnot
        · cases h
          simp only [State.task?, hs1]; exact key
    · -- retracting
      split at h
      · cases h
      · rename_i s1 hq
        have hs1 : s1.tasks = eraseTask s.tasks id := by
          simp only [State.queueRemove] at hq
          split at hq
          · cases hq
          · cases hq; rfl
        cases h
        simp only [State.task?, hs1]; exact key
    · cases h
      simp only [State.task?]; exact key

/-- updates about a task the core does not know are ignored (no callback, no state change) -/
theorem unknown_task_ignored (s : State) (w : Nat) (id : TaskId) (rv : Nat) (orv : Option Nat)
    (h : s.task? id = none) :
    s.taskRunning w id rv = .ok (s, {}) ∧
    s.taskFinished w id = .ok (s, {}, false) ∧
    s.taskFailed (some w) id [] = .ok (s, {}) ∧
    s.taskReject w id orv = .ok (s, {}, false) := by
  simp [State.taskRunning, State.taskFinished, State.taskFailed, State.taskReject, h]

/-! ### C07: the crash-limit decision table -/

theorem crashOutcome_never (f : Bool) (c : Nat) : crashOutcome .never f c = (c, true) := rfl

theorem crashOutcome_unlimited (f : Bool) (c : Nat) : (crashOutcome .unlimited f c).2 = false := by
  cases f <;> rfl

theorem crashOutcome_no_failure (l : CrashLimit) (c : Nat) (hl : l ≠ .never) :
    crashOutcome l false c = (c, false) := by
  cases l <;> simp_all [crashOutcome]

theorem crashOutcome_max (n c : Nat) :
    crashOutcome (.max n) true c = (c + 1, decide (c + 1 ≥ n)) := rfl

/-- the counter grows by one exactly on a failure loss (for restartable tasks) and the task fails exactly
when the count reaches the limit -/
theorem crashOutcome_spec (l : CrashLimit) (f : Bool) (c : Nat) :
    (crashOutcome l f c).1 = (if f && l ≠ .never then c + 1 else c) ∧
    ((crashOutcome l f c).2 = true ↔
      (l = .never ∨ (f = true ∧ ∃ n, l = .max n ∧ c + 1 ≥ n))) := by
  cases l <;> cases f <;> simp [crashOutcome]

/-! ### C03: counting unfinished dependencies -/

/-- a new task whose count of unfinished dependencies is positive is not put into any ready queue
(and a task whose count is zero is) -/
theorem addNewTasks_waits (s : State) (nt : NewTask) (s' : State) (r : List TaskId)
    (h : s.addNewTasks [nt] [] = .ok (s', r)) (hn : (registerDeps s.tasks nt.id nt.deps).2.2 > 0) :
    s'.queues = s.queues := by
  simp only [State.addNewTasks] at h
  generalize hreg : registerDeps s.tasks nt.id nt.deps = reg at h hn
  obtain ⟨ts, kept, n⟩ := reg
  simp only at h hn
  split at h
  · cases h
  · split at h
    · rename_i h0; omega
    · cases h; rfl

/-! ### C05: reservations are exact and reversible -/

/-- entries request distinct resources below the length of the vector with explicit amounts that fit -/
def Fits (free : List Nat) : List RqEntry → Prop
  | [] => True
  | e :: rest =>
    e.res < free.length ∧ (∃ a, e.pol = .amount a ∧ a ≤ getD free e.res) ∧
    (∀ e' ∈ rest, e'.res ≠ e.res) ∧
    Fits free rest

theorem getD_setAt_ne (l : List Nat) (i j v : Nat) (h : i ≠ j) : getD (setAt l i v) j = getD l j := by
  simp [getD, setAt, List.getD, h]

theorem getD_setAt_eq (l : List Nat) (i v : Nat) (h : i < l.length) : getD (setAt l i v) i = v := by
  simp [getD, setAt, List.getD, h]

theorem length_setAt (l : List Nat) (i v : Nat) : (setAt l i v).length = l.length := by simp [setAt]

theorem Fits_setAt {free : List Nat} {i v : Nat} :
    ∀ {es : List RqEntry}, (∀ e ∈ es, e.res ≠ i) → Fits free es → Fits (setAt free i v) es
  | [], _, _ => trivial
  | e :: rest, hne, hf => by
    obtain ⟨h1, ⟨a, h2, h3⟩, h4, h5⟩ := hf
    refine ⟨by rw [length_setAt]; exact h1, ⟨a, h2, ?_⟩, h4, ?_⟩
    · rw [getD_setAt_ne _ _ _ _ (hne e (by simp)).symm]; exact h3
    · exact Fits_setAt (fun e' he' => hne e' (by simp [he'])) h5

/-- **no saturation and exact amounts**: when the request fits, `remove` subtracts exactly the requested
amount of every requested resource and leaves the other resources alone -/
theorem freeRemove_exact : ∀ (es : List RqEntry) (free : List Nat), Fits free es →
    ∃ free', freeRemove free es = .ok free' ∧ free'.length = free.length ∧
      (∀ r, (∀ e ∈ es, e.res ≠ r) → getD free' r = getD free r) ∧
      (∀ e ∈ es, ∀ a, e.pol = .amount a → getD free' e.res + a = getD free e.res)
  | [], free, _ => ⟨free, rfl, rfl, fun _ _ => rfl, by simp⟩
  | e :: rest, free, hf => by
    obtain ⟨h1, ⟨a, h2, h3⟩, h4, h5⟩ := hf
    have hnlt : ¬ e.res ≥ free.length := by omega
    have hf' : Fits (setAt free e.res (getD free e.res - a)) rest := Fits_setAt h4 h5
    obtain ⟨free', e1, e2, e3, e4⟩ := freeRemove_exact rest _ hf'
    refine ⟨free', ?_, ?_, ?_, ?_⟩
    · simp only [freeRemove, hnlt, if_false, h2]; exact e1
    · rw [e2, length_setAt]
    · intro r hr
      rw [e3 r (fun e' he' => hr e' (by simp [he']))]
      exact getD_setAt_ne _ _ _ _ (hr e (by simp))
    · intro e' he' a' ha'
      simp only [List.mem_cons] at he'
      rcases he' with rfl | he'
      · rw [h2] at ha'; cases ha'
        rw [e3 _ (fun e'' he'' => h4 e'' he''), getD_setAt_eq _ _ _ h1]; omega
      · rw [e4 e' he' a' ha', getD_setAt_ne _ _ _ _ (h4 e' he').symm]

/-- what `add` does for explicit amounts on distinct resources -/
theorem freeAdd_exact (total : List Nat) : ∀ (es : List RqEntry) (free : List Nat),
    (∀ e ∈ es, e.res < free.length ∧ ∃ a, e.pol = .amount a) → (es.map (·.res)).Nodup →
    ∃ free', freeAdd free total es = .ok free' ∧ free'.length = free.length ∧
      (∀ r, (∀ e ∈ es, e.res ≠ r) → getD free' r = getD free r) ∧
      (∀ e ∈ es, ∀ a, e.pol = .amount a → getD free' e.res = getD free e.res + a)
  | [], free, _, _ => ⟨free, rfl, rfl, fun _ _ => rfl, by simp⟩
  | e :: rest, free, h, hnd => by
    obtain ⟨h1, a, h2⟩ := h e (by simp)
    simp only [List.map_cons, List.nodup_cons] at hnd
    have hnlt : ¬ e.res ≥ free.length := by omega
    obtain ⟨free', e1, e2, e3, e4⟩ := freeAdd_exact total rest (setAt free e.res (getD free e.res + a))
      (fun e' he' => by rw [length_setAt]; exact h e' (by simp [he'])) hnd.2
    have hne : ∀ e' ∈ rest, e'.res ≠ e.res := fun e' he' heq => hnd.1 (List.mem_map.mpr ⟨e', he', heq⟩)
    refine ⟨free', ?_, ?_, ?_, ?_⟩
    · simp only [freeAdd, hnlt, if_false, h2]; exact e1
    · rw [e2, length_setAt]
    · intro r hr
      rw [e3 r (fun e' he' => hr e' (by simp [he']))]
      exact getD_setAt_ne _ _ _ _ (hr e (by simp))
    · intro e' he' a' ha'
      simp only [List.mem_cons] at he'
      rcases he' with rfl | he'
      · rw [h2] at ha'; cases ha'
        rw [e3 _ hne, getD_setAt_eq _ _ _ h1]
      · rw [e4 e' he' a' ha', getD_setAt_ne _ _ _ _ (hne e' he').symm]

/-! ### C06: a task that comes back from a lost worker gets a larger instance id -/

theorem findTask_putTask_self {ts : List Task} {t : Task} (h : ∃ x, findTask ts t.id = some x) :
    findTask (putTask ts t) t.id = some t := by
  induction ts with
  | nil => obtain ⟨x, hx⟩ := h; simp [findTask] at hx
  | cons y rest ih =>
    simp only [putTask]
    split
    · simp [findTask]
    · rename_i hy
      simp only [findTask, hy, if_false] at h ⊢
      exact ih h

end HqModel.Core
