import HqModel.Lemmas.JournalStep
/-!
`restore_job` on a restorer job that is related (`JobRel`) to an abstract job: it does not stop, the restored task
table carries exactly the recorded outcomes, and the `TaskSubmit` batches contain every task without outcome exactly
once with dependencies = original dependencies minus completed ones.
-/
namespace HqModel.Journal
open HqModel.Job

/-- the state `restore_job` leaves in the job's task table -/
def stateOf (rt : List (Nat × RTask)) (i : Nat) : TState :=
  match alGet rt i with
  | some ti => if ti.state.isCompleted then ti.state else .waiting
  | none => .waiting

def finalTasks (rt : List (Nat × RTask)) (ids : List Nat) : List (Nat × TState) := ids.map fun i => (i, stateOf rt i)

theorem alGet_mapKey (g : Nat → β) (ids : List Nat) (k : Nat) :
    alGet (ids.map fun i => (i, g i)) k = if k ∈ ids then some (g k) else none := by
  induction ids with
  | nil => simp [alGet]
  | cons i is ih =>
    by_cases h : i = k
    · subst h; simp [alGet]
    · have : ¬ k = i := fun e => h e.symm
      simp [alGet, h, ih, this]

theorem alGet_append (l m : List (Nat × β)) (k : Nat) :
    alGet (l ++ m) k = match alGet l k with | some v => some v | none => alGet m k := by
  induction l with
  | nil => simp [alGet]
  | cons a r ih =>
    obtain ⟨k', w⟩ := a
    by_cases h : k' = k <;> simp [alGet, h, ih]

theorem alSet_absent (l : List (Nat × β)) (k : Nat) (v : β) (h : alGet l k = none) : alSet l k v = l ++ [(k, v)] := by
  induction l with
  | nil => rfl
  | cons a r ih =>
    obtain ⟨k', w⟩ := a
    by_cases hk : k' = k
    · simp [alGet, hk] at h
    · simp only [alGet, hk, if_false] at h
      simp [alSet, hk, ih h]

theorem attachIds_ok : ∀ (ids : List Nat) (T : List (Nat × TState)), (∀ i ∈ ids, alGet T i = none) → ids.Nodup →
    attachIds T ids = .ok (T ++ ids.map (·, .waiting)) := by
  intro ids
  induction ids with
  | nil => intro T _ _; simp [attachIds]
  | cons i is ih =>
    intro T hT hn
    have hi := hT i (List.mem_cons_self)
    simp only [attachIds, hi]
    rw [alSet_absent T i _ hi]
    have hn' := List.nodup_cons.1 hn
    rw [ih _ ?_ hn'.2]
    · simp
    · intro i' hi'
      have hne : i ≠ i' := fun e => hn'.1 (e ▸ hi')
      rw [alGet_append, hT i' (List.mem_cons_of_mem _ hi')]
      simp [alGet, hne]

theorem applyStates_final (rt : List (Nat × RTask)) (a b : List Nat) :
    applyStates rt (finalTasks rt a ++ b.map (·, .waiting)) = finalTasks rt (a ++ b) := by
  simp only [applyStates, finalTasks, List.map_append, List.map_map]
  congr 1
  · apply List.map_congr_left
    intro i _
    simp only [Function.comp_def, stateOf]
    cases alGet rt i with
    | none => rfl
    | some ti => by_cases hc : ti.state.isCompleted = true <;> simp [hc]
  · apply List.map_congr_left
    intro i _
    simp only [Function.comp_def, stateOf]
    cases alGet rt i with
    | none => rfl
    | some ti => by_cases hc : ti.state.isCompleted = true <;> simp [hc]

theorem validateGraphExisting_ok (jobHas : Nat → Bool) (have_ : List Nat) (hh : ∀ i, jobHas i = have_.contains i) :
    ∀ ts : List GraphTask, ts.all (fun t => !have_.contains t.id && t.rqOk) = true →
      validateGraphExisting jobHas ts = .ok none := by
  intro ts
  induction ts with
  | nil => intro _; rfl
  | cons t ts ih =>
    intro h
    simp only [List.all_cons, Bool.and_eq_true, Bool.not_eq_true'] at h
    simp only [validateGraphExisting, hh, h.1.1, h.1.2]
    exact ih h.2

theorem validateGraphDeps_ok (jobHas : Nat → Bool) (have_ : List Nat) (hh : ∀ i, jobHas i = have_.contains i) :
    ∀ (ts : List GraphTask) (seen : List Nat), (∀ t ∈ ts, t.id ∉ seen) → (ts.map (·.id)).Nodup →
      graphDepsOk have_ seen ts = true → validateGraphDeps jobHas seen ts = none := by
  intro ts
  induction ts with
  | nil => intro _ _ _ _; rfl
  | cons t ts ih =>
    intro seen hs hn hg
    simp only [graphDepsOk, Bool.and_eq_true, List.all_eq_true] at hg
    have hnot : seen.contains t.id = false := by
      have := hs t (List.mem_cons_self)
      simpa using this
    simp only [validateGraphDeps, hnot]
    have hfind : t.deps.find? (fun d => d == t.id || (!(t.id :: seen).contains d && !jobHas d)) = none := by
      rw [List.find?_eq_none]
      intro d hd
      have := hg.1 d hd
      simp only [Bool.and_eq_true, bne_iff_ne, ne_eq, Bool.or_eq_true] at this
      simp only [Bool.or_eq_true, beq_iff_eq, Bool.and_eq_true, Bool.not_eq_true', not_or, not_and,
        Bool.not_eq_false]
      refine ⟨this.1, ?_⟩
      intro hc
      rcases this.2 with h1 | h1
      · have : (t.id :: seen).contains d = true := by
          simp only [List.contains_cons, Bool.or_eq_true]; exact Or.inr h1
        rw [this] at hc; cases hc
      · rw [hh]; exact h1
    simp only [Bool.false_eq_true, if_false, hfind]
    simp only [List.map_cons, List.nodup_cons] at hn
    refine ih (t.id :: seen) ?_ hn.2 hg.2
    intro t' ht' hmem
    rcases List.mem_cons.1 hmem with e | hmem
    · exact hn.1 (List.mem_map.2 ⟨t', ht', e⟩)
    · exact hs t' (List.mem_cons_of_mem _ ht') hmem

theorem validate_ok {have_ : List Nat} {d : TaskDesc} (h : submitOk have_ d = true) (T : List (Nat × TState))
    (hT : ∀ i, (alGet T i).isSome = have_.contains i) : validateSubmit T d = .ok none := by
  cases d with
  | array ids e =>
    simp only [submitOk, Bool.and_eq_true, List.all_eq_true] at h
    have : ids.iter.find? (fun i => (alGet T i).isSome) = none := by
      rw [List.find?_eq_none]
      intro i hi
      have := h.1.1.2 i hi
      rw [hT]; simpa using this
    simp only [validateSubmit, this]
  | graph ts =>
    simp only [submitOk, Bool.and_eq_true, decide_eq_true_eq] at h
    simp only [validateSubmit, validateGraphExisting_ok _ have_ hT ts h.1.1,
      validateGraphDeps_ok _ have_ hT ts [] (by simp) h.1.2 h.2]


theorem submitOk_nodup {have_ : List Nat} {d : TaskDesc} (h : submitOk have_ d = true) : d.ids.Nodup := by
  cases d with
  | array ids e =>
    simp only [submitOk, Bool.and_eq_true, decide_eq_true_eq] at h
    exact h.1.2
  | graph ts =>
    simp only [submitOk, Bool.and_eq_true, decide_eq_true_eq] at h
    exact h.1.2

theorem finalTasks_get (rt : List (Nat × RTask)) (ids : List Nat) (i : Nat) :
    (alGet (finalTasks rt ids) i).isSome = ids.contains i := by
  simp only [finalTasks, alGet_mapKey]
  by_cases h : i ∈ ids <;> simp [h]

/-- one iteration of `for submit in self.submit_descs`, explicitly -/
theorem restoreSubmit_ok (job : Nat) (rt : List (Nat × RTask)) (pre : List Nat) (c : JCounters) (bs : List Batch)
    (n : Nat) (d : TaskDesc) (h : submitOk pre d = true) :
    restoreSubmit job rt ⟨finalTasks rt pre, c, bs, n⟩ d =
      .ok ⟨finalTasks rt (pre ++ d.ids),
           bumpCounters rt (finalTasks rt pre ++ d.ids.map (·, .waiting)) c,
           if (retainTasks rt d.tasks).isEmpty then bs
           else bs ++ [⟨job, retainTasks rt d.tasks, adjustOf rt (finalTasks rt pre ++ d.ids.map (·, .waiting))⟩],
           n + 1⟩ := by
  have hv := validate_ok h (finalTasks rt pre) (finalTasks_get rt pre)
  have hfresh := submitOk_fresh h
  have ha := attachIds_ok d.ids (finalTasks rt pre) (fun i hi => by
    have := finalTasks_get rt pre i
    have hc : pre.contains i = false := by simpa using hfresh i hi
    rw [hc] at this
    cases hg : alGet (finalTasks rt pre) i with
    | none => rfl
    | some _ => simp [hg] at this) (submitOk_nodup h)
  simp only [restoreSubmit, hv, ha, applyStates_final]

/-- the batches a list of submits produces, flattened -/
theorem restoreSubmits_ok (job : Nat) (rt : List (Nat × RTask)) :
    ∀ (ds : List TaskDesc) (pre : List Nat) (c : JCounters) (bs : List Batch) (n : Nat),
      submitsOk pre ds = true →
      ∃ c' nb, restoreSubmits job rt ⟨finalTasks rt pre, c, bs, n⟩ ds =
          .ok ⟨finalTasks rt (pre ++ ds.flatMap (·.ids)), c', bs ++ nb, n + ds.length⟩ ∧
        nb.flatMap (·.tasks) = retainTasks rt (ds.flatMap (·.tasks)) ∧ (∀ b ∈ nb, b.job = job) := by
  intro ds
  induction ds with
  | nil =>
    intro pre c bs n _
    exact ⟨c, [], by simp [restoreSubmits], by simp [retainTasks], by simp⟩
  | cons d ds ih =>
    intro pre c bs n h
    simp only [submitsOk, Bool.and_eq_true] at h
    simp only [restoreSubmits, restoreSubmit_ok job rt pre c bs n d h.1]
    obtain ⟨c', nb, h1, h2, h3⟩ := ih (pre ++ d.ids) (bumpCounters rt (finalTasks rt pre ++ d.ids.map (·, .waiting)) c)
      (if (retainTasks rt d.tasks).isEmpty then bs
       else bs ++ [⟨job, retainTasks rt d.tasks, adjustOf rt (finalTasks rt pre ++ d.ids.map (·, .waiting))⟩])
      (n + 1) h.2
    by_cases he : (retainTasks rt d.tasks).isEmpty = true
    · refine ⟨c', nb, ?_, ?_, h3⟩
      · rw [h1]; simp [he, List.append_assoc, Nat.add_assoc, Nat.add_comm 1]
      · have he' : retainTasks rt d.tasks = [] := by simpa using he
        simp only [retainTasks, List.flatMap_cons, List.filter_append, List.map_append] at *
        rw [h2, he']; simp
    · refine ⟨c', ⟨job, retainTasks rt d.tasks, adjustOf rt (finalTasks rt pre ++ d.ids.map (·, .waiting))⟩ :: nb, ?_, ?_, ?_⟩
      · rw [h1]; simp [he, List.append_assoc, Nat.add_assoc, Nat.add_comm 1]
      · simp only [retainTasks, List.flatMap_cons, List.filter_append, List.map_append] at *
        rw [h2]
      · intro b hb
        rcases List.mem_cons.1 hb with rfl | hb
        · rfl
        · exact h3 b hb


theorem isTaskCompleted_eq (rt : List (Nat × RTask)) (t : Nat) :
    isTaskCompleted rt t = (outcomeOpt (alGet rt t) != .waiting) := by
  unfold isTaskCompleted outcomeOpt
  cases alGet rt t with
  | none => rfl
  | some ti => obtain ⟨st, i, c⟩ := ti; cases st <;> rfl

theorem stateOf_outcome (rt : List (Nat × RTask)) (i : Nat) : (stateOf rt i).outcome = outcomeOpt (alGet rt i) := by
  unfold stateOf outcomeOpt
  cases alGet rt i with
  | none => rfl
  | some ti => obtain ⟨st, i, c⟩ := ti; cases st <;> rfl

theorem tasks_eq_spec {have_ : List Nat} {d : TaskDesc} (h : submitOk have_ d = true) :
    d.tasks = d.specTasks.map pairOf := by
  cases d with
  | array ids e =>
    simp only [submitOk, Bool.and_eq_true] at h
    cases e with
    | none => simp [TaskDesc.tasks, TaskDesc.specTasks, List.map_map, Function.comp_def, pairOf]
    | some n =>
      have hn : n = ids.iter.length := by simpa using h.2
      simp [TaskDesc.tasks, TaskDesc.specTasks, List.map_map, Function.comp_def, pairOf, hn]
  | graph ts => simp [TaskDesc.tasks, TaskDesc.specTasks, List.map_map, Function.comp_def, pairOf]

theorem submitsOk_tasks : ∀ (ds : List TaskDesc) (pre : List Nat), submitsOk pre ds = true →
    ds.flatMap (·.tasks) = ds.flatMap (fun d => d.specTasks.map pairOf) := by
  intro ds
  induction ds with
  | nil => intro _ _; rfl
  | cons d ds ih =>
    intro pre h
    simp only [submitsOk, Bool.and_eq_true] at h
    simp only [List.flatMap_cons, tasks_eq_spec h.1, ih _ h.2]

theorem find_of_mem {aj : AJob} {d : Nat} (h : d ∈ aj.tasks.map (·.id)) : ∃ a, aj.find d = some a := by
  unfold AJob.find
  cases hf : aj.tasks.find? (·.id == d) with
  | some a => exact ⟨a, rfl⟩
  | none =>
    rw [List.find?_eq_none] at hf
    obtain ⟨a, ha, hid⟩ := List.mem_map.1 h
    exact absurd (by simpa using hid) (hf a ha)

theorem find_none_of_not_mem {aj : AJob} {d : Nat} (h : d ∉ aj.tasks.map (·.id)) : aj.find d = none := by
  unfold AJob.find
  rw [List.find?_eq_none]
  intro a ha hid
  exact h (List.mem_map.2 ⟨a, ha, by simpa using hid⟩)

theorem JobRel.isTerminal_eq {rj : RJob} {aj : AJob} (h : JobRel rj aj) (d : Nat) :
    aj.isTerminal d = isTaskCompleted rj.tasks d := by
  rw [isTaskCompleted_eq]
  unfold AJob.isTerminal
  by_cases hm : d ∈ aj.tasks.map (·.id)
  · obtain ⟨a, ha⟩ := find_of_mem hm
    rw [ha]
    have := find_some ha
    simp only [h.outcome a this.1, this.2]
  · rw [find_none_of_not_mem hm]
    cases hg : alGet rj.tasks d with
    | none => rfl
    | some ti => exact absurd (h.known d (by simp [hg])) hm

theorem JobRel.pending_eq {rj : RJob} {aj : AJob} (h : JobRel rj aj) :
    retainTasks rj.tasks (aj.tasks.map pairOf) = aj.pending.map (fun p => (p.task, p.deps)) := by
  simp only [retainTasks, AJob.pending, List.filter_map, List.map_map]
  have hf : aj.tasks.filter ((fun t : Nat × List Nat => !isTaskCompleted rj.tasks t.1) ∘ pairOf) =
      aj.tasks.filter (·.st == .waiting) := by
    apply List.filter_congr
    intro a ha
    simp only [Function.comp_def, pairOf, isTaskCompleted_eq, h.outcome a ha]
    cases outcomeOpt (alGet rj.tasks a.id) <;> rfl
  rw [hf]
  apply List.map_congr_left
  intro a _
  simp only [Function.comp_def, pairOf, Prod.mk.injEq, true_and]
  apply List.filter_congr
  intro d _
  rw [h.isTerminal_eq]

theorem JobRel.count_eq {rj : RJob} {aj : AJob} (h : JobRel rj aj) (o : Outcome) (ho : o ≠ .waiting) :
    countOutcome rj.tasks ((aj.tasks.map (·.id)).map (·, TState.waiting)) o = aj.count o := by
  simp only [countOutcome, AJob.count, List.filter_map, List.length_map]
  congr 1
  apply List.filter_congr
  intro a ha
  simp only [Function.comp_def, h.outcome a ha, outcomeOpt]
  cases alGet rj.tasks a.id with
  | none => cases o <;> simp_all
  | some ti => rfl

/-- `restore_job` for a job related to its abstract counterpart -/
theorem restoreJob_ok (id : Nat) {rj : RJob} {aj : AJob} (h : JobRel rj aj) :
    ∃ rjob bs, restoreJob id rj = .ok (rjob, bs) ∧
      rjob.id = id ∧ rjob.isOpen = aj.isOpen ∧ rjob.maxFails = aj.maxFails ∧ rjob.nSubmits = aj.nSubmits ∧
      rjob.tasks.map (fun t => (t.1, t.2.outcome)) = aj.tasks.map (fun a => (a.id, a.st)) ∧
      bs.flatMap (·.tasks) = aj.pending.map (fun p => (p.task, p.deps)) ∧ (∀ b ∈ bs, b.job = id) ∧
      (aj.nSubmits ≤ 1 → rjob.counters =
        ⟨0, aj.count .finished, aj.count .failed, aj.count .canceled, aj.count .aborted⟩) := by
  obtain ⟨c', nb, h1, h2, h3⟩ := restoreSubmits_ok id rj.tasks rj.submits [] {} [] 0 h.valid
  have h1' : restoreSubmits id rj.tasks {} rj.submits =
      .ok ⟨finalTasks rj.tasks (rj.submits.flatMap (·.ids)), c', nb, rj.submits.length⟩ := by
    simpa [finalTasks] using h1
  refine ⟨⟨id, rj.isOpen, rj.maxFails, finalTasks rj.tasks (rj.submits.flatMap (·.ids)), c', rj.submits.length⟩, nb,
    by simp only [restoreJob, h1'], rfl, h.isOpen, h.maxFails, h.nSubmits.symm, ?_, ?_, h3, ?_⟩
  · simp only [finalTasks, List.map_map, Function.comp_def, stateOf_outcome, ← h.ids]
    apply List.map_congr_left
    intro a ha
    rw [h.outcome a ha]
  · rw [h2, submitsOk_tasks _ _ h.valid, ← h.tasks, h.pending_eq]
  · intro hle
    rw [h.nSubmits] at hle
    simp only
    cases hs : rj.submits with
    | nil =>
      have ht : aj.tasks = [] := by
        have := h.tasks; rw [hs] at this; simpa using this
      rw [hs] at h1'
      simp only [restoreSubmits] at h1'
      cases h1'
      simp [AJob.count, ht]
    | cons d ds =>
      cases ds with
      | cons d2 ds2 => rw [hs] at hle; simp at hle
      | nil =>
        have hv := h.valid
        rw [hs] at h1' hv
        simp only [submitsOk, Bool.and_eq_true] at hv
        have hone := restoreSubmit_ok id rj.tasks [] {} [] 0 d hv.1
        have hfin : finalTasks rj.tasks [] = [] := rfl
        rw [hfin] at hone
        simp only [restoreSubmits] at h1'
        have hJ : ({} : JobAcc) = ⟨[], {}, [], 0⟩ := rfl
        rw [hJ, hone] at h1'
        simp only [Except.ok.injEq, JobAcc.mk.injEq] at h1'
        rw [← h1'.2.1]
        have hids : aj.tasks.map (·.id) = d.ids := by rw [h.ids, hs]; simp
        simp only [bumpCounters, List.nil_append, ← hids, Nat.zero_add]
        rw [h.count_eq .finished (by decide), h.count_eq .failed (by decide), h.count_eq .canceled (by decide),
          h.count_eq .aborted (by decide)]


theorem batchPending_of_job {bs : List Batch} {id : Nat} (h : ∀ b ∈ bs, b.job = id) :
    batchPending bs = (bs.flatMap (·.tasks)).map fun t => (id, t.1, t.2) := by
  induction bs with
  | nil => rfl
  | cons b bs ih =>
    have hb := h b (List.mem_cons_self)
    have := ih (fun b' hb' => h b' (List.mem_cons_of_mem _ hb'))
    simp only [batchPending, List.flatMap_cons, List.map_append] at *
    rw [this, hb]

theorem restoreJobsFrom_ok {rjobs : List (Nat × RJob)} {ajobs : List (Nat × AJob)} (h : AlRel JobRel rjobs ajobs) :
    ∀ acc : Restored, ∃ js bs, restoreJobsFrom rjobs acc =
        .ok { acc with jobs := acc.jobs ++ js, batches := acc.batches ++ bs } ∧
      js.map RestoredJob.view = ajobs.map (fun ja => ja.2.view ja.1) ∧
      batchPending bs = ajobs.flatMap (fun ja => ja.2.pending.map fun p => (ja.1, p.task, p.deps)) ∧
      (∀ j ∈ js, ∃ aj, (j.id, aj) ∈ ajobs ∧ (aj.nSubmits ≤ 1 → j.counters = aj.counters)) := by
  induction h with
  | nil => intro acc; exact ⟨[], [], by simp [restoreJobsFrom], rfl, rfl, by simp⟩
  | @cons k rj aj l m hrel _ ih =>
    intro acc
    obtain ⟨rjob, bs, h1, h2, h3, h4, h5, h6, h7, h8, h9⟩ := restoreJob_ok k hrel
    obtain ⟨js, bs', g1, g2, g3, g4⟩ := ih { acc with jobs := acc.jobs ++ [rjob], batches := acc.batches ++ bs }
    refine ⟨rjob :: js, bs ++ bs', ?_, ?_, ?_, ?_⟩
    · simp only [restoreJobsFrom, h1, g1]; simp [List.append_assoc]
    · simp only [List.map_cons, g2]
      congr 1
      simp only [RestoredJob.view, AJob.view, h2, h3, h4, h5, h6]
    · have : batchPending (bs ++ bs') = batchPending bs ++ batchPending bs' := by simp [batchPending]
      rw [this, g3, batchPending_of_job h8, h7]
      simp [List.map_map, Function.comp_def]
    · intro j hj
      rcases List.mem_cons.1 hj with rfl | hj
      · exact ⟨aj, by rw [h2]; exact List.mem_cons_self, h9⟩
      · obtain ⟨aj', ha', hc'⟩ := g4 j hj
        exact ⟨aj', List.mem_cons_of_mem _ ha', hc'⟩

theorem alGet_of_mem_nodup {l : List (Nat × β)} (hn : (l.map (·.1)).Nodup) {k : Nat} {v : β} (h : (k, v) ∈ l) :
    alGet l k = some v := by
  induction l with
  | nil => simp at h
  | cons a r ih =>
    obtain ⟨k', w⟩ := a
    simp only [List.map_cons, List.nodup_cons] at hn
    rcases List.mem_cons.1 h with e | h
    · cases e; simp [alGet]
    · have : k' ≠ k := fun e => hn.1 (e ▸ List.mem_map.2 ⟨(k, v), h, rfl⟩)
      simp [alGet, this, ih hn.2 h]

theorem alSet_keys_nodup (l : List (Nat × β)) (k : Nat) (v : β) (h : (l.map (·.1)).Nodup) :
    ((alSet l k v).map (·.1)).Nodup := by
  induction l with
  | nil => simp [alSet]
  | cons a r ih =>
    obtain ⟨k', w⟩ := a
    simp only [List.map_cons, List.nodup_cons] at h
    by_cases hk : k' = k
    · simp only [alSet, hk, if_true, List.map_cons, List.nodup_cons]
      exact ⟨hk ▸ h.1, h.2⟩
    · simp only [alSet, hk, if_false, List.map_cons, List.nodup_cons]
      refine ⟨?_, ih h.2⟩
      intro hmem
      have := (alGet_isSome_iff (alSet r k v) k').2 hmem
      rw [alGet_set_ne _ _ (fun e => hk e.symm)] at this
      exact h.1 ((alGet_isSome_iff r k').1 this)

theorem alDel_keys_nodup (l : List (Nat × β)) (k : Nat) (h : (l.map (·.1)).Nodup) :
    ((alDel l k).map (·.1)).Nodup := by
  induction l with
  | nil => simp [alDel]
  | cons a r ih =>
    obtain ⟨k', w⟩ := a
    simp only [List.map_cons, List.nodup_cons] at h
    by_cases hk : k' = k
    · simp only [alDel, hk, if_true]; exact ih h.2
    · simp only [alDel, hk, if_false, List.map_cons, List.nodup_cons]
      refine ⟨?_, ih h.2⟩
      intro hmem
      have := (alGet_isSome_iff (alDel r k) k').2 hmem
      rw [alGet_del] at this
      have hne : ¬ k = k' := fun e => hk e.symm
      simp only [hne, if_false] at this
      exact h.1 ((alGet_isSome_iff r k').1 this)

theorem alMap_keys (f : β → γ) (l : List (Nat × β)) : (alMap f l).map (·.1) = l.map (·.1) := by
  simp [alMap, List.map_map, Function.comp_def]


theorem updTask_keys (s : AState) (j t : Nat) (f : ATask → ATask) (h : (s.jobs.map (·.1)).Nodup) :
    ((updTask s j t f).jobs.map (·.1)).Nodup := by
  unfold updTask
  split
  · exact alSet_keys_nodup _ _ _ h
  · exact h

theorem foldl_setOutcome_keys (o : Outcome) : ∀ (ids : List (Nat × Nat)) (s : AState), (s.jobs.map (·.1)).Nodup →
    ((ids.foldl (setOutcome o) s).jobs.map (·.1)).Nodup := by
  intro ids
  induction ids with
  | nil => intro s h; exact h
  | cons id ids ih => intro s h; exact ih _ (updTask_keys s _ _ _ h)

theorem meaningStep_keys (s : AState) (x : Record) (h : (s.jobs.map (·.1)).Nodup) :
    ((meaningStep s x).jobs.map (·.1)).Nodup := by
  cases x <;> simp only [meaningStep] <;> try exact h
  case workerLost w r => rw [alMap_keys]; exact h
  case submit j c mf d =>
    split
    · exact alSet_keys_nodup _ _ _ h
    · split
      · exact alSet_keys_nodup _ _ _ h
      · exact h
  case jobOpen j mf => exact alSet_keys_nodup _ _ _ h
  case jobClose j =>
    split
    · exact alSet_keys_nodup _ _ _ h
    · exact h
  case jobCompleted j => exact alDel_keys_nodup _ _ h
  case taskStarted j t i ws => exact updTask_keys _ _ _ _ h
  case taskFinished j t => exact updTask_keys _ _ _ _ h
  case taskFailed j t => exact updTask_keys _ _ _ _ h
  case tasksCanceled ids => exact foldl_setOutcome_keys _ ids s h
  case tasksAborted ids => exact foldl_setOutcome_keys _ ids s h

theorem meaning_keys : ∀ (J : List Record) (s : AState), (s.jobs.map (·.1)).Nodup →
    ((J.foldl meaningStep s).jobs.map (·.1)).Nodup := by
  intro J
  induction J with
  | nil => intro s h; exact h
  | cons x xs ih => intro s h; exact ih _ (meaningStep_keys s x h)

end HqModel.Journal
