import HqModel.Lemmas.JournalStep
/-!
`restore_job` on a restorer job that is related (`JobRel`) to an abstract job: it does not stop, the restored task
table carries exactly the recorded outcomes, and the `TaskSubmit` batches contain every task without outcome exactly
once with dependencies = original dependencies minus completed ones.
-/
namespace HqModel.Journal
open HqModel.Job

/-- the state `restore_job` leaves in the job's task table -/
def stateOf (rt : List (Nat × RTask)) (i : Nat) : TState :=
  match alGet rt i with
  | some ti => if ti.state.isCompleted then ti.state else .waiting
  | none => .waiting

def finalTasks (rt : List (Nat × RTask)) (ids : List Nat) : List (Nat × TState) := ids.map fun i => (i, stateOf rt i)

theorem alGet_mapKey (g : Nat → β) (ids : List Nat) (k : Nat) :
    alGet (ids.map fun i => (i, g i)) k = if k ∈ ids then some (g k) else none := by
  induction ids with
  | nil => simp [alGet]
  | cons i is ih =>
    by_cases h : i = k
    · subst h; simp [alGet]
    · have : ¬ k = i := fun e => h e.symm
      simp [alGet, h, ih, this]

theorem alGet_append (l m : List (Nat × β)) (k : Nat) :
    alGet (l ++ m) k = match alGet l k with | some v => some v | none => alGet m k := by
  induction l with
  | nil => simp [alGet]
  | cons a r ih =>
    obtain ⟨k', w⟩ := a
    by_cases h : k' = k <;> simp [alGet, h, ih]

theorem alSet_absent (l : List (Nat × β)) (k : Nat) (v : β) (h : alGet l k = none) : alSet l k v = l ++ [(k, v)] := by
  induction l with
  | nil => rfl
  | cons a r ih =>
    obtain ⟨k', w⟩ := a
    by_cases hk : k' = k
    · simp [alGet, hk] at h
    · simp only [alGet, hk, if_false] at h
      simp [alSet, hk, ih h]

theorem attachIds_ok : ∀ (ids : List Nat) (T : List (Nat × TState)), (∀ i ∈ ids, alGet T i = none) → ids.Nodup →
    attachIds T ids = .ok (T ++ ids.map (·, .waiting)) := by
  intro ids
  induction ids with
  | nil => intro T _ _; simp [attachIds]
  | cons i is ih =>
    intro T hT hn
    have hi := hT i (List.mem_cons_self)
    simp only [attachIds, hi]
    rw [alSet_absent T i _ hi]
    have hn' := List.nodup_cons.1 hn
    rw [ih _ ?_ hn'.2]
    · simp
    · intro i' hi'
      have hne : i ≠ i' := fun e => hn'.1 (e ▸ hi')
      rw [alGet_append, hT i' (List.mem_cons_of_mem _ hi')]
      simp [alGet, hne]

theorem applyStates_final (rt : List (Nat × RTask)) (a b : List Nat) :
    applyStates rt (finalTasks rt a ++ b.map (·, .waiting)) = finalTasks rt (a ++ b) := by
  simp only [applyStates, finalTasks, List.map_append, List.map_map]
  congr 1
  · apply List.map_congr_left
    intro i _
    simp only [Function.comp_def, stateOf]
    cases alGet rt i with
    | none => simp [TState.isWaiting]
    | some ti =>
      by_cases hc : ti.state.isCompleted = true
      · simp only [hc, if_true]
        split <;> rfl
      · simp [hc, TState.isWaiting]
  · apply List.map_congr_left
    intro i _
    simp only [Function.comp_def, stateOf, TState.isWaiting, if_true]
    cases alGet rt i with
    | none => rfl
    | some ti => by_cases hc : ti.state.isCompleted = true <;> simp [hc]

theorem validateGraphExisting_ok (jobHas : Nat → Bool) (have_ : List Nat) (hh : ∀ i, jobHas i = have_.contains i) :
    ∀ ts : List GraphTask, ts.all (fun t => !have_.contains t.id && t.rqOk) = true →
      validateGraphExisting jobHas ts = .ok none := by
  intro ts
  induction ts with
  | nil => intro _; rfl
  | cons t ts ih =>
    intro h
    simp only [List.all_cons, Bool.and_eq_true, Bool.not_eq_true'] at h
    simp only [validateGraphExisting, hh, h.1.1, h.1.2]
    exact ih h.2

theorem validateGraphDeps_ok (jobHas : Nat → Bool) (have_ : List Nat) (hh : ∀ i, jobHas i = have_.contains i) :
    ∀ (ts : List GraphTask) (seen : List Nat), (∀ t ∈ ts, t.id ∉ seen) → (ts.map (·.id)).Nodup →
      graphDepsOk have_ seen ts = true → validateGraphDeps jobHas seen ts = none := by
  intro ts
  induction ts with
  | nil => intro _ _ _ _; rfl
  | cons t ts ih =>
    intro seen hs hn hg
    simp only [graphDepsOk, Bool.and_eq_true, List.all_eq_true] at hg
    have hnot : seen.contains t.id = false := by
      have := hs t (List.mem_cons_self)
      simpa using this
    simp only [validateGraphDeps, hnot]
    have hfind : t.deps.find? (fun d => d == t.id || (!(t.id :: seen).contains d && !jobHas d)) = none := by
      rw [List.find?_eq_none]
      intro d hd
      have := hg.1 d hd
      simp only [Bool.and_eq_true, bne_iff_ne, ne_eq, Bool.or_eq_true] at this
      simp only [Bool.or_eq_true, beq_iff_eq, Bool.and_eq_true, Bool.not_eq_true', not_or, not_and,
        Bool.not_eq_false]
      refine ⟨this.1, ?_⟩
      intro hc
      rcases this.2 with h1 | h1
      · have : (t.id :: seen).contains d = true := by
          simp only [List.contains_cons, Bool.or_eq_true]; exact Or.inr h1
        rw [this] at hc; cases hc
      · rw [hh]; exact h1
    simp only [Bool.false_eq_true, if_false, hfind]
    simp only [List.map_cons, List.nodup_cons] at hn
    refine ih (t.id :: seen) ?_ hn.2 hg.2
    intro t' ht' hmem
    rcases List.mem_cons.1 hmem with e | hmem
    · exact hn.1 (List.mem_map.2 ⟨t', ht', e⟩)
    · exact hs t' (List.mem_cons_of_mem _ ht') hmem

theorem validate_ok {have_ : List Nat} {d : TaskDesc} (h : submitOk have_ d = true) (T : List (Nat × TState))
    (hT : ∀ i, (alGet T i).isSome = have_.contains i) : validateSubmit T d = .ok none := by
  cases d with
  | array ids e =>
    simp only [submitOk, Bool.and_eq_true, List.all_eq_true] at h
    have : ids.iter.find? (fun i => (alGet T i).isSome) = none := by
      rw [List.find?_eq_none]
      intro i hi
      have := h.1.1.2 i hi
      rw [hT]; simpa using this
    simp only [validateSubmit, this]
  | graph ts =>
    simp only [submitOk, Bool.and_eq_true, decide_eq_true_eq] at h
    simp only [validateSubmit, validateGraphExisting_ok _ have_ hT ts h.1.1,
      validateGraphDeps_ok _ have_ hT ts [] (by simp) h.1.2 h.2]


theorem submitOk_nodup {have_ : List Nat} {d : TaskDesc} (h : submitOk have_ d = true) : d.ids.Nodup := by
  cases d with
  | array ids e =>
    simp only [submitOk, Bool.and_eq_true, decide_eq_true_eq] at h
    exact h.1.2
  | graph ts =>
    simp only [submitOk, Bool.and_eq_true, decide_eq_true_eq] at h
    exact h.1.2

theorem finalTasks_get (rt : List (Nat × RTask)) (ids : List Nat) (i : Nat) :
    (alGet (finalTasks rt ids) i).isSome = ids.contains i := by
  simp only [finalTasks, alGet_mapKey]
  by_cases h : i ∈ ids <;> simp [h]

/-- the job tasks one pass of the loop looks at: the tasks of this submit (all still `Waiting` in the job table) and
the earlier ones that restore left `Waiting` -/
def passTasks (rt : List (Nat × RTask)) (pre : List Nat) (d : TaskDesc) : List (Nat × TState) :=
  stillWaiting (finalTasks rt pre ++ d.ids.map (·, .waiting))

/-- one iteration of `for submit in self.submit_descs`, explicitly -/
theorem restoreSubmit_ok (job : Nat) (rt : List (Nat × RTask)) (pre : List Nat) (c : JCounters) (bs : List Batch)
    (n : Nat) (d : TaskDesc) (h : submitOk pre d = true) :
    restoreSubmit job rt ⟨finalTasks rt pre, c, bs, n⟩ d =
      .ok ⟨finalTasks rt (pre ++ d.ids),
           bumpCounters rt (passTasks rt pre d) c,
           if (retainTasks rt d.tasks).isEmpty then bs
           else bs ++ [⟨job, retainTasks rt d.tasks, adjustOf rt (passTasks rt pre d)⟩],
           n + 1⟩ := by
  have hv := validate_ok h (finalTasks rt pre) (finalTasks_get rt pre)
  have hfresh := submitOk_fresh h
  have ha := attachIds_ok d.ids (finalTasks rt pre) (fun i hi => by
    have := finalTasks_get rt pre i
    have hc : pre.contains i = false := by simpa using hfresh i hi
    rw [hc] at this
    cases hg : alGet (finalTasks rt pre) i with
    | none => rfl
    | some _ => simp [hg] at this) (submitOk_nodup h)
  simp only [restoreSubmit, hv, ha, applyStates_final, passTasks]

/-- what `handle_new_tasks` makes of the restorer entry of a task: (instance id, crash counter) -/
def effOf (rt : List (Nat × RTask)) (t : Nat) : Nat × Nat :=
  match alGet rt t with
  | some ti => ((match ti.inst with | some x => x + 1 | none => 0), ti.crash)
  | none => (0, 0)

def adjCond (rt : List (Nat × RTask)) (t : Nat) : Bool :=
  match alGet rt t with
  | some ti => ti.crash > 0 || ti.inst.isSome
  | none => false

theorem adjustOf_none (rt : List (Nat × RTask)) (t : Nat) (hc : adjCond rt t = false) :
    ∀ L : List (Nat × TState), alGet (adjustOf rt L) t = none := by
  intro L
  induction L with
  | nil => rfl
  | cons jt L ih =>
    obtain ⟨k, st⟩ := jt
    simp only [adjustOf, List.filterMap_cons] at ih ⊢
    cases hg : alGet rt k with
    | none => simpa [hg] using ih
    | some ti =>
      simp only [hg]
      by_cases hcond : (ti.crash > 0 || ti.inst.isSome) = true
      · simp only [hcond, if_true]
        have hkt : k ≠ t := by
          intro e; subst e
          simp [adjCond, hg] at hc
          simp [hc] at hcond
        simp only [alGet, hkt, if_false]
        exact ih
      · simp only [hcond, Bool.false_eq_true, if_false]
        exact ih

theorem adjustOf_some (rt : List (Nat × RTask)) (t : Nat) (hc : adjCond rt t = true) :
    ∀ L : List (Nat × TState), t ∈ L.map (·.1) → alGet (adjustOf rt L) t = some (effOf rt t) := by
  intro L
  induction L with
  | nil => intro h; simp at h
  | cons jt L ih =>
    obtain ⟨k, st⟩ := jt
    intro hmem
    simp only [adjustOf, List.filterMap_cons] at ih ⊢
    by_cases hkt : k = t
    · subst hkt
      cases hg : alGet rt k with
      | none => simp [adjCond, hg] at hc
      | some ti =>
        have hcond : (ti.crash > 0 || ti.inst.isSome) = true := by simpa [adjCond, hg] using hc
        simp only [hg, hcond, if_true, alGet, effOf]
        rfl
    · have hmem' : t ∈ L.map (·.1) := by
        simp only [List.map_cons, List.mem_cons] at hmem
        rcases hmem with e | hmem
        · exact absurd e.symm hkt
        · exact hmem
      cases hg : alGet rt k with
      | none => simpa [hg] using ih hmem'
      | some ti =>
        simp only [hg]
        by_cases hcond : (ti.crash > 0 || ti.inst.isSome) = true
        · simp only [hcond, if_true, alGet, hkt, if_false]; exact ih hmem'
        · simp only [hcond, Bool.false_eq_true, if_false]; exact ih hmem'

/-- the adjust map gives a task of the pass exactly `effOf` -/
theorem adjusted_eq (rt : List (Nat × RTask)) (L : List (Nat × TState)) (t : Nat) (hmem : t ∈ L.map (·.1)) :
    (match alGet (adjustOf rt L) t with | some ic => ic | none => (0, 0)) = effOf rt t := by
  by_cases hc : adjCond rt t = true
  · rw [adjustOf_some rt t hc L hmem]
  · have hc' : adjCond rt t = false := by simpa using hc
    rw [adjustOf_none rt t hc' L]
    unfold effOf
    unfold adjCond at hc'
    cases hg : alGet rt t with
    | none => rfl
    | some ti =>
      simp only [hg, Bool.or_eq_false_iff, decide_eq_false_iff_not, Nat.not_lt, Nat.le_zero_eq] at hc'
      cases hi : ti.inst with
      | none => simp [hc'.1, hi]
      | some x => simp [hi] at hc'

theorem desc_tasks_ids (d : TaskDesc) : ∀ t ∈ d.tasks, t.1 ∈ d.ids := by
  intro t ht
  cases d with
  | array ids e =>
    cases e with
    | none =>
      simp only [TaskDesc.tasks, List.mem_map] at ht
      obtain ⟨i, hi, rfl⟩ := ht
      simpa [TaskDesc.ids] using hi
    | some n =>
      simp only [TaskDesc.tasks, List.mem_map] at ht
      obtain ⟨i, hi, rfl⟩ := ht
      simpa [TaskDesc.ids] using List.mem_of_mem_take hi
  | graph ts =>
    simp only [TaskDesc.tasks, List.mem_map] at ht
    obtain ⟨g, hg, rfl⟩ := ht
    simp only [TaskDesc.ids, List.mem_map]
    exact ⟨g, hg, rfl⟩

theorem passTasks_mem (rt : List (Nat × RTask)) (pre : List Nat) (d : TaskDesc) (i : Nat) (hi : i ∈ d.ids) :
    i ∈ (passTasks rt pre d).map (·.1) := by
  simp only [passTasks, stillWaiting, List.mem_map, List.mem_filter, List.mem_append]
  exact ⟨(i, .waiting), ⟨Or.inr ⟨i, hi, rfl⟩, rfl⟩, rfl⟩

/-- the counts one pass adds: only the tasks of this submit can have a completed restorer state -/
theorem pass_count (rt : List (Nat × RTask)) (pre : List Nat) (d : TaskDesc) (o : Outcome) (ho : o ≠ .waiting) :
    countOutcome rt (passTasks rt pre d) o = countOutcome rt (d.ids.map (·, TState.waiting)) o := by
  have h1 : stillWaiting (d.ids.map (·, TState.waiting)) = d.ids.map (·, TState.waiting) := by
    simp only [stillWaiting, List.filter_eq_self, List.mem_map]
    rintro _ ⟨i, _, rfl⟩; rfl
  have h2 : countOutcome rt (stillWaiting (finalTasks rt pre)) o = 0 := by
    simp only [countOutcome, stillWaiting, List.filter_filter, List.length_eq_zero_iff, List.filter_eq_nil_iff,
      finalTasks, List.mem_map]
    rintro _ ⟨i, _, rfl⟩
    simp only [stateOf, Bool.and_eq_true, not_and]
    cases hg : alGet rt i with
    | none => simp
    | some ti =>
      obtain ⟨st, ii, cc⟩ := ti
      cases st <;> simp_all [TState.isCompleted, TState.isWaiting, TState.outcome] <;> cases o <;> simp_all
  simp only [passTasks, stillWaiting, List.filter_append] at h2 ⊢
  simp only [stillWaiting] at h1
  rw [h1]
  simp only [countOutcome, List.filter_append, List.length_append] at h2 ⊢
  omega

/-- add the counts of the completed tasks among `ids` -/
def addCounts (rt : List (Nat × RTask)) (ids : List Nat) (c : JCounters) : JCounters :=
  { c with
    finished := c.finished + countOutcome rt (ids.map (·, TState.waiting)) .finished
    failed := c.failed + countOutcome rt (ids.map (·, TState.waiting)) .failed
    canceled := c.canceled + countOutcome rt (ids.map (·, TState.waiting)) .canceled
    aborted := c.aborted + countOutcome rt (ids.map (·, TState.waiting)) .aborted }

theorem countOutcome_append (rt : List (Nat × RTask)) (a b : List (Nat × TState)) (o : Outcome) :
    countOutcome rt (a ++ b) o = countOutcome rt a o + countOutcome rt b o := by
  simp [countOutcome, List.filter_append]

theorem addCounts_append (rt : List (Nat × RTask)) (a b : List Nat) (c : JCounters) :
    addCounts rt (a ++ b) c = addCounts rt b (addCounts rt a c) := by
  simp only [addCounts, List.map_append, countOutcome_append, Nat.add_assoc]

theorem bump_pass (rt : List (Nat × RTask)) (pre : List Nat) (d : TaskDesc) (c : JCounters) :
    bumpCounters rt (passTasks rt pre d) c = addCounts rt d.ids c := by
  simp only [bumpCounters, addCounts, pass_count rt pre d _ (by decide : Outcome.finished ≠ .waiting),
    pass_count rt pre d _ (by decide : Outcome.failed ≠ .waiting),
    pass_count rt pre d _ (by decide : Outcome.canceled ≠ .waiting),
    pass_count rt pre d _ (by decide : Outcome.aborted ≠ .waiting)]

/-- the batches a list of submits produces, flattened; the counters; the adjust entries -/
theorem restoreSubmits_ok (job : Nat) (rt : List (Nat × RTask)) :
    ∀ (ds : List TaskDesc) (pre : List Nat) (c : JCounters) (bs : List Batch) (n : Nat),
      submitsOk pre ds = true →
      ∃ nb, restoreSubmits job rt ⟨finalTasks rt pre, c, bs, n⟩ ds =
          .ok ⟨finalTasks rt (pre ++ ds.flatMap (·.ids)), addCounts rt (ds.flatMap (·.ids)) c, bs ++ nb,
            n + ds.length⟩ ∧
        nb.flatMap (·.tasks) = retainTasks rt (ds.flatMap (·.tasks)) ∧ (∀ b ∈ nb, b.job = job) ∧
        (∀ b ∈ nb, ∀ t ∈ b.tasks, b.adjusted t.1 = effOf rt t.1) := by
  intro ds
  induction ds with
  | nil =>
    intro pre c bs n _
    exact ⟨[], by simp [restoreSubmits, addCounts, countOutcome], by simp [retainTasks], by simp, by simp⟩
  | cons d ds ih =>
    intro pre c bs n h
    simp only [submitsOk, Bool.and_eq_true] at h
    simp only [restoreSubmits, restoreSubmit_ok job rt pre c bs n d h.1, bump_pass]
    obtain ⟨nb, h1, h2, h3, h4⟩ := ih (pre ++ d.ids) (addCounts rt d.ids c)
      (if (retainTasks rt d.tasks).isEmpty then bs
       else bs ++ [⟨job, retainTasks rt d.tasks, adjustOf rt (passTasks rt pre d)⟩])
      (n + 1) h.2
    by_cases he : (retainTasks rt d.tasks).isEmpty = true
    · refine ⟨nb, ?_, ?_, h3, h4⟩
      · rw [h1]; simp [he, List.append_assoc, Nat.add_assoc, Nat.add_comm 1, addCounts_append]
      · have he' : retainTasks rt d.tasks = [] := by simpa using he
        simp only [retainTasks, List.flatMap_cons, List.filter_append, List.map_append] at *
        rw [h2, he']; simp
    · refine ⟨⟨job, retainTasks rt d.tasks, adjustOf rt (passTasks rt pre d)⟩ :: nb, ?_, ?_, ?_, ?_⟩
      · rw [h1]; simp [he, List.append_assoc, Nat.add_assoc, Nat.add_comm 1, addCounts_append]
      · simp only [retainTasks, List.flatMap_cons, List.filter_append, List.map_append] at *
        rw [h2]
      · intro b hb
        rcases List.mem_cons.1 hb with rfl | hb
        · rfl
        · exact h3 b hb
      · intro b hb t ht
        rcases List.mem_cons.1 hb with rfl | hb
        · simp only [Batch.adjusted]
          apply adjusted_eq
          apply passTasks_mem
          simp only [retainTasks, List.mem_map, List.mem_filter] at ht
          obtain ⟨t0, ⟨ht0, _⟩, rfl⟩ := ht
          exact desc_tasks_ids d t0 ht0
        · exact h4 b hb t ht

theorem isTaskCompleted_eq (rt : List (Nat × RTask)) (t : Nat) :
    isTaskCompleted rt t = (outcomeOpt (alGet rt t) != .waiting) := by
  unfold isTaskCompleted outcomeOpt
  cases alGet rt t with
  | none => rfl
  | some ti => obtain ⟨st, i, c⟩ := ti; cases st <;> rfl

theorem stateOf_outcome (rt : List (Nat × RTask)) (i : Nat) : (stateOf rt i).outcome = outcomeOpt (alGet rt i) := by
  unfold stateOf outcomeOpt
  cases alGet rt i with
  | none => rfl
  | some ti => obtain ⟨st, i, c⟩ := ti; cases st <;> rfl

theorem tasks_eq_spec {have_ : List Nat} {d : TaskDesc} (h : submitOk have_ d = true) :
    d.tasks = d.specTasks.map pairOf := by
  cases d with
  | array ids e =>
    simp only [submitOk, Bool.and_eq_true] at h
    cases e with
    | none => simp [TaskDesc.tasks, TaskDesc.specTasks, List.map_map, Function.comp_def, pairOf]
    | some n =>
      have hn : n = ids.iter.length := by simpa using h.2
      simp [TaskDesc.tasks, TaskDesc.specTasks, List.map_map, Function.comp_def, pairOf, hn]
  | graph ts => simp [TaskDesc.tasks, TaskDesc.specTasks, List.map_map, Function.comp_def, pairOf]

theorem submitsOk_tasks : ∀ (ds : List TaskDesc) (pre : List Nat), submitsOk pre ds = true →
    ds.flatMap (·.tasks) = ds.flatMap (fun d => d.specTasks.map pairOf) := by
  intro ds
  induction ds with
  | nil => intro _ _; rfl
  | cons d ds ih =>
    intro pre h
    simp only [submitsOk, Bool.and_eq_true] at h
    simp only [List.flatMap_cons, tasks_eq_spec h.1, ih _ h.2]

theorem find_of_mem {aj : AJob} {d : Nat} (h : d ∈ aj.tasks.map (·.id)) : ∃ a, aj.find d = some a := by
  unfold AJob.find
  cases hf : aj.tasks.find? (·.id == d) with
  | some a => exact ⟨a, rfl⟩
  | none =>
    rw [List.find?_eq_none] at hf
    obtain ⟨a, ha, hid⟩ := List.mem_map.1 h
    exact absurd (by simpa using hid) (hf a ha)

theorem find_none_of_not_mem {aj : AJob} {d : Nat} (h : d ∉ aj.tasks.map (·.id)) : aj.find d = none := by
  unfold AJob.find
  rw [List.find?_eq_none]
  intro a ha hid
  exact h (List.mem_map.2 ⟨a, ha, by simpa using hid⟩)

theorem JobRel.isTerminal_eq {rj : RJob} {aj : AJob} (h : JobRel rj aj) (d : Nat) :
    aj.isTerminal d = isTaskCompleted rj.tasks d := by
  rw [isTaskCompleted_eq]
  unfold AJob.isTerminal
  by_cases hm : d ∈ aj.tasks.map (·.id)
  · obtain ⟨a, ha⟩ := find_of_mem hm
    rw [ha]
    have := find_some ha
    simp only [h.outcome a this.1, this.2]
  · rw [find_none_of_not_mem hm]
    cases hg : alGet rj.tasks d with
    | none => rfl
    | some ti => exact absurd (h.known d (by simp [hg])) hm

theorem JobRel.pending_eq {rj : RJob} {aj : AJob} (h : JobRel rj aj) :
    retainTasks rj.tasks (aj.tasks.map pairOf) = aj.pending.map (fun p => (p.task, p.deps)) := by
  simp only [retainTasks, AJob.pending, List.filter_map, List.map_map]
  have hf : aj.tasks.filter ((fun t : Nat × List Nat => !isTaskCompleted rj.tasks t.1) ∘ pairOf) =
      aj.tasks.filter (·.st == .waiting) := by
    apply List.filter_congr
    intro a ha
    simp only [Function.comp_def, pairOf, isTaskCompleted_eq, h.outcome a ha]
    cases outcomeOpt (alGet rj.tasks a.id) <;> rfl
  rw [hf]
  apply List.map_congr_left
  intro a _
  simp only [Function.comp_def, pairOf, Prod.mk.injEq, true_and]
  apply List.filter_congr
  intro d _
  rw [h.isTerminal_eq]

theorem JobRel.count_eq {rj : RJob} {aj : AJob} (h : JobRel rj aj) (o : Outcome) (ho : o ≠ .waiting) :
    countOutcome rj.tasks ((aj.tasks.map (·.id)).map (·, TState.waiting)) o = aj.count o := by
  simp only [countOutcome, AJob.count, List.filter_map, List.length_map]
  congr 1
  apply List.filter_congr
  intro a ha
  simp only [Function.comp_def, h.outcome a ha, outcomeOpt]
  cases alGet rj.tasks a.id with
  | none => cases o <;> simp_all
  | some ti => rfl

/-- what restore hands to the core for a pending task = what the journal recorded -/
theorem eff_eq {conn : List Nat} {mw : Nat} {rj : RJob} {aj : AJob} (h : JobRel rj aj) (hc : CrashRel conn mw rj aj)
    (a : ATask) (ha : a ∈ aj.tasks) :
    effOf rj.tasks a.id = ((match a.inst with | some i => i + 1 | none => 0), a.crashes) := by
  have h1 := h.inst a ha
  have h2 := hc.crash a ha
  unfold effOf
  cases hg : alGet rj.tasks a.id with
  | none => rw [hg] at h1 h2; simp [h1, h2]
  | some ti => rw [hg] at h1 h2; simp only [Option.bind_some, Option.map_some, Option.getD_some] at h1 h2; rw [h1, h2]

/-- `restore_job` for a job related to its abstract counterpart -/
theorem restoreJob_ok (id : Nat) {conn : List Nat} {mw : Nat} {rj : RJob} {aj : AJob} (h : JobRel rj aj)
    (hc : CrashRel conn mw rj aj) :
    ∃ rjob bs, restoreJob id rj = .ok (rjob, bs) ∧ rjob.view = aj.view id ∧
      batchPending bs = aj.pending.map (fun p => (id, p.task, p.deps, p.inst, p.crashes)) := by
  obtain ⟨nb, h1, h2, h3, h4⟩ := restoreSubmits_ok id rj.tasks rj.submits [] {} [] 0 h.valid
  have h1' : restoreSubmits id rj.tasks {} rj.submits =
      .ok ⟨finalTasks rj.tasks (rj.submits.flatMap (·.ids)), addCounts rj.tasks (rj.submits.flatMap (·.ids)) {}, nb,
        rj.submits.length⟩ := by
    simpa [finalTasks] using h1
  refine ⟨⟨id, rj.isOpen, rj.maxFails, finalTasks rj.tasks (rj.submits.flatMap (·.ids)),
    addCounts rj.tasks (rj.submits.flatMap (·.ids)) {}, rj.submits.length⟩, nb,
    by simp only [restoreJob, h1'], ?_, ?_⟩
  · simp only [RestoredJob.view, AJob.view, h.isOpen, h.maxFails, h.nSubmits, Prod.mk.injEq, true_and]
    refine ⟨?_, ?_⟩
    · simp only [finalTasks, List.map_map, Function.comp_def, stateOf_outcome, ← h.ids]
      apply List.map_congr_left
      intro a ha
      rw [h.outcome a ha]
    · simp only [addCounts, AJob.counters, ← h.ids, h.count_eq _ (by decide : Outcome.finished ≠ .waiting),
        h.count_eq _ (by decide : Outcome.failed ≠ .waiting), h.count_eq _ (by decide : Outcome.canceled ≠ .waiting),
        h.count_eq _ (by decide : Outcome.aborted ≠ .waiting), Nat.zero_add]
  · -- every batch belongs to the job and carries `effOf` for its tasks
    have hb : batchPending nb = (nb.flatMap (·.tasks)).map fun t => (id, t.1, t.2, (effOf rj.tasks t.1).1,
        (effOf rj.tasks t.1).2) := by
      clear h1 h1' h2
      induction nb with
      | nil => rfl
      | cons b bs ih =>
        have hj := h3 b (List.mem_cons_self)
        have ha := h4 b (List.mem_cons_self)
        have := ih (fun b' hb' => h3 b' (List.mem_cons_of_mem _ hb')) (fun b' hb' => h4 b' (List.mem_cons_of_mem _ hb'))
        simp only [batchPending, List.flatMap_cons, List.map_append] at this ⊢
        rw [this, hj]
        congr 1
        apply List.map_congr_left
        intro t ht
        rw [ha t ht]
    rw [hb, h2, submitsOk_tasks _ _ h.valid, ← h.tasks]
    -- retained tasks = pending tasks, with the same remaining deps, and `effOf` = recorded instance / crashes
    have hp := h.pending_eq
    simp only [retainTasks, AJob.pending, List.filter_map, List.map_map] at hp ⊢
    have hf : aj.tasks.filter ((fun t : Nat × List Nat => !isTaskCompleted rj.tasks t.1) ∘ pairOf) =
        aj.tasks.filter (·.st == .waiting) := by
      apply List.filter_congr
      intro a ha
      simp only [Function.comp_def, pairOf, isTaskCompleted_eq, h.outcome a ha]
      cases outcomeOpt (alGet rj.tasks a.id) <;> rfl
    rw [hf]
    apply List.map_congr_left
    intro a ha
    have ha' : a ∈ aj.tasks := (List.mem_filter.1 ha).1
    simp only [Function.comp_def, pairOf, eff_eq h hc a ha', Prod.mk.injEq, true_and, and_true]
    refine ⟨?_, rfl⟩
    apply List.filter_congr
    intro d _
    rw [h.isTerminal_eq]

theorem restoreJobsFrom_ok {conn : List Nat} {mw : Nat} {rjobs : List (Nat × RJob)} {ajobs : List (Nat × AJob)}
    (h : AlRel (JR conn mw) rjobs ajobs) :
    ∀ acc : Restored, ∃ js bs, restoreJobsFrom rjobs acc =
        .ok { acc with jobs := acc.jobs ++ js, batches := acc.batches ++ bs } ∧
      js.map RestoredJob.view = ajobs.map (fun ja => ja.2.view ja.1) ∧
      batchPending bs = ajobs.flatMap (fun ja => ja.2.pending.map fun p => (ja.1, p.task, p.deps, p.inst, p.crashes)) := by
  induction h with
  | nil => intro acc; exact ⟨[], [], by simp [restoreJobsFrom], rfl, rfl⟩
  | @cons k rj aj l m hrel _ ih =>
    intro acc
    obtain ⟨rjob, bs, h1, h2, h3⟩ := restoreJob_ok k hrel.1 hrel.2
    obtain ⟨js, bs', g1, g2, g3⟩ := ih { acc with jobs := acc.jobs ++ [rjob], batches := acc.batches ++ bs }
    refine ⟨rjob :: js, bs ++ bs', ?_, ?_, ?_⟩
    · simp only [restoreJobsFrom, h1, g1]; simp [List.append_assoc]
    · simp only [List.map_cons, g2, h2]
    · have : batchPending (bs ++ bs') = batchPending bs ++ batchPending bs' := by simp [batchPending]
      rw [this, g3, h3]
      simp

end HqModel.Journal
