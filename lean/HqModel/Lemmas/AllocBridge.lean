import HqModel.Lemmas.AllocInv2
/-!
Both the pools (`PoolInv`) and the concise state (`CInv`) are functions of the held entries; hence the concise state
equals the summary of the pools up to zero-valued map entries (`CEquiv`) — the relation `ResourceAllocator::validate`
asserts in debug builds.
-/
namespace HqModel.Alloc

/-- equality of concise states as maps: same units, same free fraction for every index (absent = 0), i.e. equality
after `strip_zeros` -/
def CEquiv (c c' : CState) : Prop :=
  c.length = c'.length ∧ ∀ (g : Nat) (cg cg' : CGroup), c[g]? = some cg → c'[g]? = some cg' →
    cg.units = cg'.units ∧ ∀ i, fracOf cg.fracs i = fracOf cg'.fracs i

/-- summary of the groups of an index pool (`concise_state`) -/
def summ (gs : List Group) : CState := gs.map (fun g => ⟨g.free.length, g.fracs⟩)

theorem group_summary {gs : List Group} {U : Nat → List Nat} {L : List AIdx} (h : PoolInv gs U L) {g : Nat}
    {grp : Group} (hg : gs[g]? = some grp) :
    grp.free.length = freeCount (U g) L g ∧
      ∀ i, fracOf grp.fracs i = if heldBy L g i = 0 then 0 else FPU - heldBy L g i := by
  have hwf := h.wf g grp hg
  have hvals := h.vals g grp hg
  have hcons : ∀ i, FPU * grp.free.count i + fracOf grp.fracs i + heldBy L g i = FPU * (U g).count i := by
    intro i
    have := h.conserve g i
    rwa [freeAmt_of_get hg] at this
  have hcU : ∀ i, (U g).count i ≤ 1 := count_le_one_of_nodup (h.univ g)
  have hcF : ∀ i, grp.free.count i ≤ 1 := count_le_one_of_nodup hwf.1
  -- per index case analysis
  have key : ∀ i, (grp.free.count i = 1 ↔ ((U g).count i = 1 ∧ heldBy L g i = 0)) ∧
      fracOf grp.fracs i = (if heldBy L g i = 0 then 0 else FPU - heldBy L g i) := by
    intro i
    have c1 := hcons i
    have c2 := hcU i
    have c3 := hcF i
    have c4 := hvals i
    have hz : grp.free.count i = 1 → fracOf grp.fracs i = 0 := by
      intro h1
      exact hwf.2 i (List.count_pos_iff.mp (by omega))
    have hF := FPU_pos
    rcases Nat.lt_or_ge 0 (grp.free.count i) with hc | hc
    · have h1 : grp.free.count i = 1 := by omega
      have h0 := hz h1
      rw [h1, h0] at c1
      have hU1 : (U g).count i = 1 := by
        rcases Nat.eq_zero_or_pos ((U g).count i) with hu | hu
        · rw [hu] at c1; omega
        · omega
      rw [hU1] at c1
      have hh : heldBy L g i = 0 := by omega
      exact ⟨⟨fun _ => ⟨hU1, hh⟩, fun _ => h1⟩, by rw [if_pos hh, h0]⟩
    · have h0 : grp.free.count i = 0 := by omega
      rw [h0] at c1
      rcases Nat.eq_zero_or_pos ((U g).count i) with hu | hu
      · rw [hu] at c1
        have hh : heldBy L g i = 0 := by omega
        have hf : fracOf grp.fracs i = 0 := by omega
        refine ⟨⟨fun h => by omega, fun h => by omega⟩, by rw [if_pos hh, hf]⟩
      · have hU1 : (U g).count i = 1 := by omega
        rw [hU1] at c1
        by_cases hh : heldBy L g i = 0
        · rw [hh] at c1
          omega
        · refine ⟨⟨fun h => by omega, fun h => absurd h.2 hh⟩, ?_⟩
          rw [if_neg hh]
          omega
  refine ⟨?_, fun i => (key i).2⟩
  -- the free list is a permutation of the indices of the universe nothing is held of
  unfold freeCount
  apply List.Perm.length_eq
  apply (List.perm_ext_iff_of_nodup hwf.1 ((h.univ g).sublist List.filter_sublist)).mpr
  intro i
  have hk := (key i).1
  constructor
  · intro hi
    have h1 : grp.free.count i = 1 := by
      have := List.count_pos_iff.mpr hi
      have := hcF i
      omega
    obtain ⟨hU1, hh⟩ := hk.mp h1
    exact List.mem_filter.mpr ⟨List.count_pos_iff.mp (by omega), by simp [hh]⟩
  · intro hi
    obtain ⟨hiU, hh⟩ := List.mem_filter.mp hi
    have hU1 : (U g).count i = 1 := by
      have := List.count_pos_iff.mpr hiU
      have := hcU i
      omega
    have hh' : heldBy L g i = 0 := by simpa using hh
    have := hk.mpr ⟨hU1, hh'⟩
    exact List.count_pos_iff.mp (by omega)

theorem cinv_summ {c : CState} {gs : List Group} {U : Nat → List Nat} {L : List AIdx}
    (hc : CInv c gs.length U L) (hp : PoolInv gs U L) : CEquiv c (summ gs) := by
  refine ⟨by simp [summ, hc.len], ?_⟩
  intro g cg cg' hcg hcg'
  simp only [summ, List.getElem?_map] at hcg'
  cases hg : gs[g]? with
  | none => simp [hg] at hcg'
  | some grp =>
    simp only [hg, Option.map_some, Option.some.injEq] at hcg'
    subst hcg'
    obtain ⟨hlen, hfr⟩ := group_summary hp hg
    exact ⟨by rw [hc.units g cg hcg, hlen], fun i => by rw [hc.fracs g cg hcg i, hfr i]⟩

/-- **`ConciseFreeResources` = `summary pools`** for every state satisfying the full invariant -/
theorem concise_eq_summary {U} {s : State} (hinv : Inv2 U s) (rid : Nat) (p : Pool) (c : CState)
    (hp : s.pools[rid]? = some p) (hc : s.concise[rid]? = some c) : CEquiv c p.conciseState := by
  have hpc := hinv.concise.pc rid p c hp hc
  have hpool := hinv.inv.pools.pool rid p hp
  cases p with
  | empty =>
    rcases hpc with ⟨-, rfl⟩ | ⟨ht, -⟩ | ⟨ht, -⟩
    · exact ⟨rfl, fun g cg cg' h => by simp at h⟩
    · simp [Pool.tag] at ht
    · simp [Pool.tag] at ht
  | indices full g =>
    rcases hpc with ⟨ht, -⟩ | ⟨-, hci⟩ | ⟨ht, -⟩
    · simp [Pool.tag] at ht
    · exact cinv_summ (gs := [g]) hci hpool
    · simp [Pool.tag] at ht
  | groups full gs =>
    rcases hpc with ⟨ht, -⟩ | ⟨-, hci⟩ | ⟨ht, -⟩
    · simp [Pool.tag] at ht
    · exact cinv_summ hci hpool
    · simp [Pool.tag] at ht
  | sum full free =>
    rcases hpc with ⟨ht, -⟩ | ⟨ht, -⟩ | ⟨-, cg, rfl, hu, hf, -⟩
    · simp [Pool.tag] at ht
    · rcases ht with h | h <;> simp [Pool.tag] at h
    · refine ⟨rfl, fun g cg₁ cg₂ h₁ h₂ => ?_⟩
      cases g with
      | succ k => simp at h₁
      | zero =>
        simp only [List.getElem?_cons_zero, Option.some.injEq] at h₁
        simp only [Pool.conciseState, List.getElem?_cons_zero, Option.some.injEq] at h₂
        subst h₁ h₂
        refine ⟨hu, fun i => ?_⟩
        rw [hf i]
        show _ = fracOf (if 0 < free % FPU then [(0, free % FPU)] else []) i
        simp only [Pool.sumFree]
        by_cases hpos : 0 < free % FPU
        · by_cases hi : i = 0
          · simp [hpos, hi, fracOf, fget]
          · have : ¬ 0 = i := fun h => hi h.symm
            simp [hpos, hi, fracOf, fget, this]
        · have h0 : free % FPU = 0 := by omega
          by_cases hi : i = 0 <;> simp [hpos, hi, fracOf, h0]

/-- every free fraction recorded in the concise state is below one unit -/
theorem concise_vals_lt {U} {s : State} (hinv : Inv2 U s) (rid : Nat) (p : Pool) (c : CState)
    (hp : s.pools[rid]? = some p) (hc : s.concise[rid]? = some c) : ∀ g ∈ c, ∀ kv ∈ g.fracs, kv.2 < FPU := by
  have hpc := hinv.concise.pc rid p c hp hc
  have hF := FPU_pos
  intro g hg kv hkv
  rcases hpc with ⟨-, rfl⟩ | ⟨-, hci⟩ | ⟨-, cg, rfl, -, hf, hnd⟩
  · cases hg
  · obtain ⟨gi, hgi⟩ := List.getElem?_of_mem hg
    have h1 := fget_of_mem (hci.nodup gi g hgi) hkv
    have h2 := hci.fracs gi g hgi kv.1
    rw [fracOf_of_fget h1] at h2
    rw [h2]
    split <;> omega
  · simp only [List.mem_cons, List.not_mem_nil, or_false] at hg
    subst hg
    have h1 := fget_of_mem hnd hkv
    have h2 := hf kv.1
    rw [fracOf_of_fget h1] at h2
    rw [h2]
    split
    · exact Nat.mod_lt _ hF
    · exact hF

end HqModel.Alloc
