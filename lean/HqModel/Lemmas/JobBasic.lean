import HqModel.Job.Run
/-!
Helper lemmas for the job-layer invariant `JobWF`: association lists with unique keys, per-state counts.
-/
namespace HqModel.Job

/-- number of tasks in state `x` -/
def countS (ts : List (Nat × TState)) (x : TState) : Nat := ts.countP (fun p => p.2 = x)

def keys (ts : List (Nat × TState)) : List Nat := ts.map (·.1)

/-- well-formedness of one job: unique task ids and counters equal to the per-state task counts -/
structure JobWF (job : Job) : Prop where
  nodup : (keys job.tasks).Nodup
  running : job.cnt.running = countS job.tasks .running
  finished : job.cnt.finished = countS job.tasks .finished
  failed : job.cnt.failed = countS job.tasks .failed
  canceled : job.cnt.canceled = countS job.tasks .canceled
  aborted : job.cnt.aborted = countS job.tasks .aborted

/-- well-formedness of the state: every job is well-formed and job ids are unique and below the counter -/
structure StateWF (s : State) : Prop where
  jobs : ∀ job ∈ s.jobs, JobWF job
  ids : (s.jobs.map (·.id)).Nodup
  below : ∀ job ∈ s.jobs, job.id < s.jobCtr

theorem lookup_none_of_not_mem {ts : List (Nat × TState)} {t : Nat} (h : t ∉ keys ts) :
    lookup ts t = none := by
  induction ts with
  | nil => rfl
  | cons p ps ih =>
    obtain ⟨k, v⟩ := p
    simp only [keys, List.map_cons, List.mem_cons, not_or] at h
    have hk : ¬ k = t := fun e => h.1 e.symm
    simp only [lookup, hk, if_false]
    exact ih h.2

theorem mem_keys_of_lookup {ts : List (Nat × TState)} {t : Nat} {a : TState}
    (h : lookup ts t = some a) : t ∈ keys ts := by
  by_cases hm : t ∈ keys ts
  · exact hm
  · rw [lookup_none_of_not_mem hm] at h; cases h

theorem setState_of_not_mem {ts : List (Nat × TState)} {t : Nat} {b : TState} (h : t ∉ keys ts) :
    setState ts t b = ts := by
  induction ts with
  | nil => rfl
  | cons p ps ih =>
    obtain ⟨k, v⟩ := p
    simp only [keys, List.map_cons, List.mem_cons, not_or] at h
    have hk : ¬ k = t := fun e => h.1 e.symm
    simp only [setState, hk, if_false]
    rw [ih h.2]

theorem keys_setState (ts : List (Nat × TState)) (t : Nat) (b : TState) :
    keys (setState ts t b) = keys ts := by
  induction ts with
  | nil => rfl
  | cons p ps ih =>
    obtain ⟨k, v⟩ := p
    simp only [keys] at ih
    by_cases hk : k = t <;> simp [setState, keys, hk, ih]

theorem length_setState (ts : List (Nat × TState)) (t : Nat) (b : TState) :
    (setState ts t b).length = ts.length := by
  have := congrArg List.length (keys_setState ts t b)
  simpa [keys] using this

/-- The counting lemma: changing the state of one existing key from `a` to `b` moves exactly one unit
between the per-state counts. -/
theorem countS_setState {ts : List (Nat × TState)} {t : Nat} {a b : TState} (x : TState)
    (hnd : (keys ts).Nodup) (h : lookup ts t = some a) :
    countS (setState ts t b) x + (if a = x then 1 else 0) = countS ts x + (if b = x then 1 else 0) := by
  induction ts with
  | nil => simp [lookup] at h
  | cons p ps ih =>
    obtain ⟨k, v⟩ := p
    simp only [keys, List.map_cons, List.nodup_cons] at hnd
    by_cases hk : k = t
    · subst hk
      have hv : v = a := by simpa [lookup] using h
      subst hv
      have hrest : setState ps k b = ps := setState_of_not_mem hnd.1
      simp only [setState, if_true, hrest, countS, List.countP_cons]
      by_cases h1 : v = x <;> by_cases h2 : b = x <;> simp [h1, h2] <;> omega
    · have hl : lookup ps t = some a := by simpa [lookup, hk] using h
      have := ih hnd.2 hl
      simp only [setState, hk, if_false, countS, List.countP_cons] at this ⊢
      omega

theorem countS_append_waiting (ts : List (Nat × TState)) (t : Nat) (x : TState) :
    countS (ts ++ [(t, .waiting)]) x = countS ts x + (if x = .waiting then 1 else 0) := by
  simp only [countS, List.countP_append, List.countP_cons, List.countP_nil]
  by_cases h : TState.waiting = x
  · subst h; simp
  · have : ¬ x = TState.waiting := fun e => h e.symm
    simp [h, this]

/-- the five counters never exceed the number of tasks (so `n_waiting_tasks` does not underflow) -/
theorem countS_sum_le (ts : List (Nat × TState)) :
    countS ts .running + countS ts .finished + countS ts .failed + countS ts .canceled + countS ts .aborted
      + countS ts .waiting = ts.length := by
  induction ts with
  | nil => simp [countS]
  | cons p ps ih =>
    obtain ⟨k, v⟩ := p
    simp only [countS, List.countP_cons, List.length_cons] at ih ⊢
    cases v <;> simp <;> omega

end HqModel.Job
