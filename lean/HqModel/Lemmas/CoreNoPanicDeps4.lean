import HqModel.Lemmas.CoreNoPanicDeps3
/-!
C09 progress for the core model: preservation of `NpDeps U s`, part 4: `Sched.lean` and the step theorem.

A scheduling round only changes the `state` of records (and workers / queues / redirects): every function is `DS`,
no extra hypothesis.

* `placeSnBody_ds`, `placeSn_ds`, `placeAll_ds`, `mapSn_ds`, `setMnAll_ds`, `mapMnSets_ds`, `mapMn_ds`,
  `prefillBack_ds`, `prefillMark_ds`, `prefillWorker_ds`, `prefillWorkers_ds`, `proactive_ds`, `schedule_ds`
  and the corresponding `*_npdeps`;
* **`step_npdeps`**.

Everything asked for is done; there is no known non-inductive clause of `NpDeps`.
-/
namespace HqModel.Core.NPB

theorem placeSnBody_ds {s s' : State} {m m' : List WUpdate} {v : Nat} {r : Rq} {id : TaskId} {w : Nat}
    (h : s.placeSnBody m v r id w = .ok (s', m')) : DS s s' := by
  simp only [State.placeSnBody] at h
  repeat' (split at h)
  all_goals first | cases h | skip
  all_goals grind

theorem placeSn_ds {s s' : State} {m m' : List WUpdate} {v : Nat} {r : Rq} {id : TaskId} {w : Nat}
    (h : s.placeSn m v r id w = .ok (s', m')) : DS s s' := placeSnBody_ds (placeSn_ok h).1

theorem placeAll_ds (l : List (TaskId × Nat)) (s s' : State) (m m' : List WUpdate) (v : Nat) (r : Rq)
    (h : s.placeAll m v r l = .ok (s', m')) : DS s s' := by
  have hp := @placeSn_ds
  fun_induction State.placeAll s m v r l <;> grind

theorem mapSn_ds (es : List SnEntry) (s s' : State) (now : Nat) (m m' : List WUpdate)
    (h : s.mapSn now m es = .ok (s', m')) : DS s s' := by
  have hp := placeAll_ds
  fun_induction State.mapSn s now m es <;> grind

theorem setMnAll_ds {ws : List Nat} {s s' : State} {id : TaskId} {first : Bool}
    (h : setMnAll s id ws first = .ok s') : DS s s' := DS.of_tasks (setMnAll_tasks _ _ _ _ _ h)

theorem mapMnSets_ds (sets : List (List Nat)) (s s' : State) (rq : Nat) (acc acc' : List TaskId)
    (h : s.mapMnSets rq sets acc = .ok (s', acc')) : DS s s' := by
  have hp := setMnAll_tasks
  fun_induction State.mapMnSets s rq sets acc <;> grind

theorem mapMn_ds (es : List MnEntry) (s s' : State) (acc acc' : List TaskId)
    (h : s.mapMn es acc = .ok (s', acc')) : DS s s' := by
  have hp := mapMnSets_ds
  fun_induction State.mapMn s es acc <;> grind

theorem prefillBack_ds (rq : Nat) (l : List TaskId) (s s' : State) (keep keep' : List TaskId)
    (h : State.prefillWorker.back rq s l keep = .ok (s', keep')) : DS s s' := by
  fun_induction State.prefillWorker.back rq s l keep <;> grind

theorem prefillMark_ds (w : Nat) (l : List TaskId) (s s' : State)
    (h : State.prefillWorker.mark w s l = .ok s') : DS s s' := by
  fun_induction State.prefillWorker.mark w s l <;> grind

theorem prefillWorker_ds {s s' : State} {m m' : List WUpdate} {rq size w : Nat}
    (h : s.prefillWorker m rq size w = .ok (s', m')) : DS s s' := by
  simp only [State.prefillWorker] at h
  have h1 := prefillBack_ds
  have h2 := prefillMark_ds
  repeat' (split at h)
  all_goals first | cases h | skip
  all_goals grind

theorem prefillWorkers_ds (ws : List Nat) (s s' : State) (m m' : List WUpdate) (rq size : Nat)
    (h : s.prefillWorkers m rq size ws = .ok (s', m')) : DS s s' := by
  have hp := @prefillWorker_ds
  fun_induction State.prefillWorkers s m rq size ws <;> grind

theorem proactive_ds (n : Nat) (s s' : State) (m m' : List WUpdate) (orders : List (Nat × List Nat)) (top : Int)
    (rq : Nat) (h : s.proactive m orders top n rq = .ok (s', m')) : DS s s' := by
  have hp := prefillWorkers_ds
  fun_induction State.proactive s m orders top n rq <;> grind

theorem schedule_ds {s s' : State} {sol : Solution} {o : Out} (h : s.schedule sol = .ok (s', o)) : DS s s' := by
  simp only [State.schedule] at h
  have h1 := mapSn_ds
  have h2 := mapMn_ds
  have h3 := proactive_ds
  repeat' (split at h)
  all_goals first | cases h | skip
  all_goals grind

section
variable {U : List TaskId} {s s' : State}

theorem placeSn_npdeps {m m' : List WUpdate} {v : Nat} {r : Rq} {id : TaskId} {w : Nat} (h : NpDeps U s)
    (heq : s.placeSn m v r id w = .ok (s', m')) : NpDeps U s' := h.of_ds (placeSn_ds heq)

theorem placeAll_npdeps {l : List (TaskId × Nat)} {m m' : List WUpdate} {v : Nat} {r : Rq} (h : NpDeps U s)
    (heq : s.placeAll m v r l = .ok (s', m')) : NpDeps U s' := h.of_ds (placeAll_ds _ _ _ _ _ _ _ heq)

theorem mapSn_npdeps {es : List SnEntry} {now : Nat} {m m' : List WUpdate} (h : NpDeps U s)
    (heq : s.mapSn now m es = .ok (s', m')) : NpDeps U s' := h.of_ds (mapSn_ds _ _ _ _ _ _ heq)

theorem setMnAll_npdeps {ws : List Nat} {id : TaskId} {first : Bool} (h : NpDeps U s)
    (heq : setMnAll s id ws first = .ok s') : NpDeps U s' := h.of_ds (setMnAll_ds heq)

theorem mapMnSets_npdeps {sets : List (List Nat)} {rq : Nat} {acc acc' : List TaskId} (h : NpDeps U s)
    (heq : s.mapMnSets rq sets acc = .ok (s', acc')) : NpDeps U s' := h.of_ds (mapMnSets_ds _ _ _ _ _ _ heq)

theorem mapMn_npdeps {es : List MnEntry} {acc acc' : List TaskId} (h : NpDeps U s)
    (heq : s.mapMn es acc = .ok (s', acc')) : NpDeps U s' := h.of_ds (mapMn_ds _ _ _ _ _ heq)

theorem prefillBack_npdeps {rq : Nat} {l keep keep' : List TaskId} (h : NpDeps U s)
    (heq : State.prefillWorker.back rq s l keep = .ok (s', keep')) : NpDeps U s' :=
  h.of_ds (prefillBack_ds _ _ _ _ _ _ heq)

theorem prefillMark_npdeps {w : Nat} {l : List TaskId} (h : NpDeps U s)
    (heq : State.prefillWorker.mark w s l = .ok s') : NpDeps U s' := h.of_ds (prefillMark_ds _ _ _ _ heq)

theorem prefillWorker_npdeps {m m' : List WUpdate} {rq size w : Nat} (h : NpDeps U s)
    (heq : s.prefillWorker m rq size w = .ok (s', m')) : NpDeps U s' := h.of_ds (prefillWorker_ds heq)

theorem prefillWorkers_npdeps {ws : List Nat} {m m' : List WUpdate} {rq size : Nat} (h : NpDeps U s)
    (heq : s.prefillWorkers m rq size ws = .ok (s', m')) : NpDeps U s' :=
  h.of_ds (prefillWorkers_ds _ _ _ _ _ _ _ heq)

theorem proactive_npdeps {n : Nat} {m m' : List WUpdate} {orders : List (Nat × List Nat)} {top : Int} {rq : Nat}
    (h : NpDeps U s) (heq : s.proactive m orders top n rq = .ok (s', m')) : NpDeps U s' :=
  h.of_ds (proactive_ds _ _ _ _ _ _ _ _ heq)

theorem schedule_npdeps {sol : Solution} {o : Out} (h : NpDeps U s) (heq : s.schedule sol = .ok (s', o)) :
    NpDeps U s' := h.of_ds (schedule_ds heq)

end

theorem npdeps_init : NpDeps [] {} := by
  refine ⟨?_, ?_, ?_, ?_, ?_⟩ <;> intro t ht <;> cases ht

/-- **`NpDeps` is preserved by every operation** -/
theorem step_npdeps {U : List TaskId} {s s' : State} {op : Op} {out : Out} (hi : InvF s) (hq : QInv U none [] s)
    (hn : NpDeps U s) (hnp : OpNP s op) (hfresh : ∀ x ∈ op.newIds, x ∉ U) (hnd : op.newIds.Nodup)
    (h : step s op = .ok (s', out)) : NpDeps (U ++ op.newIds) s' := by
  cases op with
  | newWorker w =>
    simpa [Op.newIds] using newWorker_npdeps hn (by simpa [step] using h)
  | removeWorker w reason f order rets =>
    simpa [Op.newIds] using removeWorker_npdeps hn hi.inv hq (by simpa [step] using h)
  | newRq rqv =>
    simp only [step] at h; cases h
    simpa [Op.newIds] using newRq_npdeps rqv hn
  | newTasks nts =>
    simp only [Op.newIds] at hfresh hnd ⊢
    exact newTasks_npdeps hn hq (fun nt hnt => hfresh nt.id (List.mem_map_of_mem hnt)) hnd hnp
      (by simpa [step] using h)
  | cancel ids =>
    simpa [Op.newIds] using cancelTasks_npdeps hn hq (by simpa [step] using h)
  | update w us rets =>
    simpa [Op.newIds] using taskUpdate_npdeps hn hq (by simpa [step] using h)
  | retracted w ids =>
    simpa [Op.newIds] using retractResponse_npdeps hn (by simpa [step] using h)
  | schedule sol =>
    simpa [Op.newIds] using schedule_npdeps hn (by simpa [step] using h)

end HqModel.Core.NPB
