import HqModel.Lemmas.CoreNoPanicReactor1
/-!
C09 progress, part 4: `task_running` does not panic (given the worker protocol `UpdNP` and the F27 exclusion `NoF27`).
-/
namespace HqModel.Core

namespace NP

theorem inj_of_nodup_map {α β : Type} {f : α → β} : ∀ {l : List α}, (l.map f).Nodup →
    ∀ {a b : α}, a ∈ l → b ∈ l → f a = f b → a = b
  | [], _, _, _, ha, _, _ => by cases ha
  | x :: xs, hn, a, b, ha, hb, e => by
    simp only [List.map_cons, List.nodup_cons] at hn
    rcases List.mem_cons.mp ha with ea | ea <;> rcases List.mem_cons.mp hb with eb | eb
    · rw [ea, eb]
    · subst ea; exact absurd (e ▸ List.mem_map_of_mem eb) hn.1
    · subst eb; exact absurd (e ▸ List.mem_map_of_mem ea) hn.1
    · exact inj_of_nodup_map hn.2 ea eb e

theorem rq_congr {s s' : State} (h : s'.rqs = s.rqs) (rq v : Nat) : s'.rq rq v = s.rq rq v := by
  simp only [State.rq, h]

/-- reading `UpdNP` for a Running / RunningPrefilled message -/
theorem UpdNP.running_elim {s : State} {w : Nat} {t : TaskId} {rv : Nat} {task : Task}
    (h : UpdNP s w (.running t rv) ∨ UpdNP s w (.runningPrefilled t rv)) (ht : s.task? t = some task) :
    (s.worker? w).isSome = true ∧
    match task.state with
    | .assigned w' rv' => w' = w ∧ rv' = rv
    | .prefilled w' => w' = w ∧ RunIdx s w task.rq rv
    | .retracting w' => w' = w ∧ RunIdx s w task.rq rv
    | .runningMN ws => ws.head? = some w
    | _ => False := by
  rcases h with h | h <;> (unfold UpdNP at h; simp only [ht] at h; exact h)

theorem taskRunning_ok {s : State} {w : Nat} {id : TaskId} {rv : Nat} (hi : Inv s) (htw : TWI noD s)
    (hw : NpW s) (hidx : NpIdx s)
    (hp : UpdNP s w (.running id rv) ∨ UpdNP s w (.runningPrefilled id rv))
    (hx : NoF27 s w (.running id rv)) :
    ∃ r, s.taskRunning w id rv = .ok r := by
  unfold State.taskRunning
  cases ht : s.task? id with
  | none => exact ⟨_, rfl⟩
  | some task =>
    simp only
    have hid : task.id = id := findTask_some_id ht
    have hmem : task ∈ s.tasks := findTask_some_mem ht
    obtain ⟨hwx, hst⟩ := UpdNP.running_elim hp ht
    have hrql : task.rq < s.queues.length := by rw [hidx.ql]; exact hidx.rq task hmem
    cases hs : task.state with
    | assigned w' rv' =>
      rw [hs] at hst
      obtain ⟨e1, e2⟩ := hst
      subst e1 e2
      simp only [ne_eq, not_true_eq_false, if_false]
      exact ⟨_, rfl⟩
    | prefilled w' =>
      rw [hs] at hst
      obtain ⟨e1, hri⟩ := hst
      subst e1
      obtain ⟨r, wk, hr, hfw, hb⟩ := hri.elim
      simp only [ne_eq, not_true_eq_false, if_false, hr]
      -- the worker lists the task as prefilled and not as assigned
      have hpre := htw.tw.t2 id w' (fun e => e) (by rw [stOf_of_find ht, hs])
      obtain ⟨wk', A, F, P, hfw', ha, hm⟩ := mem_preW_elim hpre
      have : wk' = wk := by
        have h1 : findWorker s.workers w' = some wk := hfw
        rw [h1] at hfw'; cases hfw'; rfl
      subst this
      have hna : id ∉ A := by
        intro hA
        have hin : id ∈ asgW s.workers w' := mem_asgW_of hfw' ha hA
        obtain ⟨st, h1, h2⟩ := hi.ls.a1 w' id hin
        rw [stOf_of_find ht, hs] at h1
        cases h1
        simp at h2
      have hF : F.length = wk'.total.length := hw.free wk' (findWorker_some_mem hfw') A F P ha
      obtain ⟨F', hps, _⟩ := prefilledToStarted_ok (wk := wk') (t := id) (r := r) ha hm hna
        (fun e he => by rw [hF]; exact hb e he)
      have hww := withWorker_ok (s := s.setTask { task with state := .running w' rv })
        (f := fun x => x.prefilledToStarted id r) (show _ = some wk' from hfw) hps
      simp only [hww]
      obtain ⟨s2, hq⟩ := queueRemove_ok (s := (s.setTask { task with state := .running w' rv }).setWorker
        { wk' with assign := .sn (A ++ [id]) F' (P.erase id) }) (t := id) (p := task.prio) hrql
      simp only [hq]
      exact ⟨_, rfl⟩
    | retracting w' =>
      rw [hs] at hst
      obtain ⟨e1, hri⟩ := hst
      subst e1
      obtain ⟨r, wk, hr, hfw, hb⟩ := hri.elim
      simp only [ne_eq, not_true_eq_false, if_false]
      -- queue removal
      obtain ⟨s1, hq⟩ := queueRemove_ok (s := ask (s.setTask { task with state := .running w' rv })) (t := id)
        (p := task.prio) hrql
      simp only [hq]
      have hc1 := queueRemove_core hq
      have hw1 : s1.workers = s.workers := hc1.w
      have hr1 : s1.redirects = s.redirects := hc1.r
      have hq1 : s1.rqs = s.rqs := hc1.q
      -- the redirection is removable
      have hrem : ∃ s2, s1.tryRemoveRedirection id task.rq = .ok s2 := by
        apply tryRemoveRedirection_ok
        intro x w2 v hf
        rw [hr1] at hf
        have hx' : x = id := by simpa using List.find?_some hf
        subst hx'
        have hm : (x, w2, v) ∈ s.redirects := List.mem_of_find?_eq_some hf
        obtain ⟨r2, wk2, A2, F2, P2, h1, h2, h3, h4, h5⟩ := held_removable htw hidx hw ht (fun e => e)
          (Or.inr (Or.inr ⟨⟨w', hs⟩, by rw [hid]; exact hm⟩) : HeldT s.redirects task w2 v)
        refine ⟨r2, wk2, A2, F2, P2, ?_, ?_, h3, h4, h5⟩
        · rw [rq_congr hq1]; exact h1
        · rw [worker?_eq, hw1]; exact h2
      obtain ⟨s2, h2⟩ := hrem
      simp only [h2]
      obtain ⟨ht2, hq2, hcase⟩ := tryRemoveRedirection_spec h2
      have hr2 : s2.rq task.rq rv = .ok r := by rw [rq_congr hq2, rq_congr hq1]; exact hr
      simp only [hr2]
      -- the reporting worker has a single-node assignment (exclusion of F27)
      have hsn : ∃ A F P, wk.assign = .sn A F P := by
        unfold NoF27 at hx
        simp only [ht, hfw] at hx
        cases ha : wk.assign with
        | sn A F P => exact ⟨A, F, P, rfl⟩
        | mn x r st => rw [hs, ha] at hx; exact hx.elim
      obtain ⟨A, F, P, ha⟩ := hsn
      have hfw0 : findWorker s.workers w' = some wk := hfw
      have hF : F.length = wk.total.length := hw.free wk (findWorker_some_mem hfw0) A F P ha
      have hwid : wk.id = w' := findWorker_some_id hfw0
      -- the worker record in `s2` and why it does not list the task
      have key : ∃ wk2 A2 F2, s2.worker? w' = some wk2 ∧ wk2.assign = .sn A2 F2 P ∧ id ∉ A2 ∧
          F2.length = wk.total.length := by
        rcases hcase with ⟨hnone, hws, _⟩ | ⟨w2, v, r2, wkt, At, Ft, Pt, Ft', hsome, _, hfwt, hat, hmt, hfa, hws, _⟩
        · refine ⟨wk, A, F, ?_, ha, ?_, hF⟩
          · rw [worker?_eq, hws, hw1]; exact hfw0
          · intro hA
            have hin : id ∈ asgW s.workers w' := mem_asgW_of hfw0 ha hA
            obtain ⟨st, h1, h3⟩ := hi.ls.a1 w' id hin
            rw [stOf_of_find ht, hs] at h1
            cases h1
            obtain ⟨v, hv⟩ := h3
            rw [hr1] at hnone
            have := List.find?_eq_none.mp hnone (id, w', v) hv
            simp at this
        · rw [hr1] at hsome
          rw [hw1] at hfwt hws
          have hwtid : wkt.id = w2 := findWorker_some_id hfwt
          by_cases hw2 : w2 = w'
          · subst hw2
            rw [hfw0] at hfwt; cases hfwt
            rw [ha] at hat; cases hat
            refine ⟨{ wk with assign := .sn (A.erase id) Ft' P }, A.erase id, Ft', ?_, rfl, ?_, ?_⟩
            · rw [worker?_eq, hws, findWorker_putWorker]
              simp [hwid, hfw0]
            · have hnd : A.Nodup := by
                have := hi.ls.nda w2
                rw [asgW_of_find hfw0] at this
                simpa [wAsg, ha] using this
              exact fun hm => (List.Nodup.mem_erase_iff hnd).mp hm |>.1 rfl
            · rw [freeAdd_length hfa]; exact hF
          · refine ⟨wk, A, F, ?_, ha, ?_, hF⟩
            · rw [worker?_eq, hws, findWorker_putWorker]
              have : ¬ w' = ({ wkt with assign := .sn (At.erase id) Ft' Pt } : Worker).id := by
                show ¬ w' = wkt.id; rw [hwtid]; exact fun e => hw2 e.symm
              simp only [this, if_false]; exact hfw0
            · intro hA
              have hin : id ∈ asgW s.workers w' := mem_asgW_of hfw0 ha hA
              obtain ⟨st, h1, h3⟩ := hi.ls.a1 w' id hin
              rw [stOf_of_find ht, hs] at h1
              cases h1
              obtain ⟨v', hv'⟩ := h3
              have hm2 : (id, w2, v) ∈ s.redirects := List.mem_of_find?_eq_some hsome
              -- at most one redirect per task
              have hd2 := hi.ls.d2
              have : (id, w', v') = (id, w2, v) := by
                exact inj_of_nodup_map hd2 hv' hm2 rfl
              cases this
              exact hw2 rfl
      obtain ⟨wk2, A2, F2, hfw2, ha2, hna2, hF2⟩ := key
      obtain ⟨F', hins, _⟩ := insertSn_ok (wk := wk2) (t := id) (r := r) ha2 hna2
        (fun e he => by rw [hF2]; exact hb e he)
      have hww := withWorker_ok (s := s2) (f := fun x => x.insertSn id r) hfw2 hins
      simp only [hww]
      exact ⟨_, rfl⟩
    | runningMN ws =>
      rw [hs] at hst
      cases ws with
      | nil => simp at hst
      | cons root rest =>
        simp only [List.head?_cons, Option.some.injEq] at hst
        subst hst
        simp only [ne_eq, not_true_eq_false, if_false]
        cases hfw : s.worker? root with
        | none => rw [hfw] at hwx; cases hwx
        | some wk =>
          simp only [State.withWorker, getWorker_ok hfw]
          cases wk.assign <;> exact ⟨_, rfl⟩
    | waiting n => rw [hs] at hst; exact hst.elim
    | running a b => rw [hs] at hst; exact hst.elim
    | finished => rw [hs] at hst; exact hst.elim

end NP

end HqModel.Core
