import HqModel.Lemmas.CoreNoPanicFrame6
/-!
C09 progress, preservation of `NpW` / `NpIdx` / `NpMn`: the per-function, per-component form of the frame lemmas
(`<fn>_npw`, `<fn>_npidx`, `<fn>_npmn`; GENERATED from the `<fn>_fr` lemmas of `CoreNoPanicFrame{,2,3,4,5}.lean`, each is
`(<fn>_fr heq).npw h` etc.). Functions that contain `process_retracted` need `RdRet s` (`Inv.rdRet`, `TWI.rdRet`) of the
state they are applied to for `NpIdx`. For the functions of `Sched.lean` the three components depend on each other:
one lemma `<fn>_np3` for `Np3 s = NpW s ∧ NpIdx s ∧ NpMn s`.
-/
namespace HqModel.Core.NPA

open HqModel.Core.NP

theorem addReady_npw {s s' : State} {t : Task} {r : List TaskId} (h : NpW s)
    (heq : s.addReady t = .ok (s', r)) : NpW s' := (addReady_fr heq : Fr True s s').npw h

theorem addReady_npidx {s s' : State} {t : Task} {r : List TaskId} (h : NpIdx s)
    (heq : s.addReady t = .ok (s', r)) : NpIdx s' := (addReady_fr heq).npidx h

theorem addReady_npmn {s s' : State} {t : Task} {r : List TaskId} (h : NpMn s)
    (heq : s.addReady t = .ok (s', r)) : NpMn s' := (addReady_fr heq : Fr True s s').npmn h

theorem queueRemove_npw {s s' : State} {rq : Nat} {t : TaskId} {p : Int} (h : NpW s)
    (heq : s.queueRemove rq t p = .ok s') : NpW s' := (queueRemove_fr heq : Fr True s s').npw h

theorem queueRemove_npidx {s s' : State} {rq : Nat} {t : TaskId} {p : Int} (h : NpIdx s)
    (heq : s.queueRemove rq t p = .ok s') : NpIdx s' := (queueRemove_fr heq).npidx h

theorem queueRemove_npmn {s s' : State} {rq : Nat} {t : TaskId} {p : Int} (h : NpMn s)
    (heq : s.queueRemove rq t p = .ok s') : NpMn s' := (queueRemove_fr heq : Fr True s s').npmn h

theorem removePrefilled_npw {s s' : State} {rq : Nat} {t : TaskId} (h : NpW s)
    (heq : s.removePrefilled rq t = .ok s') : NpW s' := (removePrefilled_fr heq : Fr True s s').npw h

theorem removePrefilled_npidx {s s' : State} {rq : Nat} {t : TaskId} (h : NpIdx s)
    (heq : s.removePrefilled rq t = .ok s') : NpIdx s' := (removePrefilled_fr heq).npidx h

theorem removePrefilled_npmn {s s' : State} {rq : Nat} {t : TaskId} (h : NpMn s)
    (heq : s.removePrefilled rq t = .ok s') : NpMn s' := (removePrefilled_fr heq : Fr True s s').npmn h

theorem movePrefilledToReady_npw {s s' : State} {rq : Nat} {t : TaskId} (h : NpW s)
    (heq : s.movePrefilledToReady rq t = .ok s') : NpW s' := (movePrefilledToReady_fr heq : Fr True s s').npw h

theorem movePrefilledToReady_npidx {s s' : State} {rq : Nat} {t : TaskId} (h : NpIdx s)
    (heq : s.movePrefilledToReady rq t = .ok s') : NpIdx s' := (movePrefilledToReady_fr heq).npidx h

theorem movePrefilledToReady_npmn {s s' : State} {rq : Nat} {t : TaskId} (h : NpMn s)
    (heq : s.movePrefilledToReady rq t = .ok s') : NpMn s' := (movePrefilledToReady_fr heq : Fr True s s').npmn h

theorem withWorker_npw {s s' : State} {w : Nat} {f : Worker → M Worker} (hop : WOp f) (h : NpW s)
    (heq : s.withWorker w f = .ok s') : NpW s' := (withWorker_fr hop heq : Fr True s s').npw h

theorem withWorker_npidx {s s' : State} {w : Nat} {f : Worker → M Worker} (hop : WOp f) (h : NpIdx s)
    (heq : s.withWorker w f = .ok s') : NpIdx s' := (withWorker_fr hop heq).npidx h

theorem withWorker_npmn {s s' : State} {w : Nat} {f : Worker → M Worker} (hop : WOp f) (h : NpMn s)
    (heq : s.withWorker w f = .ok s') : NpMn s' := (withWorker_fr hop heq : Fr True s s').npmn h

theorem processRetracted_npw (l : List TaskId) (s s' : State) (acc acc' : List (Nat × TaskId)) (h : NpW s)
    (heq : s.processRetracted l acc = .ok (s', acc')) : NpW s' := (processRetracted_fr _ _ _ _ _ heq : Fr True s s').npw h

theorem processRetracted_npidx (l : List TaskId) (s s' : State) (acc acc' : List (Nat × TaskId)) (hr : RdRet s) (h : NpIdx s)
    (heq : s.processRetracted l acc = .ok (s', acc')) : NpIdx s' := (processRetracted_fr _ _ _ _ _ heq).npidx' hr h

theorem processRetracted_npmn (l : List TaskId) (s s' : State) (acc acc' : List (Nat × TaskId)) (h : NpMn s)
    (heq : s.processRetracted l acc = .ok (s', acc')) : NpMn s' := (processRetracted_fr _ _ _ _ _ heq : Fr True s s').npmn h

theorem retract_npw {s s' : State} {l : List TaskId} {o : Out} (h : NpW s)
    (heq : s.retract l = .ok (s', o)) : NpW s' := (retract_fr heq : Fr True s s').npw h

theorem retract_npidx {s s' : State} {l : List TaskId} {o : Out} (hr : RdRet s) (h : NpIdx s)
    (heq : s.retract l = .ok (s', o)) : NpIdx s' := (retract_fr heq).npidx' hr h

theorem retract_npmn {s s' : State} {l : List TaskId} {o : Out} (h : NpMn s)
    (heq : s.retract l = .ok (s', o)) : NpMn s' := (retract_fr heq : Fr True s s').npmn h

theorem tryRemoveRedirection_npw {s s' : State} {t : TaskId} {rq : Nat} (h : NpW s)
    (heq : s.tryRemoveRedirection t rq = .ok s') : NpW s' := (tryRemoveRedirection_fr heq : Fr True s s').npw h

theorem tryRemoveRedirection_npidx {s s' : State} {t : TaskId} {rq : Nat} (h : NpIdx s)
    (heq : s.tryRemoveRedirection t rq = .ok s') : NpIdx s' := (tryRemoveRedirection_fr heq).npidx h

theorem tryRemoveRedirection_npmn {s s' : State} {t : TaskId} {rq : Nat} (h : NpMn s)
    (heq : s.tryRemoveRedirection t rq = .ok s') : NpMn s' := (tryRemoveRedirection_fr heq : Fr True s s').npmn h

theorem removeTask_npw {s s' : State} {id : TaskId} {st : TS} (h : NpW s)
    (heq : s.removeTask id = .ok (s', st)) : NpW s' := (removeTask_fr heq : Fr True s s').npw h

theorem removeTask_npidx {s s' : State} {id : TaskId} {st : TS} (h : NpIdx s)
    (heq : s.removeTask id = .ok (s', st)) : NpIdx s' := (removeTask_fr heq).npidx h

theorem removeTask_npmn {s s' : State} {id : TaskId} {st : TS} (h : NpMn s)
    (heq : s.removeTask id = .ok (s', st)) : NpMn s' := (removeTask_fr heq : Fr True s s').npmn h

theorem resetMnAll_npw (ws : List Nat) (s s' : State) (h : NpW s)
    (heq : resetMnAll s ws = .ok s') : NpW s' := (resetMnAll_fr _ _ _ heq : Fr True s s').npw h

theorem resetMnAll_npidx (ws : List Nat) (s s' : State) (h : NpIdx s)
    (heq : resetMnAll s ws = .ok s') : NpIdx s' := (resetMnAll_fr _ _ _ heq).npidx h

theorem resetMnAll_npmn (ws : List Nat) (s s' : State) (h : NpMn s)
    (heq : resetMnAll s ws = .ok s') : NpMn s' := (resetMnAll_fr _ _ _ heq : Fr True s s').npmn h

theorem cancelLoop_npw (ids : List TaskId) (s s' : State) (u u' : List TaskId) (r r' : List (Nat × List TaskId)) (h : NpW s)
    (heq : s.cancelLoop ids u r = .ok (s', u', r')) : NpW s' := (cancelLoop_fr _ _ _ _ _ _ _ heq : Fr True s s').npw h

theorem cancelLoop_npidx (ids : List TaskId) (s s' : State) (u u' : List TaskId) (r r' : List (Nat × List TaskId)) (h : NpIdx s)
    (heq : s.cancelLoop ids u r = .ok (s', u', r')) : NpIdx s' := (cancelLoop_fr _ _ _ _ _ _ _ heq).npidx h

theorem cancelLoop_npmn (ids : List TaskId) (s s' : State) (u u' : List TaskId) (r r' : List (Nat × List TaskId)) (h : NpMn s)
    (heq : s.cancelLoop ids u r = .ok (s', u', r')) : NpMn s' := (cancelLoop_fr _ _ _ _ _ _ _ heq : Fr True s s').npmn h

theorem removeTasksBatched_npw (ids : List TaskId) (s s' : State) (h : NpW s)
    (heq : s.removeTasksBatched ids = .ok s') : NpW s' := (removeTasksBatched_fr _ _ _ heq : Fr True s s').npw h

theorem removeTasksBatched_npidx (ids : List TaskId) (s s' : State) (h : NpIdx s)
    (heq : s.removeTasksBatched ids = .ok s') : NpIdx s' := (removeTasksBatched_fr _ _ _ heq).npidx h

theorem removeTasksBatched_npmn (ids : List TaskId) (s s' : State) (h : NpMn s)
    (heq : s.removeTasksBatched ids = .ok s') : NpMn s' := (removeTasksBatched_fr _ _ _ heq : Fr True s s').npmn h

theorem cancelTasks_npw {s s' : State} {ids : List TaskId} {o : Out} (h : NpW s)
    (heq : s.cancelTasks ids = .ok (s', o)) : NpW s' := (cancelTasks_fr heq : Fr True s s').npw h

theorem cancelTasks_npidx {s s' : State} {ids : List TaskId} {o : Out} (h : NpIdx s)
    (heq : s.cancelTasks ids = .ok (s', o)) : NpIdx s' := (cancelTasks_fr heq).npidx h

theorem cancelTasks_npmn {s s' : State} {ids : List TaskId} {o : Out} (h : NpMn s)
    (heq : s.cancelTasks ids = .ok (s', o)) : NpMn s' := (cancelTasks_fr heq : Fr True s s').npmn h

theorem removeWaitingAll_npw (ids : List TaskId) (s s' : State) (h : NpW s)
    (heq : s.removeWaitingAll ids = .ok s') : NpW s' := (removeWaitingAll_fr _ _ _ heq : Fr True s s').npw h

theorem removeWaitingAll_npidx (ids : List TaskId) (s s' : State) (h : NpIdx s)
    (heq : s.removeWaitingAll ids = .ok s') : NpIdx s' := (removeWaitingAll_fr _ _ _ heq).npidx h

theorem removeWaitingAll_npmn (ids : List TaskId) (s s' : State) (h : NpMn s)
    (heq : s.removeWaitingAll ids = .ok s') : NpMn s' := (removeWaitingAll_fr _ _ _ heq : Fr True s s').npmn h

theorem taskFailed_npw {s s' : State} {worker : Option Nat} {id : TaskId} {ret : List TaskId} {o : Out} (h : NpW s)
    (heq : s.taskFailed worker id ret = .ok (s', o)) : NpW s' := (taskFailed_fr heq : Fr True s s').npw h

theorem taskFailed_npidx {s s' : State} {worker : Option Nat} {id : TaskId} {ret : List TaskId} {o : Out} (h : NpIdx s)
    (heq : s.taskFailed worker id ret = .ok (s', o)) : NpIdx s' := (taskFailed_fr heq).npidx h

theorem taskFailed_npmn {s s' : State} {worker : Option Nat} {id : TaskId} {ret : List TaskId} {o : Out} (h : NpMn s)
    (heq : s.taskFailed worker id ret = .ok (s', o)) : NpMn s' := (taskFailed_fr heq : Fr True s s').npmn h

theorem taskRunning_npw {s s' : State} {w : Nat} {id : TaskId} {rv : Nat} {o : Out} (hnp : UpdNP s w (.running id rv)) (h : NpW s)
    (heq : s.taskRunning w id rv = .ok (s', o)) : NpW s' := (taskRunning_fr' hnp heq : Fr True s s').npw h

theorem taskRunning_npidx {s s' : State} {w : Nat} {id : TaskId} {rv : Nat} {o : Out} (hnp : UpdNP s w (.running id rv)) (h : NpIdx s)
    (heq : s.taskRunning w id rv = .ok (s', o)) : NpIdx s' := (taskRunning_fr' hnp heq).npidx h

theorem taskRunning_npmn {s s' : State} {w : Nat} {id : TaskId} {rv : Nat} {o : Out} (hnp : UpdNP s w (.running id rv)) (h : NpMn s)
    (heq : s.taskRunning w id rv = .ok (s', o)) : NpMn s' := (taskRunning_fr' hnp heq : Fr True s s').npmn h

theorem resetMnChecked_npw (ws : List Nat) (s s' : State) (id : TaskId) (h : NpW s)
    (heq : resetMnChecked s id ws = .ok s') : NpW s' := (resetMnChecked_fr _ _ _ _ heq : Fr True s s').npw h

theorem resetMnChecked_npidx (ws : List Nat) (s s' : State) (id : TaskId) (h : NpIdx s)
    (heq : resetMnChecked s id ws = .ok s') : NpIdx s' := (resetMnChecked_fr _ _ _ _ heq).npidx h

theorem resetMnChecked_npmn (ws : List Nat) (s s' : State) (id : TaskId) (h : NpMn s)
    (heq : resetMnChecked s id ws = .ok s') : NpMn s' := (resetMnChecked_fr _ _ _ _ heq : Fr True s s').npmn h

theorem wakeConsumers_npw (cs : List TaskId) (s s' : State) (r r' : List TaskId) (h : NpW s)
    (heq : s.wakeConsumers cs r = .ok (s', r')) : NpW s' := (wakeConsumers_fr _ _ _ _ _ heq : Fr True s s').npw h

theorem wakeConsumers_npidx (cs : List TaskId) (s s' : State) (r r' : List TaskId) (h : NpIdx s)
    (heq : s.wakeConsumers cs r = .ok (s', r')) : NpIdx s' := (wakeConsumers_fr _ _ _ _ _ heq).npidx h

theorem wakeConsumers_npmn (cs : List TaskId) (s s' : State) (r r' : List TaskId) (h : NpMn s)
    (heq : s.wakeConsumers cs r = .ok (s', r')) : NpMn s' := (wakeConsumers_fr _ _ _ _ _ heq : Fr True s s').npmn h

theorem taskFinished_npw {s s' : State} {w : Nat} {id : TaskId} {o : Out} {b : Bool} (h : NpW s)
    (heq : s.taskFinished w id = .ok (s', o, b)) : NpW s' := (taskFinished_fr heq : Fr True s s').npw h

theorem taskFinished_npidx {s s' : State} {w : Nat} {id : TaskId} {o : Out} {b : Bool} (hr : RdRet s) (h : NpIdx s)
    (heq : s.taskFinished w id = .ok (s', o, b)) : NpIdx s' := (taskFinished_fr heq).npidx' hr h

theorem taskFinished_npmn {s s' : State} {w : Nat} {id : TaskId} {o : Out} {b : Bool} (h : NpMn s)
    (heq : s.taskFinished w id = .ok (s', o, b)) : NpMn s' := (taskFinished_fr heq : Fr True s s').npmn h

theorem taskReject_npw {s s' : State} {w : Nat} {id : TaskId} {rv : Option Nat} {o : Out} {b : Bool} (h : NpW s)
    (heq : s.taskReject w id rv = .ok (s', o, b)) : NpW s' := (taskReject_fr heq : Fr True s s').npw h

theorem taskReject_npidx {s s' : State} {w : Nat} {id : TaskId} {rv : Option Nat} {o : Out} {b : Bool} (hr : RdRet s) (h : NpIdx s)
    (heq : s.taskReject w id rv = .ok (s', o, b)) : NpIdx s' := (taskReject_fr heq).npidx' hr h

theorem taskReject_npmn {s s' : State} {w : Nat} {id : TaskId} {rv : Option Nat} {o : Out} {b : Bool} (h : NpMn s)
    (heq : s.taskReject w id rv = .ok (s', o, b)) : NpMn s' := (taskReject_fr heq : Fr True s s').npmn h

theorem requestEnabled_npw {s s' : State} {w rq rv : Nat} (h : NpW s)
    (heq : s.requestEnabled w rq rv = .ok s') : NpW s' := (requestEnabled_fr heq : Fr True s s').npw h

theorem requestEnabled_npidx {s s' : State} {w rq rv : Nat} (h : NpIdx s)
    (heq : s.requestEnabled w rq rv = .ok s') : NpIdx s' := (requestEnabled_fr heq).npidx h

theorem requestEnabled_npmn {s s' : State} {w rq rv : Nat} (h : NpMn s)
    (heq : s.requestEnabled w rq rv = .ok s') : NpMn s' := (requestEnabled_fr heq : Fr True s s').npmn h

theorem updateState_npw {s s' : State} {w : Nat} {u : Update} {rets rets' : List (List TaskId)} (hnp : UpdNP s w u) (h : NpW s)
    (heq : s.updateState w u rets = .ok (s', rets')) : NpW s' := (updateState_fr hnp heq : Fr True s s').npw h

theorem updateState_npidx {s s' : State} {w : Nat} {u : Update} {rets rets' : List (List TaskId)} (hnp : UpdNP s w u) (hr : RdRet s) (h : NpIdx s)
    (heq : s.updateState w u rets = .ok (s', rets')) : NpIdx s' := (updateState_fr hnp heq).npidx' hr h

theorem updateState_npmn {s s' : State} {w : Nat} {u : Update} {rets rets' : List (List TaskId)} (hnp : UpdNP s w u) (h : NpMn s)
    (heq : s.updateState w u rets = .ok (s', rets')) : NpMn s' := (updateState_fr hnp heq : Fr True s s').npmn h

theorem updateLoop_npw (us : List Update) (s s' : State) (w : Nat) (rets rets' : List (List TaskId)) (o o' : Out) (n n' : Bool) (hok : UpdatesOk UpdNP s w us rets) (h : NpW s)
    (heq : s.updateLoop w us rets o n = .ok (s', o', n', rets')) : NpW s' := (updateLoop_fr _ _ _ _ _ _ _ _ _ _ hok heq : Fr True s s').npw h

theorem updateLoop_npidx (us : List Update) (s s' : State) (w : Nat) (rets rets' : List (List TaskId)) (o o' : Out) (n n' : Bool) (hok : UpdatesOk UpdNP s w us rets) (hr : RdRet s) (h : NpIdx s)
    (heq : s.updateLoop w us rets o n = .ok (s', o', n', rets')) : NpIdx s' := (updateLoop_fr _ _ _ _ _ _ _ _ _ _ hok heq).npidx' hr h

theorem updateLoop_npmn (us : List Update) (s s' : State) (w : Nat) (rets rets' : List (List TaskId)) (o o' : Out) (n n' : Bool) (hok : UpdatesOk UpdNP s w us rets) (h : NpMn s)
    (heq : s.updateLoop w us rets o n = .ok (s', o', n', rets')) : NpMn s' := (updateLoop_fr _ _ _ _ _ _ _ _ _ _ hok heq : Fr True s s').npmn h

theorem taskUpdate_npw {s s' : State} {w : Nat} {us : List Update} {rets : List (List TaskId)} {o : Out} (hok : UpdatesOk UpdNP s w us rets) (h : NpW s)
    (heq : s.taskUpdate w us rets = .ok (s', o)) : NpW s' := (taskUpdate_fr hok heq : Fr True s s').npw h

theorem taskUpdate_npidx {s s' : State} {w : Nat} {us : List Update} {rets : List (List TaskId)} {o : Out} (hok : UpdatesOk UpdNP s w us rets) (hr : RdRet s) (h : NpIdx s)
    (heq : s.taskUpdate w us rets = .ok (s', o)) : NpIdx s' := (taskUpdate_fr hok heq).npidx' hr h

theorem taskUpdate_npmn {s s' : State} {w : Nat} {us : List Update} {rets : List (List TaskId)} {o : Out} (hok : UpdatesOk UpdNP s w us rets) (h : NpMn s)
    (heq : s.taskUpdate w us rets = .ok (s', o)) : NpMn s' := (taskUpdate_fr hok heq : Fr True s s').npmn h

theorem retractLoop_npw (ids : List TaskId) (s s' : State) (w : Nat) (acc acc' : List (Nat × TaskId × Nat)) (h : NpW s)
    (heq : s.retractLoop w ids acc = .ok (s', acc')) : NpW s' := (retractLoop_fr _ _ _ _ _ _ heq : Fr True s s').npw h

theorem retractLoop_npidx (ids : List TaskId) (s s' : State) (w : Nat) (acc acc' : List (Nat × TaskId × Nat)) (h : NpIdx s)
    (heq : s.retractLoop w ids acc = .ok (s', acc')) : NpIdx s' := (retractLoop_fr _ _ _ _ _ _ heq).npidx h

theorem retractLoop_npmn (ids : List TaskId) (s s' : State) (w : Nat) (acc acc' : List (Nat × TaskId × Nat)) (h : NpMn s)
    (heq : s.retractLoop w ids acc = .ok (s', acc')) : NpMn s' := (retractLoop_fr _ _ _ _ _ _ heq : Fr True s s').npmn h

theorem retractResponse_npw {s s' : State} {w : Nat} {ids : List TaskId} {o : Out} (h : NpW s)
    (heq : s.retractResponse w ids = .ok (s', o)) : NpW s' := (retractResponse_fr heq : Fr True s s').npw h

theorem retractResponse_npidx {s s' : State} {w : Nat} {ids : List TaskId} {o : Out} (h : NpIdx s)
    (heq : s.retractResponse w ids = .ok (s', o)) : NpIdx s' := (retractResponse_fr heq).npidx h

theorem retractResponse_npmn {s s' : State} {w : Nat} {ids : List TaskId} {o : Out} (h : NpMn s)
    (heq : s.retractResponse w ids = .ok (s', o)) : NpMn s' := (retractResponse_fr heq : Fr True s s').npmn h

theorem lostPrefilled_npw (ids : List TaskId) (s s' : State) (h : NpW s)
    (heq : s.lostPrefilled ids = .ok s') : NpW s' := (lostPrefilled_fr _ _ _ heq : Fr True s s').npw h

theorem lostPrefilled_npidx (ids : List TaskId) (s s' : State) (h : NpIdx s)
    (heq : s.lostPrefilled ids = .ok s') : NpIdx s' := (lostPrefilled_fr _ _ _ heq).npidx h

theorem lostPrefilled_npmn (ids : List TaskId) (s s' : State) (h : NpMn s)
    (heq : s.lostPrefilled ids = .ok s') : NpMn s' := (lostPrefilled_fr _ _ _ heq : Fr True s s').npmn h

theorem lostAssigned_npw (ids : List TaskId) (s s' : State) (ru ru' re re' : List TaskId) (h : NpW s)
    (heq : s.lostAssigned ids ru re = .ok (s', ru', re')) : NpW s' := (lostAssigned_fr _ _ _ _ _ _ _ heq : Fr True s s').npw h

theorem lostAssigned_npidx (ids : List TaskId) (s s' : State) (ru ru' re re' : List TaskId) (h : NpIdx s)
    (heq : s.lostAssigned ids ru re = .ok (s', ru', re')) : NpIdx s' := (lostAssigned_fr _ _ _ _ _ _ _ heq).npidx h

theorem lostAssigned_npmn (ids : List TaskId) (s s' : State) (ru ru' re re' : List TaskId) (h : NpMn s)
    (heq : s.lostAssigned ids ru re = .ok (s', ru', re')) : NpMn s' := (lostAssigned_fr _ _ _ _ _ _ _ heq : Fr True s s').npmn h

theorem lostRetracting_npw (l : List Task) (s s' : State) (w : Nat) (o o' : Out) (h : NpW s)
    (heq : s.lostRetracting w l o = .ok (s', o')) : NpW s' := (lostRetracting_fr _ _ _ _ _ _ heq : Fr True s s').npw h

theorem lostRetracting_npidx (l : List Task) (s s' : State) (w : Nat) (o o' : Out) (h : NpIdx s)
    (heq : s.lostRetracting w l o = .ok (s', o')) : NpIdx s' := (lostRetracting_fr _ _ _ _ _ _ heq).npidx h

theorem lostRetracting_npmn (l : List Task) (s s' : State) (w : Nat) (o o' : Out) (h : NpMn s)
    (heq : s.lostRetracting w l o = .ok (s', o')) : NpMn s' := (lostRetracting_fr _ _ _ _ _ _ heq : Fr True s s').npmn h

theorem crashLoop_npw (ids : List TaskId) (s s' : State) (f : Bool) (rets : List (List TaskId)) (o o' : Out) (h : NpW s)
    (heq : s.crashLoop f ids rets o = .ok (s', o')) : NpW s' := (crashLoop_fr _ _ _ _ _ _ _ heq : Fr True s s').npw h

theorem crashLoop_npidx (ids : List TaskId) (s s' : State) (f : Bool) (rets : List (List TaskId)) (o o' : Out) (h : NpIdx s)
    (heq : s.crashLoop f ids rets o = .ok (s', o')) : NpIdx s' := (crashLoop_fr _ _ _ _ _ _ _ heq).npidx h

theorem crashLoop_npmn (ids : List TaskId) (s s' : State) (f : Bool) (rets : List (List TaskId)) (o o' : Out) (h : NpMn s)
    (heq : s.crashLoop f ids rets o = .ok (s', o')) : NpMn s' := (crashLoop_fr _ _ _ _ _ _ _ heq : Fr True s s').npmn h

theorem removeWorker_npw {s s' : State} {w : Nat} {reason : String} {f : Bool} {order : List TaskId} {rets : List (List TaskId)} {o : Out} (h : NpW s)
    (heq : s.removeWorker w reason f order rets = .ok (s', o)) : NpW s' := (removeWorker_fr heq : Fr True s s').npw h

theorem removeWorker_npidx {s s' : State} {w : Nat} {reason : String} {f : Bool} {order : List TaskId} {rets : List (List TaskId)} {o : Out} (hr : RdRet s) (h : NpIdx s)
    (heq : s.removeWorker w reason f order rets = .ok (s', o)) : NpIdx s' := (removeWorker_fr heq).npidx' hr h

theorem removeWorker_npmn {s s' : State} {w : Nat} {reason : String} {f : Bool} {order : List TaskId} {rets : List (List TaskId)} {o : Out} (h : NpMn s)
    (heq : s.removeWorker w reason f order rets = .ok (s', o)) : NpMn s' := (removeWorker_fr heq : Fr True s s').npmn h

/-! ### `Sched.lean` -/

theorem placeSn_np3 {s s' : State} {m m' : List WUpdate} {v rq : Nat} {r : Rq} {id : TaskId} {w : Nat} (hn : Np3 s) (hr : s.rq rq v = .ok r) (hmn : s.isMultiNode rq = false) (hq : ∀ t ∈ s.tasks, t.id = id → t.rq = rq)
    (heq : s.placeSn m v r id w = .ok (s', m')) : Np3 s' := Fr.np3 ((placeSn_fr hn.1 hr hmn hq heq).fr) hn

theorem placeAll_np3 (l : List (TaskId × Nat)) (s s' : State) (m m' : List WUpdate) (v rq : Nat) (r : Rq) (hn : Np3 s) (hr : s.rq rq v = .ok r) (hmn : s.isMultiNode rq = false) (hq : ∀ p ∈ l, ∀ t ∈ s.tasks, t.id = p.1 → t.rq = rq)
    (heq : s.placeAll m v r l = .ok (s', m')) : Np3 s' := Fr.np3 ((placeAll_fr _ _ _ _ _ _ _ _ hn.1 hr hmn hq heq).fr) hn

theorem mapSn_np3 (es : List SnEntry) (s s' : State) (now : Nat) (m m' : List WUpdate) (hn : Np3 s) (hq : QRq s) (hok : SnOk now s m es)
    (heq : s.mapSn now m es = .ok (s', m')) : Np3 s' := Fr.np3 ((mapSn_fr _ _ _ _ _ _ hn.1 hq hok heq).fr) hn

theorem setMnAll_np3 (l : List Nat) (s s' : State) (id : TaskId) (first : Bool) (hn : Np3 s)
    (heq : setMnAll s id l first = .ok s') : Np3 s' := Fr.np3 ((setMnAll_fr _ _ _ _ _ heq).fr) hn

theorem mapMnSets_np3 (sets : List (List Nat)) (s s' : State) (rq : Nat) (acc acc' : List TaskId) (hn : Np3 s) (hok : MnSetsOk rq s acc sets)
    (heq : s.mapMnSets rq sets acc = .ok (s', acc')) : Np3 s' := Fr.np3 ((mapMnSets_fr _ _ _ _ _ _ hok heq).fr) hn

theorem mapMn_np3 (es : List MnEntry) (s s' : State) (acc acc' : List TaskId) (hn : Np3 s) (hok : MnEntriesOk s acc es)
    (heq : s.mapMn es acc = .ok (s', acc')) : Np3 s' := Fr.np3 ((mapMn_fr _ _ _ _ _ hok heq).fr) hn

theorem prefillBack_np3 (rq : Nat) (l : List TaskId) (s s' : State) (keep keep' : List TaskId) (hn : Np3 s)
    (heq : State.prefillWorker.back rq s l keep = .ok (s', keep')) : Np3 s' := Fr.np3 ((prefillBack_fr _ _ _ _ _ _ heq).1.fr) hn

theorem prefillMark_np3 (w rq : Nat) (l : List TaskId) (s s' : State) (hn : Np3 s) (hmn : s.isMultiNode rq = false) (hq : ∀ id ∈ l, ∀ t ∈ s.tasks, t.id = id → t.rq = rq)
    (heq : State.prefillWorker.mark w s l = .ok s') : Np3 s' := Fr.np3 ((prefillMark_fr _ _ _ _ _ hmn hq heq).fr) hn

theorem prefillWorker_np3 {s s' : State} {m m' : List WUpdate} {rq size w : Nat} (hn : Np3 s) (hq : QRq s) (hmn : s.isMultiNode rq = false)
    (heq : s.prefillWorker m rq size w = .ok (s', m')) : Np3 s' := Fr.np3 ((prefillWorker_fr hq hmn heq).fr) hn

theorem prefillWorkers_np3 (ws : List Nat) (s s' : State) (m m' : List WUpdate) (rq size : Nat) (hn : Np3 s) (hq : QRq s) (hmn : s.isMultiNode rq = false)
    (heq : s.prefillWorkers m rq size ws = .ok (s', m')) : Np3 s' := Fr.np3 ((prefillWorkers_fr _ _ _ _ _ _ _ hq hmn heq).fr) hn

theorem proactive_np3 (n : Nat) (s s' : State) (m m' : List WUpdate) (orders : List (Nat × List Nat)) (top : Int) (rq : Nat) (hn : Np3 s) (hnd : (taskIds s.tasks).Nodup) (hq : QRq s) (hm : MH s m)
    (heq : s.proactive m orders top n rq = .ok (s', m')) : Np3 s' := Fr.np3 ((proactive_fr _ _ _ _ _ _ _ _ hnd hq hn.2.2 hm heq).fr) hn

theorem schedule_np3 {s s' : State} {sol : Solution} {o : Out} (hn : Np3 s) (hnd : (taskIds s.tasks).Nodup) (hq : QRq s) (hok : SolOk s sol)
    (heq : s.schedule sol = .ok (s', o)) : Np3 s' := Fr.np3 (schedule_fr hnd hq hn.1 hn.2.2 hok heq) hn

end HqModel.Core.NPA
