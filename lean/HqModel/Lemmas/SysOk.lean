import HqModel.Lemmas.SysPair2
import HqModel.Lemmas.SysJobOk
/-!
The decidable side conditions of the composed theorems (`Sys.OpOk`, `Sys.RunOk`). A driver that replays a real trace
through `Sys.step` evaluates `decide (Sys.OpOk s op)` on the pre-state of every world action.

* core part: `Core.OpOk2` (fresh worker record, the Reject protocol condition on every update, the queue condition and
  the multi-node placement condition of a scheduling round) — the conditions under which the core's structural
  invariant `InvF` is inductive;
* `FinProto` on every `finished` update, evaluated in the state in which the reactor processes it (worker protocol:
  `finished` only after `running`);
* a new worker's id is not known to the job layer yet (worker ids come from a counter);
* `SubmitOk`: an array submit has one entry per id and names no id twice (what the `hq` client sends).
-/
namespace HqModel.Sys
open HqModel

/-- the side condition on one update of a worker message -/
def UpdOk (c : Core.State) (w : Nat) (u : Core.Update) : Prop :=
  Core.UpdProto c w u ∧
  match u with
  | .finished t => FinProto c t
  | _ => True

instance (c : Core.State) (w : Nat) (u : Core.Update) : Decidable (UpdOk c w u) := by
  unfold UpdOk
  cases u <;> infer_instance

theorem UpdOk.proto {c : Core.State} {w : Nat} {u : Core.Update} (h : UpdOk c w u) : Core.UpdProto c w u := h.1

/-- the side condition of one world action -/
def OpOk (s : State) : Op → Prop
  | .newWorker w => Core.FreshWorker w ∧ w.id ∉ s.job.workers
  | .update w us rets => Core.UpdatesOk UpdOk s.core w us rets
  | .schedule sol => Core.QueueOkD s.core ∧ Core.SolMnOk s.core sol
  | .submit _ _ desc _ => SubmitOk desc
  | _ => True

instance (s : State) (op : Op) : Decidable (OpOk s op) := by
  cases op <;> simp only [OpOk] <;> infer_instance

/-- the side condition holds for every action of a run, each evaluated in the state it is applied to -/
def RunOk (s : State) : List Op → Prop
  | [] => True
  | op :: ops =>
    OpOk s op ∧
    match step s op with
    | .ok (s1, _) => RunOk s1 ops
    | .error _ => True

instance RunOk.decidable : ∀ (ops : List Op) (s : State), Decidable (RunOk s ops)
  | [], _ => isTrue trivial
  | op :: ops, s => by
    simp only [RunOk]
    cases h : step s op with
    | error e => simp only; infer_instance
    | ok r =>
      obtain ⟨s1, o⟩ := r
      simp only
      have := RunOk.decidable ops s1
      infer_instance

end HqModel.Sys
