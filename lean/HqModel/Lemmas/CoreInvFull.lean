import HqModel.Lemmas.CoreInvTW5
import HqModel.Lemmas.CoreInvResStep
/-!
The full structural invariant (both directions of the worker ↔ task half of the sanity checks) and the
resource equation on top of it: with the state → list half proved, the redirect-target clause `RdIn` is no longer
a hypothesis of a scheduling round but a consequence of the invariant.
-/
namespace HqModel.Core

/-- **the full structural invariant**: `Inv` (ids unique, list → state, redirects well-formed, consumers Waiting,
RunningMultiNode ⇒ multi-node request) ∧ state → list (`TW3` with nothing in repair) ∧ `MNU` -/
structure InvF (s : State) : Prop where
  inv : Inv s
  tw : TWI noD s

theorem step_invF {s s' : State} {op : Op} {out : Out} (hi : InvF s) (hok : OpOk2 s op)
    (h : step s op = .ok (s', out)) : InvF s' := by
  refine ⟨step_inv hi.inv hok h, ?_⟩
  cases op with
  | newWorker w => exact newWorker_tw hi.tw hok h
  | removeWorker w reason f order rets => exact removeWorker_tw hi.tw hi.inv h
  | newRq rqv => simp only [step] at h; cases h; exact newRq_tw rqv hi.tw
  | newTasks nts => exact newTasks_tw hi.tw h
  | cancel ids => exact cancelTasks_tw hi.tw hi.inv h
  | update w us rets => exact taskUpdate_tw hi.tw hi.inv hok h
  | retracted w ids => exact retractResponse_tw hi.tw h
  | schedule sol => exact schedule_tw hi.tw h

theorem invF_init : InvF {} := by
  refine ⟨inv_init, ⟨⟨?_, ?_, ?_, ?_, ?_⟩, ?_⟩⟩
  · intro t w v _ h; rcases h with h | h <;> cases h
  · intro t w _ h; cases h
  · intro t l _ h; cases h
  · intro t w v _ h; cases h
  · intro t w v h; cases h
  · intro t l h; cases h

/-- **the full structural invariant holds in every state of every run** from the empty core whose operations
satisfy `OpOk2` -/
theorem run_invF {s : State} {ops : List Op} {out : Out} (hok : RunOk OpOk2 {} ops)
    (h : run {} ops = .ok (s, out)) : InvF s :=
  run_induction_ok (P := InvF) (C := OpOk2) (fun _ _ _ _ hp hc hs => step_invF hp hc hs) ops _ _ _ invF_init hok h

/-! ### the state → list half in the vocabulary of the model -/

/-- (c) a task Assigned / Running on `w`: worker `w` is in the map, has a single-node assignment and the task is
in its `assigned_tasks` -/
theorem InvF.assigned_complete {s : State} (hi : InvF s) {t : TaskId} {task : Task} {w v : Nat}
    (ht : s.task? t = some task) (hs : task.state = .assigned w v ∨ task.state = .running w v) :
    ∃ wk A F P, s.worker? w = some wk ∧ wk.assign = .sn A F P ∧ t ∈ A := by
  have hst := stOf_of_find ht
  have hm := hi.tw.tw.t1 t w v (fun e => e) (by rcases hs with e | e <;> rw [hst, e] <;> simp)
  unfold asgW at hm
  cases hf : findWorker s.workers w with
  | none => rw [hf] at hm; cases hm
  | some wk =>
    rw [hf] at hm; simp only [wAsg] at hm
    cases ha : wk.assign with
    | mn a b c => rw [ha] at hm; cases hm
    | sn A F P => rw [ha] at hm; exact ⟨wk, A, F, P, hf, ha, hm⟩

/-- (c) a task Prefilled on `w` is in `prefilled_tasks` of worker `w` -/
theorem InvF.prefilled_complete {s : State} (hi : InvF s) {t : TaskId} {task : Task} {w : Nat}
    (ht : s.task? t = some task) (hs : task.state = .prefilled w) :
    ∃ wk A F P, s.worker? w = some wk ∧ wk.assign = .sn A F P ∧ t ∈ P := by
  have hst := stOf_of_find ht
  have hm := hi.tw.tw.t2 t w (fun e => e) (by rw [hst, hs])
  unfold preW at hm
  cases hf : findWorker s.workers w with
  | none => rw [hf] at hm; cases hm
  | some wk =>
    rw [hf] at hm; simp only [wPre] at hm
    cases ha : wk.assign with
    | mn a b c => rw [ha] at hm; cases hm
    | sn A F P => rw [ha] at hm; exact ⟨wk, A, F, P, hf, ha, hm⟩

/-- (d) every worker of a RunningMultiNode task is in the map and in a multi-node assignment for that task -/
theorem InvF.mn_complete {s : State} (hi : InvF s) {t : TaskId} {task : Task} {l : List Nat}
    (ht : s.task? t = some task) (hs : task.state = .runningMN l) {x : Nat} (hx : x ∈ l) :
    ∃ wk root st, s.worker? x = some wk ∧ wk.assign = .mn t root st := by
  have hst := stOf_of_find ht
  have hm := hi.tw.tw.t3 t l (fun e => e) (by rw [hst, hs]) x hx
  unfold mnW at hm
  cases hf : findWorker s.workers x with
  | none => rw [hf] at hm; cases hm
  | some wk =>
    rw [hf] at hm; simp only [wMn] at hm
    cases ha : wk.assign with
    | sn A F P => rw [ha] at hm; cases hm
    | mn a b c => rw [ha] at hm; simp only [Option.some.injEq] at hm; subst hm; exact ⟨wk, b, c, hf, ha⟩

/-- (c) every redirect `(t, w, v)`: `t` is Retracting and in `assigned_tasks` of `w` -/
theorem InvF.redirect_complete {s : State} (hi : InvF s) : RdIn s :=
  fun t w v hm => hi.tw.tw.d1 t w v (fun e => e) hm

/-! ### the resource equation on top of the full invariant -/

/-- structure (both directions) + resource equation + well-formed requests -/
structure C05Full (s : State) : Prop where
  c05 : C05Inv s
  tw : TWI noD s

theorem C05Full.invF {s : State} (h : C05Full s) : InvF s := ⟨h.c05.ir.inv, h.tw⟩

/-- the side conditions other than non-saturation, WITHOUT the redirect-target clause (it is part of the
invariant now) -/
def StepHyp4 (s : State) : Op → Prop
  | .newWorker w => FreshWorker w
  | .newRq rqv => RqvOk rqv
  | .update w us rets => UpdatesOk UpdProto s w us rets
  | .schedule sol => QueueOkD s ∧ SolMnOk s sol
  | _ => True

instance (s : State) (op : Op) : Decidable (StepHyp4 s op) := by
  cases op <;> simp only [StepHyp4] <;> infer_instance

/-- all side conditions of one operation -/
def OpOk4 (s : State) (op : Op) : Prop := StepHyp4 s op ∧ NoSaturation s op

instance (s : State) (op : Op) : Decidable (OpOk4 s op) := by unfold OpOk4; infer_instance

theorem StepHyp4.ok2 {s : State} {op : Op} (h : StepHyp4 s op) : OpOk2 s op := by
  cases op <;> simp only [StepHyp4, OpOk2] at h ⊢ <;> exact h

theorem OpOk3.ok4 {s : State} {op : Op} (h : OpOk3 s op) : OpOk4 s op := by
  obtain ⟨h1, h2⟩ := h.split
  refine ⟨?_, h2⟩
  cases op <;> simp only [StepHyp, StepHyp4] at h1 ⊢ <;> try exact h1
  exact ⟨h1.1, h1.2.1⟩

theorem c05_step_full {s s' : State} {op : Op} {out : Out} (hi : C05Full s) (hstep : StepHyp4 s op)
    (hns : NoSaturation s op) (h : step s op = .ok (s', out)) : C05Full s' := by
  have hF := step_invF hi.invF hstep.ok2 h
  refine ⟨c05_step hi.c05 (OpOk3.of ?_ hns) h, hF.tw⟩
  cases op <;> simp only [StepHyp, StepHyp4] at hstep ⊢ <;> try exact hstep
  exact ⟨hstep.1, hstep.2, hi.invF.redirect_complete⟩

theorem c05_full_init : C05Full {} := ⟨c05_init, invF_init.tw⟩

theorem c05_run_full {s : State} {ops : List Op} {out : Out} (hok : RunOk OpOk4 {} ops)
    (h : run {} ops = .ok (s, out)) : C05Full s :=
  run_induction_ok (P := C05Full) (C := OpOk4) (fun _ _ _ _ hp hc hs => c05_step_full hp hc.1 hc.2 hs) ops _ _ _
    c05_full_init hok h

end HqModel.Core
