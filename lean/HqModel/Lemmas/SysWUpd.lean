import HqModel.Lemmas.SysWOwn
/-!
ONE update of a worker message (`State.upd1`) in terms of the views of the composed invariant:

* for every other worker, and for every task the update is not about, the view changes as by a foreign action
  (`Foreign`, with the `ComputeTasks` items of this update's messages);
* for the reporting worker and the reported task it changes as `Own e` allows (`e` = the event the update is);
* `ComputeTasks` items are only sent for tasks of the map.

Hypothesis `hq`: the view of the reported task from the reporting worker is not `quiet` — the composed invariant says
so for the head of the worker's stream.
-/
namespace HqModel.Core
open HqModel HqModel.SysW

theorem foreign_to_hot (v : V) (cm : List (Option Nat)) : Foreign v cm .hot := ⟨fun _ => rfl, .inl rfl⟩

theorem view_of_gone {c : Core.State} {w : Nat} {t : TaskId} (h : stOf c.tasks t = none) : view c w t = .hot :=
  view_none h

theorem cfor_single (w' : Nat) (t t0 : TaskId) (target inst : Nat) (orv : Option Nat) :
    cfor w' t [.compute target [(t0, inst, orv, [])]] = if target = w' ∧ t0 = t then [orv] else [] := by
  rw [cfor_compute]
  by_cases h1 : target = w' <;> by_cases h2 : t0 = t <;> simp [h1, h2]

theorem evsOfUpd_cases (t : TaskId) (u : Core.Update) :
    evsOfUpd t u = [] ∨ ∃ e, evsOfUpd t u = [e] := by
  cases u <;> simp only [evsOfUpd] <;> first | (split <;> simp) | simp

theorem upd1_views {c c1 : Core.State} {w : Nat} {u : Core.Update} {rets rets1 : List (List TaskId)} {o1 : Core.Out}
    (hn : (taskIds c.tasks).Nodup) (hm : MnOk c) (hm1 : MnOk c1)
    (hq : ∀ t e, evsOfUpd t u = [e] → view c w t ≠ .quiet)
    (h : c.upd1 w u rets = .ok (c1, o1, rets1)) :
    (∀ w' t, (w' ≠ w ∨ evsOfUpd t u = []) → Foreign (view c w' t) (cfor w' t o1.msgs) (view c1 w' t)) ∧
    (∀ t e, evsOfUpd t u = [e] → Own e (view c w t) (cfor w t o1.msgs) (view c1 w t)) ∧
    (∀ w' t, stOf c.tasks t = none → cfor w' t o1.msgs = []) := by
  cases u with
  | finished t0 =>
    simp only [State.upd1] at h
    split at h
    · cases h
    · rename_i s1 o b h1
      cases h
      have f := taskFinished_frw h1
      have nc := taskFinished_noCompute h1
      have gone := taskFinished_gone hn h1
      refine ⟨fun w' t _ => ?_, fun t e he => ?_, fun w' t _ => cfor_noCompute nc⟩
      · rw [cfor_noCompute nc]
        by_cases ht : t = t0
        · subst ht; rw [view_of_gone gone]; exact foreign_to_hot _ _
        · exact f.foreign hn hm1 w' t ht ht
      · simp only [evsOfUpd] at he
        split at he
        · rename_i ht; subst ht
          cases he
          rw [view_of_gone gone]
          exact ⟨fun _ => rfl, trivial⟩
        · cases he
  | failed t0 =>
    simp only [State.upd1] at h
    split at h
    · cases h
    · rename_i s1 o h1
      cases h
      have f := taskFailed_frq h1
      have nc := taskFailed_noCompute h1
      have gone := taskFailed_gone hn h1
      refine ⟨fun w' t _ => ?_, fun t e he => ?_, fun w' t _ => cfor_noCompute nc⟩
      · rw [cfor_noCompute nc]
        exact f.foreign hn hm1 w' t (fun e => e) (fun e => e)
      · simp only [evsOfUpd] at he
        split at he
        · rename_i ht; subst ht
          cases he
          rw [view_of_gone gone]
          exact ⟨fun _ => rfl, rfl⟩
        · cases he
  | running t0 rv =>
    simp only [State.upd1] at h
    split at h
    · cases h
    · rename_i s1 o h1
      cases h
      have f := taskRunning_frw h1
      have nm := taskRunning_msgs h1
      have own := taskRunning_own hm h1
      have hot1 : view c1 w t0 = .hot := by
        rcases own with ⟨h0, rfl⟩ | ⟨st, _, _, h2 | ⟨l, h2, h3⟩⟩
        · exact view_none h0
        · rw [view_some h2]; simp [viewSt]
        · rw [view_some h2]; simp [viewSt, h3]
      refine ⟨fun w' t hc => ?_, fun t e he => ?_, fun w' t _ => by rw [nm]; rfl⟩
      · rw [nm, cfor_nil]
        by_cases ht : t = t0
        · subst ht
          have hw' : w' ≠ w := by
            rcases hc with hc | hc
            · exact hc
            · simp [evsOfUpd] at hc
          rcases own with ⟨_, rfl⟩ | ⟨st, h0, ho, h2⟩
          · exact Foreign.same _
          · have q0 : view c w' t = .quiet := view_quiet_of_owner h0 (by rw [ho]; intro e; cases e; exact hw' rfl)
            have q1 : view c1 w' t = .quiet := by
              rcases h2 with h2 | ⟨l, h2, _⟩
              · exact view_quiet_of_owner h2 (by intro e; cases e; exact hw' rfl)
              · exact view_quiet_of_owner h2 (by intro e; cases e; exact hw' rfl)
            rw [q0, q1]; exact Foreign.same _
        · exact f.foreign hn hm1 w' t ht ht
      · simp only [evsOfUpd] at he
        split at he
        · rename_i ht; subst ht
          cases he
          rw [hot1]
          exact ⟨fun _ => rfl, rfl⟩
        · cases he
  | runningPrefilled t0 rv =>
    simp only [State.upd1] at h
    split at h
    · cases h
    · rename_i s1 o h1
      cases h
      have f := taskRunning_frw h1
      have nm := taskRunning_msgs h1
      have own := taskRunning_own hm h1
      have hot1 : view c1 w t0 = .hot := by
        rcases own with ⟨h0, rfl⟩ | ⟨st, _, _, h2 | ⟨l, h2, h3⟩⟩
        · exact view_none h0
        · rw [view_some h2]; simp [viewSt]
        · rw [view_some h2]; simp [viewSt, h3]
      refine ⟨fun w' t hc => ?_, fun t e he => ?_, fun w' t _ => by rw [nm]; rfl⟩
      · rw [nm, cfor_nil]
        by_cases ht : t = t0
        · subst ht
          have hw' : w' ≠ w := by
            rcases hc with hc | hc
            · exact hc
            · simp [evsOfUpd] at hc
          rcases own with ⟨_, rfl⟩ | ⟨st, h0, ho, h2⟩
          · exact Foreign.same _
          · have q0 : view c w' t = .quiet := view_quiet_of_owner h0 (by rw [ho]; intro e; cases e; exact hw' rfl)
            have q1 : view c1 w' t = .quiet := by
              rcases h2 with h2 | ⟨l, h2, _⟩
              · exact view_quiet_of_owner h2 (by intro e; cases e; exact hw' rfl)
              · exact view_quiet_of_owner h2 (by intro e; cases e; exact hw' rfl)
            rw [q0, q1]; exact Foreign.same _
        · exact f.foreign hn hm1 w' t ht ht
      · simp only [evsOfUpd] at he
        split at he
        · rename_i ht; subst ht
          cases he
          rw [hot1]
          exact ⟨fun _ => rfl, rfl⟩
        · cases he
  | reject t0 orv =>
    simp only [State.upd1] at h
    split at h
    · cases h
    · rename_i s1 o b h1
      cases h
      have f := taskReject_frw h1
      have hv : view c w t0 ≠ .quiet := hq t0 (.rej orv) (by simp [evsOfUpd])
      have hown : ∀ st, stOf c.tasks t0 = some st → owner st = some w := by
        intro st hs
        rw [view_some hs] at hv
        exact owner_of_viewSt_ne_quiet hv
      have own := taskReject_own hn hm hown h1
      -- the items of this update are about `t0` only
      have hother : ∀ w' t, t ≠ t0 → cfor w' t o1.msgs = [] := by
        intro w' t ht
        rcases own with ⟨_, _, e, _⟩ | ⟨st, _, ⟨_, nc, _⟩ | ⟨target, trv, inst, _, _, e⟩ | ⟨_, _, _, e⟩⟩
        · rw [e]; rfl
        · exact cfor_noCompute nc
        · rw [e, cfor_single]; simp [Ne.symm ht]
        · rw [e]; rfl
      -- the views of the reported task
      have hcase : ∀ w', (w' ≠ w → Foreign (view c w' t0) (cfor w' t0 o1.msgs) (view c1 w' t0)) ∧
          (w' = w → Own (.rej orv) (view c w t0) (cfor w t0 o1.msgs) (view c1 w t0)) := by
        intro w'
        rcases own with ⟨h0, h0', e, _⟩ | ⟨st, h0, hcase⟩
        · rw [e, cfor_nil, cfor_nil, view_none h0, view_none h0', view_none h0, view_none h0']
          exact ⟨fun _ => Foreign.same _, fun _ => ⟨fun _ => rfl, fun rv e => (by cases e), fun e => (by cases e)⟩⟩
        · have ho := hown _ h0
          have q0 : w' ≠ w → view c w' t0 = .quiet := fun hw' =>
            view_quiet_of_owner h0 (by rw [ho]; intro e; cases e; exact hw' rfl)
          rcases hcase with ⟨hv0', nc, hfree⟩ | ⟨target, trv, inst, hst, h2, e⟩ | ⟨hhot, h2, hhot', e⟩
          · have hv0 : view c w t0 ≠ .hot := by rw [view_some h0]; exact hv0'
            have hv1 : ∀ x, view c1 x t0 = .hot ∨ view c1 x t0 = .quiet := by
              intro x
              cases hs1 : stOf c1.tasks t0 with
              | none => exact .inl (view_none hs1)
              | some st' => exact .inr (view_quiet_of_owner hs1 (by rw [hfree _ hs1]; intro e; cases e))
            rw [cfor_noCompute nc, cfor_noCompute nc]
            constructor
            · intro hw'
              rw [q0 hw']
              rcases hv1 w' with e | e <;> rw [e]
              · exact foreign_to_hot _ _
              · exact Foreign.same _
            · intro _
              refine ⟨fun e => (hv0 e).elim, fun rv _ _ => ⟨hv1 w, rfl⟩, fun _ => ?_⟩
              rcases hv1 w with e | e
              · exact .inl e
              · exact .inr (.inl ⟨e, rfl⟩)
          · subst hst
            have hvpre : view c w t0 = .pre := by rw [view_some h0]; simp [viewSt]
            have hv0 : view c w t0 ≠ .hot := by rw [hvpre]; simp
            rw [e, cfor_single, cfor_single, view_some h2, view_some h2]
            constructor
            · intro hw'
              rw [q0 hw']
              by_cases htg : target = w'
              · subst htg
                simp only [viewSt, if_true, and_self]
                exact ⟨fun e => (by cases e), .inr (.inr ⟨rfl, .inl ⟨trv, rfl, rfl⟩⟩)⟩
              · simp only [viewSt, htg, if_false, false_and]
                exact Foreign.same _
            · intro _
              refine ⟨fun e => (hv0 e).elim, fun rv e => (by rw [hvpre] at e; cases e), fun _ => ?_⟩
              by_cases htg : target = w
              · subst htg
                simp only [viewSt, if_true, and_self]
                exact .inr (.inr ⟨trv, rfl, rfl⟩)
              · simp only [viewSt, htg, if_false, false_and]
                exact .inr (.inl ⟨by first | rfl | trivial, by first | rfl | trivial⟩)
          · -- multi-node, started: the message is ignored
            have hv : view c w t0 = .hot := by rw [view_some h0]; exact hhot
            have hv' : view c1 w t0 = .hot := by rw [view_some h2]; exact hhot'
            rw [e, cfor_nil, cfor_nil]
            constructor
            · intro hw'
              have q1 : view c1 w' t0 = .quiet :=
                view_quiet_of_owner h2 (by rw [ho]; intro e; cases e; exact hw' rfl)
              rw [q0 hw', q1]; exact Foreign.same _
            · intro _
              rw [hv, hv']
              exact ⟨fun _ => rfl, fun rv e => (by cases e), fun e => (by cases e)⟩
      refine ⟨fun w' t hc => ?_, fun t e he => ?_, fun w' t hnone => ?_⟩
      · by_cases ht : t = t0
        · rw [ht]
          have hw' : w' ≠ w := by
            rcases hc with hc | hc
            · exact hc
            · rw [ht] at hc; simp [evsOfUpd] at hc
          exact (hcase w').1 hw'
        · rw [hother w' t ht]
          exact f.foreign hn hm1 w' t ht ht
      · simp only [evsOfUpd] at he
        split at he
        · rename_i ht
          rw [← ht]
          cases he
          exact (hcase w).2 rfl
        · cases he
      · by_cases ht : t = t0
        · rw [ht] at hnone ⊢
          rcases own with ⟨_, _, e, _⟩ | ⟨st, h0, _⟩
          · rw [e]; rfl
          · rw [hnone] at h0; cases h0
        · exact hother w' t ht
  | enable rq rv =>
    simp only [State.upd1] at h
    split at h
    · cases h
    · rename_i s1 h1
      cases h
      have f := requestEnabled_frq h1
      refine ⟨fun w' t _ => ?_, fun t e he => by simp [evsOfUpd] at he, fun w' t _ => rfl⟩
      exact f.foreign hn hm1 w' t (fun e => e) (fun e => e)

end HqModel.Core
