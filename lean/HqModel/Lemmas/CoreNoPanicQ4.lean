import HqModel.Lemmas.CoreNoPanicQ3
/-!
C09 progress, queue correspondence, part 4: `Reactor.lean` up to `on_cancel_tasks` —
`newWorker`, `newRq`, `addNewTasks`, `newTasks`, `resetMnAll`, `resetMnChecked`, `cancelLoop`, `removeTasksBatched`,
`cancelTasks`; and the small side facts the loops carry (`RdRetr` — redirects only for Retracting tasks, needed where
`retract` is called; `PfSub` — prefill sets only shrink; `PfD` — a Prefilled task "in repair" is in no prefill set).
-/
namespace HqModel.Core.NPC

open HqModel.Core.NP

/-! ### `RdRetr` -/

theorem KRel.stOf {ts ts' : List Task} (h : KRel ts ts') (x : TaskId) : stOf ts' x = stOf ts x := by
  have := h.find x
  unfold Core.stOf
  cases h1 : findTask ts' x <;> cases h2 : findTask ts x <;> rw [h1, h2] at this <;> simp_all [key]

theorem RdRetr.mono {s s' : State} (h : RdRetr s)
    (hst : ∀ x w0, stOf s.tasks x = some (.retracting w0) → (∃ w v, (x, w, v) ∈ s'.redirects) →
      ∃ w1, stOf s'.tasks x = some (.retracting w1))
    (hr : ∀ x ∈ s'.redirects, x ∈ s.redirects) : RdRetr s' := by
  intro t w v hm
  obtain ⟨w0, hw0⟩ := h t w v (hr _ hm)
  exact hst t w0 hw0 ⟨w, v, hm⟩

theorem RdRetr.frame {s s' : State} (h : RdRetr s) (ht : s'.tasks = s.tasks)
    (hr : ∀ x ∈ s'.redirects, x ∈ s.redirects) : RdRetr s' :=
  h.mono (fun x w0 hx _ => ⟨w0, by rw [ht]; exact hx⟩) hr

theorem RdRetr.krel {s s' : State} (h : RdRetr s) (hk : KRel s.tasks s'.tasks)
    (hr : ∀ x ∈ s'.redirects, x ∈ s.redirects) : RdRetr s' :=
  h.mono (fun x w0 hx _ => ⟨w0, by rw [hk.stOf]; exact hx⟩) hr

/-- a task that is not Retracting has no redirect -/
theorem RdRetr.none_of_state {s : State} (h : RdRetr s) {id : TaskId} {t : Task} (hf : s.task? id = some t)
    (hs : ∀ w, t.state ≠ .retracting w) : ∀ x ∈ s.redirects, x.1 ≠ id := by
  rintro ⟨a, b, c⟩ hx e
  simp only at e; subst e
  obtain ⟨w0, hw0⟩ := h a b c hx
  have : stOf s.tasks a = some t.state := stOf_of_find hf
  rw [this] at hw0
  simp only [Option.some.injEq] at hw0
  exact hs w0 hw0

/-- a record is replaced: it stays / becomes Retracting, or it has no redirect -/
theorem RdRetr.setTask {s : State} (h : RdRetr s) {t' told : Task} (hf : s.task? t'.id = some told)
    (hok : (∃ w, t'.state = .retracting w) ∨ ∀ x ∈ s.redirects, x.1 ≠ t'.id) : RdRetr (s.setTask t') := by
  refine h.mono ?_ (fun _ hx => hx)
  intro x w0 hx ⟨w, v, hm⟩
  show ∃ w1, stOf (putTask s.tasks t') x = _
  rw [stOf_put (told := told) hf]
  split
  · rename_i e
    subst e
    rcases hok with ⟨w1, hw1⟩ | hno
    · exact ⟨w1, by rw [hw1]⟩
    · exact absurd rfl (hno _ hm)
  · exact ⟨w0, hx⟩

theorem withWorker_rdRetr {s s' : State} {w : Nat} {f : Worker → M Worker} (h : RdRetr s)
    (heq : s.withWorker w f = .ok s') : RdRetr s' :=
  h.frame (withWorker_tasks heq) (by rw [withWorker_redirects heq]; exact fun _ hx => hx)

theorem addReady_rdRetr {s s' : State} {t : Task} {r : List TaskId} (h : RdRetr s)
    (heq : s.addReady t = .ok (s', r)) : RdRetr s' := by
  obtain ⟨ht, hr, _⟩ := addReady_spec heq
  exact h.frame ht (by rw [hr]; exact fun _ hx => hx)

theorem tryRemoveRedirection_redirects {s s' : State} {t : TaskId} {rq : Nat}
    (heq : s.tryRemoveRedirection t rq = .ok s') : s'.redirects = s.redirects.filter (·.1 ≠ t) := by
  simp only [State.tryRemoveRedirection] at heq
  split at heq
  · rename_i hnone
    cases heq
    symm
    rw [List.filter_eq_self]
    intro x hx
    have := List.find?_eq_none.mp hnone x hx
    simpa using this
  · split at heq
    · cases heq
    · rw [withWorker_redirects heq]

theorem tryRemoveRedirection_rdRetr {s s' : State} {t : TaskId} {rq : Nat} (h : RdRetr s)
    (heq : s.tryRemoveRedirection t rq = .ok s') : RdRetr s' :=
  h.frame (tryRemoveRedirection_tasks heq)
    (by rw [tryRemoveRedirection_redirects heq]; exact fun _ hx => (List.mem_filter.mp hx).1)

/-! ### `PfSub`, `PfD` -/

/-- every prefill set of `s'` is a subset of the prefill set of the same queue of `s` -/
def PfSub (s s' : State) : Prop :=
  ∀ (j : Nat) (q' : Queue), s'.queues[j]? = some q' → ∃ q, s.queues[j]? = some q ∧ ∀ x ∈ pfIds q', x ∈ pfIds q

theorem PfSub.refl (s : State) : PfSub s s := fun _ q' hq' => ⟨q', hq', fun _ hx => hx⟩

theorem PfSub.of_eq {s s' : State} (h : s'.queues = s.queues) : PfSub s s' := by
  intro j q' hq'; rw [h] at hq'; exact ⟨q', hq', fun _ hx => hx⟩

theorem PfSub.trans {a b c : State} (h1 : PfSub a b) (h2 : PfSub b c) : PfSub a c := by
  intro j q' hq'
  obtain ⟨q1, hq1, s1⟩ := h2 j q' hq'
  obtain ⟨q0, hq0, s0⟩ := h1 j q1 hq1
  exact ⟨q0, hq0, fun x hx => s0 x (s1 x hx)⟩

theorem PfSub.not_mem {s s' : State} (h : PfSub s s') {x : TaskId}
    (hx : ∀ (i : Nat) (q : Queue), s.queues[i]? = some q → x ∉ pfIds q) :
    ∀ (i : Nat) (q : Queue), s'.queues[i]? = some q → x ∉ pfIds q := by
  intro i q' hq' hm
  obtain ⟨q, hq, hs⟩ := h i q' hq'
  exact hx i q hq (hs x hm)

theorem queueRemove_pfsub {s s' : State} {rq : Nat} {id : TaskId} {p : Int} (heq : s.queueRemove rq id p = .ok s') :
    PfSub s s' := by
  obtain ⟨_, _, _, _, _, hget⟩ := queueRemove_spec heq
  intro j q' hq'
  rw [hget] at hq'
  split at hq'
  · rename_i e
    subst e
    cases hq : s.queues[j]? with
    | none => rw [hq] at hq'; cases hq'
    | some q =>
      rw [hq] at hq'
      simp only [Option.map_some, Option.some.injEq] at hq'
      subst hq'
      exact ⟨q, rfl, fun x hx => mem_pfIds_remove_sub hx⟩
  · exact ⟨q', hq', fun _ hx => hx⟩

theorem removePrefilled_pfsub {s s' : State} {rq : Nat} {id : TaskId} (heq : s.removePrefilled rq id = .ok s') :
    PfSub s s' := by
  obtain ⟨_, _, _, _, q, pp, ts, hq, hp, _, hget⟩ := removePrefilled_spec heq
  intro j q' hq'
  rw [hget] at hq'
  split at hq'
  · rename_i e
    subst e
    simp only [Option.some.injEq] at hq'
    subst hq'
    refine ⟨q, hq, ?_⟩
    intro x hx
    simp only [pfIds, hp] at hx ⊢
    split at hx
    · rename_i pp' ts' e
      split at e
      · cases e
      · cases e; exact List.mem_of_mem_erase hx
    · cases hx
  · exact ⟨q', hq', fun _ hx => hx⟩

theorem removeTask_pfsub {s s' : State} {id : TaskId} {st : TS} (heq : s.removeTask id = .ok (s', st)) :
    PfSub s s' := by
  simp only [State.removeTask] at heq
  split at heq
  · cases heq
  · split at heq
    · split at heq
      · cases heq
      · rename_i s1 hq1
        have h1 : PfSub s s1 := queueRemove_pfsub (s := { s with tasks := eraseTask s.tasks id }) hq1
        split at heq
        · split at heq
          · cases heq
          · cases heq; exact h1
        · cases heq; exact h1
    · split at heq
      · cases heq
      · rename_i s1 hq1
        have h1 : PfSub s s1 := queueRemove_pfsub (s := { s with tasks := eraseTask s.tasks id }) hq1
        cases heq; exact h1
    · cases heq; exact PfSub.refl _

theorem isPrefilled_iff_stOf {s : State} {x : TaskId} : IsPrefilled s x ↔ ∃ w, stOf s.tasks x = some (.prefilled w) := by
  rw [isPrefilled_iff]
  constructor
  · rintro ⟨t, w, a, b⟩
    exact ⟨w, by rw [stOf_of_find a, b]⟩
  · rintro ⟨w, hw⟩
    obtain ⟨t, a, b⟩ := stOf_some hw
    exact ⟨t, w, a, b⟩

/-- a Prefilled task of `u` is not in `R` and in no prefill set -/
def PfD (R : List TaskId) (s : State) (u : List TaskId) : Prop :=
  ∀ x ∈ u, IsPrefilled s x → x ∉ R ∧ ∀ (i : Nat) (q : Queue), s.queues[i]? = some q → x ∉ pfIds q

theorem PfD.sub {R} {s s' : State} {u : List TaskId} (h : PfD R s u) (hp : ∀ x, IsPrefilled s' x → IsPrefilled s x)
    (hs : PfSub s s') : PfD R s' u := by
  intro x hx hpre
  obtain ⟨a, b⟩ := h x hx (hp x hpre)
  exact ⟨a, hs.not_mem b⟩

/-! ### `on_new_worker`, new request -/

theorem newWorker_npq {D R} {s s' : State} {w : Worker} {o : Out} (h : NpQ D R s)
    (heq : s.newWorker w = .ok (s', o)) : NpQ D R s' := by
  simp only [State.newWorker] at heq
  cases heq
  exact h.frame rfl rfl (fun _ hx => hx)

theorem newRq_npq {D R} {s : State} (rqv : Rqv) (h : NpQ D R s) : NpQ D R (s.newRq rqv) := by
  have hget : ∀ (j : Nat) (q' : Queue), (s.newRq rqv).queues[j]? = some q' →
      s.queues[j]? = some q' ∨ q' = {} := by
    intro j q' hq'
    simp only [State.newRq] at hq'
    rw [List.getElem?_append] at hq'
    split at hq'
    · exact Or.inl hq'
    · right
      cases hx : j - s.queues.length with
      | zero => rw [hx] at hq'; simp at hq'; exact hq'.symm
      | succ n => rw [hx] at hq'; simp at hq'
  have htk : ∀ x, (s.newRq rqv).task? x = s.task? x := fun _ => rfl
  refine npq_iff.mpr ⟨?_, ?_, h.rnd, ?_⟩
  · intro j q' hq'
    rcases hget j q' hq' with hq | rfl
    · have hok := h.qok hq
      refine ⟨hok.wf, ?_, hok.pnd, ?_⟩
      · intro x hx
        obtain ⟨t, a, b⟩ := readyGood_iff.mp (hok.rg x hx)
        exact readyGood_iff.mpr ⟨t, a, b⟩
      · intro pp ts hp id hid
        obtain ⟨t, w, a, b⟩ := pfGood_iff.mp (hok.pg pp ts hp id hid)
        exact pfGood_iff.mpr ⟨t, w, a, b⟩
    · refine ⟨readyWf_nil, ?_, ?_, ?_⟩
      · intro x hx; cases hx
      · simp [pfIds]
      · intro pp ts hp; cases hp
  · intro t htm hpre hR hD
    have := h.pin t htm hpre hR hD
    rw [inPrefill_iff] at this ⊢
    obtain ⟨q, hq, hm⟩ := this
    refine ⟨q, ?_, hm⟩
    simp only [State.newRq]
    rw [List.getElem?_append_left]
    · exact hq
    · rcases Nat.lt_or_ge t.rq s.queues.length with hl | hl
      · exact hl
      · rw [List.getElem?_eq_none hl] at hq; cases hq
  · intro id hid
    obtain ⟨t, w, a, b⟩ := isPrefilled_iff.mp (h.rpre id hid)
    exact isPrefilled_iff.mpr ⟨t, w, a, b⟩

/-! ### `on_new_tasks` -/

theorem stOf_append_of_some {ts : List Task} {task : Task} {x : TaskId} {st : TS} (h : stOf ts x = some st) :
    stOf (ts ++ [task]) x = some st := by
  obtain ⟨t, a, b⟩ := stOf_some h
  unfold Core.stOf
  rw [findTask_append, a]
  simp [b]

/-- the two ways `addNewTasks` continues -/
theorem addNewTasks_step {D R} {s : State} {task : Task} (h : NpQ D R s) (hnone : findTask s.tasks task.id = none) :
    (∀ n, task.state = .waiting n → NpQ D R { s with tasks := s.tasks ++ [task] }) ∧
    (task.state = .waiting 0 → ∀ s2 r, s.addReady task = .ok (s2, r) →
      NpQ D (R ++ r) { s2 with tasks := s2.tasks ++ [task] }) := by
  constructor
  · intro n hs
    exact append_npq h (by rw [hs]; intro w e; cases e)
  · intro hs s2 r ha
    have hA := append_npq (task := task) h (by rw [hs]; intro w e; cases e)
    have hf : ({ s with tasks := s.tasks ++ [task] } : State).task? task.id = some task := by
      show findTask (s.tasks ++ [task]) task.id = some task
      rw [findTask_append, hnone]; simp
    have ha' : ({ s with tasks := s.tasks ++ [task] } : State).addReady task =
        .ok ({ s2 with tasks := s2.tasks ++ [task] }, r) := by
      simp only [State.addReady] at ha ⊢
      split at ha
      · cases ha
      · rename_i hlt
        rw [if_neg hlt]
        cases ha
        rfl
    exact addReady_npq hA hf rfl rfl (Or.inl hs) ha'

theorem addNewTasks_npq {D} (nts : List NewTask) (s s' : State) (R R' : List TaskId) (h : NpQ D R s)
    (heq : s.addNewTasks nts R = .ok (s', R')) : NpQ D R' s' := by
  induction nts generalizing s R with
  | nil => simp only [State.addNewTasks] at heq; cases heq; exact h
  | cons nt rest ih =>
    simp only [State.addNewTasks] at heq
    have hreg := registerDeps_krel nt.deps s.tasks nt.id
    generalize registerDeps s.tasks nt.id nt.deps = reg at heq hreg
    obtain ⟨ts, kept, n⟩ := reg
    simp only at heq hreg
    split at heq
    · cases heq
    · rename_i hf
      have hnone : findTask ts nt.id = none := by
        cases hx : findTask ts nt.id with
        | none => rfl
        | some x => simp [hx] at hf
      have h1 : NpQ D R { s with tasks := ts } := h.krel hreg rfl (fun _ hx => hx)
      split at heq
      · rename_i hn
        subst hn
        split at heq
        · cases heq
        · rename_i s2 r2 ha
          exact ih _ _ ((addNewTasks_step h1 hnone).2 rfl s2 r2 ha) heq
      · exact ih _ _ ((addNewTasks_step h1 hnone).1 n rfl) heq

theorem addNewTasks_rdRetr (nts : List NewTask) (s s' : State) (R R' : List TaskId) (h : RdRetr s)
    (heq : s.addNewTasks nts R = .ok (s', R')) : RdRetr s' := by
  induction nts generalizing s R with
  | nil => simp only [State.addNewTasks] at heq; cases heq; exact h
  | cons nt rest ih =>
    simp only [State.addNewTasks] at heq
    have hreg := registerDeps_krel nt.deps s.tasks nt.id
    generalize registerDeps s.tasks nt.id nt.deps = reg at heq hreg
    obtain ⟨ts, kept, n⟩ := reg
    simp only at heq hreg
    have h1 : RdRetr { s with tasks := ts } := h.krel hreg (fun _ hx => hx)
    have happ : ∀ (s1 : State) (task : Task), RdRetr s1 → RdRetr { s1 with tasks := s1.tasks ++ [task] } := by
      intro s1 task hs1
      exact hs1.mono (fun x w0 hx _ => ⟨w0, stOf_append_of_some hx⟩) (fun _ hx => hx)
    split at heq
    · cases heq
    · split at heq
      · split at heq
        · cases heq
        · rename_i s2 r2 ha
          exact ih _ _ (happ _ _ (addReady_rdRetr h1 ha)) heq
      · exact ih _ _ (happ _ _ h1) heq

/-- **`on_new_tasks`** -/
theorem newTasks_npq {D} {s s' : State} {nts : List NewTask} {o : Out} (h : NpQ D [] s) (hd : RdRetr s)
    (heq : s.newTasks nts = .ok (s', o)) : NpQ D [] s' := by
  simp only [State.newTasks] at heq
  split at heq
  · cases heq
  · split at heq
    · cases heq
    · rename_i s1 retracted h1
      split at heq
      · cases heq
      · rename_i s2 out h2
        cases heq
        exact ask_npq (retract_npq (addNewTasks_npq _ _ _ _ _ h h1) (addNewTasks_rdRetr _ _ _ _ _ hd h1) h2)

/-! ### multi-node resets -/

theorem resetMnAll_redirects (ws : List Nat) (s s' : State) (h : resetMnAll s ws = .ok s') :
    s'.redirects = s.redirects := by
  fun_induction resetMnAll s ws <;> grind [State.setWorker]

theorem resetMnChecked_redirects (ws : List Nat) (s s' : State) (id : TaskId)
    (h : resetMnChecked s id ws = .ok s') : s'.redirects = s.redirects := by
  fun_induction resetMnChecked s id ws <;> grind [State.setWorker]

theorem resetMnAll_npq {D R} {ws : List Nat} {s s' : State} (h : NpQ D R s) (heq : resetMnAll s ws = .ok s') :
    NpQ D R s' :=
  h.frame (resetMnAll_tasks _ _ _ heq) (resetMnAll_queues _ _ _ heq)
    (by rw [resetMnAll_redirects _ _ _ heq]; exact fun _ hx => hx)

theorem resetMnChecked_npq {D R} {ws : List Nat} {s s' : State} {id : TaskId} (h : NpQ D R s)
    (heq : resetMnChecked s id ws = .ok s') : NpQ D R s' :=
  h.frame (resetMnChecked_tasks _ _ _ _ heq) (resetMnChecked_queues _ _ _ _ heq)
    (by rw [resetMnChecked_redirects _ _ _ _ heq]; exact fun _ hx => hx)

theorem resetMnAll_rdRetr {ws : List Nat} {s s' : State} (h : RdRetr s) (heq : resetMnAll s ws = .ok s') :
    RdRetr s' :=
  h.frame (resetMnAll_tasks _ _ _ heq) (by rw [resetMnAll_redirects _ _ _ heq]; exact fun _ hx => hx)

theorem resetMnChecked_rdRetr {ws : List Nat} {s s' : State} {id : TaskId} (h : RdRetr s)
    (heq : resetMnChecked s id ws = .ok s') : RdRetr s' :=
  h.frame (resetMnChecked_tasks _ _ _ _ heq) (by rw [resetMnChecked_redirects _ _ _ _ heq]; exact fun _ hx => hx)

end HqModel.Core.NPC
