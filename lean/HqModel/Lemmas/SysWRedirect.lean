import HqModel.Lemmas.SysWUpd
import HqModel.Lemmas.SysWWorker2
/-!
The two places (besides `task_reject`) where the reactor hands a Retracting task to its redirect target:
`on_retract_response` (`retractLoop` + `groupCompute`) and `on_remove_worker` (`lostRetracting`), as forward
specifications on `stOf` with the `ComputeTasks` items they send.
-/
namespace HqModel.Core
open HqModel HqModel.SysW

/-! ### `on_retract_response` -/

def itemsFor (t : TaskId) (l : List (Nat × TaskId × Nat)) : List (Nat × TaskId × Nat) := l.filter fun it => it.2.1 = t

theorem itemsFor_append (t : TaskId) (a b : List (Nat × TaskId × Nat)) :
    itemsFor t (a ++ b) = itemsFor t a ++ itemsFor t b := by simp [itemsFor]

theorem retractLoop_spec (w : Nat) : ∀ (ids : List TaskId) (s s' : State) (acc acc' : List (Nat × TaskId × Nat)),
    s.retractLoop w ids acc = .ok (s', acc') →
    ∃ new, acc' = acc ++ new ∧ s'.workers = s.workers ∧ ∀ t,
      (stOf s'.tasks t = stOf s.tasks t ∧ itemsFor t new = []) ∨
      (t ∈ ids ∧ stOf s.tasks t = some (.retracting w) ∧ stOf s'.tasks t = some (.waiting 0) ∧ itemsFor t new = []) ∨
      (∃ target rv, t ∈ ids ∧ stOf s.tasks t = some (.retracting w) ∧ stOf s'.tasks t = some (.assigned target rv) ∧
        itemsFor t new = [(target, t, rv)]) := by
  intro ids
  induction ids with
  | nil =>
    intro s s' acc acc' h
    simp only [State.retractLoop] at h; cases h
    exact ⟨[], by simp, rfl, fun t => .inl ⟨rfl, rfl⟩⟩
  | cons id rest ih =>
    intro s s' acc acc' h
    have lift : (∃ new, acc' = acc ++ new ∧ s'.workers = s.workers ∧ ∀ t,
        (stOf s'.tasks t = stOf s.tasks t ∧ itemsFor t new = []) ∨
        (t ∈ rest ∧ stOf s.tasks t = some (.retracting w) ∧ stOf s'.tasks t = some (.waiting 0) ∧ itemsFor t new = []) ∨
        (∃ target rv, t ∈ rest ∧ stOf s.tasks t = some (.retracting w) ∧ stOf s'.tasks t = some (.assigned target rv) ∧
          itemsFor t new = [(target, t, rv)])) →
        ∃ new, acc' = acc ++ new ∧ s'.workers = s.workers ∧ ∀ t,
        (stOf s'.tasks t = stOf s.tasks t ∧ itemsFor t new = []) ∨
        (t ∈ id :: rest ∧ stOf s.tasks t = some (.retracting w) ∧ stOf s'.tasks t = some (.waiting 0) ∧ itemsFor t new = []) ∨
        (∃ target rv, t ∈ id :: rest ∧ stOf s.tasks t = some (.retracting w) ∧ stOf s'.tasks t = some (.assigned target rv) ∧
          itemsFor t new = [(target, t, rv)]) := by
      rintro ⟨new, h1, h2, h3⟩
      refine ⟨new, h1, h2, fun t => ?_⟩
      rcases h3 t with a | ⟨m, a⟩ | ⟨tg, rv, m, a⟩
      · exact .inl a
      · exact .inr (.inl ⟨List.mem_cons_of_mem _ m, a⟩)
      · exact .inr (.inr ⟨tg, rv, List.mem_cons_of_mem _ m, a⟩)
    simp only [State.retractLoop] at h
    split at h
    · exact lift (ih _ _ _ _ h)
    · rename_i task ht
      have hid : task.id = id := findTask_some_id ht
      have hst : stOf s.tasks id = some task.state := stOf_of_find ht
      split at h
      · exact lift (ih _ _ _ _ h)
      · rename_i hret
        have hret : task.state = .retracting w := Classical.not_not.mp hret
        -- the visited task gets the new state `nst`; `add` = the item added for it
        have conv : ∀ (s1 : State) (nst : TS) (add : List (Nat × TaskId × Nat)),
            s1.retractLoop w rest (acc ++ add) = .ok (s', acc') →
            s1.tasks = putTask s.tasks { task with state := nst } → s1.workers = s.workers →
            (∀ x, nst ≠ .retracting x) → (∀ t, t ≠ id → itemsFor t add = []) →
            ∃ new, acc' = acc ++ new ∧ s'.workers = s.workers ∧ ∀ t,
              (stOf s'.tasks t = stOf s.tasks t ∧ itemsFor t new = []) ∨
              (t = id ∧ stOf s'.tasks t = some nst ∧ itemsFor t new = itemsFor t add) ∨
              (t ≠ id ∧ ((t ∈ rest ∧ stOf s.tasks t = some (.retracting w) ∧ stOf s'.tasks t = some (.waiting 0) ∧
                  itemsFor t new = []) ∨
                (∃ target rv, t ∈ rest ∧ stOf s.tasks t = some (.retracting w) ∧
                  stOf s'.tasks t = some (.assigned target rv) ∧ itemsFor t new = [(target, t, rv)]))) := by
          intro s1 nst add h e1 ew hnr hadd
          obtain ⟨new, h1, h2, h3⟩ := ih _ _ _ _ h
          have hput : ∀ u, stOf s1.tasks u = if u = id then some nst else stOf s.tasks u := by
            intro u
            rw [e1, stOf_put (told := task) (by show findTask s.tasks task.id = _; rw [hid]; exact ht)]
            simp [hid]
          refine ⟨add ++ new, by rw [h1, List.append_assoc], h2.trans ew, fun t => ?_⟩
          by_cases ht' : t = id
          · subst ht'
            right; left
            have h1' := hput t
            simp only [if_true] at h1'
            rcases h3 t with ⟨a, b⟩ | ⟨_, a, _⟩ | ⟨_, _, _, a, _⟩
            · exact ⟨rfl, by rw [a, h1'], by rw [itemsFor_append, b, List.append_nil]⟩
            · rw [h1'] at a; cases a; exact (hnr w rfl).elim
            · rw [h1'] at a; cases a; exact (hnr w rfl).elim
          · have h1' := hput t
            simp only [ht', if_false] at h1'
            rcases h3 t with ⟨a, b⟩ | ⟨m, a, b, c⟩ | ⟨tg, rv, m, a, b, c⟩
            · exact .inl ⟨by rw [a, h1'], by rw [itemsFor_append, hadd t ht', b]; rfl⟩
            · exact .inr (.inr ⟨ht', .inl ⟨m, by rw [← h1']; exact a, b, by rw [itemsFor_append, hadd t ht', c]; rfl⟩⟩)
            · exact .inr (.inr ⟨ht', .inr ⟨tg, rv, m, by rw [← h1']; exact a, b,
                by rw [itemsFor_append, hadd t ht', c]; rfl⟩⟩)
        have fin : ∀ (nst : TS) (add : List (Nat × TaskId × Nat)),
            (nst = .waiting 0 ∧ add = []) ∨ (∃ target rv, nst = .assigned target rv ∧ add = [(target, id, rv)]) →
            (∃ new, acc' = acc ++ new ∧ s'.workers = s.workers ∧ ∀ t,
              (stOf s'.tasks t = stOf s.tasks t ∧ itemsFor t new = []) ∨
              (t = id ∧ stOf s'.tasks t = some nst ∧ itemsFor t new = itemsFor t add) ∨
              (t ≠ id ∧ ((t ∈ rest ∧ stOf s.tasks t = some (.retracting w) ∧ stOf s'.tasks t = some (.waiting 0) ∧
                  itemsFor t new = []) ∨
                (∃ target rv, t ∈ rest ∧ stOf s.tasks t = some (.retracting w) ∧
                  stOf s'.tasks t = some (.assigned target rv) ∧ itemsFor t new = [(target, t, rv)])))) →
            ∃ new, acc' = acc ++ new ∧ s'.workers = s.workers ∧ ∀ t,
              (stOf s'.tasks t = stOf s.tasks t ∧ itemsFor t new = []) ∨
              (t ∈ id :: rest ∧ stOf s.tasks t = some (.retracting w) ∧ stOf s'.tasks t = some (.waiting 0) ∧
                itemsFor t new = []) ∨
              (∃ target rv, t ∈ id :: rest ∧ stOf s.tasks t = some (.retracting w) ∧
                stOf s'.tasks t = some (.assigned target rv) ∧ itemsFor t new = [(target, t, rv)]) := by
          rintro nst add hcase ⟨new, h1, h2, h3⟩
          refine ⟨new, h1, h2, fun t => ?_⟩
          rcases h3 t with a | ⟨e, a, b⟩ | ⟨ne, ⟨m, a⟩ | ⟨tg, rv, m, a⟩⟩
          · exact .inl a
          · subst e
            rcases hcase with ⟨e1, e2⟩ | ⟨tg, rv, e1, e2⟩
            · subst e1 e2
              exact .inr (.inl ⟨List.mem_cons_self, by rw [hst, hret], a, by rw [b]; rfl⟩)
            · subst e1 e2
              exact .inr (.inr ⟨tg, rv, List.mem_cons_self, by rw [hst, hret], a, by rw [b]; simp [itemsFor]⟩)
          · exact .inr (.inl ⟨List.mem_cons_of_mem _ m, a⟩)
          · exact .inr (.inr ⟨tg, rv, List.mem_cons_of_mem _ m, a⟩)
        split at h
        · rename_i target rv hfind
          refine fin (.assigned target rv) [(target, id, rv)] (.inr ⟨target, rv, rfl, rfl⟩)
            (conv _ _ _ h rfl rfl (fun x e => by cases e) (fun t ht' => ?_))
          simp [itemsFor, Ne.symm ht']
        · refine fin (.waiting 0) [] (.inl ⟨rfl, rfl⟩)
            (conv (s.setTask { task with state := .waiting 0 }) _ [] (by rw [List.append_nil]; exact h) rfl rfl (fun x e => by cases e) (fun t _ => rfl))

/-- the items of `compute_items` for one task -/
theorem computeItems_specSys (s : State) (t : TaskId) : ∀ (l : List (Nat × TaskId × Nat))
    (res : List (TaskId × Nat × Option Nat × List Nat)), computeItems s l = .ok res →
    (res.filter fun it => it.1 = t).map (·.2.2.1) = (itemsFor t l).map fun it => some it.2.2
  | [], res, h => by simp only [computeItems] at h; cases h; rfl
  | it :: rest, res, h => by
    simp only [computeItems] at h
    split at h
    · cases h
    · rename_i task hg
      split at h
      · cases h
      · rename_i l' hl'
        cases h
        have ih := computeItems_specSys s t rest l' hl'
        have hid : task.id = it.2.1 := findTask_some_id (getTask_spec hg)
        simp only [itemsFor, List.filter_cons, computeOne, hid] at ih ⊢
        by_cases ht : it.2.1 = t
        · simp [ht, ih]
        · simp [ht, ih]

theorem groupComputeAux_cfor (s : State) (items : List (Nat × TaskId × Nat)) (w' : Nat) (t : TaskId) :
    ∀ (tgts : List Nat) (msgs : List Msg), groupComputeAux s items tgts = .ok msgs →
    cfor w' t msgs = tgts.flatMap fun tg =>
      if tg = w' then ((itemsFor t items).filter fun it => it.1 = tg).map fun it => some it.2.2 else []
  | [], msgs, h => by simp only [groupComputeAux] at h; cases h; rfl
  | tg :: rest, msgs, h => by
    simp only [groupComputeAux] at h
    split at h
    · cases h
    · rename_i l hl
      split at h
      · cases h
      · rename_i ms hms
        cases h
        rw [cfor_cons, groupComputeAux_cfor s items w' t rest ms hms, cfor_compute, List.flatMap_cons]
        congr 1
        split
        · rw [computeItems_specSys s t _ _ hl]
          simp only [itemsFor, List.filter_filter]
          congr 2
          funext x
          exact Bool.and_comm _ _
        · rfl

theorem eraseDups_nodup : ∀ (n : Nat) (l : List Nat), l.length ≤ n → l.eraseDups.Nodup
  | _, [], _ => by simp
  | 0, a :: l, h => by simp at h
  | n + 1, a :: l, h => by
    rw [List.eraseDups_cons]
    refine List.nodup_cons.mpr ⟨?_, eraseDups_nodup n _ ?_⟩
    · rw [List.mem_eraseDups]
      simp
    · have := List.length_filter_le (fun b => !b == a) l
      simp only [List.length_cons] at h
      omega

/-- the `ComputeTasks` items of a retract response for one task and one worker -/
theorem groupCompute_cfor {s : State} {items : List (Nat × TaskId × Nat)} {msgs : List Msg} (w' : Nat) (t : TaskId)
    (h : groupCompute s items = .ok msgs) :
    (itemsFor t items = [] → cfor w' t msgs = []) ∧
    (∀ tg rv, itemsFor t items = [(tg, t, rv)] → cfor w' t msgs = if tg = w' then [some rv] else []) := by
  unfold groupCompute at h
  have hc := groupComputeAux_cfor s items w' t _ _ h
  constructor
  · intro he
    rw [hc, he]
    simp
  · intro tg rv he
    rw [hc, he]
    have hn := eraseDups_nodup _ (items.map (·.1)) (Nat.le_refl _)
    have hmem : tg ∈ (items.map (·.1)).eraseDups := by
      rw [List.mem_eraseDups]
      have : (tg, t, rv) ∈ itemsFor t items := by rw [he]; simp
      exact List.mem_map.mpr ⟨_, (List.mem_filter.mp this).1, rfl⟩
    by_cases hw : tg = w'
    · subst hw
      obtain ⟨q1, _⟩ := flatMap_single
        (fun x => if x = tg then (([(tg, t, rv)] : List (Nat × TaskId × Nat)).filter fun it => it.1 = x).map
          fun it => some it.2.2 else [])
        tg (some rv) _ hn (fun a _ hne => by simp [hne]) (by simp)
      rw [q1 hmem]; simp
    · simp only [hw, if_false]
      rw [List.flatMap_eq_nil_iff]
      intro x _
      split
      · rename_i hx; subst hx; simp [hw]
      · rfl

/-- **`on_retract_response`** in terms of views: for the responding worker `w` and a task `t` it was Retracting from, the
view changes as `Own resp` allows; everything else changes as by a foreign action -/
theorem retractResponse_views {c c' : State} {w : Nat} {ids : List TaskId} {o : Out}
    (h : c.retractResponse w ids = .ok (c', o)) :
    (∀ w' t, (w' ≠ w ∨ t ∉ ids) → Foreign (view c w' t) (cfor w' t o.msgs) (view c' w' t)) ∧
    (∀ t, Own .resp (view c w t) (cfor w t o.msgs) (view c' w t)) ∧
    (∀ w' t, stOf c.tasks t = none → cfor w' t o.msgs = []) := by
  simp only [State.retractResponse] at h
  split at h
  · cases h
  · rename_i s1 items h1
    split at h
    · cases h
    · rename_i msgs hg
      simp only [Except.ok.injEq, Prod.mk.injEq] at h
      obtain ⟨rfl, rfl⟩ := h
      change (∀ w' t, (w' ≠ w ∨ t ∉ ids) → Foreign (view c w' t) (cfor w' t msgs) (view s1 w' t)) ∧
        (∀ t, Own .resp (view c w t) (cfor w t msgs) (view s1 w t)) ∧
        (∀ w' t, stOf c.tasks t = none → cfor w' t msgs = [])
      obtain ⟨new, e1, ew, hall⟩ := retractLoop_spec w ids c s1 [] items h1
      simp only [List.nil_append] at e1
      subst e1
      have hmn : ∀ x t, mnStarted s1 x t = mnStarted c x t := by
        intro x t; unfold mnStarted State.worker?; rw [ew]
      -- the view when the state is the same
      have hsame : ∀ x t, stOf s1.tasks t = stOf c.tasks t → view s1 x t = view c x t := by
        intro x t e
        rw [view_eq, view_eq, e]
        cases stOf c.tasks t with
        | none => rfl
        | some st =>
          cases st with
          | runningMN l => cases l <;> simp [viewSt, hmn]
          | _ => rfl
      have key : ∀ w' t,
          (view s1 w' t = view c w' t ∧ cfor w' t msgs = []) ∨
          (t ∈ ids ∧ stOf c.tasks t = some (.retracting w) ∧
            ((view s1 w' t = .quiet ∧ cfor w' t msgs = []) ∨
             ∃ rv, view s1 w' t = .asg rv ∧ cfor w' t msgs = [some rv])) := by
        intro w' t
        obtain ⟨g0, g1⟩ := groupCompute_cfor w' t hg
        rcases hall t with ⟨a, b⟩ | ⟨m, a, b, c0⟩ | ⟨tg, rv, m, a, b, c0⟩
        · exact .inl ⟨hsame w' t a, g0 b⟩
        · exact .inr ⟨m, a, .inl ⟨view_quiet_of_owner b (by intro e; cases e), g0 c0⟩⟩
        · refine .inr ⟨m, a, ?_⟩
          rw [g1 tg rv c0, view_some b]
          by_cases htg : tg = w'
          · subst htg; exact .inr ⟨rv, by simp [viewSt], by simp⟩
          · exact .inl ⟨by simp [viewSt, htg], by simp [htg]⟩
      refine ⟨fun w' t hc => ?_, fun t => ?_, fun w' t hnone => ?_⟩
      · rcases key w' t with ⟨a, b⟩ | ⟨m, a, hcase⟩
        · rw [a, b]; exact Foreign.same _
        · have hw' : w' ≠ w := by
            rcases hc with hc | hc
            · exact hc
            · exact (hc m).elim
          have q0 : view c w' t = .quiet := view_quiet_of_owner a (by intro e; cases e; exact hw' rfl)
          rw [q0]
          rcases hcase with ⟨b, c0⟩ | ⟨rv, b, c0⟩
          · rw [b, c0]; exact Foreign.same _
          · rw [b, c0]; exact ⟨fun e => (by cases e), .inr (.inr ⟨rfl, .inl ⟨rv, rfl, rfl⟩⟩)⟩
      · rcases key w t with ⟨a, b⟩ | ⟨m, a, hcase⟩
        · rw [a, b]
          exact ⟨fun e => e, fun e => .inr (.inr (.inl ⟨e, rfl⟩))⟩
        · have q0 : view c w t = .pre := by rw [view_some a]; simp [viewSt]
          rw [q0]
          refine ⟨fun e => (by cases e), fun _ => ?_⟩
          rcases hcase with ⟨b, c0⟩ | ⟨rv, b, c0⟩
          · exact .inr (.inl ⟨b, c0⟩)
          · exact .inr (.inr (.inr ⟨rv, b, c0⟩))
      · rcases key w' t with ⟨_, b⟩ | ⟨_, a, _⟩
        · exact b
        · rw [hnone] at a; cases a

end HqModel.Core
