import HqModel.Lemmas.JournalPrune
/-!
`load_event_file` factors per job: a record about job `j` reads and writes only the restorer entry of `j`
(`jobStep`), crash counters aside nothing else depends on worker records. This gives the simulation between the
restorer run on a journal and on its pruned version.
-/
namespace HqModel.Journal

/-- forget the crash counter -/
def nc (t : RTask) : RTask := { t with crash := 0 }
def RJob.noCrash (j : RJob) : RJob := { j with tasks := alMap nc j.tasks }
/-- equal up to crash counters -/
def optEq (o o' : Option RJob) : Prop := o.map RJob.noCrash = o'.map RJob.noCrash

def jobOf : Record → Option Nat
  | .submit j _ _ _ | .jobOpen j _ | .jobClose j | .jobCancel j | .jobCompleted j
  | .taskStarted j _ _ _ | .taskFinished j _ | .taskFailed j _ => some j
  | _ => none

/-- the effect of a single-job record on the restorer entry of its job (`none` = no entry) -/
def jobStep : Record → Option RJob → Except Stop (Option RJob)
  | .submit _ closed mf d, o =>
    if closed then .ok (some ⟨mf, [d], [], false⟩)
    else match o with
      | some j => .ok (some { j with submits := j.submits ++ [d] })
      | none => .ok none
  | .jobOpen _ mf, _ => .ok (some ⟨mf, [], [], true⟩)
  | .jobClose _, o =>
    match o with
    | some j => .ok (some { j with isOpen := false })
    | none => .error (.panic .jobCloseUnwrap)
  | .jobCancel _, o =>
    match o with
    | some j => .ok (some j)
    | none => .error (.panic .jobCancelUnwrap)
  | .jobCompleted _, _ => .ok none
  | .taskStarted _ t i ws, o =>
    match o with
    | some j => .ok (some { j with tasks := alSet j.tasks t ⟨.running ⟨i, ws⟩, some i, ((alGet j.tasks t).map (·.crash)).getD 0⟩ })
    | none => .ok none
  | .taskFinished _ t, o =>
    match o with
    | some j =>
      match alGet j.tasks t with
      | none => .error (.panic .taskFinishedUnwrap)
      | some ti =>
        match ti.state with
        | .running sd => .ok (some { j with tasks := alSet j.tasks t { ti with state := .finished sd } })
        | _ => .error (.panic .taskFinishedState)
    | none => .ok none
  | .taskFailed _ t, o =>
    match o with
    | some j =>
      match alGet j.tasks t with
      | none => .ok (some { j with tasks := alSet j.tasks t ⟨.failed none, none, 0⟩ })
      | some ti =>
        match ti.state with
        | .waiting => .ok (some { j with tasks := alSet j.tasks t { ti with state := .failed none } })
        | .running sd => .ok (some { j with tasks := alSet j.tasks t { ti with state := .failed (some sd) } })
        | _ => .error (.panic .taskFailedState)
    | none => .ok none
  | _, o => .ok o

/-- `R1` differs from `R` only in the entry of job `j` (now `o1`), in `maxJob`/`maxWorker`/`queueRes` -/
structure Local (R R1 : Restorer) (j : Nat) (o1 : Option RJob) : Prop where
  here : alGet R1.jobs j = o1
  other : ∀ j', j' ≠ j → alGet R1.jobs j' = alGet R.jobs j'
  queues : R1.queues = R.queues
  maxQueue : R1.maxQueue = R.maxQueue
  uid : R1.uid = R.uid

theorem local_set (R : Restorer) (j : Nat) (v : RJob) :
    Local R { R with jobs := alSet R.jobs j v } j (some v) :=
  ⟨alGet_set_self _ _ _, fun j' h => alGet_set_ne _ _ (fun e => h e.symm), rfl, rfl, rfl⟩

theorem local_add (R : Restorer) (j : Nat) (v : RJob) : Local R (R.addJob j v) j (some v) :=
  ⟨alGet_set_self _ _ _, fun j' h => alGet_set_ne _ _ (fun e => h e.symm), rfl, rfl, rfl⟩

theorem local_refl (R : Restorer) (j : Nat) : Local R R j (alGet R.jobs j) := ⟨rfl, fun _ _ => rfl, rfl, rfl, rfl⟩

theorem local_del (R : Restorer) (j : Nat) : Local R { R with jobs := alDel R.jobs j } j none :=
  ⟨by simp [alGet_del], fun j' h => by
    have hne : ¬ j = j' := fun e => h e.symm
    simp [alGet_del, hne], rfl, rfl, rfl⟩

/-- `restorerStep` on a single-job record = `jobStep` on the entry of that job -/
theorem restorerStep_factor (R : Restorer) (x : Record) (j : Nat) (hj : jobOf x = some j) :
    match restorerStep R x with
    | .ok R1 => ∃ o1, jobStep x (alGet R.jobs j) = .ok o1 ∧ Local R R1 j o1
    | .error e => jobStep x (alGet R.jobs j) = .error e := by
  cases x <;> simp only [jobOf, Option.some.injEq, reduceCtorEq] at hj <;> subst hj
  case submit j c mf d =>
    cases c with
    | true => simp only [restorerStep, jobStep, if_true]; exact ⟨_, rfl, local_add R _ _⟩
    | false =>
      simp only [restorerStep, jobStep, Bool.false_eq_true, if_false]
      cases h : alGet R.jobs j with
      | none => simp only; exact ⟨_, rfl, h ▸ local_refl R j⟩
      | some rj => simp only; exact ⟨_, rfl, local_set R _ _⟩
  case jobOpen j mf => simp only [restorerStep, jobStep]; exact ⟨_, rfl, local_add R _ _⟩
  case jobClose j =>
    simp only [restorerStep, jobStep]
    cases h : alGet R.jobs j with
    | none => rfl
    | some rj => simp only; exact ⟨_, rfl, local_set R _ _⟩
  case jobCancel j =>
    simp only [restorerStep, jobStep]
    cases h : alGet R.jobs j with
    | none => rfl
    | some rj => simp only; exact ⟨_, rfl, h ▸ local_refl R j⟩
  case jobCompleted j => simp only [restorerStep, jobStep]; exact ⟨_, rfl, local_del R _⟩
  case taskStarted j t i ws =>
    simp only [restorerStep, jobStep]
    cases h : alGet R.jobs j with
    | none => simp only; exact ⟨_, rfl, h ▸ local_refl R j⟩
    | some rj => simp only; exact ⟨_, rfl, local_set R _ _⟩
  case taskFinished j t =>
    simp only [restorerStep, jobStep]
    cases h : alGet R.jobs j with
    | none => simp only; exact ⟨_, rfl, h ▸ local_refl R j⟩
    | some rj =>
      simp only
      cases h2 : alGet rj.tasks t with
      | none => rfl
      | some ti =>
        simp only
        cases h3 : ti.state <;> simp only <;> first | rfl | exact ⟨_, rfl, local_set R _ _⟩
  case taskFailed j t =>
    simp only [restorerStep, jobStep]
    cases h : alGet R.jobs j with
    | none => simp only; exact ⟨_, rfl, h ▸ local_refl R j⟩
    | some rj =>
      simp only
      cases h2 : alGet rj.tasks t with
      | none => simp only; exact ⟨_, rfl, local_set R _ _⟩
      | some ti =>
        simp only
        cases h3 : ti.state <;> simp only <;> first | rfl | exact ⟨_, rfl, local_set R _ _⟩


theorem optEq_refl (o : Option RJob) : optEq o o := rfl

theorem optEq_some_left {rj : RJob} {o' : Option RJob} (h : optEq (some rj) o') :
    ∃ rj', o' = some rj' ∧ rj.noCrash = rj'.noCrash := by
  cases o' with
  | none => simp [optEq] at h
  | some rj' => exact ⟨rj', rfl, by simpa [optEq] using h⟩

theorem optEq_none_left {o' : Option RJob} (h : optEq none o') : o' = none := by
  cases o' with
  | none => rfl
  | some _ => simp [optEq] at h

theorem noCrash_fields {rj rj' : RJob} (h : rj.noCrash = rj'.noCrash) :
    rj.maxFails = rj'.maxFails ∧ rj.submits = rj'.submits ∧ rj.isOpen = rj'.isOpen ∧
    alMap nc rj.tasks = alMap nc rj'.tasks := by
  simp only [RJob.noCrash, RJob.mk.injEq] at h
  exact ⟨h.1, h.2.1, h.2.2.2, h.2.2.1⟩

theorem noCrash_get {rj rj' : RJob} (h : rj.noCrash = rj'.noCrash) (t : Nat) :
    (alGet rj.tasks t).map nc = (alGet rj'.tasks t).map nc := by
  rw [← alGet_map, ← alGet_map, (noCrash_fields h).2.2.2]

theorem alMap_alSet (f : β → γ) (l : List (Nat × β)) (k : Nat) (v : β) :
    alMap f (alSet l k v) = alSet (alMap f l) k (f v) := by
  induction l with
  | nil => rfl
  | cons a r ih =>
    obtain ⟨k', w⟩ := a
    simp only [alMap] at ih
    by_cases h : k' = k <;> simp [alMap, alSet, h, ih]

theorem noCrash_mk {rj rj' : RJob} (h1 : rj.maxFails = rj'.maxFails) (h2 : rj.submits = rj'.submits)
    (h3 : rj.isOpen = rj'.isOpen) (h4 : alMap nc rj.tasks = alMap nc rj'.tasks) : rj.noCrash = rj'.noCrash := by
  simp only [RJob.noCrash, RJob.mk.injEq]
  exact ⟨h1, h2, h4, h3⟩

theorem noCrash_setTask {rj rj' : RJob} (h : rj.noCrash = rj'.noCrash) (t : Nat) {v v' : RTask} (hv : nc v = nc v') :
    ({ rj with tasks := alSet rj.tasks t v } : RJob).noCrash = ({ rj' with tasks := alSet rj'.tasks t v' } : RJob).noCrash := by
  obtain ⟨h1, h2, h3, h4⟩ := noCrash_fields h
  exact noCrash_mk h1 h2 h3 (by simp only [alMap_alSet, h4, hv])

theorem nc_eq_iff {a b : RTask} : nc a = nc b ↔ a.state = b.state ∧ a.inst = b.inst := by
  simp [nc, RTask.mk.injEq]

/-- the outcome type of `jobStep` on entries that are equal up to crash counters -/
def ResEq : Except Stop (Option RJob) → Except Stop (Option RJob) → Prop
  | .ok a, .ok b => optEq a b
  | .error e, .error e' => e = e'
  | _, _ => False

theorem resEq_refl (r : Except Stop (Option RJob)) : ResEq r r := by
  cases r <;> simp [ResEq, optEq]

theorem jobStep_optEq (x : Record) {o o' : Option RJob} (h : optEq o o') : ResEq (jobStep x o) (jobStep x o') := by
  cases o with
  | none => rw [optEq_none_left h]; exact resEq_refl _
  | some rj =>
    obtain ⟨rj', rfl, hn⟩ := optEq_some_left h
    obtain ⟨f1, f2, f3, f4⟩ := noCrash_fields hn
    cases x <;> simp only [jobStep] <;> try exact h
    case submit j c mf d =>
      cases c with
      | true => simp only [if_true]; exact optEq_refl _
      | false =>
        simp only [Bool.false_eq_true, if_false, ResEq, optEq, Option.map_some, Option.some.injEq]
        exact noCrash_mk f1 (by simp [f2]) f3 f4
    case jobOpen j mf => exact optEq_refl _
    case jobClose j =>
      simp only [ResEq, optEq, Option.map_some, Option.some.injEq]
      exact noCrash_mk f1 f2 rfl f4
    case jobCompleted j => exact optEq_refl _
    case taskStarted j t i ws =>
      simp only [ResEq, optEq, Option.map_some, Option.some.injEq]
      exact noCrash_setTask hn t (nc_eq_iff.2 ⟨rfl, rfl⟩)
    case taskFinished j t =>
      have hg := noCrash_get hn t
      cases h1 : alGet rj.tasks t with
      | none =>
        rw [h1] at hg
        have : alGet rj'.tasks t = none := by cases h2 : alGet rj'.tasks t <;> simp_all
        simp only [this, ResEq]
      | some ti =>
        rw [h1] at hg
        cases h2 : alGet rj'.tasks t with
        | none => simp [h2] at hg
        | some ti' =>
          rw [h2] at hg
          have hti : nc ti = nc ti' := by simpa using hg
          obtain ⟨e1, e2⟩ := nc_eq_iff.1 hti
          simp only [← e1]
          cases h3 : ti.state <;> simp only [ResEq]
          case running sd =>
            simp only [optEq, Option.map_some, Option.some.injEq]
            exact noCrash_setTask hn t (nc_eq_iff.2 ⟨rfl, e2⟩)
    case taskFailed j t =>
      have hg := noCrash_get hn t
      cases h1 : alGet rj.tasks t with
      | none =>
        rw [h1] at hg
        have : alGet rj'.tasks t = none := by cases h2 : alGet rj'.tasks t <;> simp_all
        simp only [this, ResEq, optEq, Option.map_some, Option.some.injEq]
        exact noCrash_setTask hn t rfl
      | some ti =>
        rw [h1] at hg
        cases h2 : alGet rj'.tasks t with
        | none => simp [h2] at hg
        | some ti' =>
          rw [h2] at hg
          have hti : nc ti = nc ti' := by simpa using hg
          obtain ⟨e1, e2⟩ := nc_eq_iff.1 hti
          simp only [← e1]
          cases h3 : ti.state <;> simp only [ResEq]
          case waiting =>
            simp only [optEq, Option.map_some, Option.some.injEq]
            exact noCrash_setTask hn t (nc_eq_iff.2 ⟨rfl, e2⟩)
          case running sd =>
            simp only [optEq, Option.map_some, Option.some.injEq]
            exact noCrash_setTask hn t (nc_eq_iff.2 ⟨rfl, e2⟩)


/-! ### the simulation -/

/-- restorer on the journal (`R`) vs. restorer on the pruned journal (`R'`): live jobs have entries equal up to crash
counters, non-live jobs have no entry in `R'`; queues, queue high-water mark and uid agree. (`maxJob`, `maxWorker`,
`queueRes` are NOT related: see the C11 observation and finding FJ1.) -/
structure PRel (live : Nat → Bool) (R R' : Restorer) : Prop where
  jobs : ∀ j, live j = true → optEq (alGet R.jobs j) (alGet R'.jobs j)
  dead : ∀ j, live j = false → alGet R'.jobs j = none
  queues : R'.queues = R.queues
  maxQueue : R'.maxQueue = R.maxQueue
  uid : R'.uid = R.uid

theorem increaseCrash_noCrash (rj : RJob) (w : Nat) : (rj.increaseCrash w).noCrash = rj.noCrash := by
  simp only [RJob.noCrash, RJob.increaseCrash, RJob.mk.injEq, true_and, and_true]
  simp only [alMap, List.map_map]
  apply List.map_congr_left
  intro kv _
  simp only [Function.comp_def, Prod.mk.injEq, true_and]
  split
  · split <;> simp [nc]
  · rfl

theorem optEq_increaseCrash (o : Option RJob) (w : Nat) : optEq (o.map (·.increaseCrash w)) o := by
  cases o with
  | none => rfl
  | some rj => simp [optEq, increaseCrash_noCrash]

theorem optEq_trans {a b c : Option RJob} (h1 : optEq a b) (h2 : optEq b c) : optEq a c := h1.trans h2
theorem optEq_symm {a b : Option RJob} (h : optEq a b) : optEq b a := h.symm

/-- both sides process the same single-job record of a live job -/
theorem prel_step_job {live : Nat → Bool} {R R' R1 : Restorer} (h : PRel live R R') (x : Record) (j : Nat)
    (hj : jobOf x = some j) (hl : live j = true) (hs : restorerStep R x = .ok R1) :
    ∃ R1', restorerStep R' x = .ok R1' ∧ PRel live R1 R1' := by
  have f1 := restorerStep_factor R x j hj
  have f2 := restorerStep_factor R' x j hj
  rw [hs] at f1
  obtain ⟨o1, e1, l1⟩ := f1
  have hres := jobStep_optEq x (h.jobs j hl)
  rw [e1] at hres
  cases hs' : restorerStep R' x with
  | error e =>
    rw [hs'] at f2
    simp only at f2
    rw [f2] at hres
    exact absurd hres (by simp [ResEq])
  | ok R1' =>
    rw [hs'] at f2
    obtain ⟨o1', e1', l1'⟩ := f2
    rw [e1'] at hres
    refine ⟨R1', rfl, ⟨?_, ?_, ?_, ?_, ?_⟩⟩
    · intro j' hl'
      by_cases hjj : j' = j
      · subst hjj; rw [l1.here, l1'.here]; exact hres
      · rw [l1.other j' hjj, l1'.other j' hjj]; exact h.jobs j' hl'
    · intro j' hl'
      have hjj : j' ≠ j := fun e => by rw [e, hl] at hl'; cases hl'
      rw [l1'.other j' hjj]; exact h.dead j' hl'
    · rw [l1'.queues, l1.queues, h.queues]
    · rw [l1'.maxQueue, l1.maxQueue, h.maxQueue]
    · rw [l1'.uid, l1.uid, h.uid]

/-- only the unpruned side processes a single-job record of a non-live job -/
theorem prel_skip_job {live : Nat → Bool} {R R' R1 : Restorer} (h : PRel live R R') (x : Record) (j : Nat)
    (hj : jobOf x = some j) (hl : live j = false) (hs : restorerStep R x = .ok R1) : PRel live R1 R' := by
  have f1 := restorerStep_factor R x j hj
  rw [hs] at f1
  obtain ⟨o1, _, l1⟩ := f1
  refine ⟨?_, h.dead, ?_, ?_, ?_⟩
  · intro j' hl'
    have hjj : j' ≠ j := fun e => by rw [e, hl] at hl'; cases hl'
    rw [l1.other j' hjj]; exact h.jobs j' hl'
  · rw [h.queues, l1.queues]
  · rw [h.maxQueue, l1.maxQueue]
  · rw [h.uid, l1.uid]

/-! batches -/

def JRel (live : Nat → Bool) (jobs jobs' : List (Nat × RJob)) : Prop :=
  (∀ j, live j = true → optEq (alGet jobs j) (alGet jobs' j)) ∧ (∀ j, live j = false → alGet jobs' j = none)

theorem batchStep_get (f : List (Nat × RTask) → Nat → List (Nat × RTask)) (jobs : List (Nat × RJob)) (id : Nat × Nat)
    (j : Nat) : alGet (batchStep f jobs id) j =
      if id.1 = j then (alGet jobs j).map (fun rj => { rj with tasks := f rj.tasks id.2 }) else alGet jobs j := by
  unfold batchStep
  by_cases h : id.1 = j
  · subst h
    cases hg : alGet jobs id.1 with
    | none => simp [hg]
    | some rj => simp [alGet_set_self]
  · cases hg : alGet jobs id.1 with
    | none => simp [h]
    | some rj => simp [h, alGet_set_ne _ _ h]

/-- `f` (cancelTask / abortTask) commutes with forgetting crash counters -/
def NcCompat (f : List (Nat × RTask) → Nat → List (Nat × RTask)) : Prop :=
  ∀ ts t, alMap nc (f ts t) = f (alMap nc ts) t

theorem cancelTask_nc : NcCompat cancelTask := by
  intro ts t
  unfold cancelTask
  rw [alGet_map]
  cases alGet ts t with
  | none => simp [alMap_alSet, nc]
  | some ti => simp only [Option.map_some, alMap_alSet]; congr 1

theorem abortTask_nc : NcCompat abortTask := by
  intro ts t
  unfold abortTask
  rw [alGet_map]
  cases alGet ts t with
  | none => simp [alMap_alSet, nc]
  | some ti => simp only [Option.map_some, alMap_alSet]; congr 1

theorem batch_jrel (live : Nat → Bool) (f : List (Nat × RTask) → Nat → List (Nat × RTask)) (hf : NcCompat f) :
    ∀ (ids : List (Nat × Nat)) (jobs jobs' : List (Nat × RJob)), JRel live jobs jobs' →
      JRel live (ids.foldl (batchStep f) jobs) ((ids.filter fun i => live i.1).foldl (batchStep f) jobs') := by
  intro ids
  induction ids with
  | nil => intro jobs jobs' h; exact h
  | cons id ids ih =>
    intro jobs jobs' h
    simp only [List.foldl_cons, List.filter_cons]
    by_cases hl : live id.1 = true
    · simp only [hl, if_true, List.foldl_cons]
      apply ih
      refine ⟨fun j hj => ?_, fun j hj => ?_⟩
      · rw [batchStep_get, batchStep_get]
        by_cases hij : id.1 = j
        · simp only [hij, if_true]
          have := h.1 j hj
          cases h1 : alGet jobs j with
          | none => rw [h1] at this; rw [optEq_none_left this]; rfl
          | some rj =>
            rw [h1] at this
            obtain ⟨rj', e', hn⟩ := optEq_some_left this
            rw [e']
            obtain ⟨g1, g2, g3, g4⟩ := noCrash_fields hn
            simp only [optEq, Option.map_some, Option.some.injEq]
            exact noCrash_mk g1 g2 g3 (by rw [hf rj.tasks id.2, hf rj'.tasks id.2, g4])
        · simp only [hij, if_false]; exact h.1 j hj
      · rw [batchStep_get]
        have hij : ¬ id.1 = j := fun e => by rw [e, hj] at hl; cases hl
        simp only [hij, if_false]; exact h.2 j hj
    · have hl' : live id.1 = false := by simpa using hl
      simp only [hl', Bool.false_eq_true, if_false]
      apply ih
      refine ⟨fun j hj => ?_, h.2⟩
      rw [batchStep_get]
      have hij : ¬ id.1 = j := fun e => by rw [e, hj] at hl'; cases hl'
      simp only [hij, if_false]; exact h.1 j hj


/-- `x'` is what the pruned side sees of record `x` (`none` = dropped) -/
def Pruned (live : Nat → Bool) : Record → Option Record → Prop
  | .tasksCanceled ids, x' =>
    x' = some (.tasksCanceled (ids.filter fun i => live i.1)) ∨ ((ids.filter fun i => live i.1) = [] ∧ x' = none)
  | .tasksAborted ids, x' =>
    x' = some (.tasksAborted (ids.filter fun i => live i.1)) ∨ ((ids.filter fun i => live i.1) = [] ∧ x' = none)
  | x@(.workerConnected _ _), x' => x' = some x ∨ x' = none
  | x@(.workerLost _ _), x' => x' = some x ∨ x' = none
  | x@(.workerOverview _), x' => x' = some x ∨ x' = none
  | x, x' =>
    match jobOf x with
    | some j => x' = if live j then some x else none
    | none => x' = some x

theorem prel_of_jobs {live : Nat → Bool} {R R' R1 R1' : Restorer} (h : PRel live R R')
    (hj : JRel live R1.jobs R1'.jobs)
    (e1 : R1.queues = R.queues) (e2 : R1.maxQueue = R.maxQueue) (e3 : R1.uid = R.uid)
    (e1' : R1'.queues = R'.queues) (e2' : R1'.maxQueue = R'.maxQueue) (e3' : R1'.uid = R'.uid) : PRel live R1 R1' :=
  ⟨hj.1, hj.2, by rw [e1', e1, h.queues], by rw [e2', e2, h.maxQueue], by rw [e3', e3, h.uid]⟩

theorem PRel.jrel {live : Nat → Bool} {R R' : Restorer} (h : PRel live R R') : JRel live R.jobs R'.jobs := ⟨h.jobs, h.dead⟩

theorem jrel_increaseCrash_left {live : Nat → Bool} {jobs jobs' : List (Nat × RJob)} (h : JRel live jobs jobs') (w : Nat) :
    JRel live (alMap (·.increaseCrash w) jobs) jobs' :=
  ⟨fun j hj => by rw [alGet_map]; exact optEq_trans (optEq_increaseCrash _ w) (h.1 j hj), h.2⟩

theorem jrel_increaseCrash_both {live : Nat → Bool} {jobs jobs' : List (Nat × RJob)} (h : JRel live jobs jobs') (w : Nat) :
    JRel live (alMap (·.increaseCrash w) jobs) (alMap (·.increaseCrash w) jobs') :=
  ⟨fun j hj => by
      rw [alGet_map, alGet_map]
      exact optEq_trans (optEq_increaseCrash _ w) (optEq_trans (h.1 j hj) (optEq_symm (optEq_increaseCrash _ w))),
   fun j hj => by rw [alGet_map, h.2 j hj]; rfl⟩

/-- the pruned side follows: it processes what is left of the record (or nothing) and stays related -/
def StepConcl (live : Nat → Bool) (R' R1 : Restorer) : Option Record → Prop
  | some y => ∃ R1', restorerStep R' y = .ok R1' ∧ PRel live R1 R1'
  | none => PRel live R1 R'

/-- one record of the journal against what pruning left of it -/
theorem prel_step {live : Nat → Bool} {R R' R1 : Restorer} (h : PRel live R R') (x : Record) (x' : Option Record)
    (hx : Pruned live x x') (hs : restorerStep R x = .ok R1) : StepConcl live R' R1 x' := by
  have single : ∀ j, jobOf x = some j → (x' = if live j then some x else none) → StepConcl live R' R1 x' := by
    intro j hj hx'
    by_cases hl : live j = true
    · rw [hx', hl]; exact prel_step_job h x j hj hl hs
    · have hl' : live j = false := by simpa using hl
      rw [hx', hl']; exact prel_skip_job h x j hj hl' hs
  cases x with
  | submit j c mf d => exact single j rfl hx
  | jobOpen j mf => exact single j rfl hx
  | jobClose j => exact single j rfl hx
  | jobCancel j => exact single j rfl hx
  | jobCompleted j => exact single j rfl hx
  | taskStarted j t i ws => exact single j rfl hx
  | taskFinished j t => exact single j rfl hx
  | taskFailed j t => exact single j rfl hx
  | tasksCanceled ids =>
    simp only [restorerStep, Except.ok.injEq] at hs
    subst hs
    have hj := batch_jrel live cancelTask cancelTask_nc ids R.jobs R'.jobs h.jrel
    rcases hx with rfl | ⟨he, rfl⟩
    · exact ⟨_, rfl, prel_of_jobs h hj rfl rfl rfl rfl rfl rfl⟩
    · rw [he] at hj; exact prel_of_jobs h hj rfl rfl rfl rfl rfl rfl
  | tasksAborted ids =>
    simp only [restorerStep, Except.ok.injEq] at hs
    subst hs
    have hj := batch_jrel live abortTask abortTask_nc ids R.jobs R'.jobs h.jrel
    rcases hx with rfl | ⟨he, rfl⟩
    · exact ⟨_, rfl, prel_of_jobs h hj rfl rfl rfl rfl rfl rfl⟩
    · rw [he] at hj; exact prel_of_jobs h hj rfl rfl rfl rfl rfl rfl
  | workerLost w reason =>
    simp only [restorerStep] at hs
    rcases hx with rfl | rfl
    · simp only [StepConcl, restorerStep]
      cases hf : reason.isFailure with
      | true =>
        simp only [hf, if_true, Except.ok.injEq] at hs; subst hs
        exact ⟨_, rfl, prel_of_jobs h (jrel_increaseCrash_both h.jrel w) rfl rfl rfl rfl rfl rfl⟩
      | false =>
        simp only [hf, Bool.false_eq_true, if_false, Except.ok.injEq] at hs; subst hs
        exact ⟨_, rfl, h⟩
    · cases hf : reason.isFailure with
      | true =>
        simp only [hf, if_true, Except.ok.injEq] at hs; subst hs
        exact prel_of_jobs h (jrel_increaseCrash_left h.jrel w) rfl rfl rfl rfl rfl rfl
      | false =>
        simp only [hf, Bool.false_eq_true, if_false, Except.ok.injEq] at hs; subst hs
        exact h
  | workerConnected w alloc =>
    have hR1 : R1.jobs = R.jobs ∧ R1.queues = R.queues ∧ R1.maxQueue = R.maxQueue ∧ R1.uid = R.uid := by
      simp only [restorerStep] at hs
      cases alloc with
      | none => simp only [Except.ok.injEq] at hs; subst hs; exact ⟨rfl, rfl, rfl, rfl⟩
      | some a =>
        simp only at hs
        cases hq : alGet R.allocQueue a with
        | none => simp only [hq, Except.ok.injEq] at hs; subst hs; exact ⟨rfl, rfl, rfl, rfl⟩
        | some q => simp only [hq, Except.ok.injEq] at hs; subst hs; exact ⟨rfl, rfl, rfl, rfl⟩
    have hjr : JRel live R1.jobs R'.jobs := by rw [hR1.1]; exact h.jrel
    rcases hx with rfl | rfl
    · have : ∃ R1', restorerStep R' (.workerConnected w alloc) = .ok R1' ∧ R1'.jobs = R'.jobs ∧ R1'.queues = R'.queues ∧
          R1'.maxQueue = R'.maxQueue ∧ R1'.uid = R'.uid := by
        simp only [restorerStep]
        cases alloc with
        | none => exact ⟨_, rfl, rfl, rfl, rfl, rfl⟩
        | some a =>
          simp only
          cases alGet R'.allocQueue a with
          | none => exact ⟨_, rfl, rfl, rfl, rfl, rfl⟩
          | some q => exact ⟨_, rfl, rfl, rfl, rfl, rfl⟩
      obtain ⟨R1', s1, s2, s3, s4, s5⟩ := this
      exact ⟨R1', s1, prel_of_jobs h (by rw [s2]; exact hjr) hR1.2.1 hR1.2.2.1 hR1.2.2.2 s3 s4 s5⟩
    · exact prel_of_jobs h hjr hR1.2.1 hR1.2.2.1 hR1.2.2.2 rfl rfl rfl
  | workerOverview w =>
    simp only [restorerStep, Except.ok.injEq] at hs; subst hs
    rcases hx with rfl | rfl
    · exact ⟨_, rfl, h⟩
    · exact h
  | serverStart uid =>
    simp only [restorerStep, Except.ok.injEq] at hs; subst hs
    simp only [Pruned, jobOf] at hx; subst hx
    exact ⟨_, rfl, ⟨h.jobs, h.dead, h.queues, h.maxQueue, rfl⟩⟩
  | serverStop =>
    simp only [restorerStep, Except.ok.injEq] at hs; subst hs
    simp only [Pruned, jobOf] at hx; subst hx
    exact ⟨_, rfl, h⟩
  | queueCreated q =>
    simp only [Pruned, jobOf] at hx; subst hx
    simp only [StepConcl, restorerStep] at hs ⊢
    cases hq : alGet R.queues q with
    | some _ => simp [hq] at hs
    | none =>
      simp only [hq, Except.ok.injEq] at hs; subst hs
      rw [h.queues, hq]
      exact ⟨_, rfl, ⟨h.jobs, h.dead, by simp [h.queues], by simp [h.maxQueue], h.uid⟩⟩
  | queueRemoved q =>
    simp only [restorerStep, Except.ok.injEq] at hs; subst hs
    simp only [Pruned, jobOf] at hx; subst hx
    exact ⟨_, rfl, ⟨h.jobs, h.dead, by simp [h.queues], h.maxQueue, h.uid⟩⟩
  | allocQueued q a =>
    simp only [restorerStep, Except.ok.injEq] at hs; subst hs
    simp only [Pruned, jobOf] at hx; subst hx
    exact ⟨_, rfl, ⟨h.jobs, h.dead, h.queues, h.maxQueue, h.uid⟩⟩
  | allocStarted q a =>
    simp only [restorerStep, Except.ok.injEq] at hs; subst hs
    simp only [Pruned, jobOf] at hx; subst hx
    exact ⟨_, rfl, h⟩
  | allocFinished q a =>
    simp only [restorerStep, Except.ok.injEq] at hs; subst hs
    simp only [Pruned, jobOf] at hx; subst hx
    exact ⟨_, rfl, h⟩


theorem pruneRecord_pruned (lj lw : List Nat) (x : Record) :
    Pruned (fun j => lj.contains j) x (pruneRecord lj lw x) := by
  cases x <;> simp only [Pruned, pruneRecord, jobOf]
  case tasksCanceled ids =>
    generalize ids.filter (fun i => lj.contains i.1) = F
    cases F with
    | nil => exact Or.inr ⟨rfl, rfl⟩
    | cons a as => exact Or.inl rfl
  case tasksAborted ids =>
    generalize ids.filter (fun i => lj.contains i.1) = F
    cases F with
    | nil => exact Or.inr ⟨rfl, rfl⟩
    | cons a as => exact Or.inl rfl
  case workerConnected w a =>
    generalize lw.contains w = b
    cases b
    · exact Or.inr rfl
    · exact Or.inl rfl
  case workerLost w r =>
    generalize lw.contains w = b
    cases b
    · exact Or.inr rfl
    · exact Or.inl rfl
  case workerOverview w =>
    generalize lw.contains w = b
    cases b
    · exact Or.inr rfl
    · exact Or.inl rfl

theorem filter_const_true (l : List α) : l.filter (fun _ => true) = l := by
  induction l with
  | nil => rfl
  | cons a l ih => simp [List.filter_cons, ih]

theorem some_pruned (x : Record) : Pruned (fun _ => true) x (some x) := by
  cases x <;> simp [Pruned, jobOf, filter_const_true]

/-- the whole journal against its pruned version -/
theorem prel_fold_prune (lj lw : List Nat) : ∀ (J : List Record) (R R' R1 : Restorer),
    PRel (fun j => lj.contains j) R R' → restorerFoldFrom R J = .ok R1 →
    ∃ R1', restorerFoldFrom R' (prune lj lw J) = .ok R1' ∧ PRel (fun j => lj.contains j) R1 R1' := by
  intro J
  induction J with
  | nil =>
    intro R R' R1 h hs
    simp only [restorerFoldFrom, Except.ok.injEq] at hs
    subst hs
    exact ⟨R', rfl, h⟩
  | cons x xs ih =>
    intro R R' R1 h hs
    simp only [restorerFoldFrom] at hs
    cases hx : restorerStep R x with
    | error e => simp [hx] at hs
    | ok R2 =>
      simp only [hx] at hs
      have hstep := prel_step h x (pruneRecord lj lw x) (pruneRecord_pruned lj lw x) hx
      simp only [prune, List.filterMap_cons]
      cases hp : pruneRecord lj lw x with
      | none =>
        rw [hp] at hstep
        exact ih R2 R' R1 hstep hs
      | some y =>
        rw [hp] at hstep
        obtain ⟨R2', hs', hrel⟩ := hstep
        obtain ⟨R1', hf, hr⟩ := ih R2 R2' R1 hrel hs
        exact ⟨R1', by simp only [restorerFoldFrom, hs']; exact hf, hr⟩

/-- whatever both servers append afterwards keeps the two restorers related -/
theorem prel_fold_common : ∀ (K : List Record) (R R' R1 : Restorer),
    PRel (fun _ => true) R R' → restorerFoldFrom R K = .ok R1 →
    ∃ R1', restorerFoldFrom R' K = .ok R1' ∧ PRel (fun _ => true) R1 R1' := by
  intro K
  induction K with
  | nil =>
    intro R R' R1 h hs
    simp only [restorerFoldFrom, Except.ok.injEq] at hs
    subst hs
    exact ⟨R', rfl, h⟩
  | cons x xs ih =>
    intro R R' R1 h hs
    simp only [restorerFoldFrom] at hs
    cases hx : restorerStep R x with
    | error e => simp [hx] at hs
    | ok R2 =>
      simp only [hx] at hs
      obtain ⟨R2', hs', hrel⟩ := prel_step h x (some x) (some_pruned x) hx
      obtain ⟨R1', hf, hr⟩ := ih R2 R2' R1 hrel hs
      exact ⟨R1', by simp only [restorerFoldFrom, hs']; exact hf, hr⟩

theorem restorerFoldFrom_append (J K : List Record) (R : Restorer) :
    restorerFoldFrom R (J ++ K) = match restorerFoldFrom R J with
      | .ok R1 => restorerFoldFrom R1 K
      | .error e => .error e := by
  induction J generalizing R with
  | nil => rfl
  | cons x xs ih =>
    simp only [List.cons_append, restorerFoldFrom]
    cases restorerStep R x with
    | error e => rfl
    | ok R2 => exact ih R2

/-- what C12 compares at the level of the restorer: every job entry (submits, open flag, per-task state and last
instance) up to crash counters, the allocation queues, the queue high-water mark, the uid -/
structure SameView (R R' : Restorer) : Prop where
  jobs : ∀ j, optEq (alGet R.jobs j) (alGet R'.jobs j)
  queues : R'.queues = R.queues
  maxQueue : R'.maxQueue = R.maxQueue
  uid : R'.uid = R.uid

theorem sameView_of_prel {live : Nat → Bool} {R R' : Restorer} (h : PRel live R R')
    (hl : ∀ j, (alGet R.jobs j).isSome = true → live j = true) : SameView R R' := by
  refine ⟨fun j => ?_, h.queues, h.maxQueue, h.uid⟩
  by_cases hj : live j = true
  · exact h.jobs j hj
  · have hj' : live j = false := by simpa using hj
    have h1 : alGet R.jobs j = none := by
      cases hg : alGet R.jobs j with
      | none => rfl
      | some _ => exact absurd (hl j (by simp [hg])) hj
    rw [h1, h.dead j hj']
    exact optEq_refl _

theorem prel_of_sameView {R R' : Restorer} (h : SameView R R') : PRel (fun _ => true) R R' :=
  ⟨fun j _ => h.jobs j, fun j hj => Bool.noConfusion hj, h.queues, h.maxQueue, h.uid⟩

theorem sameView_of_prel_all {R R' : Restorer} (h : PRel (fun _ => true) R R') : SameView R R' :=
  ⟨fun j => h.jobs j rfl, h.queues, h.maxQueue, h.uid⟩

end HqModel.Journal
