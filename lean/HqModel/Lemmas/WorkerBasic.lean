import HqModel.Worker.Contract
/-!
Basic facts about the worker model M2: a complete case analysis of `tryStart`, frame facts of the
`Acc`-level functions, and the two per-task predicates the "never launched again" properties rest on.
-/
namespace HqModel.Worker

/-- `o` is a launcher call for task `t` -/
def Out.isLaunchOf (t : Nat) : Out → Prop
  | .launch t' _ _ _ _ => t' = t
  | _ => False

instance (t : Nat) (o : Out) : Decidable (o.isLaunchOf t) := by
  cases o <;> simp only [Out.isLaunchOf] <;> infer_instance

/-- some launcher call for `t` occurs in `outs` -/
def launchedIn (outs : List Out) (t : Nat) : Prop := ∃ o ∈ outs, o.isLaunchOf t

instance (outs : List Out) (t : Nat) : Decidable (launchedIn outs t) := by
  unfold launchedIn; infer_instance

/-- the operation is a `ComputeTasks` that contains task `t` -/
def Op.mentions : Op → Nat → Prop
  | .compute es, t => t ∈ es.map (·.task.id)
  | _, _ => False

instance (op : Op) (t : Nat) : Decidable (op.mentions t) := by
  cases op <;> simp only [Op.mentions] <;> infer_instance

/-- `t` is in no backlog -/
def NoBacklog (t : Nat) (s : State) : Prop := ∀ rq, ∀ x ∈ s.backlog rq, x.id ≠ t

@[simp] theorem setBacklog_running (s : State) (rq l) : (setBacklog s rq l).running = s.running := rfl
@[simp] theorem setBacklog_live (s : State) (rq l) : (setBacklog s rq l).live = s.live := rfl
@[simp] theorem setBacklog_blocked (s : State) (rq l) : (setBacklog s rq l).blocked = s.blocked := rfl
@[simp] theorem setBacklog_bkeys (s : State) (rq l) : (setBacklog s rq l).bkeys = s.bkeys := rfl
@[simp] theorem setBacklog_rqs (s : State) (rq l) : (setBacklog s rq l).rqs = s.rqs := rfl
@[simp] theorem setBacklog_remaining (s : State) (rq l) : (setBacklog s rq l).remaining = s.remaining := rfl
@[simp] theorem setBacklog_backlog_same (s : State) (rq l) : (setBacklog s rq l).backlog rq = l := by
  simp [setBacklog]
theorem setBacklog_backlog (s : State) (rq l r) :
    (setBacklog s rq l).backlog r = if r = rq then l else s.backlog r := rfl

@[simp] theorem minTime_setBacklog (s : State) (rq l a b) : minTime (setBacklog s rq l) a b = minTime s a b := rfl
@[simp] theorem tooLate_setBacklog (s : State) (rq l m) : tooLate (setBacklog s rq l) m = tooLate s m := rfl
@[simp] theorem isRunning_setBacklog (s : State) (rq l t) : isRunning (setBacklog s rq l) t = isRunning s t := rfl

theorem isRunning_false_iff (s : State) (t : Nat) : isRunning s t = false ↔ ∀ r ∈ s.running, r.task.id ≠ t := by
  simp [isRunning]

/-- the state after a successful start -/
def started (s : State) (t : Task) (rv h : Nat) : State :=
  { s with running := s.running ++ [{ task := t, rv := rv, h := h }] }

/-- Complete case analysis of `try_start_task`. -/
theorem tryStart_cases {a a' : Acc} {t : Task} {rv h : Nat} {p c : Bool}
    (hs : tryStart a t rv p h = .ok (a', c)) :
    (∃ mt, minTime a.s t.rq rv = .ok mt) ∧
    ((c = false ∧ a'.s = a.s ∧ a'.ev = a.ev ∧ a'.upd = a.upd ++ [.reject t.id (some rv)]) ∨
     (c = false ∧ a'.s = a.s ∧ a'.ev = a.ev ++ [.launch t.id t.inst rv h false] ∧
        a'.upd = a.upd ++ [.failed t.id .launch]) ∨
     (c = true ∧ isRunning a.s t.id = false ∧ a'.s = started a.s t rv h ∧
        a'.ev = a.ev ++ [.launch t.id t.inst rv h true] ∧
        a'.upd = a.upd ++ [if p then .runningPrefilled t.id rv else .running t.id rv])) := by
  unfold tryStart at hs
  split at hs
  · cases hs
  · rename_i mt hmt
    refine ⟨⟨mt, hmt⟩, ?_⟩
    split at hs
    · cases hs; exact Or.inl ⟨rfl, rfl, rfl, rfl⟩
    · split at hs
      · cases hs; exact Or.inr (Or.inl ⟨rfl, rfl, rfl, rfl⟩)
      · split at hs
        · cases hs
        · rename_i hr
          cases hs
          exact Or.inr (Or.inr ⟨rfl, by simpa using hr, rfl, rfl, rfl⟩)

/-- `tryStart` can only stop with a panic, and only at the three sites. -/
theorem tryStart_error {a : Acc} {t : Task} {rv h : Nat} {p : Bool} {e : Stop}
    (hs : tryStart a t rv p h = .error e) :
    minTime a.s t.rq rv = .error e ∨ (e = .panic .runningDup ∧ isRunning a.s t.id = true) := by
  unfold tryStart at hs
  split at hs
  · rename_i e' he; cases hs; exact Or.inl he
  · split at hs
    · cases hs
    · split at hs
      · cases hs
      · split at hs
        · rename_i hr; cases hs; exact Or.inr ⟨rfl, hr⟩
        · cases hs

theorem minTime_error {s : State} {rq rv : Nat} {e : Stop} (h : minTime s rq rv = .error e) :
    e = .panic .rqUnknown ∨ e = .panic .rvUnknown := by
  unfold minTime at h
  split at h
  · cases h; exact Or.inl rfl
  · split at h
    · cases h; exact Or.inr rfl
    · cases h

theorem minTime_ok_iff {s : State} {rq rv : Nat} :
    (∃ mt, minTime s rq rv = .ok mt) ↔ ∃ vs, s.rqs[rq]? = some vs ∧ rv < vs.length := by
  unfold minTime
  constructor
  · rintro ⟨mt, h⟩
    split at h
    · cases h
    · rename_i vs hvs
      split at h
      · cases h
      · rename_i m hm
        exact ⟨vs, hvs, by
          rcases List.getElem?_eq_some_iff.mp hm with ⟨hlt, _⟩; exact hlt⟩
  · rintro ⟨vs, hvs, hlt⟩
    simp [hvs, List.getElem?_eq_getElem hlt]

end HqModel.Worker
