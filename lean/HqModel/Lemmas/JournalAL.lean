import HqModel.Journal.Model
/-! Association-list lemmas (`alGet`/`alSet`/`alDel`/`alMap`) and the elementwise relation `AlRel`. -/
namespace HqModel.Journal

theorem alGet_set_self (l : List (Nat × β)) (k : Nat) (v : β) : alGet (alSet l k v) k = some v := by
  induction l with
  | nil => simp [alSet, alGet]
  | cons a r ih =>
    obtain ⟨k', w⟩ := a
    by_cases h : k' = k <;> simp [alSet, alGet, h, ih]

theorem alGet_set_ne (l : List (Nat × β)) {k i : Nat} (v : β) (h : k ≠ i) : alGet (alSet l k v) i = alGet l i := by
  induction l with
  | nil => simp [alSet, alGet, h]
  | cons a r ih =>
    obtain ⟨k', w⟩ := a
    by_cases h1 : k' = k
    · subst h1; simp [alSet, alGet, h]
    · by_cases h2 : k' = i
      · subst h2; simp [alSet, alGet, h1]
      · simp [alSet, alGet, h1, h2, ih]

theorem alGet_set (l : List (Nat × β)) (k i : Nat) (v : β) :
    alGet (alSet l k v) i = if k = i then some v else alGet l i := by
  by_cases h : k = i
  · subst h; simp [alGet_set_self]
  · simp [h, alGet_set_ne l v h]

theorem alGet_del (l : List (Nat × β)) (k i : Nat) : alGet (alDel l k) i = if k = i then none else alGet l i := by
  induction l with
  | nil => simp [alDel, alGet]
  | cons a r ih =>
    obtain ⟨k', w⟩ := a
    by_cases h1 : k' = k
    · subst h1
      by_cases h2 : k' = i
      · subst h2; simpa [alDel, alGet] using ih
      · simp [alDel, alGet, h2, ih]
    · by_cases h2 : k' = i
      · subst h2
        have : ¬ k = k' := fun h => h1 h.symm
        simp [alDel, alGet, h1, this]
      · simp [alDel, alGet, h1, h2, ih]

theorem alGet_map (f : β → γ) (l : List (Nat × β)) (i : Nat) : alGet (alMap f l) i = (alGet l i).map f := by
  induction l with
  | nil => simp [alMap, alGet]
  | cons a r ih =>
    obtain ⟨k', w⟩ := a
    by_cases h : k' = i
    · simp [alMap, alGet, h]
    · simp only [alMap] at ih
      simp [alMap, alGet, h, ih]

theorem alGet_isSome_iff (l : List (Nat × β)) (i : Nat) : (alGet l i).isSome ↔ i ∈ l.map (·.1) := by
  induction l with
  | nil => simp [alGet]
  | cons a r ih =>
    obtain ⟨k', w⟩ := a
    by_cases h : k' = i
    · simp [alGet, h]
    · have : ¬ i = k' := fun h' => h h'.symm
      simp [alGet, h, ih, this]

/-- two association lists with the same keys in the same order and `P`-related values -/
inductive AlRel (P : β → γ → Prop) : List (Nat × β) → List (Nat × γ) → Prop
  | nil : AlRel P [] []
  | cons {k : Nat} {b : β} {c : γ} {l : List (Nat × β)} {m : List (Nat × γ)} :
      P b c → AlRel P l m → AlRel P ((k, b) :: l) ((k, c) :: m)

theorem AlRel.get {P : β → γ → Prop} {l : List (Nat × β)} {m : List (Nat × γ)} (h : AlRel P l m) (i : Nat) :
    (alGet l i = none ∧ alGet m i = none) ∨ ∃ b c, alGet l i = some b ∧ alGet m i = some c ∧ P b c := by
  induction h with
  | nil => simp [alGet]
  | @cons k b c l m hp _ ih =>
    by_cases hk : k = i
    · exact Or.inr ⟨b, c, by simp [alGet, hk], by simp [alGet, hk], hp⟩
    · simpa [alGet, hk] using ih

theorem AlRel.set {P : β → γ → Prop} {l : List (Nat × β)} {m : List (Nat × γ)} (h : AlRel P l m) (i : Nat)
    {b : β} {c : γ} (hp : P b c) : AlRel P (alSet l i b) (alSet m i c) := by
  induction h with
  | nil => exact .cons hp .nil
  | @cons k b' c' l m hp' hr ih =>
    by_cases hk : k = i
    · simpa [alSet, hk] using AlRel.cons hp hr
    · simpa [alSet, hk] using AlRel.cons hp' ih

theorem AlRel.del {P : β → γ → Prop} {l : List (Nat × β)} {m : List (Nat × γ)} (h : AlRel P l m) (i : Nat) :
    AlRel P (alDel l i) (alDel m i) := by
  induction h with
  | nil => exact .nil
  | @cons k b' c' l m hp' hr ih =>
    by_cases hk : k = i
    · simpa [alDel, hk] using ih
    · simpa [alDel, hk] using AlRel.cons hp' ih

theorem AlRel.map {P : β → γ → Prop} {Q : β' → γ' → Prop} {l : List (Nat × β)} {m : List (Nat × γ)}
    (h : AlRel P l m) (f : β → β') (g : γ → γ') (hfg : ∀ b c, P b c → Q (f b) (g c)) :
    AlRel Q (alMap f l) (alMap g m) := by
  induction h with
  | nil => exact .nil
  | @cons k b' c' l m hp' hr ih => exact .cons (hfg _ _ hp') ih

theorem AlRel.keys {P : β → γ → Prop} {l : List (Nat × β)} {m : List (Nat × γ)} (h : AlRel P l m) :
    l.map (·.1) = m.map (·.1) := by
  induction h with
  | nil => rfl
  | cons _ _ ih => simp [ih]

end HqModel.Journal
