import HqModel.Lemmas.CoreNoPanicBase
/-!
C09 progress for the core model: **preservation of `NpDeps U s`** (dependency registration), part 1:
vocabulary, generic lemmas, the functions of `Model.lean`.

## STATUS (files `CoreNoPanicDeps.lean`, `…Deps2`, `…Deps3`, `…Deps4`; everything in namespace `HqModel.Core.NPB`,
## dot-lemmas on `NpDeps` in `HqModel.Core.NpDeps.*`). ALL DONE, no `sorry`; nothing known to be missing.

Method: `sk t = (t.id, t.consumers, t.deps)` is all `NpDeps` reads of a record. `DS s s'` ("same dependency skeleton":
every record of `s'` has the skeleton of a record of `s`, every lookup has the same skeleton) is a preorder and
`NpDeps.of_ds : NpDeps U s → DS s s' → NpDeps U s'`. Every function except `removeTask`/`registerDeps` and their
callers is `DS` WITHOUT ANY side hypothesis (not even unique ids). For each function `f` there is `f_ds` (where it
holds) and `f_npdeps`. grind rules for `DS` are `scoped` (namespace `NPB`).

### generic (this file)
* `sk_eq`, `DSim.refl/trans/find_some/find_isSome/put`, `DS.refl/trans/of_tasks/setTask/set/setState/of_mk/ask/setWorker`
* `NpDeps.of_ds     : NpDeps U s → DS s s' → NpDeps U s'`
* `NpDeps.of_tasks_eq : NpDeps U s → s'.tasks = s.tasks → NpDeps U s'`
* `NpDeps.put       : NpDeps U s → (∀ told, s.task? t'.id = some told → t'.id = told.id ∧ t'.consumers = told.consumers ∧
                       t'.deps = told.deps) → NpDeps U (s.setTask t')`
* `NpDeps.mono_U    : NpDeps U s → (∀ x ∈ U, x ∈ U') → NpDeps U' s`
### Model.lean (this file) — hypotheses: only `NpDeps U s` and the `= .ok` equation
* `addReady_npdeps`, `queueRemove_npdeps`, `removePrefilled_npdeps`, `movePrefilledToReady_npdeps`, `withWorker_npdeps`,
  `tryRemoveRedirection_npdeps`, `processRetracted_npdeps` (general accumulator), `retract_npdeps` (+ `*_ds`)
### `remove_task` (this file)
* `NpX U id L ts` — the weakened invariant while `id` is erased and (at most) the tasks `L` still list it
  (contains unique ids and Nodup consumer lists); `NpX.mono`, `NpX.of_erase`, `NpX.done : NpX U id [] ts → NpDeps U {s with tasks := ts}`
* `removeConsumer_npx  : NpX U id (d :: L) ts → removeConsumer ts d id = .ok ts' → NpX U id L ts'`
* `removeConsumers_npx : NpX U id (deps ++ L) ts → removeConsumers ts id deps = .ok ts' → NpX U id L ts'`
  (`removeConsumer(s)` alone do NOT preserve `NpDeps` — they break `reg` for the consumer — hence `NpX`)
* `removeTask_npdeps   : NpDeps U s → (taskIds s.tasks).Nodup → (∀ t ∈ s.tasks, t.consumers.Nodup) →
     (∀ task, s.task? id = some task → (∀ n, task.state ≠ .waiting (n+1)) → ∀ dt ∈ s.tasks, id ∈ dt.consumers → dt.id = id) →
     s.removeTask id = .ok (s', st) → NpDeps U s'`
* `removeTask_npdeps_q : NpDeps U s → QInv U f pend s → (f = none ∨ f = some id) → s.removeTask id = .ok (s', st) → NpDeps U s'`
### Reactor.lean, part 1 (`CoreNoPanicDeps2.lean`)
* no extra hyp: `newWorker_npdeps`, `newRq_npdeps`, `resetMnAll_npdeps`, `resetMnChecked_npdeps`, `cancelLoop_npdeps`
* `RegD id ts deps ts' kept`, `registerDeps_d : RegD id ts deps (registerDeps ts id deps).1 (registerDeps ts id deps).2.1`
  (ids equal, `kept` sublist of `deps`, `kept` = the deps that are in the map, exactly the kept records get `id` appended)
* `NpDeps.new_task` (one appended record), `addNewTasks_cons_eq`, `addNewTasks_cons`
* `addNewTasks_one_npdeps : NpDeps U s → QInv U none [] s → nt.id ∉ U → nt.deps.Nodup → s.addNewTasks [nt] r = .ok (s', r') →
     NpDeps (U ++ [nt.id]) s'`
* `addNewTasks_npdeps : NpDeps U s → QInv U none [] s → (∀ nt ∈ nts, nt.id ∉ U) → (nts.map (·.id)).Nodup →
     (∀ nt ∈ nts, nt.deps.Nodup) → s.addNewTasks nts r = .ok (s', r') → NpDeps (U ++ nts.map (·.id)) s'`
* `newTasks_npdeps` : the same with `NewTasksOk s nts` and `s.newTasks nts = .ok (s', o)`
* hyp `QInv U none pend s`: `removeTasksBatched_npdeps`, `cancelTasks_npdeps`, `removeWaitingAll_npdeps`, `taskFailed_npdeps`
  (+ `taskFailed_pre`: decomposition of `task_failed` into its stages)
### Reactor.lean, part 2 (`CoreNoPanicDeps3.lean`)
* no extra hyp: `taskRunning_npdeps`, `taskReject_npdeps`, `requestEnabled_npdeps`, `wakeConsumers_npdeps`, `retractLoop_npdeps`,
  `retractResponse_npdeps`, `lostPrefilled_npdeps`, `lostAssigned_npdeps`, `lostRetracting_npdeps`
* hyp `QInv U none [] s`: `taskFinished_npdeps`, `updateState_npdeps` (+ `updateState_safeN`), `updateLoop_npdeps`, `taskUpdate_npdeps`
* hyp `QInv U none pend s`: `crashLoop_npdeps`
* `removeWorker_pre` (hyp `Inv s`: everything before the crash loop is `Safe` and `DS`),
  `removeWorker_npdeps : NpDeps U s → Inv s → QInv U none pend s → s.removeWorker … = .ok (s', o) → NpDeps U s'`
### Sched.lean and the step (`CoreNoPanicDeps4.lean`) — no extra hyp
* `placeSn_npdeps`, `placeAll_npdeps`, `mapSn_npdeps`, `setMnAll_npdeps`, `mapMnSets_npdeps`, `mapMn_npdeps`, `prefillBack_npdeps`,
  `prefillMark_npdeps`, `prefillWorker_npdeps`, `prefillWorkers_npdeps`, `proactive_npdeps`, `schedule_npdeps`, `npdeps_init`
* **`step_npdeps : InvF s → QInv U none [] s → NpDeps U s → OpNP s op → (∀ x ∈ op.newIds, x ∉ U) → op.newIds.Nodup →
     step s op = .ok (s', out) → NpDeps (U ++ op.newIds) s'`** (`InvF` is used only for `removeWorker`, `OpNP` only for `newTasks`)

### NOT done
Nothing. No clause of `NpDeps` was found to be non-inductive.
-/
namespace HqModel.Core.NPB

/-! ### the skeleton relation -/

/-- the part of a task record that `NpDeps` reads -/
def sk (t : Task) : TaskId × List TaskId × List TaskId := (t.id, t.consumers, t.deps)

theorem sk_eq {a b : Task} : sk a = sk b ↔ a.id = b.id ∧ a.consumers = b.consumers ∧ a.deps = b.deps := by
  simp [sk]

/-- same dependency skeleton -/
structure DSim (ts ts' : List Task) : Prop where
  mem : ∀ t' ∈ ts', ∃ t ∈ ts, sk t' = sk t
  find : ∀ x, (findTask ts' x).map sk = (findTask ts x).map sk

theorem DSim.refl (ts : List Task) : DSim ts ts := ⟨fun t h => ⟨t, h, rfl⟩, fun _ => rfl⟩

theorem DSim.trans {a b c : List Task} (h1 : DSim a b) (h2 : DSim b c) : DSim a c := by
  refine ⟨fun t'' h => ?_, fun x => (h2.find x).trans (h1.find x)⟩
  obtain ⟨t', ht', e2⟩ := h2.mem t'' h
  obtain ⟨t, ht, e1⟩ := h1.mem t' ht'
  exact ⟨t, ht, e2.trans e1⟩

theorem DSim.find_some {ts ts' : List Task} (d : DSim ts ts') {x : TaskId} {t' : Task}
    (h : findTask ts' x = some t') : ∃ t, findTask ts x = some t ∧ sk t' = sk t := by
  have := d.find x
  rw [h] at this
  cases hf : findTask ts x with
  | none => rw [hf] at this; simp at this
  | some t =>
    rw [hf] at this
    simp only [Option.map_some, Option.some.injEq] at this
    exact ⟨t, rfl, this⟩

theorem DSim.find_isSome {ts ts' : List Task} (d : DSim ts ts') (x : TaskId) :
    (findTask ts' x).isSome = (findTask ts x).isSome := by
  have := congrArg Option.isSome (d.find x)
  simpa using this

/-- a record with id `t'.id` is in `ts` when `t'` is in `putTask ts t'` -/
theorem find_of_mem_putTask {ts : List Task} {t' : Task} (h : t' ∈ putTask ts t') :
    ∃ told, findTask ts t'.id = some told := by
  cases hf : findTask ts t'.id with
  | some told => exact ⟨told, rfl⟩
  | none =>
    exfalso
    have h1 := not_mem_of_findTask_none hf
    rw [← taskIds_putTask ts t'] at h1
    exact h1 (List.mem_map_of_mem (f := (·.id)) h)

theorem mem_putTask' {ts : List Task} {t x : Task} (h : x ∈ putTask ts t) : x = t ∨ (x ∈ ts ∧ x.id ≠ t.id) := by
  by_cases e : x.id = t.id
  · exact Or.inl (mem_putTask_id h e)
  · rcases mem_putTask h with h1 | h1
    · exact Or.inl h1
    · exact Or.inr ⟨h1, e⟩

/-- replacing the record found under `t'.id` by a record with the same skeleton -/
theorem DSim.put {ts : List Task} {t' : Task} (hf : ∀ told, findTask ts t'.id = some told → sk t' = sk told) :
    DSim ts (putTask ts t') := by
  refine ⟨fun x hx => ?_, fun x => ?_⟩
  · rcases mem_putTask hx with e | e
    · subst e
      obtain ⟨told, ht⟩ := find_of_mem_putTask hx
      exact ⟨told, findTask_some_mem ht, hf told ht⟩
    · exact ⟨x, e, rfl⟩
  · rw [findTask_putTask]
    split
    · rename_i e
      subst e
      cases ht : findTask ts t'.id with
      | none => rfl
      | some told => simp only [Option.map_some]; rw [hf told ht]
    · rfl

/-- same dependency skeleton, for states -/
def DS (s s' : State) : Prop := DSim s.tasks s'.tasks

theorem DS.refl (s : State) : DS s s := DSim.refl _
theorem DS.trans {a b c : State} (h1 : DS a b) (h2 : DS b c) : DS a c := DSim.trans h1 h2

theorem DS.of_tasks {s s' : State} (h : s'.tasks = s.tasks) : DS s s' := by
  unfold DS; rw [h]; exact DSim.refl _

theorem DS.setTask {s : State} {t' : Task} (hf : ∀ told, s.task? t'.id = some told → sk t' = sk told) :
    DS s (s.setTask t') := DSim.put hf

/-- `setTask` on a state with the same task list as `a` -/
theorem DS.set {a s : State} {t' : Task} (hts : s.tasks = a.tasks)
    (hf : ∀ told, a.task? t'.id = some told → sk t' = sk told) : DS a (s.setTask t') := by
  show DSim a.tasks (putTask s.tasks t')
  rw [hts]; exact DSim.put hf

/-- only state / request / priority / crash limit / instance id / crash counter of the found record change -/
theorem DS.setState {s : State} {told : Task} {st : TS} {rq : Nat} {prio : Int} {cl : CrashLimit} {inst crashes : Nat}
    (hf : findTask s.tasks told.id = some told) :
    DS s (s.setTask ⟨told.id, st, told.consumers, told.deps, rq, prio, cl, inst, crashes⟩) := by
  refine DS.setTask fun t0 h0 => ?_
  have : some t0 = some told := h0.symm.trans hf
  cases this
  rfl

theorem DS.of_mk (s : State) (ws : List Worker) (rqs : List Rqv) (qs : List Queue) (rd : List (TaskId × Nat × Nat))
    (ns : Bool) (pr pm : Nat) : DS s ⟨s.tasks, ws, rqs, qs, rd, ns, pr, pm⟩ := DS.of_tasks rfl

theorem DS.ask (s : State) : DS s (ask s) := DS.of_tasks rfl
theorem DS.setWorker (s : State) (w : Worker) : DS s (s.setWorker w) := DS.of_tasks rfl

/-! ### `NpDeps` along the relation -/

theorem _root_.HqModel.Core.NpDeps.of_ds {U : List TaskId} {s s' : State} (h : NpDeps U s) (d : DS s s') :
    NpDeps U s' := by
  have hm : ∀ t' ∈ s'.tasks, ∃ t ∈ s.tasks, t'.id = t.id ∧ t'.consumers = t.consumers ∧ t'.deps = t.deps := by
    intro t' ht'
    obtain ⟨t, ht, e⟩ := d.mem t' ht'
    exact ⟨t, ht, sk_eq.mp e⟩
  have hf : ∀ x t', s'.task? x = some t' →
      ∃ t, s.task? x = some t ∧ t'.id = t.id ∧ t'.consumers = t.consumers ∧ t'.deps = t.deps := by
    intro x t' hx
    obtain ⟨t, ht, e⟩ := d.find_some hx
    exact ⟨t, ht, sk_eq.mp e⟩
  refine ⟨?_, ?_, ?_, ?_, ?_⟩
  · intro t' ht' c hc
    obtain ⟨t, ht, _, e2, _⟩ := hm t' ht'
    have := h.cin t ht c (e2 ▸ hc)
    show (findTask s'.tasks c).isSome = true
    rw [d.find_isSome c]; exact this
  · intro t' ht' c hc ct' hct'
    obtain ⟨t, ht, e1, e2, _⟩ := hm t' ht'
    obtain ⟨ct, hct, _, _, f3⟩ := hf c ct' hct'
    rw [e1, f3]
    exact h.cdep t ht c (e2 ▸ hc) ct hct
  · intro ct' hct' x hx dt' hdt'
    obtain ⟨ct, hct, e1, _, e3⟩ := hm ct' hct'
    obtain ⟨dt, hdt, _, f2, _⟩ := hf x dt' hdt'
    rw [e1, f2]
    exact h.reg ct hct x (e3 ▸ hx) dt hdt
  · intro t' ht'
    obtain ⟨t, ht, _, _, e3⟩ := hm t' ht'
    rw [e3]; exact h.dnd t ht
  · intro t' ht' x hx
    obtain ⟨t, ht, _, _, e3⟩ := hm t' ht'
    exact h.uD t ht x (e3 ▸ hx)

theorem _root_.HqModel.Core.NpDeps.of_tasks_eq {U : List TaskId} {s s' : State} (h : NpDeps U s)
    (e : s'.tasks = s.tasks) : NpDeps U s' := h.of_ds (DS.of_tasks e)

/-- a `putTask` that keeps `id`, `consumers`, `deps` of the record it replaces -/
theorem _root_.HqModel.Core.NpDeps.put {U : List TaskId} {s : State} {t' : Task} (h : NpDeps U s)
    (hf : ∀ told, s.task? t'.id = some told →
      t'.id = told.id ∧ t'.consumers = told.consumers ∧ t'.deps = told.deps) : NpDeps U (s.setTask t') :=
  h.of_ds (DS.setTask fun told ht => sk_eq.mpr (hf told ht))

theorem _root_.HqModel.Core.NpDeps.mono_U {U U' : List TaskId} {s : State} (h : NpDeps U s)
    (hu : ∀ x ∈ U, x ∈ U') : NpDeps U' s :=
  ⟨h.cin, h.cdep, h.reg, h.dnd, fun t ht d hd => hu d (h.uD t ht d hd)⟩

/-! ### `Model.lean`: functions that do not touch the skeleton -/

theorem addReady_ds {s s' : State} {t : Task} {r : List TaskId} (h : s.addReady t = .ok (s', r)) : DS s s' :=
  DS.of_tasks (addReady_tasks h)

theorem queueRemove_ds {s s' : State} {rq : Nat} {t : TaskId} {p : Int} (h : s.queueRemove rq t p = .ok s') :
    DS s s' := DS.of_tasks (queueRemove_tasks h)

theorem removePrefilled_ds {s s' : State} {rq : Nat} {t : TaskId} (h : s.removePrefilled rq t = .ok s') : DS s s' :=
  DS.of_tasks (removePrefilled_tasks h)

theorem movePrefilledToReady_ds {s s' : State} {rq : Nat} {t : TaskId} (h : s.movePrefilledToReady rq t = .ok s') :
    DS s s' := DS.of_tasks (movePrefilledToReady_tasks h)

theorem withWorker_ds {s s' : State} {w : Nat} {g : Worker → M Worker} (h : s.withWorker w g = .ok s') : DS s s' :=
  DS.of_tasks (withWorker_tasks h)

theorem tryRemoveRedirection_ds {s s' : State} {t : TaskId} {rq : Nat} (h : s.tryRemoveRedirection t rq = .ok s') :
    DS s s' := DS.of_tasks (tryRemoveRedirection_tasks h)

theorem processRetracted_ds (l : List TaskId) (s s' : State) (acc acc' : List (Nat × TaskId))
    (h : s.processRetracted l acc = .ok (s', acc')) : DS s s' := by
  induction l generalizing s acc with
  | nil => simp only [State.processRetracted] at h; cases h; exact DS.refl _
  | cons t rest ih =>
    simp only [State.processRetracted] at h
    split at h
    · cases h
    · rename_i task hg
      have ht := getTask_spec hg
      split at h
      · rename_i w hs
        split at h
        · cases h
        · rename_i s1 hw
          refine DS.trans ?_ (ih _ _ h)
          refine DS.set (withWorker_tasks hw) fun told h0 => ?_
          have hid : task.id = t := findTask_some_id ht
          have : some told = some task := by
            rw [← h0]; show findTask s.tasks task.id = _; rw [hid]; exact ht
          cases this
          rfl
      · cases h

theorem retract_ds {s s' : State} {l : List TaskId} {o : Out} (h : s.retract l = .ok (s', o)) : DS s s' := by
  simp only [State.retract] at h
  split at h
  · cases h
  · rename_i s1 pairs hp
    cases h
    exact processRetracted_ds _ _ _ _ _ hp

section
variable {U : List TaskId} {s s' : State}

theorem addReady_npdeps {t : Task} {r : List TaskId} (h : NpDeps U s) (heq : s.addReady t = .ok (s', r)) :
    NpDeps U s' := h.of_ds (addReady_ds heq)

theorem queueRemove_npdeps {rq : Nat} {t : TaskId} {p : Int} (h : NpDeps U s)
    (heq : s.queueRemove rq t p = .ok s') : NpDeps U s' := h.of_ds (queueRemove_ds heq)

theorem removePrefilled_npdeps {rq : Nat} {t : TaskId} (h : NpDeps U s) (heq : s.removePrefilled rq t = .ok s') :
    NpDeps U s' := h.of_ds (removePrefilled_ds heq)

theorem movePrefilledToReady_npdeps {rq : Nat} {t : TaskId} (h : NpDeps U s)
    (heq : s.movePrefilledToReady rq t = .ok s') : NpDeps U s' := h.of_ds (movePrefilledToReady_ds heq)

theorem withWorker_npdeps {w : Nat} {g : Worker → M Worker} (h : NpDeps U s) (heq : s.withWorker w g = .ok s') :
    NpDeps U s' := h.of_ds (withWorker_ds heq)

theorem tryRemoveRedirection_npdeps {t : TaskId} {rq : Nat} (h : NpDeps U s)
    (heq : s.tryRemoveRedirection t rq = .ok s') : NpDeps U s' := h.of_ds (tryRemoveRedirection_ds heq)

theorem processRetracted_npdeps {l : List TaskId} {acc acc' : List (Nat × TaskId)} (h : NpDeps U s)
    (heq : s.processRetracted l acc = .ok (s', acc')) : NpDeps U s' := h.of_ds (processRetracted_ds _ _ _ _ _ heq)

theorem retract_npdeps {l : List TaskId} {o : Out} (h : NpDeps U s) (heq : s.retract l = .ok (s', o)) :
    NpDeps U s' := h.of_ds (retract_ds heq)

end

/-! ### `remove_task` -/

/-- the invariant while `id` is erased from the map and (at most) the tasks `L` still list it -/
structure NpX (U : List TaskId) (id : TaskId) (L : List TaskId) (ts : List Task) : Prop where
  nd : (taskIds ts).Nodup
  cnd : ∀ t ∈ ts, t.consumers.Nodup
  nin : findTask ts id = none
  cin : ∀ t ∈ ts, ∀ c ∈ t.consumers, c ≠ id → (findTask ts c).isSome = true
  lis : ∀ t ∈ ts, id ∈ t.consumers → t.id ∈ L
  cdep : ∀ t ∈ ts, ∀ c ∈ t.consumers, ∀ ct, findTask ts c = some ct → t.id ∈ ct.deps
  reg : ∀ ct ∈ ts, ∀ d ∈ ct.deps, ∀ dt, findTask ts d = some dt → ct.id ∈ dt.consumers
  dnd : ∀ t ∈ ts, t.deps.Nodup
  uD : ∀ t ∈ ts, ∀ d ∈ t.deps, d ∈ U

theorem NpX.mono {U id L L' ts} (h : NpX U id L ts) (hl : ∀ x ∈ L, x ∈ L') : NpX U id L' ts :=
  ⟨h.nd, h.cnd, h.nin, h.cin, fun t ht hc => hl _ (h.lis t ht hc), h.cdep, h.reg, h.dnd, h.uD⟩

/-- nobody lists `id` any more -/
theorem NpX.done {U id ts} {s : State} (h : NpX U id [] ts) : NpDeps U { s with tasks := ts } := by
  refine ⟨?_, h.cdep, h.reg, h.dnd, h.uD⟩
  intro t ht c hc
  refine h.cin t ht c hc ?_
  intro e
  subst e
  have := h.lis t ht hc
  cases this

theorem not_mem_eraseTask_id {ts : List Task} (hn : (taskIds ts).Nodup) {id : TaskId} {t : Task}
    (ht : t ∈ eraseTask ts id) : t.id ≠ id := by
  intro e
  have hn' : (taskIds (eraseTask ts id)).Nodup := List.Sublist.nodup (taskIds_eraseTask_sublist ts id) hn
  have := mem_find_of_nodup hn' ht
  rw [findTask_eraseTask hn, if_pos e] at this
  cases this

/-- the record is erased; every other lister of `id` is in `L` -/
theorem NpX.of_erase {U : List TaskId} {s : State} {id : TaskId} {L : List TaskId} (h : NpDeps U s)
    (hn : (taskIds s.tasks).Nodup) (hc : ∀ t ∈ s.tasks, t.consumers.Nodup)
    (hl : ∀ dt ∈ s.tasks, id ∈ dt.consumers → dt.id = id ∨ dt.id ∈ L) : NpX U id L (eraseTask s.tasks id) := by
  have hfind : ∀ c t, findTask (eraseTask s.tasks id) c = some t → findTask s.tasks c = some t := by
    intro c t hc
    rw [findTask_eraseTask hn] at hc
    split at hc
    · cases hc
    · exact hc
  refine ⟨List.Sublist.nodup (taskIds_eraseTask_sublist _ id) hn, fun t ht => hc t (mem_eraseTask ht),
    findTask_eraseTask_self hn, ?_, ?_, ?_, ?_, fun t ht => h.dnd t (mem_eraseTask ht),
    fun t ht => h.uD t (mem_eraseTask ht)⟩
  · intro t ht c hcm hne
    have := h.cin t (mem_eraseTask ht) c hcm
    rw [findTask_eraseTask hn, if_neg hne]
    exact this
  · intro t ht hcm
    rcases hl t (mem_eraseTask ht) hcm with e | e
    · exact absurd e (not_mem_eraseTask_id hn ht)
    · exact e
  · intro t ht c hcm ct hct
    exact h.cdep t (mem_eraseTask ht) c hcm ct (hfind c ct hct)
  · intro ct hct d hd dt hdt
    exact h.reg ct (mem_eraseTask hct) d hd dt (hfind d dt hdt)

/-- one dependency is unregistered -/
theorem removeConsumer_npx {U : List TaskId} {id d : TaskId} {L : List TaskId} {ts ts' : List Task}
    (h : NpX U id (d :: L) ts) (heq : removeConsumer ts d id = .ok ts') : NpX U id L ts' := by
  simp only [removeConsumer] at heq
  split at heq
  · -- the dependency is not in the map
    rename_i hd
    cases heq
    refine ⟨h.nd, h.cnd, h.nin, h.cin, ?_, h.cdep, h.reg, h.dnd, h.uD⟩
    intro t ht hc
    rcases List.mem_cons.mp (h.lis t ht hc) with e | e
    · exfalso
      exact not_mem_of_findTask_none hd (e ▸ List.mem_map_of_mem (f := (·.id)) ht)
    · exact e
  · rename_i dt hd
    split at heq
    · cases heq
    · cases heq
      have hid : dt.id = d := findTask_some_id hd
      have hdm : dt ∈ ts := findTask_some_mem hd
      generalize hnew : ({ dt with consumers := dt.consumers.erase id } : Task) = new
      have nid : new.id = d := by rw [← hnew]; exact hid
      have ndeps : new.deps = dt.deps := by rw [← hnew]
      have ncons : new.consumers = dt.consumers.erase id := by rw [← hnew]
      have hne : id ≠ d := by
        intro e
        have := h.nin
        rw [e, hd] at this
        cases this
      -- members and lookups of the new list
      have F1 : ∀ x ∈ putTask ts new, ∃ x0 ∈ ts, x.id = x0.id ∧ x.deps = x0.deps ∧
          (∀ c ∈ x.consumers, c ∈ x0.consumers) ∧ (x0.consumers.Nodup → x.consumers.Nodup) ∧
          (id ∈ x.consumers → x0.id ≠ d ∧ id ∈ x0.consumers) := by
        intro x hx
        rcases mem_putTask' hx with e | ⟨e1, e2⟩
        · subst e
          refine ⟨dt, hdm, nid.trans hid.symm, ndeps, ?_, ?_, ?_⟩
          · intro c hc; rw [ncons] at hc; exact List.mem_of_mem_erase hc
          · intro hh; rw [ncons]; exact hh.erase id
          · intro hh
            rw [ncons, (h.cnd dt hdm).mem_erase_iff] at hh
            exact absurd rfl hh.1
        · exact ⟨x, e1, rfl, rfl, fun _ hc => hc, fun hh => hh, fun hh => ⟨by rw [← nid]; exact e2, hh⟩⟩
      have F2 : ∀ x, findTask (putTask ts new) x = if x = d then some new else findTask ts x := by
        intro x
        rw [findTask_putTask, nid]
        split
        · rename_i e; rw [e, hd]; rfl
        · rfl
      have F3 : ∀ x, (findTask ts x).isSome = true → (findTask (putTask ts new) x).isSome = true := by
        intro x hx
        rw [F2]
        split
        · rfl
        · exact hx
      refine ⟨by rw [taskIds_putTask]; exact h.nd, ?_, ?_, ?_, ?_, ?_, ?_, ?_, ?_⟩
      · intro x hx
        obtain ⟨x0, hx0, _, _, _, e4, _⟩ := F1 x hx
        exact e4 (h.cnd x0 hx0)
      · rw [F2, if_neg hne]; exact h.nin
      · intro x hx c hc hcne
        obtain ⟨x0, hx0, _, _, e3, _⟩ := F1 x hx
        exact F3 c (h.cin x0 hx0 c (e3 c hc) hcne)
      · intro x hx hc
        obtain ⟨x0, hx0, e1, _, _, _, e5⟩ := F1 x hx
        obtain ⟨a, b⟩ := e5 hc
        rcases List.mem_cons.mp (h.lis x0 hx0 b) with e | e
        · exact absurd e a
        · rw [e1]; exact e
      · intro x hx c hc ct hct
        obtain ⟨x0, hx0, e1, _, e3, _⟩ := F1 x hx
        rw [F2] at hct
        rw [e1]
        split at hct
        · rename_i e
          cases hct
          rw [ndeps]
          exact h.cdep x0 hx0 c (e3 c hc) dt (e ▸ hd)
        · exact h.cdep x0 hx0 c (e3 c hc) ct hct
      · intro ct hct x hx dtx hdtx
        obtain ⟨ct0, hct0, e1, e2, _⟩ := F1 ct hct
        rw [F2] at hdtx
        rw [e1]
        split at hdtx
        · rename_i e
          cases hdtx
          rw [ncons]
          have hin : ct0.id ∈ dt.consumers := h.reg ct0 hct0 x (e2 ▸ hx) dt (e ▸ hd)
          have hne2 : ct0.id ≠ id := by
            intro e'
            exact not_mem_of_findTask_none h.nin (e' ▸ List.mem_map_of_mem (f := (·.id)) hct0)
          exact (List.mem_erase_of_ne hne2).mpr hin
        · exact h.reg ct0 hct0 x (e2 ▸ hx) dtx hdtx
      · intro x hx
        obtain ⟨x0, hx0, _, e2, _⟩ := F1 x hx
        rw [e2]; exact h.dnd x0 hx0
      · intro x hx y hy
        obtain ⟨x0, hx0, _, e2, _⟩ := F1 x hx
        exact h.uD x0 hx0 y (e2 ▸ hy)

theorem removeConsumers_npx {U : List TaskId} {id : TaskId} (deps : List TaskId) {L : List TaskId}
    (ts ts' : List Task) (h : NpX U id (deps ++ L) ts) (heq : removeConsumers ts id deps = .ok ts') :
    NpX U id L ts' := by
  induction deps generalizing ts with
  | nil => simp only [removeConsumers] at heq; cases heq; simpa using h
  | cons d rest ih =>
    simp only [removeConsumers] at heq
    split at heq
    · cases heq
    · rename_i ts1 h1
      exact ih _ (removeConsumer_npx (L := rest ++ L) (by simpa using h) h1) heq

/-- **`Core::remove_task`**. `hl`: a task that is not `Waiting (n+1)` is listed by nobody (but possibly itself). -/
theorem removeTask_npdeps {U : List TaskId} {s s' : State} {id : TaskId} {st : TS} (h : NpDeps U s)
    (hn : (taskIds s.tasks).Nodup) (hc : ∀ t ∈ s.tasks, t.consumers.Nodup)
    (hl : ∀ task, s.task? id = some task → (∀ n, task.state ≠ .waiting (n + 1)) →
      ∀ dt ∈ s.tasks, id ∈ dt.consumers → dt.id = id)
    (heq : s.removeTask id = .ok (s', st)) : NpDeps U s' := by
  simp only [State.removeTask] at heq
  split at heq
  · cases heq
  · rename_i task ht
    have hx0 : (∀ n, task.state ≠ .waiting (n + 1)) → NpX U id [] (eraseTask s.tasks id) := fun hw =>
      NpX.of_erase h hn hc fun dt hdt hcm => Or.inl (hl task ht hw dt hdt hcm)
    split at heq
    · rename_i n hs
      split at heq
      · cases heq
      · rename_i s1 hq
        have hs1 : s1.tasks = eraseTask s.tasks id := queueRemove_tasks hq
        split at heq
        · rename_i hpos
          split at heq
          · cases heq
          · rename_i ts hrc
            cases heq
            rw [hs1] at hrc
            have hx : NpX U id (task.deps ++ []) (eraseTask s.tasks id) := by
              refine NpX.of_erase h hn hc fun dt hdt hcm => Or.inr ?_
              simpa using h.cdep dt hdt id hcm task ht
            exact (removeConsumers_npx _ _ _ hx hrc).done
        · rename_i hpos
          have : NpDeps U { s1 with tasks := eraseTask s.tasks id } :=
            (hx0 (fun m e => hpos (by rw [hs] at e; cases e; omega))).done
          rw [← hs1] at this
          cases heq
          exact this
    · rename_i w hs
      split at heq
      · cases heq
      · rename_i s1 hq
        have hs1 : s1.tasks = eraseTask s.tasks id := queueRemove_tasks hq
        have : NpDeps U { s1 with tasks := eraseTask s.tasks id } :=
          (hx0 (fun m e => by rw [hs] at e; cases e)).done
        rw [← hs1] at this
        cases heq
        exact this
    · rename_i hnw hnr
      cases heq
      exact (hx0 (fun m e => hnw (m + 1) e)).done

/-- `remove_task` under the queue invariant: `f` is nobody, or the task that is removed -/
theorem removeTask_npdeps_q {U : List TaskId} {f : Option TaskId} {pend : List TaskId} {s s' : State} {id : TaskId}
    {st : TS} (h : NpDeps U s) (hq : QInv U f pend s) (hf : f = none ∨ f = some id)
    (heq : s.removeTask id = .ok (s', st)) : NpDeps U s' := by
  refine removeTask_npdeps h hq.nd hq.cnd ?_ heq
  intro task ht hw dt hdt hcm
  have hs : slack task.state = 0 := by
    cases hst : task.state with
    | waiting n =>
      cases n with
      | zero => rfl
      | succ m => exact absurd hst (hw m)
    | _ => rfl
  have := hq.nl_of_slack ht hs dt hdt hcm
  rcases hf with e | e
  · rw [e] at this; cases this
  · rw [e] at this; cases this; rfl

end HqModel.Core.NPB
