import HqModel.Lemmas.CoreQueueFinish
/-!
The queue / dependency invariant, part 4: `on_new_tasks`. The submitted id is fresh (`∉ U`): it is in no queue and
in no consumer list, so after `registerDeps` exactly the found dependencies list it, and their number is at most
the counter the new task starts with (no task of the map is Finished at an operation boundary).
-/
namespace HqModel.Core

/-- what `registerDeps ts id deps = (ts', _, n)` does to the task map -/
structure RegSpec (id : TaskId) (ts ts' : List Task) (n : Nat) : Prop where
  ids : taskIds ts' = taskIds ts
  rel : ∀ x t', findTask ts' x = some t' → ∃ t, findTask ts x = some t ∧ t'.state = t.state ∧ t'.rq = t.rq ∧
    (∀ c ∈ t'.consumers, c ∈ t.consumers ∨ c = id) ∧ (t.consumers.Nodup → t'.consumers.Nodup)
  cnt : (∀ t ∈ ts, t.state ≠ .finished) → nL none ts' id ≤ nL none ts id + n
  oth : ∀ c, c ≠ id → nL none ts' c = nL none ts c

theorem registerDeps_spec (deps : List TaskId) (ts : List Task) (id : TaskId) (hn : (taskIds ts).Nodup) :
    RegSpec id ts (registerDeps ts id deps).1 (registerDeps ts id deps).2.2 := by
  induction deps generalizing ts with
  | nil =>
    simp only [registerDeps]
    exact ⟨rfl, fun x t' h => ⟨t', h, rfl, rfl, fun c hc => Or.inl hc, fun h => h⟩, fun _ => Nat.le_add_right _ _, fun _ _ => rfl⟩
  | cons d rest ih =>
    simp only [registerDeps]
    split
    · exact ih ts hn
    · rename_i dep hd
      have hid : dep.id = d := findTask_some_id hd
      generalize hdep' : ({ dep with consumers := if dep.consumers.contains id then dep.consumers else dep.consumers ++ [id] } : Task) = dep'
      have hid' : dep'.id = dep.id := by rw [← hdep']
      have hst' : dep'.state = dep.state := by rw [← hdep']
      have hrq' : dep'.rq = dep.rq := by rw [← hdep']
      have hcons' : dep'.consumers = if dep.consumers.contains id then dep.consumers else dep.consumers ++ [id] := by
        rw [← hdep']
      have hf' : findTask ts dep'.id = some dep := by rw [hid', hid]; exact hd
      have hn1 : (taskIds (putTask ts dep')).Nodup := by rw [taskIds_putTask]; exact hn
      have ih1 := ih (putTask ts dep') hn1
      generalize registerDeps (putTask ts dep') id rest = res at ih1
      obtain ⟨ts2, kept, n2⟩ := res
      simp only at ih1 ⊢
      have hmem_cons : ∀ c, c ∈ dep'.consumers → c ∈ dep.consumers ∨ c = id := by
        intro c hc
        rw [hcons'] at hc
        split at hc
        · exact Or.inl hc
        · rcases List.mem_append.mp hc with h | h
          · exact Or.inl h
          · exact Or.inr (by simpa using h)
      have hnd_cons : dep.consumers.Nodup → dep'.consumers.Nodup := by
        intro h
        rw [hcons']
        split
        · exact h
        · rename_i hc
          rw [List.nodup_append]
          refine ⟨h, by simp, ?_⟩
          intro a ha b hb
          simp only [List.mem_singleton] at hb
          subst hb
          intro e; subst e
          exact hc (by simpa using ha)
      refine ⟨by rw [ih1.ids, taskIds_putTask], ?_, ?_, ?_⟩
      · intro x t' hx
        obtain ⟨t1, h1, a1, a2, a3, a4⟩ := ih1.rel x t' hx
        rw [findTask_putTask] at h1
        split at h1
        · rename_i e
          rw [e, hf'] at h1
          simp only [Option.map_some, Option.some.injEq] at h1
          subst h1
          refine ⟨dep, by rw [e]; exact hf', a1.trans hst', a2.trans hrq', ?_, fun h => a4 (hnd_cons h)⟩
          intro c hc
          rcases a3 c hc with h | h
          · exact hmem_cons c h
          · exact Or.inr h
        · exact ⟨t1, h1, a1, a2, a3, a4⟩
      · intro hnf
        have hnf1 : ∀ t ∈ putTask ts dep', t.state ≠ .finished := by
          intro t ht
          rcases mem_putTask ht with e | e
          · subst e; rw [hst']; exact hnf dep (findTask_some_mem hd)
          · exact hnf t e
        have h1 := ih1.cnt hnf1
        have h2 := nL_putTask (f := none) hn hf' id
        have hne : dep.state ≠ .finished := hnf dep (findTask_some_mem hd)
        simp only [hne, if_false]
        have : (if lst none id dep' = true then 1 else 0) ≤ 1 := by split <;> omega
        omega
      · intro c hc
        rw [ih1.oth c hc]
        have h2 := nL_putTask (f := none) hn hf' c
        have : lst none c dep' = lst none c dep := by
          simp only [lst, hid']
          congr 1
          rw [hcons']
          split
          · rfl
          · simp [hc]
        rw [this] at h2
        omega

/-- the new record is appended; it may have entered queue `rq` when it has no unfinished dependency -/
theorem QInv4.new_task {U ts0 ts qs qs'} (hi : QInv4 U none [] ts0 qs) {id : TaskId} {n rq : Nat} (hfresh : id ∉ U)
    (hreg : RegSpec id ts0 ts n) (hdup : findTask ts id = none) {task : Task} (htid : task.id = id)
    (hst : task.state = .waiting n) (hcons : task.consumers = []) (hrq : task.rq = rq)
    (hq : ∀ (i : Nat) (q' : Queue), qs'[i]? = some q' → ∀ x ∈ qIds q',
      (∃ q, qs[i]? = some q ∧ x ∈ qIds q) ∨ (i = rq ∧ x = id ∧ n = 0)) :
    QInv4 (U ++ [id]) none [] (ts ++ [task]) qs' := by
  have hnf : ∀ t ∈ ts0, t.state ≠ .finished := by
    intro t ht e
    have := hi.fin t ht e
    cases this
  have hnd : (taskIds ts).Nodup := by rw [hreg.ids]; exact hi.nd
  have hfind : ∀ t ∈ ts, findTask ts t.id = some t := fun t ht => mem_find_of_nodup hnd ht
  have hnl0 : nL none ts0 id = 0 := by
    rw [nL_zero]
    intro dt hdt hc
    exact absurd (hi.uC dt hdt id hc) hfresh
  have hlt : lst none id task = false ∧ ∀ c, lst none c task = false := by
    simp [lst, hcons]
  have hnl_app : ∀ c, nL none (ts ++ [task]) c = nL none ts c := by
    intro c
    simp only [nL, List.countP_append, List.countP_cons, List.countP_nil, hlt.2 c]
    simp
  have hcnt_id : nL none (ts ++ [task]) id ≤ n := by
    rw [hnl_app]
    have := hreg.cnt hnf
    omega
  have hold : ∀ x t, x ≠ id → findTask (ts ++ [task]) x = some t →
      ∃ t0, findTask ts0 x = some t0 ∧ t.state = t0.state ∧ t.rq = t0.rq := by
    intro x t hx hft
    rw [findTask_append] at hft
    split at hft
    · rename_i y hy
      simp only [Option.some.injEq] at hft
      rw [← hft]
      obtain ⟨t0, h0, a1, a2, _⟩ := hreg.rel x y hy
      exact ⟨t0, h0, a1, a2⟩
    · split at hft
      · rename_i e; exact absurd (e.symm.trans htid) hx
      · cases hft
  refine ⟨?_, ?_, ?_, ?_, ?_, ?_, ?_⟩
  · simp only [taskIds, List.map_append, List.map_cons, List.map_nil]
    rw [List.nodup_append]
    refine ⟨hnd, by simp, ?_⟩
    intro a ha b hb
    simp only [List.mem_singleton] at hb
    subst hb
    intro e
    exact not_mem_of_findTask_none hdup (by rw [← htid, ← e]; exact ha)
  · intro t ht
    rcases List.mem_append.mp ht with h | h
    · obtain ⟨t0, h0, _⟩ := hreg.rel t.id t (hfind t h)
      have := hi.uT t0 (findTask_some_mem h0)
      rw [findTask_some_id h0] at this
      exact List.mem_append_left _ this
    · simp only [List.mem_singleton] at h; subst h; rw [htid]; simp
  · intro t ht c hc
    rcases List.mem_append.mp ht with h | h
    · obtain ⟨t0, h0, _, _, a3, _⟩ := hreg.rel t.id t (hfind t h)
      rcases a3 c hc with h1 | h1
      · exact List.mem_append_left _ (hi.uC t0 (findTask_some_mem h0) c h1)
      · subst h1; simp
    · simp only [List.mem_singleton] at h; subst h; rw [hcons] at hc; cases hc
  · intro t ht
    rcases List.mem_append.mp ht with h | h
    · obtain ⟨t0, h0, _, _, _, a4⟩ := hreg.rel t.id t (hfind t h)
      exact a4 (hi.cnd t0 (findTask_some_mem h0))
    · simp only [List.mem_singleton] at h; subst h; rw [hcons]; exact List.nodup_nil
  · intro t ht hfin
    rcases List.mem_append.mp ht with h | h
    · obtain ⟨t0, h0, a1, _⟩ := hreg.rel t.id t (hfind t h)
      exact absurd (a1 ▸ hfin) (hnf t0 (findTask_some_mem h0))
    · simp only [List.mem_singleton] at h; subst h; rw [hst] at hfin; cases hfin
  · intro c t hc
    simp only [owed_nil, Nat.add_zero]
    by_cases hcid : c = id
    · subst hcid
      have : t = task := by
        rw [findTask_append, hdup] at hc
        simp only [htid, if_true, Option.some.injEq] at hc
        exact hc.symm
      subst this
      rw [hst]; exact hcnt_id
    · obtain ⟨t0, h0, a1, _⟩ := hold c t hcid hc
      rw [hnl_app, hreg.oth c hcid, a1]
      have := hi.cnt c t0 h0
      simpa using this
  · intro i q' hq' x hx
    rcases hq i q' hq' x hx with ⟨q, hq0, hx0⟩ | ⟨rfl, rfl, hn0⟩
    · obtain ⟨g1, g2, g3, g4⟩ := hi.qg i q hq0 x hx0
      have hxid : x ≠ id := fun e => hfresh (e ▸ g1)
      refine ⟨List.mem_append_left _ g1, ?_, ?_, ?_⟩
      rotate_left 2
      · intro t ht
        obtain ⟨t0, h0, a1, _⟩ := hold x t hxid ht
        rw [a1]; exact g4 t0 h0
      · intro t ht
        obtain ⟨t0, h0, _, a2⟩ := hold x t hxid ht
        rw [a2]; exact g2 t0 h0
      · intro dt hdt hc
        rcases List.mem_append.mp hdt with h | h
        · obtain ⟨t0, h0, _, _, a3, _⟩ := hreg.rel dt.id dt (hfind dt h)
          rcases a3 x hc with h1 | h1
          · have := g3 t0 (findTask_some_mem h0) h1
            cases this
          · exact absurd h1 hxid
        · simp only [List.mem_singleton] at h; subst h; rw [hcons] at hc; cases hc
    · refine ⟨by simp, ?_, ?_, ?_⟩
      rotate_left 2
      · intro t ht
        rw [findTask_append, hdup] at ht
        simp only [htid, if_true, Option.some.injEq] at ht
        rw [← ht, hst, hn0]; rfl
      · intro t ht
        rw [findTask_append, hdup] at ht
        simp only [htid, if_true, Option.some.injEq] at ht
        rw [← ht]; exact hrq
      · have : nL none (ts ++ [task]) x = 0 := by omega
        exact nL_zero.mp this

theorem QInv4.mono_U {U U' f pend ts qs} (hi : QInv4 U f pend ts qs) (h : ∀ x ∈ U, x ∈ U') : QInv4 U' f pend ts qs :=
  ⟨hi.nd, fun t ht => h _ (hi.uT t ht), fun t ht c hc => h _ (hi.uC t ht c hc), hi.cnd, hi.fin, hi.cnt,
    fun i q hq x hx => ⟨h _ (hi.qg i q hq x hx).u, (hi.qg i q hq x hx).rq, (hi.qg i q hq x hx).nl,
      (hi.qg i q hq x hx).z⟩⟩

theorem addNewTasks_q (nts : List NewTask) (s s' : State) (r r' : List TaskId) (U : List TaskId)
    (hi : QInv U none [] s) (hfresh : ∀ nt ∈ nts, nt.id ∉ U) (hnd : (nts.map (·.id)).Nodup)
    (h : s.addNewTasks nts r = .ok (s', r')) : QInv (U ++ nts.map (·.id)) none [] s' := by
  induction nts generalizing s r U with
  | nil =>
    simp only [State.addNewTasks] at h; cases h
    simpa using hi
  | cons nt rest ih =>
    simp only [List.map_cons, List.nodup_cons] at hnd
    simp only [State.addNewTasks] at h
    have hreg := registerDeps_spec nt.deps s.tasks nt.id hi.nd
    generalize registerDeps s.tasks nt.id nt.deps = reg at h hreg
    obtain ⟨ts, kept, n⟩ := reg
    simp only at h hreg
    have hfr : nt.id ∉ U := hfresh nt (by simp)
    have hfresh' : ∀ x ∈ rest, x.id ∉ U ++ [nt.id] := by
      intro x hx hm
      rcases List.mem_append.mp hm with h1 | h1
      · exact hfresh x (by simp [hx]) h1
      · simp only [List.mem_singleton] at h1
        exact hnd.1 (by rw [← h1]; exact List.mem_map_of_mem hx)
    have hU : U ++ (nt.id :: rest.map (·.id)) = (U ++ [nt.id]) ++ rest.map (·.id) := by simp
    simp only [List.map_cons]
    rw [hU]
    split at h
    · cases h
    · rename_i hdup
      have hnone : findTask ts nt.id = none := by
        cases hx : findTask ts nt.id with
        | none => rfl
        | some x => simp [hx] at hdup
      split at h
      · rename_i hn0
        split at h
        · cases h
        · rename_i s2 r2 ha
          refine ih _ _ _ ?_ hfresh' hnd.2 h
          have h2 : s2.tasks = ts := addReady_tasks ha
          have hq := addReady_qsub ha
          show QInv4 _ none [] (s2.tasks ++ [_]) s2.queues
          rw [h2]
          refine QInv4.new_task hi hfr hreg hnone rfl rfl rfl rfl ?_
          intro i q' hq' x hx
          rcases hq i q' hq' x hx with h1 | ⟨h1, h3⟩
          · exact Or.inl h1
          · exact Or.inr ⟨h1, h3, hn0⟩
      · refine ih _ _ _ ?_ hfresh' hnd.2 h
        exact QInv4.new_task hi hfr hreg hnone rfl rfl rfl rfl (fun i q' hq' x hx => Or.inl ⟨q', hq', hx⟩)

theorem newTasks_q {s s' : State} {nts : List NewTask} {o : Out} {U : List TaskId} (hi : QInv U none [] s)
    (hfresh : ∀ nt ∈ nts, nt.id ∉ U) (hnd : (nts.map (·.id)).Nodup) (h : s.newTasks nts = .ok (s', o)) :
    QInv (U ++ nts.map (·.id)) none [] s' := by
  simp only [State.newTasks] at h
  split at h
  · cases h
  · split at h
    · cases h
    · rename_i s1 retracted h1
      split at h
      · cases h
      · rename_i s2 out h2
        cases h
        exact (Safe.ask s2) _ _ _ (retract_safe h2 _ _ _ (addNewTasks_q _ _ _ _ _ _ hi hfresh hnd h1))

end HqModel.Core
