import HqModel.Lemmas.JobJournalEntry
/-!
# C06, restart clause: the instance id recorded in `meaning J` bounds every `TaskStarted` record of `J`
-/
namespace HqModel.Emit
open HqModel.Job HqModel.Journal

/-- the job a record creates (`JobOpen`, or a `Submit` that creates a closed job) -/
def createdJob : Record → Option Nat
  | .jobOpen j _ => some j
  | .submit j true _ _ => some j
  | _ => none

def startedJob : Record → Option Nat
  | .taskStarted j _ _ _ => some j
  | _ => none

/-- no record creates a job id for which an EARLIER record reports a task start (`seen` = jobs with a start so far) -/
def noStartBeforeCreate : List Nat → List Record → Bool
  | _, [] => true
  | seen, r :: rs =>
    (match createdJob r with | some j => !seen.contains j | none => true) &&
      noStartBeforeCreate (match startedJob r with | some j => j :: seen | none => seen) rs

/-- job ids are not created again after one of their tasks started (the server issues job ids from a counter that
restarts above every id of the journal, C11; `Producible` alone allows the id of a COMPLETED job to come back) -/
def NoStartBeforeCreate (J : List Record) : Prop := noStartBeforeCreate [] J = true

instance (J : List Record) : Decidable (NoStartBeforeCreate J) := inferInstanceAs (Decidable (_ = true))

/-- every instance id in `R` (recorded starts of task `t`) is bounded by the instance id of `t` in the entry `o` -/
def InstBound (t : Nat) (o : Option AJob) (R : Nat → Prop) : Prop :=
  ∀ aj, o = some aj → ∀ k, R k →
    (∃ a ∈ aj.tasks, a.id = t) ∧ ∀ a ∈ aj.tasks, a.id = t → ∃ i, a.inst = some i ∧ k ≤ i

theorem InstBound.mono {t : Nat} {o : Option AJob} {R R' : Nat → Prop} (h : InstBound t o R)
    (hr : ∀ k, R' k → R k) : InstBound t o R' :=
  fun aj ho k hk => h aj ho k (hr k hk)

theorem InstBound.map {t : Nat} {o : Option AJob} {R : Nat → Prop} (h : InstBound t o R) (f : ATask → ATask)
    (hid : ∀ a, (f a).id = a.id) (hi : ∀ a i, a.inst = some i → ∃ i', (f a).inst = some i' ∧ i ≤ i') :
    InstBound t (o.map fun aj => mapTasks aj f) R := by
  intro aj' ho k hk
  cases o with
  | none => cases ho
  | some aj =>
    simp only [Option.map_some, Option.some.injEq] at ho
    subst ho
    obtain ⟨⟨a0, ha0, hid0⟩, hb⟩ := h aj rfl k hk
    refine ⟨⟨f a0, List.mem_map.mpr ⟨a0, ha0, rfl⟩, by rw [hid]; exact hid0⟩, ?_⟩
    intro a' ha' hid'
    simp only [mapTasks_tasks, List.mem_map] at ha'
    obtain ⟨a, ha, rfl⟩ := ha'
    rw [hid] at hid'
    obtain ⟨i, hi1, hi2⟩ := hb a ha hid'
    obtain ⟨i', hi1', hi2'⟩ := hi a i hi1
    exact ⟨i', hi1', by omega⟩

theorem markF_inst (o : Outcome) (S : List Nat) (a : ATask) : (markF o S a).inst = a.inst := by
  unfold markF setO; split <;> rfl

theorem lose_inst (w : Nat) (b : Bool) (a : ATask) : (a.lose w b).inst = a.inst ∧ (a.lose w b).id = a.id := by
  unfold ATask.lose
  split
  · split <;> simp
  · simp

theorem startF_inst_ge (t i : Nat) (ws : List Nat) (a : ATask) (i0 : Nat) (h : a.inst = some i0) :
    ∃ i', (startF t i ws a).inst = some i' ∧ i0 ≤ i' := by
  unfold startF
  split
  · exact ⟨max i (a.inst.getD 0), rfl, by simp [h]; omega⟩
  · exact ⟨i0, h, Nat.le_refl _⟩

/-- one record -/
theorem InstBound.step {A : AState} {job t : Nat} {R : Nat → Prop} {seen : List Nat} (r : Record)
    (h : InstBound t (alGet A.jobs job) R) (hok : recordOk A r = true)
    (hseen : ∀ k, R k → job ∈ seen)
    (hc : (match createdJob r with | some j => !seen.contains j | none => true) = true) :
    InstBound t (alGet (meaningStep A r).jobs job) (fun k => R k ∨ ∃ ws, r = .taskStarted job t k ws) := by
  rw [entry_eq]
  -- records that are no start of `(job, t)`: the set of recorded ids does not grow
  have same : ∀ {o'}, (∀ k ws, r ≠ .taskStarted job t k ws) → InstBound t o' R →
      InstBound t o' (fun k => R k ∨ ∃ ws, r = .taskStarted job t k ws) := by
    intro o' hne h'
    exact h'.mono (fun k hk => hk.elim id (fun ⟨ws, e⟩ => absurd e (hne k ws)))
  -- a record that creates `job`: nothing was recorded for it before
  have fresh : createdJob r = some job → ∀ k, ¬ R k := by
    intro hcr k hk
    rw [hcr] at hc
    have := hseen k hk
    simp [this] at hc
  cases r with
  | submit j closed mf d =>
    refine same (fun _ _ e => by cases e) ?_
    simp only [entryStep]
    by_cases hj : j = job
    · subst hj
      simp only [if_true]
      by_cases hcl : closed = true
      · subst hcl
        intro aj _ k hk
        exact absurd hk (fresh rfl k)
      · simp only [hcl, Bool.false_eq_true, if_false]
        intro aj' ho k hk
        cases hg : alGet A.jobs j with
        | none => rw [hg] at ho; cases ho
        | some aj =>
          rw [hg] at ho
          simp only [Option.map_some, Option.some.injEq] at ho
          subst ho
          obtain ⟨⟨a0, ha0, hid0⟩, hb⟩ := h aj hg k hk
          refine ⟨⟨a0, by simp [ha0], hid0⟩, ?_⟩
          intro a ha hid
          simp only [List.mem_append] at ha
          rcases ha with ha | ha
          · exact hb a ha hid
          · exfalso
            have hcl' : closed = false := by simpa using hcl
            simp only [recordOk, hcl', Bool.false_eq_true, if_false, hg, Bool.and_eq_true] at hok
            have := submitOk_fresh hok.2 a.id (specTasks_fresh ha).2.2.1
            exact this (List.mem_map.mpr ⟨a0, ha0, by rw [hid0, hid]⟩)
    · simp only [hj, if_false]; exact h
  | jobOpen j mf =>
    refine same (fun _ _ e => by cases e) ?_
    simp only [entryStep]
    by_cases hj : j = job
    · subst hj
      simp only [if_true]
      intro aj _ k hk
      exact absurd hk (fresh rfl k)
    · simp only [hj, if_false]; exact h
  | jobClose j =>
    refine same (fun _ _ e => by cases e) ?_
    simp only [entryStep]
    split
    · intro aj' ho k hk
      cases hg : alGet A.jobs job with
      | none => rw [hg] at ho; cases ho
      | some aj =>
        rw [hg] at ho
        simp only [Option.map_some, Option.some.injEq] at ho
        subst ho
        exact h aj hg k hk
    · exact h
  | jobCompleted j =>
    refine same (fun _ _ e => by cases e) ?_
    simp only [entryStep]
    split
    · intro aj ho; cases ho
    · exact h
  | taskStarted j t' i ws =>
    simp only [entryStep]
    by_cases hj : j = job
    · subst hj
      simp only [if_true]
      have hmap := h.map (startF t' i ws) (startF_id t' i ws) (startF_inst_ge t' i ws)
      intro aj' ho k hk
      rcases hk with hk | ⟨ws', e⟩
      · exact hmap aj' ho k hk
      · simp only [Record.taskStarted.injEq, true_and] at e
        obtain ⟨rfl, rfl, -⟩ := e
        -- the new record: the task exists (`recordOk`) and gets an instance id ≥ `i`
        cases hg : alGet A.jobs j with
        | none => rw [hg] at ho; cases ho
        | some aj =>
          rw [hg] at ho
          simp only [Option.map_some, Option.some.injEq] at ho
          subst ho
          simp only [recordOk, taskIs, hg, Bool.and_eq_true] at hok
          cases hf : aj.find t' with
          | none => rw [hf] at hok; simp at hok
          | some a0 =>
            obtain ⟨hm0, hid0⟩ := find_mem hf
            refine ⟨⟨startF t' i ws a0, List.mem_map.mpr ⟨a0, hm0, rfl⟩, by rw [startF_id]; exact hid0⟩, ?_⟩
            intro a' ha' hid'
            simp only [mapTasks_tasks, List.mem_map] at ha'
            obtain ⟨a, _, rfl⟩ := ha'
            rw [startF_id] at hid'
            exact ⟨max i (a.inst.getD 0), by simp [startF, hid'], Nat.le_max_left _ _⟩
    · simp only [hj, if_false]
      exact same (fun _ _ e => by cases e; exact hj rfl) h
  | taskFinished j t' =>
    refine same (fun _ _ e => by cases e) ?_
    simp only [entryStep]
    split
    · exact h.map _ (markF_id _ _) (fun a i hi => ⟨i, by rw [markF_inst]; exact hi, Nat.le_refl _⟩)
    · exact h
  | taskFailed j t' =>
    refine same (fun _ _ e => by cases e) ?_
    simp only [entryStep]
    split
    · exact h.map _ (markF_id _ _) (fun a i hi => ⟨i, by rw [markF_inst]; exact hi, Nat.le_refl _⟩)
    · exact h
  | tasksCanceled ids =>
    refine same (fun _ _ e => by cases e) ?_
    exact h.map _ (markF_id _ _) (fun a i hi => ⟨i, by rw [markF_inst]; exact hi, Nat.le_refl _⟩)
  | tasksAborted ids =>
    refine same (fun _ _ e => by cases e) ?_
    exact h.map _ (markF_id _ _) (fun a i hi => ⟨i, by rw [markF_inst]; exact hi, Nat.le_refl _⟩)
  | workerLost w reason =>
    refine same (fun _ _ e => by cases e) ?_
    exact h.map _ (fun a => (lose_inst w _ a).2)
      (fun a i hi => ⟨i, by rw [(lose_inst w _ a).1]; exact hi, Nat.le_refl _⟩)
  | serverStart _ => exact same (fun _ _ e => by cases e) h
  | serverStop => exact same (fun _ _ e => by cases e) h
  | workerConnected _ _ => exact same (fun _ _ e => by cases e) h
  | workerOverview _ => exact same (fun _ _ e => by cases e) h
  | jobCancel _ => exact same (fun _ _ e => by cases e) h
  | queueCreated _ => exact same (fun _ _ e => by cases e) h
  | queueRemoved _ => exact same (fun _ _ e => by cases e) h
  | allocQueued _ _ => exact same (fun _ _ e => by cases e) h
  | allocStarted _ _ => exact same (fun _ _ e => by cases e) h
  | allocFinished _ _ => exact same (fun _ _ e => by cases e) h

/-- whole journals -/
theorem InstBound.fold (job t : Nat) : ∀ (J : List Record) {A : AState} {R : Nat → Prop} {seen : List Nat},
    producibleFrom A J = true → noStartBeforeCreate seen J = true → (∀ k, R k → job ∈ seen) →
    InstBound t (alGet A.jobs job) R →
    InstBound t (alGet (J.foldl meaningStep A).jobs job) (fun k => R k ∨ ∃ ws, .taskStarted job t k ws ∈ J)
  | [], _, _, _, _, _, _, h => h.mono (fun k hk => hk.elim id (fun ⟨_, e⟩ => by cases e))
  | r :: rs, A, R, seen, hp, hn, hseen, h => by
    simp only [producibleFrom, Bool.and_eq_true] at hp
    simp only [noStartBeforeCreate, Bool.and_eq_true] at hn
    have h1 := h.step r hp.1 hseen hn.1
    have := InstBound.fold job t rs hp.2 hn.2 (R := fun k => R k ∨ ∃ ws, r = .taskStarted job t k ws) (by
      intro k hk
      rcases hk with hk | ⟨ws, e⟩
      · have := hseen k hk
        split <;> simp [this]
      · subst e; simp [startedJob]) h1
    simp only [List.foldl_cons]
    refine this.mono ?_
    intro k hk
    rcases hk with hk | ⟨ws, hm⟩
    · exact .inl (.inl hk)
    · simp only [List.mem_cons] at hm
      rcases hm with hm | hm
      · exact .inl (.inr ⟨ws, hm.symm⟩)
      · exact .inr ⟨ws, hm⟩

end HqModel.Emit
