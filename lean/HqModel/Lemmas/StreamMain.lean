import HqModel.Lemmas.StreamDir
/-!
Assembly for C19: from a (possibly cut) stream directory to the last instance of a task and to what
`cat` / `finished` / `superseded` return.
-/
namespace HqModel.Stream

/-! ## small list facts -/

theorem any_eq_filter_ne_nil (q : α → Bool) (l : List α) : l.any q = !(l.filter q).isEmpty := by
  induction l with
  | nil => rfl
  | cons a l ih =>
    simp only [List.any_cons, List.filter_cons, ih]
    cases q a <;> simp

theorem NoReturn.flatMap {β : Type} (g : β → List Nat) (l : List β) (h : ∀ b ∈ l, NoReturn (g b))
    (hd : l.Pairwise fun a b => ∀ i, i ∈ g a → i ∉ g b) : NoReturn (l.flatMap g) := by
  induction l with
  | nil => trivial
  | cons a l ih =>
    simp only [List.flatMap_cons]
    have hp := List.pairwise_cons.mp hd
    refine NoReturn.append (h a (by simp)) (ih (fun b hb => h b (by simp [hb])) hp.2) ?_
    intro x hx hx'
    obtain ⟨b, hb, hxb⟩ := List.mem_flatMap.mp hx'
    exact hp.1 b hb x hx hxb

theorem instSeq_take_prefix (t : Key) (cs : List Chunk) (n : Nat) :
    ∃ rest, instSeq t cs = instSeq t (cs.take n) ++ rest := by
  refine ⟨instSeq t (cs.drop n), ?_⟩
  rw [instSeq, instSeq, instSeq, ← List.map_append, ← List.filter_append, List.take_append_drop]

theorem mem_instSeq {t : Key} {cs : List Chunk} {m : Nat} :
    m ∈ instSeq t cs ↔ ∃ c ∈ cs, isInst t m c = true := by
  simp only [instSeq, List.mem_map, List.mem_filter, isInst, Bool.and_eq_true, decide_eq_true_eq]
  constructor
  · rintro ⟨c, ⟨hc, hk⟩, hi⟩; exact ⟨c, hc, hk, hi⟩
  · rintro ⟨c, hc, hk, hi⟩; exact ⟨c, ⟨hc, hk⟩, hi⟩

theorem instSeq_take_subset {t : Key} {cs : List Chunk} {n m : Nat} (h : m ∈ instSeq t (cs.take n)) :
    m ∈ instSeq t cs := by
  obtain ⟨rest, e⟩ := instSeq_take_prefix t cs n
  rw [e]; exact List.mem_append_left _ h

/-! ## localisation of one execution in the directory's record list -/

/-- If only the file at position `|v₁|` has chunks passing `q`, the records passing `q` are the ones of that
file. -/
theorem viewFR_filter_local (q : ChunkHeader → Bool) (v₁ v₂ : List (Nat × List Chunk)) (p : Nat) (cs : List Chunk)
    (h₁ : ∀ pc ∈ v₁, ∀ c ∈ pc.2, q c.hdr = false) (h₂ : ∀ pc ∈ v₂, ∀ c ∈ pc.2, q c.hdr = false) :
    (viewFR 0 (v₁ ++ (p, cs) :: v₂)).filter (fun fr => q fr.2.hdr) =
      ((recsOf p cs).filter fun r => q r.hdr).map fun r => ((v₁.length, r) : FR) := by
  rw [viewFR_append]
  simp only [viewFR, List.filter_append, viewFR_filter_none q _ v₁ h₁, viewFR_filter_none q _ v₂ h₂,
    List.nil_append, List.append_nil, Nat.zero_add]
  rw [List.filter_map]
  rfl

theorem recsOf_filter_ne_nil {q : ChunkHeader → Bool} {p : Nat} {cs : List Chunk} (h : ∃ c ∈ cs, q c.hdr = true) :
    (recsOf p cs).filter (fun r => q r.hdr) ≠ [] := by
  obtain ⟨c, hc, hq⟩ := h
  have : c.hdr ∈ (recsOf p cs).map (·.hdr) := by rw [recsOf_hdr]; exact List.mem_map_of_mem hc
  obtain ⟨r, hr, he⟩ := List.mem_map.mp this
  intro hnil
  have : r ∈ (recsOf p cs).filter (fun r => q r.hdr) := List.mem_filter.mpr ⟨hr, by simp [he, hq]⟩
  rw [hnil] at this
  simp at this

theorem recsOf_any (q : ChunkHeader → Bool) (p : Nat) (cs : List Chunk) :
    (recsOf p cs).any (fun r => q r.hdr) = cs.any (fun c => q c.hdr) := by
  have h1 : (recsOf p cs).any (fun r => q r.hdr) = ((recsOf p cs).map (·.hdr)).any q := by
    rw [List.any_map]; rfl
  have h2 : cs.any (fun c => q c.hdr) = (cs.map (·.hdr)).any q := by
    rw [List.any_map]; rfl
  rw [h1, h2, recsOf_hdr]

/-- header tests used below -/
def qInst (t : Key) (m : Nat) (h : ChunkHeader) : Bool := decide ((h.job, h.task) = t) && decide (h.inst = m)

theorem qInst_chunk (t : Key) (m : Nat) (c : Chunk) : qInst t m c.hdr = isInst t m c := rfl

/-- The `InstanceInfo` of execution `(t, m)` when all its chunks are in the file at position `|v₁|`. -/
theorem mkInfo_local (t : Key) (m : Nat) (v₁ v₂ : List (Nat × List Chunk)) (p : Nat) (cs : List Chunk)
    (h₁ : ∀ pc ∈ v₁, ∀ c ∈ pc.2, qInst t m c.hdr = false) (h₂ : ∀ pc ∈ v₂, ∀ c ∈ pc.2, qInst t m c.hdr = false)
    (hm : ∃ c ∈ cs, qInst t m c.hdr = true) :
    mkInfo ((viewFR 0 (v₁ ++ (p, cs) :: v₂)).filter fun fr => fr.2.key = t) m =
      { inst := m
        ch0 := ((recsOf p cs).filter fun r =>
          qInst t m r.hdr && (decide (r.hdr.size > 0) && decide (r.hdr.channel = 0))).map ciOf
        ch1 := ((recsOf p cs).filter fun r =>
          qInst t m r.hdr && (decide (r.hdr.size > 0) && !decide (r.hdr.channel = 0))).map ciOf
        fileIdx := v₁.length
        finished := cs.any fun c => qInst t m c.hdr && decide (c.hdr.size = 0) } := by
  -- every field of `mkInfo` is a filter of the record list by a header test that implies `qInst t m`
  have loc : ∀ (e : ChunkHeader → Bool),
      ((viewFR 0 (v₁ ++ (p, cs) :: v₂)).filter fun fr => fr.2.key = t).filter
          (fun fr => decide (fr.2.hdr.inst = m) && e fr.2.hdr) =
        ((recsOf p cs).filter fun r => qInst t m r.hdr && e r.hdr).map fun r => ((v₁.length, r) : FR) := by
    intro e
    rw [List.filter_filter]
    have := viewFR_filter_local (fun h => qInst t m h && e h) v₁ v₂ p cs
      (fun pc hpc c hc => by simp [h₁ pc hpc c hc]) (fun pc hpc c hc => by simp [h₂ pc hpc c hc])
    rw [← this]
    apply List.filter_congr
    intro fr _
    cases h1 : e fr.2.hdr <;> cases h2 : decide (fr.2.hdr.inst = m) <;> simp [qInst, Rec.key, h2] <;> congr
  have l0 := loc fun h => decide (h.size > 0) && decide (h.channel = 0)
  have l1 := loc fun h => decide (h.size > 0) && !decide (h.channel = 0)
  have lf := loc fun _ => true
  have le := loc fun h => decide (h.size = 0)
  simp only [Bool.and_true] at lf
  simp only [mkInfo, InstanceInfo.mk.injEq, true_and]
  refine ⟨?_, ?_, ?_, ?_⟩
  · simp only [← Bool.and_assoc] at l0 ⊢
    rw [l0, List.map_map]; rfl
  · simp only [← Bool.and_assoc] at l1 ⊢
    rw [l1, List.map_map]; rfl
  · rw [← List.head?_filter, lf, List.head?_map]
    have hne := recsOf_filter_ne_nil (q := qInst t m) (p := p) hm
    cases hh : ((recsOf p cs).filter fun r => qInst t m r.hdr).head? with
    | none => exact absurd (List.head?_eq_none_iff.mp hh) hne
    | some r => rfl
  · rw [any_eq_filter_ne_nil, le, ← recsOf_any (fun h => qInst t m h && decide (h.size = 0)) p cs,
      any_eq_filter_ne_nil]
    simp

/-! ## opening a (cut) directory -/

/-- a directory whose files lost a tail each, but kept their file headers -/
structure CutOK (uid : Bytes) (dir : List (FileSpec × Nat)) : Prop where
  ok : DirOK uid (dir.map (·.1))
  hdr : ∀ fk ∈ dir, hdrLen fk.1 ≤ fk.2

theorem CutOK.file {uid : Bytes} {dir : List (FileSpec × Nat)} (h : CutOK uid dir) {fk : FileSpec × Nat}
    (hfk : fk ∈ dir) : fk.1.OK uid :=
  h.ok.files fk.1 (List.mem_map_of_mem hfk)

theorem kept_subset {f : FileSpec} {k : Nat} {c : Chunk} (h : c ∈ kept f k) : c ∈ f.chunks :=
  List.mem_of_mem_take h

theorem view_no_panic {uid : Bytes} {dir : List (FileSpec × Nat)} (h : CutOK uid dir) :
    ∀ fr ∈ viewFR 0 (viewOf dir), fr.2.panics = false := by
  intro fr hfr
  obtain ⟨pc, hpc, c, hc, he⟩ := viewFR_mem hfr
  simp only [viewOf, List.mem_map] at hpc
  obtain ⟨fk, hfk, rfl⟩ := hpc
  have := (h.file hfk).channel c (kept_subset hc)
  simp only [Rec.panics, ← he, Bool.and_eq_false_iff, decide_eq_false_iff_not]
  right; omega

theorem createIndex_cut {uid : Bytes} {dir : List (FileSpec × Nat)} (h : CutOK uid dir) :
    createIndex (dir.map cutBytes) = .ok (foldRecs Index.empty (viewFR 0 (viewOf dir))).sorted := by
  unfold createIndex
  rw [dirEvents_cut dir (fun fk hfk => h.file hfk) h.ok.uidAscii h.ok.uidLen h.hdr 0,
    build_chunks _ _ (view_no_panic h)]

theorem checkHeader_cut {uid : Bytes} {dir : List (FileSpec × Nat)} (h : CutOK uid dir) {fk : FileSpec × Nat}
    (hfk : fk ∈ dir) : ∃ w rest, checkHeader (cutBytes fk) = .ok uid w rest := by
  have ok := h.file hfk
  have hk := h.hdr fk hfk
  refine ⟨fk.1.worker,
    List.take (fk.2 - (encFileHeader fk.1.uid fk.1.worker).length) (chunksBytes fk.1.chunks), ?_⟩
  unfold cutBytes fileBytes
  rw [List.take_append, List.take_of_length_le (by simpa [hdrLen] using hk)]
  have := checkHeader_enc fk.1.uid fk.1.worker
    (List.take (fk.2 - (encFileHeader fk.1.uid fk.1.worker).length) (chunksBytes fk.1.chunks))
    (by rw [ok.uid]; exact h.ok.uidAscii) (by rw [ok.uid]; exact h.ok.uidLen) ok.worker
  rw [ok.uid] at this ⊢
  exact this

theorem filterMap_eq_map_of {g : α → Option β} {f : α → β} (l : List α) (h : ∀ x ∈ l, g x = some (f x)) :
    l.filterMap g = l.map f := by
  induction l with
  | nil => rfl
  | cons a l ih =>
    rw [List.filterMap_cons, h a (by simp), ih (fun x hx => h x (by simp [hx]))]
    rfl

theorem accepted_cut {uid : Bytes} {dir : List (FileSpec × Nat)} (h : CutOK uid dir) (filter : Option Bytes)
    (hf : filter = none ∨ filter = some uid) :
    accepted filter (dir.map cutBytes) = dir.map fun fk => (cutBytes fk, uid) := by
  have hall : filter.all (· == uid) = true := by
    rcases hf with rfl | rfl <;> simp
  unfold accepted
  rw [List.filterMap_map]
  apply filterMap_eq_map_of
  intro fk hfk
  obtain ⟨w, rest, e⟩ := checkHeader_cut h hfk
  simp only [Function.comp, e, hall, if_true]

theorem openDir_cut {uid : Bytes} {dir : List (FileSpec × Nat)} (h : CutOK uid dir) (hne : dir ≠ [])
    (filter : Option Bytes) (hf : filter = none ∨ filter = some uid) :
    openDir (dir.map cutBytes) filter =
      .ok ⟨dir.map cutBytes, (foldRecs Index.empty (viewFR 0 (viewOf dir))).sorted⟩ := by
  unfold openDir
  have hne' : (dir.map cutBytes).isEmpty = false := by
    cases dir with
    | nil => exact absurd rfl hne
    | cons a l => rfl
  simp only [hne', Bool.false_eq_true, if_false, accepted_cut h filter hf]
  have huid : (List.map (fun fk => (cutBytes fk, uid)) dir).any
      (fun a => (List.map (fun fk => (cutBytes fk, uid)) dir).any fun b => a.2 != b.2) = false := by
    simp only [List.any_eq_false, List.mem_map, Bool.not_eq_true]
    rintro a ⟨fk, _, rfl⟩
    simp
  simp only [huid, Bool.false_eq_true, if_false, List.map_map]
  have e : (List.map ((fun x => x.1) ∘ fun fk => (cutBytes fk, uid)) dir) = dir.map cutBytes := by
    apply List.map_congr_left; intro fk _; rfl
  rw [e, createIndex_cut h]

theorem openPaths_cut {uid : Bytes} {dir : List (FileSpec × Nat)} (h : CutOK uid dir) :
    openPaths (dir.map cutBytes) =
      .ok ⟨dir.map cutBytes, (foldRecs Index.empty (viewFR 0 (viewOf dir))).sorted⟩ := by
  unfold openPaths
  rw [createIndex_cut h]

/-! ## one task in a (cut) directory -/

theorem chunkEnds_take (b n : Nat) (cs : List Chunk) : chunkEnds b (cs.take n) = (chunkEnds b cs).take n := by
  induction cs generalizing b n with
  | nil => simp [chunkEnds]
  | cons c cs ih =>
    cases n with
    | zero => simp [chunkEnds]
    | succ n => simp [chunkEnds, ih]

theorem flatMap_data_filter (cs : List Chunk) (hw : ∀ c ∈ cs, c.WF) (q q' : Chunk → Bool)
    (hq : ∀ c ∈ cs, q c = (q' c && decide (c.hdr.size > 0))) :
    (cs.filter q).flatMap (·.data) = (cs.filter q').flatMap (·.data) := by
  induction cs with
  | nil => rfl
  | cons c cs ih =>
    have ih' := ih (fun c hc => hw c (by simp [hc])) (fun c hc => hq c (by simp [hc]))
    have w : c.hdr.size = c.data.length := hw c (by simp)
    have e := hq c (by simp)
    simp only [List.filter_cons, e]
    cases hq' : q' c
    · simpa using ih'
    · by_cases hs : c.hdr.size > 0
      · simp [hs, ih']
      · have : c.data = [] := List.eq_nil_of_length_eq_zero (by omega)
        simp [hs, ih', this]

theorem kept_chunksBytes (f : FileSpec) (k : Nat) :
    fileBytes f = encFileHeader f.uid f.worker ++
      (chunksBytes (kept f k) ++ chunksBytes (f.chunks.drop (nHdr (k - hdrLen f) f.chunks))) := by
  unfold fileBytes kept chunksBytes
  rw [← List.flatMap_append, List.take_append_drop]

/-- What the index and `cat` hold for execution `(t, m)` — the maximal instance of `t` in the directory —
when every chunk of it survived the cuts. -/
theorem torn_task {uid : Bytes} {dir : List (FileSpec × Nat)} (h : CutOK uid dir) (t : Key) (m : Nat)
    (hm : m ∈ instIds (dir.map (·.1)) t) (hmax : ∀ i ∈ instIds (dir.map (·.1)) t, i ≤ m)
    (hkeep : ∀ fk ∈ dir, fk.1.Keeps t m fk.2) (log : Log)
    (hlog : log = ⟨dir.map cutBytes, (foldRecs Index.empty (viewFR 0 (viewOf dir))).sorted⟩) :
    log.cat t 0 = .ok (written (dir.map (·.1)) t m 0) ∧ log.cat t 1 = .ok (written (dir.map (·.1)) t m 1) ∧
      log.finished t = some (endMarked (dir.map (·.1)) t m) ∧
      ∃ init, log.index.get t = init ++ [mkInfo ((viewFR 0 (viewOf dir)).filter fun fr => fr.2.key = t) m] ∧
        (init.map (·.inst)).Nodup ∧
        (∀ i, i ∈ init.map (·.inst) ↔ (i ∈ (viewOf dir).flatMap (fun pc => instSeq t pc.2) ∧ i ≠ m)) ∧
        init.Pairwise (fun a b => a.inst ≤ b.inst) := by
  -- the file that holds (t, m)
  obtain ⟨f0, hf0, hmf⟩ := List.mem_flatMap.mp hm
  obtain ⟨fk, hfk, rfl⟩ := List.mem_map.mp hf0
  obtain ⟨d₁, d₂, rfl⟩ := List.append_of_mem hfk
  obtain ⟨f, k⟩ := fk
  simp only at hmf
  have okf := h.file hfk
  have hkf : hdrLen f ≤ k := h.hdr (f, k) hfk
  -- no other file has a chunk of (t, m)
  have hdist := h.ok.distinct t
  simp only [List.map_append, List.map_cons] at hdist
  have hd := List.pairwise_append.mp hdist
  have hd2 := List.pairwise_cons.mp hd.2.1
  have notin : ∀ {cs : List Chunk}, m ∉ instSeq t cs → ∀ c ∈ cs, isInst t m c = false := by
    intro cs hn c hc
    cases hq : isInst t m c with
    | false => rfl
    | true => exact absurd (mem_instSeq.mpr ⟨c, hc, hq⟩) hn
  have ho₁ : ∀ g ∈ d₁, ∀ c ∈ g.1.chunks, isInst t m c = false := by
    intro g hg
    apply notin
    intro hmg
    exact hd.2.2 g.1 (List.mem_map_of_mem hg) f (by simp) m hmg hmf
  have ho₂ : ∀ g ∈ d₂, ∀ c ∈ g.1.chunks, isInst t m c = false := by
    intro g hg
    apply notin
    exact hd2.1 g.1 (List.mem_map_of_mem hg) m hmf
  -- surviving chunks of (t, m)
  have hK : ∀ (q : Chunk → Bool), (∀ c, q c = true → isInst t m c = true) →
      (kept f k).filter q = f.chunks.filter q := by
    intro q hq
    apply filter_take_nHdr q f.chunks (hdrLen f) (k - hdrLen f)
    intro ce hce hqc
    have := hkeep (f, k) hfk ce hce (hq _ hqc)
    simp only at this
    omega
  have hm' : ∃ c ∈ kept f k, qInst t m c.hdr = true := by
    obtain ⟨c, hc, hq⟩ := mem_instSeq.mp hmf
    have : c ∈ (kept f k).filter (isInst t m) := by
      rw [hK _ (fun _ h => h)]; exact List.mem_filter.mpr ⟨hc, hq⟩
    exact ⟨c, (List.mem_filter.mp this).1, hq⟩
  have hv : viewOf (d₁ ++ (f, k) :: d₂) = viewOf d₁ ++ (hdrLen f, kept f k) :: viewOf d₂ := by
    simp [viewOf]
  have h₁ : ∀ pc ∈ viewOf d₁, ∀ c ∈ pc.2, qInst t m c.hdr = false := by
    intro pc hpc c hc
    obtain ⟨g, hg, rfl⟩ := List.mem_map.mp hpc
    exact ho₁ g hg c (kept_subset hc)
  have h₂ : ∀ pc ∈ viewOf d₂, ∀ c ∈ pc.2, qInst t m c.hdr = false := by
    intro pc hpc c hc
    obtain ⟨g, hg, rfl⟩ := List.mem_map.mp hpc
    exact ho₂ g hg c (kept_subset hc)
  -- the record list of task t
  have hids := view_task_ids t 0 (viewOf (d₁ ++ (f, k) :: d₂))
  have hsub : ∀ i ∈ ids ((viewFR 0 (viewOf (d₁ ++ (f, k) :: d₂))).filter fun fr => fr.2.key = t),
      i ∈ instIds ((d₁ ++ (f, k) :: d₂).map (·.1)) t := by
    intro i hi
    rw [hids] at hi
    obtain ⟨pc, hpc, hipc⟩ := List.mem_flatMap.mp hi
    obtain ⟨g, hg, rfl⟩ := List.mem_map.mp hpc
    exact List.mem_flatMap.mpr ⟨g.1, List.mem_map_of_mem hg, instSeq_take_subset hipc⟩
  have nr : NoReturn (ids ((viewFR 0 (viewOf (d₁ ++ (f, k) :: d₂))).filter fun fr => fr.2.key = t)) := by
    rw [hids]
    apply NoReturn.flatMap
    · intro pc hpc
      obtain ⟨g, hg, rfl⟩ := List.mem_map.mp hpc
      obtain ⟨rest, e⟩ := instSeq_take_prefix t g.1.chunks (nHdr (g.2 - hdrLen g.1) g.1.chunks)
      have := (h.file hg).noReturn t
      rw [e] at this
      exact this.prefix
    · have := h.ok.distinct t
      rw [List.pairwise_map] at this
      simp only [viewOf, List.pairwise_map]
      refine this.imp ?_
      intro a b hab i hia hib
      exact hab i (instSeq_take_subset hia) (instSeq_take_subset hib)
  have hmL : m ∈ ids ((viewFR 0 (viewOf (d₁ ++ (f, k) :: d₂))).filter fun fr => fr.2.key = t) := by
    rw [hids]
    refine List.mem_flatMap.mpr ⟨(hdrLen f, kept f k), by rw [hv]; simp, ?_⟩
    obtain ⟨c, hc, hq⟩ := hm'
    exact mem_instSeq.mpr ⟨c, hc, hq⟩
  obtain ⟨init, hsorted, hnd, hmem, hpw⟩ := sorted_last nr hmL (fun i hi => hmax i (hsub i hi))
  rw [hids] at hmem
  have hget : log.index.get t =
      init ++ [mkInfo ((viewFR 0 (viewOf (d₁ ++ (f, k) :: d₂))).filter fun fr => fr.2.key = t) m] := by
    rw [hlog]
    simp only [Index.sorted, foldRecs_get, Index.empty]
    exact hsorted
  have hlast : log.lastInstance t =
      some (mkInfo ((viewFR 0 (viewOf (d₁ ++ (f, k) :: d₂))).filter fun fr => fr.2.key = t) m) := by
    simp [Log.lastInstance, hget]
  have hloc := mkInfo_local t m (viewOf d₁) (viewOf d₂) (hdrLen f) (kept f k) h₁ h₂ hm'
  rw [← hv] at hloc
  have hpath : log.paths.getD (viewOf d₁).length [] = (fileBytes f).take k := by
    rw [hlog]
    simp [viewOf, cutBytes, List.getD_eq_getElem?_getD]
  -- reading one channel
  have hread : ∀ (e : ChunkHeader → Bool),
      readChunks ((fileBytes f).take k)
        (((recsOf (hdrLen f) (kept f k)).filter fun r => qInst t m r.hdr && e r.hdr).map ciOf) =
      some ((f.chunks.filter fun c => qInst t m c.hdr && e c.hdr).flatMap (·.data)) := by
    intro e
    have := readChunks_recs (fun h => qInst t m h && e h) (fileBytes f) k (kept f k)
      (encFileHeader f.uid f.worker) _ (kept_chunksBytes f k)
      (fun c hc => okf.wf c (kept_subset hc)) (fun c hc => okf.size c (kept_subset hc))
      (by
        intro ce hce hq
        have hq' : isInst t m ce.1 = true := by
          simp only [Bool.and_eq_true] at hq; exact hq.1
        apply hkeep (f, k) hfk ce _ hq'
        simp only [FileSpec.ends]
        have : ce ∈ (f.chunks.zip (chunkEnds (encFileHeader f.uid f.worker).length f.chunks)).take
            (nHdr (k - hdrLen f) f.chunks) := by
          rw [List.zip, List.take_zipWith, ← chunkEnds_take]; exact hce
        exact List.mem_of_mem_take this)
    rw [hK (fun c => qInst t m c.hdr && e c.hdr) (fun c hc => by
      simp only [Bool.and_eq_true] at hc; exact hc.1)] at this
    exact this
  -- the data of the other files does not contribute
  have hwritten : ∀ ch, written ((d₁ ++ (f, k) :: d₂).map (·.1)) t m ch =
      (f.chunks.filter (isOf t m ch)).flatMap (·.data) := by
    intro ch
    have none : ∀ g : FileSpec × Nat, (∀ c ∈ g.1.chunks, isInst t m c = false) →
        (g.1.chunks.filter (isOf t m ch)).flatMap (·.data) = [] := by
      intro g hg
      have : g.1.chunks.filter (isOf t m ch) = [] := by
        simp only [List.filter_eq_nil_iff]
        intro c hc
        have := hg c hc
        simp only [isInst, isOf] at this ⊢
        simp [this]
      rw [this]; rfl
    simp only [written, List.map_append, List.map_cons, List.flatMap_append, List.flatMap_cons, List.flatMap_map]
    have e1 : (d₁.flatMap fun g => (g.1.chunks.filter (isOf t m ch)).flatMap (·.data)) = [] := by
      exact List.flatMap_eq_nil_iff.mpr fun g hg => none g (ho₁ g hg)
    have e2 : (d₂.flatMap fun g => (g.1.chunks.filter (isOf t m ch)).flatMap (·.data)) = [] := by
      exact List.flatMap_eq_nil_iff.mpr fun g hg => none g (ho₂ g hg)
    rw [e1, e2]; simp
  refine ⟨?_, ?_, ?_, init, hget, hnd, hmem, hpw⟩
  · -- stdout
    simp only [Log.cat, hlast, hloc, InstanceInfo.chan, if_true, hpath]
    rw [hread fun h => decide (h.size > 0) && decide (h.channel = 0), hwritten 0]
    simp only
    congr 1
    apply flatMap_data_filter _ okf.wf
    intro c _
    show (isInst t m c && (decide (c.hdr.size > 0) && decide (c.hdr.channel = 0))) =
      ((isInst t m c && decide (c.hdr.channel = 0)) && decide (c.hdr.size > 0))
    cases isInst t m c <;> cases decide (c.hdr.size > 0) <;> cases decide (c.hdr.channel = 0) <;> rfl
  · -- stderr
    simp only [Log.cat, hlast, hloc, InstanceInfo.chan, hpath]
    simp only [show ¬ (1 : Nat) = 0 by omega, if_false]
    rw [hread fun h => decide (h.size > 0) && !decide (h.channel = 0), hwritten 1]
    simp only
    congr 1
    apply flatMap_data_filter _ okf.wf
    intro c hc
    have hch := okf.channel c hc
    have : (!decide (c.hdr.channel = 0)) = decide (c.hdr.channel = 1) := by
      by_cases h0 : c.hdr.channel = 0
      · simp [h0]
      · have : c.hdr.channel = 1 := by omega
        simp [this]
    show (isInst t m c && (decide (c.hdr.size > 0) && !decide (c.hdr.channel = 0))) =
      ((isInst t m c && decide (c.hdr.channel = 1)) && decide (c.hdr.size > 0))
    rw [this]
    cases isInst t m c <;> cases decide (c.hdr.size > 0) <;> cases decide (c.hdr.channel = 1) <;> rfl
  · -- finished
    simp only [Log.finished, hlast, hloc, Option.map_some, Option.some.injEq]
    have hfin : ((kept f k).any fun c => qInst t m c.hdr && decide (c.hdr.size = 0)) =
        (f.chunks.any fun c => qInst t m c.hdr && decide (c.hdr.size = 0)) := by
      rw [any_eq_filter_ne_nil, any_eq_filter_ne_nil, hK _ (fun c hc => by
        simp only [Bool.and_eq_true] at hc; exact hc.1)]
    rw [hfin]
    simp only [endMarked, List.map_append, List.map_cons, List.any_append, List.any_cons, List.any_map]
    have e1 : (d₁.any ((fun f => f.chunks.any fun c => isInst t m c && decide (c.hdr.size = 0)) ∘ fun x => x.1)) = false := by
      simp only [List.any_eq_false, Function.comp]
      intro g hg
      simp only [List.any_eq_true, not_exists, not_and, Bool.not_eq_true]
      intro c hc; simp [ho₁ g hg c hc]
    have e2 : (d₂.any ((fun f => f.chunks.any fun c => isInst t m c && decide (c.hdr.size = 0)) ∘ fun x => x.1)) = false := by
      simp only [List.any_eq_false, Function.comp]
      intro g hg
      simp only [List.any_eq_true, not_exists, not_and, Bool.not_eq_true]
      intro c hc; simp [ho₂ g hg c hc]
    rw [e1, e2]
    simp [qInst_chunk]

/-! ## the uncut directory -/

theorem chunkEnds_le (b : Nat) (cs : List Chunk) : ∀ e ∈ chunkEnds b cs, e ≤ b + (chunksBytes cs).length := by
  induction cs generalizing b with
  | nil => simp [chunkEnds]
  | cons c cs ih =>
    intro e he
    have hl : (chunksBytes (c :: cs)).length = c.bytes.length + (chunksBytes cs).length := by
      simp [chunksBytes]
    simp only [chunkEnds, List.mem_cons] at he
    rcases he with rfl | he
    · omega
    · have := ih _ e he; omega

theorem fileBytes_length (f : FileSpec) : (fileBytes f).length = hdrLen f + (chunksBytes f.chunks).length := by
  simp [fileBytes, hdrLen]

theorem keeps_full (f : FileSpec) (t : Key) (m : Nat) : f.Keeps t m (fileBytes f).length := by
  intro ce hce _
  have := chunkEnds_le (encFileHeader f.uid f.worker).length f.chunks ce.2 (List.of_mem_zip hce).2
  rw [fileBytes_length]
  simpa [hdrLen] using this

theorem kept_full (f : FileSpec) : kept f (fileBytes f).length = f.chunks := by
  unfold kept
  rw [fileBytes_length, Nat.add_sub_cancel_left, nHdr_full, List.take_length]

theorem cutBytes_full (f : FileSpec) : cutBytes (f, (fileBytes f).length) = fileBytes f := by
  simp [cutBytes]

end HqModel.Stream
