import HqModel.Alloc.Run
import HqModel.Lemmas.AllocBridge
/-!
The full invariant holds in every reachable state (`reach_inv2`).
-/
namespace HqModel.Alloc

/-- side condition of the theorems that talk about `ConciseFreeResources`: no `Groups` pool with exactly one group.
(`ResourceDescriptorKind::groups()` turns a single group into a `List`; a one-group `Groups` value can only be built
by hand or deserialised. The correspondence check does generate such pools.) -/
def NoSingletonGroups (s : State) : Prop :=
  ∀ (rid : Nat) (p : Pool), s.pools[rid]? = some p → p.tag = 2 → p.ngroups ≠ 1

/-- The full invariant — `Conserve`, `ConciseOK` (the concise state is the function of the held entries that
`CInv`/`SumCInv` describe) and the shape of the live allocations — holds in every reachable state. -/
theorem reach_inv2 {d : Descriptor} {s₀ s : State} (hinit : State.init d = some s₀) (hns : NoSingletonGroups s₀)
    (hreach : Reach s₀ s) : Inv2 (univOf s₀.pools) s := by
  obtain ⟨h0, hU⟩ := init_inv2 hinit hns
  induction hreach with
  | init => exact h0
  | @step s s' op _ hstep ih =>
    cases op with
    | enabled rq ch =>
      simp only [step, Option.some.injEq] at hstep
      cases hr : isEnabled s rq ch with
      | error e => simp [hr, Except.map] at hstep
      | ok v =>
        obtain ⟨b, s''⟩ := v
        simp only [hr, Except.map, Except.ok.injEq] at hstep
        subst hstep
        exact isEnabled_inv2 ih hr
    | alloc h rq ch =>
      simp only [step, Option.some.injEq] at hstep
      cases hr : tryAllocate s h rq ch with
      | error e => simp [hr, Except.map] at hstep
      | ok v =>
        obtain ⟨r, s''⟩ := v
        simp only [hr, Except.map, Except.ok.injEq] at hstep
        subst hstep
        exact tryAllocate_inv2 ih hU hr
    | release h =>
      simp only [step] at hstep
      cases hg : liveGet s.live h with
      | none => simp [release, hg] at hstep
      | some al =>
        obtain ⟨s'', hrel, hinv''⟩ := release_inv2 ih hU hg
        rw [hrel] at hstep
        simp only [Option.some.injEq, Except.ok.injEq] at hstep
        subst hstep
        exact hinv''

theorem sumFree_of_tag {p : Pool} (h : p.tag ≠ 3) : p.sumFree = 0 := by
  cases p <;> simp [Pool.tag] at h <;> rfl

theorem release_live {s s' : State} {h : Nat} (hr : release s h = some (.ok s')) :
    s'.live = liveErase s.live h ∧ ∃ al, liveGet s.live h = some al ∧ releasePools s.pools al = .ok s'.pools := by
  unfold release at hr
  split at hr
  · cases hr
  · rename_i al hg
    simp only [Option.some.injEq] at hr
    split at hr
    · cases hr
    · split at hr
      · cases hr
      · simp only [Except.ok.injEq] at hr
        subst hr
        exact ⟨rfl, al, hg, by assumption⟩

end HqModel.Alloc
