import HqModel.Lemmas.JobJournalRec
import HqModel.Lemmas.JournalStep
/-!
# `meaningStep` seen from the entry of ONE job

`entry_eq`: `alGet (meaningStep A r).jobs job = entryStep job (alGet A.jobs job) r` for every record `r` and job id
`job` — the effect of a record on one job of `meaning`, as a function of that job's entry only. Used by the restart
clauses of C06 / C07 (instance ids and crash counters recorded in `meaning J` against the records of `J`).
Also: the job ids of `meaning J` are pairwise distinct, for EVERY journal.
-/
namespace HqModel.Emit
open HqModel.Job HqModel.Journal

/-- the task ids of job `job` in a batch record -/
def idsOf (job : Nat) (ids : List (Nat × Nat)) : List Nat := (ids.filter (·.1 == job)).map (·.2)

theorem mem_idsOf {job t : Nat} {ids : List (Nat × Nat)} : t ∈ idsOf job ids ↔ (job, t) ∈ ids := by
  simp only [idsOf, List.mem_map, List.mem_filter, beq_iff_eq]
  constructor
  · rintro ⟨p, ⟨hp, h1⟩, h2⟩
    obtain ⟨a, b⟩ := p
    simp only at h1 h2
    subst h1; subst h2; exact hp
  · intro h; exact ⟨(job, t), ⟨h, rfl⟩, rfl⟩

def entryStep (job : Nat) (o : Option AJob) : Record → Option AJob
  | .submit j closed mf d =>
    if j = job then
      if closed then some ⟨false, mf, d.specTasks, 1⟩
      else o.map fun aj => { aj with tasks := aj.tasks ++ d.specTasks, nSubmits := aj.nSubmits + 1 }
    else o
  | .jobOpen j mf => if j = job then some ⟨true, mf, [], 0⟩ else o
  | .jobClose j => if j = job then o.map (fun aj => { aj with isOpen := false }) else o
  | .jobCompleted j => if j = job then none else o
  | .taskStarted j t i ws => if j = job then o.map (fun aj => mapTasks aj (startF t i ws)) else o
  | .taskFinished j t => if j = job then o.map (fun aj => mapTasks aj (markF .finished [t])) else o
  | .taskFailed j t => if j = job then o.map (fun aj => mapTasks aj (markF .failed [t])) else o
  | .tasksCanceled ids => o.map (fun aj => mapTasks aj (markF .canceled (idsOf job ids)))
  | .tasksAborted ids => o.map (fun aj => mapTasks aj (markF .aborted (idsOf job ids)))
  | .workerLost w reason => o.map (fun aj => mapTasks aj (ATask.lose w reason.isFailure))
  | _ => o

theorem mapTasks_mapTasks (aj : AJob) (f g : ATask → ATask) : mapTasks (mapTasks aj f) g = mapTasks aj (g ∘ f) := by
  simp [mapTasks, List.map_map]

theorem mapTasks_id (aj : AJob) (f : ATask → ATask) (h : ∀ a, f a = a) : mapTasks aj f = aj := by
  have : f = id := funext h
  subst this
  cases aj; simp [mapTasks]

theorem updTask_get (A : AState) (j t : Nat) (f : ATask → ATask) (job : Nat) :
    alGet (updTask A j t f).jobs job =
      if j = job then (alGet A.jobs job).map (fun aj => mapTasks aj fun a => if a.id = t then f a else a)
      else alGet A.jobs job := by
  cases h : alGet A.jobs j with
  | none =>
    simp only [updTask, h]
    split
    · rename_i hj; subst hj; simp [h]
    · rfl
  | some aj =>
    rw [updTask_eq h]
    simp only [alGet_set]
    split
    · rename_i hj; subst hj; simp [h]
    · rfl

theorem markF_single (o : Outcome) (t : Nat) :
    (fun a : ATask => if a.id = t then setO o a else a) = markF o [t] := by
  funext a; simp [markF]

theorem setOutcome_get (o : Outcome) (A : AState) (p : Nat × Nat) (job : Nat) :
    alGet (setOutcome o A p).jobs job =
      if p.1 = job then (alGet A.jobs job).map (fun aj => mapTasks aj (markF o [p.2])) else alGet A.jobs job := by
  have : setOutcome o A p = updTask A p.1 p.2 (setO o) := rfl
  rw [this, updTask_get, markF_single]

theorem batch_get (o : Outcome) (job : Nat) : ∀ (ids : List (Nat × Nat)) (A : AState),
    alGet (ids.foldl (setOutcome o) A).jobs job =
      (alGet A.jobs job).map (fun aj => mapTasks aj (markF o (idsOf job ids)))
  | [], A => by
    have : ∀ aj : AJob, mapTasks aj (markF o (idsOf job [])) = aj :=
      fun aj => mapTasks_id aj _ (fun a => by simp [markF, idsOf])
    simp only [List.foldl_nil, this]
    cases alGet A.jobs job <;> rfl
  | p :: rest, A => by
    simp only [List.foldl_cons]
    rw [batch_get o job rest, setOutcome_get]
    by_cases hp : p.1 = job
    · have e : idsOf job (p :: rest) = p.2 :: idsOf job rest := by simp [idsOf, hp]
      rw [if_pos hp, e, Option.map_map]
      congr 1
      funext aj
      simp only [Function.comp, mapTasks_mapTasks]
      congr 1
      funext a
      have := markF_cons o p.2 (idsOf job rest) a
      simp only [Function.comp]
      rw [← this]
      simp [markF]
    · have e : idsOf job (p :: rest) = idsOf job rest := by simp [idsOf, hp]
      rw [if_neg hp, e]

theorem entry_eq (A : AState) (r : Record) (job : Nat) :
    alGet (meaningStep A r).jobs job = entryStep job (alGet A.jobs job) r := by
  cases r with
  | submit j closed mf d =>
    simp only [meaningStep, entryStep]
    by_cases hc : closed = true
    · simp only [hc, if_true, alGet_set]
    · simp only [hc, if_false, Bool.false_eq_true]
      cases h : alGet A.jobs j with
      | none =>
        simp only
        split
        · rename_i hj; subst hj; simp [h]
        · rfl
      | some aj =>
        simp only [alGet_set]
        split
        · rename_i hj; subst hj; simp [h]
        · rfl
  | jobOpen j mf => simp only [meaningStep, entryStep, alGet_set]
  | jobClose j =>
    simp only [meaningStep, entryStep]
    cases h : alGet A.jobs j with
    | none =>
      simp only
      split
      · rename_i hj; subst hj; simp [h]
      · rfl
    | some aj =>
      simp only [alGet_set]
      split
      · rename_i hj; subst hj; simp [h]
      · rfl
  | jobCompleted j => simp only [meaningStep, entryStep, alGet_del]
  | taskStarted j t i ws =>
    simp only [meaningStep, entryStep, updTask_get]
    rfl
  | taskFinished j t => simp only [meaningStep, entryStep, setOutcome_get]
  | taskFailed j t => simp only [meaningStep, entryStep, setOutcome_get]
  | tasksCanceled ids => simp only [meaningStep, entryStep, batch_get]
  | tasksAborted ids => simp only [meaningStep, entryStep, batch_get]
  | workerLost w reason =>
    simp only [meaningStep, entryStep, alGet_map]
    rfl
  | _ => rfl

/-! ### the job ids of `meaning J` are pairwise distinct -/

theorem keys_alSet (l : List (Nat × β)) (k : Nat) (v : β) :
    (alSet l k v).map (·.1) = if k ∈ l.map (·.1) then l.map (·.1) else l.map (·.1) ++ [k] := by
  induction l with
  | nil => simp [alSet]
  | cons a r ih =>
    obtain ⟨k', w⟩ := a
    by_cases hk : k' = k
    · simp [alSet, hk]
    · have hk' : ¬ k = k' := fun e => hk e.symm
      simp only [alSet, hk, if_false, List.map_cons, ih, List.mem_cons, hk', false_or]
      split <;> simp

theorem nodup_alSet {l : List (Nat × β)} (h : (l.map (·.1)).Nodup) (k : Nat) (v : β) :
    ((alSet l k v).map (·.1)).Nodup := by
  rw [keys_alSet]
  split
  · exact h
  · rename_i hk
    rw [List.nodup_append]
    exact ⟨h, by simp, fun a ha b hb => by simp at hb; subst hb; exact fun e => hk (e ▸ ha)⟩

theorem nodup_alDel {l : List (Nat × β)} (h : (l.map (·.1)).Nodup) (k : Nat) :
    ((alDel l k).map (·.1)).Nodup := by
  induction l with
  | nil => simp [alDel]
  | cons a r ih =>
    obtain ⟨k', w⟩ := a
    simp only [List.map_cons, List.nodup_cons] at h
    by_cases hk : k' = k
    · simp only [alDel, hk, if_true]; exact ih h.2
    · simp only [alDel, hk, if_false, List.map_cons, List.nodup_cons]
      refine ⟨?_, ih h.2⟩
      intro hm
      obtain ⟨x, hx, hx1⟩ := List.mem_map.mp hm
      exact h.1 (List.mem_map.mpr ⟨x, mem_alDel hx, hx1⟩)

theorem nodup_updTask {A : AState} (h : (A.jobs.map (·.1)).Nodup) (j t : Nat) (f : ATask → ATask) :
    ((updTask A j t f).jobs.map (·.1)).Nodup := by
  unfold updTask
  split
  · exact nodup_alSet h _ _
  · exact h

theorem nodup_batch (o : Outcome) : ∀ (ids : List (Nat × Nat)) {A : AState}, (A.jobs.map (·.1)).Nodup →
    ((ids.foldl (setOutcome o) A).jobs.map (·.1)).Nodup
  | [], _, h => h
  | p :: rest, _, h => nodup_batch o rest (nodup_updTask h p.1 p.2 _)

theorem nodup_step {A : AState} (h : (A.jobs.map (·.1)).Nodup) (r : Record) :
    ((meaningStep A r).jobs.map (·.1)).Nodup := by
  cases r with
  | submit j closed mf d =>
    simp only [meaningStep]
    split
    · exact nodup_alSet h _ _
    · split
      · exact nodup_alSet h _ _
      · exact h
  | jobOpen j mf => exact nodup_alSet h _ _
  | jobClose j =>
    simp only [meaningStep]
    split
    · exact nodup_alSet h _ _
    · exact h
  | jobCompleted j => exact nodup_alDel h _
  | taskStarted j t i ws => exact nodup_updTask h _ _ _
  | taskFinished j t => exact nodup_updTask h _ _ _
  | taskFailed j t => exact nodup_updTask h _ _ _
  | tasksCanceled ids => exact nodup_batch _ ids h
  | tasksAborted ids => exact nodup_batch _ ids h
  | workerLost w reason =>
    simp only [meaningStep, alMap, List.map_map]
    exact h
  | _ => exact h

theorem nodup_fold : ∀ (J : List Record) {A : AState}, (A.jobs.map (·.1)).Nodup →
    ((J.foldl meaningStep A).jobs.map (·.1)).Nodup
  | [], _, h => h
  | r :: rs, _, h => nodup_fold rs (nodup_step h r)

theorem meaning_nodup (J : List Record) : ((meaning J).jobs.map (·.1)).Nodup :=
  nodup_fold J (A := {}) (by simp)

theorem alGet_of_mem {l : List (Nat × β)} (h : (l.map (·.1)).Nodup) {k : Nat} {v : β} (hm : (k, v) ∈ l) :
    alGet l k = some v := by
  induction l with
  | nil => cases hm
  | cons a r ih =>
    obtain ⟨k', w⟩ := a
    simp only [List.map_cons, List.nodup_cons] at h
    simp only [List.mem_cons] at hm
    rcases hm with hm | hm
    · cases hm; simp [alGet]
    · have : k' ≠ k := fun e => h.1 (List.mem_map.mpr ⟨(k, v), hm, e.symm⟩)
      simp only [alGet, this, if_false]
      exact ih h.2 hm

/-- a task that restore hands back to the core, as a task of `meaning J` reached through `alGet` -/
theorem pending_task {J : List Record} {job t i c : Nat} {deps : List Nat}
    (h : (job, t, deps, i, c) ∈ (meaning J).pending) :
    ∃ aj a, alGet (meaning J).jobs job = some aj ∧ a ∈ aj.tasks ∧ a.id = t ∧ a.st = .waiting ∧
      i = (match a.inst with | some x => x + 1 | none => 0) ∧ c = a.crashes := by
  simp only [AState.pending, List.mem_flatMap, List.mem_map] at h
  obtain ⟨ja, hja, p, hp, heq⟩ := h
  simp only [AJob.pending, List.mem_map, List.mem_filter] at hp
  obtain ⟨a, ⟨ha, hw⟩, rfl⟩ := hp
  simp only [Prod.mk.injEq] at heq
  obtain ⟨h1, h2, -, h4, h5⟩ := heq
  obtain ⟨k, aj⟩ := ja
  simp only at h1; subst h1
  exact ⟨aj, a, alGet_of_mem (meaning_nodup J) hja, ha, h2, by simpa using hw, h4.symm, h5.symm⟩

end HqModel.Emit
