import HqModel.Lemmas.CoreNoPanicFrame6
import HqModel.Lemmas.CoreNoPanicRun
import HqModel.Lemmas.CoreNoPanicDeps4
import HqModel.Lemmas.CoreNoPanicQ9
import HqModel.Lemmas.CoreNoPanicQSched4
/-!
C09 progress: **the invariant of the progress theorems is inductive.**

`CoreGood U s` = `InvF s` (existing structural invariant, both directions) ∧ `QInv U none [] s` (existing queue /
dependency invariant) ∧ `NpInv U [] s` (new: index ranges, multi-node shape, dependency registration, exact
queue ↔ state correspondence). It holds in the empty core and is preserved by every successful operation that
satisfies `OpOk2q` (existing side conditions without `QueueOkD`, `RqvOk`, `NoSaturation`), `OpNP` (new input
conditions) and submits fresh ids — assembled from the per-component step theorems of the sub-families
`NPA` (`NpW`, `NpIdx`, `NpMn`), `NPB` (`NpDeps`), `NPC` (`NpQ`, reactor), `NPD` (`NpQ`, scheduling round).
-/
namespace HqModel.Core

/-- the invariant of the C09 progress theorems (`U` = ghost list of all task ids submitted so far) -/
def CoreGood (U : List TaskId) (s : State) : Prop := InvF s ∧ QInv U none [] s ∧ NpInv U [] s

theorem npInv_init : NpInv [] [] {} := by
  refine ⟨⟨?_, ?_⟩, ⟨rfl, ?_, ?_⟩, ⟨?_, ?_⟩, ⟨?_, ?_, ?_, ?_, ?_⟩, ⟨?_, ?_, ?_, ?_, ?_, ?_, ?_⟩⟩
  all_goals first
    | exact List.nodup_nil
    | (intro a ha; cases ha)
    | (intro a ha; simp at ha)

theorem coreGood_init : CoreGood [] {} := ⟨invF_init, qinv_init, npInv_init⟩

/-- **`CoreGood` is preserved by every operation** -/
theorem coreGood_step {U : List TaskId} {s s' : State} {op : Op} {out : Out} (hg : CoreGood U s)
    (hok : OpOk2q s op) (hnp : OpNP s op) (hex : OpExcl s op) (hfresh : ∀ x ∈ op.newIds, x ∉ U)
    (hnd : op.newIds.Nodup) (h : step s op = .ok (s', out)) : CoreGood (U ++ op.newIds) s' := by
  obtain ⟨hi, hq, hn⟩ := hg
  refine ⟨step_invF hi (hok.ok2 hq.queueOkD) h, step_q hq hi.inv hok.sol hfresh hnd h, ?_⟩
  refine ⟨NPA.step_npw hi hq hn hok hnp h, NPA.step_npidx hi hq hn hok hnp h, NPA.step_npmn hi hq hn hok hnp h,
    NPB.step_npdeps hi hq hn.deps hnp hfresh hnd h, ?_⟩
  by_cases hs : ∃ sol, op = .schedule sol
  · obtain ⟨sol, rfl⟩ := hs
    exact NPD.schedule_npq hi hq hn hok hnp h
  · exact NPC.step_npq_reactor hi hq hn hok hnp hex hfresh hnd (fun sol e => hs ⟨sol, e⟩) h

/-- the side conditions under which `CoreGood` is inductive and (with the progress lemmas) excludes a panic:
existing `OpOk2q` + new input conditions `OpNP` + the exclusion of the known finding F27 -/
def NpOk2 (s : State) (op : Op) : Prop := OpOk2q s op ∧ OpNP s op ∧ OpExcl s op

instance (s : State) (op : Op) : Decidable (NpOk2 s op) := by unfold NpOk2; infer_instance

/-- **`CoreGood` in every reachable state**: every run from the empty core whose operations satisfy `NpOk2` and that
submits no task id twice ends in a state that satisfies `CoreGood` -/
theorem coreGood_run {ops : List Op} {s : State} {out : Out} (hok : RunOk NpOk2 {} ops) (hr : NoIdReuse ops)
    (h : run {} ops = .ok (s, out)) : CoreGood (allNewIds ops) s := by
  have := NP.run_inv_gen (G := CoreGood) (C := NpOk2)
    (fun U s op s' out hg hc hf hn hs => coreGood_step hg hc.1 hc.2.1 hc.2.2 hf hn hs)
    ops {} [] coreGood_init (by simpa [NoIdReuse] using hr) hok s out h
  simpa using this

end HqModel.Core
