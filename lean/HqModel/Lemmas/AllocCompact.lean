import HqModel.Lemmas.AllocScatter
import HqModel.Lemmas.AllocAdmit
/-!
`compact` on a grouped resource: every group set the model accepts as solver answer (`EntryLp.feasible`) contains the
amount (`ScatterOk`), hence the round-robin loop inside the chosen groups terminates; and when the admission test
passes, the MILP is feasible, so `group_solver(..).unwrap()` in `claim_resources` does not fail.
-/
namespace HqModel.Alloc

/-- pointwise link between the concise state of a grouped resource and its pool -/
structure GroupsLink (c : CState) (gs : List Group) : Prop where
  len : c.length = gs.length
  link : ∀ (p : Nat) (cg : CGroup), c[p]? = some cg → ∃ g : Group, gs[p]? = some g ∧
    cg.units = g.free.length ∧ ∀ i, fracOf cg.fracs i = fracOf g.fracs i
  nodup : ∀ (p : Nat) (cg : CGroup), c[p]? = some cg → KeysNodup cg.fracs
  vals : ∀ g ∈ c, ∀ kv ∈ g.fracs, kv.2 < FPU

theorem groups_link {U} {s : State} (hinv : Inv2 U s) {rid full : Nat} {gs : List Group} {c : CState}
    (hp : s.pools[rid]? = some (.groups full gs)) (hc : s.concise[rid]? = some c) : GroupsLink c gs := by
  have hpc := hinv.concise.pc rid _ c hp hc
  have hpool := hinv.inv.pools.pool rid _ hp
  have hlt := concise_vals_lt hinv rid _ c hp hc
  rcases hpc with ⟨ht, -⟩ | ⟨-, hci⟩ | ⟨ht, -⟩
  · simp [Pool.tag] at ht
  · simp only [Pool.ngroups, Pool.groupsOf] at hci hpool
    refine ⟨hci.len, ?_, hci.nodup, hlt⟩
    intro p cg hcg
    have hplt : p < gs.length := by rw [← hci.len]; exact lt_length_of_getElem? hcg
    obtain ⟨g, hg⟩ := exists_get hplt
    obtain ⟨hlen, hfr⟩ := group_summary hpool hg
    exact ⟨g, hg, by rw [hci.units p cg hcg, hlen], fun i => by rw [hci.fracs p cg hcg i, hfr i]⟩
  · simp [Pool.tag] at ht

/-- a group whose largest free fraction (concise view) is at least `fr` has a matching fraction in the pool -/
theorem GroupsLink.best {c : CState} {gs : List Group} (h : GroupsLink c gs) {p : Nat} {cg : CGroup}
    (hcg : c[p]? = some cg) {fr : Nat} (hpos : 0 < fr) (hle : fr ≤ fmax cg.fracs) :
    ∃ g, gs[p]? = some g ∧ bestVal g.fracs fr ≠ none := by
  obtain ⟨g, hg, -, hfr⟩ := h.link p cg hcg
  rcases fmax_mem cg.fracs with h0 | ⟨kv, hkv, he⟩
  · omega
  · have h3 := fget_of_mem (h.nodup p cg hcg) hkv
    have h4 : fracOf g.fracs kv.1 = kv.2 := by rw [← hfr, fracOf_of_fget h3]
    exact ⟨g, hg, bestVal_ne_none (fget_of_fracOf_pos h4 (by omega)) (by omega)⟩

theorem sum_map_congr {S : List Nat} {f g : Nat → Nat} (h : ∀ j ∈ S, f j = g j) : (S.map f).sum = (S.map g).sum := by
  rw [List.map_congr_left h]

theorem GroupsLink.freeLen {c : CState} {gs : List Group} (h : GroupsLink c gs) {p : Nat} (hp : p < c.length) :
    ∃ cg, c[p]? = some cg ∧ cg.units = freeLen gs p := by
  obtain ⟨cg, hcg⟩ := exists_get hp
  obtain ⟨g, hg, hu, -⟩ := h.link p cg hcg
  exact ⟨cg, hcg, by simp [Alloc.freeLen, hg, hu]⟩

/-- **a feasible group set contains the amount** -/
theorem feasible_scatterOk {c : CState} {gs : List Group} (h : GroupsLink c gs) {amount : Nat} {S : List Nat}
    (hf : (entryLp c amount).feasible S = true) :
    (∀ p ∈ S, p < gs.length) ∧ S.Nodup ∧ ScatterOk gs S (amount / FPU) (amount % FPU) := by
  have hcl : (entryLp c amount).coefs.length = c.length := by
    unfold entryLp
    dsimp only
    split <;> simp
  simp only [EntryLp.feasible, Bool.and_eq_true, List.all_eq_true, decide_eq_true_eq] at hf
  obtain ⟨⟨⟨hall, hpw⟩, h1⟩, h2⟩ := hf
  have hrange : ∀ p ∈ S, p < c.length := fun p hp => by rw [← hcl]; exact hall p hp
  have hnd : S.Nodup := hpw.imp (fun hab => Nat.ne_of_lt hab)
  refine ⟨fun p hp => by rw [← h.len]; exact hrange p hp, hnd, ?_⟩
  by_cases hfr : amount % FPU = 0
  · -- whole amount: one constraint, Σ units ≥ units
    have hs1 : sumSel (·.c1) (entryLp c amount).coefs S = totalFreeP gs S := by
      unfold sumSel totalFreeP
      apply sum_map_congr
      intro j hj
      obtain ⟨cg, hcg, hu⟩ := h.freeLen (hrange j hj)
      simp [entryLp, hfr, List.getElem?_map, hcg, hu]
    have hr1 : (entryLp c amount).rhs1 = amount / FPU := by simp [entryLp, hfr]
    rw [hs1, hr1] at h1
    exact ⟨h1, .inl hfr⟩
  · have hpos : 0 < amount % FPU := by omega
    by_cases hex : ∃ j ∈ S, ∃ cg, c[j]? = some cg ∧ amount % FPU ≤ fmax cg.fracs
    · -- some selected group can serve the fraction
      obtain ⟨j, hj, cg, hcg, hle⟩ := hex
      obtain ⟨g, hg, hb⟩ := h.best hcg hpos hle
      have hneed : c.any (fun g => decide (amount % FPU ≤ fmax g.fracs)) = true := by
        rw [List.any_eq_true]
        exact ⟨cg, List.mem_of_getElem? hcg, by simpa using hle⟩
      have hs2 : sumSel (·.c2) (entryLp c amount).coefs S = totalFreeP gs S := by
        unfold sumSel totalFreeP
        apply sum_map_congr
        intro k hk
        obtain ⟨cg', hcg', hu'⟩ := h.freeLen (hrange k hk)
        simp only [entryLp, hfr, if_false, List.getElem?_map, hcg', Option.map_some]
        split <;> simp [hu']
      refine ⟨?_, .inr (.inr ⟨j, hj, g, hg, hb⟩)⟩
      rcases Nat.eq_zero_or_pos (amount / FPU) with h0 | hupos
      · omega
      · have hr2 : (entryLp c amount).rhs2 = amount / FPU := by
          simp [entryLp, hfr, hupos, hneed]
        rw [hs2, hr2] at h2
        exact h2
    · -- no selected group has such a fraction: the first constraint is about whole indices only
      have hs1 : sumSel (·.c1) (entryLp c amount).coefs S = totalFreeP gs S := by
        unfold sumSel totalFreeP
        apply sum_map_congr
        intro k hk
        obtain ⟨cg', hcg', hu'⟩ := h.freeLen (hrange k hk)
        have hnot : ¬ amount % FPU ≤ fmax cg'.fracs := fun hle => hex ⟨k, hk, cg', hcg', hle⟩
        simp [entryLp, hfr, List.getElem?_map, hcg', hnot, hu']
      have hr1 : (entryLp c amount).rhs1 = amount / FPU + 1 := by simp [entryLp, hfr]
      rw [hs1, hr1] at h1
      exact ⟨by omega, .inr (.inl (by omega))⟩

/-- compact inside a validated group set does not stop -/
theorem claimWithMask_compact_nostop {c : CState} {gs : List Group} (h : GroupsLink c gs) {full : Nat} {e : Entry}
    {S : List Nat} {pick : Option Nat} (hpol : e.policy = .compact ∨ e.policy = .forceCompact)
    (hf : (entryLp c e.amount).feasible S = true) : NoStop ((Pool.groups full gs).claimWithMask e S pick) := by
  obtain ⟨hP, hnd, hok⟩ := feasible_scatterOk h hf
  have hloop := claimScatter_nostop (amount := e.amount) (gs := gs) (set := some S) (pick := pick)
    (by simpa [positions] using hP) (by simpa [positions] using hnd) (by simpa [positions] using hok)
  intro er herr
  rcases hpol with hpol | hpol <;>
  · simp only [Pool.claimWithMask, hpol] at herr
    split at herr
    · rename_i er' hc
      simp only [Except.error.injEq] at herr
      subst herr
      exact hloop _ hc
    · cases herr

/-! ### admission ⇒ the MILP is feasible (the set of all groups) -/

theorem sumSel_range (f : GCoef → Nat) (coefs : List GCoef) :
    sumSel f coefs (List.range coefs.length) = (coefs.map f).sum := by
  unfold sumSel
  congr 1
  apply List.ext_getElem?
  intro j
  simp only [List.getElem?_map, List.getElem?_range]
  by_cases hj : j < coefs.length
  · simp [hj]
  · simp [hj, List.getElem?_eq_none (Nat.le_of_not_lt hj)]

theorem sum_map_le {α} (l : List α) (f g : α → Nat) (h : ∀ x ∈ l, f x ≤ g x) : (l.map f).sum ≤ (l.map g).sum := by
  induction l with
  | nil => simp
  | cons x xs ih =>
    simp only [List.map_cons, List.sum_cons]
    have := h x (by simp)
    have := ih (fun y hy => h y (List.mem_cons_of_mem _ hy))
    omega

theorem sum_map_lt {α} (l : List α) (f g : α → Nat) (h : ∀ x ∈ l, f x ≤ g x) {a : α} (ha : a ∈ l)
    (hlt : f a + 1 ≤ g a) : (l.map f).sum + 1 ≤ (l.map g).sum := by
  induction l with
  | nil => cases ha
  | cons x xs ih =>
    simp only [List.map_cons, List.sum_cons]
    rcases List.mem_cons.mp ha with rfl | ha'
    · have := sum_map_le xs f g (fun y hy => h y (List.mem_cons_of_mem _ hy))
      omega
    · have := h x (by simp)
      have := ih (fun y hy => h y (List.mem_cons_of_mem _ hy)) ha'
      omega

theorem admitted_feasible {c : CState} {amount : Nat} (hlt : ∀ g ∈ c, ∀ kv ∈ g.fracs, kv.2 < FPU)
    (hadm : amount ≤ c.maxAlloc) : (entryLp c amount).feasible (List.range c.length) = true := by
  have hcl : (entryLp c amount).coefs.length = c.length := by
    unfold entryLp
    dsimp only
    split <;> simp
  have hF := maxFrac_lt c hlt
  rw [maxAlloc_eq, le_maxAlloc_iff _ _ _ hF] at hadm
  simp only [EntryLp.feasible, Bool.and_eq_true, List.all_eq_true, decide_eq_true_eq]
  refine ⟨⟨⟨fun p hp => by rw [hcl]; exact List.mem_range.mp hp, ?_⟩, ?_⟩, ?_⟩
  · exact List.pairwise_lt_range
  · rw [← hcl, sumSel_range]
    by_cases hfr : amount % FPU = 0
    · have : ((entryLp c amount).coefs.map (·.c1)).sum = totalUnits c := by
        simp [entryLp, hfr, totalUnits, Function.comp_def]
      rw [this]
      have hr1 : (entryLp c amount).rhs1 = amount / FPU := by simp [entryLp, hfr]
      rw [hr1]
      rcases hadm with h | ⟨h, -⟩ <;> omega
    · have hr1 : (entryLp c amount).rhs1 = amount / FPU + 1 := by simp [entryLp, hfr]
      rw [hr1]
      have hmap : (entryLp c amount).coefs.map (·.c1) =
          c.map (fun g => if amount % FPU ≤ fmax g.fracs then g.units + 1 else g.units) := by
        simp only [entryLp, hfr, if_false, List.map_map]
        apply List.map_congr_left
        intro g _
        simp only [Function.comp]
        split <;> rfl
      rw [hmap]
      have hge : ∀ g ∈ c, g.units ≤ (if amount % FPU ≤ fmax g.fracs then g.units + 1 else g.units) := by
        intro g _; split <;> omega
      rcases hadm with h | ⟨h, h2⟩
      · have := sum_map_le c (·.units) _ hge
        unfold totalUnits at h
        omega
      · have hpos : 0 < amount % FPU := by omega
        obtain ⟨g, hg, kv, hkv, hle⟩ := (le_maxFrac_iff c _ hpos).mp h2
        have hfm := le_fmax_of_mem g.fracs kv hkv
        have := sum_map_lt c (·.units) _ hge hg (by
          have : amount % FPU ≤ fmax g.fracs := by omega
          simp [this])
        unfold totalUnits at h
        omega
  · rw [← hcl, sumSel_range]
    by_cases hfr : amount % FPU = 0
    · simp [entryLp, hfr]
    · have hmap : (entryLp c amount).coefs.map (·.c2) = c.map (·.units) := by
        simp only [entryLp, hfr, if_false, List.map_map]
        apply List.map_congr_left
        intro g _
        simp only [Function.comp]
        split <;> rfl
      rw [hmap]
      have hr2 : (entryLp c amount).rhs2 ≤ amount / FPU := by
        simp only [entryLp, hfr, if_false]
        split
        · exact Nat.le_refl _
        · exact Nat.zero_le _
      have : amount / FPU ≤ (c.map (·.units)).sum := by
        unfold totalUnits at hadm
        generalize amount / FPU = u at hadm
        rcases hadm with h | ⟨h, -⟩ <;> omega
      generalize amount / FPU = u at this hr2
      omega

theorem range'_mem_subsetsFrom (i n : Nat) : List.range' i n ∈ subsetsFrom i n := by
  induction n generalizing i with
  | zero => simp [subsetsFrom]
  | succ n ih =>
    simp only [subsetsFrom, List.range'_succ, List.mem_append, List.mem_map]
    exact .inr ⟨_, ih (i + 1), rfl⟩

theorem range_mem_allSubsets (n : Nat) : List.range n ∈ allSubsets n := by
  rw [List.range_eq_range']
  exact range'_mem_subsetsFrom 0 n

theorem maxInt?_ne_none {l : List Int} (h : l ≠ []) : maxInt? l ≠ none := by
  cases l with
  | nil => exact absurd rfl h
  | cons x xs =>
    simp only [maxInt?]
    split <;> simp

theorem foldr_feasible_ne_nil (es : List (Nat × EntryLp))
    (h : ∀ e ∈ es, ∃ S ∈ allSubsets e.2.coefs.length, e.2.feasible S = true) :
    es.foldr (fun e acc =>
      let fs := (allSubsets e.2.coefs.length).filter e.2.feasible
      fs.flatMap (fun s => acc.map (s :: ·))) [[]] ≠ [] := by
  induction es with
  | nil => simp
  | cons e es ih =>
    simp only [List.foldr_cons]
    obtain ⟨S, hS, hf⟩ := h e (by simp)
    have hrest := ih (fun e' he' => h e' (List.mem_cons_of_mem _ he'))
    intro hnil
    rw [List.flatMap_eq_nil_iff] at hnil
    have := hnil S (List.mem_filter.mpr ⟨hS, hf⟩)
    simp only [List.map_eq_nil_iff] at this
    exact hrest this

/-- the brute-force optimum exists as soon as every entry has a feasible set among the enumerated subsets -/
theorem optimum_ne_none {lp : Lp} (h : ∀ e ∈ lp.entries, ∃ S ∈ allSubsets e.2.coefs.length, e.2.feasible S = true) :
    lp.optimum ≠ none := by
  unfold Lp.optimum
  apply maxInt?_ne_none
  intro hnil
  exact foldr_feasible_ne_nil lp.entries h (List.map_eq_nil_iff.mp hnil)

/-! ### plumbing: `claim_resources` with compact entries on grouped resources -/

/-- the first loop of `claim_resources` leaves alone every pool whose entries are all skipped (coupled) -/
theorem claimPlain_untouched {picks : Choices} {pools pools' : List Pool} {rq : Request} {al al' : Allocation}
    (h : claimPlain picks pools rq al = .ok (pools', al')) (r : Nat)
    (hskip : ∀ e ∈ rq, e.rid = r → ∀ pool, pools[r]? = some pool →
      (pool.isGroups && e.policy.relevantForCoupling) = true) : pools'[r]? = pools[r]? := by
  induction rq generalizing pools al with
  | nil =>
    simp only [claimPlain, Except.ok.injEq, Prod.mk.injEq] at h
    rw [h.1]
  | cons e es ih =>
    simp only [claimPlain] at h
    split at h
    · cases h
    · rename_i pool hp
      have hskip' : ∀ pools₁ : List Pool, pools₁[r]? = pools[r]? → ∀ e' ∈ es, e'.rid = r → ∀ pool',
          pools₁[r]? = some pool' → (pool'.isGroups && e'.policy.relevantForCoupling) = true := by
        intro pools₁ hsame e' he' hr pool' hp'
        exact hskip e' (List.mem_cons_of_mem _ he') hr pool' (by rw [← hsame]; exact hp')
      split at h
      · exact ih h (hskip' pools rfl)
      · rename_i hns
        split at h
        · cases h
        · rename_i pool' ra hc
          have hne : e.rid ≠ r := by
            intro heq
            apply hns
            exact hskip e (by simp) heq pool (by rw [← heq]; exact hp)
          have hsame : (setPool pools e.rid pool')[r]? = pools[r]? := by
            simp only [setPool]
            rw [List.getElem?_set_ne hne]
          rw [ih h (hskip' _ hsame), hsame]

theorem claimCoupled_nostop {picks : Choices} {pools : List Pool} {es : List Entry} {sets : List (List Nat)}
    {al : Allocation} (hnd : (es.map (·.rid)).Nodup)
    (h : ∀ x ∈ es.zip sets, ∃ pool : Pool, pools[x.1.rid]? = some pool ∧
      NoStop (pool.claimWithMask x.1 x.2 (picks.pick x.1.rid))) :
    NoStop (claimCoupled picks pools es sets al) := by
  induction es generalizing pools sets al with
  | nil => simp only [claimCoupled]; exact NoStop.ok _
  | cons e es ih =>
    cases sets with
    | nil => simp only [claimCoupled]; exact NoStop.ok _
    | cons S sets =>
      obtain ⟨hne, hnd'⟩ := List.nodup_cons.mp hnd
      obtain ⟨pool, hp, hcl⟩ := h (e, S) (by simp)
      simp only [claimCoupled, hp]
      cases hr : pool.claimWithMask e S (picks.pick e.rid) with
      | error er =>
        intro e' he'
        simp only [Except.error.injEq] at he'
        subst he'
        exact hcl _ hr
      | ok v =>
        obtain ⟨pool', ra⟩ := v
        dsimp only
        apply ih hnd'
        intro x hx
        obtain ⟨pool₂, hp₂, hcl₂⟩ := h x (List.mem_cons_of_mem _ hx)
        have hxe : x.1 ∈ es := (List.of_mem_zip hx).1
        have hrid : x.1.rid ≠ e.rid := by
          intro heq
          apply hne
          exact List.mem_map.mpr ⟨x.1, hxe, heq⟩
        refine ⟨pool₂, ?_, hcl₂⟩
        simp only [setPool]
        rw [List.getElem?_set_ne (fun h' => hrid h'.symm)]
        exact hp₂

theorem coupled_nodup {pools : List Pool} {rq : Request} (hnd : (rq.map (·.rid)).Nodup) :
    ((coupledEntries pools rq).map (·.rid)).Nodup := by
  unfold coupledEntries
  exact hnd.sublist (List.filter_sublist.map _)

/-- **`try_allocate` does not stop**: list / range / sum resources with any policy; grouped resources with `all`,
`scatter` or `compact` (no `tight`, no strict policy). `hw`: the coupling items address existing groups. -/
theorem tryAllocate_nostop_compact {U} {s : State} (hinv : Inv2 U s) (hU : ∀ r g, (U r g).Nodup) (h : Nat)
    (rq : Request) (ch : Choices) (hnd : (rq.map (·.rid)).Nodup)
    (hpol : ∀ e ∈ rq, ∀ full gs, s.pools[e.rid]? = some (.groups full gs) →
      e.policy = .all ∨ e.policy = .scatter ∨ e.policy = .compact)
    (hcap : ∀ e ∈ rq, s.pools[e.rid]? ≠ some .empty)
    (hw : (mkLp s.concise (coupledEntries s.pools rq) s.weights).weightOob = false) :
    NoStop (tryAllocate s h rq ch) := by
  -- coupled entries: exactly the compact entries on grouped pools
  have hcoupled : ∀ e ∈ coupledEntries s.pools rq, e ∈ rq ∧ e.policy = .compact ∧
      ∃ full gs, s.pools[e.rid]? = some (.groups full gs) := by
    intro e he
    obtain ⟨hin, hc⟩ := List.mem_filter.mp he
    cases hp : s.pools[e.rid]? with
    | none => simp [hp] at hc
    | some pool =>
      cases pool with
      | groups full gs =>
        refine ⟨hin, ?_, full, gs, rfl⟩
        rcases hpol e hin full gs hp with h1 | h1 | h1
        · simp [hp, Pool.isGroups, h1, Policy.relevantForCoupling] at hc
        · simp [hp, Pool.isGroups, h1, Policy.relevantForCoupling] at hc
        · exact h1
      | _ => simp [hp, Pool.isGroups] at hc
  have hnonforced : (coupledEntries s.pools rq).all (fun e => !e.policy.forced) = true := by
    rw [List.all_eq_true]
    intro e he
    simp [(hcoupled e he).2.1, Policy.forced]
  intro er herr
  unfold tryAllocate at herr
  have hhas : ∀ sols, hasResources s rq sols =
      .ok (rq.all (entryHasResources s.pools s.concise), s.cache, sols) := by
    intro sols
    unfold hasResources
    by_cases h1 : (!rq.all (entryHasResources s.pools s.concise)) = true
    · rw [if_pos h1]
      have : rq.all (entryHasResources s.pools s.concise) = false := by simpa using h1
      rw [this]
    · rw [if_neg h1]
      dsimp only
      rw [if_pos hnonforced]
      have : rq.all (entryHasResources s.pools s.concise) = true := by simpa using h1
      rw [this]
  rw [hhas] at herr
  cases hall : rq.all (entryHasResources s.pools s.concise) with
  | false =>
    rw [hall] at herr
    cases hs : ch.sols with
    | nil => rw [hs] at herr; simp at herr
    | cons x xs => rw [hs] at herr; simp at herr; exact herr.symm
  | true =>
    rw [hall] at herr
    dsimp only at herr
    have hentries : ∀ e ∈ rq, entryHasResources s.pools s.concise e = true := List.all_eq_true.mp hall
    -- the plain claims
    have hclaims : NoStop (claimPlain ch s.pools rq []) := by
      apply claimPlain_nostop hnd
      intro e he
      have hadm := hentries e he
      cases hp : s.pools[e.rid]? with
      | none => simp [entryHasResources, hp] at hadm
      | some pool =>
        refine ⟨pool, rfl, ?_⟩
        cases pool with
        | empty => exact absurd hp (hcap e he)
        | indices full g => exact .inr (claim_indices_nostop (admitted_indices hinv hp hadm))
        | sum full free => exact .inr (claim_sum_nostop (admitted_sum hinv hp hadm))
        | groups full gs =>
          rcases hpol e he full gs hp with h1 | h1 | h1
          · exact .inr (claim_groups_all_nostop h1)
          · exact .inr (claim_groups_scatter_nostop hinv hp h1 hadm)
          · exact .inl (by simp [Pool.isGroups, h1, Policy.relevantForCoupling])
    -- a claim result is needed for the rest of the operation
    have hrest : ∀ {pools' al sols'}, claimResources s rq ch ch.sols = .ok (pools', al, sols') →
        NoStop (match (Except.ok (pools', al, sols') : Except Stop _) with
          | .error e => (.error e : Except Stop (Option Allocation × State))
          | .ok (_, _, _ :: _) => .error .badChoice
          | .ok (pools, al, []) =>
            match conciseRemove s.concise al with
            | .error e => .error e
            | .ok concise => .ok (some al, { s with pools, concise, cache := s.cache, live := (h, al) :: s.live })) := by
      intro pools' al sols' hcl
      obtain ⟨cs', hcr⟩ := tryAllocate_after_claim hinv hU hcl
      intro er' herr'
      cases sols' with
      | nil => simp [hcr] at herr'
      | cons x xs => simp at herr'; exact herr'.symm
    cases hcl : claimResources s rq ch ch.sols with
    | ok v =>
      obtain ⟨pools', al, sols'⟩ := v
      rw [hcl] at herr
      exact hrest hcl er herr
    | error er' =>
      rw [hcl] at herr
      simp only [Except.error.injEq] at herr
      subst herr
      -- `claim_resources` itself
      unfold claimResources at hcl
      cases hcp : claimPlain ch s.pools rq [] with
      | error er'' =>
        rw [hcp] at hcl
        simp only [Except.error.injEq] at hcl
        subst hcl
        exact hclaims _ hcp
      | ok v =>
        obtain ⟨pools1, al1⟩ := v
        rw [hcp] at hcl
        dsimp only at hcl
        by_cases hce : (coupledEntries s.pools rq).isEmpty = true
        · rw [if_pos hce] at hcl; cases hcl
        · rw [if_neg hce] at hcl
          cases hs : ch.sols with
          | nil => rw [hs] at hcl; simp at hcl; exact hcl.symm
          | cons r sols' =>
            rw [hs] at hcl
            dsimp only at hcl
            -- the solver answer
            have hfeas : (mkLp s.concise (coupledEntries s.pools rq) s.weights).optimum ≠ none := by
              apply optimum_ne_none
              intro x hx
              simp only [mkLp, List.mem_map] at hx
              obtain ⟨e, he, rfl⟩ := hx
              obtain ⟨hin, -, full, gs, hp⟩ := hcoupled e he
              have hr : e.rid < s.concise.length := by rw [hinv.concise.len]; exact lt_length_of_getElem? hp
              obtain ⟨c, hc⟩ := exists_get hr
              have hlink := groups_link hinv hp hc
              have hadm := hentries e hin
              have hle : e.amount ≤ c.maxAlloc := by
                unfold entryHasResources at hadm
                rw [hp] at hadm
                simp only [hc, Option.getD_some, (hcoupled e he).2.1] at hadm
                exact of_decide_eq_true hadm
              have hf := admitted_feasible hlink.vals hle
              have hcl' : (entryLp c e.amount).coefs.length = c.length := by
                unfold entryLp
                dsimp only
                split <;> simp
              refine ⟨List.range c.length, ?_, ?_⟩
              · simp only [hc, Option.getD_some, hcl']
                exact range_mem_allSubsets _
              · simpa only [hc, Option.getD_some] using hf
            cases hgs : groupSolver s.concise (coupledEntries s.pools rq) s.weights r with
            | error e₁ =>
              rw [hgs] at hcl
              simp only [Except.error.injEq] at hcl
              subst hcl
              unfold groupSolver at hgs
              dsimp only at hgs
              rw [hw] at hgs
              simp only [Bool.false_eq_true, if_false] at hgs
              split at hgs
              · cases hgs
              · cases hgs; rfl
            | ok o =>
              rw [hgs] at hcl
              cases o with
              | none => exact absurd (groupSolver_none hgs).2 hfeas
              | some sol =>
                dsimp only at hcl
                obtain ⟨-, hsolf, -, -⟩ := groupSolver_some hgs
                have hcc : NoStop (claimCoupled ch pools1 (coupledEntries s.pools rq) sol.sets al1) := by
                  apply claimCoupled_nostop (coupled_nodup hnd)
                  intro x hx
                  have hxe : x.1 ∈ coupledEntries s.pools rq := (List.of_mem_zip hx).1
                  obtain ⟨hin, hcompact, full, gs, hp⟩ := hcoupled x.1 hxe
                  -- the pool is still the one of the state
                  have hsame : pools1[x.1.rid]? = s.pools[x.1.rid]? := by
                    apply claimPlain_untouched hcp
                    intro e' he' hr' pool' hp'
                    rw [hp] at hp'
                    cases hp'
                    obtain ⟨i, hi⟩ := List.getElem?_of_mem he'
                    obtain ⟨j, hj⟩ := List.getElem?_of_mem hin
                    have : e' = x.1 := by
                      have h1 : (rq.map (·.rid))[i]? = some e'.rid := by simp [hi]
                      have h2 : (rq.map (·.rid))[j]? = some x.1.rid := by simp [hj]
                      rw [hr'] at h1
                      have hlt_i : i < (rq.map (·.rid)).length := lt_length_of_getElem? h1
                      have hlt_j : j < (rq.map (·.rid)).length := lt_length_of_getElem? h2
                      have hij : i = j := by
                        apply (List.getElem_inj (h₀ := hlt_i) (h₁ := hlt_j) hnd).mp
                        have a := List.getElem?_eq_getElem hlt_i
                        have b := List.getElem?_eq_getElem hlt_j
                        rw [h1] at a; rw [h2] at b
                        exact Option.some.inj (a.symm.trans b)
                      subst hij
                      rw [hi] at hj
                      exact Option.some.inj hj
                    subst this
                    simp [Pool.isGroups, hcompact, Policy.relevantForCoupling]
                  refine ⟨.groups full gs, by rw [hsame]; exact hp, ?_⟩
                  have hr : x.1.rid < s.concise.length := by
                    rw [hinv.concise.len]; exact lt_length_of_getElem? hp
                  obtain ⟨c, hc⟩ := exists_get hr
                  have hlink := groups_link hinv hp hc
                  -- the set is feasible for this entry
                  have hfx : (entryLp c x.1.amount).feasible x.2 = true := by
                    simp only [Lp.feasible, Bool.and_eq_true, List.all_eq_true] at hsolf
                    have hz := hsolf.2
                    -- x ∈ coupled.zip sets ⇒ ((rid, lp), S) ∈ entries.zip sets
                    obtain ⟨k, hk⟩ := List.getElem?_of_mem hx
                    have hk1 : (coupledEntries s.pools rq)[k]? = some x.1 := by
                      have := hk
                      simp only [List.getElem?_zip_eq_some] at this
                      exact this.1
                    have hk2 : sol.sets[k]? = some x.2 := by
                      have := hk
                      simp only [List.getElem?_zip_eq_some] at this
                      exact this.2
                    have hmem : ((x.1.rid, entryLp (s.concise[x.1.rid]?.getD []) x.1.amount), x.2) ∈
                        (mkLp s.concise (coupledEntries s.pools rq) s.weights).entries.zip sol.sets := by
                      apply List.mem_of_getElem? (i := k)
                      simp only [mkLp, List.getElem?_zip_eq_some, List.getElem?_map, hk1, Option.map_some, hk2,
                        and_self]
                    have := hz _ hmem
                    simpa only [hc, Option.getD_some] using this
                  exact claimWithMask_compact_nostop hlink (.inl hcompact) hfx
                cases hcr : claimCoupled ch pools1 (coupledEntries s.pools rq) sol.sets al1 with
                | error e₂ =>
                  rw [hcr] at hcl
                  simp only [Except.error.injEq] at hcl
                  subst hcl
                  exact hcc _ hcr
                | ok v => rw [hcr] at hcl; cases hcl

end HqModel.Alloc
