import HqModel.Lemmas.AllocScatter
/-!
`compact` on a grouped resource: every group set the model accepts as solver answer (`EntryLp.feasible`) contains the
amount (`ScatterOk`), hence the round-robin loop inside the chosen groups terminates; and when the admission test
passes, the MILP is feasible, so `group_solver(..).unwrap()` in `claim_resources` does not fail.
-/
namespace HqModel.Alloc

/-- pointwise link between the concise state of a grouped resource and its pool -/
structure GroupsLink (c : CState) (gs : List Group) : Prop where
  len : c.length = gs.length
  link : ∀ (p : Nat) (cg : CGroup), c[p]? = some cg → ∃ g : Group, gs[p]? = some g ∧
    cg.units = g.free.length ∧ ∀ i, fracOf cg.fracs i = fracOf g.fracs i
  nodup : ∀ (p : Nat) (cg : CGroup), c[p]? = some cg → KeysNodup cg.fracs
  vals : ∀ g ∈ c, ∀ kv ∈ g.fracs, kv.2 < FPU

theorem groups_link {U} {s : State} (hinv : Inv2 U s) {rid full : Nat} {gs : List Group} {c : CState}
    (hp : s.pools[rid]? = some (.groups full gs)) (hc : s.concise[rid]? = some c) : GroupsLink c gs := by
  have hpc := hinv.concise.pc rid _ c hp hc
  have hpool := hinv.inv.pools.pool rid _ hp
  have hlt := concise_vals_lt hinv rid _ c hp hc
  rcases hpc with ⟨ht, -⟩ | ⟨-, hci⟩ | ⟨ht, -⟩
  · simp [Pool.tag] at ht
  · simp only [Pool.ngroups, Pool.groupsOf] at hci hpool
    refine ⟨hci.len, ?_, hci.nodup, hlt⟩
    intro p cg hcg
    have hplt : p < gs.length := by rw [← hci.len]; exact lt_length_of_getElem? hcg
    obtain ⟨g, hg⟩ := exists_get hplt
    obtain ⟨hlen, hfr⟩ := group_summary hpool hg
    exact ⟨g, hg, by rw [hci.units p cg hcg, hlen], fun i => by rw [hci.fracs p cg hcg i, hfr i]⟩
  · simp [Pool.tag] at ht

/-- a group whose largest free fraction (concise view) is at least `fr` has a matching fraction in the pool -/
theorem GroupsLink.best {c : CState} {gs : List Group} (h : GroupsLink c gs) {p : Nat} {cg : CGroup}
    (hcg : c[p]? = some cg) {fr : Nat} (hpos : 0 < fr) (hle : fr ≤ fmax cg.fracs) :
    ∃ g, gs[p]? = some g ∧ bestVal g.fracs fr ≠ none := by
  obtain ⟨g, hg, -, hfr⟩ := h.link p cg hcg
  rcases fmax_mem cg.fracs with h0 | ⟨kv, hkv, he⟩
  · omega
  · have h3 := fget_of_mem (h.nodup p cg hcg) hkv
    have h4 : fracOf g.fracs kv.1 = kv.2 := by rw [← hfr, fracOf_of_fget h3]
    exact ⟨g, hg, bestVal_ne_none (fget_of_fracOf_pos h4 (by omega)) (by omega)⟩

theorem sum_map_congr {S : List Nat} {f g : Nat → Nat} (h : ∀ j ∈ S, f j = g j) : (S.map f).sum = (S.map g).sum := by
  rw [List.map_congr_left h]

theorem GroupsLink.freeLen {c : CState} {gs : List Group} (h : GroupsLink c gs) {p : Nat} (hp : p < c.length) :
    ∃ cg, c[p]? = some cg ∧ cg.units = freeLen gs p := by
  obtain ⟨cg, hcg⟩ := exists_get hp
  obtain ⟨g, hg, hu, -⟩ := h.link p cg hcg
  exact ⟨cg, hcg, by simp [Alloc.freeLen, hg, hu]⟩

/-- **a feasible group set contains the amount** -/
theorem feasible_scatterOk {c : CState} {gs : List Group} (h : GroupsLink c gs) {amount : Nat} {S : List Nat}
    (hf : (entryLp c amount).feasible S = true) :
    (∀ p ∈ S, p < gs.length) ∧ S.Nodup ∧ ScatterOk gs S (amount / FPU) (amount % FPU) := by
  have hcl : (entryLp c amount).coefs.length = c.length := by
    unfold entryLp
    dsimp only
    split <;> simp
  simp only [EntryLp.feasible, Bool.and_eq_true, List.all_eq_true, decide_eq_true_eq] at hf
  obtain ⟨⟨⟨hall, hpw⟩, h1⟩, h2⟩ := hf
  have hrange : ∀ p ∈ S, p < c.length := fun p hp => by rw [← hcl]; exact hall p hp
  have hnd : S.Nodup := hpw.imp (fun hab => Nat.ne_of_lt hab)
  refine ⟨fun p hp => by rw [← h.len]; exact hrange p hp, hnd, ?_⟩
  by_cases hfr : amount % FPU = 0
  · -- whole amount: one constraint, Σ units ≥ units
    have hs1 : sumSel (·.c1) (entryLp c amount).coefs S = totalFreeP gs S := by
      unfold sumSel totalFreeP
      apply sum_map_congr
      intro j hj
      obtain ⟨cg, hcg, hu⟩ := h.freeLen (hrange j hj)
      simp [entryLp, hfr, List.getElem?_map, hcg, hu]
    have hr1 : (entryLp c amount).rhs1 = amount / FPU := by simp [entryLp, hfr]
    rw [hs1, hr1] at h1
    exact ⟨h1, .inl hfr⟩
  · have hpos : 0 < amount % FPU := by omega
    by_cases hex : ∃ j ∈ S, ∃ cg, c[j]? = some cg ∧ amount % FPU ≤ fmax cg.fracs
    · -- some selected group can serve the fraction
      obtain ⟨j, hj, cg, hcg, hle⟩ := hex
      obtain ⟨g, hg, hb⟩ := h.best hcg hpos hle
      have hneed : c.any (fun g => decide (amount % FPU ≤ fmax g.fracs)) = true := by
        rw [List.any_eq_true]
        exact ⟨cg, List.mem_of_getElem? hcg, by simpa using hle⟩
      have hs2 : sumSel (·.c2) (entryLp c amount).coefs S = totalFreeP gs S := by
        unfold sumSel totalFreeP
        apply sum_map_congr
        intro k hk
        obtain ⟨cg', hcg', hu'⟩ := h.freeLen (hrange k hk)
        simp only [entryLp, hfr, if_false, List.getElem?_map, hcg', Option.map_some]
        split <;> simp [hu']
      refine ⟨?_, .inr (.inr ⟨j, hj, g, hg, hb⟩)⟩
      rcases Nat.eq_zero_or_pos (amount / FPU) with h0 | hupos
      · omega
      · have hr2 : (entryLp c amount).rhs2 = amount / FPU := by
          simp [entryLp, hfr, hupos, hneed]
        rw [hs2, hr2] at h2
        exact h2
    · -- no selected group has such a fraction: the first constraint is about whole indices only
      have hs1 : sumSel (·.c1) (entryLp c amount).coefs S = totalFreeP gs S := by
        unfold sumSel totalFreeP
        apply sum_map_congr
        intro k hk
        obtain ⟨cg', hcg', hu'⟩ := h.freeLen (hrange k hk)
        have hnot : ¬ amount % FPU ≤ fmax cg'.fracs := fun hle => hex ⟨k, hk, cg', hcg', hle⟩
        simp [entryLp, hfr, List.getElem?_map, hcg', hnot, hu']
      have hr1 : (entryLp c amount).rhs1 = amount / FPU + 1 := by simp [entryLp, hfr]
      rw [hs1, hr1] at h1
      exact ⟨by omega, .inr (.inl (by omega))⟩

/-- compact inside a validated group set does not stop -/
theorem claimWithMask_compact_nostop {c : CState} {gs : List Group} (h : GroupsLink c gs) {full : Nat} {e : Entry}
    {S : List Nat} {pick : Option Nat} (hpol : e.policy = .compact ∨ e.policy = .forceCompact)
    (hf : (entryLp c e.amount).feasible S = true) : NoStop ((Pool.groups full gs).claimWithMask e S pick) := by
  obtain ⟨hP, hnd, hok⟩ := feasible_scatterOk h hf
  have hloop := claimScatter_nostop (amount := e.amount) (gs := gs) (set := some S) (pick := pick)
    (by simpa [positions] using hP) (by simpa [positions] using hnd) (by simpa [positions] using hok)
  intro er herr
  rcases hpol with hpol | hpol <;>
  · simp only [Pool.claimWithMask, hpol] at herr
    split at herr
    · rename_i er' hc
      simp only [Except.error.injEq] at herr
      subst herr
      exact hloop _ hc
    · cases herr

/-! ### admission ⇒ the MILP is feasible (the set of all groups) -/

theorem sumSel_range (f : GCoef → Nat) (coefs : List GCoef) :
    sumSel f coefs (List.range coefs.length) = (coefs.map f).sum := by
  unfold sumSel
  congr 1
  apply List.ext_getElem?
  intro j
  simp only [List.getElem?_map, List.getElem?_range]
  by_cases hj : j < coefs.length
  · simp [hj]
  · simp [hj, List.getElem?_eq_none (Nat.le_of_not_lt hj)]

theorem sum_map_le {α} (l : List α) (f g : α → Nat) (h : ∀ x ∈ l, f x ≤ g x) : (l.map f).sum ≤ (l.map g).sum := by
  induction l with
  | nil => simp
  | cons x xs ih =>
    simp only [List.map_cons, List.sum_cons]
    have := h x (by simp)
    have := ih (fun y hy => h y (List.mem_cons_of_mem _ hy))
    omega

theorem sum_map_lt {α} (l : List α) (f g : α → Nat) (h : ∀ x ∈ l, f x ≤ g x) {a : α} (ha : a ∈ l)
    (hlt : f a + 1 ≤ g a) : (l.map f).sum + 1 ≤ (l.map g).sum := by
  induction l with
  | nil => cases ha
  | cons x xs ih =>
    simp only [List.map_cons, List.sum_cons]
    rcases List.mem_cons.mp ha with rfl | ha'
    · have := sum_map_le xs f g (fun y hy => h y (List.mem_cons_of_mem _ hy))
      omega
    · have := h x (by simp)
      have := ih (fun y hy => h y (List.mem_cons_of_mem _ hy)) ha'
      omega

theorem admitted_feasible {c : CState} {amount : Nat} (hlt : ∀ g ∈ c, ∀ kv ∈ g.fracs, kv.2 < FPU)
    (hadm : amount ≤ c.maxAlloc) : (entryLp c amount).feasible (List.range c.length) = true := by
  have hcl : (entryLp c amount).coefs.length = c.length := by
    unfold entryLp
    dsimp only
    split <;> simp
  have hF := maxFrac_lt c hlt
  rw [maxAlloc_eq, le_maxAlloc_iff _ _ _ hF] at hadm
  simp only [EntryLp.feasible, Bool.and_eq_true, List.all_eq_true, decide_eq_true_eq]
  refine ⟨⟨⟨fun p hp => by rw [hcl]; exact List.mem_range.mp hp, ?_⟩, ?_⟩, ?_⟩
  · exact List.pairwise_lt_range
  · rw [← hcl, sumSel_range]
    by_cases hfr : amount % FPU = 0
    · have : ((entryLp c amount).coefs.map (·.c1)).sum = totalUnits c := by
        simp [entryLp, hfr, totalUnits, Function.comp_def]
      rw [this]
      have hr1 : (entryLp c amount).rhs1 = amount / FPU := by simp [entryLp, hfr]
      rw [hr1]
      rcases hadm with h | ⟨h, -⟩ <;> omega
    · have hr1 : (entryLp c amount).rhs1 = amount / FPU + 1 := by simp [entryLp, hfr]
      rw [hr1]
      have hmap : (entryLp c amount).coefs.map (·.c1) =
          c.map (fun g => if amount % FPU ≤ fmax g.fracs then g.units + 1 else g.units) := by
        simp only [entryLp, hfr, if_false, List.map_map]
        apply List.map_congr_left
        intro g _
        simp only [Function.comp]
        split <;> rfl
      rw [hmap]
      have hge : ∀ g ∈ c, g.units ≤ (if amount % FPU ≤ fmax g.fracs then g.units + 1 else g.units) := by
        intro g _; split <;> omega
      rcases hadm with h | ⟨h, h2⟩
      · have := sum_map_le c (·.units) _ hge
        unfold totalUnits at h
        omega
      · have hpos : 0 < amount % FPU := by omega
        obtain ⟨g, hg, kv, hkv, hle⟩ := (le_maxFrac_iff c _ hpos).mp h2
        have hfm := le_fmax_of_mem g.fracs kv hkv
        have := sum_map_lt c (·.units) _ hge hg (by
          have : amount % FPU ≤ fmax g.fracs := by omega
          simp [this])
        unfold totalUnits at h
        omega
  · rw [← hcl, sumSel_range]
    by_cases hfr : amount % FPU = 0
    · simp [entryLp, hfr]
    · have hmap : (entryLp c amount).coefs.map (·.c2) = c.map (·.units) := by
        simp only [entryLp, hfr, if_false, List.map_map]
        apply List.map_congr_left
        intro g _
        simp only [Function.comp]
        split <;> rfl
      rw [hmap]
      have hr2 : (entryLp c amount).rhs2 ≤ amount / FPU := by
        simp only [entryLp, hfr, if_false]
        split
        · exact Nat.le_refl _
        · exact Nat.zero_le _
      have : amount / FPU ≤ (c.map (·.units)).sum := by
        unfold totalUnits at hadm
        generalize amount / FPU = u at hadm
        rcases hadm with h | ⟨h, -⟩ <;> omega
      generalize amount / FPU = u at this hr2
      omega

theorem range'_mem_subsetsFrom (i n : Nat) : List.range' i n ∈ subsetsFrom i n := by
  induction n generalizing i with
  | zero => simp [subsetsFrom]
  | succ n ih =>
    simp only [subsetsFrom, List.range'_succ, List.mem_append, List.mem_map]
    exact .inr ⟨_, ih (i + 1), rfl⟩

theorem range_mem_allSubsets (n : Nat) : List.range n ∈ allSubsets n := by
  rw [List.range_eq_range']
  exact range'_mem_subsetsFrom 0 n

theorem maxInt?_ne_none {l : List Int} (h : l ≠ []) : maxInt? l ≠ none := by
  cases l with
  | nil => exact absurd rfl h
  | cons x xs =>
    simp only [maxInt?]
    split <;> simp

theorem foldr_feasible_ne_nil (es : List (Nat × EntryLp))
    (h : ∀ e ∈ es, ∃ S ∈ allSubsets e.2.coefs.length, e.2.feasible S = true) :
    es.foldr (fun e acc =>
      let fs := (allSubsets e.2.coefs.length).filter e.2.feasible
      fs.flatMap (fun s => acc.map (s :: ·))) [[]] ≠ [] := by
  induction es with
  | nil => simp
  | cons e es ih =>
    simp only [List.foldr_cons]
    obtain ⟨S, hS, hf⟩ := h e (by simp)
    have hrest := ih (fun e' he' => h e' (List.mem_cons_of_mem _ he'))
    intro hnil
    rw [List.flatMap_eq_nil_iff] at hnil
    have := hnil S (List.mem_filter.mpr ⟨hS, hf⟩)
    simp only [List.map_eq_nil_iff] at this
    exact hrest this

/-- the brute-force optimum exists as soon as every entry has a feasible set among the enumerated subsets -/
theorem optimum_ne_none {lp : Lp} (h : ∀ e ∈ lp.entries, ∃ S ∈ allSubsets e.2.coefs.length, e.2.feasible S = true) :
    lp.optimum ≠ none := by
  unfold Lp.optimum
  apply maxInt?_ne_none
  intro hnil
  exact foldr_feasible_ne_nil lp.entries h (List.map_eq_nil_iff.mp hnil)

end HqModel.Alloc
