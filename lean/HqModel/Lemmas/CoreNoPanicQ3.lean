import HqModel.Lemmas.CoreNoPanicQ2
/-!
C09 progress, queue correspondence, part 3: the rest of `Model.lean` — records that change only outside of
(state, request, priority) (`KRel`: consumer lists), erasing / appending a record, `removeTask`, `processRetracted`,
`retract`, and the `movePrefilledToReady` step of `on_remove_worker`.
-/
namespace HqModel.Core.NPC

open HqModel.Core.NP

/-! ### changes outside of (state, request, priority) -/

/-- the data of a task record the queue correspondence reads -/
def key (t : Task) : TS × Nat × Int := (t.state, t.rq, t.prio)

/-- same ids, and the same (state, request, priority) under every id -/
structure KRel (ts ts' : List Task) : Prop where
  find : ∀ x, (findTask ts' x).map key = (findTask ts x).map key
  mem : ∀ x ∈ ts', ∃ y ∈ ts, y.id = x.id ∧ key y = key x

theorem KRel.refl (ts : List Task) : KRel ts ts := ⟨fun _ => rfl, fun x hx => ⟨x, hx, rfl, rfl⟩⟩

theorem KRel.trans {a b c : List Task} (h1 : KRel a b) (h2 : KRel b c) : KRel a c := by
  refine ⟨fun x => (h2.find x).trans (h1.find x), ?_⟩
  intro x hx
  obtain ⟨y, hy, e1, e2⟩ := h2.mem x hx
  obtain ⟨z, hz, f1, f2⟩ := h1.mem y hy
  exact ⟨z, hz, f1.trans e1, f2.trans e2⟩

theorem KRel.put {ts : List Task} {t' told : Task} (hf : findTask ts t'.id = some told) (hk : key t' = key told) :
    KRel ts (putTask ts t') := by
  constructor
  · intro x
    rw [findTask_putTask]
    split
    · rename_i e; subst e; rw [hf]; simp [hk]
    · rfl
  · intro x hx
    rcases mem_putTask' hx with e | ⟨hm, _⟩
    · subst e; exact ⟨told, findTask_some_mem hf, findTask_some_id hf, hk.symm⟩
    · exact ⟨x, hm, rfl, rfl⟩

theorem KRel.find_some {ts ts' : List Task} (h : KRel ts ts') {x : TaskId} {t : Task} (hf : findTask ts x = some t) :
    ∃ t', findTask ts' x = some t' ∧ key t' = key t := by
  have := h.find x
  rw [hf] at this
  cases h' : findTask ts' x with
  | none => rw [h'] at this; cases this
  | some t' => rw [h'] at this; exact ⟨t', rfl, by simpa using this⟩

theorem key_eq {a b : Task} (h : key a = key b) : a.state = b.state ∧ a.rq = b.rq ∧ a.prio = b.prio := by
  simp only [key, Prod.mk.injEq] at h; exact h

/-- the invariant only reads (state, request, priority) of the records -/
theorem _root_.HqModel.Core.NpQ.krel {D R} {s s' : State} (h : NpQ D R s) (hk : KRel s.tasks s'.tasks)
    (hq : s'.queues = s.queues) (hr : ∀ x ∈ s'.redirects, x ∈ s.redirects) : NpQ D R s' := by
  have hfs : ∀ {x : TaskId} {t : Task}, s.task? x = some t → ∃ t', s'.task? x = some t' ∧ key t' = key t :=
    fun hf => hk.find_some hf
  refine ⟨by rw [hq]; exact h.wf, ?_, by rw [hq]; exact h.pnd, ?_, ?_, h.rnd, ?_⟩
  · rw [hq]
    intro p hp e he id hid
    obtain ⟨t, a, b, c, d⟩ := readyGood_iff.mp (h.rg p hp e he id hid)
    obtain ⟨t', a', k⟩ := hfs a
    obtain ⟨k1, k2, k3⟩ := key_eq k
    exact readyGood_iff.mpr ⟨t', a', k2.trans b, k3.trans c, by
      rw [k1]; exact d.mono (fun x hx _ => hr x hx) (fun e => e)⟩
  · rw [hq]
    intro p hp pp ts hpf id hid
    obtain ⟨t, w, a, b, c, d, e⟩ := pfGood_iff.mp (h.pg p hp pp ts hpf id hid)
    obtain ⟨t', a', k⟩ := hfs a
    obtain ⟨k1, k2, k3⟩ := key_eq k
    exact pfGood_iff.mpr ⟨t', w, a', k2.trans b, k3.trans c, d, k1.trans e⟩
  · intro x hx hpre hR hD
    obtain ⟨y, hy, e1, k⟩ := hk.mem x hx
    obtain ⟨k1, k2, _⟩ := key_eq k
    obtain ⟨w, hw⟩ := hpre
    have := h.pin y hy ⟨w, k1.trans hw⟩ (e1 ▸ hR) (e1 ▸ hD)
    rw [inPrefill_iff] at this ⊢
    rw [hq, ← k2, ← e1]; exact this
  · intro id hid
    obtain ⟨t, w, a, b⟩ := isPrefilled_iff.mp (h.rpre id hid)
    obtain ⟨t', a', k⟩ := hfs a
    exact isPrefilled_iff.mpr ⟨t', w, a', (key_eq k).1.trans b⟩

theorem removeConsumer_krel {ts ts' : List Task} {d c : TaskId} (h : removeConsumer ts d c = .ok ts') :
    KRel ts ts' := by
  simp only [removeConsumer] at h
  split at h
  · cases h; exact KRel.refl _
  · rename_i dt hd
    split at h
    · cases h
    · cases h
      refine KRel.put (told := dt) ?_ rfl
      show findTask ts dt.id = some dt
      rw [findTask_some_id hd]; exact hd

theorem removeConsumers_krel (deps : List TaskId) (ts ts' : List Task) (c : TaskId)
    (h : removeConsumers ts c deps = .ok ts') : KRel ts ts' := by
  induction deps generalizing ts with
  | nil => simp only [removeConsumers] at h; cases h; exact KRel.refl _
  | cons d rest ih =>
    simp only [removeConsumers] at h
    split at h
    · cases h
    · rename_i ts1 h1
      exact (removeConsumer_krel h1).trans (ih _ h)

theorem registerDeps_krel (deps : List TaskId) (ts : List Task) (id : TaskId) :
    KRel ts (registerDeps ts id deps).1 := by
  induction deps generalizing ts with
  | nil => exact KRel.refl _
  | cons d rest ih =>
    simp only [registerDeps]
    split
    · exact ih ts
    · rename_i dep hd
      show KRel ts (registerDeps (putTask ts _) id rest).1
      refine KRel.trans (KRel.put (t' := { dep with consumers := _ }) (told := dep) ?_ (by rfl)) (ih _)
      show findTask ts dep.id = some dep
      rw [findTask_some_id hd]; exact hd

/-! ### erasing and appending a record -/

theorem mem_eraseTask_ne {ts : List Task} (hn : (taskIds ts).Nodup) {id : TaskId} {x : Task}
    (h : x ∈ eraseTask ts id) : x.id ≠ id := by
  induction ts with
  | nil => cases h
  | cons y ys ih =>
    simp only [taskIds, List.map_cons, List.nodup_cons] at hn
    simp only [eraseTask] at h
    split at h
    · rename_i e
      intro e'
      exact hn.1 (by rw [e, ← e']; exact List.mem_map_of_mem h)
    · rename_i e
      rcases List.mem_cons.mp h with e1 | e1
      · subst e1; exact e
      · exact ih hn.2 e1

/-- the record of an id that is stored nowhere is erased -/
theorem erase_npq {D R} {s : State} {id : TaskId} (h : NpQ D R s) (hn : (taskIds s.tasks).Nodup)
    (hnq : NoQ s id) (hR : id ∉ R) : NpQ (fun x => D x ∧ x ≠ id) R { s with tasks := eraseTask s.tasks id } := by
  have htk : ∀ x, x ≠ id → ({ s with tasks := eraseTask s.tasks id } : State).task? x = s.task? x := by
    intro x hx
    show findTask (eraseTask s.tasks id) x = findTask s.tasks x
    rw [findTask_eraseTask hn, if_neg hx]
  refine ⟨h.wf, ?_, h.pnd, ?_, ?_, h.rnd, ?_⟩
  · intro p hp e he x hx
    have hq := List.mem_zipIdx_iff_getElem?.mp hp
    have hne : x ≠ id := fun e' => (hnq p.2 p.1 hq).1 (e' ▸ mem_rIds.mpr ⟨e, he, hx⟩)
    obtain ⟨t, a, b⟩ := readyGood_iff.mp (h.rg p hp e he x hx)
    exact readyGood_iff.mpr ⟨t, by rw [htk x hne]; exact a, b⟩
  · intro p hp pp ts hpf x hx
    have hq := List.mem_zipIdx_iff_getElem?.mp hp
    have hne : x ≠ id := fun e' => (hnq p.2 p.1 hq).2 (e' ▸ mem_pfIds.mpr ⟨pp, ts, hpf, hx⟩)
    obtain ⟨t, w, a, b⟩ := pfGood_iff.mp (h.pg p hp pp ts hpf x hx)
    exact pfGood_iff.mpr ⟨t, w, by rw [htk x hne]; exact a, b⟩
  · intro x hx hpre hxR hxD
    have hne := mem_eraseTask_ne hn hx
    exact h.pin x (mem_eraseTask hx) hpre hxR (fun hd => hxD ⟨hd, hne⟩)
  · intro x hx
    have hne : x ≠ id := fun e' => hR (e' ▸ hx)
    obtain ⟨t, w, a, b⟩ := isPrefilled_iff.mp (h.rpre x hx)
    exact isPrefilled_iff.mpr ⟨t, w, by rw [htk x hne]; exact a, b⟩

/-- a new record (not Prefilled) is appended -/
theorem append_npq {D R} {s : State} {task : Task} (h : NpQ D R s) (hs : ∀ w, task.state ≠ .prefilled w) :
    NpQ D R { s with tasks := s.tasks ++ [task] } := by
  have htk : ∀ {x : TaskId} {t : Task}, s.task? x = some t →
      ({ s with tasks := s.tasks ++ [task] } : State).task? x = some t := by
    intro x t hx
    show findTask (s.tasks ++ [task]) x = some t
    rw [findTask_append]
    have : findTask s.tasks x = some t := hx
    rw [this]
  refine ⟨h.wf, ?_, h.pnd, ?_, ?_, h.rnd, ?_⟩
  · intro p hp e he x hx
    obtain ⟨t, a, b⟩ := readyGood_iff.mp (h.rg p hp e he x hx)
    exact readyGood_iff.mpr ⟨t, htk a, b⟩
  · intro p hp pp ts hpf x hx
    obtain ⟨t, w, a, b⟩ := pfGood_iff.mp (h.pg p hp pp ts hpf x hx)
    exact pfGood_iff.mpr ⟨t, w, htk a, b⟩
  · intro x hx hpre hxR hxD
    rcases List.mem_append.mp hx with h1 | h1
    · exact h.pin x h1 hpre hxR hxD
    · simp only [List.mem_singleton] at h1
      subst h1
      obtain ⟨w, hw⟩ := hpre
      exact absurd hw (hs w)
  · intro x hx
    obtain ⟨t, w, a, b⟩ := isPrefilled_iff.mp (h.rpre x hx)
    exact isPrefilled_iff.mpr ⟨t, w, htk a, b⟩

/-! ### `remove_task` -/

/-- **`Core::remove_task`**. For a Prefilled record the caller has removed the id from the prefill set before
(`remove_prefilled`); for Waiting / Retracting records the function removes the id from the ready list itself; a
record in any other state is in no queue. -/
theorem removeTask_npq {D R} {s s' : State} {id : TaskId} {st : TS} (h : NpQ D R s) (hn : (taskIds s.tasks).Nodup)
    (hpf : ∀ t w, s.task? id = some t → t.state = .prefilled w →
      id ∉ R ∧ ∀ (i : Nat) (q : Queue), s.queues[i]? = some q → id ∉ pfIds q)
    (heq : s.removeTask id = .ok (s', st)) : NpQ (fun x => D x ∧ x ≠ id) R s' := by
  simp only [State.removeTask] at heq
  split at heq
  · cases heq
  · rename_i task ht
    have hRn : (∀ w, task.state ≠ .prefilled w) → id ∉ R := by
      intro hnp hr
      obtain ⟨t, w, a, b⟩ := isPrefilled_iff.mp (h.rpre _ hr)
      rw [ht] at a; cases a
      exact hnp w b
    -- the branches that call `queueRemove`
    have hrem : ∀ s1, (∀ w, task.state ≠ .prefilled w) →
        ({ s with tasks := eraseTask s.tasks id } : State).queueRemove task.rq id task.prio = .ok s1 →
        NpQ (fun x => D x ∧ x ≠ id) R s1 := by
      intro s1 hnp hq1
      simp only [State.queueRemove] at hq1
      split at hq1
      · cases hq1
      · rename_i hlt
        cases hq1
        have hA : s.queueRemove task.rq id task.prio =
            .ok { s with queues := modifyQueue s.queues task.rq fun q => q.remove id task.prio } := by
          simp only [State.queueRemove]
          rw [if_neg hlt]
        have h1 := queueRemove_npq h hA
        have h2 := queueRemove_noQ h ht hA
        exact (erase_npq h1 hn h2 (hRn hnp)).mono (fun x hx => ⟨hx.1.resolve_right hx.2, hx.2⟩)
    split at heq
    · rename_i n hs
      split at heq
      · cases heq
      · rename_i s1 hq1
        have h1 := hrem s1 (by rw [hs]; intro w e; cases e) hq1
        split at heq
        · split at heq
          · cases heq
          · rename_i ts hc
            cases heq
            exact h1.krel (s' := { s1 with tasks := ts }) (removeConsumers_krel _ _ _ _ hc) rfl (fun _ hx => hx)
        · cases heq; exact h1
    · rename_i w hs
      split at heq
      · cases heq
      · rename_i s1 hq1
        have h1 := hrem s1 (by rw [hs]; intro w e; cases e) hq1
        cases heq
        exact h1
    · rename_i hnw hnr
      cases heq
      have hnq : NoQ s id ∧ id ∉ R := by
        by_cases hpre : ∃ w, task.state = .prefilled w
        · obtain ⟨w, hw⟩ := hpre
          obtain ⟨a, b⟩ := hpf task w ht hw
          refine ⟨fun i q hq => ⟨?_, b i q hq⟩, a⟩
          refine h.not_ready ht ?_ hq
          rintro (e | ⟨⟨w', e⟩, _⟩ | ⟨_, e⟩)
          · rw [hw] at e; cases e
          · rw [hw] at e; cases e
          · exact a e
        · have hnp : ∀ w, task.state ≠ .prefilled w := fun w e => hpre ⟨w, e⟩
          refine ⟨h.noQ ht ?_ hnp, hRn hnp⟩
          rintro (e | ⟨⟨w', e⟩, _⟩ | ⟨⟨w', e⟩, _⟩)
          · exact hnw 0 e
          · exact hnr w' e
          · exact hnp w' e
      exact erase_npq h hn hnq.1 hnq.2

/-! ### `process_retracted`, `retract` -/

/-- redirects exist only for Retracting tasks (`LS3.d1`, `TW3.d0`) -/
def RdRetr (s : State) : Prop := ∀ t w v, (t, w, v) ∈ s.redirects → ∃ w0, stOf s.tasks t = some (.retracting w0)

theorem _root_.HqModel.Core.Inv.rdRetr {s : State} (h : Inv s) : RdRetr s := h.ls.d1

/-- one step of `process_retracted`: the head of the accumulator goes Prefilled → Retracting -/
theorem retract_one {D} {t : TaskId} {rest : List TaskId} {s : State} {task : Task} {w : Nat}
    (h : NpQ D (t :: rest) s) (hf : s.task? t = some task) (hnr : ∀ x ∈ s.redirects, x.1 ≠ t) :
    NpQ D rest (s.setTask { task with state := .retracting w }) := by
  have hid : task.id = t := findTask_some_id hf
  have hnd := h.rnd
  rw [List.nodup_cons] at hnd
  have hself : (s.setTask { task with state := .retracting w }).task? t = some { task with state := .retracting w } := by
    rw [task?_setTask]; simp only [hid, if_true, hf]; rfl
  have hoth : ∀ x, x ≠ t → (s.setTask { task with state := .retracting w }).task? x = s.task? x := by
    intro x hx
    rw [task?_setTask]; simp only [hid, hx, if_false]
  refine ⟨h.wf, ?_, h.pnd, ?_, ?_, hnd.2, ?_⟩
  · intro p hp e he x hx
    obtain ⟨t1, a, b, c, d⟩ := readyGood_iff.mp (h.rg p hp e he x hx)
    by_cases e1 : x = t
    · subst e1
      rw [hf] at a; cases a
      exact readyGood_iff.mpr ⟨_, hself, b, c, Or.inr (Or.inl ⟨⟨w, rfl⟩, hnr⟩)⟩
    · refine readyGood_iff.mpr ⟨t1, by rw [hoth x e1]; exact a, b, c, d.mono (fun _ hy _ => hy) ?_⟩
      intro hm
      rcases List.mem_cons.mp hm with e2 | e2
      · exact absurd e2 e1
      · exact e2
  · intro p hp pp ts hpf x hx
    obtain ⟨t1, w1, a, b, c, d, e⟩ := pfGood_iff.mp (h.pg p hp pp ts hpf x hx)
    have e1 : x ≠ t := fun e' => d (e' ▸ List.mem_cons_self)
    exact pfGood_iff.mpr ⟨t1, w1, by rw [hoth x e1]; exact a, b, c, fun hm => d (List.mem_cons_of_mem _ hm), e⟩
  · intro x hx hpre hxR hxD
    rcases mem_putTask' hx with e | ⟨hm, hne⟩
    · subst e; obtain ⟨w', hw'⟩ := hpre; cases hw'
    · refine h.pin x hm hpre ?_ hxD
      intro hm'
      rcases List.mem_cons.mp hm' with e2 | e2
      · exact hne (e2.trans hid.symm)
      · exact hxR e2
  · intro x hx
    have e1 : x ≠ t := fun e' => hnd.1 (e' ▸ hx)
    obtain ⟨t1, w1, a, b⟩ := isPrefilled_iff.mp (h.rpre x (List.mem_cons_of_mem _ hx))
    exact isPrefilled_iff.mpr ⟨t1, w1, by rw [hoth x e1]; exact a, b⟩

/-- **`process_retracted`** empties the accumulator -/
theorem processRetracted_npq {D} (l : List TaskId) (s s' : State) (acc acc' : List (Nat × TaskId))
    (h : NpQ D l s) (hd : RdRetr s) (heq : s.processRetracted l acc = .ok (s', acc')) : NpQ D [] s' := by
  induction l generalizing s acc with
  | nil => simp only [State.processRetracted] at heq; cases heq; exact h
  | cons t rest ih =>
    simp only [State.processRetracted] at heq
    split at heq
    · cases heq
    · rename_i task hg
      have ht : findTask s.tasks t = some task := getTask_spec hg
      have hid : task.id = t := findTask_some_id ht
      split at heq
      · rename_i w hs
        split at heq
        · cases heq
        · rename_i s1 hw
          have e1 : s1.tasks = s.tasks := withWorker_tasks hw
          have e2 : s1.redirects = s.redirects := withWorker_redirects hw
          have h1 : NpQ D (t :: rest) s1 := withWorker_npq h hw
          have hd1 : RdRetr s1 := by unfold RdRetr; rw [e1, e2]; exact hd
          have ht1 : s1.task? t = some task := by unfold State.task?; rw [e1]; exact ht
          have hnr : ∀ x ∈ s1.redirects, x.1 ≠ t := by
            rintro ⟨a, b, c⟩ hx e
            simp only at e; subst e
            obtain ⟨w0, hw0⟩ := hd1 a b c hx
            have : stOf s1.tasks a = some task.state := stOf_of_find ht1
            rw [this, hs] at hw0; cases hw0
          refine ih _ _ (retract_one h1 ht1 hnr) ?_ heq
          intro a b c hx
          show ∃ w0, stOf (putTask s1.tasks _) a = _
          rw [stOf_put (t' := { task with state := .retracting w }) (told := task)
            (show findTask s1.tasks task.id = some task by rw [hid]; exact ht1)]
          split
          · exact ⟨w, rfl⟩
          · exact hd1 a b c hx
      · cases heq

theorem retract_npq {D R} {s s' : State} {o : Out} (h : NpQ D R s) (hd : RdRetr s)
    (heq : s.retract R = .ok (s', o)) : NpQ D [] s' := by
  simp only [State.retract] at heq
  split at heq
  · cases heq
  · rename_i s1 pairs hp
    cases heq
    exact processRetracted_npq _ _ _ _ _ h hd hp

end HqModel.Core.NPC
