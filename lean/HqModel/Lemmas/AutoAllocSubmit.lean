import HqModel.Lemmas.AutoAllocLimits
import HqModel.Lemmas.AutoAllocLife
/-!
Where `submit_allocation` calls come from (C17 `c17_silent`, `c17_pause`, `c17_resume_live`).
-/
namespace HqModel.AutoAlloc

/-! ### outputs of the per-queue primitives -/

theorem Queue.sync_outs (q : Queue) (a : Nat) (r : SyncReason) :
    ∀ o ∈ (q.sync a r).2, o = .evStarted q.id a ∨ o = .evFinished q.id a := by
  unfold Queue.sync
  split
  · intro o ho; cases ho
  · intro o ho
    simp only [Queue.syncEvents, List.mem_append] at ho
    rcases ho with ho | ho
    · split at ho
      · simp only [List.mem_singleton] at ho; exact .inl ho
      · cases ho
    · split at ho
      · simp only [List.mem_singleton] at ho; exact .inr ho
      · cases ho

theorem Queue.bumpErr_outs (c : Consts) (q : Queue) (a : Nat) :
    ∀ o ∈ (q.bumpErr c a).2, o = .evFinished q.id a := by
  unfold Queue.bumpErr
  split
  · intro o ho; cases ho
  · intro o ho
    split at ho
    · simp only [List.mem_singleton] at ho; exact ho
    · cases ho

/-- an output that is an allocation lifecycle event (`AllocationStarted` / `AllocationFinished`) -/
def Out.isLifeEvent : Out → Prop
  | .evStarted _ _ => True
  | .evFinished _ _ => True
  | _ => False

theorem Queue.applyStatus_outs (c : Consts) (q : Queue) (a : Nat) (st : St) :
    ∀ o ∈ (q.applyStatus c a st).2, o.isLifeEvent := by
  intro o ho
  cases st <;> simp only [Queue.applyStatus] at ho
  all_goals first
    | (rcases Queue.sync_outs _ _ _ o ho with h | h <;> subst h <;> trivial)
    | (have h := Queue.bumpErr_outs _ _ _ o ho; subst h; trivial)

theorem Queue.refreshStatuses_outs (c : Consts) (l : List (Nat × St)) (acc : Queue × List Out)
    (h : ∀ o ∈ acc.2, o.isLifeEvent) : ∀ o ∈ (Queue.refreshStatuses c l acc).2, o.isLifeEvent := by
  induction l generalizing acc with
  | nil => exact h
  | cons x xs ih =>
    obtain ⟨a, st⟩ := x
    obtain ⟨q, outs⟩ := acc
    simp only [Queue.refreshStatuses]
    apply ih
    intro o ho
    simp only [List.mem_append] at ho
    rcases ho with ho | ho
    · exact h o ho
    · exact Queue.applyStatus_outs c q a st o ho

theorem Queue.refreshErr_outs (c : Consts) (l : List Nat) (acc : Queue × List Out)
    (h : ∀ o ∈ acc.2, o.isLifeEvent) : ∀ o ∈ (Queue.refreshErr c l acc).2, o.isLifeEvent := by
  induction l generalizing acc with
  | nil => exact h
  | cons x xs ih =>
    obtain ⟨q, outs⟩ := acc
    simp only [Queue.refreshErr]
    apply ih
    intro o ho
    simp only [List.mem_append] at ho
    rcases ho with ho | ho
    · exact h o ho
    · have := Queue.bumpErr_outs c q x o ho; subst this; trivial

theorem Queue.refresh_outs (c : Consts) (q : Queue) (rep : Report) : ∀ o ∈ (q.refresh c rep).2, o.isLifeEvent := by
  cases rep with
  | callErr ids => exact Queue.refreshErr_outs c ids (q, []) (by intro o ho; cases ho)
  | statuses l => exact Queue.refreshStatuses_outs c l (q, []) (by intro o ho; cases ho)

theorem State.refreshAll_outs (l : List (Nat × Report)) (acc : State × List Out)
    (h : ∀ o ∈ acc.2, o.isLifeEvent) : ∀ o ∈ (State.refreshAll l acc).2, o.isLifeEvent := by
  induction l generalizing acc with
  | nil => exact h
  | cons x xs ih =>
    obtain ⟨qid, rep⟩ := x
    obtain ⟨s, outs⟩ := acc
    simp only [State.refreshAll]
    split
    · exact ih _ h
    · apply ih
      intro o ho
      simp only [List.mem_append] at ho
      rcases ho with ho | ho
      · exact h o ho
      · exact Queue.refresh_outs _ _ _ o ho

/-- `submit_allocation` is called by the scheduling tick only. -/
theorem submit_only_in_tick (s : State) (e : Ev) (x n : Nat) (h : Out.submit x n ∈ (step s e).outs) :
    ∃ now order query results, e = .tick now order query results := by
  cases e with
  | tick now order query results => exact ⟨now, order, query, results, rfl⟩
  | workerConnected w a =>
    exfalso
    simp only [step, State.workerEvent] at h
    split at h
    · simp at h
    · split at h
      · simp at h
      · simp only [List.mem_append, List.mem_singleton] at h
        rcases h with h | h
        · rcases Queue.sync_outs _ _ _ _ h with h | h <;> cases h
        · cases h
  | workerLost w a crashed =>
    exfalso
    simp only [step, State.workerEvent] at h
    split at h
    · simp at h
    · split at h
      · simp at h
      · simp only [List.mem_append, List.mem_singleton] at h
        rcases h with h | h
        · rcases Queue.sync_outs _ _ _ _ h with h | h <;> cases h
        · cases h
  | jobSubmitted => exfalso; simp [step] at h
  | addQueue p lim qid =>
    exfalso
    simp only [step, State.addQueue] at h
    split at h
    · simp at h
    · cases qid <;> simp at h
  | removeQueue q force =>
    exfalso
    simp only [step, State.removeQueue] at h
    split at h
    · simp at h
    · split at h
      · simp at h
      · split at h
        · simp at h
        · simp at h
  | pause q =>
    exfalso
    simp only [step, State.pause] at h
    split at h <;> simp at h
  | resume q =>
    exfalso
    simp only [step, State.resume] at h
    split at h <;> simp at h
  | refresh reports =>
    exfalso
    simp only [step, State.refresh] at h
    split at h
    · simp at h
    · simp only [List.mem_append, List.mem_singleton] at h
      rcases h with h | h
      · exact State.refreshAll_outs reports (s, []) (by intro o ho; cases ho) _ h
      · cases h

/-! ### the submit loop -/

theorem Queue.submitLoop_outs_prefix (p : List Nat) (acc : SubAcc) :
    ∃ more, (Queue.submitLoop p acc).outs = acc.outs ++ more := by
  induction p generalizing acc with
  | nil => exact ⟨[], by simp [Queue.submitLoop]⟩
  | cons n rest ih =>
    simp only [Queue.submitLoop]
    split
    · exact ⟨_, by simp only [List.append_assoc]; rfl⟩
    · split
      · exact ⟨_, by simp only [List.append_assoc]; rfl⟩
      · obtain ⟨more, hm⟩ := ih
          { q := { acc.q with allocs := acc.q.allocs ++ [⟨‹Nat›, n, .queued 0⟩], lim := acc.q.lim.onSubmissionSuccess }
            outs := acc.outs ++ [Out.submit acc.q.id n] ++ [Out.evQueued acc.q.id ‹Nat› n], results := ‹List SubRes›,
            newIds := acc.newIds ++ [‹Nat›], panic := none }
        exact ⟨_, by rw [hm]; simp only [List.append_assoc]; rfl⟩
    · exact ⟨_, rfl⟩

theorem Queue.submitLoop_first (n : Nat) (rest : List Nat) (acc : SubAcc) :
    Out.submit acc.q.id n ∈ (Queue.submitLoop (n :: rest) acc).outs := by
  simp only [Queue.submitLoop]
  split
  · simp
  · split
    · simp
    · obtain ⟨more, hm⟩ := Queue.submitLoop_outs_prefix rest
          { q := { acc.q with allocs := acc.q.allocs ++ [⟨‹Nat›, n, .queued 0⟩], lim := acc.q.lim.onSubmissionSuccess }
            outs := acc.outs ++ [Out.submit acc.q.id n] ++ [Out.evQueued acc.q.id ‹Nat› n], results := ‹List SubRes›,
            newIds := acc.newIds ++ [‹Nat›], panic := none }
      rw [hm]; simp
  · simp

theorem Queue.submitLoop_submit (p : List Nat) (acc : SubAcc) (x n : Nat)
    (h : Out.submit x n ∈ (Queue.submitLoop p acc).outs) :
    Out.submit x n ∈ acc.outs ∨ (x = acc.q.id ∧ n ∈ p) := by
  induction p generalizing acc with
  | nil => exact .inl h
  | cons k rest ih =>
    simp only [Queue.submitLoop] at h
    split at h
    · simp only [List.mem_append, List.mem_singleton] at h
      rcases h with (h | h) | h
      · exact .inl h
      · cases h; exact .inr ⟨rfl, by simp⟩
      · cases h
    · split at h
      · simp only [List.mem_append, List.mem_singleton] at h
        rcases h with (h | h) | h
        · exact .inl h
        · cases h; exact .inr ⟨rfl, by simp⟩
        · cases h
      · rcases ih _ h with h | ⟨h1, h2⟩
        · simp only [List.mem_append, List.mem_singleton] at h
          rcases h with (h | h) | h
          · exact .inl h
          · cases h; exact .inr ⟨rfl, by simp⟩
          · cases h
        · exact .inr ⟨h1, by simp [h2]⟩
    · simp only [List.mem_append, List.mem_singleton] at h
      rcases h with h | h
      · exact .inl h
      · cases h; exact .inr ⟨rfl, by simp⟩

theorem Limiter.status_ok (l : Limiter) (now : Nat) (h : l.status now = .ok) :
    l.limitsReached = false ∧ l.elapsed now = true := by
  unfold Limiter.status at h
  split at h
  · cases h
  · split at h
    · cases h
    · split at h
      · refine ⟨?_, ‹_›⟩
        simp only [Limiter.limitsReached, Bool.or_eq_false_iff, decide_eq_false_iff_not]
        exact ⟨‹_›, ‹_›⟩
      · cases h

theorem Limiter.status_ok_of (l : Limiter) (now : Nat) (h1 : l.limitsReached = false) (h2 : l.elapsed now = true) :
    l.status now = .ok := by
  simp only [Limiter.limitsReached, Bool.or_eq_false_iff, decide_eq_false_iff_not] at h1
  unfold Limiter.status
  simp [h1.1, h1.2, h2]

/-- a non-empty permit means the queue has space (`has_space_for_submit`) -/
theorem Queue.permit_hasSpace (q : Queue) (r : QResp) (p : List Nat) (h : q.permit r = .ok p) (hp : p ≠ []) :
    q.hasSpace = true := by
  obtain ⟨_, h2, _⟩ := Queue.permit_spec q r p h
  have hlen : 0 < p.length := List.length_pos_iff.mpr hp
  unfold Queue.permit at h
  simp only at h
  split at h
  · simp only [Except.ok.injEq] at h; exact absurd h.symm hp
  · rename_i hrem
    unfold Queue.hasSpace
    have : ¬ q.params.backlog ≤ q.queuedCount := by omega
    simp only [this, if_false]
    cases hm : q.params.mwc with
    | none => rfl
    | some m =>
      simp only [hm, Option.map_some, Option.some.injEq] at hrem
      simp only [Bool.not_eq_true', decide_eq_false_iff_not]
      omega

/-- everything that must hold of a queue for `queue_try_submit` to call `submit_allocation` -/
theorem Queue.trySubmit_submit (q : Queue) (r : QResp) (now : Nat) (res : List SubRes) (x n : Nat)
    (h : Out.submit x n ∈ (q.trySubmit r now res).outs) :
    x = q.id ∧ r.isEmpty = false ∧ q.active = true ∧ q.lim.status now = .ok ∧ ∃ p, q.permit r = .ok p ∧ n ∈ p := by
  unfold Queue.trySubmit at h
  simp only at h
  split at h
  · cases h
  · rename_i hne
    split at h
    · cases h
    · rename_i hact
      split at h
      · cases h
      · cases h
      · rename_i k rest hp
        split at h
        · rename_i hst
          rcases Queue.submitLoop_submit _ _ _ _ h with h | ⟨h1, h2⟩
          · cases h
          · refine ⟨h1, by simpa using hne, by simpa using hact, hst, _, hp, h2⟩
        · cases h

/-! ### the loop over the queues -/

theorem zip_snd_mem {α β : Type} (l1 : List α) (l2 : List β) (y : β) (h : y ∈ (l1.zip l2).map (·.2)) : y ∈ l2 := by
  simp only [List.mem_map] at h
  obtain ⟨⟨a, b⟩, hab, rfl⟩ := h
  exact (List.of_mem_zip hab).2

theorem zip_snd_nodup {α β : Type} (l1 : List α) (l2 : List β) (h : l2.Nodup) : ((l1.zip l2).map (·.2)).Nodup := by
  induction l1 generalizing l2 with
  | nil => simp
  | cons a as ih =>
    cases l2 with
    | nil => simp
    | cons b bs =>
      simp only [List.zip_cons_cons, List.map_cons, List.nodup_cons] at h ⊢
      exact ⟨fun hb => h.1 (zip_snd_mem as bs b hb), ih bs h.2⟩

theorem submitAll_outs_prefix (now : Nat) (l : List (QResp × Nat)) (acc : TickAcc) :
    ∃ more, (submitAll now l acc).outs = acc.outs ++ more := by
  induction l generalizing acc with
  | nil => exact ⟨[], by simp [submitAll]⟩
  | cons y ys ih =>
    obtain ⟨r, qid⟩ := y
    simp only [submitAll]
    split
    · exact ih acc
    · split
      · exact ⟨_, rfl⟩
      · rename_i qq _ _ _
        obtain ⟨more, hm⟩ := ih
          { st := (acc.st.setQueue (qq.trySubmit r now acc.results).q).addA2q (qq.trySubmit r now acc.results).newIds qid
            outs := acc.outs ++ (qq.trySubmit r now acc.results).outs
            results := (qq.trySubmit r now acc.results).results, panic := none }
        exact ⟨_, by rw [hm]; simp only [List.append_assoc]; rfl⟩

theorem getQueue_after_other (st : State) (q2 : Queue) (ids : List Nat) (k x : Nat) (h : ¬ x = q2.id) :
    ((st.setQueue q2).addA2q ids k).getQueue x = st.getQueue x := by
  rw [State.getQueue_addA2q, State.getQueue_setQueue]
  simp [h]

/-- a `submit_allocation` call in the loop over the queues comes from `queue_try_submit` of a queue that is
still in the state it had when the loop started -/
theorem submitAll_submit (now : Nat) (l : List (QResp × Nat)) (acc : TickAcc) (x n : Nat)
    (hnd : (l.map (·.2)).Nodup) (h : Out.submit x n ∈ (submitAll now l acc).outs) :
    Out.submit x n ∈ acc.outs ∨
    ∃ r qu res, (r, x) ∈ l ∧ acc.st.getQueue x = some qu ∧ Out.submit x n ∈ (qu.trySubmit r now res).outs := by
  induction l generalizing acc with
  | nil => exact .inl h
  | cons y ys ih =>
    obtain ⟨r, qid⟩ := y
    simp only [List.map_cons, List.nodup_cons] at hnd
    simp only [submitAll] at h
    split at h
    · rcases ih acc hnd.2 h with h | ⟨r', qu, res, h1, h2, h3⟩
      · exact .inl h
      · exact .inr ⟨r', qu, res, by simp [h1], h2, h3⟩
    · rename_i qq hqq
      have hqid := State.getQueue_id' _ _ _ hqq
      have here : Out.submit x n ∈ acc.outs ++ (qq.trySubmit r now acc.results).outs →
          Out.submit x n ∈ acc.outs ∨
          ∃ r1 qu res, (r1, x) ∈ (r, qid) :: ys ∧ acc.st.getQueue x = some qu ∧
            Out.submit x n ∈ (qu.trySubmit r1 now res).outs := by
        intro hh
        simp only [List.mem_append] at hh
        rcases hh with hh | hh
        · exact .inl hh
        · have hx := (Queue.trySubmit_submit _ _ _ _ _ _ hh).1
          have : x = qid := by omega
          subst this
          exact .inr ⟨r, qq, acc.results, by simp, hqq, hh⟩
      split at h
      · exact here h
      · rcases ih _ hnd.2 h with h | ⟨r', qu, res, h1, h2, h3⟩
        · exact here h
        · have hx : x ≠ qid := by
            intro hx; subst hx
            exact hnd.1 (List.mem_map.mpr ⟨(r', x), h1, rfl⟩)
          refine .inr ⟨r', qu, res, by simp [h1], ?_, h3⟩
          rw [← h2]
          symm
          apply getQueue_after_other
          rw [Queue.trySubmit_id]; omega

theorem submitAll_panic_head (now : Nat) (r : QResp) (qid : Nat) (ys : List (QResp × Nat)) (acc : TickAcc) (qq : Queue)
    (hq : acc.st.getQueue qid = some qq) (p : Panic) (hp : (qq.trySubmit r now acc.results).panic = some p) :
    (submitAll now ((r, qid) :: ys) acc).panic = some p := by
  simp only [submitAll, hq, hp]

/-- liveness of the loop: a queue that is due gets its `submit_allocation` call (unless the task panics) -/
theorem submitAll_live (now : Nat) (l : List (QResp × Nat)) (acc : TickAcc) (x : Nat) (r : QResp) (qu : Queue) (n : Nat)
    (rest : List Nat)
    (hnd : (l.map (·.2)).Nodup) (hmem : (r, x) ∈ l) (hq : acc.st.getQueue x = some qu)
    (hne : r.isEmpty = false) (hact : qu.active = true) (hst : qu.lim.status now = .ok)
    (hperm : qu.permit r = .ok (n :: rest))
    (hnp : (submitAll now l acc).panic = none) :
    Out.submit x n ∈ (submitAll now l acc).outs := by
  induction l generalizing acc with
  | nil => cases hmem
  | cons y ys ih =>
    obtain ⟨r', qid⟩ := y
    simp only [List.map_cons, List.nodup_cons] at hnd
    have hid := State.getQueue_id' _ _ _ hq
    by_cases hx : qid = x
    · subst hx
      have hr : r' = r := by
        simp only [List.mem_cons, Prod.mk.injEq] at hmem
        rcases hmem with ⟨h1, _⟩ | hmem
        · exact h1.symm
        · exact absurd (List.mem_map.mpr ⟨(r, qid), hmem, rfl⟩) hnd.1
      subst hr
      have hts : Out.submit qid n ∈ (qu.trySubmit r' now acc.results).outs := by
        unfold Queue.trySubmit
        simp only [hne, hact, hperm, hst]
        simp only [Bool.false_eq_true, if_false, Bool.not_true, if_true]
        have := Queue.submitLoop_first n rest ⟨{ qu with lim := qu.lim.onAttempt now }, [], acc.results, [], none⟩
        simpa [hid, hact] using this
      simp only [submitAll, hq] at hnp ⊢
      split
      · rename_i p hp
        simp only [hp] at hnp
        cases hnp
      · rename_i hp
        obtain ⟨more, hm⟩ := submitAll_outs_prefix now ys
          { st := (acc.st.setQueue (qu.trySubmit r' now acc.results).q).addA2q (qu.trySubmit r' now acc.results).newIds qid
            outs := acc.outs ++ (qu.trySubmit r' now acc.results).outs
            results := (qu.trySubmit r' now acc.results).results, panic := none }
        rw [hm]
        simp only [List.mem_append]
        exact .inl (.inr hts)
    · have hmem' : (r, x) ∈ ys := by
        simp only [List.mem_cons, Prod.mk.injEq] at hmem
        rcases hmem with ⟨_, h2⟩ | hmem
        · exact absurd h2.symm hx
        · exact hmem
      simp only [submitAll] at hnp ⊢
      split
      · rename_i hnone
        simp only [hnone] at hnp
        exact ih acc hnd.2 hmem' hq hnp
      · rename_i qq hqq
        simp only [hqq] at hnp
        have hqid := State.getQueue_id' _ _ _ hqq
        split
        · rename_i p hp
          simp only [hp] at hnp
          cases hnp
        · rename_i hp
          simp only [hp] at hnp
          apply ih _ hnd.2 hmem' _ hnp
          show ((acc.st.setQueue _).addA2q _ _).getQueue x = some qu
          rw [getQueue_after_other, hq]
          rw [Queue.trySubmit_id]; omega

/-! ### pausing -/

theorem Queue.tryPause_lim (q : Queue) : q.tryPause.lim = q.lim := by
  unfold Queue.tryPause; split <;> rfl

theorem Queue.tryPause_spec (q : Queue) (h : q.tryPause.lim.limitsReached = true) : q.tryPause.active = false := by
  rw [Queue.tryPause_lim] at h
  unfold Queue.tryPause
  cases ha : q.active <;> simp [ha, h]

theorem Queue.tryPause_active (q : Queue) (h : q.tryPause.active = true) : q.tryPause = q := by
  unfold Queue.tryPause at h ⊢
  split
  · rename_i hc
    rw [if_pos hc] at h
    cases h
  · rfl

theorem State.pauseAll_spec (s : State) : ∀ q ∈ s.pauseAll.queues, q.lim.limitsReached = true → q.active = false := by
  intro q hq hl
  simp only [State.pauseAll, List.mem_map] at hq
  obtain ⟨y, _, rfl⟩ := hq
  exact Queue.tryPause_spec y hl

end HqModel.AutoAlloc
