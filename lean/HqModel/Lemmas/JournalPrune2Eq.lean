import HqModel.Lemmas.JournalPrune2
/-!
Simulation between `load_event_file` on a journal and on its `prune2` version, with EQUAL job entries of live jobs
(`PRel2`), given the invariant `RInv` of the unpruned side.
-/
namespace HqModel.Journal

/-! ### `RInv` is kept by every record -/

theorem batch_rinv (live : Nat → Bool) (acc : List Nat) (f : List (Nat × RTask) → Nat → List (Nat × RTask))
    (hf : ∀ ts t, TasksIn acc ts → TasksIn acc (f ts t)) :
    ∀ (ids : List (Nat × Nat)) (jobs : List (Nat × RJob)), (∀ j, live j = true → JInv acc (alGet jobs j)) →
      ∀ j, live j = true → JInv acc (alGet (ids.foldl (batchStep f) jobs) j) := by
  intro ids
  induction ids with
  | nil => intro jobs h; exact h
  | cons id ids ih =>
    intro jobs h
    simp only [List.foldl_cons]
    apply ih
    intro j hj
    rw [batchStep_get]
    by_cases hij : id.1 = j
    · simp only [hij, if_true]
      intro rj e
      cases hg : alGet jobs j with
      | none => rw [hg] at e; cases e
      | some rj0 =>
        rw [hg] at e
        simp only [Option.map_some, Option.some.injEq] at e
        subst e
        exact hf _ _ (h j hj rj0 hg)
    · simp only [hij, if_false]; exact h j hj

theorem rinv_step (lj : List Nat) {acc : List Nat} {R R1 : Restorer} (x : Record)
    (h : RInv (fun j => lj.contains j) acc R) (hs : restorerStep R x = .ok R1) :
    RInv (fun j => lj.contains j) (taskWorkersStep lj acc x) R1 := by
  have hm := taskWorkersStep_mono lj acc x
  have single : ∀ j, jobOf x = some j → RInv (fun j => lj.contains j) (taskWorkersStep lj acc x) R1 := by
    intro j hj j' hl'
    have f1 := restorerStep_factor R x j hj
    rw [hs] at f1
    obtain ⟨o1, e1, l1⟩ := f1
    by_cases hjj : j' = j
    · subst hjj
      rw [l1.here]
      exact jobStep_jinv lj acc x j' hj hl' (h j' hl') e1
    · rw [l1.other j' hjj]
      exact jinv_mono hm (h j' hl')
  have same : R1.jobs = R.jobs → taskWorkersStep lj acc x = acc →
      RInv (fun j => lj.contains j) (taskWorkersStep lj acc x) R1 := by
    intro e1 e2; rw [e2]; intro j hl; rw [e1]; exact h j hl
  cases x with
  | submit j c mf d => exact single j rfl
  | jobOpen j mf => exact single j rfl
  | jobClose j => exact single j rfl
  | jobCancel j => exact single j rfl
  | jobCompleted j => exact single j rfl
  | taskStarted j t i ws => exact single j rfl
  | taskFinished j t => exact single j rfl
  | taskFailed j t => exact single j rfl
  | tasksCanceled ids =>
    simp only [restorerStep, Except.ok.injEq] at hs; subst hs
    exact batch_rinv _ acc cancelTask (fun ts t ht => cancelTask_tasksIn ht t) ids R.jobs h
  | tasksAborted ids =>
    simp only [restorerStep, Except.ok.injEq] at hs; subst hs
    exact batch_rinv _ acc abortTask (fun ts t ht => abortTask_tasksIn ht t) ids R.jobs h
  | workerLost w reason =>
    simp only [restorerStep] at hs
    cases hf : reason.isFailure with
    | true =>
      simp only [hf, if_true, Except.ok.injEq] at hs; subst hs
      intro j hl rj e
      simp only [taskWorkersStep]
      rw [alGet_map] at e
      cases hg : alGet R.jobs j with
      | none => rw [hg] at e; cases e
      | some rj0 =>
        rw [hg] at e
        simp only [Option.map_some, Option.some.injEq] at e
        subst e
        rw [increaseCrash_eq]
        exact tasksIn_map (h j hl rj0 hg) _ (incTask_state w)
    | false =>
      simp only [hf, Bool.false_eq_true, if_false, Except.ok.injEq] at hs; subst hs
      exact same rfl rfl
  | workerConnected w alloc =>
    simp only [restorerStep] at hs
    cases alloc with
    | none => simp only [Except.ok.injEq] at hs; subst hs; exact same rfl rfl
    | some a =>
      simp only at hs
      cases hq : alGet R.allocQueue a with
      | none => simp only [hq, Except.ok.injEq] at hs; subst hs; exact same rfl rfl
      | some q => simp only [hq, Except.ok.injEq] at hs; subst hs; exact same rfl rfl
  | workerOverview w => simp only [restorerStep, Except.ok.injEq] at hs; subst hs; exact same rfl rfl
  | serverStart uid => simp only [restorerStep, Except.ok.injEq] at hs; subst hs; exact same rfl rfl
  | serverStop => simp only [restorerStep, Except.ok.injEq] at hs; subst hs; exact same rfl rfl
  | queueCreated q =>
    simp only [restorerStep] at hs
    cases hq : alGet R.queues q with
    | some _ => simp [hq] at hs
    | none => simp only [hq, Except.ok.injEq] at hs; subst hs; exact same rfl rfl
  | queueRemoved q => simp only [restorerStep, Except.ok.injEq] at hs; subst hs; exact same rfl rfl
  | allocQueued q a => simp only [restorerStep, Except.ok.injEq] at hs; subst hs; exact same rfl rfl
  | allocStarted q a => simp only [restorerStep, Except.ok.injEq] at hs; subst hs; exact same rfl rfl
  | allocFinished q a => simp only [restorerStep, Except.ok.injEq] at hs; subst hs; exact same rfl rfl

/-! ### the simulation with equal entries -/

/-- restorer on the journal (`R`) vs. restorer on the `prune2`d journal (`R'`): live jobs have EQUAL entries (crash
counters included), non-live jobs have no entry in `R'`; queues, queue high-water mark and uid agree. -/
structure PRel2 (live : Nat → Bool) (R R' : Restorer) : Prop where
  jobs : ∀ j, live j = true → alGet R.jobs j = alGet R'.jobs j
  dead : ∀ j, live j = false → alGet R'.jobs j = none
  queues : R'.queues = R.queues
  maxQueue : R'.maxQueue = R.maxQueue
  uid : R'.uid = R.uid

theorem PRel2.toPRel {live : Nat → Bool} {R R' : Restorer} (h : PRel2 live R R') : PRel live R R' :=
  ⟨fun j hj => by rw [h.jobs j hj]; exact optEq_refl _, h.dead, h.queues, h.maxQueue, h.uid⟩

def JRel2 (live : Nat → Bool) (jobs jobs' : List (Nat × RJob)) : Prop :=
  (∀ j, live j = true → alGet jobs j = alGet jobs' j) ∧ (∀ j, live j = false → alGet jobs' j = none)

theorem PRel2.jrel {live : Nat → Bool} {R R' : Restorer} (h : PRel2 live R R') : JRel2 live R.jobs R'.jobs :=
  ⟨h.jobs, h.dead⟩

theorem prel2_of_jobs {live : Nat → Bool} {R R' R1 R1' : Restorer} (h : PRel2 live R R')
    (hj : JRel2 live R1.jobs R1'.jobs)
    (e1 : R1.queues = R.queues) (e2 : R1.maxQueue = R.maxQueue) (e3 : R1.uid = R.uid)
    (e1' : R1'.queues = R'.queues) (e2' : R1'.maxQueue = R'.maxQueue) (e3' : R1'.uid = R'.uid) : PRel2 live R1 R1' :=
  ⟨hj.1, hj.2, by rw [e1', e1, h.queues], by rw [e2', e2, h.maxQueue], by rw [e3', e3, h.uid]⟩

/-- both sides process the same single-job record of a live job -/
theorem prel2_step_job {live : Nat → Bool} {R R' R1 : Restorer} (h : PRel2 live R R') (x : Record) (j : Nat)
    (hj : jobOf x = some j) (hl : live j = true) (hs : restorerStep R x = .ok R1) :
    ∃ R1', restorerStep R' x = .ok R1' ∧ PRel2 live R1 R1' := by
  have f1 := restorerStep_factor R x j hj
  have f2 := restorerStep_factor R' x j hj
  rw [hs] at f1
  obtain ⟨o1, e1, l1⟩ := f1
  rw [h.jobs j hl] at e1
  cases hs' : restorerStep R' x with
  | error e =>
    rw [hs'] at f2
    simp only at f2
    rw [f2] at e1
    cases e1
  | ok R1' =>
    rw [hs'] at f2
    obtain ⟨o1', e1', l1'⟩ := f2
    rw [e1'] at e1
    cases e1
    refine ⟨R1', rfl, ⟨?_, ?_, ?_, ?_, ?_⟩⟩
    · intro j' hl'
      by_cases hjj : j' = j
      · subst hjj; rw [l1.here, l1'.here]
      · rw [l1.other j' hjj, l1'.other j' hjj]; exact h.jobs j' hl'
    · intro j' hl'
      have hjj : j' ≠ j := fun e => by rw [e, hl] at hl'; cases hl'
      rw [l1'.other j' hjj]; exact h.dead j' hl'
    · rw [l1'.queues, l1.queues, h.queues]
    · rw [l1'.maxQueue, l1.maxQueue, h.maxQueue]
    · rw [l1'.uid, l1.uid, h.uid]

/-- only the unpruned side processes a single-job record of a non-live job -/
theorem prel2_skip_job {live : Nat → Bool} {R R' R1 : Restorer} (h : PRel2 live R R') (x : Record) (j : Nat)
    (hj : jobOf x = some j) (hl : live j = false) (hs : restorerStep R x = .ok R1) : PRel2 live R1 R' := by
  have f1 := restorerStep_factor R x j hj
  rw [hs] at f1
  obtain ⟨o1, _, l1⟩ := f1
  refine ⟨?_, h.dead, ?_, ?_, ?_⟩
  · intro j' hl'
    have hjj : j' ≠ j := fun e => by rw [e, hl] at hl'; cases hl'
    rw [l1.other j' hjj]; exact h.jobs j' hl'
  · rw [h.queues, l1.queues]
  · rw [h.maxQueue, l1.maxQueue]
  · rw [h.uid, l1.uid]

theorem batch_jrel2 (live : Nat → Bool) (f : List (Nat × RTask) → Nat → List (Nat × RTask)) :
    ∀ (ids : List (Nat × Nat)) (jobs jobs' : List (Nat × RJob)), JRel2 live jobs jobs' →
      JRel2 live (ids.foldl (batchStep f) jobs) ((ids.filter fun i => live i.1).foldl (batchStep f) jobs') := by
  intro ids
  induction ids with
  | nil => intro jobs jobs' h; exact h
  | cons id ids ih =>
    intro jobs jobs' h
    simp only [List.foldl_cons, List.filter_cons]
    by_cases hl : live id.1 = true
    · simp only [hl, if_true, List.foldl_cons]
      apply ih
      refine ⟨fun j hj => ?_, fun j hj => ?_⟩
      · rw [batchStep_get, batchStep_get, h.1 j hj]
      · rw [batchStep_get]
        have hij : ¬ id.1 = j := fun e => by rw [e, hj] at hl; cases hl
        simp only [hij, if_false]; exact h.2 j hj
    · have hl' : live id.1 = false := by simpa using hl
      simp only [hl', Bool.false_eq_true, if_false]
      apply ih
      refine ⟨fun j hj => ?_, h.2⟩
      rw [batchStep_get]
      have hij : ¬ id.1 = j := fun e => by rw [e, hj] at hl'; cases hl'
      simp only [hij, if_false]; exact h.1 j hj

/-- `x'` is what the `prune2` side sees of record `x`; a `WorkerLost w` may only be dropped if it touches no live job
of the unpruned restorer `R` -/
def Pruned2 (live : Nat → Bool) (R : Restorer) (x : Record) (x' : Option Record) : Prop :=
  Pruned live x x' ∧
    ∀ w r, x = .workerLost w r → x' = none → ∀ j, live j = true → ∀ rj, alGet R.jobs j = some rj → rj.increaseCrash w = rj

def StepConcl2 (live : Nat → Bool) (R' R1 : Restorer) : Option Record → Prop
  | some y => ∃ R1', restorerStep R' y = .ok R1' ∧ PRel2 live R1 R1'
  | none => PRel2 live R1 R'

/-- one record of the journal against what the patched pruner left of it -/
theorem prel2_step {live : Nat → Bool} {R R' R1 : Restorer} (h : PRel2 live R R') (x : Record) (x' : Option Record)
    (hx2 : Pruned2 live R x x') (hs : restorerStep R x = .ok R1) : StepConcl2 live R' R1 x' := by
  obtain ⟨hx, hdrop⟩ := hx2
  have single : ∀ j, jobOf x = some j → (x' = if live j then some x else none) → StepConcl2 live R' R1 x' := by
    intro j hj hx'
    by_cases hl : live j = true
    · rw [hx', hl]; exact prel2_step_job h x j hj hl hs
    · have hl' : live j = false := by simpa using hl
      rw [hx', hl']; exact prel2_skip_job h x j hj hl' hs
  cases x with
  | submit j c mf d => exact single j rfl hx
  | jobOpen j mf => exact single j rfl hx
  | jobClose j => exact single j rfl hx
  | jobCancel j => exact single j rfl hx
  | jobCompleted j => exact single j rfl hx
  | taskStarted j t i ws => exact single j rfl hx
  | taskFinished j t => exact single j rfl hx
  | taskFailed j t => exact single j rfl hx
  | tasksCanceled ids =>
    simp only [restorerStep, Except.ok.injEq] at hs
    subst hs
    have hj := batch_jrel2 live cancelTask ids R.jobs R'.jobs h.jrel
    rcases hx with rfl | ⟨he, rfl⟩
    · exact ⟨_, rfl, prel2_of_jobs h hj rfl rfl rfl rfl rfl rfl⟩
    · rw [he] at hj; exact prel2_of_jobs h hj rfl rfl rfl rfl rfl rfl
  | tasksAborted ids =>
    simp only [restorerStep, Except.ok.injEq] at hs
    subst hs
    have hj := batch_jrel2 live abortTask ids R.jobs R'.jobs h.jrel
    rcases hx with rfl | ⟨he, rfl⟩
    · exact ⟨_, rfl, prel2_of_jobs h hj rfl rfl rfl rfl rfl rfl⟩
    · rw [he] at hj; exact prel2_of_jobs h hj rfl rfl rfl rfl rfl rfl
  | workerLost w reason =>
    simp only [restorerStep] at hs
    rcases hx with rfl | rfl
    · simp only [StepConcl2, restorerStep]
      cases hf : reason.isFailure with
      | true =>
        simp only [hf, if_true, Except.ok.injEq] at hs; subst hs
        refine ⟨_, rfl, prel2_of_jobs h ⟨fun j hj => ?_, fun j hj => ?_⟩ rfl rfl rfl rfl rfl rfl⟩
        · simp only [alGet_map, h.jobs j hj]
        · simp only [alGet_map, h.dead j hj]; rfl
      | false =>
        simp only [hf, Bool.false_eq_true, if_false, Except.ok.injEq] at hs; subst hs
        exact ⟨_, rfl, h⟩
    · cases hf : reason.isFailure with
      | true =>
        simp only [hf, if_true, Except.ok.injEq] at hs; subst hs
        refine prel2_of_jobs h ⟨fun j hj => ?_, h.dead⟩ rfl rfl rfl rfl rfl rfl
        simp only [alGet_map]
        rw [← h.jobs j hj]
        cases hg : alGet R.jobs j with
        | none => rfl
        | some rj => simp only [Option.map_some, hdrop w reason rfl rfl j hj rj hg]
      | false =>
        simp only [hf, Bool.false_eq_true, if_false, Except.ok.injEq] at hs; subst hs
        exact h
  | workerConnected w alloc =>
    have hR1 : R1.jobs = R.jobs ∧ R1.queues = R.queues ∧ R1.maxQueue = R.maxQueue ∧ R1.uid = R.uid := by
      simp only [restorerStep] at hs
      cases alloc with
      | none => simp only [Except.ok.injEq] at hs; subst hs; exact ⟨rfl, rfl, rfl, rfl⟩
      | some a =>
        simp only at hs
        cases hq : alGet R.allocQueue a with
        | none => simp only [hq, Except.ok.injEq] at hs; subst hs; exact ⟨rfl, rfl, rfl, rfl⟩
        | some q => simp only [hq, Except.ok.injEq] at hs; subst hs; exact ⟨rfl, rfl, rfl, rfl⟩
    have hjr : JRel2 live R1.jobs R'.jobs := by rw [hR1.1]; exact h.jrel
    rcases hx with rfl | rfl
    · have : ∃ R1', restorerStep R' (.workerConnected w alloc) = .ok R1' ∧ R1'.jobs = R'.jobs ∧ R1'.queues = R'.queues ∧
          R1'.maxQueue = R'.maxQueue ∧ R1'.uid = R'.uid := by
        simp only [restorerStep]
        cases alloc with
        | none => exact ⟨_, rfl, rfl, rfl, rfl, rfl⟩
        | some a =>
          simp only
          cases alGet R'.allocQueue a with
          | none => exact ⟨_, rfl, rfl, rfl, rfl, rfl⟩
          | some q => exact ⟨_, rfl, rfl, rfl, rfl, rfl⟩
      obtain ⟨R1', s1, s2, s3, s4, s5⟩ := this
      exact ⟨R1', s1, prel2_of_jobs h (by rw [s2]; exact hjr) hR1.2.1 hR1.2.2.1 hR1.2.2.2 s3 s4 s5⟩
    · exact prel2_of_jobs h hjr hR1.2.1 hR1.2.2.1 hR1.2.2.2 rfl rfl rfl
  | workerOverview w =>
    simp only [restorerStep, Except.ok.injEq] at hs; subst hs
    rcases hx with rfl | rfl
    · exact ⟨_, rfl, h⟩
    · exact h
  | serverStart uid =>
    simp only [restorerStep, Except.ok.injEq] at hs; subst hs
    simp only [Pruned, jobOf] at hx; subst hx
    exact ⟨_, rfl, ⟨h.jobs, h.dead, h.queues, h.maxQueue, rfl⟩⟩
  | serverStop =>
    simp only [restorerStep, Except.ok.injEq] at hs; subst hs
    simp only [Pruned, jobOf] at hx; subst hx
    exact ⟨_, rfl, h⟩
  | queueCreated q =>
    simp only [Pruned, jobOf] at hx; subst hx
    simp only [StepConcl2, restorerStep] at hs ⊢
    cases hq : alGet R.queues q with
    | some _ => simp [hq] at hs
    | none =>
      simp only [hq, Except.ok.injEq] at hs; subst hs
      rw [h.queues, hq]
      exact ⟨_, rfl, ⟨h.jobs, h.dead, by simp, by simp [h.maxQueue], h.uid⟩⟩
  | queueRemoved q =>
    simp only [restorerStep, Except.ok.injEq] at hs; subst hs
    simp only [Pruned, jobOf] at hx; subst hx
    exact ⟨_, rfl, ⟨h.jobs, h.dead, by simp [h.queues], h.maxQueue, h.uid⟩⟩
  | allocQueued q a =>
    simp only [restorerStep, Except.ok.injEq] at hs; subst hs
    simp only [Pruned, jobOf] at hx; subst hx
    exact ⟨_, rfl, ⟨h.jobs, h.dead, h.queues, h.maxQueue, h.uid⟩⟩
  | allocStarted q a =>
    simp only [restorerStep, Except.ok.injEq] at hs; subst hs
    simp only [Pruned, jobOf] at hx; subst hx
    exact ⟨_, rfl, h⟩
  | allocFinished q a =>
    simp only [restorerStep, Except.ok.injEq] at hs; subst hs
    simp only [Pruned, jobOf] at hx; subst hx
    exact ⟨_, rfl, h⟩

/-- what the patched pruner writes for a record is a `Pruned2` image of it, given the invariant -/
theorem prune2Record_pruned2 (lj lw acc : List Nat) (R : Restorer) (hinv : RInv (fun j => lj.contains j) acc R)
    (x : Record) : Pruned2 (fun j => lj.contains j) R x (prune2Record lj lw acc x) := by
  refine ⟨?_, ?_⟩
  · cases x
    case workerLost w r =>
      simp only [Pruned, prune2Record]
      generalize (lw.contains w || acc.contains w) = b
      cases b
      · exact Or.inr rfl
      · exact Or.inl rfl
    all_goals exact pruneRecord_pruned lj lw _
  · intro w r hx hnone j hl rj hg
    subst hx
    simp only [prune2Record] at hnone
    have hw : ¬ w ∈ acc := by
      intro hmem
      have : acc.contains w = true := by simpa using hmem
      rw [this, Bool.or_true] at hnone
      simp at hnone
    exact increaseCrash_eq_self (hinv j hl rj hg) hw

theorem some_pruned2 (R : Restorer) (x : Record) : Pruned2 (fun _ => true) R x (some x) :=
  ⟨some_pruned x, fun _ _ _ h => by cases h⟩

/-- the whole journal against its `prune2` version -/
theorem prel2_fold_prune2 (lj lw : List Nat) : ∀ (J : List Record) (acc : List Nat) (R R' R1 : Restorer),
    PRel2 (fun j => lj.contains j) R R' → RInv (fun j => lj.contains j) acc R → restorerFoldFrom R J = .ok R1 →
    ∃ R1', restorerFoldFrom R' (prune2From lj lw acc J) = .ok R1' ∧ PRel2 (fun j => lj.contains j) R1 R1' := by
  intro J
  induction J with
  | nil =>
    intro acc R R' R1 h _ hs
    simp only [restorerFoldFrom, Except.ok.injEq] at hs
    subst hs
    exact ⟨R', rfl, h⟩
  | cons x xs ih =>
    intro acc R R' R1 h hinv hs
    simp only [restorerFoldFrom] at hs
    cases hx : restorerStep R x with
    | error e => simp [hx] at hs
    | ok R2 =>
      simp only [hx] at hs
      have hstep := prel2_step h x (prune2Record lj lw acc x) (prune2Record_pruned2 lj lw acc R hinv x) hx
      have hinv2 := rinv_step lj x hinv hx
      simp only [prune2From]
      cases hp : prune2Record lj lw acc x with
      | none =>
        rw [hp] at hstep
        exact ih _ R2 R' R1 hstep hinv2 hs
      | some y =>
        rw [hp] at hstep
        obtain ⟨R2', hs', hrel⟩ := hstep
        obtain ⟨R1', hf, hr⟩ := ih _ R2 R2' R1 hrel hinv2 hs
        exact ⟨R1', by simp only [restorerFoldFrom, hs']; exact hf, hr⟩

/-- whatever both servers append afterwards keeps the two restorers related -/
theorem prel2_fold_common : ∀ (K : List Record) (R R' R1 : Restorer),
    PRel2 (fun _ => true) R R' → restorerFoldFrom R K = .ok R1 →
    ∃ R1', restorerFoldFrom R' K = .ok R1' ∧ PRel2 (fun _ => true) R1 R1' := by
  intro K
  induction K with
  | nil =>
    intro R R' R1 h hs
    simp only [restorerFoldFrom, Except.ok.injEq] at hs
    subst hs
    exact ⟨R', rfl, h⟩
  | cons x xs ih =>
    intro R R' R1 h hs
    simp only [restorerFoldFrom] at hs
    cases hx : restorerStep R x with
    | error e => simp [hx] at hs
    | ok R2 =>
      simp only [hx] at hs
      obtain ⟨R2', hs', hrel⟩ := prel2_step h x (some x) (some_pruned2 R x) hx
      obtain ⟨R1', hf, hr⟩ := ih R2 R2' R1 hrel hs
      exact ⟨R1', by simp only [restorerFoldFrom, hs']; exact hf, hr⟩

/-- what C12 compares at the level of the restorer, crash counters INCLUDED: every job entry (submits, open flag,
per-task state, last instance, crash counter), the allocation queues, the queue high-water mark, the uid -/
structure SameView2 (R R' : Restorer) : Prop where
  jobs : ∀ j, alGet R.jobs j = alGet R'.jobs j
  queues : R'.queues = R.queues
  maxQueue : R'.maxQueue = R.maxQueue
  uid : R'.uid = R.uid

theorem SameView2.toSameView {R R' : Restorer} (h : SameView2 R R') : SameView R R' :=
  ⟨fun j => by rw [h.jobs j]; exact optEq_refl _, h.queues, h.maxQueue, h.uid⟩

theorem sameView2_of_prel2 {live : Nat → Bool} {R R' : Restorer} (h : PRel2 live R R')
    (hl : ∀ j, (alGet R.jobs j).isSome = true → live j = true) : SameView2 R R' := by
  refine ⟨fun j => ?_, h.queues, h.maxQueue, h.uid⟩
  by_cases hj : live j = true
  · exact h.jobs j hj
  · have hj' : live j = false := by simpa using hj
    have h1 : alGet R.jobs j = none := by
      cases hg : alGet R.jobs j with
      | none => rfl
      | some _ => exact absurd (hl j (by simp [hg])) hj
    rw [h1, h.dead j hj']

theorem prel2_of_sameView2 {R R' : Restorer} (h : SameView2 R R') : PRel2 (fun _ => true) R R' :=
  ⟨fun j _ => h.jobs j, fun _ hj => Bool.noConfusion hj, h.queues, h.maxQueue, h.uid⟩

theorem sameView2_of_prel2_all {R R' : Restorer} (h : PRel2 (fun _ => true) R R') : SameView2 R R' :=
  ⟨fun j => h.jobs j rfl, h.queues, h.maxQueue, h.uid⟩

theorem rinv_init (live : Nat → Bool) (acc : List Nat) : RInv live acc ({} : Restorer) :=
  fun _ _ _ e => by cases e

end HqModel.Journal
