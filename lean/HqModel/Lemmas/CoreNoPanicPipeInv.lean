import HqModel.Lemmas.CoreNoPanicPipe
import HqModel.Lemmas.CoreNoPanicPipeM2
import HqModel.Lemmas.CoreNoPanicPipeSrv
import HqModel.Lemmas.CoreNoPanicPipeWk3
/-!
C09 compose, Stage 4b — the EXTRA pipeline predicate `PX` (what `PipeOk` does not say in a `hot` view, and the variant
of a pending `run`) and how it moves through the three kinds of world action (pure lemmas, parallel to
`PipeOk.deliver` / `PipeOk.foreign` / `PipeOk.own` of `Lemmas/SysWDefs.lean`, `SysWInv.lean`).

For one worker record and one task, with `R` = "the core has the task Running on this worker":

* (`run`) `R →` no `ComputeTasks` item for the task is on its way to the worker, the pending events contain neither a
  `run` nor a `rej` (`Calm`), and the task is in no backlog of the worker (`NB`: M2 will emit neither again);
* (`head`) if the pending events start with `run rv'` and the view is `asg rv` / `pre` (the core has not processed
  that `run` yet): the REST is `Calm`, the task is in no backlog, and in an `asg rv` view `rv' = rv` (the worker
  started the task with the assigned variant).
-/
namespace HqModel.SysW.NPP
open HqModel HqModel.Core

/-- the core has `t` Running on `w` -/
def runsOn (c : Core.State) (w : Nat) (t : TaskId) : Prop := ∃ rv, stOf c.tasks t = some (.running w rv)

/-- the extra pipeline predicate -/
structure PX (R : Prop) (v : V) (cs : List (Option Nat)) (P : List Ev) (ws : Worker.State) (n : Nat) : Prop where
  run : R → cs = [] ∧ Calm P ∧ NB ws n
  head : ∀ rv' rest, P = .run rv' :: rest → (v = .pre ∨ ∃ rv, v = .asg rv) →
    Calm rest ∧ NB ws n ∧ ∀ rv, v = .asg rv → rv' = rv

theorem PX.of_quiet {R : Prop} {v : V} {cs : List (Option Nat)} {P : List Ev} {ws : Worker.State} {n : Nat}
    (h : Quiet cs P ws n) : PX R v cs P ws n := by
  obtain ⟨h1, h2, h3⟩ := h
  exact ⟨fun _ => ⟨h1, by rw [h2]; exact Calm.nil, NB.of_free h3⟩, fun rv' rest hp _ => by rw [h2] at hp; cases hp⟩

/-- what the new M2 lemmas (`Lemmas/CoreNoPanicPipeM2.lean`) say about a step, for the items `cm` of the message -/
structure WStep2 (cm : List (Option Nat)) (E : List Ev) (ws ws' : Worker.State) (n : Nat) : Prop where
  nb : NB ws n → cm = [] → NB ws' n ∧ Calm E
  asg : ∀ rv, Free ws n → cm = [some rv] → ∀ rv' rest, E = .run rv' :: rest → rv' = rv ∧ rest = [] ∧ NB ws' n
  pre : Free ws n → cm = [none] → RunLast E ws' n
  back : Back ws n → cm = [] → RunLast E ws' n

theorem wstep2_of_step {n : Nat} {s s' : Worker.State} {op : Worker.Op} {outs : List Worker.Out} {cm : List (Option Nat)}
    (hk : s.bkeys.Nodup)
    (hcm : match op with
      | .compute es => itemsW n es = cm
      | _ => cm = [])
    (hs : Worker.step s op = .ok (s', outs)) : WStep2 cm (evsOuts n outs) s s' n := by
  refine ⟨fun hf e => ?_, fun rv hf e => ?_, fun hf e => ?_, fun hb e => ?_⟩
  · have : NoItem n op := by cases op <;> first | trivial | (simp only [NoItem]; rw [hcm, e])
    exact step_nb hf this hs
  · cases op with
    | compute es => exact step_asg_run hf (by rw [hcm, e]) hs
    | _ => simp only at hcm; rw [hcm] at e; cases e
  · cases op with
    | compute es => exact step_pre_run hf (by rw [hcm, e]) hs
    | _ => simp only at hcm; rw [hcm] at e; cases e
  · have : NoItem n op := by cases op <;> first | trivial | (simp only [NoItem]; rw [hcm, e])
    exact step_back_run hb hk this hs

/-- **a step of the worker** -/
theorem PX.deliver {R : Prop} {v : V} {cm cs' : List (Option Nat)} {P E : List Ev} {ws ws' : Worker.State} {n : Nat}
    (hx : PX R v (cm ++ cs') P ws n) (hp : PipeOk v (cm ++ cs') P ws n) (st : WStep cm E ws ws' n)
    (st2 : WStep2 cm E ws ws' n) : PX R v cs' (P ++ E) ws' n := by
  constructor
  · intro hR
    obtain ⟨h1, h2, h3⟩ := hx.run hR
    obtain ⟨e1, e2⟩ := List.append_eq_nil_iff.mp h1
    obtain ⟨a, b⟩ := st2.nb h3 e1
    exact ⟨e2, h2.append b, a⟩
  · intro rv' rest hE hv
    -- the events before the step start with `run`
    have old : ∀ rv0 rest0, P = .run rv0 :: rest0 → cm = [] →
        Calm rest ∧ NB ws' n ∧ ∀ rv, v = .asg rv → rv' = rv := by
      intro rv0 rest0 hP e1
      rw [hP] at hE
      simp only [List.cons_append, List.cons.injEq, Ev.run.injEq] at hE
      obtain ⟨e, er⟩ := hE
      subst e
      obtain ⟨a, b, c⟩ := hx.head rv0 rest0 hP hv
      obtain ⟨a2, b2⟩ := st2.nb b e1
      exact ⟨er ▸ a.append b2, a2, c⟩
    cases v with
    | hot => rcases hv with hv | ⟨_, hv⟩ <;> cases hv
    | quiet => rcases hv with hv | ⟨_, hv⟩ <;> cases hv
    | asg rv =>
      rcases hp with ⟨h1, h2, h3⟩ | ⟨h1, hd⟩
      · subst h2
        simp only [List.nil_append] at hE
        rcases List.append_eq_singleton_iff.mp h1 with ⟨e1, _⟩ | ⟨e1, _⟩
        · obtain ⟨a, _⟩ := st.free h3 e1
          rw [a] at hE; cases hE
        · obtain ⟨a, b, c⟩ := st2.asg rv h3 e1 rv' rest hE
          exact ⟨b ▸ Calm.nil, c, fun rv0 e => by cases e; exact a⟩
      · obtain ⟨e1, _⟩ := List.append_eq_nil_iff.mp h1
        rcases hd with ⟨rv0, rest0, hP⟩ | ⟨rest0, hP⟩ | ⟨hP, hf⟩
        · exact old rv0 rest0 hP e1
        · rw [hP] at hE; cases hE
        · obtain ⟨a, _⟩ := st.free hf e1
          rw [hP, a] at hE; cases hE
    | pre =>
      have fin : RunLast E ws' n → P = [] → Calm rest ∧ NB ws' n ∧ ∀ rv, V.pre = .asg rv → rv' = rv := by
        intro hl hP
        subst hP
        simp only [List.nil_append] at hE
        obtain ⟨a, b⟩ := hl rv' rest hE
        exact ⟨a ▸ Calm.nil, b, fun _ e => by cases e⟩
      rcases hp with ⟨h1, h2, h3⟩ | ⟨h1, hd⟩
      · rcases List.append_eq_singleton_iff.mp h1 with ⟨e1, _⟩ | ⟨e1, _⟩
        · obtain ⟨a, _⟩ := st.free h3 e1
          rw [h2, a] at hE; cases hE
        · exact fin (st2.pre h3 e1) h2
      · obtain ⟨e1, _⟩ := List.append_eq_nil_iff.mp h1
        rcases hd with ⟨hP, hb | hf⟩ | ⟨rv0, rest0, hP⟩ | ⟨rest0, hP⟩ | ⟨o, hP, hf⟩ | ⟨hP, hf⟩
        · exact fin (st2.back hb e1) hP
        · obtain ⟨a, _⟩ := st.free hf e1
          rw [hP, a] at hE; cases hE
        · exact old rv0 rest0 hP e1
        · rw [hP] at hE; cases hE
        · obtain ⟨a, _⟩ := st.free hf e1
          rw [hP, a] at hE; cases hE
        · obtain ⟨a, _⟩ := st.free hf e1
          rw [hP, a] at hE; cases hE

/-- **a foreign server action** (`hr`: a task Running on the worker afterwards was so before and nothing was sent for
it; `f`: needed only when something is pending) -/
theorem PX.foreign {R R' : Prop} {v v' : V} {cs cm : List (Option Nat)} {P : List Ev} {ws : Worker.State} {n : Nat}
    (hx : PX R v cs P ws n) (hq : v = .quiet → P = []) (f : P ≠ [] → Foreign v cm v') (hr : R' → R ∧ cm = []) :
    PX R' v' (cs ++ cm) P ws n := by
  constructor
  · intro hR'
    obtain ⟨hR, e⟩ := hr hR'
    obtain ⟨a, b, c⟩ := hx.run hR
    exact ⟨by rw [a, e]; rfl, b, c⟩
  · intro rv' rest hP hv
    obtain ⟨_, f2⟩ := f (by rw [hP]; simp)
    rcases f2 with e | ⟨e, _⟩ | ⟨e, _⟩
    · rw [e] at hv; rcases hv with hv | ⟨_, hv⟩ <;> cases hv
    · rw [e] at hv ⊢; exact hx.head rv' rest hP hv
    · have := hq e
      rw [hP] at this; cases this

/-- **the server processes the head event `e` of the worker's own stream** (`hr`: the task is Running on the worker
afterwards only if it was before — and nothing was sent —, or `e` is a `run` that found it Assigned / Prefilled /
Retracting there) -/
theorem PX.own {R R' : Prop} {e : Ev} {v v' : V} {cs cm : List (Option Nat)} {P : List Ev} {ws : Worker.State} {n : Nat}
    (hx : PX R v cs (e :: P) ws n) (hp : PipeOk v cs (e :: P) ws n) (f : Own e v cm v')
    (hr : R' → (R ∧ cm = []) ∨ ((∃ rv0, e = .run rv0) ∧ (v = .pre ∨ ∃ rv0, v = .asg rv0) ∧ cm = [])) :
    PX R' v' (cs ++ cm) P ws n := by
  constructor
  · intro hR'
    rcases hr hR' with ⟨hR, ecm⟩ | ⟨⟨rv0, he⟩, hv, ecm⟩
    · obtain ⟨a, b, c⟩ := hx.run hR
      exact ⟨by rw [a, ecm]; rfl, b.tail, c⟩
    · subst he
      obtain ⟨a, b, _⟩ := hx.head rv0 P rfl hv
      have hcs : cs = [] := by
        rcases hv with hv | ⟨rv1, hv⟩
        · subst hv
          rcases hp with ⟨_, h2, _⟩ | ⟨h1, _⟩
          · cases h2
          · exact h1
        · subst hv
          rcases hp with ⟨_, h2, _⟩ | ⟨h1, _⟩
          · cases h2
          · exact h1
      exact ⟨by rw [hcs, ecm]; rfl, a, b⟩
  · intro rv' rest hP hv
    exfalso
    obtain ⟨f1, f2⟩ := f
    have nothot : v' ≠ .hot := by
      intro e'; rw [e'] at hv; rcases hv with hv | ⟨_, hv⟩ <;> cases hv
    cases v with
    | hot => exact nothot (f1 rfl)
    | quiet => obtain ⟨_, h2, _⟩ := hp; cases h2
    | asg rv =>
      rcases hp with ⟨_, h2, _⟩ | ⟨_, hd⟩
      · cases h2
      · rcases hd with ⟨rv0, rest0, hp0⟩ | ⟨rest0, hp0⟩ | ⟨hp0, _⟩
        · cases hp0; exact nothot f2
        · cases hp0; exact nothot f2
        · rw [hP] at hp0; cases hp0
    | pre =>
      rcases hp with ⟨_, h2, _⟩ | ⟨_, hd⟩
      · cases h2
      · rcases hd with ⟨hp0, _⟩ | ⟨rv0, rest0, hp0⟩ | ⟨rest0, hp0⟩ | ⟨o, hp0, _⟩ | ⟨hp0, _⟩
        · cases hp0
        · cases hp0; exact nothot f2
        · cases hp0; exact nothot f2
        · rw [hP] at hp0; cases hp0
        · rw [hP] at hp0; cases hp0

end HqModel.SysW.NPP
