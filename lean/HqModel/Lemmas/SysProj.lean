import HqModel.Lemmas.SysJobMeta
/-!
The two single-layer runs a composed run projects to: the job layer of a composed run is a run of M4 (`Job.run`) over
the client requests and the delivered callbacks, its events are the composed run's events; the core of a composed run
is a run of M1 (`Core.run`) whose operations satisfy `Core.OpOk2` when the composed run satisfies `Sys.RunOk`.
Every theorem about ALL runs of one layer (`C01.c01_outcome_once`, `C13.c13_counters`, `Core.run_invF`, …) therefore
holds of the composed system.
-/
namespace HqModel.Sys
open HqModel

/-! ### job layer -/

theorem Job.run_append (a b : List Job.Op) (js : Job.State) :
    Job.run js (a ++ b) =
      match Job.run js a with
      | .error e => .error e
      | .ok (js1, ev1) =>
        match Job.run js1 b with
        | .error e => .error e
        | .ok (js2, ev2) => .ok (js2, ev1 ++ ev2) := by
  induction a generalizing js with
  | nil =>
    simp only [List.nil_append, Job.run]
    cases Job.run js b with
    | error e => rfl
    | ok r => obtain ⟨x, y⟩ := r; simp
  | cons op rest ih =>
    simp only [List.cons_append, Job.run]
    cases Job.step js op with
    | error e => rfl
    | ok r =>
      obtain ⟨j1, e1⟩ := r
      simp only [ih]
      cases Job.run j1 rest with
      | error e => rfl
      | ok r2 =>
        obtain ⟨j2, e2⟩ := r2
        simp only
        cases Job.run j2 b with
        | error e => rfl
        | ok r3 => obtain ⟨j3, e3⟩ := r3; simp [List.append_assoc]

theorem cbStep_job_step {js js' : Job.State} {rets left : List (List TaskId)} {cb : Core.Cb} {evs : List Job.Ev}
    (h : cbStep js rets cb = .ok (js', evs, left)) : Job.step js (cbOp cb) = .ok (js', evs) := by
  cases cb with
  | started t i ws rv =>
    simp only [cbStep] at h
    split at h
    · cases h
    · rename_i js1 ev1 hj; cases h; exact hj
  | finished t =>
    simp only [cbStep] at h
    split at h
    · cases h
    · rename_i js1 ev1 hj; cases h; exact hj
  | workerNew w =>
    simp only [cbStep] at h
    split at h
    · cases h
    · rename_i js1 ev1 hj; cases h; exact hj
  | workerLost w running reason =>
    simp only [cbStep] at h
    split at h
    · cases h
    · rename_i js1 ev1 hj; cases h; exact hj
  | error t cons =>
    simp only [cbStep] at h
    split at h
    · cases h
    · rename_i js1 ev1 ret hj
      split at h
      · cases h
      · split at h
        · cases h; simp [cbOp, Job.step, hj, Except.map]
        · cases h

theorem route_job_run : ∀ (cbs : List Core.Cb) (js js' : Job.State) (rets left : List (List TaskId)) (evs : List Job.Ev),
    route js rets cbs = .ok (js', evs, left) → Job.run js (cbs.map cbOp) = .ok (js', evs) := by
  intro cbs
  induction cbs with
  | nil => intro js js' rets left evs h; simp only [route] at h; cases h; rfl
  | cons cb rest ih =>
    intro js js' rets left evs h
    simp only [route] at h
    split at h
    · cases h
    · rename_i js1 ev1 rets1 h1
      split at h
      · cases h
      · rename_i js2 ev2 rets2 h2
        cases h
        simp only [List.map_cons, Job.run, cbStep_job_step h1, ih _ _ _ _ _ h2]

theorem coreStep_job_run {s s' : State} {cop : Core.Op} {rets : List (List TaskId)} {evs0 : List Job.Ev} {resp : Resp}
    {o : Out} (h : coreStep s cop rets evs0 resp = .ok (s', o)) :
    ∃ evs, o.evs = evs0 ++ evs ∧ Job.run s.job (o.core.cbs.map cbOp) = .ok (s'.job, evs) := by
  simp only [coreStep] at h
  split at h
  · cases h
  · rename_i c' out hs
    split at h
    · cases h
    · rename_i j' evs left hr
      split at h
      · cases h; exact ⟨evs, rfl, route_job_run _ _ _ _ _ _ hr⟩
      · cases h

/-- the job-layer operations of one world action: the client request (if any), then the delivered callbacks -/
def jobOps (op : Op) (o : Out) : List Job.Op :=
  (match op with
   | .openJob mf => [.openJob mf]
   | .submit job mf desc _ => [.submit job mf desc]
   | .close j => [.close j]
   | .cancel j _ => [.cancel j]
   | .forget j allowed => [.forget j allowed]
   | _ => []) ++ o.core.cbs.map cbOp

theorem step_job_run {s s' : State} {op : Op} {o : Out} (h : step s op = .ok (s', o)) :
    Job.run s.job (jobOps op o) = .ok (s'.job, o.evs) := by
  have single : ∀ (jop : Job.Op) (js1 : Job.State) (ev1 : List Job.Ev), Job.step s.job jop = .ok (js1, ev1) →
      ∀ (cbs : List Job.Op) (js2 : Job.State) (ev2 : List Job.Ev), Job.run js1 cbs = .ok (js2, ev2) →
      Job.run s.job ([jop] ++ cbs) = .ok (js2, ev1 ++ ev2) := by
    intro jop js1 ev1 h1 cbs js2 ev2 h2
    simp only [List.singleton_append, Job.run, h1, h2]
  have core : ∀ (cop : Core.Op) (rets : List (List TaskId)), coreStep s cop rets [] .none = .ok (s', o) →
      Job.run s.job ([] ++ o.core.cbs.map cbOp) = .ok (s'.job, o.evs) := by
    intro cop rets h
    obtain ⟨evs, e, hr⟩ := coreStep_job_run h
    rw [e]; simpa using hr
  cases op with
  | openJob mf =>
    simp only [step] at h
    split at h
    · cases h
    · rename_i j' evs id hj
      cases h
      exact (single (.openJob mf) j' evs (by simp [Job.step, hj, Except.map]) [] j' [] rfl).trans (by simp)
  | close j =>
    simp only [step] at h
    cases h
    exact (single (.close j) (s.job.closeJob j).1 (s.job.closeJob j).2.1 (by simp [Job.step]) [] _ [] rfl).trans (by simp)
  | forget j allowed =>
    simp only [step] at h
    split at h
    · cases h
    · rename_i j' b hj
      cases h
      exact (single (.forget j allowed) j' [] (by simp [Job.step, hj, Except.map]) [] j' [] rfl).trans (by simp)
  | submit job mf desc nts =>
    simp only [step] at h
    split at h
    · cases h
    · rename_i j' evs resp core hj
      have h1 : Job.step s.job (.submit job mf desc) = .ok (j', evs) := by simp [Job.step, hj, Except.map]
      split at h
      · split at h
        · split at h
          · cases h; exact (single _ _ _ h1 [] _ [] rfl).trans (by simp)
          · obtain ⟨evs2, e, hr⟩ := coreStep_job_run h
            rw [e]
            exact single _ _ _ h1 _ _ _ hr
        · cases h
      all_goals (cases h; exact (single _ _ _ h1 [] _ [] rfl).trans (by simp))
  | cancel j ids =>
    simp only [step] at h
    split at h
    · cases h
    · rename_i j' evs resp hj
      have h1 : Job.step s.job (.cancel j) = .ok (j', evs) := by simp [Job.step, hj, Except.map]
      split at h
      · split at h
        · cases h; exact (single _ _ _ h1 [] _ [] rfl).trans (by simp)
        · split at h
          · obtain ⟨evs2, e, hr⟩ := coreStep_job_run h
            rw [e]
            exact single _ _ _ h1 _ _ _ hr
          · cases h
      · cases h; exact (single _ _ _ h1 [] _ [] rfl).trans (by simp)
  | newWorker w => exact core _ _ (by simpa only [step] using h)
  | removeWorker w reason f order rets => exact core _ _ (by simpa only [step] using h)
  | newRq rqv => exact core _ _ (by simpa only [step] using h)
  | update w us rets => exact core _ _ (by simpa only [step] using h)
  | retracted w ids => exact core _ _ (by simpa only [step] using h)
  | schedule sol => exact core _ _ (by simpa only [step] using h)

/-- the job-layer operations of a composed run -/
def runJobOps : List Op → List Out → List Job.Op
  | op :: ops, o :: os => jobOps op o ++ runJobOps ops os
  | _, _ => []

/-- **the job layer of a composed run is a run of M4**, with the same events -/
theorem run_job_run : ∀ (ops : List Op) (s s' : State) (outs : List Out), run s ops = .ok (s', outs) →
    Job.run s.job (runJobOps ops outs) = .ok (s'.job, (outs.map (·.evs)).flatten) := by
  intro ops
  induction ops with
  | nil => intro s s' outs h; simp only [run] at h; cases h; rfl
  | cons op rest ih =>
    intro s s' outs h
    simp only [run] at h
    split at h
    · cases h
    · rename_i s1 o1 h1
      split at h
      · cases h
      · rename_i s2 os h2
        cases h
        simp only [runJobOps, Job.run_append, step_job_run h1, ih _ _ _ h2, List.map_cons, List.flatten_cons]

/-! ### core -/

theorem step_core_step {s s' : State} {op : Op} {o : Out} (h : step s op = .ok (s', o)) :
    (s'.core = s.core ∧ o.core.cbs = [] ∧ o.core.msgs = []) ∨
    ∃ cop, coreOp op = some cop ∧ Core.step s.core cop = .ok (s'.core, o.core) := by
  have core : ∀ (js : Job.State) (cop : Core.Op) (rets : List (List TaskId)) (evs0 : List Job.Ev) (resp : Resp),
      coreStep { s with job := js } cop rets evs0 resp = .ok (s', o) → Core.step s.core cop = .ok (s'.core, o.core) := by
    intro js cop rets evs0 resp h
    simp only [coreStep] at h
    split at h
    · cases h
    · rename_i c' out hs
      split at h
      · cases h
      · split at h
        · cases h; exact hs
        · cases h
  cases op with
  | openJob mf =>
    simp only [step] at h
    split at h
    · cases h
    · cases h; exact .inl ⟨rfl, rfl, rfl⟩
  | close j => simp only [step] at h; cases h; exact .inl ⟨rfl, rfl, rfl⟩
  | forget j allowed =>
    simp only [step] at h
    split at h
    · cases h
    · cases h; exact .inl ⟨rfl, rfl, rfl⟩
  | submit job mf desc nts =>
    simp only [step] at h
    split at h
    · cases h
    · split at h
      · split at h
        · split at h
          · cases h; exact .inl ⟨rfl, rfl, rfl⟩
          · exact .inr ⟨_, rfl, core _ _ _ _ _ h⟩
        · cases h
      all_goals (cases h; exact .inl ⟨rfl, rfl, rfl⟩)
  | cancel j ids =>
    simp only [step] at h
    split at h
    · cases h
    · split at h
      · split at h
        · cases h; exact .inl ⟨rfl, rfl, rfl⟩
        · split at h
          · exact .inr ⟨_, rfl, core _ _ _ _ _ h⟩
          · cases h
      · cases h; exact .inl ⟨rfl, rfl, rfl⟩
  | newWorker w => exact .inr ⟨_, rfl, core s.job _ _ _ _ (by simpa only [step] using h)⟩
  | removeWorker w reason f order rets => exact .inr ⟨_, rfl, core s.job _ _ _ _ (by simpa only [step] using h)⟩
  | newRq rqv => exact .inr ⟨_, rfl, core s.job _ _ _ _ (by simpa only [step] using h)⟩
  | update w us rets => exact .inr ⟨_, rfl, core s.job _ _ _ _ (by simpa only [step] using h)⟩
  | retracted w ids => exact .inr ⟨_, rfl, core s.job _ _ _ _ (by simpa only [step] using h)⟩
  | schedule sol => exact .inr ⟨_, rfl, core s.job _ _ _ _ (by simpa only [step] using h)⟩

theorem opOk2_of_opOk {s : State} {op : Op} {cop : Core.Op} (h : OpOk s op) (hc : coreOp op = some cop) :
    Core.OpOk2 s.core cop := by
  cases op <;> simp only [coreOp, Option.some.injEq] at hc <;> try cases hc
  all_goals first
    | trivial
    | exact h.1
    | exact Core.UpdatesOk.mono (fun _ _ _ h => h.proto) _ _ _ h
    | exact h

/-- **the core of a composed run is a run of M1** whose operations satisfy `Core.OpOk2` -/
theorem run_core_run : ∀ (ops : List Op) (s s' : State) (outs : List Out), run s ops = .ok (s', outs) →
    ∃ cops out, Core.run s.core cops = .ok (s'.core, out) ∧ (RunOk s ops → Core.RunOk Core.OpOk2 s.core cops) := by
  intro ops
  induction ops with
  | nil => intro s s' outs h; simp only [run] at h; cases h; exact ⟨[], {}, rfl, fun _ => trivial⟩
  | cons op rest ih =>
    intro s s' outs h
    simp only [run] at h
    split at h
    · cases h
    · rename_i s1 o1 h1
      split at h
      · cases h
      · rename_i s2 os h2
        cases h
        obtain ⟨cops, out, hr, hok⟩ := ih _ _ _ h2
        rcases step_core_step h1 with ⟨e, _, _⟩ | ⟨cop, hc, hs⟩
        · refine ⟨cops, out, by rw [← e]; exact hr, ?_⟩
          intro hrun
          simp only [RunOk, h1] at hrun
          rw [← e]; exact hok hrun.2
        · refine ⟨cop :: cops, o1.core.add out, by simp only [Core.run, hs, hr], ?_⟩
          intro hrun
          simp only [RunOk, h1] at hrun
          simp only [Core.RunOk, hs]
          exact ⟨opOk2_of_opOk hrun.1 hc, hok hrun.2⟩

end HqModel.Sys
