import HqModel.Lemmas.CoreMsgSched
import HqModel.Lemmas.CoreInvStep
/-!
Message-level facts, part 4: every operation, every run.

* `step_fx` — what ONE operation (any of the eight) does to the task records and which sends / starts it emits.
* `step_ready` — C03 on the message level: every task named in a compute message of an operation is, in the state
  the operation is applied to, a task of the map that no task of the map lists as a consumer.
* `Hist` / `run_hist` — the history invariant of C06 over all runs in which no task id is submitted twice.
-/
namespace HqModel.Core

/-- the ids an operation submits -/
def Op.newIds : Op → List TaskId
  | .newTasks nts => nts.map (·.id)
  | _ => []

/-- all ids submitted by a list of operations, in order -/
def allNewIds (ops : List Op) : List TaskId := (ops.map Op.newIds).flatten

/-- **no task id is submitted twice** (HyperQueue never reuses a task id inside one server run; the job layer
attaches fresh ids, `C02.c02_submit_ids`) -/
def NoIdReuse (ops : List Op) : Prop := (allNewIds ops).Nodup

instance (ops : List Op) : Decidable (NoIdReuse ops) := by unfold NoIdReuse; infer_instance

/-- the loss of a worker that counts as a crash of the tasks running there -/
def Op.isFailureLoss : Op → Prop
  | .removeWorker _ _ f _ _ => f = true
  | _ => False

instance (op : Op) : Decidable op.isFailureLoss := by
  cases op <;> simp only [Op.isFailureLoss] <;> infer_instance

theorem EvoN.of_evo {nw cr : Prop} {s s' : State} (ids : List TaskId) (e : Evo nw cr s s') : EvoN nw cr ids s s' :=
  fun t' ht' => Or.inl (e t' ht')

/-- **one operation**: task records only move forward (`TRel`; the crash counter is unchanged unless the operation
is the loss of a worker by failure), new records only for submitted ids; the sends and starts it emits -/
theorem step_fx {s s' : State} {op : Op} {o : Out} (hn : (taskIds s.tasks).Nodup) (h : step s op = .ok (s', o)) :
    EvoN False (¬ op.isFailureLoss) op.newIds s s' ∧ Tr False s (sends o.msgs) s' ∧ St s' (starts o.cbs) ∧
    ∀ q ∈ starts o.cbs, ∃ t ∈ s.tasks, t.id = q.1 := by
  have of_fx : ∀ {nw cr : Prop}, Fx nw cr s (sends o.msgs) (starts o.cbs) s' → (¬ op.isFailureLoss → cr) →
      EvoN False (¬ op.isFailureLoss) op.newIds s s' ∧ Tr False s (sends o.msgs) s' ∧ St s' (starts o.cbs) ∧
      ∀ q ∈ starts o.cbs, ∃ t ∈ s.tasks, t.id = q.1 :=
    fun f hc => ⟨EvoN.of_evo _ (f.evo.mono (fun x => x.elim) hc), f.tr.weaken, f.st, f.sx⟩
  cases op with
  | newWorker w =>
    simp only [step, State.newWorker] at h; cases h
    exact of_fx (nw := True) (cr := True) (Fx.silent (Evo.of_tasks rfl)) (fun _ => trivial)
  | removeWorker w reason f order rets =>
    refine of_fx (removeWorker_fx (nw := True) hn h) ?_
    intro hf
    simp only [Op.isFailureLoss] at hf
    cases f <;> simp_all
  | newRq rqv =>
    simp only [step] at h; cases h
    exact of_fx (nw := True) (cr := True) (Fx.silent (Evo.of_tasks rfl)) (fun _ => trivial)
  | newTasks nts =>
    obtain ⟨a, b, c⟩ := newTasks_evo (nw := False) (cr := ¬ (Op.newTasks nts).isFailureLoss) h
    refine ⟨a, by rw [b]; exact Tr.nil _ _ _, by rw [c]; exact St.nil _, fun q hq => ?_⟩
    rw [c] at hq; cases hq
  | cancel ids =>
    obtain ⟨a, b, c⟩ := cancelTasks_evo (nw := True) (cr := True) (by simpa [step] using h)
    exact of_fx (Fx.of_silent a b (by rw [c]; rfl)) (fun _ => trivial)
  | update w us rets => exact of_fx (taskUpdate_fx (nw := True) (cr := True) hn h) (fun _ => trivial)
  | retracted w ids => exact of_fx (retractResponse_fx (nw := True) (cr := True) hn h) (fun _ => trivial)
  | schedule sol =>
    obtain ⟨a, b, c, _⟩ := schedule_fx (cr := True) hn h
    refine ⟨EvoN.of_evo _ (a.evo.mono id (fun _ => trivial)), b, by rw [c]; exact St.nil _, fun q hq => ?_⟩
    rw [c] at hq; cases hq

/-! ### C03: only ready tasks are sent -/


theorem schedule_trk {s s' : State} {sol : Solution} {o : Out} (hi : Inv s) (hq : QueueOk s) (hm : SolMnOk s sol)
    (h : s.schedule sol = .ok (s', o)) : Inv s' ∧ Trk s s' := by
  have hinv := schedule_inv hi hq hm h
  refine ⟨hinv, ?_⟩
  simp only [State.schedule] at h
  split at h
  · cases h
  · rename_i s1 m1 h1
    obtain ⟨a1, b1⟩ := mapSn_inv _ s _ _ _ _ _ hq hi (Trk.refl s) h1
    split at h
    · cases h
    · rename_i s2 mnTasks h2
      obtain ⟨a2, b2⟩ := mapMn_inv _ s _ _ _ _ hq hm a1 b1 h2
      split at h
      · cases h
      · rename_i s3 m3 h3
        have b3 : Trk s s3 := by
          split at h3
          · cases h3; exact b2
          · exact (proactive_inv _ s _ _ _ _ _ _ _ hq a2 b2 h3).2
        split at h
        · cases h
        · split at h
          · cases h
          · cases h
            exact ⟨b3.rqs, b3.skel, b3.qsub⟩

/-- a task of the map that is not Waiting is nobody's registered consumer (`CW3`) -/
theorem ready_of_not_waiting {s : State} (hi : Inv s) {x : TaskId}
    (h : ∃ t ∈ s.tasks, t.id = x ∧ ¬ isWaiting t.state) :
    (∃ t, findTask s.tasks x = some t) ∧ ∀ dt ∈ s.tasks, x ∉ dt.consumers := by
  obtain ⟨t, ht, hid, hw⟩ := h
  have hf : findTask s.tasks x = some t := hid ▸ mem_find_of_nodup hi.nd ht
  refine ⟨⟨t, hf⟩, fun dt hdt hc => hw ?_⟩
  exact hi.cw dt.id dt (mem_find_of_nodup hi.nd hdt) x hc t.state (stOf_of_find hf)

/-- **C03 on the message level, one operation**: every task named in a compute message emitted by an operation
applied to a state satisfying the invariant is a task of that state's map, and no task of that map lists it as a
consumer (= every dependency it was registered for has finished and left the map) -/
theorem step_ready {s s' : State} {op : Op} {o : Out} (hi : Inv s) (hok : OpOk2 s op)
    (h : step s op = .ok (s', o)) :
    ∀ p ∈ sends o.msgs, (∃ t, findTask s.tasks p.1 = some t) ∧ ∀ dt ∈ s.tasks, p.1 ∉ dt.consumers := by
  have of_fx : ∀ {cr : Prop}, Fx True cr s (sends o.msgs) (starts o.cbs) s' →
      ∀ p ∈ sends o.msgs, (∃ t, findTask s.tasks p.1 = some t) ∧ ∀ dt ∈ s.tasks, p.1 ∉ dt.consumers := by
    intro cr f p hp
    obtain ⟨t, ht, hid, _, _, hw⟩ := f.tr.lo p hp
    exact ready_of_not_waiting hi ⟨t, ht, hid, hw trivial⟩
  have of_nil : sends o.msgs = [] →
      ∀ p ∈ sends o.msgs, (∃ t, findTask s.tasks p.1 = some t) ∧ ∀ dt ∈ s.tasks, p.1 ∉ dt.consumers := by
    intro e p hp; rw [e] at hp; cases hp
  cases op with
  | newWorker w => simp only [step, State.newWorker] at h; cases h; exact of_nil rfl
  | removeWorker w reason f order rets => exact of_fx (removeWorker_fx (nw := True) hi.nd h)
  | newRq rqv => simp only [step] at h; cases h; exact of_nil rfl
  | newTasks nts => exact of_nil (newTasks_evo (nw := True) (cr := True) h).2.1
  | cancel ids => exact of_nil (cancelTasks_evo (nw := True) (cr := True) (by simpa [step] using h)).2.1
  | update w us rets => exact of_fx (taskUpdate_fx (nw := True) (cr := True) hi.nd h)
  | retracted w ids => exact of_fx (retractResponse_fx (nw := True) (cr := True) hi.nd h)
  | schedule sol =>
    have h' : s.schedule sol = .ok (s', o) := h
    obtain ⟨_, _, _, hpost⟩ := schedule_fx (cr := True) hi.nd h'
    obtain ⟨hi', trk⟩ := schedule_trk hi hok.1.ok hok.2 h'
    intro p hp
    obtain ⟨t', hf', hw'⟩ := hpost p hp
    -- not a consumer in the post-state, and consumer lists are those of the pre-state
    have hk := trk.skel p.1
    rw [hf'] at hk
    cases hf : findTask s.tasks p.1 with
    | none => rw [hf] at hk; cases hk
    | some t =>
      refine ⟨⟨t, rfl⟩, fun dt hdt hc => hw' ?_⟩
      have hd := mem_find_of_nodup hi.nd hdt
      have hk2 := trk.skel dt.id
      rw [hd] at hk2
      cases hd' : findTask s'.tasks dt.id with
      | none => rw [hd'] at hk2; cases hk2
      | some dt' =>
        rw [hd'] at hk2
        simp only [Option.map_some, Option.some.injEq, Prod.mk.injEq] at hk2
        exact hi'.cw dt.id dt' hd' p.1 (hk2.2 ▸ hc) t'.state (stOf_of_find hf')


end HqModel.Core
