import HqModel.Lemmas.CoreMsgSched
import HqModel.Lemmas.CoreInvStep
/-!
Message-level facts, part 4: every operation, every run.

* `step_fx` — what ONE operation (any of the eight) does to the task records and which sends / starts it emits.
* `step_ready` — C03 on the message level: every task named in a compute message of an operation is, in the state
  the operation is applied to, a task of the map that no task of the map lists as a consumer.
* `Hist` / `run_hist` — the history invariant of C06 over all runs in which no task id is submitted twice.
-/
namespace HqModel.Core

/-- the ids an operation submits -/
def Op.newIds : Op → List TaskId
  | .newTasks nts => nts.map (·.id)
  | _ => []

/-- all ids submitted by a list of operations, in order -/
def allNewIds (ops : List Op) : List TaskId := (ops.map Op.newIds).flatten

/-- **no task id is submitted twice** (HyperQueue never reuses a task id inside one server run; the job layer
attaches fresh ids, `C02.c02_submit_ids`) -/
def NoIdReuse (ops : List Op) : Prop := (allNewIds ops).Nodup

instance (ops : List Op) : Decidable (NoIdReuse ops) := by unfold NoIdReuse; infer_instance

/-- the loss of a worker that counts as a crash of the tasks running there -/
def Op.isFailureLoss : Op → Prop
  | .removeWorker _ _ f _ _ => f = true
  | _ => False

instance (op : Op) : Decidable op.isFailureLoss := by
  cases op <;> simp only [Op.isFailureLoss] <;> infer_instance

theorem EvoN.of_evo {nw cr : Prop} {s s' : State} (ids : List TaskId) (e : Evo nw cr s s') : EvoN nw cr ids s s' :=
  fun t' ht' => Or.inl (e t' ht')

/-- **one operation**: task records only move forward (`TRel`; the crash counter is unchanged unless the operation
is the loss of a worker by failure), new records only for submitted ids; the sends it emits — in particular
(third clause) a task that was locked (Running / RunningMultiNode / Finished) when the operation began is only
sent with a strictly larger instance id — and the tasks its `started` callbacks name -/
theorem step_fx {s s' : State} {op : Op} {o : Out} (hn : (taskIds s.tasks).Nodup) (h : step s op = .ok (s', o)) :
    EvoN False (¬ op.isFailureLoss) op.newIds s s' ∧ Tr False s (sends o.msgs) s' ∧
    (∀ p ∈ sends o.msgs, ∃ t ∈ s.tasks, t.id = p.1 ∧ t.inst ≤ p.2 ∧ (locked t.state → t.inst < p.2)) ∧
    ∀ q ∈ starts o.cbs, ∃ t ∈ s.tasks, t.id = q.1 := by
  have of_fx : ∀ {cr : Prop}, Fx True cr s (sends o.msgs) (starts o.cbs) s' → (¬ op.isFailureLoss → cr) →
      EvoN False (¬ op.isFailureLoss) op.newIds s s' ∧ Tr False s (sends o.msgs) s' ∧
      (∀ p ∈ sends o.msgs, ∃ t ∈ s.tasks, t.id = p.1 ∧ t.inst ≤ p.2 ∧ (locked t.state → t.inst < p.2)) ∧
      ∀ q ∈ starts o.cbs, ∃ t ∈ s.tasks, t.id = q.1 :=
    fun f hc => ⟨EvoN.of_evo _ (f.evo.mono (fun x => x.elim) hc), f.tr.weaken,
      fun p hp => by
        obtain ⟨t, ht, a, b, c, _⟩ := f.tr.lo p hp
        exact ⟨t, ht, a, b, c trivial⟩, f.sx⟩
  have of_nil : sends o.msgs = [] →
      ∀ p ∈ sends o.msgs, ∃ t ∈ s.tasks, t.id = p.1 ∧ t.inst ≤ p.2 ∧ (locked t.state → t.inst < p.2) := by
    intro e p hp; rw [e] at hp; cases hp
  cases op with
  | newWorker w =>
    simp only [step, State.newWorker] at h; cases h
    exact of_fx (cr := True) (Fx.silent (Evo.of_tasks rfl)) (fun _ => trivial)
  | removeWorker w reason f order rets =>
    refine of_fx (removeWorker_fx (nw := True) hn h) ?_
    intro hf
    simp only [Op.isFailureLoss] at hf
    cases f <;> simp_all
  | newRq rqv =>
    simp only [step] at h; cases h
    exact of_fx (cr := True) (Fx.silent (Evo.of_tasks rfl)) (fun _ => trivial)
  | newTasks nts =>
    obtain ⟨a, b, c⟩ := newTasks_evo (nw := False) (cr := ¬ (Op.newTasks nts).isFailureLoss) h
    refine ⟨a, by rw [b]; exact Tr.nil _ _ _, of_nil b, fun q hq => ?_⟩
    rw [c] at hq; cases hq
  | cancel ids =>
    obtain ⟨a, b, c⟩ := cancelTasks_evo (nw := True) (cr := True) (by simpa [step] using h)
    exact of_fx (Fx.of_silent a b (by rw [c]; rfl)) (fun _ => trivial)
  | update w us rets => exact of_fx (taskUpdate_fx (nw := True) (cr := True) hn h) (fun _ => trivial)
  | retracted w ids => exact of_fx (retractResponse_fx (nw := True) (cr := True) hn h) (fun _ => trivial)
  | schedule sol =>
    obtain ⟨a, b, c, _, d⟩ := schedule_fx (cr := True) hn h
    refine ⟨EvoN.of_evo _ (a.evo.mono id (fun _ => trivial)), b, fun p hp => ?_, fun q hq => ?_⟩
    · obtain ⟨t, ht, e1, e2, e3⟩ := d p hp
      exact ⟨t, ht, e1, e2, fun hl => absurd hl e3⟩
    · rw [c] at hq; cases hq

/-! ### C03: only ready tasks are sent -/


theorem schedule_trk {s s' : State} {sol : Solution} {o : Out} (hi : Inv s) (hq : QueueOk s) (hm : SolMnOk s sol)
    (h : s.schedule sol = .ok (s', o)) : Inv s' ∧ Trk s s' := by
  have hinv := schedule_inv hi hq hm h
  refine ⟨hinv, ?_⟩
  simp only [State.schedule] at h
  split at h
  · cases h
  · rename_i s1 m1 h1
    obtain ⟨a1, b1⟩ := mapSn_inv _ s _ _ _ _ _ hq hi (Trk.refl s) h1
    split at h
    · cases h
    · rename_i s2 mnTasks h2
      obtain ⟨a2, b2⟩ := mapMn_inv _ s _ _ _ _ hq hm a1 b1 h2
      split at h
      · cases h
      · rename_i s3 m3 h3
        have b3 : Trk s s3 := by
          split at h3
          · cases h3; exact b2
          · exact (proactive_inv _ s _ _ _ _ _ _ _ hq a2 b2 h3).2
        split at h
        · cases h
        · split at h
          · cases h
          · cases h
            exact ⟨b3.rqs, b3.skel, b3.qsub⟩

/-- a task of the map that is not Waiting is nobody's registered consumer (`CW3`) -/
theorem ready_of_not_waiting {s : State} (hi : Inv s) {x : TaskId}
    (h : ∃ t ∈ s.tasks, t.id = x ∧ ¬ isWaiting t.state) :
    (∃ t, findTask s.tasks x = some t) ∧ ∀ dt ∈ s.tasks, x ∉ dt.consumers := by
  obtain ⟨t, ht, hid, hw⟩ := h
  have hf : findTask s.tasks x = some t := hid ▸ mem_find_of_nodup hi.nd ht
  refine ⟨⟨t, hf⟩, fun dt hdt hc => hw ?_⟩
  exact hi.cw dt.id dt (mem_find_of_nodup hi.nd hdt) x hc t.state (stOf_of_find hf)

/-- **C03 on the message level, one operation**: every task named in a compute message emitted by an operation
applied to a state satisfying the invariant is a task of that state's map, and no task of that map lists it as a
consumer (= every dependency it was registered for has finished and left the map) -/
theorem step_ready {s s' : State} {op : Op} {o : Out} (hi : Inv s) (hok : OpOk2 s op)
    (h : step s op = .ok (s', o)) :
    ∀ p ∈ sends o.msgs, (∃ t, findTask s.tasks p.1 = some t) ∧ ∀ dt ∈ s.tasks, p.1 ∉ dt.consumers := by
  have of_fx : ∀ {cr : Prop}, Fx True cr s (sends o.msgs) (starts o.cbs) s' →
      ∀ p ∈ sends o.msgs, (∃ t, findTask s.tasks p.1 = some t) ∧ ∀ dt ∈ s.tasks, p.1 ∉ dt.consumers := by
    intro cr f p hp
    obtain ⟨t, ht, hid, _, _, hw⟩ := f.tr.lo p hp
    exact ready_of_not_waiting hi ⟨t, ht, hid, hw trivial⟩
  have of_nil : sends o.msgs = [] →
      ∀ p ∈ sends o.msgs, (∃ t, findTask s.tasks p.1 = some t) ∧ ∀ dt ∈ s.tasks, p.1 ∉ dt.consumers := by
    intro e p hp; rw [e] at hp; cases hp
  cases op with
  | newWorker w => simp only [step, State.newWorker] at h; cases h; exact of_nil rfl
  | removeWorker w reason f order rets => exact of_fx (removeWorker_fx (nw := True) hi.nd h)
  | newRq rqv => simp only [step] at h; cases h; exact of_nil rfl
  | newTasks nts => exact of_nil (newTasks_evo (nw := True) (cr := True) h).2.1
  | cancel ids => exact of_nil (cancelTasks_evo (nw := True) (cr := True) (by simpa [step] using h)).2.1
  | update w us rets => exact of_fx (taskUpdate_fx (nw := True) (cr := True) hi.nd h)
  | retracted w ids => exact of_fx (retractResponse_fx (nw := True) (cr := True) hi.nd h)
  | schedule sol =>
    have h' : s.schedule sol = .ok (s', o) := h
    obtain ⟨_, _, _, hpost, _⟩ := schedule_fx (cr := True) hi.nd h'
    obtain ⟨hi', trk⟩ := schedule_trk hi hok.1.ok hok.2 h'
    intro p hp
    obtain ⟨t', hf', hw'⟩ := hpost p hp
    -- not a consumer in the post-state, and consumer lists are those of the pre-state
    have hk := trk.skel p.1
    rw [hf'] at hk
    cases hf : findTask s.tasks p.1 with
    | none => rw [hf] at hk; cases hk
    | some t =>
      refine ⟨⟨t, rfl⟩, fun dt hdt hc => hw' ?_⟩
      have hd := mem_find_of_nodup hi.nd hdt
      have hk2 := trk.skel dt.id
      rw [hd] at hk2
      cases hd' : findTask s'.tasks dt.id with
      | none => rw [hd'] at hk2; cases hk2
      | some dt' =>
        rw [hd'] at hk2
        simp only [Option.map_some, Option.some.injEq, Prod.mk.injEq] at hk2
        exact hi'.cw dt.id dt' hd' p.1 (hk2.2 ▸ hc) t'.state (stOf_of_find hf')


/-! ### C06: the history invariant -/


/-- the history invariant: `H` = all sends so far, `S` = all starts so far, `U` = all ids submitted so far.
(What an announced start means for the task — it stays locked — needs the worker records and the global invariant:
`StK` in `Lemmas/CoreMsgStart.lean`.) -/
structure Hist (s : State) (H S : List (TaskId × Nat)) (U : List TaskId) : Prop where
  nd : (taskIds s.tasks).Nodup
  mono : Mono H
  hi : ∀ p ∈ H, ∀ t ∈ s.tasks, t.id = p.1 → p.2 ≤ t.inst
  ids : ∀ t ∈ s.tasks, t.id ∈ U
  hids : ∀ p ∈ H, p.1 ∈ U
  sids : ∀ q ∈ S, q.1 ∈ U

theorem Hist.init : Hist {} [] [] [] :=
  ⟨List.nodup_nil, List.Pairwise.nil, fun _ h => (by cases h), fun _ h => (by cases h),
    fun _ h => (by cases h), fun _ h => (by cases h)⟩

theorem Hist.step {s s' : State} {H S : List (TaskId × Nat)} {U : List TaskId} {op : Op} {o : Out}
    (hh : Hist s H S U) (hfresh : ∀ x ∈ op.newIds, x ∉ U) (h : step s op = .ok (s', o)) :
    Hist s' (H ++ sends o.msgs) (S ++ starts o.cbs) (U ++ op.newIds) := by
  obtain ⟨e, tr, _, sx⟩ := step_fx hh.nd h
  -- a task of `s'` whose id was submitted before descends from a task of `s`
  have old : ∀ t' ∈ s'.tasks, t'.id ∈ U → ∃ t ∈ s.tasks, TRel False (¬ op.isFailureLoss) t t' := by
    intro t' ht' hu
    rcases e t' ht' with h1 | h1
    · exact h1
    · exact absurd hu (hfresh _ h1)
  refine ⟨step_nodup hh.nd h, ?_, ?_, ?_, ?_, ?_⟩
  · unfold Mono
    rw [List.pairwise_append]
    refine ⟨hh.mono, tr.mono, ?_⟩
    intro p hp q hq hpq
    obtain ⟨t, ht, hid, hle, _⟩ := tr.lo q hq
    exact Nat.le_trans (hh.hi p hp t ht (hid.trans hpq.symm)) hle
  · intro p hp t' ht' hid
    rcases List.mem_append.mp hp with h1 | h1
    · obtain ⟨t, ht, r⟩ := old t' ht' (hid ▸ hh.hids p h1)
      exact Nat.le_trans (hh.hi p h1 t ht (r.id ▸ hid)) r.inst
    · exact tr.hi p h1 t' ht' hid
  · intro t' ht'
    rcases e t' ht' with ⟨t, ht, r⟩ | h1
    · exact List.mem_append_left _ (r.id ▸ hh.ids t ht)
    · exact List.mem_append_right _ h1
  · intro p hp
    rcases List.mem_append.mp hp with h1 | h1
    · exact List.mem_append_left _ (hh.hids p h1)
    · obtain ⟨t, ht, hid, _⟩ := tr.lo p h1
      exact List.mem_append_left _ (hid ▸ hh.ids t ht)
  · intro q hq
    rcases List.mem_append.mp hq with h1 | h1
    · exact List.mem_append_left _ (hh.sids q h1)
    · obtain ⟨t, ht, hid⟩ := sx q h1
      exact List.mem_append_left _ (hid ▸ hh.ids t ht)

theorem allNewIds_cons (op : Op) (ops : List Op) : allNewIds (op :: ops) = op.newIds ++ allNewIds ops := by
  simp [allNewIds]

/-- the history invariant along a run in which no submitted id repeats -/
theorem Hist.run (ops : List Op) : ∀ (s s' : State) (H S : List (TaskId × Nat)) (U : List TaskId) (out : Out),
    Hist s H S U → (U ++ allNewIds ops).Nodup → Core.run s ops = .ok (s', out) →
    Hist s' (H ++ sends out.msgs) (S ++ starts out.cbs) (U ++ allNewIds ops) := by
  induction ops with
  | nil =>
    intro s s' H S U out hh _ h
    simp only [Core.run] at h; cases h
    show Hist s (H ++ []) (S ++ []) (U ++ [])
    simp only [List.append_nil]; exact hh
  | cons op rest ih =>
    intro s s' H S U out hh hnd h
    simp only [Core.run] at h
    split at h
    · cases h
    · rename_i s1 o1 h1
      split at h
      · cases h
      · rename_i s2 o2 h2
        cases h
        rw [allNewIds_cons] at hnd ⊢
        have hfresh : ∀ x ∈ op.newIds, x ∉ U := by
          intro x hx hu
          rw [List.nodup_append] at hnd
          exact hnd.2.2 x hu x (List.mem_append_left _ hx) rfl
        have := ih s1 _ _ _ _ o2 (hh.step hfresh h1) (by rw [List.append_assoc]; exact hnd) h2
        simpa [List.append_assoc] using this

theorem Hist.of_run {ops : List Op} {s : State} {out : Out} (hr : NoIdReuse ops) (h : Core.run {} ops = .ok (s, out)) :
    Hist s (sends out.msgs) (starts out.cbs) (allNewIds ops) := by
  have := Hist.run ops {} s [] [] [] out Hist.init (by simpa [NoIdReuse] using hr) h
  simpa using this



/-! ### runs -/

theorem run_append (pre : List Op) : ∀ (s s1 s2 : State) (o1 o2 : Out) (rest : List Op),
    run s pre = .ok (s1, o1) → run s1 rest = .ok (s2, o2) → run s (pre ++ rest) = .ok (s2, o1.add o2) := by
  induction pre with
  | nil =>
    intro s s1 s2 o1 o2 rest h1 h2
    simp only [run] at h1; cases h1
    simp only [List.nil_append, h2]
    rfl
  | cons op pre ih =>
    intro s s1 s2 o1 o2 rest h1 h2
    simp only [run] at h1
    split at h1
    · cases h1
    · rename_i sa oa ha
      split at h1
      · cases h1
      · rename_i sb ob hb
        cases h1
        simp only [List.cons_append, run, ha, ih _ _ _ _ _ _ hb h2]
        simp [Out.add, List.append_assoc]

/-- the side conditions of a run hold for every prefix and, in the state the prefix reaches, for the rest -/
theorem RunOk.split {P : State → Op → Prop} (pre : List Op) : ∀ (s s1 : State) (o1 : Out) (rest : List Op),
    RunOk P s (pre ++ rest) → run s pre = .ok (s1, o1) → RunOk P s pre ∧ RunOk P s1 rest := by
  induction pre with
  | nil =>
    intro s s1 o1 rest h hr
    simp only [run] at hr; cases hr
    exact ⟨trivial, h⟩
  | cons op pre ih =>
    intro s s1 o1 rest h hr
    simp only [run] at hr
    split at hr
    · cases hr
    · rename_i sa oa ha
      split at hr
      · cases hr
      · rename_i sb ob hb
        cases hr
        simp only [List.cons_append, RunOk, ha] at h ⊢
        obtain ⟨a, b⟩ := ih _ _ _ _ h.2 hb
        exact ⟨⟨h.1, a⟩, b⟩

/-- along a run every task of the final map descends from a task of the initial map, or its id was submitted -/
theorem run_desc (ops : List Op) : ∀ (s s' : State) (out : Out), (taskIds s.tasks).Nodup →
    run s ops = .ok (s', out) →
    ∀ t' ∈ s'.tasks, (∃ t ∈ s.tasks, TRel False False t t') ∨ t'.id ∈ allNewIds ops := by
  induction ops with
  | nil =>
    intro s s' out _ h t' ht'
    simp only [run] at h; cases h
    exact Or.inl ⟨t', ht', TRel.refl _ _ _⟩
  | cons op rest ih =>
    intro s s' out hn h t' ht'
    simp only [run] at h
    split at h
    · cases h
    · rename_i s1 o1 h1
      split at h
      · cases h
      · rename_i s2 o2 h2
        cases h
        rw [allNewIds_cons]
        obtain ⟨e, _⟩ := step_fx hn h1
        rcases ih _ _ _ (step_nodup hn h1) h2 t' ht' with ⟨t1, ht1, r1⟩ | h3
        · rcases e t1 ht1 with ⟨t, ht, r⟩ | h4
          · exact Or.inl ⟨t, ht, (r.mono id (fun f => f.elim)).trans r1⟩
          · exact Or.inr (List.mem_append_left _ (r1.id ▸ h4))
        · exact Or.inr (List.mem_append_right _ h3)

/-- a task that stays in the map: its instance id and crash counter do not decrease -/
theorem run_task_mono {ops : List Op} {s s' : State} {out : Out} (hn : (taskIds s.tasks).Nodup)
    (h : run s ops = .ok (s', out)) {id : TaskId} (hid : id ∉ allNewIds ops) {t t' : Task}
    (ht : s.task? id = some t) (ht' : s'.task? id = some t') : t.inst ≤ t'.inst ∧ t.crashes ≤ t'.crashes := by
  rcases run_desc ops _ _ _ hn h t' (findTask_some_mem ht') with ⟨t0, ht0, r⟩ | h1
  · have := mem_find_of_nodup hn ht0
    rw [← r.id, findTask_some_id ht'] at this
    have e : some t0 = some t := this.symm.trans ht
    cases e
    exact ⟨r.inst, r.crashes⟩
  · exact absurd (findTask_some_id ht' ▸ h1) hid

/-- one operation other than the loss of a worker by failure leaves every crash counter as it is -/
theorem step_crashes {s s' : State} {op : Op} {o : Out} (hn : (taskIds s.tasks).Nodup)
    (h : step s op = .ok (s', o)) {id : TaskId} (hid : id ∉ op.newIds) {t t' : Task}
    (ht : s.task? id = some t) (ht' : s'.task? id = some t') :
    t.inst ≤ t'.inst ∧ t.crashes ≤ t'.crashes ∧ (¬ op.isFailureLoss → t'.crashes = t.crashes) := by
  obtain ⟨e, _⟩ := step_fx hn h
  rcases e t' (findTask_some_mem ht') with ⟨t0, ht0, r⟩ | h1
  · have := mem_find_of_nodup hn ht0
    rw [← r.id, findTask_some_id ht'] at this
    have e : some t0 = some t := this.symm.trans ht
    cases e
    exact ⟨r.inst, r.crashes, r.creq⟩
  · exact absurd (findTask_some_id ht' ▸ h1) hid


end HqModel.Core
