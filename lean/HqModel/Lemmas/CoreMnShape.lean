import HqModel.Lemmas.CoreMsgStart
/-!
The SHAPE of the worker list of a RunningMultiNode task, as an invariant of every run from the empty core (no side
condition): the list is **non-empty and duplicate-free** (`MnShape`).

Why it matters: `reset_mn_task_workers` (used by `task_finished`, and since the fix of F32 by `task_reject`) visits the
list in order and `unwrap`s the multi-node assignment of each worker — a worker named twice would be found reset at
its second visit (`reset_mn_task_workers.unwrap`) — and `task_reject` / `task_running` / `task_finished` read `ws[0]`.
The global invariant `InvF` talks about membership only, so it says neither.

* where lists come from: one scheduling round (`mapMnSets`): `set_mn_task` asserts `is_free()` for every worker of the
  set in turn, so a set that names a worker twice stops the round (`setMnAll_nodup`); `send_messages` (`mnMsgs`)
  unwraps the root of every task placed in the round, so an empty set stops it too (`mnMsgs_nonempty`). `MnNew A s s'`
  is the frame of the round's parts: a RunningMultiNode record of `s'` is a record of `s`, or it was placed now — its id
  is in `A` (the round's multi-node list) and its list is duplicate-free;
* how lists change afterwards: only by the loss of a non-root worker (`TRel.mnl` / `KeepL`: a sublist with the same head).
-/
namespace HqModel.Core

/-- every RunningMultiNode task has a non-empty, duplicate-free worker list -/
def MnShape (s : State) : Prop := ∀ t ∈ s.tasks, ∀ l, t.state = .runningMN l → l ≠ [] ∧ l.Nodup

instance (s : State) : Decidable (MnShape s) := by
  unfold MnShape
  haveI : DecidablePred fun t : Task => ∀ l, t.state = .runningMN l → l ≠ [] ∧ l.Nodup := fun t => by
    cases hs : t.state with
    | runningMN l =>
      by_cases hc : l ≠ [] ∧ l.Nodup
      · exact isTrue (fun l' e => by rw [hs] at e; cases e; exact hc)
      · exact isFalse (fun hh => hc (hh l hs))
    | _ => exact isTrue (fun l' e => by rw [hs] at e; cases e)
  infer_instance

/-! ### one scheduling round -/

/-- a RunningMultiNode record of `s'` is a record of `s`, or was placed on the way (id in `A`, list duplicate-free) -/
def MnNew (A : List TaskId) (s s' : State) : Prop :=
  ∀ t' ∈ s'.tasks, ∀ l', t'.state = .runningMN l' → t' ∈ s.tasks ∨ (t'.id ∈ A ∧ l'.Nodup)

theorem MnNew.refl (A : List TaskId) (s : State) : MnNew A s s := fun _ h _ _ => .inl h

theorem MnNew.trans {A : List TaskId} {a b c : State} (h1 : MnNew A a b) (h2 : MnNew A b c) : MnNew A a c := by
  intro t' ht' l' hs
  rcases h2 t' ht' l' hs with h | h
  · exact h1 t' h l' hs
  · exact .inr h

theorem MnNew.mono {A B : List TaskId} (hab : ∀ x ∈ A, x ∈ B) {a b : State} (h : MnNew A a b) : MnNew B a b := by
  intro t' ht' l' hs
  rcases h t' ht' l' hs with h | ⟨h1, h2⟩
  · exact .inl h
  · exact .inr ⟨hab _ h1, h2⟩

theorem MnNew.of_tasks {A : List TaskId} {s s' : State} (h : s'.tasks = s.tasks) : MnNew A s s' := by
  intro t' ht' _ _; rw [h] at ht'; exact .inl ht'

/-- a record is replaced by one that is not RunningMultiNode -/
theorem MnNew.set {A : List TaskId} {s : State} {t : Task} (h : ¬ isMN t.state) : MnNew A s (s.setTask t) := by
  intro t' ht' l' hs
  rcases mem_putTask ht' with e | e
  · subst e; rw [hs] at h; simp at h
  · exact .inl e

/-- a record is replaced by a RunningMultiNode one -/
theorem MnNew.setMN {A : List TaskId} {s : State} {t : Task} {ws : List Nat} (hs : t.state = .runningMN ws)
    (hid : t.id ∈ A) (hnd : ws.Nodup) : MnNew A s (s.setTask t) := by
  intro t' ht' l' hs'
  rcases mem_putTask ht' with e | e
  · subst e; rw [hs] at hs'; cases hs'; exact .inr ⟨hid, hnd⟩
  · exact .inl e

theorem placeSnBody_mn {A : List TaskId} {s s' : State} {m m' : List WUpdate} {v : Nat} {r : Rq} {id : TaskId} {w : Nat}
    (h : s.placeSnBody m v r id w = .ok (s', m')) : MnNew A s s' := by
  simp only [State.placeSnBody] at h
  split at h
  · cases h
  · rename_i s1 hw
    have f1 : MnNew A s s1 := MnNew.of_tasks (withWorker_tasks hw)
    split at h
    · cases h
    · rename_i task hg
      split at h
      · cases h
        exact f1.trans (MnNew.set (by simp))
      · rename_i old hs
        split at h
        · split at h
          · cases h
          · rename_i r' hr
            split at h
            · cases h
            · rename_i s3 hw3
              cases h
              have f3 : MnNew A s1 s3 := MnNew.of_tasks (by have := withWorker_tasks hw3; exact this)
              exact (f1.trans f3).trans (MnNew.set (by simp))
        · cases h
          exact f1.trans (MnNew.of_tasks rfl)
      · rename_i old hs
        split at h
        · cases h
        · rename_i s2 hw2
          split at h
          · cases h
          · cases h
            have f2 : MnNew A s1 s2 := MnNew.of_tasks (withWorker_tasks hw2)
            have f3 : MnNew A s2 { s2 with redirects := s2.redirects ++ [(id, w, v)] } := MnNew.of_tasks rfl
            exact ((f1.trans f2).trans f3).trans (MnNew.set (by simp))
      · cases h

theorem placeAll_mn {A : List TaskId} (l : List (TaskId × Nat)) (s s' : State) (m m' : List WUpdate) (v : Nat) (r : Rq)
    (h : s.placeAll m v r l = .ok (s', m')) : MnNew A s s' := by
  induction l generalizing s m with
  | nil => simp only [State.placeAll] at h; cases h; exact MnNew.refl _ _
  | cons p rest ih =>
    obtain ⟨id, w⟩ := p
    simp only [State.placeAll] at h
    split at h
    · cases h
    · rename_i s1 m1 h1
      exact (placeSnBody_mn (placeSn_ok h1).1).trans (ih _ _ h)

theorem mapSn_mn {A : List TaskId} (es : List SnEntry) (s s' : State) (now : Nat) (m m' : List WUpdate)
    (h : s.mapSn now m es = .ok (s', m')) : MnNew A s s' := by
  induction es generalizing s m with
  | nil => simp only [State.mapSn] at h; cases h; exact MnNew.refl _ _
  | cons e rest ih =>
    simp only [State.mapSn] at h
    split at h
    · cases h
    · split at h
      · cases h
      · split at h
        · cases h
        · rename_i q hq
          split at h
          · cases h
          · rename_i q' hq'
            split at h
            · cases h
            · rename_i s2 m2 hp
              have f1 : MnNew A s { s with queues := s.queues.set e.rq q' } := MnNew.of_tasks rfl
              exact (f1.trans (placeAll_mn _ _ _ _ _ _ _ hp)).trans (ih _ _ h)

/-- `set_mn_task` asserts `is_free()`: a worker set that names a worker twice stops the round -/
theorem setMnAll_nodup (l : List Nat) (s s' : State) (id : TaskId) (first : Bool)
    (h : setMnAll s id l first = .ok s') : l.Nodup := by
  induction l generalizing s first with
  | nil => exact List.nodup_nil
  | cons w rest ih =>
    simp only [setMnAll] at h
    split at h
    · cases h
    · rename_i s1 hw
      have h1 : setMnAll s id [w] first = .ok s1 := by simp [setMnAll, hw]
      have a := (setMnAll_spec [w] s s1 id first h1).2.2.2.2.2.2.1 w
      have b := (setMnAll_spec rest s1 s' id false h).2.2.2.2.2.2.2
      refine List.nodup_cons.mpr ⟨fun hm => ?_, ih _ _ h⟩
      have hb := b w hm
      rw [a] at hb
      simp at hb

theorem mapMnSets_mn (sets : List (List Nat)) (s s' : State) (rq : Nat) (acc acc' : List TaskId)
    (h : s.mapMnSets rq sets acc = .ok (s', acc')) : MnNew acc' s s' ∧ ∀ x ∈ acc, x ∈ acc' := by
  induction sets generalizing s acc with
  | nil => simp only [State.mapMnSets] at h; cases h; exact ⟨MnNew.refl _ _, fun _ hx => hx⟩
  | cons ws rest ih =>
    simp only [State.mapMnSets] at h
    split at h
    · cases h
    · rename_i q hq
      split at h
      · cases h
      · rename_i p ids more hr
        split at h
        · cases h
        · rename_i id ids'
          split at h
          · cases h
          · rename_i s2 hm
            split at h
            · cases h
            · rename_i task hg
              split at h
              · cases h
              · obtain ⟨a, b⟩ := ih _ _ h
                have hin : id ∈ acc' := b id (List.mem_append_right _ List.mem_cons_self)
                have hid : task.id = id := findTask_some_id (getTask_ok hg)
                have f12 : MnNew acc' s s2 := MnNew.of_tasks (by have := setMnAll_tasks _ _ _ _ _ hm; exact this)
                have f3 : MnNew acc' s2 (s2.setTask { task with state := .runningMN ws }) :=
                  MnNew.setMN (t := { task with state := .runningMN ws }) rfl (by show task.id ∈ acc'; rw [hid]; exact hin)
                    (setMnAll_nodup _ _ _ _ _ hm)
                exact ⟨(f12.trans f3).trans a, fun x hx => b x (List.mem_append_left _ hx)⟩

theorem mapMn_mn (es : List MnEntry) (s s' : State) (acc acc' : List TaskId)
    (h : s.mapMn es acc = .ok (s', acc')) : MnNew acc' s s' ∧ ∀ x ∈ acc, x ∈ acc' := by
  induction es generalizing s acc with
  | nil => simp only [State.mapMn] at h; cases h; exact ⟨MnNew.refl _ _, fun _ hx => hx⟩
  | cons e rest ih =>
    simp only [State.mapMn] at h
    split at h
    · cases h
    · rename_i s1 acc1 h1
      obtain ⟨a, b⟩ := mapMnSets_mn _ _ _ _ _ _ h1
      obtain ⟨c, d⟩ := ih _ _ h
      exact ⟨(a.mono d).trans c, fun x hx => d x (b x hx)⟩

theorem prefillBack_mn {A : List TaskId} (rq : Nat) (l : List TaskId) (s s' : State) (keep keep' : List TaskId)
    (h : State.prefillWorker.back rq s l keep = .ok (s', keep')) : MnNew A s s' :=
  MnNew.of_tasks (prefillBack_tasks _ _ _ _ _ _ h).1

theorem prefillMark_mn {A : List TaskId} (w : Nat) (l : List TaskId) (s s' : State)
    (h : State.prefillWorker.mark w s l = .ok s') : MnNew A s s' := by
  induction l generalizing s with
  | nil => simp only [State.prefillWorker.mark] at h; cases h; exact MnNew.refl _ _
  | cons id rest ih =>
    simp only [State.prefillWorker.mark] at h
    split at h
    · cases h
    · rename_i t hg
      split at h
      · split at h
        · cases h
        · rename_i s2 hw
          have f1 : MnNew A s (s.setTask { t with state := .prefilled w }) := MnNew.set (by simp)
          have f2 : MnNew A (s.setTask { t with state := .prefilled w }) s2 := MnNew.of_tasks (withWorker_tasks hw)
          exact (f1.trans f2).trans (ih _ h)
      · cases h

theorem prefillWorker_mn {A : List TaskId} {s s' : State} {m m' : List WUpdate} {rq size w : Nat}
    (h : s.prefillWorker m rq size w = .ok (s', m')) : MnNew A s s' := by
  simp only [State.prefillWorker] at h
  split at h
  · cases h
  · rename_i q hq
    split at h
    · cases h
    · split at h
      · cases h
      · rename_i pf hpf
        split at h
        · cases h
        · rename_i s2 keep hb
          split at h
          · cases h
          · rename_i s3 hmk
            cases h
            have f1 : MnNew A s { s with queues := s.queues.set rq { ready := (takeFromFirst q.ready size).1, prefill := some pf } } :=
              MnNew.of_tasks rfl
            exact (f1.trans (prefillBack_mn _ _ _ _ _ _ hb)).trans (prefillMark_mn _ _ _ _ hmk)

theorem prefillWorkers_mn {A : List TaskId} (ws : List Nat) (s s' : State) (m m' : List WUpdate) (rq size : Nat)
    (h : s.prefillWorkers m rq size ws = .ok (s', m')) : MnNew A s s' := by
  induction ws generalizing s m with
  | nil => simp only [State.prefillWorkers] at h; cases h; exact MnNew.refl _ _
  | cons w rest ih =>
    simp only [State.prefillWorkers] at h
    split at h
    · cases h
    · rename_i s1 m1 h1
      exact (prefillWorker_mn h1).trans (ih _ _ h)

theorem proactive_mn {A : List TaskId} (n : Nat) (s s' : State) (m m' : List WUpdate) (orders : List (Nat × List Nat))
    (top : Int) (rq : Nat) (h : s.proactive m orders top n rq = .ok (s', m')) : MnNew A s s' := by
  have hp := @prefillWorkers_mn A
  have ht := @MnNew.trans A
  have hr := MnNew.refl A
  fun_induction State.proactive s m orders top n rq <;> grind

/-- `send_messages` unwraps the root of every multi-node placement of the round -/
theorem mnMsgs_nonempty (s : State) (l : List TaskId) (ms : List Msg) (h : mnMsgs s l = .ok ms) :
    ∀ x ∈ l, ∃ t root ws, findTask s.tasks x = some t ∧ t.state = .runningMN (root :: ws) := by
  induction l generalizing ms with
  | nil => intro x hx; cases hx
  | cons id rest ih =>
    simp only [mnMsgs] at h
    split at h
    · cases h
    · rename_i t ht
      split at h
      · rename_i root ws hs
        split at h
        · cases h
        · rename_i ms' hms
          intro x hx
          rcases List.mem_cons.mp hx with e | e
          · subst e; exact ⟨t, root, ws, getTask_ok ht, hs⟩
          · exact ih _ hms x e
      · cases h

/-- **one scheduling round keeps the shape** -/
theorem schedule_mnShape {s s' : State} {sol : Solution} {o : Out} (hn : (taskIds s.tasks).Nodup) (hs : MnShape s)
    (h : s.schedule sol = .ok (s', o)) : MnShape s' := by
  have hn' : (taskIds s'.tasks).Nodup := step_nodup (op := .schedule sol) hn h
  simp only [State.schedule] at h
  split at h
  · cases h
  · rename_i s1 m1 h1
    split at h
    · cases h
    · rename_i s2 mnTasks h2
      obtain ⟨f2, _⟩ := mapMn_mn _ _ _ _ _ h2
      have f1 : MnNew mnTasks s s1 := mapSn_mn _ _ _ _ _ _ h1
      split at h
      · cases h
      · rename_i s3 m3 h3
        have f3 : MnNew mnTasks s2 s3 := by
          split at h3
          · cases h3; exact MnNew.refl _ _
          · exact proactive_mn _ _ _ _ _ _ _ _ h3
        split at h
        · cases h
        · split at h
          · cases h
          · rename_i mm hmm
            cases h
            have f : MnNew mnTasks s s3 := (f1.trans f2).trans f3
            intro t' ht' l' hs'
            rcases f t' ht' l' hs' with hold | ⟨hin, hnd⟩
            · exact hs t' hold l' hs'
            · refine ⟨?_, hnd⟩
              obtain ⟨t, root, ws, hf, hst⟩ := mnMsgs_nonempty _ _ _ hmm t'.id hin
              have : some t = some t' := hf.symm.trans (mem_find_of_nodup hn' ht')
              cases this
              rw [hs'] at hst
              cases hst
              simp

/-! ### the other operations -/

/-- an operation part that places no task (`Evo True`) keeps the shape: a list only loses non-root workers -/
theorem MnShape.evo {cr : Prop} {s s' : State} (hs : MnShape s) (e : Evo True cr s s') : MnShape s' := by
  intro t' ht' l' hs'
  obtain ⟨t, ht, r⟩ := e t' ht'
  obtain ⟨l, hl, k⟩ := r.mnl trivial l' hs'
  exact k.shape (hs t ht l hl)

theorem MnShape.of_tasks {s s' : State} (hs : MnShape s) (h : s'.tasks = s.tasks) : MnShape s' := by
  intro t' ht' l' hs'; rw [h] at ht'; exact hs t' ht' l' hs'

/-- **every operation keeps the shape** -/
theorem step_mnShape {s s' : State} {op : Op} {o : Out} (hn : (taskIds s.tasks).Nodup) (hs : MnShape s)
    (h : step s op = .ok (s', o)) : MnShape s' := by
  cases op with
  | newWorker w => simp only [step, State.newWorker] at h; cases h; exact hs.of_tasks rfl
  | removeWorker w reason f order rets => exact hs.evo (removeWorker_fx (nw := True) hn h).evo
  | newRq rqv => simp only [step] at h; cases h; exact hs.of_tasks rfl
  | newTasks nts =>
    have h' : s.newTasks nts = .ok (s', o) := h
    simp only [State.newTasks] at h'
    split at h'
    · cases h'
    · split at h'
      · cases h'
      · rename_i s1 retracted h1
        split at h'
        · cases h'
        · rename_i s2 out h2
          cases h'
          have hs1 : MnShape s1 := by
            intro t' ht' l' hs'
            rcases (addNewTasks_desc _ _ _ _ _ h1).2 t' ht' with ⟨t, ht, _, e⟩ | ⟨_, n, e⟩
            · exact hs t ht l' (e ▸ hs')
            · rw [e] at hs'; cases hs'
          exact (hs1.evo (retract_evo (nw := True) (cr := True) h2).1).of_tasks rfl
  | cancel ids => exact hs.evo (cancelTasks_evo (nw := True) (cr := True) (by simpa [step] using h)).1
  | update w us rets => exact hs.evo (taskUpdate_fx (nw := True) (cr := True) hn h).evo
  | retracted w ids => exact hs.evo (retractResponse_fx (nw := True) (cr := True) hn h).evo
  | schedule sol => exact schedule_mnShape hn hs h

theorem mnShape_init : MnShape {} := fun _ h => by cases h

/-- **the shape holds in every state of every run** (from a state that has it; no side condition on the operations) -/
theorem run_mnShape_from (ops : List Op) : ∀ (s s' : State) (out : Out), (taskIds s.tasks).Nodup → MnShape s →
    run s ops = .ok (s', out) → MnShape s' := by
  induction ops with
  | nil => intro s s' out _ hs h; simp only [run] at h; cases h; exact hs
  | cons op rest ih =>
    intro s s' out hn hs h
    simp only [run] at h
    split at h
    · cases h
    · rename_i s1 o1 h1
      split at h
      · cases h
      · rename_i s2 o2 h2
        cases h
        exact ih _ _ _ (step_nodup hn h1) (step_mnShape hn hs h1) h2

theorem run_mnShape {ops : List Op} {s : State} {out : Out} (h : run {} ops = .ok (s, out)) : MnShape s :=
  run_mnShape_from ops {} s out List.nodup_nil mnShape_init h

end HqModel.Core
