import HqModel.Sys.Model
import HqModel.Lemmas.CoreInvFull
/-!
Frame facts about the core model (M1) needed to couple it with the job layer: what a reactor / scheduler function
may do to the *started* status of a task (state `Running`, or the `started` flag of a multi-node assignment) and to
the registered consumers.

* `TRelSys mn t t'` — task record `t'` descends from `t`: same id, no new consumers, and (`stOk`) it is Running only if
  it was Running in the same place, RunningMultiNode only if it was RunningMultiNode (or `mn`: a scheduling round);
* `WRel w w'` — worker record `w'` descends from `w`: same id and the `started` flag of a multi-node assignment is
  not newly set;
* `Fr mn s s'` — every task / worker record of `s'` descends from one of `s`.

Every function except `task_running` (the only place that sets `Running` and the `started` flag) and `on_new_tasks`
(which registers consumers) satisfies `Fr`.
-/
namespace HqModel.Core

/-! ### the relations -/

/-- how the state of a task record may change (`a` old, `b` new): it is Running only if it was Running in the same
place before, and RunningMultiNode only if it was RunningMultiNode before — unless `mn` (a scheduling round, which
places multi-node tasks) -/
def stOk (mn : Prop) (a b : TS) : Prop :=
  match b with
  | .running w v => a = .running w v
  | .runningMN _ => mn ∨ ∃ l, a = .runningMN l
  | _ => True

theorem stOk.refl (mn : Prop) (a : TS) : stOk mn a a := by
  cases a <;> simp [stOk]

theorem stOk.trans {mn : Prop} {a b c : TS} (h1 : stOk mn a b) (h2 : stOk mn b c) : stOk mn a c := by
  cases c with
  | running w v => simp only [stOk] at h2; subst h2; exact h1
  | runningMN l =>
    simp only [stOk] at h2 ⊢
    rcases h2 with h | ⟨l', h⟩
    · exact .inl h
    · subst h; exact h1
  | _ => trivial

theorem stOk.mono {mn mn' : Prop} (hm : mn → mn') {a b : TS} (h : stOk mn a b) : stOk mn' a b := by
  cases b with
  | runningMN l => simp only [stOk] at h ⊢; exact h.imp hm id
  | running w v => exact h
  | _ => trivial

structure TRelSys (P : Prop) (t t' : Task) : Prop where
  id : t'.id = t.id
  cons : ∀ c ∈ t'.consumers, c ∈ t.consumers
  st : stOk P t.state t'.state

theorem TRelSys.refl (P : Prop) (t : Task) : TRelSys P t t := ⟨rfl, fun _ h => h, stOk.refl _ _⟩

theorem TRelSys.trans {P : Prop} {a b c : Task} (h1 : TRelSys P a b) (h2 : TRelSys P b c) : TRelSys P a c :=
  ⟨h2.id.trans h1.id, fun x hx => h1.cons x (h2.cons x hx), h1.st.trans h2.st⟩

theorem TRelSys.mono {P Q : Prop} (hpq : P → Q) {a b : Task} (h : TRelSys P a b) : TRelSys Q a b :=
  ⟨h.id, h.cons, h.st.mono hpq⟩

def TFr (P : Prop) (ts ts' : List Task) : Prop := ∀ t' ∈ ts', ∃ t ∈ ts, TRelSys P t t'

structure WRel (w w' : Worker) : Prop where
  id : w'.id = w.id
  mn : ∀ t r, w'.assign = .mn t r true → w.assign = .mn t r true

theorem WRel.refl (w : Worker) : WRel w w := ⟨rfl, fun _ _ h => h⟩
theorem WRel.trans {a b c : Worker} (h1 : WRel a b) (h2 : WRel b c) : WRel a c :=
  ⟨h2.id.trans h1.id, fun t r h => h1.mn t r (h2.mn t r h)⟩

def WFr (ws ws' : List Worker) : Prop :=
  ∀ x wk', findWorker ws' x = some wk' → ∃ wk, findWorker ws x = some wk ∧ WRel wk wk'

structure Fr (P : Prop) (s s' : State) : Prop where
  t : TFr P s.tasks s'.tasks
  w : WFr s.workers s'.workers

theorem Fr.refl (P : Prop) (s : State) : Fr P s s :=
  ⟨fun t ht => ⟨t, ht, TRelSys.refl _ _⟩, fun _ wk h => ⟨wk, h, WRel.refl _⟩⟩

theorem Fr.trans {P : Prop} {a b c : State} (h1 : Fr P a b) (h2 : Fr P b c) : Fr P a c := by
  constructor
  · intro t'' ht''
    obtain ⟨t', ht', r2⟩ := h2.t t'' ht''
    obtain ⟨t, ht, r1⟩ := h1.t t' ht'
    exact ⟨t, ht, r1.trans r2⟩
  · intro x wk'' h
    obtain ⟨wk', h', r2⟩ := h2.w x wk'' h
    obtain ⟨wk, h0, r1⟩ := h1.w x wk' h'
    exact ⟨wk, h0, r1.trans r2⟩

theorem Fr.mono {P Q : Prop} (hpq : P → Q) {a b : State} (h : Fr P a b) : Fr Q a b :=
  ⟨fun t' ht' => by obtain ⟨t, ht, r⟩ := h.t t' ht'; exact ⟨t, ht, r.mono hpq⟩, h.w⟩

/-- only queues / redirects / flags / requests change -/
theorem Fr.of_eq {P : Prop} {s s' : State} (ht : s'.tasks = s.tasks) (hw : s'.workers = s.workers) : Fr P s s' := by
  constructor
  · rw [ht]; exact fun t h => ⟨t, h, TRelSys.refl _ _⟩
  · rw [hw]; exact fun _ wk h => ⟨wk, h, WRel.refl _⟩

/-- the same lists seen from two states -/
theorem Fr.congr {P : Prop} {a b a' b' : State} (h : Fr P a b) (hta : a'.tasks = a.tasks) (hwa : a'.workers = a.workers)
    (htb : b'.tasks = b.tasks) (hwb : b'.workers = b.workers) : Fr P a' b' := by
  constructor
  · rw [hta, htb]; exact h.t
  · rw [hwa, hwb]; exact h.w

/-! ### primitive updates -/

theorem mem_putTask' {ts : List Task} {t x : Task} (h : x ∈ putTask ts t) : x = t ∨ x ∈ ts := by
  induction ts with
  | nil => simp [putTask] at h
  | cons y ys ih =>
    simp only [putTask] at h
    split at h
    · rcases List.mem_cons.mp h with e | e
      · exact .inl e
      · rcases ih e with e' | e'
        · exact .inl e'
        · exact .inr (List.mem_cons_of_mem _ e')
    · rcases List.mem_cons.mp h with e | e
      · exact .inr (e ▸ List.mem_cons_self ..)
      · rcases ih e with e' | e'
        · exact .inl e'
        · exact .inr (List.mem_cons_of_mem _ e')

theorem mem_eraseTask' {ts : List Task} {id : TaskId} {x : Task} (h : x ∈ eraseTask ts id) : x ∈ ts := by
  induction ts with
  | nil => simp [eraseTask] at h
  | cons y ys ih =>
    simp only [eraseTask] at h
    split at h
    · exact List.mem_cons_of_mem _ h
    · rcases List.mem_cons.mp h with e | e
      · exact e ▸ List.mem_cons_self ..
      · exact List.mem_cons_of_mem _ (ih e)

theorem TFr.put {P : Prop} {ts : List Task} {told t' : Task} (hf : findTask ts t'.id = some told)
    (hc : ∀ c ∈ t'.consumers, c ∈ told.consumers) (hs : stOk P told.state t'.state) :
    TFr P ts (putTask ts t') := by
  intro x hx
  rcases mem_putTask' hx with e | e
  · subst e
    exact ⟨told, findTask_some_mem hf, ⟨(findTask_some_id hf).symm, hc, hs⟩⟩
  · exact ⟨x, e, TRelSys.refl _ _⟩

theorem TFr.erase (P : Prop) (ts : List Task) (id : TaskId) : TFr P ts (eraseTask ts id) :=
  fun x hx => ⟨x, mem_eraseTask' hx, TRelSys.refl _ _⟩

theorem TFr.refl (P : Prop) (ts : List Task) : TFr P ts ts := fun t h => ⟨t, h, TRelSys.refl _ _⟩

theorem TFr.trans {P : Prop} {a b c : List Task} (h1 : TFr P a b) (h2 : TFr P b c) : TFr P a c := by
  intro t'' ht''
  obtain ⟨t', ht', r2⟩ := h2 t'' ht''
  obtain ⟨t, ht, r1⟩ := h1 t' ht'
  exact ⟨t, ht, r1.trans r2⟩

/-- one task record replaced by a descendant -/
theorem Fr.setTask {P : Prop} {s : State} {told t' : Task} (hf : findTask s.tasks t'.id = some told)
    (hc : ∀ c ∈ t'.consumers, c ∈ told.consumers) (hs : stOk P told.state t'.state) :
    Fr P s (s.setTask t') :=
  ⟨TFr.put hf hc hs, fun _ wk h => ⟨wk, h, WRel.refl _⟩⟩

/-- the common case: only the state (and counters) of the record change -/
theorem Fr.setState {P : Prop} {s : State} {task t' : Task} {id : TaskId} (hf : s.task? id = some task)
    (hid : t'.id = task.id) (hc : t'.consumers = task.consumers) (hs : stOk P task.state t'.state) :
    Fr P s (s.setTask t') := by
  apply Fr.setTask (told := task)
  · rw [hid, findTask_some_id hf]; exact hf
  · rw [hc]; exact fun _ h => h
  · exact hs

/-- the same with a changed redirect table (resolving / dropping a redirect) -/
theorem Fr.setState_rd {P : Prop} {s : State} {task t' : Task} {id : TaskId} (rd : List (TaskId × Nat × Nat))
    (hf : s.task? id = some task) (hid : t'.id = task.id) (hc : t'.consumers = task.consumers)
    (hs : stOk P task.state t'.state) : Fr P s (({ s with redirects := rd } : State).setTask t') :=
  Fr.trans (a := s) (b := { s with redirects := rd }) (Fr.of_eq rfl rfl)
    (Fr.setState (s := { s with redirects := rd }) (task := task) (id := id) hf hid hc hs)

theorem WFr.put {ws : List Worker} {wk wk' : Worker} (hf : findWorker ws wk.id = some wk) (hr : WRel wk wk') :
    WFr ws (putWorker ws wk') := by
  intro x w' hx
  rw [findWorker_putWorker] at hx
  split at hx
  · rename_i e
    rw [e, hr.id, hf] at hx
    simp only [Option.map_some, Option.some.injEq] at hx
    subst hx
    exact ⟨wk, by rw [e, hr.id]; exact hf, hr⟩
  · exact ⟨w', hx, WRel.refl _⟩

theorem Fr.withWorker {P : Prop} {s s' : State} {w : Nat} {f : Worker → M Worker}
    (hf : ∀ wk wk', f wk = .ok wk' → WRel wk wk') (h : s.withWorker w f = .ok s') : Fr P s s' := by
  obtain ⟨wk, wk', h1, h2, rfl⟩ := withWorker_spec h
  refine ⟨TFr.refl _ _, ?_⟩
  have hid := findWorker_some_id h1
  exact WFr.put (wk := wk) (by rw [hid]; exact h1) (hf _ _ h2)

/-! ### worker-record operations never set the `started` flag -/

theorem insertSn_wrel (t : TaskId) (r : Rq) (wk wk' : Worker) (h : wk.insertSn t r = .ok wk') : WRel wk wk' := by
  simp only [Worker.insertSn] at h
  split at h
  · split at h
    · cases h
    · split at h
      · cases h
      · cases h; exact ⟨rfl, fun _ _ e => by cases e⟩
  · cases h

theorem removeSn_wrel (t : TaskId) (r : Rq) (wk wk' : Worker) (h : wk.removeSn t r = .ok wk') : WRel wk wk' := by
  simp only [Worker.removeSn] at h
  split at h
  · split at h
    · cases h
    · split at h
      · cases h
      · cases h; exact ⟨rfl, fun _ _ e => by cases e⟩
  · cases h

theorem insertPrefill_wrel (t : TaskId) (wk wk' : Worker) (h : wk.insertPrefill t = .ok wk') : WRel wk wk' := by
  simp only [Worker.insertPrefill] at h
  split at h
  · split at h
    · cases h
    · cases h; exact ⟨rfl, fun _ _ e => by cases e⟩
  · cases h

theorem removePrefill_wrel (t : TaskId) (wk wk' : Worker) (h : wk.removePrefill t = .ok wk') : WRel wk wk' := by
  simp only [Worker.removePrefill] at h
  split at h
  · split at h
    · cases h
    · cases h; exact ⟨rfl, fun _ _ e => by cases e⟩
  · cases h

theorem prefilledToStarted_wrel (t : TaskId) (r : Rq) (wk wk' : Worker) (h : wk.prefilledToStarted t r = .ok wk') :
    WRel wk wk' := by
  simp only [Worker.prefilledToStarted] at h
  split at h
  · split at h
    · cases h
    · split at h
      · cases h
      · split at h
        · cases h
        · cases h; exact ⟨rfl, fun _ _ e => by cases e⟩
  · cases h

theorem setMn_wrel (t : TaskId) (root : Bool) (wk wk' : Worker) (h : wk.setMn t root = .ok wk') : WRel wk wk' := by
  simp only [Worker.setMn] at h
  split at h
  · cases h
  · cases h; exact ⟨rfl, fun _ _ e => by cases e⟩

theorem emptySn_wrel (wk : Worker) : WRel wk wk.emptySn := ⟨rfl, fun _ _ e => by cases e⟩

theorem Fr.setWorker {P : Prop} {s : State} {wk wk' : Worker} (hf : s.worker? wk.id = some wk) (hr : WRel wk wk') :
    Fr P s (s.setWorker wk') :=
  ⟨TFr.refl _ _, WFr.put hf hr⟩

end HqModel.Core
