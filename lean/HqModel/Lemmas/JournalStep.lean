import HqModel.Lemmas.JournalCrash
/-! Preservation of `Inv` by every record of a producible journal (`recordOk`). -/
namespace HqModel.Journal
open HqModel.Job

theorem completed_outcome_ne {s : TState} (h : s.isCompleted = true) : s.outcome ≠ .waiting := by
  cases s <;> simp_all [TState.isCompleted, TState.outcome]

theorem JobRel.running_entry {rj : RJob} {aj : AJob} (h : JobRel rj aj) {a : ATask} (ha : a ∈ aj.tasks)
    (hst : a.st = .waiting) (hi : a.inst.isSome = true) :
    ∃ ti sd, alGet rj.tasks a.id = some ti ∧ ti.state = .running sd := by
  have h1 := h.inst a ha
  have h2 := h.outcome a ha
  cases hget : alGet rj.tasks a.id with
  | none => rw [hget] at h1; simp [h1] at hi
  | some ti =>
    rcases h.shape _ ti hget with ⟨sd, hsd, _⟩ | hc
    · exact ⟨ti, sd, rfl, hsd⟩
    · rw [hget, hst] at h2
      exact absurd h2.symm (completed_outcome_ne hc)

theorem mem_ids {aj : AJob} {a : ATask} {t : Nat} (ha : a ∈ aj.tasks) (hid : a.id = t) : t ∈ aj.tasks.map (·.id) :=
  List.mem_map.2 ⟨a, ha, hid⟩

variable {R : Restorer} {A : AState}

theorem step_taskStarted (h : Inv R A) {j t i : Nat} {ws : List Nat}
    (hok : recordOk A (.taskStarted j t i ws) = true) :
    ∃ R', restorerStep R (.taskStarted j t i ws) = .ok R' ∧ Inv R' (meaningStep A (.taskStarted j t i ws)) := by
  simp only [recordOk, Bool.and_eq_true, List.all_eq_true, decide_eq_true_eq] at hok
  obtain ⟨aj, a, haj, hamem, haid, hp⟩ := taskIs_elim hok.1
  obtain ⟨rj, hrj, hrel, hcr⟩ := h.getJob haj
  simp only [Bool.and_eq_true, beq_iff_eq] at hp
  refine ⟨_, by simp only [restorerStep, hrj]; rfl, ?_⟩
  simp only [meaningStep, updTask, haj]
  have e1 : ∀ a0 ∈ aj.tasks, a0.id = t → a0.st = a.st := fun a0 ha0 hid0 => by
    rw [hrel.outcome a0 ha0, hrel.outcome a hamem, hid0, haid]
  have e2 : ∀ a0 ∈ aj.tasks, a0.id = t → a0.inst = a.inst := fun a0 ha0 hid0 => by
    rw [hrel.inst a0 ha0, hrel.inst a hamem, hid0, haid]
  refine h.setJob j (hrel.updTask t (fun a => { a with inst := some (max i (a.inst.getD 0)), run := some ws })
    ⟨.running ⟨i, ws⟩, some i, ((alGet rj.tasks t).map (·.crash)).getD 0⟩
    (mem_ids hamem haid) (fun _ => rfl) ?_ (Or.inl ⟨_, rfl, rfl⟩))
    (hcr.updTask t (fun a => { a with inst := some (max i (a.inst.getD 0)), run := some ws })
      ⟨.running ⟨i, ws⟩, some i, ((alGet rj.tasks t).map (·.crash)).getD 0⟩ (fun _ => rfl) ?_ ?_)
  · intro a0 ha0 hid0
    refine ⟨by simp [e1 a0 ha0 hid0, hp.1, TState.outcome], ?_⟩
    simp only [e2 a0 ha0 hid0]
    cases hai : a.inst with
    | none => simp
    | some i0 =>
      have : i0 < i := by simpa [hai] using hp.2
      simp; omega
  · intro a0 ha0 hid0
    refine ⟨by simp only; rw [hcr.crash a0 ha0, hid0], ?_, ?_⟩
    · intro ws' hws'
      simp only [Option.some.injEq] at hws'
      exact ⟨i, by rw [hws']⟩
    · intro hn; simp at hn
  · intro sd root hsd hh
    simp only [TState.running.injEq] at hsd
    subst hsd
    cases ws with
    | nil => simp at hh
    | cons r rest =>
      simp only [List.head?_cons, Option.some.injEq] at hh
      subst hh
      exact hok.2 r (List.mem_cons_self)

/-- the crash side of "an existing entry `ti` gets a terminal state" -/
theorem crash_terminal {conn : List Nat} {mw : Nat} {rj : RJob} {aj : AJob} (hcr : CrashRel conn mw rj aj) (t : Nat)
    (o : Outcome) (ti : RTask) (hti : alGet rj.tasks t = some ti) (st : TState) (hst : ∀ sd, st ≠ .running sd) :
    CrashRel conn mw { rj with tasks := alSet rj.tasks t { ti with state := st } }
      { aj with tasks := aj.tasks.map fun a => if a.id = t then { a with st := o, run := none } else a } := by
  refine hcr.updTask t _ _ (fun _ => rfl) ?_ (fun sd root hsd => absurd hsd (hst sd))
  intro a0 ha0 hid0
  refine ⟨?_, ?_, ?_⟩
  · have := hcr.crash a0 ha0
    rw [hid0, hti] at this
    simpa using this
  · intro ws hws; simp at hws
  · intro _ sd root hsd; exact absurd hsd (hst sd)

/-- the crash side of "a task without entry gets a terminal entry" -/
theorem crash_terminal_new {conn : List Nat} {mw : Nat} {rj : RJob} {aj : AJob} (hcr : CrashRel conn mw rj aj) (t : Nat)
    (o : Outcome) (hti : alGet rj.tasks t = none) (st : TState) (hst : ∀ sd, st ≠ .running sd) :
    CrashRel conn mw { rj with tasks := alSet rj.tasks t ⟨st, none, 0⟩ }
      { aj with tasks := aj.tasks.map fun a => if a.id = t then { a with st := o, run := none } else a } := by
  refine hcr.updTask t _ _ (fun _ => rfl) ?_ (fun sd root hsd => absurd hsd (hst sd))
  intro a0 ha0 hid0
  refine ⟨?_, ?_, ?_⟩
  · have := hcr.crash a0 ha0
    rw [hid0, hti] at this
    simpa using this
  · intro ws hws; simp at hws
  · intro _ sd root hsd; exact absurd hsd (hst sd)

theorem step_taskFinished (h : Inv R A) {j t : Nat} (hok : recordOk A (.taskFinished j t) = true) :
    ∃ R', restorerStep R (.taskFinished j t) = .ok R' ∧ Inv R' (meaningStep A (.taskFinished j t)) := by
  obtain ⟨aj, a, haj, hamem, haid, hp⟩ := taskIs_elim hok
  obtain ⟨rj, hrj, hrel, hcr⟩ := h.getJob haj
  simp only [Bool.and_eq_true, beq_iff_eq] at hp
  obtain ⟨ti, sd, hti, hsd⟩ := hrel.running_entry hamem hp.1 hp.2
  rw [haid] at hti
  refine ⟨_, by simp only [restorerStep, hrj, hti, hsd]; rfl, ?_⟩
  simp only [meaningStep, setOutcome, updTask, haj]
  refine h.setJob j (hrel.updTask t _ { ti with state := .finished sd } (mem_ids hamem haid) (fun _ => rfl) ?_
    (Or.inr rfl)) (crash_terminal hcr t .finished ti hti _ (fun _ => by simp))
  intro a0 ha0 hid0
  refine ⟨rfl, ?_⟩
  have := hrel.inst a0 ha0
  rw [hid0, hti] at this
  simpa using this

theorem step_taskFailed (h : Inv R A) {j t : Nat} (hok : recordOk A (.taskFailed j t) = true) :
    ∃ R', restorerStep R (.taskFailed j t) = .ok R' ∧ Inv R' (meaningStep A (.taskFailed j t)) := by
  obtain ⟨aj, a, haj, hamem, haid, hp⟩ := taskIs_elim hok
  obtain ⟨rj, hrj, hrel, hcr⟩ := h.getJob haj
  simp only [beq_iff_eq] at hp
  simp only [meaningStep, setOutcome, updTask, haj]
  cases hti : alGet rj.tasks t with
  | none =>
    -- the task fails before its first start: `entry(..).or_insert_with(Waiting)` then `Failed { started_data: None }`
    refine ⟨_, by simp only [restorerStep, hrj, hti]; rfl, ?_⟩
    refine h.setJob j (hrel.updTask t _ ⟨.failed none, none, 0⟩ (mem_ids hamem haid) (fun _ => rfl) ?_ (Or.inr rfl))
      (crash_terminal_new hcr t .failed hti _ (fun _ => by simp))
    intro a0 ha0 hid0
    refine ⟨rfl, ?_⟩
    have := hrel.inst a0 ha0
    rw [hid0, hti] at this
    simpa using this
  | some ti =>
    have hout := hrel.outcome a hamem
    rw [haid, hti, hp] at hout
    rcases hrel.shape t ti hti with ⟨sd, hsd, _⟩ | hc
    · refine ⟨_, by simp only [restorerStep, hrj, hti, hsd]; rfl, ?_⟩
      refine h.setJob j (hrel.updTask t _ { ti with state := .failed (some sd) } (mem_ids hamem haid) (fun _ => rfl) ?_
        (Or.inr rfl)) (crash_terminal hcr t .failed ti hti _ (fun _ => by simp))
      intro a0 ha0 hid0
      refine ⟨rfl, ?_⟩
      have := hrel.inst a0 ha0
      rw [hid0, hti] at this
      simpa using this
    · exact absurd hout.symm (completed_outcome_ne hc)

/-! ### batched cancel / abort -/

def TaskExists (A : AState) (id : Nat × Nat) : Prop :=
  ∀ aj, alGet A.jobs id.1 = some aj → id.2 ∈ aj.tasks.map (·.id)

theorem cancelTask_eq (ts : List (Nat × RTask)) (t : Nat) :
    ∃ ti', cancelTask ts t = alSet ts t ti' ∧ ti'.state.outcome = .canceled ∧ ti'.state.isCompleted = true ∧
      ti'.inst = (alGet ts t).bind (·.inst) ∧ ti'.crash = ((alGet ts t).map (·.crash)).getD 0 := by
  unfold cancelTask
  cases h : alGet ts t with
  | none => exact ⟨_, rfl, rfl, rfl, rfl, rfl⟩
  | some ti =>
    refine ⟨_, rfl, ?_, ?_, rfl, rfl⟩
    · cases ti.state <;> rfl
    · cases ti.state <;> rfl

theorem abortTask_eq (ts : List (Nat × RTask)) (t : Nat) :
    ∃ ti', abortTask ts t = alSet ts t ti' ∧ ti'.state.outcome = .aborted ∧ ti'.state.isCompleted = true ∧
      ti'.inst = (alGet ts t).bind (·.inst) ∧ ti'.crash = ((alGet ts t).map (·.crash)).getD 0 := by
  unfold abortTask
  cases h : alGet ts t with
  | none => exact ⟨_, rfl, rfl, rfl, rfl, rfl⟩
  | some ti =>
    refine ⟨_, rfl, ?_, ?_, rfl, rfl⟩
    · cases ti.state <;> rfl
    · cases ti.state <;> rfl

theorem setOutcome_fields (o : Outcome) (A : AState) (id : Nat × Nat) :
    (setOutcome o A id).queues = A.queues ∧ (setOutcome o A id).maxJob = A.maxJob ∧
    (setOutcome o A id).maxWorker = A.maxWorker ∧ (setOutcome o A id).maxQueue = A.maxQueue ∧
    (setOutcome o A id).uid = A.uid ∧ (setOutcome o A id).workers = A.workers := by
  unfold setOutcome updTask
  split <;> simp

theorem setOutcome_exists (o : Outcome) (A : AState) (id id' : Nat × Nat) (h : TaskExists A id') :
    TaskExists (setOutcome o A id) id' := by
  unfold setOutcome updTask
  cases hj : alGet A.jobs id.1 with
  | none => simpa using h
  | some aj =>
    simp only
    intro aj' haj'
    simp only [alGet_set] at haj'
    split at haj'
    · rename_i e
      cases haj'
      have := h aj (e ▸ hj)
      simp only [List.map_map]
      have hc : (fun a : ATask => (if a.id = id.2 then { a with st := o, run := none } else a).id) = fun a => a.id := by
        funext a; split <;> rfl
      simpa [Function.comp_def, hc] using this
    · exact h aj' haj'

theorem completed_not_running {s : TState} (h : s.isCompleted = true) : ∀ sd, s ≠ .running sd := by
  intro sd e; subst e; simp [TState.isCompleted] at h

/-- one element of a `TasksCanceled` / `TasksAborted` batch -/
theorem batch_one (conn : List Nat) (mw : Nat) (o : Outcome) (f : List (Nat × RTask) → Nat → List (Nat × RTask))
    (hf : ∀ ts t, ∃ ti', f ts t = alSet ts t ti' ∧ ti'.state.outcome = o ∧ ti'.state.isCompleted = true ∧
      ti'.inst = (alGet ts t).bind (·.inst) ∧ ti'.crash = ((alGet ts t).map (·.crash)).getD 0)
    {rjobs : List (Nat × RJob)} {A : AState} (h : AlRel (JR conn mw) rjobs A.jobs) (id : Nat × Nat)
    (he : TaskExists A id) : AlRel (JR conn mw) (batchStep f rjobs id) (setOutcome o A id).jobs := by
  unfold batchStep setOutcome updTask
  rcases h.get id.1 with ⟨h1, h2⟩ | ⟨rj, aj, h1, h2, hrel, hcr⟩
  · simp only [h1, h2]; exact h
  · simp only [h1, h2]
    obtain ⟨ti', e1, e2, e3, e4, e5⟩ := hf rj.tasks id.2
    rw [e1]
    refine h.set id.1 ⟨hrel.updTask id.2 _ ti' (he aj h2) (fun _ => rfl) ?_ (Or.inr e3),
      hcr.updTask id.2 _ ti' (fun _ => rfl) ?_ (fun sd root hsd => absurd hsd (completed_not_running e3 sd))⟩
    · intro a0 ha0 hid0
      refine ⟨e2.symm, ?_⟩
      rw [e4, ← hid0]
      exact hrel.inst a0 ha0
    · intro a0 ha0 hid0
      refine ⟨?_, ?_, ?_⟩
      · rw [e5, ← hid0]; exact hcr.crash a0 ha0
      · intro ws hws; simp at hws
      · intro _ sd root hsd; exact absurd hsd (completed_not_running e3 sd)

theorem batch_fold (conn : List Nat) (mw : Nat) (o : Outcome) (f : List (Nat × RTask) → Nat → List (Nat × RTask))
    (hf : ∀ ts t, ∃ ti', f ts t = alSet ts t ti' ∧ ti'.state.outcome = o ∧ ti'.state.isCompleted = true ∧
      ti'.inst = (alGet ts t).bind (·.inst) ∧ ti'.crash = ((alGet ts t).map (·.crash)).getD 0) :
    ∀ (ids : List (Nat × Nat)) (rjobs : List (Nat × RJob)) (A : AState), AlRel (JR conn mw) rjobs A.jobs →
      (∀ id ∈ ids, TaskExists A id) →
      AlRel (JR conn mw) (ids.foldl (batchStep f) rjobs) (ids.foldl (setOutcome o) A).jobs ∧
      (ids.foldl (setOutcome o) A).queues = A.queues ∧ (ids.foldl (setOutcome o) A).maxJob = A.maxJob ∧
      (ids.foldl (setOutcome o) A).maxWorker = A.maxWorker ∧ (ids.foldl (setOutcome o) A).maxQueue = A.maxQueue ∧
      (ids.foldl (setOutcome o) A).uid = A.uid ∧ (ids.foldl (setOutcome o) A).workers = A.workers := by
  intro ids
  induction ids with
  | nil => intro rjobs A h _; exact ⟨h, rfl, rfl, rfl, rfl, rfl, rfl⟩
  | cons id ids ih =>
    intro rjobs A h he
    simp only [List.foldl_cons]
    have h1 := batch_one conn mw o f hf h id (he id (List.mem_cons_self))
    have he' : ∀ id' ∈ ids, TaskExists (setOutcome o A id) id' :=
      fun id' hid' => setOutcome_exists o A id id' (he id' (List.mem_cons_of_mem _ hid'))
    obtain ⟨r1, r2, r3, r4, r5, r6, r7⟩ := ih _ _ h1 he'
    obtain ⟨s2, s3, s4, s5, s6, s7⟩ := setOutcome_fields o A id
    exact ⟨r1, r2.trans s2, r3.trans s3, r4.trans s4, r5.trans s5, r6.trans s6, r7.trans s7⟩

theorem taskIs_exists {A : AState} {id : Nat × Nat} {p : ATask → Bool} (h : taskIs A id p = true) : TaskExists A id := by
  obtain ⟨aj, a, haj, hamem, haid, _⟩ := taskIs_elim (j := id.1) (t := id.2) h
  intro aj' haj'
  rw [haj] at haj'; cases haj'
  exact mem_ids hamem haid

theorem step_tasksCanceled (h : Inv R A) {ids : List (Nat × Nat)} (hok : recordOk A (.tasksCanceled ids) = true) :
    ∃ R', restorerStep R (.tasksCanceled ids) = .ok R' ∧ Inv R' (meaningStep A (.tasksCanceled ids)) := by
  simp only [recordOk, Bool.and_eq_true, List.all_eq_true] at hok
  obtain ⟨r1, r2, r3, r4, r5, r6, r7⟩ := batch_fold A.workers A.maxWorker .canceled cancelTask cancelTask_eq ids R.jobs A h.jobs
    (fun id hid => taskIs_exists (hok.1 id hid))
  refine ⟨_, rfl, ⟨?_, h.queues.trans r2.symm, h.maxJob.trans r3.symm, h.maxWorker.trans r4.symm,
    h.maxQueue.trans r5.symm, h.uid.trans r6.symm⟩⟩
  simp only [meaningStep, r7, r4]
  exact r1

theorem step_tasksAborted (h : Inv R A) {ids : List (Nat × Nat)} (hok : recordOk A (.tasksAborted ids) = true) :
    ∃ R', restorerStep R (.tasksAborted ids) = .ok R' ∧ Inv R' (meaningStep A (.tasksAborted ids)) := by
  simp only [recordOk, Bool.and_eq_true, List.all_eq_true] at hok
  obtain ⟨r1, r2, r3, r4, r5, r6, r7⟩ := batch_fold A.workers A.maxWorker .aborted abortTask abortTask_eq ids R.jobs A h.jobs
    (fun id hid => taskIs_exists (hok.1 id hid))
  refine ⟨_, rfl, ⟨?_, h.queues.trans r2.symm, h.maxJob.trans r3.symm, h.maxWorker.trans r4.symm,
    h.maxQueue.trans r5.symm, h.uid.trans r6.symm⟩⟩
  simp only [meaningStep, r7, r4]
  exact r1

/-! ### submits and job records -/

theorem specTasks_fresh {d : TaskDesc} {a : ATask} (h : a ∈ d.specTasks) :
    a.st = .waiting ∧ a.inst = none ∧ a.id ∈ d.ids ∧ a.crashes = 0 ∧ a.run = none := by
  cases d with
  | array ids e =>
    simp only [TaskDesc.specTasks, List.mem_map] at h
    obtain ⟨i, hi, rfl⟩ := h
    exact ⟨rfl, rfl, by simpa [TaskDesc.ids] using hi, rfl, rfl⟩
  | graph ts =>
    simp only [TaskDesc.specTasks, List.mem_map] at h
    obtain ⟨t, ht, rfl⟩ := h
    exact ⟨rfl, rfl, by simp only [TaskDesc.ids, List.mem_map]; exact ⟨t, ht, rfl⟩, rfl, rfl⟩

theorem submitOk_fresh {have_ : List Nat} {d : TaskDesc} (h : submitOk have_ d = true) :
    ∀ i ∈ d.ids, i ∉ have_ := by
  cases d with
  | array ids e =>
    simp only [submitOk, Bool.and_eq_true, List.all_eq_true] at h
    intro i hi
    have := h.1.1.2 i (by simpa [TaskDesc.ids] using hi)
    simpa using this
  | graph ts =>
    simp only [submitOk, Bool.and_eq_true, List.all_eq_true] at h
    intro i hi
    simp only [TaskDesc.ids, List.mem_map] at hi
    obtain ⟨t, ht, rfl⟩ := hi
    have := (h.1.1 t ht).1
    simpa using this

theorem submitsOk_append (h : List Nat) (l : List TaskDesc) (d : TaskDesc) :
    submitsOk h (l ++ [d]) = (submitsOk h l && submitOk (h ++ l.flatMap (·.ids)) d) := by
  induction l generalizing h with
  | nil => simp [submitsOk]
  | cons x xs ih =>
    simp only [List.cons_append, submitsOk, ih, List.flatMap_cons, List.append_assoc, Bool.and_assoc]

theorem JobRel.new (mf : Option Nat) (d : TaskDesc) (h : submitOk [] d = true) :
    JobRel ⟨mf, [d], [], false⟩ ⟨false, mf, d.specTasks, 1⟩ := by
  refine ⟨rfl, rfl, by simp, rfl, ?_, ?_, ?_, ?_, by simp [submitsOk, h]⟩
  · intro a ha; simp [alGet, outcomeOpt, (specTasks_fresh ha).1]
  · intro a ha; simp [alGet, (specTasks_fresh ha).2.1]
  · intro t ti hti; simp [alGet] at hti
  · intro t ht; simp [alGet] at ht

theorem JobRel.attach {rj : RJob} {aj : AJob} (h : JobRel rj aj) (d : TaskDesc)
    (hok : submitOk (aj.tasks.map (·.id)) d = true) :
    JobRel { rj with submits := rj.submits ++ [d] }
      { aj with tasks := aj.tasks ++ d.specTasks, nSubmits := aj.nSubmits + 1 } := by
  have hfresh := submitOk_fresh hok
  have hnone : ∀ a ∈ d.specTasks, alGet rj.tasks a.id = none := by
    intro a ha
    cases hget : alGet rj.tasks a.id with
    | none => rfl
    | some ti =>
      have := h.known a.id (by simp [hget])
      exact absurd this (hfresh a.id (specTasks_fresh ha).2.2.1)
  refine ⟨h.isOpen, h.maxFails, ?_, ?_, ?_, ?_, h.shape, ?_, ?_⟩
  · simp only [List.map_append, List.flatMap_append, h.tasks]; simp
  · simp [h.nSubmits]
  · intro a ha
    rcases List.mem_append.1 ha with ha | ha
    · exact h.outcome a ha
    · rw [hnone a ha, (specTasks_fresh ha).1]; rfl
  · intro a ha
    rcases List.mem_append.1 ha with ha | ha
    · exact h.inst a ha
    · rw [hnone a ha, (specTasks_fresh ha).2.1]; rfl
  · intro t ht
    have := h.known t ht
    simp only [List.map_append, List.mem_append]
    exact Or.inl this
  · simp only [submitsOk_append, List.nil_append, Bool.and_eq_true]
    exact ⟨h.valid, by rw [← h.ids]; exact hok⟩

theorem attach_none {rj : RJob} {aj : AJob} (h : JobRel rj aj) (d : TaskDesc)
    (hok : submitOk (aj.tasks.map (·.id)) d = true) : ∀ a ∈ d.specTasks, alGet rj.tasks a.id = none := by
  have hfresh := submitOk_fresh hok
  intro a ha
  cases hget : alGet rj.tasks a.id with
  | none => rfl
  | some ti =>
    have := h.known a.id (by simp [hget])
    exact absurd this (hfresh a.id (specTasks_fresh ha).2.2.1)

theorem CrashRel.new (conn : List Nat) (mw : Nat) (mf : Option Nat) (d : TaskDesc) (isOpen : Bool) (n : Nat) :
    CrashRel conn mw ⟨mf, [d], [], isOpen⟩ ⟨isOpen, mf, d.specTasks, n⟩ :=
  ⟨fun a ha => by simp [alGet, (specTasks_fresh ha).2.2.2.1],
   fun a ha ws hr => by simp [(specTasks_fresh ha).2.2.2.2] at hr,
   fun a ha _ ti sd root h1 => by simp [alGet] at h1,
   fun t ti sd root h1 => by simp [alGet] at h1⟩

theorem CrashRel.attach {conn : List Nat} {mw : Nat} {rj : RJob} {aj : AJob} (h : CrashRel conn mw rj aj) (d : TaskDesc)
    (hnone : ∀ a ∈ d.specTasks, alGet rj.tasks a.id = none) :
    CrashRel conn mw { rj with submits := rj.submits ++ [d] }
      { aj with tasks := aj.tasks ++ d.specTasks, nSubmits := aj.nSubmits + 1 } := by
  refine ⟨?_, ?_, ?_, h.run3⟩
  · intro a ha
    rcases List.mem_append.1 ha with ha | ha
    · exact h.crash a ha
    · simp [hnone a ha, (specTasks_fresh ha).2.2.2.1]
  · intro a ha ws hr
    rcases List.mem_append.1 ha with ha | ha
    · exact h.run1 a ha ws hr
    · simp [(specTasks_fresh ha).2.2.2.2] at hr
  · intro a ha hr ti sd root h1
    rcases List.mem_append.1 ha with ha | ha
    · exact h.run2 a ha hr ti sd root h1
    · simp [hnone a ha] at h1

theorem step_submit (h : Inv R A) {j : Nat} {closed : Bool} {mf : Option Nat} {d : TaskDesc}
    (hok : recordOk A (.submit j closed mf d) = true) :
    ∃ R', restorerStep R (.submit j closed mf d) = .ok R' ∧ Inv R' (meaningStep A (.submit j closed mf d)) := by
  cases closed with
  | true =>
    simp only [recordOk, if_true, Bool.and_eq_true] at hok
    refine ⟨_, by simp only [restorerStep, if_true]; rfl, ?_⟩
    simp only [meaningStep, if_true, Restorer.addJob]
    exact ⟨h.jobs.set j ⟨JobRel.new mf d hok.2, CrashRel.new _ _ mf d false 1⟩, h.queues, by simp [h.maxJob],
      h.maxWorker, h.maxQueue, h.uid⟩
  | false =>
    simp only [recordOk, Bool.false_eq_true, if_false] at hok
    cases haj : alGet A.jobs j with
    | none => simp [haj] at hok
    | some aj =>
      simp only [haj, Bool.and_eq_true] at hok
      obtain ⟨rj, hrj, hrel, hcr⟩ := h.getJob haj
      refine ⟨_, by simp only [restorerStep, Bool.false_eq_true, if_false, hrj]; rfl, ?_⟩
      simp only [meaningStep, Bool.false_eq_true, if_false, haj]
      exact h.setJob j (hrel.attach d hok.2) (hcr.attach d (attach_none hrel d hok.2))

theorem step_jobOpen (h : Inv R A) {j : Nat} {mf : Option Nat} :
    ∃ R', restorerStep R (.jobOpen j mf) = .ok R' ∧ Inv R' (meaningStep A (.jobOpen j mf)) := by
  refine ⟨_, rfl, ?_⟩
  simp only [meaningStep, Restorer.addJob]
  refine ⟨h.jobs.set j ⟨⟨rfl, rfl, by simp, rfl, ?_, ?_, ?_, ?_, rfl⟩, ⟨?_, ?_, ?_, ?_⟩⟩, h.queues, by simp [h.maxJob],
    h.maxWorker, h.maxQueue, h.uid⟩
  · intro a ha; simp at ha
  · intro a ha; simp at ha
  · intro t ti hti; simp [alGet] at hti
  · intro t ht; simp [alGet] at ht
  · intro a ha; simp at ha
  · intro a ha; simp at ha
  · intro a ha; simp at ha
  · intro t ti sd root h1; simp [alGet] at h1

theorem step_jobClose (h : Inv R A) {j : Nat} (hok : recordOk A (.jobClose j) = true) :
    ∃ R', restorerStep R (.jobClose j) = .ok R' ∧ Inv R' (meaningStep A (.jobClose j)) := by
  simp only [recordOk] at hok
  cases haj : alGet A.jobs j with
  | none => simp [haj] at hok
  | some aj =>
    obtain ⟨rj, hrj, hrel, hcr⟩ := h.getJob haj
    refine ⟨_, by simp only [restorerStep, hrj]; rfl, ?_⟩
    simp only [meaningStep, haj]
    exact h.setJob j ⟨rfl, hrel.maxFails, hrel.tasks, hrel.nSubmits, hrel.outcome, hrel.inst, hrel.shape, hrel.known,
      hrel.valid⟩ ⟨hcr.crash, hcr.run1, hcr.run2, hcr.run3⟩

theorem step_jobCancel (h : Inv R A) {j : Nat} (hok : recordOk A (.jobCancel j) = true) :
    ∃ R', restorerStep R (.jobCancel j) = .ok R' ∧ Inv R' (meaningStep A (.jobCancel j)) := by
  simp only [recordOk] at hok
  cases haj : alGet A.jobs j with
  | none => simp [haj] at hok
  | some aj =>
    obtain ⟨rj, hrj, _⟩ := h.getJob haj
    exact ⟨R, by simp only [restorerStep, hrj], h⟩

theorem increaseCrash_get (rj : RJob) (w : Nat) (t : Nat) :
    alGet (rj.increaseCrash w).tasks t = (alGet rj.tasks t).map (bump w true) := by
  simp only [RJob.increaseCrash, alGet_map]
  cases alGet rj.tasks t with
  | none => rfl
  | some ti => rfl

theorem step_workerLost (h : Inv R A) {w : Nat} {reason : LostReason} (hok : recordOk A (.workerLost w reason) = true) :
    ∃ R', restorerStep R (.workerLost w reason) = .ok R' ∧ Inv R' (meaningStep A (.workerLost w reason)) := by
  have hw : w ∈ A.workers := by simpa [recordOk] using hok
  simp only [restorerStep, meaningStep]
  cases hf : reason.isFailure with
  | true =>
    refine ⟨_, by simp only [if_true]; rfl, ?_⟩
    exact ⟨h.jobs.map (Q := JR (A.workers.filter (· != w)) A.maxWorker) _ _ (fun rj aj hr =>
      ⟨(hr.1.workerLost w true).1, hr.2.workerLost w true hw (increaseCrash_get rj w)⟩),
      h.queues, h.maxJob, h.maxWorker, h.maxQueue, h.uid⟩
  | false =>
    refine ⟨_, by simp only [Bool.false_eq_true, if_false]; rfl, ?_⟩
    have := h.jobs.map (Q := JR (A.workers.filter (· != w)) A.maxWorker) id
      (fun aj : AJob => { aj with tasks := aj.tasks.map (ATask.lose w false) })
      (fun rj aj hr => ⟨(hr.1.workerLost w false).2, hr.2.workerLost w false hw (fun t => by
        show alGet rj.tasks t = _
        cases hg : alGet rj.tasks t <;> rfl)⟩)
    have hid : alMap id R.jobs = R.jobs := by simp [alMap]
    rw [hid] at this
    exact ⟨this, h.queues, h.maxJob, h.maxWorker, h.maxQueue, h.uid⟩

/-- every record of a producible journal keeps the invariant (and restore does not stop on it) -/
theorem step_inv (h : Inv R A) (x : Record) (hok : recordOk A x = true) :
    ∃ R', restorerStep R x = .ok R' ∧ Inv R' (meaningStep A x) := by
  cases x with
  | serverStart uid =>
    refine ⟨_, rfl, ?_⟩
    simp only [meaningStep]
    exact ⟨h.jobs.imp (fun _ _ hr => ⟨hr.1, hr.2.mono (conn' := []) (fun x hx => by simp at hx) (Nat.le_refl _)⟩),
      h.queues, h.maxJob, h.maxWorker, h.maxQueue, rfl⟩
  | serverStop => exact ⟨_, rfl, h⟩
  | workerConnected w alloc =>
    have hw : A.maxWorker < w := by simpa [recordOk] using hok
    have hinv : ∀ qr, Inv { R with maxWorker := max R.maxWorker w, queueRes := qr }
        { A with maxWorker := max A.maxWorker w, workers := w :: A.workers } :=
      fun qr => ⟨h.jobs.imp (fun _ _ hr => ⟨hr.1, hr.2.connect hw⟩), h.queues, h.maxJob, by simp [h.maxWorker],
        h.maxQueue, h.uid⟩
    simp only [restorerStep, meaningStep]
    cases alloc with
    | none => exact ⟨_, rfl, hinv _⟩
    | some a =>
      simp only
      cases alGet R.allocQueue a with
      | none => exact ⟨_, rfl, hinv _⟩
      | some q => exact ⟨_, rfl, hinv _⟩
  | workerLost w reason => exact step_workerLost h hok
  | workerOverview w => exact ⟨_, rfl, h⟩
  | submit j c mf d => exact step_submit h hok
  | jobOpen j mf => exact step_jobOpen h
  | jobClose j => exact step_jobClose h hok
  | jobCancel j => exact step_jobCancel h hok
  | jobCompleted j =>
    exact ⟨_, rfl, ⟨h.jobs.del j, h.queues, h.maxJob, h.maxWorker, h.maxQueue, h.uid⟩⟩
  | taskStarted j t i ws => exact step_taskStarted h hok
  | taskFinished j t => exact step_taskFinished h hok
  | taskFailed j t => exact step_taskFailed h hok
  | tasksCanceled ids => exact step_tasksCanceled h hok
  | tasksAborted ids => exact step_tasksAborted h hok
  | queueCreated q =>
    simp only [recordOk, Option.isNone_iff_eq_none] at hok
    rw [← h.queues] at hok
    refine ⟨_, by simp only [restorerStep, hok]; rfl, ?_⟩
    exact ⟨h.jobs, by simp [meaningStep, h.queues], h.maxJob, h.maxWorker, by simp [meaningStep, h.maxQueue], h.uid⟩
  | queueRemoved q =>
    exact ⟨_, rfl, ⟨h.jobs, by simp [meaningStep, h.queues], h.maxJob, h.maxWorker, h.maxQueue, h.uid⟩⟩
  | allocQueued q a => exact ⟨_, rfl, ⟨h.jobs, h.queues, h.maxJob, h.maxWorker, h.maxQueue, h.uid⟩⟩
  | allocStarted q a => exact ⟨_, rfl, h⟩
  | allocFinished q a => exact ⟨_, rfl, h⟩

/-- along a producible journal `load_event_file` does not stop and ends in a state related to `meaning` -/
theorem fold_inv : ∀ (J : List Record) (R : Restorer) (A : AState), Inv R A → producibleFrom A J = true →
    ∃ R', restorerFoldFrom R J = .ok R' ∧ Inv R' (J.foldl meaningStep A) := by
  intro J
  induction J with
  | nil => intro R A h _; exact ⟨R, rfl, h⟩
  | cons x xs ih =>
    intro R A h hp
    simp only [producibleFrom, Bool.and_eq_true] at hp
    obtain ⟨R1, h1, hinv1⟩ := step_inv h x hp.1
    obtain ⟨R2, h2, hinv2⟩ := ih R1 _ hinv1 hp.2
    exact ⟨R2, by simp only [restorerFoldFrom, h1, h2], by simpa using hinv2⟩

end HqModel.Journal
