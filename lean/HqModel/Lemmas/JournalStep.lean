import HqModel.Lemmas.JournalInv
/-! Preservation of `Inv` by every record of a producible journal (`recordOk`, and `failOk` to exclude defect F9). -/
namespace HqModel.Journal
open HqModel.Job

theorem completed_outcome_ne {s : TState} (h : s.isCompleted = true) : s.outcome ≠ .waiting := by
  cases s <;> simp_all [TState.isCompleted, TState.outcome]

theorem JobRel.running_entry {rj : RJob} {aj : AJob} (h : JobRel rj aj) {a : ATask} (ha : a ∈ aj.tasks)
    (hst : a.st = .waiting) (hi : a.inst.isSome = true) :
    ∃ ti sd, alGet rj.tasks a.id = some ti ∧ ti.state = .running sd := by
  have h1 := h.inst a ha
  have h2 := h.outcome a ha
  cases hget : alGet rj.tasks a.id with
  | none => rw [hget] at h1; simp [h1] at hi
  | some ti =>
    rcases h.shape _ ti hget with ⟨sd, hsd, _⟩ | hc
    · exact ⟨ti, sd, rfl, hsd⟩
    · rw [hget, hst] at h2
      exact absurd h2.symm (completed_outcome_ne hc)

theorem mem_ids {aj : AJob} {a : ATask} {t : Nat} (ha : a ∈ aj.tasks) (hid : a.id = t) : t ∈ aj.tasks.map (·.id) :=
  List.mem_map.2 ⟨a, ha, hid⟩

variable {R : Restorer} {A : AState}

theorem step_taskStarted (h : Inv R A) {j t i : Nat} {ws : List Nat}
    (hok : recordOk A (.taskStarted j t i ws) = true) :
    ∃ R', restorerStep R (.taskStarted j t i ws) = .ok R' ∧ Inv R' (meaningStep A (.taskStarted j t i ws)) := by
  obtain ⟨aj, a, haj, hamem, haid, hp⟩ := taskIs_elim hok
  obtain ⟨rj, hrj, hrel⟩ := h.getJob haj
  simp only [Bool.and_eq_true, beq_iff_eq] at hp
  refine ⟨_, by simp only [restorerStep, hrj]; rfl, ?_⟩
  simp only [meaningStep, updTask, haj]
  refine h.setJob j (hrel.updTask t _ ⟨.running ⟨i, ws⟩, some i, 0⟩ (mem_ids hamem haid) (fun _ => rfl) ?_
    (Or.inl ⟨_, rfl, rfl⟩))
  intro a0 ha0 hid0
  have e1 : a0.st = a.st := by rw [hrel.outcome a0 ha0, hrel.outcome a hamem, hid0, haid]
  have e2 : a0.inst = a.inst := by rw [hrel.inst a0 ha0, hrel.inst a hamem, hid0, haid]
  refine ⟨by simp [e1, hp.1, TState.outcome], ?_⟩
  simp only [e2]
  cases hai : a.inst with
  | none => simp
  | some i0 =>
    have : i0 < i := by simpa [hai] using hp.2
    simp; omega

theorem step_taskFinished (h : Inv R A) {j t : Nat} (hok : recordOk A (.taskFinished j t) = true) :
    ∃ R', restorerStep R (.taskFinished j t) = .ok R' ∧ Inv R' (meaningStep A (.taskFinished j t)) := by
  obtain ⟨aj, a, haj, hamem, haid, hp⟩ := taskIs_elim hok
  obtain ⟨rj, hrj, hrel⟩ := h.getJob haj
  simp only [Bool.and_eq_true, beq_iff_eq] at hp
  obtain ⟨ti, sd, hti, hsd⟩ := hrel.running_entry hamem hp.1 hp.2
  rw [haid] at hti
  refine ⟨_, by simp only [restorerStep, hrj, hti, hsd]; rfl, ?_⟩
  simp only [meaningStep, setOutcome, updTask, haj]
  refine h.setJob j (hrel.updTask t _ { ti with state := .finished sd } (mem_ids hamem haid) (fun _ => rfl) ?_
    (Or.inr rfl))
  intro a0 ha0 hid0
  refine ⟨rfl, ?_⟩
  have := hrel.inst a0 ha0
  rw [hid0, hti] at this
  simpa using this

theorem step_taskFailed (h : Inv R A) {j t : Nat} (hok : recordOk A (.taskFailed j t) = true)
    (hf : failOk A (.taskFailed j t) = true) :
    ∃ R', restorerStep R (.taskFailed j t) = .ok R' ∧ Inv R' (meaningStep A (.taskFailed j t)) := by
  obtain ⟨aj, a, haj, hamem, haid, hp⟩ := taskIs_elim hok
  obtain ⟨aj', a', haj', hamem', haid', hp'⟩ := taskIs_elim hf
  rw [haj] at haj'; cases haj'
  obtain ⟨rj, hrj, hrel⟩ := h.getJob haj
  simp only [beq_iff_eq] at hp
  have hinst : a.inst.isSome = true := by
    have e2 : a.inst = a'.inst := by rw [hrel.inst a hamem, hrel.inst a' hamem', haid, haid']
    rw [e2]; exact hp'
  obtain ⟨ti, sd, hti, hsd⟩ := hrel.running_entry hamem hp hinst
  rw [haid] at hti
  refine ⟨_, by simp only [restorerStep, hrj, hti, hsd]; rfl, ?_⟩
  simp only [meaningStep, setOutcome, updTask, haj]
  refine h.setJob j (hrel.updTask t _ { ti with state := .failed (some sd) } (mem_ids hamem haid) (fun _ => rfl) ?_
    (Or.inr rfl))
  intro a0 ha0 hid0
  refine ⟨rfl, ?_⟩
  have := hrel.inst a0 ha0
  rw [hid0, hti] at this
  simpa using this


/-! ### batched cancel / abort -/

def TaskExists (A : AState) (id : Nat × Nat) : Prop :=
  ∀ aj, alGet A.jobs id.1 = some aj → id.2 ∈ aj.tasks.map (·.id)

theorem cancelTask_eq (ts : List (Nat × RTask)) (t : Nat) :
    ∃ ti', cancelTask ts t = alSet ts t ti' ∧ ti'.state.outcome = .canceled ∧ ti'.state.isCompleted = true ∧
      ti'.inst = (alGet ts t).bind (·.inst) := by
  unfold cancelTask
  cases h : alGet ts t with
  | none => exact ⟨_, rfl, rfl, rfl, rfl⟩
  | some ti =>
    refine ⟨_, rfl, ?_, ?_, rfl⟩
    · cases ti.state <;> rfl
    · cases ti.state <;> rfl

theorem abortTask_eq (ts : List (Nat × RTask)) (t : Nat) :
    ∃ ti', abortTask ts t = alSet ts t ti' ∧ ti'.state.outcome = .aborted ∧ ti'.state.isCompleted = true ∧
      ti'.inst = (alGet ts t).bind (·.inst) := by
  unfold abortTask
  cases h : alGet ts t with
  | none => exact ⟨_, rfl, rfl, rfl, rfl⟩
  | some ti =>
    refine ⟨_, rfl, ?_, ?_, rfl⟩
    · cases ti.state <;> rfl
    · cases ti.state <;> rfl

theorem setOutcome_fields (o : Outcome) (A : AState) (id : Nat × Nat) :
    (setOutcome o A id).queues = A.queues ∧ (setOutcome o A id).maxJob = A.maxJob ∧
    (setOutcome o A id).maxWorker = A.maxWorker ∧ (setOutcome o A id).maxQueue = A.maxQueue ∧
    (setOutcome o A id).uid = A.uid := by
  unfold setOutcome updTask
  split <;> simp

theorem setOutcome_exists (o : Outcome) (A : AState) (id id' : Nat × Nat) (h : TaskExists A id') :
    TaskExists (setOutcome o A id) id' := by
  unfold setOutcome updTask
  cases hj : alGet A.jobs id.1 with
  | none => simpa using h
  | some aj =>
    simp only
    intro aj' haj'
    simp only [alGet_set] at haj'
    split at haj'
    · rename_i e
      cases haj'
      have := h aj (e ▸ hj)
      simp only [List.map_map]
      have hc : (fun a : ATask => (if a.id = id.2 then { a with st := o, run := none } else a).id) = fun a => a.id := by
        funext a; split <;> rfl
      simpa [Function.comp_def, hc] using this
    · exact h aj' haj'

/-- one element of a `TasksCanceled` / `TasksAborted` batch -/
theorem batch_one (o : Outcome) (f : List (Nat × RTask) → Nat → List (Nat × RTask))
    (hf : ∀ ts t, ∃ ti', f ts t = alSet ts t ti' ∧ ti'.state.outcome = o ∧ ti'.state.isCompleted = true ∧
      ti'.inst = (alGet ts t).bind (·.inst))
    {rjobs : List (Nat × RJob)} {A : AState} (h : AlRel JobRel rjobs A.jobs) (id : Nat × Nat) (he : TaskExists A id) :
    AlRel JobRel (batchStep f rjobs id) (setOutcome o A id).jobs := by
  unfold batchStep setOutcome updTask
  rcases h.get id.1 with ⟨h1, h2⟩ | ⟨rj, aj, h1, h2, hrel⟩
  · simp only [h1, h2]; exact h
  · simp only [h1, h2]
    obtain ⟨ti', e1, e2, e3, e4⟩ := hf rj.tasks id.2
    rw [e1]
    refine h.set id.1 (hrel.updTask id.2 _ ti' (he aj h2) (fun _ => rfl) ?_ (Or.inr e3))
    intro a0 ha0 hid0
    refine ⟨e2.symm, ?_⟩
    rw [e4, ← hid0]
    exact hrel.inst a0 ha0

theorem batch_fold (o : Outcome) (f : List (Nat × RTask) → Nat → List (Nat × RTask))
    (hf : ∀ ts t, ∃ ti', f ts t = alSet ts t ti' ∧ ti'.state.outcome = o ∧ ti'.state.isCompleted = true ∧
      ti'.inst = (alGet ts t).bind (·.inst)) :
    ∀ (ids : List (Nat × Nat)) (rjobs : List (Nat × RJob)) (A : AState), AlRel JobRel rjobs A.jobs →
      (∀ id ∈ ids, TaskExists A id) →
      AlRel JobRel (ids.foldl (batchStep f) rjobs) (ids.foldl (setOutcome o) A).jobs ∧
      (ids.foldl (setOutcome o) A).queues = A.queues ∧ (ids.foldl (setOutcome o) A).maxJob = A.maxJob ∧
      (ids.foldl (setOutcome o) A).maxWorker = A.maxWorker ∧ (ids.foldl (setOutcome o) A).maxQueue = A.maxQueue ∧
      (ids.foldl (setOutcome o) A).uid = A.uid := by
  intro ids
  induction ids with
  | nil => intro rjobs A h _; exact ⟨h, rfl, rfl, rfl, rfl, rfl⟩
  | cons id ids ih =>
    intro rjobs A h he
    simp only [List.foldl_cons]
    have h1 := batch_one o f hf h id (he id (List.mem_cons_self))
    have he' : ∀ id' ∈ ids, TaskExists (setOutcome o A id) id' :=
      fun id' hid' => setOutcome_exists o A id id' (he id' (List.mem_cons_of_mem _ hid'))
    obtain ⟨r1, r2, r3, r4, r5, r6⟩ := ih _ _ h1 he'
    obtain ⟨s2, s3, s4, s5, s6⟩ := setOutcome_fields o A id
    exact ⟨r1, r2.trans s2, r3.trans s3, r4.trans s4, r5.trans s5, r6.trans s6⟩

theorem taskIs_exists {A : AState} {id : Nat × Nat} {p : ATask → Bool} (h : taskIs A id p = true) : TaskExists A id := by
  obtain ⟨aj, a, haj, hamem, haid, _⟩ := taskIs_elim (j := id.1) (t := id.2) h
  intro aj' haj'
  rw [haj] at haj'; cases haj'
  exact mem_ids hamem haid

theorem step_tasksCanceled (h : Inv R A) {ids : List (Nat × Nat)} (hok : recordOk A (.tasksCanceled ids) = true) :
    ∃ R', restorerStep R (.tasksCanceled ids) = .ok R' ∧ Inv R' (meaningStep A (.tasksCanceled ids)) := by
  simp only [recordOk, Bool.and_eq_true, List.all_eq_true] at hok
  obtain ⟨r1, r2, r3, r4, r5, r6⟩ := batch_fold .canceled cancelTask cancelTask_eq ids R.jobs A h.jobs
    (fun id hid => taskIs_exists (hok.1 id hid))
  exact ⟨_, rfl, ⟨r1, h.queues.trans r2.symm, h.maxJob.trans r3.symm, h.maxWorker.trans r4.symm,
    h.maxQueue.trans r5.symm, h.uid.trans r6.symm⟩⟩

theorem step_tasksAborted (h : Inv R A) {ids : List (Nat × Nat)} (hok : recordOk A (.tasksAborted ids) = true) :
    ∃ R', restorerStep R (.tasksAborted ids) = .ok R' ∧ Inv R' (meaningStep A (.tasksAborted ids)) := by
  simp only [recordOk, Bool.and_eq_true, List.all_eq_true] at hok
  obtain ⟨r1, r2, r3, r4, r5, r6⟩ := batch_fold .aborted abortTask abortTask_eq ids R.jobs A h.jobs
    (fun id hid => taskIs_exists (hok.1 id hid))
  exact ⟨_, rfl, ⟨r1, h.queues.trans r2.symm, h.maxJob.trans r3.symm, h.maxWorker.trans r4.symm,
    h.maxQueue.trans r5.symm, h.uid.trans r6.symm⟩⟩


/-! ### submits and job records -/

theorem specTasks_fresh {d : TaskDesc} {a : ATask} (h : a ∈ d.specTasks) :
    a.st = .waiting ∧ a.inst = none ∧ a.id ∈ d.ids := by
  cases d with
  | array ids e =>
    simp only [TaskDesc.specTasks, List.mem_map] at h
    obtain ⟨i, hi, rfl⟩ := h
    exact ⟨rfl, rfl, by simpa [TaskDesc.ids] using hi⟩
  | graph ts =>
    simp only [TaskDesc.specTasks, List.mem_map] at h
    obtain ⟨t, ht, rfl⟩ := h
    exact ⟨rfl, rfl, by simp only [TaskDesc.ids, List.mem_map]; exact ⟨t, ht, rfl⟩⟩

theorem submitOk_fresh {have_ : List Nat} {d : TaskDesc} (h : submitOk have_ d = true) :
    ∀ i ∈ d.ids, i ∉ have_ := by
  cases d with
  | array ids e =>
    simp only [submitOk, Bool.and_eq_true, List.all_eq_true] at h
    intro i hi
    have := h.1.1.2 i (by simpa [TaskDesc.ids] using hi)
    simpa using this
  | graph ts =>
    simp only [submitOk, Bool.and_eq_true, List.all_eq_true] at h
    intro i hi
    simp only [TaskDesc.ids, List.mem_map] at hi
    obtain ⟨t, ht, rfl⟩ := hi
    have := (h.1.1 t ht).1
    simpa using this

theorem submitsOk_append (h : List Nat) (l : List TaskDesc) (d : TaskDesc) :
    submitsOk h (l ++ [d]) = (submitsOk h l && submitOk (h ++ l.flatMap (·.ids)) d) := by
  induction l generalizing h with
  | nil => simp [submitsOk]
  | cons x xs ih =>
    simp only [List.cons_append, submitsOk, ih, List.flatMap_cons, List.append_assoc, Bool.and_assoc]

theorem JobRel.new (mf : Option Nat) (d : TaskDesc) (h : submitOk [] d = true) :
    JobRel ⟨mf, [d], [], false⟩ ⟨false, mf, d.specTasks, 1⟩ := by
  refine ⟨rfl, rfl, by simp, rfl, ?_, ?_, ?_, ?_, by simp [submitsOk, h]⟩
  · intro a ha; simp [alGet, outcomeOpt, (specTasks_fresh ha).1]
  · intro a ha; simp [alGet, (specTasks_fresh ha).2.1]
  · intro t ti hti; simp [alGet] at hti
  · intro t ht; simp [alGet] at ht

theorem JobRel.attach {rj : RJob} {aj : AJob} (h : JobRel rj aj) (d : TaskDesc)
    (hok : submitOk (aj.tasks.map (·.id)) d = true) :
    JobRel { rj with submits := rj.submits ++ [d] }
      { aj with tasks := aj.tasks ++ d.specTasks, nSubmits := aj.nSubmits + 1 } := by
  have hfresh := submitOk_fresh hok
  have hnone : ∀ a ∈ d.specTasks, alGet rj.tasks a.id = none := by
    intro a ha
    cases hget : alGet rj.tasks a.id with
    | none => rfl
    | some ti =>
      have := h.known a.id (by simp [hget])
      exact absurd this (hfresh a.id (specTasks_fresh ha).2.2)
  refine ⟨h.isOpen, h.maxFails, ?_, ?_, ?_, ?_, h.shape, ?_, ?_⟩
  · simp only [List.map_append, List.flatMap_append, h.tasks]; simp
  · simp [h.nSubmits]
  · intro a ha
    rcases List.mem_append.1 ha with ha | ha
    · exact h.outcome a ha
    · rw [hnone a ha, (specTasks_fresh ha).1]; rfl
  · intro a ha
    rcases List.mem_append.1 ha with ha | ha
    · exact h.inst a ha
    · rw [hnone a ha, (specTasks_fresh ha).2.1]; rfl
  · intro t ht
    have := h.known t ht
    simp only [List.map_append, List.mem_append]
    exact Or.inl this
  · simp only [submitsOk_append, List.nil_append, Bool.and_eq_true]
    exact ⟨h.valid, by rw [← h.ids]; exact hok⟩

theorem step_submit (h : Inv R A) {j : Nat} {closed : Bool} {mf : Option Nat} {d : TaskDesc}
    (hok : recordOk A (.submit j closed mf d) = true) :
    ∃ R', restorerStep R (.submit j closed mf d) = .ok R' ∧ Inv R' (meaningStep A (.submit j closed mf d)) := by
  cases closed with
  | true =>
    simp only [recordOk, if_true, Bool.and_eq_true] at hok
    refine ⟨_, by simp only [restorerStep, if_true]; rfl, ?_⟩
    simp only [meaningStep, if_true, Restorer.addJob]
    exact ⟨h.jobs.set j (JobRel.new mf d hok.2), h.queues, by simp [h.maxJob], h.maxWorker, h.maxQueue, h.uid⟩
  | false =>
    simp only [recordOk, Bool.false_eq_true, if_false] at hok
    cases haj : alGet A.jobs j with
    | none => simp [haj] at hok
    | some aj =>
      simp only [haj, Bool.and_eq_true] at hok
      obtain ⟨rj, hrj, hrel⟩ := h.getJob haj
      refine ⟨_, by simp only [restorerStep, Bool.false_eq_true, if_false, hrj]; rfl, ?_⟩
      simp only [meaningStep, Bool.false_eq_true, if_false, haj]
      exact h.setJob j (hrel.attach d hok.2)

theorem step_jobOpen (h : Inv R A) {j : Nat} {mf : Option Nat} :
    ∃ R', restorerStep R (.jobOpen j mf) = .ok R' ∧ Inv R' (meaningStep A (.jobOpen j mf)) := by
  refine ⟨_, rfl, ?_⟩
  simp only [meaningStep, Restorer.addJob]
  refine ⟨h.jobs.set j ⟨rfl, rfl, by simp, rfl, ?_, ?_, ?_, ?_, rfl⟩, h.queues, by simp [h.maxJob], h.maxWorker,
    h.maxQueue, h.uid⟩
  · intro a ha; simp at ha
  · intro a ha; simp at ha
  · intro t ti hti; simp [alGet] at hti
  · intro t ht; simp [alGet] at ht

theorem step_jobClose (h : Inv R A) {j : Nat} (hok : recordOk A (.jobClose j) = true) :
    ∃ R', restorerStep R (.jobClose j) = .ok R' ∧ Inv R' (meaningStep A (.jobClose j)) := by
  simp only [recordOk] at hok
  cases haj : alGet A.jobs j with
  | none => simp [haj] at hok
  | some aj =>
    obtain ⟨rj, hrj, hrel⟩ := h.getJob haj
    refine ⟨_, by simp only [restorerStep, hrj]; rfl, ?_⟩
    simp only [meaningStep, haj]
    exact h.setJob j ⟨rfl, hrel.maxFails, hrel.tasks, hrel.nSubmits, hrel.outcome, hrel.inst, hrel.shape, hrel.known,
      hrel.valid⟩

theorem step_jobCancel (h : Inv R A) {j : Nat} (hok : recordOk A (.jobCancel j) = true) :
    ∃ R', restorerStep R (.jobCancel j) = .ok R' ∧ Inv R' (meaningStep A (.jobCancel j)) := by
  simp only [recordOk] at hok
  cases haj : alGet A.jobs j with
  | none => simp [haj] at hok
  | some aj =>
    obtain ⟨rj, hrj, _⟩ := h.getJob haj
    exact ⟨R, by simp only [restorerStep, hrj], h⟩

theorem step_workerLost (h : Inv R A) {w : Nat} {reason : LostReason} :
    ∃ R', restorerStep R (.workerLost w reason) = .ok R' ∧ Inv R' (meaningStep A (.workerLost w reason)) := by
  simp only [restorerStep, meaningStep]
  cases hf : reason.isFailure with
  | true =>
    refine ⟨_, by simp only [if_true]; rfl, ?_⟩
    exact ⟨h.jobs.map _ _ (fun rj aj hr => (hr.workerLost w true).1), h.queues, h.maxJob, h.maxWorker, h.maxQueue, h.uid⟩
  | false =>
    refine ⟨_, by simp only [Bool.false_eq_true, if_false]; rfl, ?_⟩
    have := h.jobs.map id _ (fun rj aj hr => (hr.workerLost w false).2)
    have hid : alMap id R.jobs = R.jobs := by simp [alMap]
    rw [hid] at this
    exact ⟨this, h.queues, h.maxJob, h.maxWorker, h.maxQueue, h.uid⟩

/-- every record of a producible journal keeps the invariant (and restore does not stop on it) -/
theorem step_inv (h : Inv R A) (x : Record) (hok : recordOk A x = true) (hf : failOk A x = true) :
    ∃ R', restorerStep R x = .ok R' ∧ Inv R' (meaningStep A x) := by
  cases x with
  | serverStart uid => exact ⟨_, rfl, ⟨h.jobs, h.queues, h.maxJob, h.maxWorker, h.maxQueue, rfl⟩⟩
  | serverStop => exact ⟨_, rfl, h⟩
  | workerConnected w alloc =>
    have hinv : ∀ qr, Inv { R with maxWorker := max R.maxWorker w, queueRes := qr } { A with maxWorker := max A.maxWorker w } :=
      fun qr => ⟨h.jobs, h.queues, h.maxJob, by simp [h.maxWorker], h.maxQueue, h.uid⟩
    simp only [restorerStep, meaningStep]
    cases alloc with
    | none => exact ⟨_, rfl, hinv _⟩
    | some a =>
      simp only
      cases alGet R.allocQueue a with
      | none => exact ⟨_, rfl, hinv _⟩
      | some q => exact ⟨_, rfl, hinv _⟩
  | workerLost w reason => exact step_workerLost h
  | workerOverview w => exact ⟨_, rfl, h⟩
  | submit j c mf d => exact step_submit h hok
  | jobOpen j mf => exact step_jobOpen h
  | jobClose j => exact step_jobClose h hok
  | jobCancel j => exact step_jobCancel h hok
  | jobCompleted j =>
    exact ⟨_, rfl, ⟨h.jobs.del j, h.queues, h.maxJob, h.maxWorker, h.maxQueue, h.uid⟩⟩
  | taskStarted j t i ws => exact step_taskStarted h hok
  | taskFinished j t => exact step_taskFinished h hok
  | taskFailed j t => exact step_taskFailed h hok hf
  | tasksCanceled ids => exact step_tasksCanceled h hok
  | tasksAborted ids => exact step_tasksAborted h hok
  | queueCreated q =>
    simp only [recordOk, Option.isNone_iff_eq_none] at hok
    rw [← h.queues] at hok
    refine ⟨_, by simp only [restorerStep, hok]; rfl, ?_⟩
    exact ⟨h.jobs, by simp [meaningStep, h.queues], h.maxJob, h.maxWorker, by simp [meaningStep, h.maxQueue], h.uid⟩
  | queueRemoved q =>
    exact ⟨_, rfl, ⟨h.jobs, by simp [meaningStep, h.queues], h.maxJob, h.maxWorker, h.maxQueue, h.uid⟩⟩
  | allocQueued q a => exact ⟨_, rfl, ⟨h.jobs, h.queues, h.maxJob, h.maxWorker, h.maxQueue, h.uid⟩⟩
  | allocStarted q a => exact ⟨_, rfl, h⟩
  | allocFinished q a => exact ⟨_, rfl, h⟩

/-- along a producible journal without a failure-before-start, `load_event_file` does not stop and ends in a state
related to `meaning` -/
theorem fold_inv : ∀ (J : List Record) (R : Restorer) (A : AState), Inv R A → producibleFrom A J = true →
    noFailBeforeStartFrom A J = true →
    ∃ R', restorerFoldFrom R J = .ok R' ∧ Inv R' (J.foldl meaningStep A) := by
  intro J
  induction J with
  | nil => intro R A h _ _; exact ⟨R, rfl, h⟩
  | cons x xs ih =>
    intro R A h hp hf
    simp only [producibleFrom, noFailBeforeStartFrom, Bool.and_eq_true] at hp hf
    obtain ⟨R1, h1, hinv1⟩ := step_inv h x hp.1 hf.1
    obtain ⟨R2, h2, hinv2⟩ := ih R1 _ hinv1 hp.2 hf.2
    exact ⟨R2, by simp only [restorerFoldFrom, h1, h2], by simpa using hinv2⟩

end HqModel.Journal
