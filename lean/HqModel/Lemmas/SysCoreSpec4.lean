import HqModel.Lemmas.SysCoreSpec3
/-!
The structure of `on_remove_worker`: up to the `worker lost` callback no key of the task map changes and nothing
becomes started; the `running` list of the callback consists of distinct tasks that were started and are not
started afterwards; then the crash loop runs.
-/
namespace HqModel.Core

theorem lostRetracting_cbs (l : List Task) (s s' : State) (w : Nat) (o o' : Out)
    (h : s.lostRetracting w l o = .ok (s', o')) : o'.cbs = o.cbs := by
  induction l generalizing s o with
  | nil => simp only [State.lostRetracting] at h; cases h; rfl
  | cons t0 rest ih =>
    simp only [State.lostRetracting] at h
    split at h
    · exact ih _ _ h
    · split at h
      · exact ih _ _ h
      · split at h
        · have := ih _ _ h
          rw [this]
          simp [Out.add]
        · exact ih _ _ h

theorem removeWorker_spec {s s' : State} {w : Nat} {reason : String} {f : Bool} {order : List TaskId}
    {rets : List (List TaskId)} {o : Out} (hn : (taskIds s.tasks).Nodup)
    (h : s.removeWorker w reason f order rets = .ok (s', o)) :
    ∃ (s3 s4 : State) (running : List TaskId) (out0 : Out),
      (s.worker? w).isSome = true ∧ Frc s s3 ∧ taskIds s3.tasks = taskIds s.tasks ∧ running.Nodup ∧
      (∀ t ∈ running, hot s t) ∧ (∀ t ∈ running, ¬ hot s3 t) ∧ out0.cbs = [.workerLost w running reason] ∧
      s3.crashLoop f running rets out0 = .ok (s4, o) ∧ s' = ask s4 := by
  simp only [State.removeWorker] at h
  split at h
  · cases h
  · rename_i wk hw
    have f0 := dropWorker_frc s w
    have hn0 : (taskIds ({ s with workers := s.workers.filter (·.id ≠ w) } : State).tasks).Nodup := hn
    split at h
    · cases h
    · rename_i s1 running retracted hp1
      -- part 1
      have p1 : Frc { s with workers := s.workers.filter (·.id ≠ w) } s1 ∧ taskIds s1.tasks = taskIds s.tasks ∧
          running.Nodup ∧ (∀ t ∈ running, hot s t) ∧ ∀ t ∈ running, ¬ hot s1 t := by
        clear h
        split at hp1
        · split at hp1
          · cases hp1
          · split at hp1
            · cases hp1
            · rename_i s01 hlp
              have fa := lostPrefilled_frc _ _ _ hlp
              have ea := lostPrefilled_ids _ _ _ hlp
              have hn01 : (taskIds s01.tasks).Nodup := by rw [ea]; exact hn
              obtain ⟨new, e, nd, hh, hc⟩ := lostAssigned_spec _ _ _ _ _ _ _ hn01 hp1
              simp only [List.nil_append] at e
              subst e
              refine ⟨fa.trans (lostAssigned_frc _ _ _ _ _ _ _ hp1), ?_, nd, ?_, hc⟩
              · rw [lostAssigned_ids _ _ _ _ _ _ _ hp1, ea]
              · intro t ht
                exact hot_of_frc f0 hn (hot_of_frc fa hn0 (hh t ht))
        · rename_i tid root mnStarted ha
          split at hp1
          · cases hp1
          · rename_i task hg
            have ht : s.task? tid = some task := task?_of_get hg
            have hst := stOf_of_find (show findTask s.tasks tid = some task from ht)
            split at hp1
            · rename_i ws hs
              split at hp1
              · rename_i root' others
                split at hp1
                · split at hp1
                  · cases hp1
                  · rename_i s01 hr
                    split at hp1
                    · cases hp1
                    · rename_i s3 r3 har
                      cases hp1
                      have f2 := resetMnAll_frc _ _ _ hr
                      have e2 : s01.tasks = s.tasks := by have := resetMnAll_tasks _ _ _ hr; exact this
                      have ht01 := task?_congr e2 ht
                      have f3 : Frc s01 (s01.setTask { task with state := .waiting 0, inst := task.inst + 1 }) :=
                        Fr.setState ht01 rfl rfl trivial
                      have e3 := addReady_tasks har
                      refine ⟨(f2.trans f3).trans (addReady_core har).frc, ?_, ?_, ?_, ?_⟩
                      · rw [e3, setTask_ids, e2]
                      · split <;> simp
                      · intro t htm
                        split at htm
                        · rename_i hstarted
                          simp only [List.mem_singleton] at htm
                          subst htm
                          refine .inr ⟨_, by rw [hst, hs], w, wk, root, hw, ?_⟩
                          rw [ha, hstarted]
                        · cases htm
                      · intro t htm
                        split at htm
                        · simp only [List.mem_singleton] at htm
                          subst htm
                          apply not_hot_of_cold (st := .waiting 0) _ trivial
                          rw [e3]
                          exact stOf_setTask_self (t' := { task with state := .waiting 0, inst := task.inst + 1 }) ht01 rfl
                        · cases htm
                · cases hp1
                  refine ⟨Fr.setState ht rfl rfl (by rw [hs]; exact .inr ⟨_, rfl⟩), ?_, List.nodup_nil,
                    (fun _ hm => nomatch hm), (fun _ hm => nomatch hm)⟩
                  exact setTask_ids _ _
              · cases hp1
            · cases hp1
      obtain ⟨f1, e1, nd, hh, hc⟩ := p1
      have hn1 : (taskIds s1.tasks).Nodup := by rw [e1]; exact hn
      split at h
      · cases h
      · rename_i s2 out1 h2
        have f2 := lostRetracting_frc _ _ _ _ _ _ h2
        have e2 := lostRetracting_ids _ _ _ _ _ _ h2
        have c2 := lostRetracting_cbs _ _ _ _ _ _ h2
        split at h
        · cases h
        · rename_i s3 out2 h3
          have f3 := retract_frc h3
          have e3 : taskIds s3.tasks = taskIds s2.tasks := retract_stable h3
          split at h
          · cases h
          · rename_i s4 out h4
            cases h
            refine ⟨s3, s4, running, _, by rw [hw]; rfl, ((f0.trans f1).trans f2).trans f3, by rw [e3, e2, e1], nd, hh, ?_, ?_,
              h4, rfl⟩
            · intro t ht
              exact not_hot_of_frc (f2.trans f3) hn1 (hc t ht)
            · show (out1.cbs ++ out2.cbs) ++ [Cb.workerLost w running reason] = _
              rw [c2, retract_cbs h3]
              rfl

end HqModel.Core
