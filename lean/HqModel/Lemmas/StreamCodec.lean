import HqModel.Stream.Reader
/-!
Codec lemmas for M8 Stream: little-endian / varint / zig-zag round trips, prefix-freeness (decoding a strict
prefix of an encoding reports *end of input*, never a value and never an error), lifted to field sequences
and to `StreamChunkHeader`.
-/
namespace HqModel.Stream

/-! ## little endian -/

@[simp] theorem leEnc_length (k n : Nat) : (leEnc k n).length = k := by
  induction k generalizing n with
  | zero => rfl
  | succ k ih => simp [leEnc, ih]

theorem leDec_leEnc (k n : Nat) (r : Bytes) : leDec k (leEnc k n ++ r) = some (n % 256 ^ k, r) := by
  induction k generalizing n with
  | zero => simp [leEnc, leDec, Nat.mod_one]
  | succ k ih =>
    simp only [leEnc, List.cons_append, leDec, ih]
    have : (UInt8.ofNat (n % 256)).toNat = n % 256 := by
      simp [UInt8.toNat_ofNat']
    rw [this, Nat.pow_succ', Nat.mod_mul]

theorem leDec_short {k : Nat} {bs : Bytes} (h : bs.length < k) : leDec k bs = none := by
  induction k generalizing bs with
  | zero => omega
  | succ k ih =>
    cases bs with
    | nil => rfl
    | cons b bs =>
      simp only [List.length_cons] at h
      simp [leDec, ih (bs := bs) (by omega)]

/-! ## varint -/

theorem encVarint_length_pos (n : Nat) : 0 < (encVarint n).length := by
  unfold encVarint; repeat' split
  all_goals simp

theorem encVarint_length_le (n : Nat) : (encVarint n).length ≤ 9 := by
  unfold encVarint; repeat' split
  all_goals simp

theorem decVarint_encVarint {n : Nat} (h : n < 18446744073709551616) (r : Bytes) :
    decVarint (encVarint n ++ r) = .ok n r := by
  unfold encVarint
  split
  · rename_i h1
    have : (UInt8.ofNat n).toNat = n := by simp [UInt8.toNat_ofNat']; omega
    simp [decVarint, this, h1]
  · split
    · rename_i h1 h2
      have e : n % 256 ^ 2 = n := Nat.mod_eq_of_lt (by omega)
      simp [decVarint, leDec_leEnc, e]
    · split
      · rename_i h1 h2 h3
        have e : n % 256 ^ 4 = n := Nat.mod_eq_of_lt (by omega)
        simp [decVarint, leDec_leEnc, e]
      · rename_i h1 h2 h3
        have e : n % 256 ^ 8 = n := Nat.mod_eq_of_lt (by omega)
        simp [decVarint, leDec_leEnc, e]

theorem decVarint_take_encVarint (n k : Nat) (h : k < (encVarint n).length) :
    decVarint ((encVarint n).take k) = .eof := by
  cases k with
  | zero => simp [decVarint]
  | succ k =>
    unfold encVarint at h ⊢
    split
    · rename_i h1; simp [h1] at h
    · split
      · rename_i h1 h2
        simp [h1, h2] at h
        simp [List.take_succ_cons, decVarint, leDec_short (k := 2) (bs := (leEnc 2 n).take k) (by simp; omega)]
      · split
        · rename_i h1 h2 h3
          simp [h1, h2, h3] at h
          simp [List.take_succ_cons, decVarint, leDec_short (k := 4) (bs := (leEnc 4 n).take k) (by simp; omega)]
        · rename_i h1 h2 h3
          simp [h1, h2, h3] at h
          simp [List.take_succ_cons, decVarint, leDec_short (k := 8) (bs := (leEnc 8 n).take k) (by simp; omega)]

/-! ## zig-zag -/

theorem unzigzag_zigzag (n : Int) : unzigzag (zigzag n) = n := by
  unfold zigzag unzigzag
  split <;> split <;> omega

theorem zigzag_lt {n : Int} (lo : -9223372036854775808 ≤ n) (hi : n < 9223372036854775808) :
    zigzag n < 18446744073709551616 := by
  unfold zigzag; split <;> omega

/-! ## field sequences -/

theorem decFields_encFields {ps : List (Nat → Bool)} {vs : List Nat} (hl : vs.length = ps.length)
    (hv : ∀ v ∈ vs, v < 18446744073709551616)
    (hp : ∀ pv ∈ ps.zip vs, pv.1 pv.2 = true) (r : Bytes) :
    decFields ps (encFields vs ++ r) = .ok vs r := by
  induction ps generalizing vs with
  | nil => cases vs <;> simp_all [decFields, encFields]
  | cons p ps ih =>
    cases vs with
    | nil => simp at hl
    | cons v vs =>
      have hv0 : v < 18446744073709551616 := hv v (by simp)
      have hp0 : p v = true := hp (p, v) (by simp)
      have ih' := ih (vs := vs) (by simpa using hl) (fun x hx => hv x (by simp [hx]))
        (fun pv h => hp pv (by simp [h]))
      simp only [encFields, List.flatMap_cons, List.append_assoc] at ih' ⊢
      simp only [decFields, decVarint_encVarint hv0, hp0, if_true]
      rw [ih']

theorem decFields_take_encFields {ps : List (Nat → Bool)} {vs : List Nat} (hl : vs.length = ps.length)
    (hv : ∀ v ∈ vs, v < 18446744073709551616)
    (hp : ∀ pv ∈ ps.zip vs, pv.1 pv.2 = true)
    (k : Nat) (hk : k < (encFields vs).length) :
    decFields ps ((encFields vs).take k) = .eof := by
  induction ps generalizing vs k with
  | nil => cases vs <;> simp_all [encFields]
  | cons p ps ih =>
    cases vs with
    | nil => simp at hl
    | cons v vs =>
      have hv0 : v < 18446744073709551616 := hv v (by simp)
      have hp0 : p v = true := hp (p, v) (by simp)
      simp only [encFields, List.flatMap_cons] at hk ⊢
      by_cases hlt : k < (encVarint v).length
      · rw [List.take_append_of_le_length (by omega)]
        simp [decFields, decVarint_take_encVarint v k hlt]
      · have hk' : k - (encVarint v).length < (encFields vs).length := by
          simp only [List.length_append] at hk; simp only [encFields]; omega
        have ih' := ih (vs := vs) (by simpa using hl) (fun x hx => hv x (by simp [hx]))
          (fun pv h => hp pv (by simp [h])) _ hk'
        rw [List.take_append, List.take_of_length_le (by omega)]
        simp only [decFields, decVarint_encVarint hv0, hp0, if_true]
        simp only [encFields] at ih'
        rw [ih']

end HqModel.Stream

namespace HqModel.Stream

/-! ## `StreamChunkHeader` -/

theorem fields_lt {h : ChunkHeader} (v : h.Valid) : ∀ x ∈ h.fields, x < 18446744073709551616 := by
  have := v.time_lo; have := v.time_hi; have := v.job; have := v.task; have := v.inst
  have := v.channel; have := v.size
  have hz : zigzag h.time < 18446744073709551616 :=
    zigzag_lt (by simp only [timeMin] at *; omega) (by simp only [timeMax] at *; omega)
  intro x hx
  simp only [ChunkHeader.fields, List.mem_cons, List.not_mem_nil, or_false] at hx
  rcases hx with rfl | rfl | rfl | rfl | rfl | rfl <;> omega

theorem fields_ok {h : ChunkHeader} (v : h.Valid) : ∀ pv ∈ hdrPreds.zip h.fields, pv.1 pv.2 = true := by
  have := v.time_lo; have := v.time_hi; have := v.job; have := v.task; have := v.inst
  have := v.channel
  intro pv hpv
  simp only [hdrPreds, ChunkHeader.fields, List.zip_cons_cons, List.zip_nil_right, List.mem_cons,
    List.not_mem_nil, or_false] at hpv
  rcases hpv with rfl | rfl | rfl | rfl | rfl | rfl <;>
    simp [timeOk, u32Ok, u64Ok, unzigzag_zigzag, *]

theorem decHdr_encHdr {h : ChunkHeader} (v : h.Valid) (r : Bytes) : decHdr (encHdr h ++ r) = .ok h r := by
  have e := decFields_encFields (ps := hdrPreds) (vs := h.fields) rfl (fields_lt v) (fields_ok v) r
  unfold decHdr encHdr
  rw [e]
  simp only [ChunkHeader.fields, unzigzag_zigzag]

theorem decHdr_take_encHdr {h : ChunkHeader} (v : h.Valid) (k : Nat) (hk : k < (encHdr h).length) :
    decHdr ((encHdr h).take k) = .eof := by
  have e := decFields_take_encFields (ps := hdrPreds) (vs := h.fields) rfl (fields_lt v) (fields_ok v) k hk
  unfold decHdr encHdr
  rw [e]

theorem encHdr_length_pos (h : ChunkHeader) : 0 < (encHdr h).length := by
  have := encVarint_length_pos (zigzag h.time)
  simp only [encHdr, encFields, ChunkHeader.fields, List.flatMap_cons, List.length_append]
  omega

end HqModel.Stream
