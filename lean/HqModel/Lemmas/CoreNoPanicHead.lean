import HqModel.Lemmas.CoreNoPanicSched1
/-!
C09 progress, part 7: the counting argument of `process_proactive_filling`.

`take_tasks_for_prefill` unwraps the first entry of the ready list and asserts that its priority is the priority of
the prefill set. The loop over the candidate workers calls it `|workers|` times with `prefill_size ≤ size / |workers|`
where `size ≤` the length of the first entry: `HeadOk s rq p k` says that the first entry of queue `rq` has priority
`p`, at least `k` ids, and that the prefill set (if any) has priority `p`; one call of `prefillWorker` with size `n`
takes `HeadOk … (n + k)` to `HeadOk … k` (for `k ≥ 1`).
-/
namespace HqModel.Core

namespace NP

def HeadOk (s : State) (rq : Nat) (p : Int) (k : Nat) : Prop :=
  ∃ q ids rest, s.queues[rq]? = some q ∧ q.ready = (p, ids) :: rest ∧ k ≤ ids.length ∧
    ∀ pp ts, q.prefill = some (pp, ts) → pp = p

theorem HeadOk.mono {s : State} {rq : Nat} {p : Int} {k k' : Nat} (h : HeadOk s rq p k) (hk : k' ≤ k) :
    HeadOk s rq p k' := by
  obtain ⟨q, ids, rest, a, b, c, d⟩ := h
  exact ⟨q, ids, rest, a, b, Nat.le_trans hk c, d⟩

theorem insertTid_length_ge (t : TaskId) : ∀ (l : List TaskId), l.length ≤ (insertTid t l).length
  | [] => by simp [insertTid]
  | y :: ys => by
    simp only [insertTid]
    split
    · exact Nat.le_refl _
    · split
      · simp
      · simp only [List.length_cons]
        have := insertTid_length_ge t ys
        omega

theorem movePrefilledToReady_head {s s' : State} {rq : Nat} {id : TaskId} {p : Int} {k : Nat}
    (h : s.movePrefilledToReady rq id = .ok s') (hh : HeadOk s rq p k) : HeadOk s' rq p k := by
  obtain ⟨q, ids, rest, hq, hr, hk, hp⟩ := hh
  simp only [State.movePrefilledToReady, hq] at h
  split at h
  · cases h
  · rename_i pp ts hpf
    have hpp : pp = p := hp pp ts hpf
    subst hpp
    split at h
    · cases h
    · cases h
      have hlt : rq < s.queues.length := by
        rcases Nat.lt_or_ge rq s.queues.length with h | h
        · exact h
        · rw [List.getElem?_eq_none h] at hq; cases hq
      refine ⟨_, insertTid id ids, rest, List.getElem?_set_self hlt, ?_, ?_, ?_⟩
      · simp only [hr, readyAdd, if_true]
      · exact Nat.le_trans hk (insertTid_length_ge id ids)
      · intro pp' ts' e
        simp only at e
        split at e
        · cases e
        · cases e; rfl

theorem prefillBack_head (rq : Nat) {p : Int} {k : Nat} : ∀ (l : List TaskId) (s s' : State) (keep keep' : List TaskId),
    State.prefillWorker.back rq s l keep = .ok (s', keep') → HeadOk s rq p k → HeadOk s' rq p k
  | [], s, s', keep, keep', h, hh => by simp only [State.prefillWorker.back] at h; cases h; exact hh
  | id :: rest, s, s', keep, keep', h, hh => by
    simp only [State.prefillWorker.back] at h
    split at h
    · cases h
    · split at h
      · split at h
        · cases h
        · rename_i s2 h2
          exact prefillBack_head rq rest s2 s' _ _ h (movePrefilledToReady_head h2 hh)
      · exact prefillBack_head rq rest s s' _ _ h hh

theorem prefillMark_queues (w : Nat) : ∀ (l : List TaskId) (s s' : State),
    State.prefillWorker.mark w s l = .ok s' → s'.queues = s.queues
  | [], s, s', h => by simp only [State.prefillWorker.mark] at h; cases h; rfl
  | id :: rest, s, s', h => by
    simp only [State.prefillWorker.mark] at h
    split at h
    · cases h
    · split at h
      · split at h
        · cases h
        · rename_i s2 h2
          rw [prefillMark_queues w rest s2 s' h]
          obtain ⟨wk, wk', _, _, rfl⟩ := withWorker_spec h2
          rfl
      · cases h

/-- one candidate worker: `n` ids leave the first entry, which keeps at least `k ≥ 1` ids -/
theorem prefillWorker_head {s s' : State} {m m' : List WUpdate} {rq n w : Nat} {p : Int} {k : Nat}
    (h : s.prefillWorker m rq n w = .ok (s', m')) (hh : HeadOk s rq p (n + k)) (hk : 1 ≤ k) : HeadOk s' rq p k := by
  obtain ⟨q, ids, rest, hq, hr, hlen, hp⟩ := hh
  simp only [State.prefillWorker, hq, hr] at h
  have hlt : rq < s.queues.length := by
    rcases Nat.lt_or_ge rq s.queues.length with h | h
    · exact h
    · rw [List.getElem?_eq_none h] at hq; cases hq
  have hdrop : (ids.drop n).isEmpty = false := by
    have : (ids.drop n).length ≥ 1 := by rw [List.length_drop]; omega
    cases he : ids.drop n with
    | nil => rw [he] at this; simp at this
    | cons a b => rfl
  split at h
  · cases h
  · rename_i pf hpf
    have hpf1 : pf.1 = p := by
      split at hpf
      · rename_i pp ts hpre
        split at hpf
        · cases hpf
        · cases hpf; exact hp pp ts hpre
      · cases hpf; rfl
    split at h
    · cases h
    · rename_i s2 keep hb
      split at h
      · cases h
      · rename_i s3 hm
        cases h
        -- the state after the queue update
        have h1 : HeadOk
            ({ s with queues := s.queues.set rq { ready := (takeFromFirst ((p, ids) :: rest) n).1, prefill := some pf } } : State)
            rq p k := by
          refine ⟨_, ids.drop n, rest, List.getElem?_set_self hlt, ?_, ?_, ?_⟩
          · simp only [takeFromFirst, hdrop, Bool.false_eq_true, if_false]
          · rw [List.length_drop]; omega
          · intro pp ts e
            simp only [Option.some.injEq] at e
            rw [← hpf1, e]
        have h2 := prefillBack_head rq _ _ _ _ _ hb h1
        obtain ⟨q', ids', rest', a, b, c, d⟩ := h2
        exact ⟨q', ids', rest', by rw [prefillMark_queues w _ _ _ hm]; exact a, b, c, d⟩

end NP

end HqModel.Core
