import HqModel.Lemmas.CoreMsgRun
import HqModel.Lemmas.CoreInvWT3
/-!
Message-level facts, part 6 (C07): which crash counters an operation changes. Every function leaves the crash
counters alone (`Evo _ True`) except the crash loop of `on_remove_worker`, which runs over the `running` list it
reported in the `workerLost` callback.
-/
namespace HqModel.Core

/-- the crash loop changes the counter only of tasks in its list, and only when the loss is a failure; the
callbacks emitted before the loop stay in front -/
theorem crashLoop_only (ids : List TaskId) (s s' : State) (f : Bool) (rets : List (List TaskId)) (o o' : Out)
    (h : s.crashLoop f ids rets o = .ok (s', o')) :
    (∃ x, o'.cbs = o.cbs ++ x) ∧
    ∀ t' ∈ s'.tasks, ∃ t ∈ s.tasks, t'.id = t.id ∧ (t'.crashes ≠ t.crashes → t'.id ∈ ids ∧ f = true) := by
  induction ids generalizing s rets o with
  | nil =>
    simp only [State.crashLoop] at h; cases h
    exact ⟨⟨[], by simp⟩, fun t ht => ⟨t, ht, rfl, fun hne => absurd rfl hne⟩⟩
  | cons id rest ih =>
    simp only [State.crashLoop] at h
    split at h
    · obtain ⟨a, b⟩ := ih _ _ _ h
      refine ⟨a, fun t' ht' => ?_⟩
      obtain ⟨t, ht, e, hc⟩ := b t' ht'
      exact ⟨t, ht, e, fun hne => ⟨List.mem_cons_of_mem _ (hc hne).1, (hc hne).2⟩⟩
    · rename_i task ht
      have hid : task.id = id := findTask_some_id ht
      -- the record written by this iteration
      have h1 : ∀ x ∈ (s.setTask { task with crashes := (crashOutcome task.crashLimit f task.crashes).1 }).tasks,
          ∃ t ∈ s.tasks, x.id = t.id ∧ (x.crashes ≠ t.crashes → x.id = id ∧ f = true) := by
        intro x hx
        rcases mem_putTask hx with e | e
        · subst e
          refine ⟨task, findTask_some_mem ht, rfl, fun hne => ⟨hid, ?_⟩⟩
          cases f with
          | true => rfl
          | false => exact absurd (crashOutcome_stop _ _) hne
        · exact ⟨x, e, rfl, fun hne => absurd rfl hne⟩
      have comb : ∀ (s2 : State) (o2 : Out) (rets2 : List (List TaskId)),
          Evo True True (s.setTask { task with crashes := (crashOutcome task.crashLimit f task.crashes).1 }) s2 →
          (∃ x, o2.cbs = o.cbs ++ x) → s2.crashLoop f rest rets2 o2 = .ok (s', o') →
          (∃ x, o'.cbs = o.cbs ++ x) ∧
          ∀ t' ∈ s'.tasks, ∃ t ∈ s.tasks, t'.id = t.id ∧ (t'.crashes ≠ t.crashes → t'.id ∈ id :: rest ∧ f = true) := by
        intro s2 o2 rets2 e2 hx2 h2
        obtain ⟨⟨x, hx⟩, b⟩ := ih _ _ _ h2
        obtain ⟨x2, hx2⟩ := hx2
        refine ⟨⟨x2 ++ x, by rw [hx, hx2, List.append_assoc]⟩, fun t' ht' => ?_⟩
        obtain ⟨t2, ht2, e, hc⟩ := b t' ht'
        obtain ⟨t1, ht1, r⟩ := e2 t2 ht2
        obtain ⟨t, ht0, e0, hc0⟩ := h1 t1 ht1
        refine ⟨t, ht0, e.trans (r.id.trans e0), fun hne => ?_⟩
        by_cases h3 : t'.crashes = t2.crashes
        · have h4 : t1.crashes ≠ t.crashes := by rw [← r.creq trivial, ← h3]; exact hne
          obtain ⟨a4, b4⟩ := hc0 h4
          exact ⟨by rw [e, r.id, a4]; exact List.mem_cons_self, b4⟩
        · exact ⟨List.mem_cons_of_mem _ (hc h3).1, (hc h3).2⟩
      split at h
      · split at h
        · cases h
        · rename_i s2 o2 h2
          obtain ⟨a, _, _⟩ := taskFailed_evo (nw := True) (cr := True) h2
          exact comb _ _ _ a ⟨o2.cbs, rfl⟩ h
      · exact comb _ _ _ (Evo.refl _ _ _) ⟨[], by simp⟩ h

/-- a task Running in `s'` was Running (same worker, same variant) in `s` -/
def RunBack (s s' : State) : Prop :=
  ∀ t' ∈ s'.tasks, ∃ t ∈ s.tasks, t'.id = t.id ∧ ∀ w v, t'.state = .running w v → t.state = .running w v

theorem RunBack.refl (s : State) : RunBack s s := fun t ht => ⟨t, ht, rfl, fun _ _ h => h⟩

theorem RunBack.trans {a b c : State} (h1 : RunBack a b) (h2 : RunBack b c) : RunBack a c := by
  intro t'' ht''
  obtain ⟨t', ht', e2, r2⟩ := h2 t'' ht''
  obtain ⟨t, ht, e1, r1⟩ := h1 t' ht'
  exact ⟨t, ht, e2.trans e1, fun w v h => r1 w v (r2 w v h)⟩

theorem RunBack.of_tasks {a b : State} (h : b.tasks = a.tasks) : RunBack a b := by
  intro t ht; rw [h] at ht; exact ⟨t, ht, rfl, fun _ _ h => h⟩

/-- one record replaced by one that is not Running, or has the same state -/
theorem RunBack.set {a s : State} {id : TaskId} {told t' : Task} (hts : s.tasks = a.tasks)
    (hf : a.task? id = some told) (hid : t'.id = told.id)
    (hr : ∀ w v, t'.state = .running w v → told.state = .running w v) : RunBack a (s.setTask t') := by
  intro x hx
  change x ∈ putTask s.tasks t' at hx
  rw [hts] at hx
  rcases mem_putTask hx with h | h
  · subst h; exact ⟨told, findTask_some_mem hf, hid, hr⟩
  · exact ⟨x, h, rfl, fun _ _ h => h⟩

theorem lostPrefilled_rb (ids : List TaskId) (s s' : State) (h : s.lostPrefilled ids = .ok s') : RunBack s s' := by
  induction ids generalizing s with
  | nil => simp only [State.lostPrefilled] at h; cases h; exact RunBack.refl _
  | cons id rest ih =>
    simp only [State.lostPrefilled] at h
    split at h
    · cases h
    · rename_i task ht
      split at h
      · cases h
      · rename_i s2 h2
        have e : RunBack s (s.setTask { task with inst := task.inst + 1, state := .waiting 0 }) :=
          RunBack.set rfl (getTask_ok ht) rfl (fun _ _ h => by cases h)
        exact (e.trans (RunBack.of_tasks (movePrefilledToReady_tasks h2))).trans (ih _ h)

/-- the `running` list of `lostAssigned` names tasks of the list that were Running when the loop started -/
theorem lostAssigned_running (ids : List TaskId) (s s' : State) (ru ru' re re' : List TaskId)
    (h : s.lostAssigned ids ru re = .ok (s', ru', re')) :
    RunBack s s' ∧ ∀ x ∈ ru', x ∈ ru ∨ (x ∈ ids ∧ ∃ t ∈ s.tasks, t.id = x ∧ ∃ w v, t.state = .running w v) := by
  induction ids generalizing s ru re with
  | nil => simp only [State.lostAssigned] at h; cases h; exact ⟨RunBack.refl _, fun x hx => Or.inl hx⟩
  | cons id rest ih =>
    simp only [State.lostAssigned] at h
    split at h
    · cases h
    · rename_i task ht
      have ht' := getTask_ok ht
      have hw : RunBack s (s.setTask { task with inst := task.inst + 1, state := .waiting 0 }) :=
        RunBack.set rfl ht' rfl (fun _ _ h => by cases h)
      have lift : ∀ (s2 : State) (ru2 : List TaskId), RunBack s s2 →
          (∀ x ∈ ru2, x ∈ ru ∨ (x = id ∧ ∃ w v, task.state = .running w v)) →
          (RunBack s2 s' ∧ ∀ x ∈ ru', x ∈ ru2 ∨ (x ∈ rest ∧ ∃ t ∈ s2.tasks, t.id = x ∧ ∃ w v, t.state = .running w v)) →
          RunBack s s' ∧ ∀ x ∈ ru', x ∈ ru ∨ (x ∈ id :: rest ∧ ∃ t ∈ s.tasks, t.id = x ∧ ∃ w v, t.state = .running w v) := by
        intro s2 ru2 e2 hru2 ⟨a, b⟩
        refine ⟨e2.trans a, fun x hx => ?_⟩
        rcases b x hx with h1 | ⟨h1, t2, ht2, hid2, w0, v0, hs2⟩
        · rcases hru2 x h1 with h3 | ⟨h3, h4⟩
          · exact Or.inl h3
          · exact Or.inr ⟨h3 ▸ List.mem_cons_self, task, findTask_some_mem ht', h3 ▸ findTask_some_id ht', h4⟩
        · obtain ⟨t, ht0, e0, r0⟩ := e2 t2 ht2
          exact Or.inr ⟨List.mem_cons_of_mem _ h1, t, ht0, e0 ▸ hid2, w0, v0, r0 w0 v0 hs2⟩
      split at h
      · rename_i w0 v0 hs
        split at h
        · cases h
        · rename_i s2 r h2
          refine lift s2 (ru ++ [id]) (hw.trans (RunBack.of_tasks (addReady_tasks h2))) ?_ (ih _ _ _ h)
          intro x hx
          rcases List.mem_append.mp hx with h3 | h3
          · exact Or.inl h3
          · simp only [List.mem_singleton] at h3; exact Or.inr ⟨h3, w0, v0, hs⟩
      · split at h
        · cases h
        · split at h
          · cases h
          · rename_i s2 r h2
            have e : RunBack s (State.setTask { s with redirects := s.redirects.filter (·.1 ≠ id) }
                { task with inst := task.inst + 1 }) :=
              RunBack.set rfl ht' rfl (fun _ _ h => h)
            exact lift s2 ru (e.trans (RunBack.of_tasks (addReady_tasks h2))) (fun x hx => Or.inl hx) (ih _ _ _ h)
      · split at h
        · cases h
        · rename_i s2 r h2
          exact lift s2 ru (hw.trans (RunBack.of_tasks (addReady_tasks h2))) (fun x hx => Or.inl hx) (ih _ _ _ h)

/-- `on_remove_worker` up to the crash loop: nothing before the loop changes a crash counter, and the loop runs
over the list reported in the `workerLost` callback -/
theorem removeWorker_split {s s' : State} {w : Nat} {reason : String} {f : Bool} {order : List TaskId}
    {rets : List (List TaskId)} {o : Out} (hn : (taskIds s.tasks).Nodup)
    (h : s.removeWorker w reason f order rets = .ok (s', o)) :
    ∃ (s3 s4 : State) (running : List TaskId) (o3 : Out), Evo True True s s3 ∧
      (∃ x, o3.cbs = x ++ [.workerLost w running reason]) ∧
      s3.crashLoop f running rets o3 = .ok (s4, o) ∧ s'.tasks = s4.tasks ∧
      ∀ id ∈ running, ∃ t ∈ s.tasks, t.id = id ∧
        ((∃ w' v, t.state = .running w' v ∧ id ∈ asgW s.workers w) ∨ (∃ others, t.state = .runningMN (w :: others))) := by
  simp only [State.removeWorker] at h
  split at h
  · cases h
  · rename_i wk hw
    split at h
    · cases h
    · rename_i s1 running retracted hp1
      have e1 : Evo True True s s1 ∧ taskIds s1.tasks = taskIds s.tasks ∧
          ∀ id ∈ running, ∃ t ∈ s.tasks, t.id = id ∧
            ((∃ w' v, t.state = .running w' v ∧ id ∈ asgW s.workers w) ∨
             (∃ others, t.state = .runningMN (w :: others))) := by
        clear h
        split at hp1
        · rename_i A F P ha
          split at hp1
          · cases hp1
          · rename_i hperm
            simp only [Bool.not_eq_true, Bool.not_eq_false, Bool.and_eq_true, Bool.not_eq_eq_eq_not, Bool.not_true,
              Bool.not_false] at hperm
            split at hp1
            · cases hp1
            · rename_i sp hlp
              have a := lostPrefilled_evo (nw := True) (cr := True) _ _ _ hlp
              have b := lostAssigned_evo (nw := True) (cr := True) _ _ _ _ _ _ _ hp1
              have c := lostPrefilled_ids _ _ _ hlp
              refine ⟨a.trans b, (lostAssigned_ids _ _ _ _ _ _ _ hp1).trans c, ?_⟩
              intro id hid
              obtain ⟨_, hr⟩ := lostAssigned_running _ _ _ _ _ _ _ hp1
              rcases hr id hid with h1 | ⟨h1, t2, ht2, hid2, w0, v0, hs2⟩
              · cases h1
              · obtain ⟨t, ht0, e0, r0⟩ := lostPrefilled_rb _ _ _ hlp t2 ht2
                refine ⟨t, ht0, e0 ▸ hid2, Or.inl ⟨w0, v0, r0 w0 v0 hs2, ?_⟩⟩
                have hA : asgW s.workers w = A := by rw [asgW_of_find hw]; simp [wAsg, ha]
                rw [hA]
                have h1' : order.all A.contains = true := by
                  have := hperm
                  simp only [Bool.and_eq_true, decide_eq_true_eq] at this
                  exact this.1.1
                exact mem_of_all_contains h1' id h1
        · split at hp1
          · cases hp1
          · rename_i task ht
            have ht' : s.task? _ = some task := getTask_ok ht
            split at hp1
            · rename_i ws hs
              split at hp1
              · rename_i root others
                split at hp1
                · rename_i hroot
                  split at hp1
                  · cases hp1
                  · rename_i sr hr
                    split at hp1
                    · cases hp1
                    · rename_i s3 r h3
                      cases hp1
                      have hts : sr.tasks = s.tasks := by have := resetMnAll_tasks _ _ _ hr; exact this
                      have e : Evo True True s (sr.setTask { task with state := .waiting 0, inst := task.inst + 1 }) :=
                        Evo.set hts ht' (TRel.bump task _ (by simp))
                      refine ⟨e.trans (Evo.of_tasks (addReady_tasks h3)), ?_, ?_⟩
                      · rw [addReady_tasks h3, setTask_ids, hts]
                      · intro id hid
                        split at hid
                        · simp only [List.mem_singleton] at hid
                          subst hid
                          exact ⟨task, findTask_some_mem ht', findTask_some_id ht', Or.inr ⟨others, by rw [hs, hroot]⟩⟩
                        · cases hid
                · rename_i hroot
                  cases hp1
                  exact ⟨Evo.set (s := { s with workers := _ }) rfl ht'
                    (TRel.filterMN task hs hroot), setTask_ids _ _, fun _ hid => by cases hid⟩
              · cases hp1
            · cases hp1
      have hn1 : (taskIds s1.tasks).Nodup := e1.2.1 ▸ hn
      split at h
      · cases h
      · rename_i s2 out1 h2
        obtain ⟨l, a2, b2, e2, t2⟩ := lostRetracting_fx (nw := True) (cr := True) _ _ _ _ _ _ hn1 h2
        split at h
        · cases h
        · rename_i s3 out2 h3
          obtain ⟨e3, a3, b3⟩ := retract_evo (nw := True) (cr := True) h3
          split at h
          · cases h
          · rename_i s4 out h4
            cases h
            exact ⟨s3, s4, running, _, (e1.1.trans e2).trans e3, ⟨out1.cbs ++ out2.cbs, by simp⟩, h4, rfl, e1.2.2⟩

/-- **the crash counter changes only by a failure loss, and only for a task reported as running there**: for an
operation `removeWorker w reason f order rets`, a task whose crash counter differs before and after is named in the
`running` list of the `workerLost` callback of this operation, `f = true`, and the counter grew -/
theorem removeWorker_crash {s s' : State} {w : Nat} {reason : String} {f : Bool} {order : List TaskId}
    {rets : List (List TaskId)} {o : Out} (hi : Inv s)
    (h : s.removeWorker w reason f order rets = .ok (s', o)) {id : TaskId} {t t' : Task}
    (ht : s.task? id = some t) (ht' : s'.task? id = some t') (hne : t'.crashes ≠ t.crashes) :
    f = true ∧ t.crashes < t'.crashes ∧ (∃ running, Cb.workerLost w running reason ∈ o.cbs ∧ id ∈ running) ∧
    ((∃ v, t.state = .running w v) ∨ (∃ others, t.state = .runningMN (w :: others))) := by
  have hn := hi.nd
  obtain ⟨s3, s4, running, o3, e, ⟨x, hx⟩, hcl, hts, hrun⟩ := removeWorker_split hn h
  obtain ⟨⟨y, hy⟩, hc⟩ := crashLoop_only _ _ _ _ _ _ _ hcl
  have hm : t' ∈ s4.tasks := hts ▸ findTask_some_mem ht'
  obtain ⟨t3, ht3, e3, hc3⟩ := hc t' hm
  obtain ⟨t0, ht0, r⟩ := e t3 ht3
  have hf0 := mem_find_of_nodup hn ht0
  rw [← r.id, ← e3, findTask_some_id ht'] at hf0
  have : some t0 = some t := hf0.symm.trans ht
  cases this
  have hne3 : t'.crashes ≠ t3.crashes := by rw [r.creq trivial]; exact hne
  obtain ⟨a, b⟩ := hc3 hne3
  have hidr : id ∈ running := findTask_some_id ht' ▸ a
  refine ⟨b, ?_, ⟨running, ?_, hidr⟩, ?_⟩
  · have := (step_crashes (op := .removeWorker w reason f order rets) hn h (by simp [Op.newIds]) ht ht').2.1
    omega
  · rw [hy, hx]; simp
  · obtain ⟨tr, htr, hidt, hst⟩ := hrun id hidr
    have hfr := mem_find_of_nodup hn htr
    rw [hidt] at hfr
    have : some tr = some t := hfr.symm.trans ht
    cases this
    rcases hst with ⟨w', v, hs, hm⟩ | hmn
    · left
      obtain ⟨st, h1, h2⟩ := hi.ls.a1 w id hm
      rw [stOf_of_find ht, hs] at h1
      cases h1
      simp only [Holds_running] at h2
      exact ⟨v, by rw [hs, h2]⟩
    · exact Or.inr hmn

end HqModel.Core
